(* Theorems about the model of look_sysfsnode (Text/LinuxNode.v), for EVERY content of the sysfs files and
   directories (well formed or not) and every configuration. *)
From Coq Require Import List NArith ZArith Bool String Lia.
From HV Require Import Base.BSet Base.Bytes Base.Strto Gen.Tables Text.LinuxParse Text.LinuxNode.
Import ListNotations.
Local Open Scope N_scope.

(* ---------- sets ---------- *)
Definition sub (a b : bset) : Prop := forall i, mem i a = true -> mem i b = true.
Lemma sub_refl a : sub a a. Proof. intros i H; exact H. Qed.
Lemma sub_empty U : sub bs_empty U. Proof. intros i H. rewrite mem_empty in H. discriminate. Qed.
Lemma sub_union a b U : sub a U -> sub b U -> sub (bs_union a b) U.
Proof. intros Ha Hb i H. rewrite mem_union in H. apply orb_true_iff in H as [H|H]; auto. Qed.
Lemma sub_union_l a b : sub a (bs_union a b).
Proof. intros i H. rewrite mem_union, H. reflexivity. Qed.
Lemma sub_union_r a b : sub b (bs_union a b).
Proof. intros i H. rewrite mem_union, H. apply orb_true_r. Qed.
Lemma sub_trans a b c : sub a b -> sub b c -> sub a c.
Proof. intros H1 H2 i H. auto. Qed.

(* ---------- lists ---------- *)
Lemma in_firstn {A} (x : A) n l : In x (firstn n l) -> In x l.
Proof. intros H. rewrite <- (firstn_skipn n l). apply in_or_app. now left. Qed.
Lemma in_skipn {A} (x : A) n l : In x (skipn n l) -> In x l.
Proof. intros H. rewrite <- (firstn_skipn n l). apply in_or_app. now right. Qed.
Lemma nth_some_in {A} (l : list (option A)) i x : nth i l None = Some x -> In (Some x) l.
Proof.
  intros H. destruct (Nat.lt_ge_cases i (List.length l)) as [Hlt|Hge].
  - rewrite <- H. now apply nth_In.
  - rewrite nth_overflow in H by exact Hge. discriminate.
Qed.
Lemma in_set_nth {A} (l : list A) i x y : In y (set_nth l i x) -> y = x \/ In y l.
Proof.
  unfold set_nth. intros H. apply in_app_or in H as [H|[H|H]].
  - right. eapply in_firstn, H.
  - left. now symmetry.
  - right. eapply in_skipn, H.
Qed.

(* ---------- all cpusets stay inside a bound ---------- *)
Definition slot_in (U : bset) (o : option (N * bset)) : Prop := match o with Some (_, cs) => sub cs U | None => True end.
Definition within (U : bset) (nodes : list (option (N * bset))) : Prop := forall o, In o nodes -> slot_in U o.

Lemma within_nth U nodes i os cs : within U nodes -> nth i nodes None = Some (os, cs) -> sub cs U.
Proof. intros W H. exact (W _ (nth_some_in _ _ _ H)). Qed.
Lemma within_set_nth U nodes i x : within U nodes -> slot_in U x -> within U (set_nth nodes i x).
Proof. intros W Hx o Ho. apply in_set_nth in Ho as [->|Ho]; auto. Qed.

Lemma fold_left_inv {A B} (P : A -> Prop) (f : A -> B -> A) l a :
  P a -> (forall a b, P a -> In b l -> P (f a b)) -> P (fold_left f l a).
Proof.
  revert a. induction l as [|b l IH]; intros a Ha Hf; cbn [fold_left]; [exact Ha|].
  apply IH; [apply Hf; [exact Ha|now left]|]. intros a' b' Ha' Hb'. apply Hf; [exact Ha'|now right].
Qed.

Lemma initiators_sub v U nodes os u : within U nodes -> initiators_cpuset v nodes os = Some u -> sub u U.
Proof.
  intros W. unfold initiators_cpuset.
  destruct (match nf_acc1 (find_node v os) with Some l => Some l | None => nf_acc0 (find_node v os) end) as [names|]; [|discriminate].
  intros E; injection E as <-.
  apply fold_left_inv; [apply sub_empty|]. intros acc nm Hacc _.
  destruct (initiator_index nm) as [x|]; [|exact Hacc].
  destruct (x =? os); [exact Hacc|].
  destruct (find _ nodes) as [[[o' cs]|]|] eqn:F; try exact Hacc.
  apply find_some in F as [Hin _]. apply sub_union; [exact Hacc|exact (W _ Hin)].
Qed.

Lemma cpuless_sub m U nodes i u : within U nodes -> cpuless_from_distances m nodes i = Some u -> sub u U.
Proof.
  intros W. unfold cpuless_from_distances.
  set (others := filter _ _).
  destruct (fold_left _ others (UINTMAX, 0%nat)) as [mn nb].
  destruct ((mn <=? dist_at m i i) || (mn =? UINTMAX) || Nat.eqb nb (List.length nodes - 1)); [discriminate|].
  intros E; injection E as <-.
  apply fold_left_inv; [apply sub_empty|]. intros acc j Hacc _.
  destruct (dist_at m i j =? mn); [|exact Hacc].
  destruct (nth j nodes None) as [[o' cs]|] eqn:N; [|exact Hacc].
  apply sub_union; [exact Hacc|exact (within_nth _ _ _ _ _ W N)].
Qed.

(* ---------- the requests are whole trees ---------- *)
Definition trees_of (v : nview) (l : list (N * bset)) : list mreq := flat_map (fun p => tree_requests v (fst p) (snd p)) l.
Definition trees_in (U : bset) (l : list (N * bset)) : Prop := forall p, In p l -> sub (snd p) U.

Lemma trees_of_app v a b : trees_of v (a ++ b) = trees_of v a ++ trees_of v b.
Proof. unfold trees_of. apply flat_map_app. Qed.

Definition state_ok (v : nview) (U : bset) (st : list (option (N * bset)) * list mreq) : Prop :=
  within U (fst st) /\ exists l, snd st = trees_of v l /\ trees_in U l.

Lemma state_ok_step v U nodes reqs i os cs' :
  state_ok v U (nodes, reqs) -> sub cs' U ->
  state_ok v U (set_nth nodes i (Some (os, cs')), reqs ++ tree_requests v os cs').
Proof.
  intros [W [l [E T]]] Hs. cbn [fst snd] in *. split.
  - apply within_set_nth; [exact W|exact Hs].
  - exists (l ++ [(os, cs')]). split.
    + rewrite trees_of_app, E. unfold trees_of. cbn [flat_map fst snd]. now rewrite app_nil_r.
    + intros p Hp. apply in_app_or in Hp as [Hp|[<-|[]]]; [exact (T _ Hp)|exact Hs].
Qed.

Lemma pass1_ok v U nodes : within U nodes -> state_ok v U (pass1 v nodes).
Proof.
  intros W. unfold pass1.
  apply (fold_left_inv (state_ok v U)).
  - split; [exact W|]. exists []. split; [reflexivity|]. intros p [].
  - intros [nd rq] i Hst _. destruct (nth i nd None) as [[os cs]|] eqn:N; [|exact Hst].
    destruct (is_zero cs); [exact Hst|].
    apply state_ok_step; [exact Hst|].
    destruct Hst as [W' _]. cbn [fst] in W'. pose proof (within_nth _ _ _ _ _ W' N) as Hcs.
    destruct (use_init v); [|exact Hcs].
    destruct (initiators_cpuset v nd os) as [u|] eqn:I; [|exact Hcs].
    apply sub_union; [exact Hcs|exact (initiators_sub _ _ _ _ _ W' I)].
Qed.

Lemma pass2_ok v U dist nodes reqs : state_ok v U (nodes, reqs) -> state_ok v U (pass2 v dist nodes reqs).
Proof.
  intros H0. unfold pass2.
  apply (fold_left_inv (state_ok v U)); [exact H0|].
  intros [nd rq] i Hst _. destruct (nth i nd None) as [[os cs]|] eqn:N; [|exact Hst].
  destruct (is_zero cs); [|exact Hst].
  apply state_ok_step; [exact Hst|].
  destruct Hst as [W' _]. cbn [fst] in W'. pose proof (within_nth _ _ _ _ _ W' N) as Hcs.
  assert (Hd : forall c, sub c U ->
            sub (match dist with
                 | Some m => if nv_dcl v then match cpuless_from_distances m nd i with Some u => bs_union c u | None => c end else c
                 | None => c end) U).
  { intros c Hc. destruct dist as [m|]; [|exact Hc]. destruct (nv_dcl v); [|exact Hc].
    destruct (cpuless_from_distances m nd i) as [u|] eqn:D; [|exact Hc].
    apply sub_union; [exact Hc|exact (cpuless_sub _ _ _ _ _ W' D)]. }
  destruct (use_init v).
  - destruct (initiators_cpuset v nd os) as [u|] eqn:I.
    + assert (Hc1 : sub (bs_union cs u) U) by (apply sub_union; [exact Hcs|exact (initiators_sub _ _ _ _ _ W' I)]).
      destruct (negb (is_zero (bs_union cs u))); [exact Hc1|apply Hd, Hc1].
    + apply Hd, Hcs.
  - apply Hd, Hcs.
Qed.

(* the union of the cpumaps of the nodes that were created *)
Definition created_union (nodes : list (option (N * bset))) : bset :=
  fold_right (fun o acc => match o with Some (_, cs) => bs_union cs acc | None => acc end) bs_empty nodes.
Lemma within_created_union nodes : within (created_union nodes) nodes.
Proof.
  induction nodes as [|o l IH]; intros x Hx; [destruct Hx|].
  cbn [created_union fold_right]. fold (created_union l).
  destruct Hx as [<-|Hx].
  - destruct o as [[os cs]|]; [apply sub_union_l|exact I].
  - specialize (IH _ Hx). destruct x as [[os' cs']|]; [|exact I]. cbn [slot_in] in *.
    destruct o as [[os cs]|]; [eapply sub_trans; [exact IH|apply sub_union_r]|exact IH].
Qed.

(* unfolding of linux_node_requests when it answers *)
Lemma requests_inv v l : linux_node_requests v = Requests l ->
  l = [] \/ exists indexes dist, list_nodes v = inl (Some indexes) /\
        l = snd (pass2 v dist (fst (pass1 v (final_nodes v indexes))) (snd (pass1 v (final_nodes v indexes)))).
Proof.
  unfold linux_node_requests. destruct (list_nodes v) as [[indexes|]|why]; [|intros E; injection E as <-; now left|discriminate].
  destruct (if nv_dist v && negb (Nat.leb (List.length indexes) 1) then parse_rows v (List.length indexes) indexes else inl None) as [dist|why]; [|discriminate].
  destruct (nv_knl v); [discriminate|].
  destruct (pass1 v (final_nodes v indexes)) as [nodes1 reqs1] eqn:P1.
  destruct (pass2 v dist nodes1 reqs1) as [nodes2 reqs2] eqn:P2.
  intros E; injection E as <-. right. exists indexes, dist. split; [reflexivity|]. rewrite P1. cbn [fst snd]. now rewrite P2.
Qed.

Lemma requests_are_trees v l : linux_node_requests v = Requests l ->
  exists indexes trees, (l = [] \/ list_nodes v = inl (Some indexes)) /\
    l = trees_of v trees /\ trees_in (created_union (final_nodes v indexes)) trees.
Proof.
  intros H. apply requests_inv in H as [->|[indexes [dist [L ->]]]].
  - exists [], []. split; [now left|]. split; [reflexivity|intros p []].
  - set (nodes := final_nodes v indexes). set (U := created_union nodes).
    pose proof (pass1_ok v U nodes (within_created_union nodes)) as H1.
    destruct (pass1 v nodes) as [nodes1 reqs1]. cbn [fst snd].
    pose proof (pass2_ok v U dist nodes1 reqs1 H1) as [_ [trees [E T]]].
    exists indexes, trees. split; [now right|]. split; [exact E|exact T].
Qed.

(* ---------- shape of one tree ---------- *)
(* executable statement: NUMA nodeset = {os}; a MemCache is immediately followed by a MemCache or the NUMA node, with
   the same cpuset and nodeset (hence, down its chain, by the NUMA node it fronts); the list does not end on a MemCache *)
Fixpoint mchain_ok (l : list mreq) : bool :=
  match l with
  | [] => true
  | r :: tl =>
      (if r_type r =? HWLOC_OBJ_NUMANODE then bs_eqb (r_ns r) (bs_single (r_os r))
       else if r_type r =? HWLOC_OBJ_MEMCACHE then
         match tl with
         | r' :: _ => ((r_type r' =? HWLOC_OBJ_MEMCACHE) || (r_type r' =? HWLOC_OBJ_NUMANODE)) && bs_eqb (r_cs r) (r_cs r') && bs_eqb (r_ns r) (r_ns r')
         | [] => false
         end
       else false) && mchain_ok tl
  end.

Lemma bs_eqb_refl a : bs_eqb a a = true. Proof. now apply bs_eqb_spec. Qed.

Lemma mchain_tree v os cs rest : mchain_ok rest = true -> mchain_ok (tree_requests v os cs ++ rest) = true.
Proof.
  intros Hr. unfold tree_requests.
  set (caches := if need_msc v then map _ (mscaches v os) else []).
  assert (Hc : forall c, In c caches -> r_type c = HWLOC_OBJ_MEMCACHE /\ r_cs c = cs /\ r_ns c = bs_single os).
  { subst caches. destruct (need_msc v); [|intros c []]. intros c Hc. apply in_map_iff in Hc as [[d sz] [<- _]]. now cbn. }
  clearbody caches. rewrite <- app_assoc. cbn [app].
  induction caches as [|c cl IH].
  - cbn [app mchain_ok r_type r_ns r_os]. rewrite N.eqb_refl, bs_eqb_refl. exact Hr.
  - destruct (Hc c (or_introl eq_refl)) as [Ht [Hcs Hns]].
    assert (IH' := IH (fun c' H' => Hc c' (or_intror H'))).
    cbn [app]. cbn [mchain_ok]. rewrite Ht. change (HWLOC_OBJ_MEMCACHE =? HWLOC_OBJ_NUMANODE) with false. rewrite N.eqb_refl.
    destruct cl as [|c2 cl'].
    + cbn [app] in *. cbn [r_type r_cs r_ns]. rewrite N.eqb_refl, orb_true_r, Hcs, Hns, !bs_eqb_refl. exact IH'.
    + destruct (Hc c2 (or_intror (or_introl eq_refl))) as [Ht2 [Hcs2 Hns2]].
      cbn [app] in *. rewrite Ht2, N.eqb_refl, Hcs, Hns, Hcs2, Hns2, !bs_eqb_refl. exact IH'.
Qed.

Lemma mchain_trees v l : mchain_ok (trees_of v l) = true.
Proof.
  induction l as [|p l IH]; [reflexivity|]. unfold trees_of. cbn [flat_map]. apply mchain_tree. exact IH.
Qed.

Lemma requests_chain_ok v l : linux_node_requests v = Requests l -> mchain_ok l = true.
Proof. intros H. destruct (requests_are_trees v l H) as [_ [trees [_ [-> _]]]]. apply mchain_trees. Qed.

(* the Prop reading of mchain_ok *)
Lemma mchain_ok_numa l pre r post : mchain_ok l = true -> l = pre ++ r :: post ->
  r_type r = HWLOC_OBJ_NUMANODE -> r_ns r = bs_single (r_os r).
Proof.
  revert l. induction pre as [|x pre IH]; intros l H -> Ht.
  - cbn [app mchain_ok] in H. rewrite Ht, N.eqb_refl in H. apply andb_true_iff in H as [H _]. now apply bs_eqb_spec.
  - cbn [app mchain_ok] in H. apply andb_true_iff in H as [_ H]. exact (IH _ H eq_refl Ht).
Qed.
Lemma mchain_ok_memcache l pre r post : mchain_ok l = true -> l = pre ++ r :: post ->
  r_type r = HWLOC_OBJ_MEMCACHE ->
  exists r' post', post = r' :: post' /\ (r_type r' = HWLOC_OBJ_MEMCACHE \/ r_type r' = HWLOC_OBJ_NUMANODE) /\
                   r_cs r' = r_cs r /\ r_ns r' = r_ns r.
Proof.
  revert l. induction pre as [|x pre IH]; intros l H -> Ht.
  - cbn [app mchain_ok] in H. rewrite Ht in H. change (HWLOC_OBJ_MEMCACHE =? HWLOC_OBJ_NUMANODE) with false in H. rewrite N.eqb_refl in H.
    destruct post as [|r' post']; [discriminate|]. apply andb_true_iff in H as [H _].
    apply andb_true_iff in H as [H Hn]. apply andb_true_iff in H as [Hty Hc].
    exists r', post'. split; [reflexivity|]. split.
    + apply orb_true_iff in Hty as [E|E]; apply N.eqb_eq in E; auto.
    + apply bs_eqb_spec in Hc, Hn. now split.
  - cbn [app mchain_ok] in H. apply andb_true_iff in H as [_ H]. exact (IH _ H eq_refl Ht).
Qed.

(* every cpuset of a request is made of cpumaps of created nodes *)
Lemma requests_within_created v l : linux_node_requests v = Requests l ->
  exists indexes, (l = [] \/ list_nodes v = inl (Some indexes)) /\
    forall r, In r l -> sub (r_cs r) (created_union (final_nodes v indexes)).
Proof.
  intros H. destruct (requests_are_trees v l H) as [indexes [trees [Hl [-> T]]]].
  exists indexes. split; [exact Hl|]. intros r Hr. unfold trees_of in Hr. apply in_flat_map in Hr as [p [Hp Hr]].
  assert (r_cs r = snd p).
  { unfold tree_requests in Hr. apply in_app_or in Hr as [Hr|[<-|[]]]; [|reflexivity].
    destruct (need_msc v); [|destruct Hr]. apply in_map_iff in Hr as [[d sz] [<- _]]. reflexivity. }
  rewrite H0. exact (T _ Hp).
Qed.

(* ---------- the created nodes do not overlap unless the override is set ---------- *)
Definition disjoint_slots (a b : option (N * bset)) : Prop :=
  match a, b with Some (_, x), Some (_, y) => bs_intersects x y = false | _, _ => True end.

Lemma intersects_sub_false seen x y : sub x seen -> bs_intersects seen y = false -> bs_intersects x y = false.
Proof.
  intros Hs Hf. destruct (bs_intersects x y) eqn:E; [|reflexivity].
  apply bs_intersects_spec in E as [i [Hx Hy]].
  assert (bs_intersects seen y = true) by (apply bs_intersects_spec; exists i; split; [apply Hs, Hx|exact Hy]). congruence.
Qed.

Lemma intersects_sub_false_r x y y' : sub y' y -> bs_intersects x y = false -> bs_intersects x y' = false.
Proof.
  intros Hs Hf. destruct (bs_intersects x y') eqn:E; [|reflexivity].
  apply bs_intersects_spec in E as [i [Hx Hy]].
  assert (bs_intersects x y = true) by (apply bs_intersects_spec; exists i; split; [exact Hx|apply Hs, Hy]). congruence.
Qed.
Lemma existing_sub v cs : sub (existing v cs) cs.
Proof. unfold existing. destruct (is_zero (nv_pus v)); [apply sub_refl|]. intros i H. rewrite mem_inter in H. now apply andb_true_iff in H. Qed.

Lemma create_nodes_disjoint v indexes : allow_overlap v = 0%Z -> ForallOrdPairs disjoint_slots (create_nodes v indexes).
Proof.
  intros Ha. unfold create_nodes.
  assert (G : forall idx acc seen, ForallOrdPairs disjoint_slots acc -> within seen acc ->
             ForallOrdPairs disjoint_slots (fst (fold_left (fun '(acc, seen) os =>
               match read_mask (nf_cpumap (find_node v os)) with
               | None => (acc ++ [None], seen)
               | Some cs => if bs_intersects seen cs && (allow_overlap v =? 0)%Z then (acc ++ [None], seen)
                            else (acc ++ [Some (os, existing v cs)], bs_union seen cs)
               end) idx (acc, seen)))).
  { assert (App : forall acc x, ForallOrdPairs disjoint_slots acc -> (forall y, In y acc -> disjoint_slots y x) ->
                   ForallOrdPairs disjoint_slots (acc ++ [x])).
    { induction acc as [|a acc IH]; intros x F Hx; cbn [app]; [constructor; [constructor|constructor]|].
      inversion F as [|a' l' Ha' F']; subst. constructor.
      - apply Forall_app. split; [exact Ha'|]. constructor; [apply Hx; now left|constructor].
      - apply IH; [exact F'|]. intros y Hy. apply Hx. now right. }
    induction idx as [|os idx IH]; intros acc seen F W; cbn [fold_left]; [exact F|].
    destruct (read_mask (nf_cpumap (find_node v os))) as [cs|].
    - destruct (bs_intersects seen cs && (allow_overlap v =? 0)%Z) eqn:Hi0;
        [|assert (Hi : bs_intersects seen cs = false) by (rewrite Ha in Hi0; change (0 =? 0)%Z with true in Hi0; now rewrite andb_true_r in Hi0)].
      + apply IH; [apply App; [exact F|intros y _; now destruct y as [[? ?]|]]|].
        intros o Ho. apply in_app_or in Ho as [Ho|[<-|[]]]; [exact (W _ Ho)|exact I].
      + apply IH.
        * apply App; [exact F|]. intros y Hy. specialize (W _ Hy). destruct y as [[o' c']|]; [|exact I].
          cbn [disjoint_slots slot_in] in *. eapply intersects_sub_false_r; [apply existing_sub|].
          eapply intersects_sub_false; [exact W|exact Hi].
        * intros o Ho. apply in_app_or in Ho as [Ho|[<-|[]]].
          -- specialize (W _ Ho). destruct o as [[o' c']|]; [|exact I]. cbn [slot_in] in *. eapply sub_trans; [exact W|apply sub_union_l].
          -- cbn [slot_in]. eapply sub_trans; [apply existing_sub|apply sub_union_r].
    - apply IH; [apply App; [exact F|intros y _; now destruct y as [[? ?]|]]|].
      intros o Ho. apply in_app_or in Ho as [Ho|[<-|[]]]; [exact (W _ Ho)|exact I]. }
  apply G; [constructor|intros o []].
Qed.

(* ---------- the listed indexes are pairwise distinct ---------- *)
Lemma pos_bits_ge p : forall i x, In x (pos_bits p i) -> i <= x.
Proof.
  induction p as [q IH|q IH|]; intros i x H; cbn [pos_bits] in H.
  - destruct H as [<-|H]; [lia|]. apply IH in H. lia.
  - apply IH in H. lia.
  - destruct H as [<-|[]]. lia.
Qed.
Lemma pos_bits_nodup p : forall i, NoDup (pos_bits p i).
Proof.
  induction p as [q IH|q IH|]; intros i; cbn [pos_bits].
  - constructor; [|apply IH]. intros H. apply pos_bits_ge in H. lia.
  - apply IH.
  - constructor; [intros []|constructor].
Qed.
Lemma elements_nodup s : NoDup (elements s).
Proof. unfold elements. destruct (fin s); [constructor|apply pos_bits_nodup]. Qed.

Lemma list_nodes_nodup v indexes : list_nodes v = inl (Some indexes) -> NoDup indexes.
Proof.
  unfold list_nodes.
  set (from_dir := match nv_dir v with None => _ | Some names => _ end).
  assert (Hd : from_dir = inl (Some indexes) -> NoDup indexes).
  { subst from_dir. destruct (nv_dir v) as [names|]; [|discriminate].
    destruct (existsb _ _); [discriminate|].
    destruct (flat_map _ names); [discriminate|]. intros E; injection E as <-. apply elements_nodup. }
  destruct (read_list (nv_online v)) as [s|]; [|exact Hd].
  destruct (inf s); [exact Hd|]. destruct (N.size (fin s) <=? LIMIT); [|discriminate].
  destruct (elements s) as [|e els] eqn:E; [exact Hd|].
  intros H; injection H as <-. rewrite <- E. apply elements_nodup.
Qed.
