(* C07: safety of the second half of hwloc_backend_synthetic_init (default attributes,
   hwloc_synthetic_process_indexes) -- needs two invariants established by the first half:
   every stored index string is followed by a ')' inside the description, and every level
   above the last one has an assigned arity. *)
From Coq Require Import String NArith ZArith List Bool Lia.
From Coq Require Import ZifyBool ZifyN ZifyNat.
From HV Require Import Base.Bytes Base.Strto Gen.Tables Text.Synthetic Text.SyntheticProofs.
Import ListNotations.
Local Open Scope N_scope.

(* a successful comparison with a literal none of whose (folded) bytes is ')' cannot step over a ')' *)
Lemma strncmp_stop fold s n a na p : fold_ok fold -> cstring s n -> cstring a na -> rd s p = Some 41 ->
  forall k i j, i + N.of_nat k <= na -> j <= p -> p <= n ->
  (forall m x, i <= m < i + N.of_nat k -> rd a m = Some x -> fold x <> fold 41) ->
  strncmp_f fold k a i s j = Ok None -> j + N.of_nat k <= p.
Proof.
  intros Hf Hs Ha Hp. induction k as [|k IH]; intros i j Hik Hj Hpn Hne; cbn [strncmp_f]; [lia|].
  destruct Ha as [Ha0 Hak]. destruct (Hak i) as [x [Hx Nx]]; [lia|].
  destruct (rd_in s n Hs j ltac:(lia)) as [y [Hy Zy]]. unfold rdr. rewrite Hx, Hy. cbn [bind].
  destruct (fold x =? fold y) eqn:E; cbn [negb]; [|discriminate].
  destruct (N.eqb_spec x 0) as [->|_]; [congruence|].
  apply N.eqb_eq in E.
  assert (Hjp : j <> p). { intros ->. rewrite Hp in Hy. injection Hy as <-. apply (Hne i x); [lia|exact Hx|exact E]. }
  intros Hr. assert (N.succ j + N.of_nat k <= p); [|lia].
  apply (IH (N.succ i) (N.succ j)); try lia; [|exact Hr].
  intros m z Hm Hz. apply (Hne m z); [lia|exact Hz].
Qed.

Definition lit_no41 (fold : N -> N) (lit : string) : bool :=
  forallb (fun x => negb (fold x =? fold 41)) (bytes_of_string lit).

Lemma prefix_stop_gen fold s n lit i p : fold_ok fold -> cstring s n -> rd s p = Some 41 -> p <= n ->
  nonul (bytes_of_string lit) = true -> lit_no41 fold lit = true -> i <= p ->
  cmp_eq (strncmp_f fold (N.to_nat (len (bytes_of_string lit))) (cstr lit) 0 s i) = Ok true ->
  i + len (bytes_of_string lit) <= p.
Proof.
  intros Hf Hs Hp Hpn Hl H41 Hi E. unfold cmp_eq in E.
  destruct (strncmp_f _ _ _ _ _ _) as [[q|]|] eqn:E'; cbn [bind] in E; try discriminate.
  pose proof (strncmp_stop fold s n (cstr lit) _ p Hf Hs (lit_cstring lit Hl) Hp (N.to_nat (len (bytes_of_string lit))) 0 i) as H.
  rewrite N2Nat.id in H. apply H; try lia; [|exact E'].
  intros m x Hm Hx. unfold cstr in Hx. rewrite rd_app_l in Hx by lia.
  unfold lit_no41 in H41. rewrite forallb_forall in H41.
  assert (Hin : In x (bytes_of_string lit)) by (unfold rd in Hx; eapply nth_error_In; eauto).
  specialize (H41 x Hin). lia.
Qed.

Section Attrs.
Variables (v : variant) (s : list N) (n : N).
Hypothesis Hs : cstring s n.
Notation spec := (spec0 (tm_ok v s)).
Variable p : N.
Hypothesis Hp : rd s p = Some 41.
Hypothesis Hpn : p < n.

Lemma has_prefix_stop lit i : nonul (bytes_of_string lit) = true -> lit_no41 (fun x => x) lit = true -> i <= p ->
  spec (fun b => b = true -> i + len (bytes_of_string lit) <= p) (lift (has_prefix lit s i)).
Proof.
  intros Hl H41 Hi. pose proof (has_prefix_spec' v s n Hs lit i Hl ltac:(lia)) as H.
  unfold has_prefix, strncmp in *. destruct (cmp_eq _) as [b|] eqn:E; [|exact H]. cbn. intros ->.
  eapply (prefix_stop_gen (fun x => x)); eauto using fold_ok_id. lia.
Qed.
Lemma has_prefix_nocase_stop lit i : nonul (bytes_of_string lit) = true -> lit_no41 tolower lit = true -> i <= p ->
  spec (fun b => b = true -> i + len (bytes_of_string lit) <= p) (lift (has_prefix_nocase lit s i)).
Proof.
  intros Hl H41 Hi. pose proof (has_prefix_nocase_spec v s n Hs lit i Hl ltac:(lia)) as H.
  unfold has_prefix_nocase, strncasecmp in *. destruct (cmp_eq _) as [b|] eqn:E; [|exact H]. cbn. intros ->.
  eapply (prefix_stop_gen tolower); eauto using fold_ok_tolower. lia.
Qed.

Lemma apply_unit_stop e size us : e <= p ->
  Forall (fun u => nonul (bytes_of_string (fst u)) = true /\ lit_no41 tolower (fst u) = true) us ->
  spec (fun r => e <= snd r <= p) (apply_unit s e size us).
Proof.
  intros He. induction us as [|[u m] r IH]; intros Hu; cbn [apply_unit]; [simpl; lia|].
  inversion Hu as [|x l [Hu1 Hu1'] Hu2]; subst. cbn [fst] in *.
  eapply spec_bind; [apply has_prefix_nocase_stop; assumption|].
  intros [|] Hq; [specialize (Hq eq_refl); unfold spec0; cbn [snd]; lia | apply IH; exact Hu2].
Qed.
Lemma parse_memory_attr_stop i : i <= p -> spec (fun r => i <= snd r <= p) (parse_memory_attr s i).
Proof.
  intros Hi. unfold parse_memory_attr.
  destruct (strtoul_ok s n i 0 Hs ltac:(lia)) as [x [e [E [He _]]]].
  unfold strtoull. rewrite E. cbn [lift obind fst snd].
  pose proof (strtoul_le_stop s n i 0 p 41 x e Hs Hi Hp stopc_41 E) as Hle.
  eapply spec_weaken; [apply apply_unit_stop; [exact Hle|repeat constructor]|]. intros a Ha. cbv beta in Ha. lia.
Qed.

(* indexes.string as stored: inside the description, ended by a byte that is not ':',
   and followed (at or after its start) by a ')' *)
Definition istr_ok (is : option (N * N)) : Prop :=
  match is with
  | None => True
  | Some (a, l) => a + l <= n /\ (exists c, rd s (a + l) = Some c /\ c <> 58) /\
                   exists q, a <= q /\ q < n /\ rd s q = Some 41
  end.

Lemma strcspn_stop i : i <= p ->
  spec (fun l => i + l <= p /\ exists c, rd s (i + l) = Some c /\ c <> 58) (lift (strcspn s i [32; 41])).
Proof.
  intros Hi. unfold strcspn.
  destruct (scan_while_ok (fun b => negb (b =? 0) && negb (mem_byte b [32; 41])) s n i Hs ltac:(lia) eq_refl) as [j [E H]].
  rewrite E. cbn [bind lift]. unfold spec0.
  pose proof (scan_le_stop _ _ _ _ _ _ E Hi Hp eq_refl) as Hj.
  apply scan_while_spec in E. destruct E as [Hij [[b [Hb Pb]] _]].
  replace (i + (j - i)) with j by lia. split; [lia|]. exists b. split; [exact Hb|].
  intros ->. discriminate.
Qed.

Lemma parse_attrs_f_ok ty : forall fuel a mem msc istr, a <= p -> (N.to_nat (n - a) < fuel)%nat -> istr_ok istr ->
  spec (fun r => istr_ok (snd r)) (parse_attrs_f fuel s ty a mem msc istr).
Proof.
  induction fuel as [|f IH]; intros a mem msc istr Ha Hf Hok; [lia|]. cbn [parse_attrs_f].
  eapply spec_bind; [apply (rdo_spec v s n Hs); lia|]. intros c _.
  destruct (c =? 41); [exact Hok|].
  eapply spec_bind with (Q := fun st : N * N * option (N * N) * N => a <= snd st <= p /\ istr_ok (snd (fst st))).
  { eapply spec_bind with (Q := fun b : bool => b = true -> a + 5 <= p).
    { destruct (is_cache ty); [apply (has_prefix_stop "size=" a eq_refl eq_refl Ha)|simpl; discriminate]. }
    intros [|] H1.
    { specialize (H1 eq_refl). eapply spec_bind; [apply parse_memory_attr_stop; exact H1|].
      intros r Hr. cbv beta in Hr. unfold spec0. cbn [fst snd]. split; [lia|exact Hok]. }
    eapply spec_bind with (Q := fun b : bool => b = true -> a + 7 <= p).
    { destruct (is_cache ty); [simpl; discriminate|apply (has_prefix_stop "memory=" a eq_refl eq_refl Ha)]. }
    intros [|] H2.
    { specialize (H2 eq_refl). eapply spec_bind; [apply parse_memory_attr_stop; exact H2|].
      intros r Hr. cbv beta in Hr. unfold spec0. cbn [fst snd]. split; [lia|exact Hok]. }
    eapply spec_bind; [apply (has_prefix_stop "memorysidecachesize=" a eq_refl eq_refl Ha)|]. intros [|] H3.
    { specialize (H3 eq_refl). change (len (bytes_of_string "memorysidecachesize=")) with 20 in H3.
      eapply spec_bind; [apply parse_memory_attr_stop; exact H3|].
      intros r Hr. cbv beta in Hr. unfold spec0. cbn [fst snd]. split; [lia|exact Hok]. }
    eapply spec_bind; [apply (has_prefix_stop "indexes=" a eq_refl eq_refl Ha)|]. intros [|] H4.
    { specialize (H4 eq_refl). change (len (bytes_of_string "indexes=")) with 8 in H4.
      eapply spec_bind; [apply strcspn_stop; exact H4|]. intros l [Hl Hc]. unfold spec0. cbn [fst snd].
      split; [lia|]. unfold istr_ok. split; [lia|]. split; [exact Hc|]. exists p. split; [lia|]. split; [exact Hpn|exact Hp]. }
    eapply spec_bind; [apply strcspn_stop; exact Ha|]. intros l [Hl _]. unfold spec0. cbn [fst snd]. split; [lia|exact Hok]. }
  intros [[[mem' msc'] istr'] a'] [Ha' Hok']. cbn [fst snd] in Ha', Hok'.
  eapply spec_bind; [apply (rdo_spec v s n Hs); lia|]. intros c2 [Hc2 Z2].
  destruct (N.eqb_spec c2 32) as [->|_].
  - assert (a' <> p) by (intros ->; congruence). apply IH; [lia|lia|exact Hok'].
  - destruct (c2 =? 41); [exact Hok'|exact I].
Qed.
End Attrs.

Section Attrs2.
Variables (v : variant) (s : list N) (n : N).
Hypothesis Hs : cstring s n.
Notation spec := (spec0 (tm_ok v s)).

Lemma parse_attrs_ok i ty msc0 : i <= n ->
  spec (fun pa => i <= pa_next pa <= n /\ istr_ok s n (pa_istr pa)) (parse_attrs s i ty msc0).
Proof.
  intros Hi. unfold parse_attrs. pose proof (len_ge s n Hs) as Hl. unfold len in Hl.
  eapply spec_bind; [apply (strchr_spec v s n Hs i 41 Hi); discriminate|]. intros [p|] Hp; [|exact I].
  destruct Hp as [Hp1 Hp2].
  eapply spec_bind; [apply (parse_attrs_f_ok v s n Hs p Hp2 ltac:(lia) ty); [lia|lia|exact I]|].
  intros [[m ms] is] Hok. cbn [snd] in Hok. unfold spec0. cbn. split; [lia|exact Hok].
Qed.
End Attrs2.

(* ---------- updates of the level array ---------- *)
Lemma upd_nth_nth {A} (f : A -> A) : forall (l : list A) k l', upd_nth l k f = Some l' ->
  forall j, nth_error l' j = if Nat.eqb j k then option_map f (nth_error l j) else nth_error l j.
Proof.
  induction l as [|x t IH]; intros [|k] l' E j; simpl in E; try discriminate.
  - injection E as <-. destruct j; reflexivity.
  - destruct (upd_nth t k f) as [t'|] eqn:Et; simpl in E; [|discriminate]. injection E as <-.
    destruct j; [reflexivity|]. simpl. exact (IH k t' Et j).
Qed.
Lemma upd_nth_Forall {A} (Q : A -> Prop) (f : A -> A) : forall (l : list A) k l', upd_nth l k f = Some l' ->
  Forall Q l -> (forall x, Q x -> Q (f x)) -> Forall Q l'.
Proof.
  induction l as [|x t IH]; intros [|k] l' E HF Hf; simpl in E; try discriminate; inversion HF; subst.
  - injection E as <-. constructor; auto.
  - destruct (upd_nth t k f) as [t'|] eqn:Et; simpl in E; [|discriminate]. injection E as <-.
    constructor; [assumption|]. eapply IH; eauto.
Qed.

Section Levels.
Variables (v : variant) (s : list N) (n : N).
Hypothesis Hs : cstring s n.
Notation spec := (spec0 (tm_ok v s)).
Notation iok := (istr_ok s n).

Definition arity_set (l : level) : Prop := lv_arity l <> None.
Definition LvInv (lv : list level) (count : N) : Prop :=
  lenl lv = MAXD /\ Forall (fun l => iok (lv_istr l)) lv /\
  forall i, i + 1 < count -> exists l, nth_error lv (N.to_nat i) = Some l /\ arity_set l.

Lemma keep_istr_ok a b : iok a -> iok b -> iok (keep_istr a b).
Proof. destruct a; simpl; auto. Qed.

Lemma lvinv_upd lv c i f : LvInv lv c -> i < MAXD ->
  (forall x, iok (lv_istr x) -> iok (lv_istr (f x))) ->
  (forall x, arity_set x -> arity_set (f x)) ->
  spec (fun lv' => LvInv lv' c) (lv_upd lv i f).
Proof.
  intros [HL [HF HA]] Hi Hf1 Hf2. unfold lv_upd.
  assert (HM := MAXD_ge2). destruct (upd_nth_some lv f (N.to_nat i)) as [l' [E L]]; [unfold lenl in HL; lia|].
  rewrite E. unfold spec0, LvInv. split; [unfold lenl in *; lia|]. split.
  - eapply upd_nth_Forall; eauto.
  - intros j Hj. destruct (HA j Hj) as [l [Hl Al]]. rewrite (upd_nth_nth f lv _ l' E).
    destruct (Nat.eqb (N.to_nat j) (N.to_nat i)); rewrite Hl; simpl; eauto.
Qed.
Lemma lvinv_upd_last lv c f : LvInv lv c -> 1 <= c -> c <= MAXD ->
  (forall x, iok (lv_istr x) -> iok (lv_istr (f x))) ->
  (forall x, arity_set (f x)) ->
  spec (fun lv' => LvInv lv' (c + 1)) (lv_upd lv (c - 1) f).
Proof.
  intros [HL [HF HA]] H1 Hc Hf1 Hf2. unfold lv_upd.
  assert (HM := MAXD_ge2). destruct (upd_nth_some lv f (N.to_nat (c - 1))) as [l' [E L]]; [unfold lenl in HL; lia|].
  rewrite E. unfold spec0, LvInv. split; [unfold lenl in *; lia|]. split.
  - eapply upd_nth_Forall; eauto.
  - intros j Hj. rewrite (upd_nth_nth f lv _ l' E).
    destruct (Nat.eqb_spec (N.to_nat j) (N.to_nat (c - 1))) as [Ej|Ej].
    + destruct (nth_error lv (N.to_nat j)) as [x|] eqn:Ex.
      * simpl. eauto.
      * apply nth_error_None in Ex. unfold lenl in HL. lia.
    + destruct (HA j) as [l [Hl Al]]; [lia|]. eauto.
Qed.
Lemma lvinv_weaken lv c c' : LvInv lv c -> c' <= c -> LvInv lv c'.
Proof. intros [HL [HF HA]] H. split; [exact HL|]. split; [exact HF|]. intros i Hi. apply HA. lia. Qed.
Lemma lvinv_get lv c i : LvInv lv c -> i < MAXD -> spec (fun l => iok (lv_istr l) /\ nth_error lv (N.to_nat i) = Some l) (lv_get lv i).
Proof.
  intros [HL [HF _]] Hi. unfold lv_get. destruct (nth_error lv (N.to_nat i)) as [l|] eqn:E.
  - unfold spec0. split; [|reflexivity]. rewrite Forall_forall in HF. apply HF. eapply nth_error_In; eauto.
  - apply nth_error_None in E. unfold lenl in HL. lia.
Qed.

Definition Inv2 (st : pstate) : Prop :=
  LvInv (st_lv st) (st_count st) /\ 1 <= st_count st /\ st_count st + 1 <= MAXD /\ iok (st_nistr st).

Ltac pres := intros; cbn; auto.

Lemma step_spec2 st pos : Inv2 st -> pos <= n ->
  spec (fun r => match r with
                 | SCont st' pos' => Inv2 st' /\ pos < pos' <= n
                 | SBreak st' => Inv2 st'
                 end) (step v s st pos).
Proof.
  intros [HL [Hc1 [Hc2 Hni]]] Hpos. unfold step. set (count := st_count st) in *.
  eapply spec_bind; [apply (lvinv_upd _ count); [exact HL|lia|pres|pres; discriminate]|]. intros lv1 L1. cbv beta in L1.
  eapply spec_bind; [apply (scan_spec v s n Hs); [exact Hpos|reflexivity]|]. intros pos1 Hp1. cbv beta in Hp1.
  eapply spec_bind; [apply (rdo_spec v s n Hs); lia|]. intros c [Hc Zc].
  destruct (N.eqb_spec c 0) as [->|Hc0].
  { unfold spec0, Inv2. cbn [st_lv st_count st_nistr]. auto. }
  assert (Hlt : pos1 < n). { assert (pos1 <> n) by tauto. lia. }
  destruct (c =? 91).
  - eapply spec_bind; [apply (type_sscanf_spec v s n Hs); lia|]. intros [[[ty d] ct]|] _; [|exact I].
    destruct (negb (ty =? HWLOC_OBJ_NUMANODE)); [exact I|].
    eapply spec_bind; [apply (lvinv_get _ count); [exact L1|lia]|]. intros par _.
    eapply spec_bind; [apply (lvinv_upd _ count); [exact L1|lia|pres|pres]|]. intros lv2 L2. cbv beta in L2.
    eapply spec_bind; [apply (strchr_spec v s n Hs (pos1 + 1) 93); [lia|discriminate]|]. intros [p|] Hp; [|exact I].
    eapply spec_bind; [apply (strchr_spec v s n Hs (pos1 + 1) 40); [lia|discriminate]|]. intros at_ Hat.
    eapply spec_bind with (Q := fun r : list level * option (N * N) => LvInv (fst r) count /\ iok (snd r)).
    { destruct at_ as [a|]; [|unfold spec0; cbn; auto].
      destruct (a <? p); [|unfold spec0; cbn; auto].
      eapply spec_bind; [apply (parse_attrs_ok v s n Hs); lia|]. intros pa [_ Hpa].
      eapply spec_bind; [apply (lvinv_upd _ count); [exact L2|lia|pres|pres]|]. intros lv3 L3. cbv beta in L3.
      unfold spec0. cbn [fst snd]. split; [exact L3|]. apply keep_istr_ok; assumption. }
    intros r [Hr1 Hr2]. unfold spec0, Inv2. cbn [st_lv st_count st_nistr].
    split; [split; [exact Hr1|split; [lia|split; [lia|exact Hr2]]]|lia].
  - eapply spec_bind; [apply (lvinv_upd _ count); [exact L1|lia|pres|pres]|]. intros lv2 L2. cbv beta in L2.
    eapply spec_bind with (Q := fun tp : N * N * N * N => pos1 <= snd tp <= n).
    { destruct (negb (isdigit c)); [|unfold spec0; cbn; lia].
      eapply spec_bind; [apply (type_sscanf_spec v s n Hs); lia|]. intros ts _.
      eapply spec_bind with (Q := fun _ : N * N * N => True).
      { destruct ts as [x|]; [exact I|].
        eapply spec_bind; [apply (has_prefix_spec' v s n Hs "Tile" pos1 eq_refl); lia|]. intros t1 _.
        eapply spec_bind with (Q := fun _ : bool => True).
        { destruct t1; [exact I|].
          eapply spec_weaken; [apply (has_prefix_spec' v s n Hs "Module" pos1 eq_refl); lia|]. intros; exact I. }
        intros [|] _; exact I. }
      intros [[ty d] ct] _.
      destruct (disallowed_level ty); [exact I|].
      eapply spec_bind; [apply (strchr_spec v s n Hs pos1 58); [lia|discriminate]|]. intros [p|] Hp; [|exact I].
      unfold spec0. cbn. lia. }
    intros [[[ty d] ct] pos2] Hp2. cbn [snd] in Hp2.
    destruct (if is_cache ty then (d, ct) else if ty =? HWLOC_OBJ_GROUP then (d, M1) else (M1, M1)) as [d' ct'].
    eapply spec_bind; [apply (lvinv_upd _ count); [exact L2|lia|pres|pres]|]. intros lv3 L3. cbv beta in L3.
    eapply spec_bind; [apply (strtoul_spec v s n Hs pos2 0); lia|]. intros r Hr. cbv beta in Hr. cbv zeta.
    destruct (N.eqb_spec (snd r) pos2) as [_|Hne]; [exact I|].
    destruct (fst r =? 0); [exact I|].
    destruct (fix_width_overflow && _); [exact I|].
    eapply spec_bind; [apply (lvinv_upd _ count); [exact L3|lia|pres|pres]|]. intros lv4 L4. cbv beta in L4.
    eapply spec_bind; [apply (rdo_spec v s n Hs); lia|]. intros cn [Hcn Zcn].
    eapply spec_bind with (Q := fun r2 : list level * N => LvInv (fst r2) count /\ snd r <= snd r2 <= n).
    { destruct (N.eqb_spec cn 40) as [->|_]; [|unfold spec0; cbn; split; [exact L4|lia]].
      assert (snd r <> n) by (intros E; apply Zcn in E; discriminate).
      eapply spec_bind; [apply (parse_attrs_ok v s n Hs); lia|]. intros pa [Hpa1 Hpa2].
      eapply spec_bind; [apply (lvinv_upd _ count); [exact L4|lia| |pres]|].
      { intros x Hx. cbn. apply keep_istr_ok; assumption. }
      intros lv5 L5. cbv beta in L5. unfold spec0. cbn. split; [exact L5|lia]. }
    intros [lv5 np] [L5 Hnp]. cbn [fst snd] in L5, Hnp.
    destruct (N.leb_spec MAXD (count + 1)); [exact I|].
    destruct (Tables.UINT_MAX <? fst r); [exact I|].
    eapply spec_bind; [apply (lvinv_upd_last _ count); [exact L5|lia|lia|pres|pres; discriminate]|]. intros lv6 L6. cbv beta in L6.
    unfold spec0, Inv2. cbn [st_lv st_count st_nistr].
    split; [split; [exact L6|split; [lia|split; [lia|exact Hni]]]|lia].
Qed.

Lemma main_loop_spec2 : forall fuel st pos, Inv2 st -> pos <= n -> (N.to_nat (n - pos) < fuel)%nat ->
  spec Inv2 (main_loop v fuel s st pos).
Proof.
  induction fuel as [|f IH]; intros st pos Hinv Hpos Hf; [lia|]. cbn [main_loop].
  eapply spec_bind; [apply (rdo_spec v s n Hs); exact Hpos|]. intros c _.
  destruct (c =? 0); [exact Hinv|].
  eapply spec_bind; [apply step_spec2; assumption|]. intros [st' pos'|st'] H.
  - destruct H as [H1 H2]. apply IH; [exact H1|lia|lia].
  - exact H.
Qed.
End Levels.

(* ---------- front / middle / NUMA insertion with the stronger invariant ---------- *)
Lemma nth_firstn {A} (l : list A) : forall k i, (i < k)%nat -> nth_error (firstn k l) i = nth_error l i.
Proof.
  induction l as [|x t IH]; intros [|k] [|i] H; simpl; try reflexivity; try lia. apply IH. lia.
Qed.
Lemma nth_skipn {A} (l : list A) : forall m i, nth_error (skipn m l) i = nth_error l (m + i).
Proof.
  induction l as [|x t IH]; intros [|m] i; simpl; try reflexivity; [now destruct i|apply IH].
Qed.
Lemma Forall_firstn {A} (Q : A -> Prop) (l : list A) k : Forall Q l -> Forall Q (firstn k l).
Proof. intros H. rewrite <- (firstn_skipn k l) in H. apply Forall_app in H. tauto. Qed.
Lemma Forall_skipn {A} (Q : A -> Prop) (l : list A) k : Forall Q l -> Forall Q (skipn k l).
Proof. intros H. rewrite <- (firstn_skipn k l) in H. apply Forall_app in H. tauto. Qed.

Section Front2.
Variables (v : variant) (s : list N) (n : N).
Hypothesis Hs : cstring s n.
Notation spec := (spec0 (tm_ok v s)).
Notation iok := (istr_ok s n).

Lemma init_levels_inv : LvInv s n init_levels 1.
Proof.
  split; [apply init_levels_len|]. split.
  - assert (H : forallb (fun l => match lv_istr l with None => true | Some _ => false end) init_levels = true)
      by (vm_compute; reflexivity).
    rewrite forallb_forall in H. apply Forall_forall. intros l Hl. specialize (H l Hl).
    destruct (lv_istr l); [discriminate|exact I].
  - intros i Hi. lia.
Qed.

Lemma front_spec2 : spec (fun r => Inv2 s n (fst r) /\ snd r <= n) (front v s).
Proof.
  unfold front. pose proof (len_ge s n Hs) as Hl. unfold len in Hl. pose proof MAXD_ge2 as HM.
  eapply spec_bind; [apply (rdo_spec v s n Hs); lia|]. intros c0 [Hc0 Z0].
  eapply spec_bind with (Q := fun r : list level * N => LvInv s n (fst r) 1 /\ snd r <= n).
  { destruct (N.eqb_spec c0 40) as [->|_]; [|unfold spec0; cbn [fst snd]; split; [apply init_levels_inv|lia]].
    assert (0 <> n) by (intros E; apply Z0 in E; discriminate).
    eapply spec_bind; [apply (parse_attrs_ok v s n Hs); lia|]. intros pa [Hpa1 Hpa2].
    eapply spec_bind; [apply (lvinv_upd v s n _ 1); [apply init_levels_inv|lia| |intros; cbn; auto]|].
    { intros x _. cbn. apply keep_istr_ok; [exact Hpa2|exact I]. }
    intros lv L. cbv beta in L. unfold spec0. cbn [fst snd]. split; [exact L|lia]. }
  intros [lv d0] [L Hd]. cbn [fst snd] in L, Hd.
  eapply spec_bind; [apply (main_loop_spec2 v s n Hs); [|exact Hd|lia]|].
  { unfold Inv2. cbn [st_lv st_count st_nistr]. split; [exact L|]. split; [lia|]. split; [lia|exact I]. }
  intros st Hst. unfold spec0. cbn [fst snd]. auto.
Qed.

Lemma set_types_inv c : forall asg lv, LvInv s n lv c -> Forall (fun a : N * (N * N * N) => fst a < MAXD) asg ->
  spec (fun lv' => LvInv s n lv' c) (set_types lv asg).
Proof.
  induction asg as [|[i [[t d] k]] r IH]; intros lv L H; cbn [set_types]; [exact L|].
  inversion H as [|x l H1 H2]; subst. cbn [fst] in H1.
  eapply spec_bind; [apply (lvinv_upd v s n _ c); [exact L|exact H1|intros; cbn; auto|intros; cbn; auto]|].
  intros lv' L'. cbv beta in L'. apply IH; assumption.
Qed.

Lemma middle_spec2 st : Inv2 s n st ->
  spec (fun m => let '(lv, count, tcn, tcg) := m in LvInv s n lv count /\ count = st_count st /\ 2 <= count) (middle st).
Proof.
  intros [HL [H1 [H2 Hn]]]. unfold middle.
  eapply spec_bind; [apply (lvinv_get v s n _ (st_count st)); [exact HL|lia]|]. intros last _.
  destruct (_ && _); [exact I|].
  eapply spec_bind; [apply (lvinv_upd v s n _ (st_count st)); [exact HL|lia|intros; cbn; auto|intros; cbn; auto]|].
  intros lv L. cbv beta in L.
  destruct (tcount (level_types lv (st_count st)) HWLOC_OBJ_PU =? 0) eqn:EPU; [exact I|].
  assert (Hc2 : 2 <= st_count st).
  { destruct (N.le_gt_cases 2 (st_count st)) as [H|H]; [exact H|]. exfalso.
    assert (E1 : st_count st = 1) by lia. rewrite E1 in EPU. vm_compute in EPU. discriminate. }
  repeat match goal with |- spec0 _ _ (if ?b then Rej else _) => destruct b; [exact I|] end.
  match goal with |- spec0 _ _ (if ?b then _ else _) => destruct b end.
  - destruct (default_assign (st_count st) (st_nnr st)) as [[asg ng] nn] eqn:E.
    eapply spec_bind; [apply (set_types_inv (st_count st)); [exact L|]|].
    + pose proof (assign_ok (st_count st) (st_nnr st) ltac:(lia)) as F. rewrite E in F. cbn [fst] in F.
      eapply Forall_impl; [|exact F]. intros a Ha. cbv beta in Ha. lia.
    + intros lv' L'. cbv beta in L'. unfold spec0. auto.
  - unfold spec0. auto.
Qed.

(* after the implicit NUMA insertion (fixed memmove) *)
Lemma numa_insert_spec2 lv count : fix_memmove v = true -> LvInv s n lv count -> 2 <= count -> count + 1 <= MAXD ->
  spec (fun r => LvInv s n (fst r) (count + 1) /\ snd r = count + 1) (numa_insert v lv count).
Proof.
  intros Hfix [HL [HF HA]] H2 HM. unfold numa_insert, lv_memmove. rewrite Hfix, HL.
  destruct (N.ltb_spec MAXD (1 + (count - 1))); [lia|]. destruct (N.ltb_spec MAXD (2 + (count - 1))); [lia|]. cbn [orb obind].
  set (lv1 := firstn _ lv ++ _ ++ _).
  assert (L1 : LvInv s n lv1 2 /\ forall i, 2 <= i -> i < count -> exists l, nth_error lv1 (N.to_nat i) = Some l /\ arity_set l).
  { unfold lenl in HL. split; [split; [|split]|].
    - unfold lv1, lenl. rewrite !app_length, !firstn_length, !skipn_length. lia.
    - unfold lv1. apply Forall_app. split; [now apply Forall_firstn|]. apply Forall_app.
      split; [apply Forall_firstn; now apply Forall_skipn|now apply Forall_skipn].
    - intros i Hi. assert (i = 0) by lia. subst i. destruct (HA 0) as [l [Hl Al]]; [lia|]. exists l. split; [|exact Al].
      unfold lv1. rewrite nth_error_app1 by (rewrite firstn_length; lia). rewrite nth_firstn by lia. exact Hl.
    - intros i Hi1 Hi2. destruct (HA (i - 1)) as [l [Hl Al]]; [lia|]. exists l. split; [|exact Al].
      unfold lv1. rewrite nth_error_app2 by (rewrite firstn_length; lia). rewrite firstn_length.
      replace (Nat.min (N.to_nat 2) (length lv)) with 2%nat by lia.
      rewrite nth_error_app1 by (rewrite firstn_length, skipn_length; lia).
      rewrite nth_firstn by lia. rewrite nth_skipn. rewrite <- Hl. f_equal. lia. }
  destruct L1 as [L1 A1].
  eapply spec_bind; [apply (lvinv_get v s n _ 2); [exact L1|pose proof MAXD_ge2; lia]|]. intros l0 [_ Hl0].
  assert (Al0 : arity_set l0).
  { destruct L1 as [_ [_ A]]. destruct (A 0) as [l [Hl Al]]; [lia|]. change (N.to_nat 0) with 0%nat in *. congruence. }
  eapply spec_bind with (Q := fun lv2 => LvInv s n lv2 2 /\ (forall i, 1 <= i -> i < count -> exists l, nth_error lv2 (N.to_nat i) = Some l /\ arity_set l)).
  { unfold lv_upd. destruct L1 as [LL [LF LA]].
    destruct (upd_nth_some lv1 (fun l => set_arity (lv_arity l0) (set_width (lv_width l0) (set_mem 0 0 (set_idx None None (set_type HWLOC_OBJ_NUMANODE l))))) (N.to_nat 1)) as [l' [E L]]; [unfold lenl in LL; pose proof MAXD_ge2; lia|].
    rewrite E. unfold spec0. split; [split; [|split]|].
    - unfold lenl in *. lia.
    - eapply upd_nth_Forall; eauto. intros x _. exact I.
    - intros i Hi. assert (i = 0) by lia. subst i. rewrite (upd_nth_nth _ lv1 _ l' E). change (Nat.eqb (N.to_nat 0) (N.to_nat 1)) with false.
      cbv iota. apply LA. lia.
    - intros i Hi1 Hi2. rewrite (upd_nth_nth _ lv1 _ l' E).
      destruct (Nat.eqb_spec (N.to_nat i) (N.to_nat 1)) as [Ei|Ei].
      + destruct (nth_error lv1 (N.to_nat i)) as [x|] eqn:Ex; [|apply nth_error_None in Ex; unfold lenl in LL; pose proof MAXD_ge2; lia].
        simpl. eexists. split; [reflexivity|]. exact Al0.
      + apply A1; lia. }
  intros lv2 [[LL2 [LF2 LA2]] A2]. unfold lv_upd.
  destruct (upd_nth_some lv2 (set_arity (Some 1)) (N.to_nat 0)) as [l' [E L]]; [unfold lenl in LL2; pose proof MAXD_ge2; lia|].
  rewrite E. unfold spec0. cbn [obind fst snd]. split; [|reflexivity]. split; [|split].
  - unfold lenl in *. lia.
  - eapply upd_nth_Forall; eauto.
  - intros i Hi. rewrite (upd_nth_nth _ lv2 _ l' E).
    destruct (Nat.eqb_spec (N.to_nat i) (N.to_nat 0)) as [Ei|Ei].
    + destruct (nth_error lv2 (N.to_nat i)) as [x|] eqn:Ex; [|apply nth_error_None in Ex; unfold lenl in LL2; pose proof MAXD_ge2; lia].
      simpl. eexists. split; [reflexivity|]. cbn. discriminate.
    + apply A2; lia.
Qed.
End Front2.

(* ================================================================== *)
(* hwloc_synthetic_process_indexes                                      *)
(* ================================================================== *)
(* like spec0, but the three arithmetic outcomes whose impossibility is not proved
   (division by a zero width, assert(nbs), the never-ending "unsigned j < total" loop
   for totals >= 2^32) are allowed *)
Definition specA {A} (P : bool) (Q : A -> Prop) (r : out A) : Prop :=
  match r with
  | Ret a => Q a | Rej => True
  | Fault f => (f = FLit /\ P = false) \/ f = FDiv \/ f = FAssert \/ f = FHang
  end.
Lemma specA_of {A} P (Q : A -> Prop) r : spec0 P Q r -> specA P Q r.
Proof. destruct r; simpl; auto. Qed.
Lemma specA_bind {A B} P (Q : A -> Prop) (R : B -> Prop) (r : out A) (k : A -> out B) :
  specA P Q r -> (forall a, Q a -> specA P R (k a)) -> specA P R (obind r k).
Proof. destruct r as [a| |f]; simpl; auto. Qed.
Lemma specA_weaken {A} P (Q Q' : A -> Prop) r : specA P Q r -> (forall a, Q a -> Q' a) -> specA P Q' r.
Proof. destruct r; simpl; auto. Qed.

Section Indexes.
Variables (v : variant) (s : list N) (n : N).
Hypothesis Hs : cstring s n.
Hypothesis Hfl : fix_loops v = true.
Notation spec := (spec0 (tm_ok v s)).
Notation specA' := (specA (tm_ok v s)).
Notation iok := (istr_ok s n).

Lemma explicit_spec total : forall fuel attr i acc, attr <= n -> (N.to_nat (n - attr) + 1 < fuel)%nat ->
  spec (fun _ => True) (explicit_f fuel s attr i total acc).
Proof.
  induction fuel as [|f IH]; intros attr i acc Ha Hf; [lia|]. cbn [explicit_f].
  destruct (i <? total); [|exact I].
  eapply spec_bind; [apply (strtoul_spec v s n Hs attr 10 Ha)|]. intros r Hr. cbv beta in Hr. cbv zeta.
  destruct (N.eqb_spec (snd r) attr) as [_|Hne]; [exact I|].
  destruct (negb (i =? total - 1)).
  - eapply spec_bind; [apply (rdo_spec v s n Hs); lia|]. intros c [Hc Zc].
    destruct (N.eqb_spec c 44) as [->|_]; [|exact I].
    assert (snd r <> n) by (intros E; apply Zc in E; discriminate). apply IH; lia.
  - apply IH; lia.
Qed.

(* the number of ':' counted from tmp does not depend on the fuel or the accumulator *)
Lemma count_colons_char lim : forall fuel tmp nr, tmp <= n -> (N.to_nat (n - tmp) < fuel)%nat ->
  exists k, count_colons fuel s tmp lim nr = Ret (nr + k) /\
            forall f' nr', (N.to_nat (n - tmp) < f')%nat -> count_colons f' s tmp lim nr' = Ret (nr' + k).
Proof.
  induction fuel as [|f IH]; intros tmp nr Ht Hf; [lia|]. cbn [count_colons].
  destruct (strchr_ok s n tmp 58 Hs Ht) as [r [E H]]. rewrite E. cbn [lift obind].
  destruct r as [j|].
  - destruct H as [Hj [Hrd _]].
    assert (j <> n). { intros ->. destruct Hs as [H0 _]. congruence. }
    destruct (N.leb_spec lim j) as [Hl|Hl].
    + exists 0. split; [f_equal; lia|]. intros [|f'] nr' Hf'; [lia|]. cbn [count_colons]. rewrite E. cbn [lift obind].
      destruct (N.leb_spec lim j); [f_equal; lia|lia].
    + destruct (IH (j + 1) (nr + 1)) as [k [Ek Hk]]; [lia|lia|]. exists (1 + k). split; [rewrite Ek; f_equal; lia|].
      intros [|f'] nr' Hf'; [lia|]. cbn [count_colons]. rewrite E. cbn [lift obind].
      destruct (N.leb_spec lim j); [lia|]. rewrite Hk by lia. f_equal. lia.
  - exists 0. split; [f_equal; lia|]. intros [|f'] nr' Hf'; [lia|]. cbn [count_colons]. rewrite E. cbn [lift obind]. f_equal. lia.
Qed.

Section WithStop.
Variable p : N.
Hypothesis Hp : rd s p = Some 41.
Hypothesis Hpn : p < n.

Lemma strtol_stop_spec i b : i <= p -> spec (fun r => i <= snd r <= p) (lift (strtol s i b)).
Proof.
  intros Hi. destruct (strtol_ok s n i b Hs ltac:(lia)) as [x [e [E He]]]. rewrite E. unfold spec0. cbn [lift snd].
  pose proof (strtol_le_stop s n i b p 41 x e Hs Hi Hp stopc_41 E). lia.
Qed.

Lemma xy_spec total nr_loops : forall fuel tmp cur minstep nbs acc, tmp <= p -> (N.to_nat (n - tmp) < fuel)%nat ->
  spec (fun _ => True) (xy_f v fuel s total tmp nr_loops (nr_loops + 1) cur minstep nbs acc).
Proof.
  induction fuel as [|f IH]; intros tmp cur minstep nbs acc Ht Hf; [lia|]. cbn [xy_f].
  eapply spec_bind; [apply strtol_stop_spec; exact Ht|]. intros r Hr. cbv beta in Hr. cbv zeta.
  destruct (N.eqb_spec (snd r) tmp) as [_|Hne]; [exact I|].
  eapply spec_bind; [apply (rdo_spec v s n Hs); lia|]. intros c2 [Hc2 _].
  destruct (N.eqb_spec c2 42) as [->|_]; cbn [negb]; [|exact I].
  destruct (_ =? 0); [exact I|].
  assert (snd r <> p) by (intros E; rewrite E in Hc2; congruence).
  eapply spec_bind; [apply strtol_stop_spec; lia|]. intros r3 Hr3. cbv beta in Hr3.
  destruct (N.eqb_spec (snd r3) (snd r + 1)) as [_|Hne3]; [exact I|].
  eapply spec_bind; [apply (rdo_spec v s n Hs); lia|]. intros c3 [Hc3 _].
  destruct (_ && _ && _ && _); [exact I|].
  destruct (_ =? 0); [exact I|].
  rewrite Hfl. cbn [andb].
  destruct (N.leb_spec nr_loops cur); [exact I|].
  destruct (N.leb_spec (nr_loops + 1) cur); [lia|].
  destruct (fix_width_overflow && _); [exact I|].
  destruct (N.eqb_spec c3 41) as [->|H41]; cbn [orb]; [exact I|].
  destruct (c3 =? 32); [exact I|].
  assert (snd r3 <> p) by (intros E; rewrite E in Hc3; congruence).
  apply IH; lia.
Qed.
End WithStop.

(* the level array when the indexes are processed: arities assigned above the last
   level, 0 at the last level *)
Definition Inv3 (lv : list level) (count : N) : Prop :=
  LvInv s n lv count /\ 1 <= count /\ count <= MAXD /\
  exists l, nth_error lv (N.to_nat (count - 1)) = Some l /\ lv_arity l = Some 0.

Lemma find_level_spec lv count ty d : Inv3 lv count -> forall fuel i, i + 1 <= count -> (N.to_nat (count - i) < fuel)%nat ->
  spec (fun r => match r with Some k => k < MAXD | None => True end) (find_level fuel lv i ty d).
Proof.
  intros [[HL [HF HA]] [H1 [HM [lz [Hlz Az]]]]]. induction fuel as [|f IH]; intros i Hi Hf; [lia|]. cbn [find_level].
  unfold lv_get. destruct (N.eq_dec i (count - 1)) as [->|Hne].
  - rewrite Hlz. cbn [obind]. rewrite Az. cbn. exact I.
  - destruct (HA i) as [l [Hl Al]]; [lia|]. rewrite Hl. cbn [obind].
    unfold arity_set in Al. destruct (lv_arity l) as [a|]; [|congruence].
    destruct (a =? 0); [exact I|].
    destruct (negb (ty =? lv_type l)); [apply IH; lia|].
    destruct (_ && _ && _); [apply IH; lia|]. unfold spec0. lia.
Qed.

Definition out_val (r : out N) : N := match r with Ret a => a | _ => 0 end.
Lemma ty_spec lv count lim nr_loops : Inv3 lv count -> lim <= n -> (exists c, rd s lim = Some c /\ c <> 58) ->
  forall fuel tmp cur acc k, tmp <= n -> (N.to_nat (n - tmp) < fuel)%nat ->
  (forall f' nr', (N.to_nat (n - tmp) < f')%nat -> count_colons f' s tmp lim nr' = Ret (nr' + k)) ->
  cur + 1 + k = nr_loops -> lenl acc = cur -> Forall (fun x => x < MAXD) acc ->
  spec (fun ds => lenl ds = nr_loops /\ Forall (fun x => x < MAXD) ds)
       (ty_f v fuel s lv tmp lim (nr_loops + 1) cur acc).
Proof.
  intros HI Hlim [cl [Hcl Ncl]]. induction fuel as [|f IH]; intros tmp cur acc k Ht Hf Hk Hcur Hlen Hacc; [lia|]. cbn [ty_f].
  eapply spec_bind; [apply (type_sscanf_spec v s n Hs); exact Ht|]. intros [[[ty d] ct]|] _; [|exact I].
  destruct (disallowed_io ty); [exact I|].
  eapply spec_bind; [apply (find_level_spec lv count ty d HI); [destruct HI as [_ [? _]]; lia|unfold MAXnat; destruct HI as [_ [_ [? _]]]; lia]|].
  intros fl Hfl'. destruct (N.leb_spec (nr_loops + 1) cur); [lia|].
  destruct fl as [dep|]; [|exact I].
  assert (Hacc' : Forall (fun x => x < MAXD) (acc ++ [dep])) by (apply Forall_app; split; [exact Hacc|repeat constructor; exact Hfl']).
  assert (Hlen' : lenl (acc ++ [dep]) = cur + 1) by (unfold lenl in *; rewrite app_length; simpl; lia).
  specialize (Hk (S f) 0 Hf). cbn [count_colons] in Hk.
  destruct (strchr_ok s n tmp 58 Hs Ht) as [r [E Hr]]. rewrite E in *. cbn [lift obind] in *.
  destruct r as [j|].
  - destruct Hr as [Hj [Hrd _]].
    assert (j <> n). { intros ->. destruct Hs as [H0 _]. congruence. }
    assert (j <> lim). { intros ->. congruence. }
    destruct (N.ltb_spec lim j) as [Hl|Hl].
    + destruct (N.leb_spec lim j); [|lia]. apply (f_equal out_val) in Hk; cbn [out_val] in Hk. unfold spec0. split; [lia|exact Hacc'].
    + destruct (N.leb_spec lim j); [lia|].
      destruct (count_colons_char lim f (j + 1) (0 + 1)) as [k1 [Ek1 Hk1]]; [lia|lia|].
      rewrite Ek1 in Hk. apply (f_equal out_val) in Hk; cbn [out_val] in Hk.
      apply (IH (j + 1) (cur + 1) (acc ++ [dep]) k1); [lia|lia|exact Hk1|lia|exact Hlen'|exact Hacc'].
  - apply (f_equal out_val) in Hk; cbn [out_val] in Hk. unfold spec0. split; [lia|exact Hacc'].
Qed.

Lemma nth_depth_spec ds i : (i < length ds)%nat -> Forall (fun x => x < MAXD) ds -> spec (fun d => d < MAXD) (nth_depth ds i).
Proof.
  intros Hi HF. unfold nth_depth. destruct (nth_error ds i) as [d|] eqn:E.
  - unfold spec0. rewrite Forall_forall in HF. apply HF. eapply nth_error_In; eauto.
  - apply nth_error_None in E. lia.
Qed.
Lemma prevdepth_spec ds cur my : Forall (fun x => x < MAXD) ds -> forall k i prev, (i + k = length ds)%nat -> prev < MAXD ->
  spec (fun d => d < MAXD) (prevdepth_f ds k i cur my prev).
Proof.
  intros HF. induction k as [|k IH]; intros i prev Hik Hp; cbn [prevdepth_f]; [exact Hp|].
  eapply spec_bind; [apply nth_depth_spec; [lia|exact HF]|]. intros di Hdi. cbv beta in Hdi.
  destruct (_ && _); [exact I|]. apply IH; [lia|]. destruct (_ && _); assumption.
Qed.
Lemma ty_loops_spec lv ds total : lenl lv = MAXD -> Forall (fun x => x < MAXD) ds ->
  forall k cur minstep nbs acc, (cur + k = length ds)%nat ->
  specA' (fun _ => True) (ty_loops_f lv ds (length ds) k cur total minstep nbs acc).
Proof.
  intros HL HF. induction k as [|k IH]; intros cur minstep nbs acc Hck; cbn [ty_loops_f]; [exact I|].
  eapply specA_bind; [apply specA_of, nth_depth_spec; [lia|exact HF]|]. intros my Hmy. cbv beta in Hmy.
  eapply specA_bind; [apply specA_of, prevdepth_spec; [exact HF|reflexivity|pose proof MAXD_ge2; lia]|]. intros prev Hprev. cbv beta in Hprev.
  eapply specA_bind; [apply specA_of, lv_get_spec; lia|]. intros lm _.
  eapply specA_bind; [apply specA_of, lv_get_spec; lia|]. intros lp _.
  destruct (lv_width lm =? 0); [simpl; auto|].
  destruct (lv_width lp =? 0); [simpl; auto|].
  destruct (_ || _); [destruct fix_intlv_deeper; simpl; auto|].
  apply IH. lia.
Qed.

Lemma interleave_spec lv count attr length total : Inv3 lv count -> iok (Some (attr, length)) ->
  specA' (fun _ => True) (interleave v s lv attr length total).
Proof.
  intros HI [Hal [Hc [q [Hq1 [Hq2 Hq3]]]]]. unfold interleave.
  pose proof (len_ge s n Hs) as Hl. unfold len in Hl.
  destruct (count_colons_char (attr + length) (S (List.length s)) attr 1) as [k [Ek Hk]]; [lia|lia|].
  rewrite Ek. cbn [obind].
  eapply specA_bind; [apply specA_of, (rdo_spec v s n Hs); lia|]. intros c _.
  eapply specA_bind with (Q := fun _ => True).
  { destruct (isdigit c).
    - apply specA_of. apply (xy_spec q Hq3 Hq2); lia.
    - eapply specA_bind; [apply specA_of, (ty_spec lv count (attr + length) (1 + k) HI Hal Hc _ attr 0 [] k); try lia; [exact Hk|reflexivity|constructor]|].
      intros ds [Hds1 Hds2]. unfold lenl in Hds1.
      replace (N.to_nat (1 + k)) with (List.length ds) by lia.
      apply ty_loops_spec; [destruct HI as [[? _] _]; assumption|exact Hds2|lia]. }
  intros [[loops minstep] nbs] _.
  destruct (nbs =? 0); [simpl; auto|].
  eapply specA_bind with (Q := fun _ => True).
  { destruct (negb _); [destruct (_ =? _)|]; exact I. }
  intros [loops' nr'] _.
  destruct (U32 <=? total); [simpl; auto|].
  destruct (if fix_perm_check then _ else _); exact I.
Qed.

Lemma process_indexes_spec lv count istr total : Inv3 lv count -> iok istr ->
  specA' (fun _ => True) (process_indexes v s lv istr total).
Proof.
  intros HI Hok. unfold process_indexes. destruct istr as [[attr length]|]; [|exact I].
  destruct (T64 <=? total * 4); [exact I|].
  pose proof (len_ge s n Hs) as Hl. unfold len in Hl.
  assert (Ha : attr <= n) by (destruct Hok as [? _]; lia).
  match goal with |- specA _ _ (match ?b with _ => _ end) => assert (HB : specA' (fun _ => True) b) end.
  { eapply specA_bind; [apply specA_of, (strspn_spec v s n Hs); exact Ha|]. intros i _.
    destruct (i =? length).
    - eapply specA_bind; [apply specA_of, explicit_spec; lia|]. intros a _. destruct (_ && _); exact I.
    - eapply interleave_spec; eauto. }
  match goal with |- specA _ _ (match ?b with _ => _ end) => destruct b end; simpl in *; auto.
Qed.

(* ---------- the final loop and the end of the function ---------- *)
Lemma inv3_upd lv c i f : Inv3 lv c -> i < MAXD ->
  (forall x, iok (lv_istr x) -> iok (lv_istr (f x))) -> (forall x, lv_arity (f x) = lv_arity x) ->
  spec (fun lv' => Inv3 lv' c) (lv_upd lv i f).
Proof.
  intros [L [H1 [HM [lz [Hlz Az]]]]] Hi Hf1 Hf2.
  pose proof (lvinv_upd v s n lv c i f L Hi Hf1) as HU.
  unfold lv_upd in *. destruct L as [HL [HF HA]].
  destruct (upd_nth_some lv f (N.to_nat i)) as [l' [E Ln]]; [unfold lenl in HL; lia|]. rewrite E in *.
  unfold spec0 in *. split; [apply HU; intros x Hx; unfold arity_set in *; now rewrite Hf2|].
  split; [exact H1|]. split; [exact HM|].
  rewrite (upd_nth_nth f lv _ l' E). destruct (Nat.eqb _ _); rewrite Hlz; simpl; eauto.
  eexists. split; [reflexivity|]. now rewrite Hf2.
Qed.

Lemma final_loop_spec count : forall k i lv tcg, Inv3 lv count -> i + N.of_nat k = count ->
  specA' (fun lv' => Inv3 lv' count) (final_loop v s k i lv tcg).
Proof.
  induction k as [|k IH]; intros i lv tcg HI Hik; cbn [final_loop]; [exact HI|].
  assert (HM : i < MAXD) by (destruct HI as [_ [_ [? _]]]; lia).
  eapply specA_bind; [apply specA_of, (lvinv_get v s n lv count i); [destruct HI; assumption|exact HM]|]. intros l [Hl _].
  destruct (if _ && _ then _ else _) as [d tcg'].
  eapply specA_bind; [apply specA_of, (inv3_upd lv count i); [exact HI|exact HM|intros; cbn; auto|intros; reflexivity]|].
  intros lv1 H1. cbv beta in H1.
  eapply specA_bind; [apply (process_indexes_spec lv1 count); [exact H1|exact Hl]|]. intros ia _.
  eapply specA_bind; [apply specA_of, (inv3_upd lv1 count i); [exact H1|exact HM|intros x Hx; exact Hx|intros; reflexivity]|].
  intros lv2 H2. cbv beta in H2. apply IH; [exact H2|lia].
Qed.

Lemma back_spec lv count tcg nnr nistr d0 : fix_arity v = true -> LvInv s n lv count -> 1 <= count -> count <= MAXD -> iok nistr ->
  specA' (fun _ => True) (back v s lv count tcg nnr nistr d0).
Proof.
  intros Hfa L H1 HM Hni. unfold back. rewrite Hfa.
  eapply specA_bind with (Q := fun lv' => Inv3 lv' count).
  { apply specA_of. unfold lv_upd. destruct L as [HL [HF HA]].
    destruct (upd_nth_some lv (set_arity (Some 0)) (N.to_nat (count - 1))) as [l' [E Ln]]; [unfold lenl in HL; lia|].
    rewrite E. unfold spec0, Inv3. split; [split; [|split]|].
    - unfold lenl in *. lia.
    - eapply upd_nth_Forall; eauto.
    - intros i Hi. destruct (HA i Hi) as [l [Hl Al]]. rewrite (upd_nth_nth _ lv _ l' E).
      destruct (Nat.eqb _ _); rewrite Hl; simpl; eauto. eexists. split; [reflexivity|]. cbn. discriminate.
    - split; [exact H1|]. split; [exact HM|]. rewrite (upd_nth_nth _ lv _ l' E). rewrite Nat.eqb_refl.
      destruct (nth_error lv (N.to_nat (count - 1))) as [x|] eqn:Ex; [|apply nth_error_None in Ex; unfold lenl in HL; lia].
      simpl. eexists. split; reflexivity. }
  intros lv1 HI.
  eapply specA_bind; [apply final_loop_spec; [exact HI|lia]|]. intros lv2 HI2. cbv beta in HI2.
  eapply specA_bind; [apply (process_indexes_spec lv2 count); [exact HI2|exact Hni]|]. intros nia _.
  eapply specA_bind; [apply specA_of, lv_upd_spec; destruct HI2 as [[HL _] _]; lia|]. intros; exact I.
Qed.
End Indexes.

(* ================================================================== *)
(* The whole of hwloc_backend_synthetic_init                            *)
(* ================================================================== *)
Theorem parse_safe_full v s : fix_memmove v = true -> fix_loops v = true -> fix_arity v = true ->
  nul_terminated s ->
  match parse v s with
  | Ret _ | Rej => True
  | Fault f => (f = FLit /\ tm_ok v s = false) \/ f = FDiv \/ f = FAssert \/ f = FHang
  end.
Proof.
  intros Hm Hl Ha [n Hs]. change (specA (tm_ok v s) (fun _ : synth => True) (parse v s)). rewrite parse_decomp.
  eapply specA_bind; [apply specA_of, (front_spec2 v s n Hs)|]. intros [st d0] [[HL [H1 [H2 Hni]]] Hd]. cbn [fst snd] in *.
  eapply specA_bind; [apply specA_of, (middle_spec2 v s n st); exact (conj HL (conj H1 (conj H2 Hni)))|].
  intros [[[lv c] tn] tg] [L [-> Hc2]].
  eapply specA_bind with (Q := fun r : list level * N => LvInv s n (fst r) (snd r) /\ 1 <= snd r /\ snd r <= MAXD).
  { destruct (needs_numa tn (st_nnr st)).
    - eapply specA_weaken; [apply specA_of, (numa_insert_spec2 v s n lv (st_count st) Hm L Hc2 H2)|].
      intros r [Hr1 Hr2]. rewrite Hr2. split; [exact Hr1|lia].
    - unfold specA. cbn [fst snd]. split; [exact L|lia]. }
  intros r [Hr [Hr1 Hr2]]. eapply specA_weaken; [apply (back_spec v s n Hs Hl); assumption|]. auto.
Qed.
