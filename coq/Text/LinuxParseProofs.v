(* C18 lemmas about Text/LinuxParse.v: totality of the two parsers on arbitrary
   bytes, parse o print = id for the cpumask format, the witnesses of the two
   refuted statements, and the disallowed-view checker. *)
From Coq Require Import List NArith ZArith Bool String Lia.
From HV Require Import Base.BSet Base.Bytes Base.Strto Gen.Tables Topo.Dump Text.LinuxParse.
Import ListNotations.
Local Open Scope N_scope.

(* ---------- witnesses ---------- *)
(* "2147483647\n": nextfirst = INT_MAX, then prevlast+1 overflows *)
Lemma cpulist_overflow_witness :
  cpulist_parse [50;49;52;55;52;56;51;54;52;55;10] = SignedOverflow.
Proof. vm_compute. reflexivity. Qed.

(* the kernel prints an empty set as "\n"; it is read as {0} *)
Lemma cpulist_empty_witness :
  cpulist_parse (print_cpulist 0) = Parsed (bs_single 0) /\ bs_single 0 <> bs_of_N 0.
Proof. split; [vm_compute; reflexivity|discriminate]. Qed.

(* ---------- disallowed view ---------- *)
Lemma opt_bs_eqb_spec a b : opt_bs_eqb a b = true <-> a = b.
Proof.
  destruct a as [x|], b as [y|]; simpl; try (split; [discriminate|congruence]); try tauto.
  rewrite bs_eqb_spec. split; congruence.
Qed.

Lemma has_obj_spec d ty os :
  has_obj d ty os = true <-> exists o', In o' (t_objs d) /\ o_type o' = ty /\ o_os o' = os.
Proof.
  unfold has_obj. rewrite existsb_exists. split.
  - intros [o [Hin H]]. apply andb_true_iff in H as [H1 H2]. apply N.eqb_eq in H1, H2. eauto.
  - intros [o [Hin [H1 H2]]]. exists o. split; [exact Hin|]. now rewrite H1, H2, !N.eqb_refl.
Qed.

Lemma missing_nil ty name dflt incl :
  missing ty name dflt incl = [] <-> contains_all ty dflt incl.
Proof.
  unfold missing, contains_all. induction (t_objs dflt) as [|o l IH]; simpl.
  - split; [intros _ o []|reflexivity].
  - split.
    + intros H. apply app_eq_nil in H as [H1 H2]. intros o0 [<-|Hin] Hty.
      * rewrite Hty, N.eqb_refl in H1. cbn [andb] in H1.
        destruct (has_obj incl ty (o_os o)) eqn:E; [|discriminate]. now apply has_obj_spec.
      * now apply IH.
    + intros H. assert (H2 : forall o0, In o0 l -> o_type o0 = ty ->
          exists o', In o' (t_objs incl) /\ o_type o' = ty /\ o_os o' = o_os o0) by (intros; apply H; auto).
      apply IH in H2. rewrite H2, app_nil_r.
      destruct (N.eqb_spec (o_type o) ty) as [E|E]; [|reflexivity]. cbn [andb].
      assert (X : has_obj incl ty (o_os o) = true) by (apply has_obj_spec, H; auto).
      now rewrite X.
Qed.

Lemma disallowed_check_correct : forall d i,
  disallowed_check d i = nil <-> disallowed_view d i.
Proof.
  intros d i. unfold disallowed_check, disallowed_view. split.
  - intros H. apply app_eq_nil in H as [H1 H]. apply app_eq_nil in H as [H2 H]. apply app_eq_nil in H as [H3 H4].
    split; [now apply missing_nil in H1|]. split; [now apply missing_nil in H2|]. split.
    + destruct (opt_bs_eqb (t_acpu i) (root_cs d)) eqn:E; [now apply opt_bs_eqb_spec|discriminate].
    + destruct (opt_bs_eqb (t_anode i) (root_nds d)) eqn:E; [now apply opt_bs_eqb_spec|discriminate].
  - intros [H1 [H2 [H3 H4]]].
    apply (missing_nil _ "pu-missing"%string) in H1. apply (missing_nil _ "numa-missing"%string) in H2.
    rewrite H1, H2. cbn [app].
    apply opt_bs_eqb_spec in H3, H4. now rewrite H3, H4.
Qed.

(* ================================================================== *)
(* totality of the two parsers on arbitrary bytes                       *)
From Coq Require Import ZifyBool ZifyN ZifyNat.
From HV Require Import Text.LinuxParseListProofs.

(* the block handed to the parsers always holds a C string *)
Lemma block_cstring c : exists n, cstring (c ++ [0]) n /\ n <= len c.
Proof.
  induction c as [|b t IH].
  - exists 0. split; [|unfold len; simpl; lia]. split; [reflexivity|intros k Hk; lia].
  - destruct (N.eq_dec b 0) as [->|Hb].
    + exists 0. split; [|lia]. split; [reflexivity|intros k Hk; lia].
    + destruct IH as [n [[H0 Hk] Hn]]. exists (N.succ n). split; [|rewrite len_cons; lia].
      split.
      * cbn [app]. now rewrite rd_cons_succ.
      * intros k Hlt. cbn [app]. destruct (N.eq_dec k 0) as [->|Hk0].
        -- exists b. split; [reflexivity|exact Hb].
        -- replace k with (N.succ (N.pred k)) by lia. rewrite rd_cons_succ. apply Hk. lia.
Qed.

Lemma mask_loop_total s n : cstring s n -> forall fuel i maps, i <= n ->
  (N.to_nat (n - i) < fuel)%nat -> exists m, mask_loop fuel s i maps = Ok (Some m).
Proof.
  intros Hs. induction fuel as [|f IH]; intros i maps Hi Hf; [lia|].
  cbn [mask_loop]. unfold scan_lx.
  destruct (strtoul_ok s n i 16 Hs Hi) as [v [e [E [He Hv]]]]. rewrite E. cbn [bind snd fst].
  destruct (e =? i); [eexists; reflexivity|].
  destruct (strchr_ok s n i COMMA Hs Hi) as [r [Er Hr]]. rewrite Er. cbn [bind].
  destruct r as [j|]; [|eexists; reflexivity].
  destruct Hr as [Hj [Hc _]].
  assert (j <> n). { intros ->. destruct Hs as [H0 _]. rewrite H0 in Hc. discriminate. }
  destruct ((v =? 0) && match maps with [] => true | _ => false end); apply IH; lia.
Qed.

(* totality on arbitrary bytes (any list N, including NUL bytes and values >= 256) *)
Lemma cpumask_parse_total : forall c, exists s, cpumask_parse c = Parsed s.
Proof.
  intros c. unfold cpumask_parse, block.
  destruct (block_cstring c) as [n [Hs Hn]].
  destruct (mask_loop_total _ n Hs (S (List.length c)) 0 []) as [m Hm]; [lia|unfold len in Hn; lia|].
  rewrite Hm. eexists; reflexivity.
Qed.

(* ---- C strings seen from an offset: byte n is the first NUL at or after i ---- *)
Definition cstr_from (s : list N) (i n : N) : Prop :=
  i <= n /\ rd s n = Some 0 /\ forall k, i <= k < n -> exists b, rd s k = Some b /\ b <> 0.

Lemma cstr_from_weaken s i i' n : cstr_from s i n -> i <= i' <= n -> cstr_from s i' n.
Proof.
  intros [Hi [H0 Hk]] Hi'. split; [lia|]. split; [exact H0|]. intros k Hlt. apply Hk. lia.
Qed.

Lemma cstr_from_rd s i n k : cstr_from s i n -> i <= k <= n ->
  exists b, rd s k = Some b /\ (b = 0 <-> k = n).
Proof.
  intros [Hi [H0 Hlt]] Hk. destruct (N.eq_dec k n) as [->|Hne].
  - exists 0. tauto.
  - destruct (Hlt k) as [b [Hb Nz]]; [lia|]. exists b. tauto.
Qed.

Lemma cstr_from_len s i n : cstr_from s i n -> n < len s.
Proof. intros [_ [H0 _]]. now apply rd_some_lt in H0. Qed.

Lemma scan_while_ok_from p s n : p 0 = false -> forall i, cstr_from s i n ->
  exists j, scan_while p s i = Ok j /\ i <= j <= n.
Proof.
  intros P0 i Hs.
  remember (N.to_nat (n - i)) as d eqn:Ed. revert i Hs Ed.
  induction d as [|d IH]; intros i Hs Ed; pose proof Hs as [Hi [H0 Hk]].
  - assert (i = n) by lia. subst i. exists n. split; [|lia].
    apply scan_while_spec. split; [lia|]. split; [exists 0; now split|]. intros m Hm; lia.
  - destruct (Hk i) as [b [Hb Nz]]; [lia|].
    destruct (p b) eqn:Pb.
    + destruct (IH (N.succ i)) as [j [Hj Hr]];
        [apply (cstr_from_weaken s i); [assumption|lia]|lia|].
      exists j. split; [|lia].
      apply scan_while_spec in Hj. destruct Hj as [Hij [Hex Hm]].
      apply scan_while_spec. split; [lia|]. split; [exact Hex|].
      intros m Hlt. destruct (N.eq_dec m i) as [->|Hne]; [eauto|]. apply Hm. lia.
    + exists i. split; [|lia]. apply scan_while_spec. split; [lia|]. split; [eauto|].
      intros m Hm; lia.
Qed.

(* strto_core_ok from an offset (same proof as Strto.strto_core_ok) *)
Lemma strto_core_ok_from s n i base : cstr_from s i n ->
  exists r, strto_core s i base = Ok r /\ i <= sr_end r <= n.
Proof.
  intros Hs. pose proof Hs as [Hi _]. unfold strto_core.
  destruct (scan_while_ok_from isspace s n isspace_0 i Hs) as [j0 [Hj0 Hr0]]. rewrite Hj0. cbn [bind].
  assert (Rd : forall k, i <= k <= n -> exists b, rd s k = Some b /\ (b = 0 <-> k = n)).
  { intros k Hk. now apply (cstr_from_rd s i). }
  destruct (Rd j0) as [c [Hc Zc]]; [lia|]. unfold rdr at 1. rewrite Hc. cbn [bind].
  set (j1 := if (c =? 45) || (c =? 43) then N.succ j0 else j0).
  assert (Hj1 : j0 <= j1 <= n).
  { unfold j1. destruct ((c =? 45) || (c =? 43)) eqn:E; [|lia].
    assert (c <> 0). { intros ->. discriminate. }
    assert (j0 <> n) by tauto. lia. }
  destruct (Rd j1) as [c0 [Hc0 Zc0]]; [lia|]. unfold rdr at 1. rewrite Hc0. cbn [bind].
  assert (P : exists prefixed j2 b,
     (if c0 =? 48 then
       if (base =? 0) || (base =? 16) then
         let* c1 := rdr s (N.succ j1) in
         if toupper c1 =? 88 then Ok (true, j1 + 2, 16)
         else Ok (false, j1, if base =? 0 then 8 else base)
       else Ok (false, j1, base)
     else Ok (false, j1, if base =? 0 then 10 else base)) = Ok (prefixed, j2, b)
     /\ j1 <= j2 <= n /\ (prefixed = true -> j2 = j1 + 2)).
  { destruct (N.eqb_spec c0 48) as [->|Hne].
    - assert (j1 <> n). { intros E. apply Zc0 in E. discriminate. }
      destruct ((base =? 0) || (base =? 16)).
      + destruct (Rd (N.succ j1)) as [c1 [Hc1 Zc1]]; [lia|]. unfold rdr. rewrite Hc1. cbn [bind].
        destruct (N.eqb_spec (toupper c1) 88) as [E|E].
        * do 3 eexists. split; [reflexivity|]. split; [|auto].
          assert (c1 <> 0). { intros ->. discriminate. }
          assert (N.succ j1 <> n) by tauto. lia.
        * do 3 eexists. split; [reflexivity|]. split; [lia|discriminate].
      + do 3 eexists. split; [reflexivity|]. split; [lia|discriminate].
    - do 3 eexists. split; [reflexivity|]. split; [lia|discriminate]. }
  destruct P as [prefixed [j2 [b [-> [Hj2 Hp]]]]]. cbn [bind].
  destruct (scan_while_ok_from (is_digit_in b) s n (is_digit_in_0 b) j2) as [je [Hje Hre]];
    [apply (cstr_from_weaken s i); [assumption|lia]|].
  rewrite Hje. cbn [bind].
  destruct (je =? j2); eexists; (split; [reflexivity|]); cbn [sr_end]; [|lia].
  destruct prefixed; [|lia]. specialize (Hp eq_refl). lia.
Qed.

Lemma strtoul_ok_from s n i base : cstr_from s i n ->
  exists v e, strtoul s i base = Ok (v, e) /\ i <= e <= n.
Proof.
  intros Hs. unfold strtoul.
  destruct (strto_core_ok_from s n i base Hs) as [r [-> Hr]]. cbn [bind].
  do 2 eexists. split; [reflexivity|exact Hr].
Qed.

Lemma strchr_ok_from s n i c : cstr_from s i n -> c <> 0 ->
  exists r, strchr s i c = Ok r /\
    match r with Some j => i <= j < n /\ rd s j = Some c | None => True end.
Proof.
  intros Hs Hc. unfold strchr.
  destruct (scan_while_ok_from (fun b => negb (b =? c) && negb (b =? 0)) s n) with (i := i)
    as [j [Hj Hr]]; [simpl; now rewrite andb_false_r|exact Hs|].
  rewrite Hj. cbn [bind]. apply scan_while_spec in Hj. destruct Hj as [_ [[b [Hb Pb]] Hm]].
  unfold rdr. rewrite Hb. cbn [bind]. eexists. split; [reflexivity|].
  destruct (N.eqb_spec b c) as [->|Hne]; [|exact I].
  split; [|exact Hb]. destruct Hs as [_ [H0 _]].
  assert (j <> n) by (intros ->; congruence). lia.
Qed.

(* *p = 0 inside the block *)
Lemma upd_split s j b c : rd s j = Some c ->
  exists p rest, s = p ++ c :: rest /\ len p = j /\ upd s j b = p ++ b :: rest.
Proof.
  intros H. unfold rd in H. destruct (nth_error_split _ _ H) as [p [rest [E L]]].
  exists p, rest. split; [exact E|]. assert (Lp : len p = j) by (unfold len; lia).
  split; [exact Lp|]. rewrite E, <- Lp. apply upd_app.
Qed.

Lemma len_upd s j b : j < len s -> len (upd s j b) = len s.
Proof.
  intros H. destruct (rd_lt_some s j H) as [c Hc].
  destruct (upd_split s j b c Hc) as [p [rest [E [L U]]]]. rewrite U, E, !len_app, !len_cons. reflexivity.
Qed.

Lemma rd_upd_same s j b : j < len s -> rd (upd s j b) j = Some b.
Proof.
  intros H. destruct (rd_lt_some s j H) as [c Hc].
  destruct (upd_split s j b c Hc) as [p [rest [E [L U]]]]. rewrite U, <- L. apply rd_app_mid.
Qed.

Lemma rd_upd_other s j b k : j < len s -> k <> j -> rd (upd s j b) k = rd s k.
Proof.
  intros H Hk. destruct (rd_lt_some s j H) as [c Hc].
  destruct (upd_split s j b c Hc) as [p [rest [E [L U]]]]. rewrite U, E.
  destruct (N.lt_ge_cases k (len p)) as [Hlt|Hge].
  - now rewrite !rd_app_l.
  - rewrite !rd_app_r by assumption.
    replace (k - len p) with (N.succ (N.pred (k - len p))) by lia. now rewrite !rd_cons_succ.
Qed.

Lemma cpulist_loop_total : forall fuel s current p set,
  (exists n, cstr_from s current n) -> (N.to_nat (len s - current) <= fuel)%nat ->
  cpulist_loop fuel s current p set = SignedOverflow \/
  exists r, cpulist_loop fuel s current p set = Parsed r.
Proof.
  induction fuel as [|f IH]; intros s current p set0 [n Hs] Hf.
  { pose proof (cstr_from_len _ _ _ Hs). destruct Hs as [Hi _]. lia. }
  cbn [cpulist_loop].
  destruct (strchr_ok_from s n current COMMA Hs) as [comma [Ec Hcomma]]; [discriminate|].
  rewrite Ec.
  pose proof (cstr_from_len _ _ _ Hs) as Hlen. pose proof Hs as [Hi [H0 Hk]].
  set (s1 := match comma with Some j => upd s j 0 | None => s end).
  (* the string strtoul sees from [current] *)
  assert (Hs1 : exists n1, cstr_from s1 current n1 /\
            match comma with Some j => n1 = j | None => True end).
  { destruct comma as [j|]; [|exists n; split; [exact Hs|exact I]].
    destruct Hcomma as [Hj Hc]. exists j. split; [|reflexivity]. unfold s1.
    split; [lia|]. split; [apply rd_upd_same; lia|].
    intros k Hlt. rewrite rd_upd_other by lia. apply Hk. lia. }
  destruct Hs1 as [n1 [Hs1 Hn1]].
  assert (Hlen1 : len s1 = len s).
  { unfold s1. destruct comma as [j|]; [|reflexivity]. apply len_upd. destruct Hcomma. lia. }
  destruct (strtoul_ok_from s1 n1 current 0 Hs1) as [v [tmp [E1 Htmp]]]. rewrite E1.
  destruct (cstr_from_rd s1 current n1 tmp Hs1 Htmp) as [c [Hc Zc]].
  unfold rdr. rewrite Hc.
  assert (Hnl : exists nl, (if c =? DASH
             then match strtoul s1 (N.succ tmp) 0 with Oob => None | Ok (v2, _) => Some (to_int v2) end
             else Some (to_int v)) = Some nl).
  { destruct (N.eqb_spec c DASH) as [->|_]; [|eexists; reflexivity].
    assert (tmp <> n1). { intros E. apply Zc in E. discriminate. }
    destruct (strtoul_ok_from s1 n1 (N.succ tmp) 0) as [v2 [e2 [E2 _]]];
      [apply (cstr_from_weaken s1 current); [assumption|lia]|].
    rewrite E2. eexists; reflexivity. }
  destruct Hnl as [nl ->].
  destruct ((p =? INT_MAX)%Z || (to_int v =? INT_MIN)%Z); [now left|].
  destruct comma as [j|].
  - destruct Hcomma as [Hj Hcj]. apply IH.
    + exists n. unfold s1. split; [lia|]. split; [rewrite rd_upd_other by lia; exact H0|].
      intros k Hlt. rewrite rd_upd_other by lia. apply Hk. lia.
    + rewrite Hlen1. lia.
  - destruct (nl =? INT_MAX)%Z; [now left|right; eexists; reflexivity].
Qed.

Lemma cpulist_parse_total : forall c,
  cpulist_parse c = SignedOverflow \/ exists s, cpulist_parse c = Parsed s.
Proof.
  intros c. unfold cpulist_parse, block. apply cpulist_loop_total.
  - destruct (block_cstring c) as [n [[H0 Hk] Hn]]. exists n.
    split; [lia|]. split; [exact H0|]. intros k Hlt. apply Hk. lia.
  - rewrite len_app. unfold len. cbn [List.length]. lia.
Qed.

(* ================================================================== *)
(* parse o print = id for the cpumask format                            *)

(* ---- the hexadecimal printer ---- *)
Lemma hexc_props d : d < 16 ->
  is_digit_in 16 (hexc d) = true /\ digit_of (hexc d) = d /\
  negb (hexc d =? COMMA) && negb (hexc d =? 0) = true /\ toupper (hexc d) <> 88.
Proof.
  intros H.
  assert (E : d = 0 \/ d = 1 \/ d = 2 \/ d = 3 \/ d = 4 \/ d = 5 \/ d = 6 \/ d = 7 \/
              d = 8 \/ d = 9 \/ d = 10 \/ d = 11 \/ d = 12 \/ d = 13 \/ d = 14 \/ d = 15) by lia.
  repeat (destruct E as [->|E]); [..|subst d];
    (repeat split; try reflexivity; intros X; vm_compute in X; discriminate X).
Qed.

Lemma hex_fixed_Forall (P : N -> Prop) : (forall d, d < 16 -> P (hexc d)) ->
  forall k v, Forall P (hex_fixed k v).
Proof.
  intros HP. induction k as [|k IH]; intros v; cbn [hex_fixed]; [constructor|].
  apply Forall_app. split; [apply IH|]. constructor; [|constructor].
  apply HP. apply N.mod_lt. lia.
Qed.

Lemma hex_fixed_length k : forall v, List.length (hex_fixed k v) = k.
Proof.
  induction k as [|k IH]; intros v; cbn [hex_fixed]; [reflexivity|].
  rewrite app_length, IH. cbn [List.length]. lia.
Qed.

Lemma hex_fixed_val k : forall v, digits_val 16 (hex_fixed k v) = v mod 16 ^ N.of_nat k.
Proof.
  induction k as [|k IH]; intros v.
  - cbn [hex_fixed]. change (N.of_nat 0) with 0. rewrite N.pow_0_r, N.mod_1_r. reflexivity.
  - cbn [hex_fixed]. rewrite digits_val_app, IH.
    assert (Hm : v mod 16 < 16) by (apply N.mod_lt; lia).
    destruct (hexc_props _ Hm) as [_ [-> _]].
    rewrite Nat2N.inj_succ, N.pow_succ_r'.
    assert (P : 16 ^ N.of_nat k <> 0) by (apply N.pow_nonzero; lia).
    rewrite N.mod_mul_r by (try exact P; lia). lia.
Qed.

Lemma print_chunk_len w : len (print_chunk w) = 8.
Proof. unfold len, print_chunk. now rewrite hex_fixed_length. Qed.

Lemma print_chunk_scan w :
  Forall (fun b => negb (b =? COMMA) && negb (b =? 0) = true) (print_chunk w).
Proof. apply hex_fixed_Forall. intros d Hd. now destruct (hexc_props d Hd) as [_ [_ [H _]]]. Qed.

(* sscanf("%lx") reads one printed chunk followed by [t] (comma or newline) *)
Lemma scan_lx_chunk pre w t post : is_digit_in 16 t = false -> w < TWO32 ->
  scan_lx (pre ++ print_chunk w ++ t :: post) (len pre) = Ok (Some w).
Proof.
  intros Ht Hw. unfold scan_lx.
  assert (V : digits_val 16 (print_chunk w) = w).
  { unfold print_chunk. rewrite hex_fixed_val.
    replace (16 ^ N.of_nat 8) with TWO32 by reflexivity. now apply N.mod_small. }
  assert (C : strto_core (pre ++ print_chunk w ++ t :: post) (len pre) 16
              = Ok {| sr_neg := false; sr_mag := digits_val 16 (print_chunk w);
                      sr_end := len pre + len (print_chunk w) |}).
  { pose proof (hex_fixed_length 8 w) as L.
    pose proof (hex_fixed_Forall (fun b => toupper b <> 88)) as X.
    specialize (X (fun d Hd => proj2 (proj2 (proj2 (hexc_props d Hd)))) 8%nat w).
    apply strto_core_plain.
    - discriminate.
    - unfold print_chunk. intros E. rewrite E in L. discriminate.
    - apply hex_fixed_Forall. intros d Hd. now destruct (hexc_props d Hd).
    - exact Ht.
    - intros _. left. unfold print_chunk.
      destruct (hex_fixed 8 w) as [|d0 [|d1 tl]]; [discriminate|discriminate|].
      cbn [app nth]. inversion X as [|? ? _ X1]; subst. inversion X1; subst. assumption. }
  rewrite (strtoul_of_core _ _ _ _ C); cbn [sr_neg sr_mag sr_end];
    [|reflexivity|rewrite V; unfold Strto.ULONG_MAX, TWO32 in *; lia].
  cbn [bind fst snd]. rewrite V, print_chunk_len.
  destruct (N.eqb_spec (len pre + 8) (len pre)); [lia|reflexivity].
Qed.

Lemma strchr_chunk_mid pre w rest :
  strchr (pre ++ print_chunk w ++ COMMA :: rest) (len pre) COMMA = Ok (Some (len pre + 8)).
Proof.
  unfold strchr. rewrite scan_while_app; [|apply print_chunk_scan|reflexivity].
  cbn [bind]. unfold rdr. rewrite rd_app_mid2. cbn [bind]. now rewrite print_chunk_len.
Qed.

Lemma strchr_chunk_last pre w :
  strchr (pre ++ print_chunk w ++ [NL; 0]) (len pre) COMMA = Ok None.
Proof.
  unfold strchr.
  replace (pre ++ print_chunk w ++ [NL; 0]) with (pre ++ (print_chunk w ++ [NL]) ++ 0 :: [])
    by (now rewrite <- app_assoc).
  rewrite scan_while_app.
  - cbn [bind]. unfold rdr. rewrite rd_app_mid2. reflexivity.
  - apply Forall_app. split; [apply print_chunk_scan|repeat constructor].
  - reflexivity.
Qed.

(* ---- the text as a list of chunk values, most significant first ---- *)
Fixpoint join_chunks (ws : list N) : list N :=
  match ws with
  | [] => []
  | [w] => print_chunk w
  | w :: tl => print_chunk w ++ [COMMA] ++ join_chunks tl
  end.
Fixpoint chunk_list (n : nat) (f : N) : list N :=
  match n with
  | O => []
  | S k => (f / TWO32 ^ N.of_nat k) mod TWO32 :: chunk_list k f
  end.

Lemma join_chunks_cons w tl : tl <> [] ->
  join_chunks (w :: tl) = print_chunk w ++ COMMA :: join_chunks tl.
Proof. destruct tl; [congruence|reflexivity]. Qed.

Lemma print_chunks_join n f : print_chunks n f = join_chunks (chunk_list n f).
Proof.
  induction n as [|k IH]; [reflexivity|].
  destruct k as [|k'].
  - cbn [print_chunks chunk_list join_chunks]. change (N.of_nat 0) with 0.
    now rewrite N.pow_0_r, N.div_1_r.
  - change (print_chunks (S (S k')) f) with
      (print_chunk ((f / TWO32 ^ N.of_nat (S k')) mod TWO32) ++ [COMMA] ++ print_chunks (S k') f).
    rewrite IH.
    change (chunk_list (S (S k')) f) with
      ((f / TWO32 ^ N.of_nat (S k')) mod TWO32 :: chunk_list (S k') f).
    rewrite join_chunks_cons; [reflexivity|]. cbn [chunk_list]. discriminate.
Qed.

Lemma chunk_list_length n f : List.length (chunk_list n f) = n.
Proof. induction n as [|k IH]; cbn [chunk_list List.length]; [reflexivity|now rewrite IH]. Qed.

Lemma chunk_list_bound n f : Forall (fun w => w < TWO32) (chunk_list n f).
Proof.
  induction n as [|k IH]; cbn [chunk_list]; constructor; [|exact IH].
  apply N.mod_lt. discriminate.
Qed.

Lemma join_chunks_length ws : (List.length ws <= List.length (join_chunks ws))%nat.
Proof.
  induction ws as [|w tl IH]; [cbn; lia|].
  destruct tl as [|w' tl'].
  - cbn [join_chunks List.length]. unfold print_chunk. rewrite hex_fixed_length. lia.
  - rewrite join_chunks_cons by discriminate. rewrite app_length.
    cbn [List.length] in *. lia.
Qed.

(* ---- values ---- *)
(* maps[] newest first: the head is the least significant 32-bit chunk *)
Fixpoint val32 (maps : list N) : N :=
  match maps with [] => 0 | m :: tl => m + TWO32 * val32 tl end.
Definition val_of (ws : list N) (acc : N) : N := fold_left (fun a w => a * TWO32 + w) ws acc.

Definition lt32 (w : N) : Prop := w < TWO32.

Lemma mask_loop_chunks : forall ws fuel pre maps,
  ws <> [] -> (List.length ws <= fuel)%nat -> Forall lt32 ws -> Forall lt32 maps ->
  exists maps', mask_loop fuel (pre ++ join_chunks ws ++ [NL; 0]) (len pre) maps = Ok (Some maps') /\
    val32 maps' = val_of ws (val32 maps) /\ Forall lt32 maps'.
Proof.
  induction ws as [|w tl IH]; intros fuel pre maps Hne Hfuel Hws Hmaps; [congruence|].
  destruct fuel as [|f]; [cbn [List.length] in Hfuel; lia|].
  inversion Hws as [|? ? Hw Htl]; subst.
  destruct tl as [|w' tl'].
  - cbn [join_chunks mask_loop]. rewrite scan_lx_chunk by (exact Hw || reflexivity). cbn [bind].
    rewrite strchr_chunk_last. cbn [bind].
    eexists. split; [reflexivity|]. split; [|now constructor].
    unfold val_of. cbn [val32 fold_left]. lia.
  - set (tl := w' :: tl') in *.
    assert (Hnt : tl <> []) by discriminate.
    rewrite join_chunks_cons by exact Hnt.
    rewrite <- app_assoc, <- app_comm_cons.
    cbn [mask_loop]. rewrite scan_lx_chunk by (exact Hw || reflexivity). cbn [bind].
    rewrite strchr_chunk_mid. cbn [bind].
    replace (pre ++ print_chunk w ++ COMMA :: join_chunks tl ++ [NL; 0])
      with ((pre ++ print_chunk w ++ [COMMA]) ++ join_chunks tl ++ [NL; 0])
      by (rewrite <- !app_assoc; reflexivity).
    replace (N.succ (len pre + 8)) with (len (pre ++ print_chunk w ++ [COMMA]))
      by (rewrite !len_app, print_chunk_len; change (len [COMMA]) with 1; lia).
    cbn [List.length] in Hfuel.
    destruct ((w =? 0) && match maps with [] => true | _ :: _ => false end) eqn:E.
    + assert (w = 0 /\ maps = []) as [-> ->].
      { apply andb_true_iff in E as [E1 E2]. apply N.eqb_eq in E1. destruct maps; [auto|discriminate]. }
      destruct (IH f (pre ++ print_chunk 0 ++ [COMMA]) []) as [maps' [L [V F]]];
        [exact Hnt|lia|exact Htl|constructor|].
      exists maps'. split; [exact L|]. split; [|exact F].
      rewrite V. unfold val_of. cbn [val32 fold_left]. reflexivity.
    + destruct (IH f (pre ++ print_chunk w ++ [COMMA]) (w :: maps)) as [maps' [L [V F]]];
        [exact Hnt|lia|exact Htl|now constructor|].
      exists maps'. split; [exact L|]. split; [|exact F].
      rewrite V. unfold val_of. cbn [val32 fold_left]. f_equal. lia.
Qed.

(* the 64-bit words rebuilt from pairs of chunks *)
Lemma lor_shift a b : a < TWO32 -> b < TWO32 ->
  N.lor a ((N.shiftl b 32) mod TWO64) = a + TWO32 * b.
Proof.
  intros Ha Hb.
  assert (M : (N.shiftl b 32) mod TWO64 = N.shiftl b 32).
  { apply N.mod_small. rewrite N.shiftl_mul_pow2. change (2 ^ 32) with TWO32.
    unfold TWO32, TWO64 in *. lia. }
  rewrite M.
  assert (L : N.land a (N.shiftl b 32) = 0).
  { apply N.bits_inj. intros n. rewrite N.land_spec, N.bits_0.
    destruct (N.lt_ge_cases n 32) as [Hn|Hn].
    - rewrite (N.shiftl_spec_low b 32 n Hn). apply andb_false_r.
    - destruct (N.eq_dec a 0) as [->|Ha0]; [now rewrite N.bits_0|].
      rewrite (N.bits_above_log2 a n); [reflexivity|].
      assert (N.log2 a < 32) by (apply N.log2_lt_pow2; [lia|exact Ha]). lia. }
  rewrite <- (N.lxor_lor _ _ L), <- (N.add_nocarry_lxor _ _ L).
  rewrite N.shiftl_mul_pow2. change (2 ^ 32) with TWO32. lia.
Qed.

Lemma words_val : forall l, Forall lt32 l -> N_of_words (words_of_maps l) = val32 l.
Proof.
  assert (H : forall n l, (List.length l <= n)%nat -> Forall lt32 l ->
                          N_of_words (words_of_maps l) = val32 l).
  { induction n as [|n IH]; intros l Hl HF.
    - destruct l; [reflexivity|cbn [List.length] in Hl; lia].
    - destruct l as [|a [|b tl]]; [reflexivity|cbn [words_of_maps N_of_words val32]; lia|].
      inversion HF as [|? ? Ha HF1]; subst. inversion HF1 as [|? ? Hb HF2]; subst.
      cbn [words_of_maps N_of_words val32]. rewrite lor_shift by assumption.
      rewrite IH by (first [exact HF2|cbn [List.length] in Hl; lia]).
      unfold TWO64, TWO32. lia. }
  intros l. now apply (H (List.length l)).
Qed.

Lemma val_of_chunk_list n f : forall acc,
  val_of (chunk_list n f) acc = acc * TWO32 ^ N.of_nat n + f mod TWO32 ^ N.of_nat n.
Proof.
  induction n as [|k IH]; intros acc.
  - unfold val_of. cbn [chunk_list fold_left]. change (N.of_nat 0) with 0.
    rewrite N.pow_0_r, N.mod_1_r. lia.
  - cbn [chunk_list]. unfold val_of. cbn [fold_left]. fold (val_of (chunk_list k f)).
    rewrite IH. rewrite Nat2N.inj_succ, N.pow_succ_r'.
    assert (P : TWO32 ^ N.of_nat k <> 0) by (apply N.pow_nonzero; discriminate).
    rewrite (N.mul_comm TWO32 (TWO32 ^ N.of_nat k)).
    rewrite (N.mod_mul_r f) by (try exact P; discriminate).
    set (Q := TWO32 ^ N.of_nat k). set (c := (f / Q) mod TWO32). set (m := f mod Q).
    clearbody Q c m. lia.
Qed.

(* parse o print = id for the cpumask format: n >= 1 chunks of 32 bits *)
Lemma cpumask_parse_print : forall (n : nat) (f : N),
  (1 <= n)%nat -> f < TWO32 ^ N.of_nat n ->
  cpumask_parse (print_cpumask n f) = Parsed (bs_of_N f).
Proof.
  intros n f Hn Hf. unfold cpumask_parse, print_cpumask, block.
  rewrite print_chunks_join, <- app_assoc. cbn [app].
  destruct (mask_loop_chunks (chunk_list n f)
              (S (List.length (join_chunks (chunk_list n f) ++ [NL]))) [] [])
    as [maps' [L [V F]]].
  - intros E. pose proof (chunk_list_length n f) as X. rewrite E in X. cbn in X. lia.
  - rewrite app_length. pose proof (join_chunks_length (chunk_list n f)). lia.
  - apply chunk_list_bound.
  - constructor.
  - cbn [app] in L. change (len []) with 0 in L. rewrite L. do 2 f_equal.
    rewrite words_val by exact F. rewrite V. cbn [val32].
    rewrite val_of_chunk_list. rewrite (N.mod_small f) by exact Hf. lia.
Qed.

(* the hypotheses are met by a non-trivial mask: bits {0-7, 33, 64} on 3 chunks *)
Example cpumask_parse_print_ex :
  (1 <= 3)%nat /\ 18446744082299486463 < TWO32 ^ N.of_nat 3 /\
  print_cpumask 3 18446744082299486463 =
    bytes_of_string "00000001,00000002,000000ff" ++ [NL] /\
  cpumask_parse (bytes_of_string "00000001,00000002,000000ff" ++ [NL])
    = Parsed (bs_of_N 18446744082299486463).
Proof. repeat split; try lia; vm_compute; reflexivity. Qed.
