(* C18 lemmas about Text/LinuxParse.v: totality of the two parsers on arbitrary
   bytes, parse o print = id for the cpumask format, the witnesses of the two
   refuted statements, and the disallowed-view checker. *)
From Coq Require Import List NArith ZArith Bool String Lia.
From HV Require Import Base.BSet Base.Bytes Base.Strto Gen.Tables Topo.Dump Text.LinuxParse.
Import ListNotations.
Local Open Scope N_scope.

(* ---------- witnesses ---------- *)
(* "2147483647\n": nextfirst = INT_MAX, then prevlast+1 overflows *)
Lemma cpulist_overflow_witness :
  cpulist_parse [50;49;52;55;52;56;51;54;52;55;10] = SignedOverflow.
Proof. vm_compute. reflexivity. Qed.

(* the kernel prints an empty set as "\n"; it is read as {0} *)
Lemma cpulist_empty_witness :
  cpulist_parse (print_cpulist 0) = Parsed (bs_single 0) /\ bs_single 0 <> bs_of_N 0.
Proof. split; [vm_compute; reflexivity|discriminate]. Qed.

(* ---------- disallowed view ---------- *)
Lemma opt_bs_eqb_spec a b : opt_bs_eqb a b = true <-> a = b.
Proof.
  destruct a as [x|], b as [y|]; simpl; try (split; [discriminate|congruence]); try tauto.
  rewrite bs_eqb_spec. split; congruence.
Qed.

Lemma has_obj_spec d ty os :
  has_obj d ty os = true <-> exists o', In o' (t_objs d) /\ o_type o' = ty /\ o_os o' = os.
Proof.
  unfold has_obj. rewrite existsb_exists. split.
  - intros [o [Hin H]]. apply andb_true_iff in H as [H1 H2]. apply N.eqb_eq in H1, H2. eauto.
  - intros [o [Hin [H1 H2]]]. exists o. split; [exact Hin|]. now rewrite H1, H2, !N.eqb_refl.
Qed.

Lemma missing_nil ty name dflt incl :
  missing ty name dflt incl = [] <-> contains_all ty dflt incl.
Proof.
  unfold missing, contains_all. induction (t_objs dflt) as [|o l IH]; simpl.
  - split; [intros _ o []|reflexivity].
  - split.
    + intros H. apply app_eq_nil in H as [H1 H2]. intros o0 [<-|Hin] Hty.
      * rewrite Hty, N.eqb_refl in H1. cbn [andb] in H1.
        destruct (has_obj incl ty (o_os o)) eqn:E; [|discriminate]. now apply has_obj_spec.
      * now apply IH.
    + intros H. assert (H2 : forall o0, In o0 l -> o_type o0 = ty ->
          exists o', In o' (t_objs incl) /\ o_type o' = ty /\ o_os o' = o_os o0) by (intros; apply H; auto).
      apply IH in H2. rewrite H2, app_nil_r.
      destruct (N.eqb_spec (o_type o) ty) as [E|E]; [|reflexivity]. cbn [andb].
      assert (X : has_obj incl ty (o_os o) = true) by (apply has_obj_spec, H; auto).
      now rewrite X.
Qed.

Lemma disallowed_check_correct : forall d i,
  disallowed_check d i = nil <-> disallowed_view d i.
Proof.
  intros d i. unfold disallowed_check, disallowed_view. split.
  - intros H. apply app_eq_nil in H as [H1 H]. apply app_eq_nil in H as [H2 H]. apply app_eq_nil in H as [H3 H4].
    split; [now apply missing_nil in H1|]. split; [now apply missing_nil in H2|]. split.
    + destruct (opt_bs_eqb (t_acpu i) (root_cs d)) eqn:E; [now apply opt_bs_eqb_spec|discriminate].
    + destruct (opt_bs_eqb (t_anode i) (root_nds d)) eqn:E; [now apply opt_bs_eqb_spec|discriminate].
  - intros [H1 [H2 [H3 H4]]].
    apply (missing_nil _ "pu-missing"%string) in H1. apply (missing_nil _ "numa-missing"%string) in H2.
    rewrite H1, H2. cbn [app].
    apply opt_bs_eqb_spec in H3, H4. now rewrite H3, H4.
Qed.
