(* The in-place tokenizer of hwloc/topology-xml-nolibxml.c over a byte block
   with checked reads AND checked writes.

   The block [s : list N] is the malloc'ed copy of the XML text
   (nbdata->buffer, length buflen, last byte forced to NUL by backend_init);
   a C pointer into it is its offset (N).  Every read goes through [rdr] and
   every store through [wr]: an access outside the block gives [Oob] (what
   ASan reports on the real code).  The functions follow the C statements in
   order, including the stores done before an error is detected (the caller
   sees the partially rewritten buffer).

   Entry points (same names as the static C functions):
     next_attr  find_child  close_tag  close_child  get_content  close_content
     look_init  (header handling of hwloc_nolibxml_look_init)
     diff_init  (header handling of hwloc_nolibxml_import_diff)
   and a generic client [walk] that visits a whole document through them and
   records a trace; harness/hwv_xmltok.c runs the same client over the real
   functions and the two traces are compared byte for byte. *)
From Coq Require Import String Ascii NArith ZArith List Bool.
From HV Require Import Base.Bytes Base.Strto.
Import ListNotations.
Local Open Scope N_scope.

(* ---------- checked store ---------- *)
Definition upd (s : list N) (i b : N) : list N :=
  firstn (N.to_nat i) s ++ b :: skipn (S (N.to_nat i)) s.
Definition wr (s : list N) (i b : N) : res (list N) :=
  if i <? len s then Ok (upd s i b) else Oob.

(* ---------- character sets of the C source ---------- *)
Definition SPACES : list N := bytes_of_string (String " " (String "009" (String "010" (String "013" EmptyString)))).
Definition ATTRNAME : list N := bytes_of_string "abcdefghijklmnopqrstuvwxyz_".
Definition TAGNAME : list N := bytes_of_string "abcdefghijklmnopqrstuvwxyz1234567890_".
Definition c_lt : N := 60.   (* '<' *)
Definition c_gt : N := 62.   (* '>' *)
Definition c_sl : N := 47.   (* '/' *)
Definition c_eq : N := 61.   (* '=' *)
Definition c_qu : N := 34.   (* double quote *)
Definition c_am : N := 38.   (* '&' *)
Definition c_sp : N := 32.   (* ' ' *)
Definition c_nl : N := 10.

(* hwloc__nolibxml_import_ignore_spaces: buffer + strspn(buffer, " \t\n\r") *)
Definition ignore_spaces (s : list N) (i : N) : res N :=
  let* k := strspn s i SPACES in Ok (i + k).

(* ---------- tokenizer state (struct hwloc__nolibxml_import_state_data_s) ---------- *)
(* tagname is a const char*: NULL, a string literal ("topology"/"root") or a pointer into the buffer *)
Inductive tagref := TNull | TLit (l : list N) | TBuf (i : N).
Record nstate := mkState {
  tagbuffer : N;               (* char *tagbuffer: where the next tag is looked for *)
  attrbuffer : option N;       (* char *attrbuffer: next attribute, None = NULL *)
  tagname : tagref;
  closed : bool                (* auto-closing tag *)
}.

(* ---------- next_attr ---------- *)
(* the seven entities, in the order of the C if-chain: (text after '&', its length, replacement) *)
Definition ENTITIES : list (string * N) :=
  [("#10;"%string, 10); ("#13;"%string, 13); ("#9;"%string, 9); ("quot;"%string, 34);
   ("lt;"%string, 60); ("gt;"%string, 62); ("amp;"%string, 38)].

(* first entity whose text is a prefix of s+i: Some (length, char) *)
Fixpoint match_entity (es : list (string * N)) (s : list N) (i : N) : res (option (N * N)) :=
  match es with
  | [] => Ok None
  | (lit, ch) :: tl =>
    let* b := has_prefix lit s i in
    if b then Ok (Some (len (bytes_of_string lit), ch)) else match_entity tl s i
  end.

Inductive attr_loop_res :=
| ALdone (s : list N) (ln escaped : N)     (* reached the closing quote *)
| ALfail (s : list N).                      (* return -1 (buffer as modified so far) *)

(* while (value[len+escaped] != QUOTE) { if (value[len+escaped] == NUL) return -1; ... }
   fuel: one unit per iteration *)
Fixpoint attr_loop (fuel : nat) (s : list N) (value ln escaped : N) : res attr_loop_res :=
  match fuel with
  | O => Oob
  | S fuel' =>
    let* c := rdr s (value + ln + escaped) in
    if c =? c_qu then Ok (ALdone s ln escaped)
    else if c =? 0 then Ok (ALfail s)
    else
      let* step :=
        (if c =? c_am then
           let* m := match_entity ENTITIES s (value + 1 + ln + escaped) in
           match m with
           | Some (k, ch) => let* s' := wr s (value + ln) ch in Ok (Some (s', escaped + k))
           | None => Ok None
           end
         else
           let* s' := wr s (value + ln) c in Ok (Some (s', escaped))) in
      match step with
      | None => Ok (ALfail s)
      | Some (s', escaped') =>
        let ln' := ln + 1 in
        let* c' := rdr s' (value + ln' + escaped') in
        if c' =? 0 then Ok (ALfail s') else attr_loop fuel' s' value ln' escaped'
      end
  end.

(* result: the buffer, the state, Some (name offset, value offset) | None for -1 *)
Definition next_attr (s : list N) (st : nstate) : res (list N * nstate * option (N * N)) :=
  match attrbuffer st with
  | None => Ok (s, st, None)
  | Some a =>
    let* b := ignore_spaces s a in
    let* namelen := strspn s b ATTRNAME in
    let* c := rdr s (b + namelen) in
    if negb (c =? c_eq) then Ok (s, st, None) else
    let* c2 := rdr s (b + namelen + 1) in
    if negb (c2 =? c_qu) then Ok (s, st, None) else
    let* s1 := wr s (b + namelen) 0 in
    let value := b + namelen + 2 in
    let* r := attr_loop (S (length s)) s1 value 0 0 in
    match r with
    | ALfail s2 => Ok (s2, st, None)
    | ALdone s2 ln escaped =>
      let* s3 := wr s2 (value + ln) 0 in
      let* nxt := ignore_spaces s3 (value + ln + escaped + 1) in
      Ok (s3, mkState (tagbuffer st) (Some nxt) (tagname st) (closed st), Some (b, value))
    end
  end.

(* ---------- find_child ---------- *)
Inductive fc_res := FcErr | FcNone | FcChild (child : nstate) (tag : N).

Definition find_child (s : list N) (st : nstate) : res (list N * fc_res) :=
  if closed st then Ok (s, FcNone) else
  let* b0 := ignore_spaces s (tagbuffer st) in
  let* c := rdr s b0 in
  if negb (c =? c_lt) then Ok (s, FcErr) else
  let b := b0 + 1 in
  let* c1 := rdr s b in
  if c1 =? c_sl then Ok (s, FcNone) else
  let* e := strchr s b c_gt in
  match e with
  | None => Ok (s, FcErr)
  | Some en =>
    let* s1 := wr s en 0 in
    let* cm := rdr s1 (en - 1) in                      (* end[-1]; en >= b >= 1 *)
    let* s2cl := (if cm =? c_sl then let* s2 := wr s1 (en - 1) 0 in Ok (s2, true) else Ok (s1, false)) in
    let '(s2, cl) := s2cl in
    let* namelen := strspn s2 b TAGNAME in
    let* c2 := rdr s2 (b + namelen) in
    if c2 =? 0 then Ok (s2, FcChild (mkState (en + 1) None (TBuf b) cl) b)
    else if negb (c2 =? c_sp) then Ok (s2, FcErr)
    else
      let* s3 := wr s2 (b + namelen) 0 in
      Ok (s3, FcChild (mkState (en + 1) (Some (b + namelen + 1)) (TBuf b) cl) b)
  end.

(* ---------- close_tag ---------- *)
(* strcmp(s+i, t) == 0 where t is a literal (with its NUL) *)
Fixpoint streq_lit (s : list N) (i : N) (l : list N) : res bool :=
  let* x := rdr s i in
  match l with
  | [] => Ok (x =? 0)
  | y :: tl => if x =? y then (if x =? 0 then Ok true else streq_lit s (N.succ i) tl) else Ok false
  end.
(* strcmp(s+i, s+j) == 0 inside the same block *)
Fixpoint streq_buf (fuel : nat) (s : list N) (i j : N) : res bool :=
  match fuel with
  | O => Oob
  | S f =>
    let* x := rdr s i in
    let* y := rdr s j in
    if negb (x =? y) then Ok false else if x =? 0 then Ok true else streq_buf f s (N.succ i) (N.succ j)
  end.
Definition streq_tag (s : list N) (i : N) (t : tagref) : res bool :=
  match t with
  | TNull => Oob                                    (* strcmp(x, NULL) *)
  | TLit l => streq_lit s i l
  | TBuf j => streq_buf (S (length s)) s i j
  end.

(* result: buffer, state, true = 0 / false = -1 *)
Definition close_tag (s : list N) (st : nstate) : res (list N * nstate * bool) :=
  if closed st then Ok (s, st, true) else
  let* b0 := ignore_spaces s (tagbuffer st) in
  let* c := rdr s b0 in
  if negb (c =? c_lt) then Ok (s, st, false) else
  let b := b0 + 1 in
  let* e := strchr s b c_gt in
  match e with
  | None => Ok (s, st, false)
  | Some en =>
    let* s1 := wr s en 0 in
    let st1 := mkState (en + 1) (attrbuffer st) (tagname st) (closed st) in
    let* c1 := rdr s1 b in
    if negb (c1 =? c_sl) then Ok (s1, st1, false) else
    let* same := streq_tag s1 (b + 1) (tagname st) in
    Ok (s1, st1, same)
  end.

(* ---------- close_child ---------- *)
Definition close_child (parent child : nstate) : nstate :=
  mkState (tagbuffer child) (attrbuffer parent) (tagname parent) (closed parent).

(* ---------- get_content / close_content ---------- *)
(* ret: -1 | 0 (auto-closed, content "") | 1 (content at the returned offset, NUL-terminated in place) *)
Inductive gc_res := GcErr | GcEmpty | GcAt (i : N).
Definition get_content (s : list N) (st : nstate) (expected : N) : res (list N * nstate * gc_res) :=
  if closed st then Ok (s, st, if expected =? 0 then GcEmpty else GcErr) else
  let* e := strchr s (tagbuffer st) c_lt in
  match e with
  | None => Ok (s, st, GcErr)
  | Some en =>
    if negb (en - tagbuffer st =? expected) then Ok (s, st, GcErr) else
    let* s1 := wr s en 0 in
    Ok (s1, mkState en (attrbuffer st) (tagname st) (closed st), GcAt (tagbuffer st))
  end.

Definition close_content (s : list N) (st : nstate) : res (list N) :=
  if closed st then Ok s else wr s (tagbuffer st) c_lt.

(* ---------- look_init ---------- *)
(* while (!strncmp(buffer, XMLDECL, 6) || !strncmp(buffer, DOCTYPE, 10)) { buffer = strchr(buffer, NEWLINE); if (!buffer) fail; buffer++; } *)
Fixpoint skip_headers (fuel : nat) (s : list N) (i : N) : res (option N) :=
  match fuel with
  | O => Oob
  | S f =>
    let* a := has_prefix "<?xml " s i in
    let* b := (if a then Ok true else has_prefix "<!DOCTYPE " s i) in
    if negb b then Ok (Some i) else
    let* e := strchr s i c_nl in
    match e with
    | None => Ok None
    | Some en => skip_headers f s (en + 1)
    end
  end.

(* sscanf(buffer, FORMAT, &major, &minor) == 2 ?  with FORMAT = <topology version=QUOTE%u.%uQUOTE>
   literal bytes must match, a blank in the format skips any white space (also none),
   %u = optional white space, optional sign, at least one digit (strtoul base 10, stored modulo 2^32).
   Result: Some (major, minor) when both conversions succeed. *)
Fixpoint match_lit (l : list N) (s : list N) (i : N) : res (option N) :=
  match l with
  | [] => Ok (Some i)
  | y :: tl => let* x := rdr s i in if x =? y then match_lit tl s (N.succ i) else Ok None
  end.
Definition scan_u (s : list N) (i : N) : res (option (N * N)) :=
  let* r := strtoul s i 10 in
  let '(v, e) := r in
  if e =? i then Ok None else Ok (Some (v mod 4294967296, e)).
Definition scan_version (s : list N) (i : N) : res (option (N * N)) :=
  let* m1 := match_lit (bytes_of_string "<topology") s i in
  match m1 with None => Ok None | Some i1 =>
  let* i2 := scan_while isspace s i1 in
  let* m2 := match_lit (bytes_of_string "version=""") s i2 in
  match m2 with None => Ok None | Some i3 =>
  let* u1 := scan_u s i3 in
  match u1 with None => Ok None | Some (major, i4) =>
  let* m3 := match_lit [46] s i4 in
  match m3 with None => Ok None | Some i5 =>
  let* u2 := scan_u s i5 in
  match u2 with None => Ok None | Some (minor, _) => Ok (Some (major, minor))
  end end end end end.

(* end = strchr(buffer, GT); if (!end) goto failed; end++;   (the NULL test is /repo commit efb4592) *)
Inductive li_res := LiFail | LiOk (major minor : N) (st : nstate).
Definition look_init (s : list N) : res li_res :=
  let* h := skip_headers (S (length s)) s 0 in
  match h with
  | None => Ok LiFail
  | Some b =>
    let* v := scan_version s b in
    match v with
    | Some (major, minor) =>
      let* e := strchr s b c_gt in
      match e with
      | Some en => Ok (LiOk major minor (mkState (en + 1) None (TLit (cstr "topology")) false))
      | None => Ok LiFail
      end
    | None =>
      let* t := has_prefix "<topology>" s b in
      if t then Ok (LiOk 1 0 (mkState (b + 10) None (TLit (cstr "topology")) false)) else
      let* r := has_prefix "<root>" s b in
      if r then Ok (LiOk 0 9 (mkState (b + 6) None (TLit (cstr "root")) false)) else Ok LiFail
    end
  end.

(* hwloc_nolibxml_import_diff: headers, then the root state (tagname NULL) *)
Definition diff_init (s : list N) : res (option nstate) :=
  let* h := skip_headers (S (length s)) s 0 in
  match h with
  | None => Ok None
  | Some b => Ok (Some (mkState b None TNull false))
  end.

(* ---------- a generic client: visit the whole document ---------- *)
(* Events of the trace.  Offsets are printed together with the C string found there. *)
Inductive event :=
| EAttr (name value : list N)          (* next_attr returned 0 *)
| EChild (tag : list N) (cl : bool)    (* find_child returned 1 *)
| EFindErr                             (* find_child returned -1 *)
| EContent (ret : Z) (text : list N)   (* get_content *)
| EClose (ok : bool)                   (* close_tag *)
| EInit (major minor : N)
| EInitFail
| EFuel.                               (* the client ran out of fuel (never on real documents: fuel = length) *)

(* the C string at offset i (for printing only; Oob if unterminated inside the block) *)
Definition cstr_at (s : list N) (i : N) : res (list N) :=
  let* n := strlen_at s i in rdn s i n.

(* all attributes of the current tag; returns the value of the last "length" attribute (atoi) *)
Fixpoint walk_attrs (fuel : nat) (s : list N) (st : nstate) (lenattr : option Z) (acc : list event)
  : res (list N * nstate * option Z * list event) :=
  match fuel with
  | O => Ok (s, st, lenattr, EFuel :: acc)
  | S f =>
    let* r := next_attr s st in
    let '(s1, st1, o) := r in
    match o with
    | None => Ok (s1, st1, lenattr, acc)
    | Some (nm, vl) =>
      let* name := cstr_at s1 nm in
      let* value := cstr_at s1 vl in
      let* la := (if list_eq_dec N.eq_dec name (bytes_of_string "length")
                  then let* z := atoi s1 vl in Ok (Some z) else Ok lenattr) in
      walk_attrs f s1 st1 la (EAttr name value :: acc)
    end
  end.

(* status: true = went through, false = an error stopped the visit *)
Fixpoint walk (fuel : nat) (s : list N) (st : nstate) (acc : list event) : res (list N * nstate * bool * list event) :=
  match fuel with
  | O => Ok (s, st, false, EFuel :: acc)
  | S f =>
    let* ra := walk_attrs (S (length s)) s st None acc in
    let '(s1, st1, la, acc1) := ra in
    (* content, when the tag announces a length *)
    let* rc :=
      (match la with
       | None => Ok (s1, st1, true, acc1)
       | Some z =>
         let expected := if (z <? 0)%Z then Z.to_N (z + 18446744073709551616) else Z.to_N z in   (* (size_t) int *)
         let* g := get_content s1 st1 expected in
         let '(s2, st2, gr) := g in
         match gr with
         | GcErr => Ok (s2, st2, false, EContent (-1) [] :: acc1)
         | GcEmpty => let* s3 := close_content s2 st2 in Ok (s3, st2, true, EContent 0 [] :: acc1)
         | GcAt i => let* txt := cstr_at s2 i in
                     let* s3 := close_content s2 st2 in Ok (s3, st2, true, EContent 1 txt :: acc1)
         end
       end) in
    let '(s2, st2, ok, acc2) := rc in
    if negb ok then Ok (s2, st2, false, acc2) else
    (* children *)
    (fix children (cf : nat) (s : list N) (st : nstate) (acc : list event) {struct cf}
       : res (list N * nstate * bool * list event) :=
       match cf with
       | O => Ok (s, st, false, EFuel :: acc)
       | S cf' =>
         let* r := find_child s st in
         let '(s1, fr) := r in
         match fr with
         | FcErr => Ok (s1, st, false, EFindErr :: acc)
         | FcNone =>
           let* r2 := close_tag s1 st in
           let '(s2, st2, okc) := r2 in
           Ok (s2, st2, okc, EClose okc :: acc)
         | FcChild c tg =>
           let* tname := cstr_at s1 tg in
           let* rw := walk f s1 c (EChild tname (closed c) :: acc) in
           let '(s2, c2, okw, acc2) := rw in
           if negb okw then Ok (s2, st, false, acc2)
           else children cf' s2 (close_child st c2) acc2
         end
       end) (S (length s2)) s2 st2 acc2
  end.

(* whole documents.  kind topology: look_init then the root state is visited like any tag
   (it has no attribute buffer); kind diff: diff_init, find_child, visit that child. *)
Definition walk_topology (s : list N) : res (list event) :=
  let* li := look_init s in
  match li with
  | LiFail => Ok [EInitFail]
  | LiOk major minor st =>
    let* r := walk (S (length s)) s st [EInit major minor] in
    let '(_, _, _, acc) := r in Ok (rev acc)
  end.

Definition walk_diff (s : list N) : res (list event) :=
  let* d := diff_init s in
  match d with
  | None => Ok [EInitFail]
  | Some st =>
    let* r := find_child s st in
    let '(s1, fr) := r in
    match fr with
    | FcErr => Ok [EFindErr]
    | FcNone => Ok [EInitFail]       (* ret <= 0: goto out_with_buffer (commit d9c3dc5) *)
    | FcChild c tg =>
      let* tname := cstr_at s1 tg in
      let* rw := walk (S (length s)) s1 c [EChild tname (closed c)] in
      let '(_, _, _, acc) := rw in Ok (rev acc)
    end
  end.
