(* C20 - model of the location grammar and evaluator of utils/hwloc/hwloc-calc.h
   and of the option loop / output modes of utils/hwloc/hwloc-calc.c.

   Layout:
   1. the evaluator core over an ABSTRACT topology (a type of levels and, for
      every level, the list of its objects in logical order, each with its
      cpuset, nodeset and OS index): hwloc_calc_append_object_range with its
      unsigned loop, wrap-around, "to the end" amount and the assert();
   2. the denotational specification (what hwloc(7) says a location means);
   3. the parsers over checked strings (Base/Bytes): hwloc_calc_parse_level_size,
      hwloc_calc_parse_range, the chain of "type:range(.type:range)*", the
      prefixes and the set arguments (parsers of Bitmap/BitmapText);
   4. the concrete topology read from a dump, the option loop of main() and
      hwloc_calc_output (default / --largest / -N / -I / -H / --single, the
      three set formats).

   Faithfulness notes.
   * hwloc_calc_append_object_range parses "range[.type:range...]" again for
     every object of the enclosing loop; parsing does not depend on the object,
     so the model parses the chain once ([parse_chain]) and keeps, at the
     position where a call would return -1 before its loop, the node [CFail]
     (the caller ignores the value returned by the recursive calls).
   * int / unsigned / long conversions are explicit ([i32], [u32]).
   * Outside the model (the driver prints UNMODELLED): type filters in
     brackets, HBM/MCDRAM, I/O and Misc levels, --no-smt, --cpukind,
     --restrict, --default-nodes, --local-memory, --best-memattr,
     memorytier/cpukind pseudo levels, systemd-dbus-api output, -v, stdin. *)
From Coq Require Import List NArith ZArith Bool String Lia.
From HV Require Import Base.BSet Base.Bytes Base.Strto Gen.Tables Text.TypeOrder Text.TypeNames Bitmap.BitmapText
  Topo.Dump Topo.Obj Topo.Helpers.
Import ListNotations.
Local Open Scope Z_scope.

(* ================================================================== *)
(* 1. evaluator core                                                   *)

Record cobj := CO { co_cs : bset; co_nds : bset; co_os : N }.

Definition UINT : Z := 4294967296.
Definition u32 (z : Z) : Z := z mod UINT.                         (* -> unsigned *)
Definition i32 (z : Z) : Z :=                                      (* -> int *)
  let m := z mod UINT in if m <? 2147483648 then m else m - UINT.

(* what hwloc_calc_parse_range stores through firstp/amountp/stepp/wrapp *)
Record range := RG { r_first : Z; r_amount : Z; r_step : Z; r_wrap : bool }.

Definition sets := (bset * bset)%type.
Definition empty2 : sets := (bs_empty, bs_empty).
Definition union2 (a b : sets) : sets := (bs_union (fst a) (fst b), bs_union (snd a) (snd b)).
Definition osets (o : cobj) : sets := (co_cs o, co_nds o).

(* the three tests of hwloc_calc_get_{nbobjs,obj}_inside_sets_by_depth *)
Definition inside_sets (rcs rns : bset) (o : cobj) : bool :=
  negb (negb (bs_is_empty (co_cs o)) && negb (bs_intersects (co_cs o) rcs))
  && negb (negb (bs_is_empty (co_nds o)) && negb (bs_intersects (co_nds o) rns))
  && negb (bs_is_empty (co_cs o) && bs_is_empty (co_nds o)).
Definition inside_objs (rcs rns : bset) (lv : list cobj) : list cobj := filter (inside_sets rcs rns) lv.

(* hwloc_calc_get_obj_inside_sets_by_depth: [ind] is the unsigned value *)
Definition get_obj (logical : bool) (ins : list cobj) (ind : Z) : option cobj :=
  if logical then nth_error ins (Z.to_nat ind)
  else find (fun o => Z.of_N (co_os o) =? ind) ins.

Inductive chain (LV : Type) : Type :=
| CEnd (r : range)
| CNext (r : range) (lv : LV) (rest : chain LV)
| CFail            (* the call returns -1 before its loop *)
| CAbort.          (* assert(amount != -1 || !wrap) fails *)
Arguments CEnd {LV} r.
Arguments CNext {LV} r lv rest.
Arguments CFail {LV}.
Arguments CAbort {LV}.

(* number of iterations of "for(i=first, j=0; j<(unsigned)amount; i+=step, j++)"
   after the resolution of the "to the end" amount (unsigned arithmetic) *)
Definition loop_count (r : range) (w : Z) : Z :=
  if r_amount r =? -1 then
    (* amount = (unsigned) first < width ? (width-first+step-1)/step : 0;   (fix 01261ca) *)
    if u32 (r_first r) <? w then u32 (u32 (w - r_first r + r_step r - 1) / u32 (r_step r)) else 0
  else u32 (r_amount r).

Inductive lres := LSets (s : sets) | LIgnored | LAbort | LHuge | LUnmodelled.

Inductive eres := EAcc (ok : bool) (a : sets) | EAbortR | EHugeR.

Section Eval.
  Variable LV : Type.
  Variable objs : LV -> list cobj.
  Variable logical : bool.
  Variable limit : option Z.      (* watchdog of the executable model; None in the theorems *)

  (* the loop body is [f]; None = abort *)
  Fixpoint range_loop {A} (n : nat) (ins : list cobj) (w : Z) (wrap : bool) (step : Z) (i : Z)
           (f : cobj -> A -> option A) (acc : A) : option A :=
    match n with
    | O => Some acc
    | S n' =>
        let i1 := if wrap && (w <=? i) then 0 else i in
        match (match get_obj logical ins i1 with Some o => f o acc | None => Some acc end) with
        | None => None
        | Some acc' => range_loop n' ins w wrap step (u32 (i1 + step)) f acc'
        end
    end.

  Definition over_limit (c : Z) : bool :=
    match limit with Some l => l <? c | None => false end.

  (* hwloc_calc_append_object_range on an already parsed chain; the callback is
     hwloc_calc_process_location_set_cb (objects with cpusets: OR into cbdata) *)
  Fixpoint eval_chain (c : chain LV) (lv : LV) (rcs rns : bset) (acc : sets) {struct c} : eres :=
    match c with
    | CFail => EAcc false acc
    | CAbort => EAbortR
    | CEnd r =>
        let ins := inside_objs rcs rns (objs lv) in
        let w := Z.of_nat (List.length ins) in
        let cnt := loop_count r w in
        if over_limit cnt then EHugeR else
        match range_loop (Z.to_nat cnt) ins w (r_wrap r) (r_step r) (u32 (r_first r))
                (fun o a => Some (union2 a (osets o))) acc with
        | Some a => EAcc true a
        | None => EAbortR
        end
    | CNext r lv' rest =>
        let ins := inside_objs rcs rns (objs lv) in
        let w := Z.of_nat (List.length ins) in
        let cnt := loop_count r w in
        if over_limit cnt then EHugeR else
        match range_loop (Z.to_nat cnt) ins w (r_wrap r) (r_step r) (u32 (r_first r))
                (fun o a => match a with
                            | None => None
                            | Some a' =>
                              match eval_chain rest lv' (co_cs o) (co_nds o) a' with
                              | EAcc _ a'' => Some (Some a'')
                              | EAbortR => None
                              | EHugeR => Some None
                              end
                            end) (Some acc) with
        | Some (Some a) => EAcc true a
        | Some None => EHugeR
        | None => EAbortR
        end
    end.
End Eval.

(* ================================================================== *)
(* 2. denotational specification                                       *)

(* logical indexes: is position i of a level of w objects designated by the range? (hwloc(7):
   X, X-Y, X-, X:N with wrap-around, all, odd, even; a start beyond the level wraps to 0, as the code does) *)
Definition sel (r : range) (w i : Z) : bool :=
  if r_wrap r then
    (0 <? w) && existsb (fun k => i =? ((if r_first r <? w then r_first r else 0) + Z.of_nat k) mod w)
                        (seq 0 (Z.to_nat (r_amount r)))
  else
    (r_first r <=? i) && ((i - r_first r) mod r_step r =? 0)
    && ((r_amount r =? -1) || ((i - r_first r) / r_step r <? r_amount r)) && (i <? w).

Definition big_union {A} (f : A -> sets) (l : list A) : sets :=
  fold_right (fun x u => union2 (f x) u) empty2 l.

Fixpoint indexed_from {A} (k : Z) (l : list A) : list (Z * A) :=
  match l with [] => [] | x :: t => (k, x) :: indexed_from (k + 1) t end.
Definition indexed {A} (l : list A) : list (Z * A) := indexed_from 0 l.

Section Denote.
  Variable LV : Type.
  Variable objs : LV -> list cobj.

  (* the meaning of "lv:range.rest" below the sets (rcs, rns) *)
  Fixpoint denote (c : chain LV) (lv : LV) (rcs rns : bset) : sets :=
    match c with
    | CEnd r =>
        let ins := inside_objs rcs rns (objs lv) in
        big_union (fun io => if sel r (Z.of_nat (List.length ins)) (fst io) then osets (snd io) else empty2) (indexed ins)
    | CNext r lv' rest =>
        let ins := inside_objs rcs rns (objs lv) in
        big_union (fun io => if sel r (Z.of_nat (List.length ins)) (fst io)
                             then denote rest lv' (co_cs (snd io)) (co_nds (snd io)) else empty2) (indexed ins)
    | CFail | CAbort => empty2
    end.

  (* physical indexes, forms X and X-Y (hwloc(7): "the first object matching the given index is used"):
     for every number of the interval [first, first+amount), the first object inside carrying that OS index *)
  Definition interval (r : range) : list Z := map (fun k => r_first r + Z.of_nat k) (seq 0 (Z.to_nat (r_amount r))).
  Fixpoint denote_phys (c : chain LV) (lv : LV) (rcs rns : bset) : sets :=
    match c with
    | CEnd r =>
        let ins := inside_objs rcs rns (objs lv) in
        big_union (fun j => match get_obj false ins j with Some o => osets o | None => empty2 end) (interval r)
    | CNext r lv' rest =>
        let ins := inside_objs rcs rns (objs lv) in
        big_union (fun j => match get_obj false ins j with
                            | Some o => denote_phys rest lv' (co_cs o) (co_nds o)
                            | None => empty2
                            end) (interval r)
    | CFail | CAbort => empty2
    end.
End Denote.

(* the operators of a location list *)
Inductive mode := MAdd | MClr | MAnd | MXor.
Definition apply_mode (m : mode) (a b : bset) : bset :=
  match m with MAdd => bs_union a b | MClr => bs_diff a b | MAnd => bs_inter a b | MXor => bs_xor a b end.
Definition apply_mode2 (m : mode) (a b : sets) : sets := (apply_mode m (fst a) (fst b), apply_mode m (snd a) (snd b)).

(* a location list after parsing: each item is an operator and the sets it names *)
Definition denote_list (items : list (mode * sets)) : sets :=
  fold_left (fun acc it => apply_mode2 (fst it) acc (snd it)) items empty2.

(* ================================================================== *)
(* 3. parsers over checked strings                                     *)
Local Open Scope N_scope.

Definition C_DOT : N := 46.  Definition C_COLON : N := 58.  Definition C_EQ : N := 61.
Definition C_LBR : N := 91.  Definition C_RBR : N := 93.    Definition C_MINUS : N := 45.

(* hwloc_calc_parse_level_size(s+p) *)
Definition parse_level_size (s : list N) (p : N) : res N :=
  let* l := strcspn s p [C_COLON; C_EQ; C_DOT; C_LBR] in
  let* c := rdr s (p + l) in
  if negb (c =? C_LBR) then Ok l
  else
    let* e := strchr s (p + l) C_RBR in
    match e with
    | None => Ok 0
    | Some j => Ok (j + 1 - p)
    end.

Definition mk_range (first amount : Z) (wrap : bool) : range := RG (i32 first) (i32 amount) 1 wrap.
Definition INT_MAX : Z := 2147483647.
Definition LONG_MAXZ : Z := 9223372036854775807.
(* the end of hwloc_calc_parse_range for the numeric forms (fix 99dfc63):
   "if (first > INT_MAX || amount > INT_MAX) return -1;" before the values are stored into int *)
Definition store_range (first amount : Z) (wrap : bool) : option range :=
  if (INT_MAX <? first)%Z || (INT_MAX <? amount)%Z then None else Some (mk_range first amount wrap).
(* "amount = last-first+1" overflows long when last = LONG_MAX and first = 0: undefined behaviour (UBSan
   aborts).  Encoded as the shape (amount = -1, wrap-around) that no other path produces any more and
   that [parse_chain] turns into [CAbort]. *)
Definition ub_marker : range := RG 0 (-1) 1 true.

(* hwloc_calc_parse_range(s+p): (None = -1 | Some range, index of the dot) *)
Definition parse_range (s : list N) (p : N) : res (option range * option N) :=
  let* dot := strchr s p C_DOT in
  let* l := (match dot with Some d => Ok (d - p) | None => strlen_at s p end) in
  if 65 <=? l then Ok (None, dot)
  else
    let* body := rdn s p l in
    let str := body ++ [0] in                   (* char string[65]: only the copied bytes and the NUL are defined *)
    let* c0 := rdr str 0 in
    if negb (isdigit c0) then
      let* a := has_prefix "all" str 0 in
      if a then Ok (Some (RG 0 (-1) 1 false), dot) else
      let* o := has_prefix "odd" str 0 in
      if o then Ok (Some (RG 1 (-1) 2 false), dot) else
      let* e := has_prefix "even" str 0 in
      if e then Ok (Some (RG 0 (-1) 2 false), dot) else Ok (None, dot)
    else
      let* r1 := strtol str 0 10 in
      let '(first, e) := r1 in
      let* ce := rdr str e in
      if ce =? C_MINUS then
        let* r2 := strtol str (e + 1) 10 in
        let '(last, e2) := r2 in
        let* c2 := rdr str e2 in
        if negb (c2 =? 0) then Ok (None, dot)
        else if e2 =? e + 1 then Ok (store_range first (-1) false, dot)
        else if (last <? first)%Z then Ok (None, dot)              (* "last index is lower than first index" (fix 01261ca) *)
        else if (LONG_MAXZ <? last - first + 1)%Z then Ok (Some ub_marker, dot)
        else Ok (store_range first (last - first + 1) false, dot)
      else if ce =? C_COLON then
        let* r2 := strtol str (e + 1) 10 in
        let '(amount, e2) := r2 in
        let* c2 := rdr str e2 in
        if negb (c2 =? 0) then Ok (None, dot)
        else if e2 =? e + 1 then Ok (None, dot)
        else if (amount <? 0)%Z then Ok (None, dot)                 (* "invalid negative width" (fix 01261ca) *)
        else Ok (store_range first amount true, dot)
      else if negb (ce =? 0) then Ok (None, dot)
      else Ok (store_range first 1 false, dot).

(* a level as the evaluator needs it *)
Inductive lvl (LV : Type) := LvNormal (lv : LV) | LvSpecial | LvUnmodelled.
Arguments LvNormal {LV} lv.
Arguments LvSpecial {LV}.
Arguments LvUnmodelled {LV}.

Section Parse.
  Variable LV : Type.
  (* hwloc_calc_parse_level on the copied type string (a fresh NUL-terminated
     block): None = -1 *)
  Variable resolve : list N -> res (option (lvl LV)).

  (* char typestring[21]; snprintf(typestring, typelen+1, "%s", s+p) *)
  Definition parse_level (s : list N) (p typelen : N) : res (option (lvl LV)) :=
    if 21 <=? typelen then Ok None
    else let* body := rdn s p typelen in resolve (body ++ [0]).

  Inductive pchain := PChain (c : chain LV) | PUnmodelled.

  (* the parsing part of hwloc_calc_append_object_range(s+p), then of its recursive calls *)
  Fixpoint parse_chain (fuel : nat) (s : list N) (p : N) : res pchain :=
    match fuel with
    | O => Oob
    | S f =>
      let* pr := parse_range s p in
      match pr with
      | (None, _) => Ok (PChain CFail)
      | (Some r, dot) =>
        if (r_amount r =? -1)%Z && r_wrap r then Ok (PChain CAbort)
        else
        match dot with
        | None => Ok (PChain (CEnd r))
        | Some d =>
          let ns := d + 1 in
          let* typelen := parse_level_size s ns in
          let* sc := rdr s (ns + typelen) in
          if (typelen =? 0) || negb (sc =? C_COLON) then Ok (PChain CFail)
          else
            let* lv := parse_level s ns typelen in
            match lv with
            | None => Ok (PChain CFail)
            | Some LvSpecial => Ok (PChain CFail)            (* "only supported with normal object types" *)
            | Some LvUnmodelled => Ok PUnmodelled
            | Some (LvNormal l) =>
              let* rest := parse_chain f s (ns + typelen + 1) in
              match rest with
              | PChain c => Ok (PChain (CNext r l c))
              | PUnmodelled => Ok PUnmodelled
              end
            end
        end
      end
    end.
End Parse.
Arguments PChain {LV} c.
Arguments PUnmodelled {LV}.

(* strcmp(s+p, lit) == 0 *)
Definition str_is (lit : string) (s : list N) (p : N) : res bool :=
  cmp_eq (strncmp (cstr lit) 0 s p (len (bytes_of_string lit) + 1)).

(* hwloc_utils_cpuset_format_sscanf on a fresh bitmap; formats: 0 unknown, 1 hwloc, 2 list, 3 systemd, 4 taskset *)
Inductive setres := SRSet (b : bset) | SRFail | SRAbort.
Definition parse_set (fmt : N) (s : list N) : res setres :=
  let* f := (if fmt =? 0 then
               let* x := cmp_eq (strncasecmp s 0 (cstr "0x") 0 2) in
               let* m := strchr s 0 C_MINUS in
               if negb x && (match m with Some _ => true | None => false end) then Ok 2
               else let* c := strchr s 0 44 in
                    match c with Some _ => Ok 1 | None => Ok 4 end
             else Ok fmt) in
  if f =? 1 then
    let* r := parse_hwloc 0 s in
    match r with PSet b => Ok (SRSet (abs b)) | PFail => Ok SRFail | PAssert => Ok SRAbort end
  else if f =? 2 then
    let* r := parse_list s in
    match r with Some b => Ok (SRSet b) | None => Ok SRFail end
  else if f =? 4 then
    let* r := parse_taskset 0 s in
    match r with PSet b => Ok (SRSet (abs b)) | PFail => Ok SRFail | PAssert => Ok SRAbort end
  else Ok SRAbort.                              (* abort() *)

Section Location.
  Variable LV : Type.
  Variable objs : LV -> list cobj.
  Variable resolve : list N -> res (option (lvl LV)).
  Variable topo_sets : sets.                     (* hwloc_topology_get_topology_{cpuset,nodeset} *)
  Variable complete_sets : sets.                 (* hwloc_topology_get_complete_{cpuset,nodeset} *)
  Variable to_nodeset : bset -> bset.            (* hwloc_cpuset_to_nodeset *)
  Variable from_nodeset : bset -> bset.          (* hwloc_cpuset_from_nodeset *)
  Variable limit : option Z.

  (* hwloc_calc_process_location_as_set: (operator, what is combined) *)
  Definition process_arg (logical nodeset_input : bool) (fmt : N) (s : list N) : res (mode * lres) :=
    let* c0 := rdr s 0 in
    let '(m, p) := (if c0 =? 126 then (MClr, 1) else if c0 =? 120 then (MAnd, 1)
                    else if c0 =? 94 then (MXor, 1) else (MAdd, 0)) in
    let* a := str_is "all" s p in
    let* r := str_is "root" s p in
    if a || r then Ok (m, LSets topo_sets)
    else
      let* typelen := parse_level_size s p in
      let* sc := rdr s (p + typelen) in
      if (0 <? typelen) && ((sc =? C_COLON) || (sc =? C_EQ)) then
        (* hwloc_calc_process_location *)
        let* lv := parse_level LV resolve s p typelen in
        match lv with
        | None => Ok (m, LIgnored)
        | Some LvUnmodelled => Ok (m, LUnmodelled)
        | Some LvSpecial => Ok (m, LUnmodelled)
        | Some (LvNormal l) =>
          let* pc := parse_chain LV resolve (S (List.length s)) s (p + typelen + 1) in
          match pc with
          | PUnmodelled => Ok (m, LUnmodelled)
          | PChain c =>
            match eval_chain LV objs logical limit c l (fst complete_sets) (snd complete_sets) empty2 with
            | EAcc true a => Ok (m, LSets a)
            | EAcc false _ => Ok (m, LIgnored)
            | EAbortR => Ok (m, LAbort)
            | EHugeR => Ok (m, LHuge)
            end
          end
        end
      else
        let* ps := parse_set fmt (skipn (N.to_nat p) s) in
        match ps with
        | SRFail => Ok (m, LIgnored)
        | SRAbort => Ok (m, LAbort)
        | SRSet b =>
          if nodeset_input then Ok (m, LSets (from_nodeset b, b))
          else Ok (m, LSets (b, to_nodeset b))
        end.
End Location.

(* ================================================================== *)
(* 4. concrete topology, main(), hwloc_calc_output                     *)

Definition cobj_of (o : dobj) : cobj := CO (dcs o) (dnds o) (o_os o).
Definition dlevel (d : dump) (depth : Z) : list cobj := map cobj_of (level_objs d depth).

Definition to_Nu (z : Z) : N := Z.to_N (z mod 4294967296).

(* hwloc_get_type_depth_with_attr *)
Definition type_depth_with_attr (d : dump) (t : N) (w : attr_write) : Z :=
  let depth := get_type_depth d (Z.of_N t) in
  match w with
  | AWgroup gd =>
      if (t =? HWLOC_OBJ_GROUP) && (depth =? HWLOC_TYPE_DEPTH_MULTIPLE)%Z && negb (gd =? NEG1U) then
        match find (fun l => (0 <=? l_depth l)%Z &&
                             match level_objs d (l_depth l) with
                             | o :: _ => (o_type o =? HWLOC_OBJ_GROUP) && (to_Nu (o_group_depth o) =? gd)
                             | [] => false
                             end) (t_levels d) with
        | Some l => l_depth l
        | None => HWLOC_TYPE_DEPTH_UNKNOWN
        end
      else depth
  | _ => depth
  end.

Definition has_byte (c : N) (s : list N) : bool := existsb (N.eqb c) s.

(* hwloc_calc_parse_level after the copy into typestring *)
(* [out]: the level names an OUTPUT (-N / -I / -H), where the memory-side cache level is usable (the loops of
   hwloc_calc_output work on any depth); as a location it is outside the model *)
Definition resolve_dump_gen (out : bool) (d : dump) (ts : list N) : res (option (lvl Z)) :=
  let* r := type_sscanf_cur ts (Some SIZEOF_ATTR_UNION) in
  match r with
  | Some (t, w) =>
      let depth := type_depth_with_attr d t w in
      if (depth =? HWLOC_TYPE_DEPTH_UNKNOWN)%Z || (depth =? HWLOC_TYPE_DEPTH_MULTIPLE)%Z then Ok None
      else if has_byte C_LBR ts then Ok (Some LvUnmodelled)                  (* filters *)
      else if (0 <=? depth)%Z || (depth =? HWLOC_TYPE_DEPTH_NUMANODE)%Z then Ok (Some (LvNormal depth))
      else if (depth =? HWLOC_TYPE_DEPTH_MEMCACHE)%Z then Ok (Some (if out then LvNormal depth else LvUnmodelled))
      else Ok (Some LvSpecial)
  | None =>
      let* h := cmp_eq (strncasecmp ts 0 (cstr "HBM") 0 4) in
      let* m := cmp_eq (strncasecmp ts 0 (cstr "MCDRAM") 0 7) in
      if h || m then Ok (Some LvUnmodelled)
      else
        let* ve := strtoul ts 0 0 in
        let '(v, e) := ve in
        let depth := i32 (Z.of_N v) in
        let* c0 := rdr ts 0 in
        let* ce := rdr ts e in
        if (c0 =? C_MINUS) || negb (ce =? 0) || (t_depth d <=? depth)%Z then Ok None
        else if (0 <=? depth)%Z || (depth =? HWLOC_TYPE_DEPTH_NUMANODE)%Z then Ok (Some (LvNormal depth))
        else Ok (Some LvSpecial)
  end.

Definition resolve_dump := resolve_dump_gen false.

Definition root_obj (d : dump) : option dobj := get d 0.
Definition d_topo_sets (d : dump) : sets :=
  match root_obj d with Some r => (dcs r, dnds r) | None => empty2 end.
Definition d_complete_sets (d : dump) : sets :=
  match root_obj d with
  | Some r => (match o_ccs r with Some s => s | None => bs_empty end, match o_cnds r with Some s => s | None => bs_empty end)
  | None => empty2
  end.
Definition numa_level (d : dump) : list dobj := level_objs d HWLOC_TYPE_DEPTH_NUMANODE.

(* --- printing --- *)
Definition bm_of_bset (s : bset) : bm :=
  let '(i, ws) := canon s in
  match ws with [] => BM [if i then FULL else 0] i | _ => BM ws i end.

Definition print_set (fmt : N) (s : bset) : option (list N) :=
  if fmt =? 1 then Some (text_hwloc (bm_of_bset s))
  else if fmt =? 2 then text_list s
  else if fmt =? 4 then Some (text_taskset (bm_of_bset s))
  else None.

Definition tobj_of (o : dobj) : tobj :=
  TO (o_type o) (to_Nu (o_cache_depth o)) (to_Nu (o_cache_type o)) (to_Nu (o_group_depth o)) 0 1 (to_Nu (o_os_types o)).

Definition type_name (o : dobj) (flags : N) : list N :=
  match type_text (tobj_of o) flags with PrOk t => t | _ => [] end.

Definition idx_text (i : N) : list N := if i =? NEG1U then [45; 49] else BitmapText.dec i.

Fixpoint join (sep : list N) (l : list (list N)) : list N :=
  match l with
  | [] => []
  | [x] => x
  | x :: tl => x ++ sep ++ join sep tl
  end.

Definition NL : list N := [10].

(* hwloc_bitmap_singlify *)
Definition singlify (s : bset) : bset := match bs_first s with Some i => bs_single i | None => bs_empty end.

(* --largest: while (!iszero(remaining)) { obj = first_largest(remaining); print; remaining &= ~obj->cpuset }.
   (tokens printed so far, finished normally?) *)
Fixpoint largest_loop (fuel : nat) (root : obj) (remaining : bset) : list dobj * bool :=
  match fuel with
  | O => ([], false)
  | S f =>
    if bs_is_empty remaining then ([], true)
    else match get_first_largest_obj_inside_cpuset root remaining with
         | None => ([], false)                            (* "No object included in this cpuset": EXIT_FAILURE *)
         | Some o =>
           let '(l, ok) := largest_loop f root (bs_diff remaining (cs o)) in (odata o :: l, ok)
         end
  end.

Definition largest_token (lo : bool) (o : dobj) : list N :=
  let idx := if lo then o_lidx o else o_os o in
  type_name o HWLOC_OBJ_SNPRINTF_FLAG_LONG_NAMES ++ (if idx =? NEG1U then [] else C_COLON :: BitmapText.dec idx).

(* hwloc_calc_get_next_obj_covering_set_by_depth + the filter-free loops of -N and -I *)
Definition covers (cs ns : bset) (o : dobj) : bool :=
  if is_memory (o_type o) then bs_intersects ns (dnds o) else bs_intersects cs (dcs o).

(* -N: nb = 0; while ((obj = next_covering(obj)) != NULL) nb++; *)
Fixpoint count_loop (lv : list dobj) (cs ns : bset) (nb : N) : N :=
  match lv with
  | [] => nb
  | o :: tl => if covers cs ns o then count_loop tl cs ns (N.succ nb) else count_loop tl cs ns nb
  end.

(* -I: the entries printed, in order *)
Fixpoint intersect_loop (lv : list dobj) (cs ns : bset) (lo oo : bool) : list (list N) :=
  match lv with
  | [] => []
  | o :: tl =>
    if covers cs ns o then
      ((if oo then type_name o 0 ++ [C_COLON] else []) ++ idx_text (if lo then o_lidx o else o_os o))
        :: intersect_loop tl cs ns lo oo
    else intersect_loop tl cs ns lo oo
  end.

(* -H: hwloc_calc_hierarch_output; the pieces written to stdout in order (separators included) *)
Fixpoint hier_output (d : dump) (lo : bool) (sep : list N) (levels : list Z) (prefix : list N) (lvl : bool)
         (rootcs : bset) (set : bset) {struct levels} : list (list N) :=
  match levels with
  | [] => []
  | depth :: deeper =>
    let objs := filter (fun o => bs_intersects rootcs (dcs o)) (level_objs d depth) in
    (fix go (l : list dobj) (logi : N) (first : bool) {struct l} : list (list N) :=
       match l with
       | [] => []
       | o :: tl =>
         if negb (bs_intersects set (dcs o)) then go tl (N.succ logi) first
         else
           let idx := if lo then logi else o_os o in
           let str := prefix ++ (if lvl then [C_DOT] else []) ++ type_name o HWLOC_OBJ_SNPRINTF_FLAG_LONG_NAMES
                      ++ [C_COLON] ++ idx_text idx in
           (if first then [] else [sep])
           ++ (match deeper with
               | [] => [str]
               | _ => hier_output d lo sep deeper str true (dcs o) (bs_inter set (dcs o))
               end)
           ++ go tl (N.succ logi) false
       end) objs 0%N true
  end.

(* --- main() --- *)
Record cstate := CS {
  s_verbose : Z; s_li : bool; s_lo : bool; s_ni : bool; s_no : bool; s_oo : bool; s_single : bool;
  s_sep : option (list N); s_cof : N; s_cif : N; s_largest : bool;
  s_nstr : option (list N); s_istr : option (list N); s_hstr : option (list N);
  s_sets : sets; s_nloc : N
}.
Definition cs0 : cstate := CS 0 true true false false false false None 1 0 false None None None empty2 0.

Inductive outcome := Exit (rc : N) (out : list N) | Aborted | Huge | Unmodelled (why : N).

(* content of an argument up to its terminator *)
Fixpoint content (s : list N) : list N :=
  match s with [] => [] | b :: t => if b =? 0 then [] else b :: content t end.
Fixpoint list_eqb (a b : list N) : bool :=
  match a, b with [] , [] => true | x :: a', y :: b' => (x =? y) && list_eqb a' b' | _, _ => false end.
Definition is_opt (names : list string) (a : list N) : bool := existsb (fun n => list_eqb a (lit n)) names.

(* hwloc_utils_parse_cpuset_format *)
Definition parse_format (a : list N) : N :=
  if list_eqb a (lit "hwloc") then 1 else if list_eqb a (lit "list") then 2
  else if list_eqb a (lit "systemd-dbus-api") then 3 else if list_eqb a (lit "taskset") then 4 else 0.

Definition set_sets (st : cstate) (x : sets) (n : N) : cstate :=
  CS (s_verbose st) (s_li st) (s_lo st) (s_ni st) (s_no st) (s_oo st) (s_single st) (s_sep st) (s_cof st) (s_cif st)
     (s_largest st) (s_nstr st) (s_istr st) (s_hstr st) x n.

Definition is_dash (a : list N) : bool := match a with b :: _ => b =? 45 | [] => false end.

Section Main.
  Variable d : dump.
  Variable limit : option Z.

  Definition process_arg_d (st : cstate) (s : list N) : res (mode * lres) :=
    process_arg Z (dlevel d) (resolve_dump d) (d_topo_sets d) (d_complete_sets d)
                (cpuset_to_nodeset (numa_level d)) (cpuset_from_nodeset (numa_level d)) limit
                (s_li st) (s_ni st) (s_cif st) s.

  Inductive step := Continue (st : cstate) (consumed : nat) | Stop (o : outcome).

  (* a location: hwloc_calc_process_location_as_set on the output sets of the state
     ("ignored unrecognized argument" when it returns -1) *)
  Definition loc_step (st : cstate) (arg : list N) : res step :=
    let* r := process_arg_d st arg in
    match r with
    | (m, LSets x) => Ok (Continue (set_sets st (apply_mode2 m (s_sets st) x) (N.succ (s_nloc st))) 0)
    | (_, LIgnored) => Ok (Continue st 0)
    | (_, LAbort) => Ok (Stop Aborted)
    | (_, LHuge) => Ok (Stop Huge)
    | (_, LUnmodelled) => Ok (Stop (Unmodelled 2))
    end.

  (* one iteration of the second while(argc >= 1) loop of main() *)
  Definition main_step (st : cstate) (arg : list N) (next : option (list N)) : res step :=
    let a := content arg in
    let upd f := Ok (Continue (f st) 0) in
    let with_value (k : list N -> res step) :=
      match next with None => Ok (Stop (Exit 1 [])) | Some v => k v end in
    if is_dash a then                           (* *argv[0] == '-' *)
      if is_opt ["-h"; "--help"; "--version"; "-v"; "--verbose"; "--no-smt"; "--default-nodes"; "--local-memory";
                 "--local-memory-flags"; "--best-memattr"]%string a
         || list_eqb (firstn 9 a) (lit "--no-smt=") then Ok (Stop (Unmodelled 1))
      else if is_opt ["-q"; "--quiet"]%string a then
        upd (fun st => CS (s_verbose st - 1) (s_li st) (s_lo st) (s_ni st) (s_no st) (s_oo st) (s_single st) (s_sep st) (s_cof st) (s_cif st) (s_largest st) (s_nstr st) (s_istr st) (s_hstr st) (s_sets st) (s_nloc st))
      else if is_opt ["--disallowed"; "--whole-system"]%string a then Ok (Stop (Exit 1 []))
      else if is_opt ["--number-of"; "-N"]%string a then
        with_value (fun v => Ok (Continue (CS (s_verbose st) (s_li st) (s_lo st) (s_ni st) (s_no st) (s_oo st) (s_single st) (s_sep st) (s_cof st) (s_cif st) (s_largest st) (Some v) (s_istr st) (s_hstr st) (s_sets st) (s_nloc st)) 1))
      else if is_opt ["--intersect"; "-I"]%string a then
        with_value (fun v => Ok (Continue (CS (s_verbose st) (s_li st) (s_lo st) (s_ni st) (s_no st) (s_oo st) (s_single st) (s_sep st) (s_cof st) (s_cif st) (s_largest st) (s_nstr st) (Some v) (s_hstr st) (s_sets st) (s_nloc st)) 1))
      else if is_opt ["--hierarchical"; "-H"]%string a then
        with_value (fun v => Ok (Continue (CS (s_verbose st) (s_li st) (s_lo st) (s_ni st) (s_no st) (s_oo st) (s_single st) (s_sep st) (s_cof st) (s_cif st) (s_largest st) (s_nstr st) (s_istr st) (Some v) (s_sets st) (s_nloc st)) 1))
      else if is_opt ["--largest"]%string a then
        upd (fun st => CS (s_verbose st) (s_li st) (s_lo st) (s_ni st) (s_no st) (s_oo st) (s_single st) (s_sep st) (s_cof st) (s_cif st) true (s_nstr st) (s_istr st) (s_hstr st) (s_sets st) (s_nloc st))
      else if is_opt ["-l"; "--logical"]%string a then
        upd (fun st => CS (s_verbose st) true true (s_ni st) (s_no st) (s_oo st) (s_single st) (s_sep st) (s_cof st) (s_cif st) (s_largest st) (s_nstr st) (s_istr st) (s_hstr st) (s_sets st) (s_nloc st))
      else if is_opt ["--li"; "--logical-input"]%string a then
        upd (fun st => CS (s_verbose st) true (s_lo st) (s_ni st) (s_no st) (s_oo st) (s_single st) (s_sep st) (s_cof st) (s_cif st) (s_largest st) (s_nstr st) (s_istr st) (s_hstr st) (s_sets st) (s_nloc st))
      else if is_opt ["--lo"; "--logical-output"]%string a then
        upd (fun st => CS (s_verbose st) (s_li st) true (s_ni st) (s_no st) (s_oo st) (s_single st) (s_sep st) (s_cof st) (s_cif st) (s_largest st) (s_nstr st) (s_istr st) (s_hstr st) (s_sets st) (s_nloc st))
      else if is_opt ["-p"; "--physical"]%string a then
        upd (fun st => CS (s_verbose st) false false (s_ni st) (s_no st) (s_oo st) (s_single st) (s_sep st) (s_cof st) (s_cif st) (s_largest st) (s_nstr st) (s_istr st) (s_hstr st) (s_sets st) (s_nloc st))
      else if is_opt ["--pi"; "--physical-input"]%string a then
        upd (fun st => CS (s_verbose st) false (s_lo st) (s_ni st) (s_no st) (s_oo st) (s_single st) (s_sep st) (s_cof st) (s_cif st) (s_largest st) (s_nstr st) (s_istr st) (s_hstr st) (s_sets st) (s_nloc st))
      else if is_opt ["--po"; "--physical-output"]%string a then
        upd (fun st => CS (s_verbose st) (s_li st) false (s_ni st) (s_no st) (s_oo st) (s_single st) (s_sep st) (s_cof st) (s_cif st) (s_largest st) (s_nstr st) (s_istr st) (s_hstr st) (s_sets st) (s_nloc st))
      else if is_opt ["-n"; "--nodeset"]%string a then
        upd (fun st => CS (s_verbose st) (s_li st) (s_lo st) true true (s_oo st) (s_single st) (s_sep st) (s_cof st) (s_cif st) (s_largest st) (s_nstr st) (s_istr st) (s_hstr st) (s_sets st) (s_nloc st))
      else if is_opt ["--ni"; "--nodeset-input"]%string a then
        upd (fun st => CS (s_verbose st) (s_li st) (s_lo st) true (s_no st) (s_oo st) (s_single st) (s_sep st) (s_cof st) (s_cif st) (s_largest st) (s_nstr st) (s_istr st) (s_hstr st) (s_sets st) (s_nloc st))
      else if is_opt ["--no"; "--nodeset-output"]%string a then
        upd (fun st => CS (s_verbose st) (s_li st) (s_lo st) (s_ni st) true (s_oo st) (s_single st) (s_sep st) (s_cof st) (s_cif st) (s_largest st) (s_nstr st) (s_istr st) (s_hstr st) (s_sets st) (s_nloc st))
      else if is_opt ["--oo"; "--object-output"]%string a then
        upd (fun st => CS (s_verbose st) (s_li st) (s_lo st) (s_ni st) (s_no st) true (s_single st) (s_sep st) (s_cof st) (s_cif st) (s_largest st) (s_nstr st) (s_istr st) (s_hstr st) (s_sets st) (s_nloc st))
      else if is_opt ["--sep"]%string a then
        with_value (fun v => Ok (Continue (CS (s_verbose st) (s_li st) (s_lo st) (s_ni st) (s_no st) (s_oo st) (s_single st) (Some (content v)) (s_cof st) (s_cif st) (s_largest st) (s_nstr st) (s_istr st) (s_hstr st) (s_sets st) (s_nloc st)) 1))
      else if is_opt ["--single"]%string a then
        upd (fun st => CS (s_verbose st) (s_li st) (s_lo st) (s_ni st) (s_no st) (s_oo st) true (s_sep st) (s_cof st) (s_cif st) (s_largest st) (s_nstr st) (s_istr st) (s_hstr st) (s_sets st) (s_nloc st))
      else if is_opt ["--cpuset-output-format"; "--cof"; "--nodeset-output-format"; "--nof"]%string a then
        with_value (fun v =>
          let f := parse_format (content v) in
          if f =? 0 then Ok (Stop (Exit 1 []))
          else Ok (Continue (CS (s_verbose st) (s_li st) (s_lo st) (s_ni st)
                                (if is_opt ["--nodeset-output-format"; "--nof"]%string a then true else s_no st)
                                (s_oo st) (s_single st) (s_sep st) f (s_cif st) (s_largest st) (s_nstr st) (s_istr st) (s_hstr st) (s_sets st) (s_nloc st)) 1))
      else if is_opt ["--cpuset-input-format"; "--cif"]%string a then
        with_value (fun v =>
          let f := parse_format (content v) in
          if (f =? 0) || (f =? 3) then Ok (Stop (Exit 1 []))
          else Ok (Continue (CS (s_verbose st) (s_li st) (s_lo st) (s_ni st) (s_no st) (s_oo st) (s_single st) (s_sep st) (s_cof st) f (s_largest st) (s_nstr st) (s_istr st) (s_hstr st) (s_sets st) (s_nloc st)) 1))
      else if is_opt ["--taskset"]%string a then
        upd (fun st => CS (s_verbose st) (s_li st) (s_lo st) (s_ni st) (s_no st) (s_oo st) (s_single st) (s_sep st) 4 (s_cif st) (s_largest st) (s_nstr st) (s_istr st) (s_hstr st) (s_sets st) (s_nloc st))
      else Ok (Stop (Exit 1 []))                   (* Unrecognized option *)
    else loc_step st arg.

  Fixpoint main_loop (st : cstate) (args : list (list N)) {struct args} : res (cstate + outcome) :=
    match args with
    | [] => Ok (inl st)
    | a :: tl =>
      let* r := main_step st a (match tl with v :: _ => Some v | [] => None end) in
      match r with
      | Stop o => Ok (inr o)
      | Continue st' 0 => main_loop st' tl
      | Continue st' _ => match tl with _ :: tl' => main_loop st' tl' | [] => Ok (inl st') end
      end
    end.

  (* a level named by -N / -I / -H: hwloc_calc_parse_level(NULL, ..., strlen) *)
  Inductive lvl_opt := LoNone | LoFail | LoLevel (depth : Z) | LoUnmodelled.
  Definition opt_level (o : option (list N)) : res lvl_opt :=
    match o with
    | None => Ok LoNone
    | Some v =>
      let a := content v in
      if list_eqb (map tolower (firstn 10 a)) (lit "memorytier") || list_eqb (map tolower (firstn 7 a)) (lit "cpukind")
      then Ok LoUnmodelled
      else if 21 <=? len a then Ok LoFail
      else
        let* r := resolve_dump_gen true d (a ++ [0]) in
        match r with
        | None => Ok LoFail
        | Some (LvNormal z) => Ok (LoLevel z)
        | Some LvSpecial => Ok LoUnmodelled
        | Some LvUnmodelled => Ok LoUnmodelled
        end
    end.

  (* split at '.' *)
  Fixpoint split_dots (a cur : list N) : list (list N) :=
    match a with
    | [] => [rev cur]
    | c :: t => if c =? C_DOT then rev cur :: split_dots t [] else split_dots t (c :: cur)
    end.

  Fixpoint hier_levels (parts : list (list N)) : res (option (option (list Z))) :=   (* None unmodelled; Some None = goto out *)
    match parts with
    | [] => Ok (Some (Some []))
    | p :: tl =>
      let* l := opt_level (Some (p ++ [0])) in
      match l with
      | LoLevel z =>
        (* "unsupported (non-normal) --hierarchical type": goto out *)
        if (z <? 0)%Z && negb (z =? HWLOC_TYPE_DEPTH_NUMANODE)%Z then Ok (Some None) else
        let* r := hier_levels tl in
        match r with
        | Some (Some zs) => Ok (Some (Some (z :: zs)))
        | x => Ok x
        end
      | LoFail => Ok (Some None)
      | _ => Ok None
      end
    end.

  Definition WAITING : list N := lit "Waiting for locations to process on stdin..." ++ NL.

  (* hwloc_calc_output *)
  Definition calc_output (st : cstate) (nlv ilv : lvl_opt) (hlv : option (list Z)) : outcome :=
    let csr := fst (s_sets st) in
    let ns := snd (s_sets st) in
    let cs := if s_single st then singlify csr else csr in
    if s_largest st then
      match tree_of_dump d with
      | None => Unmodelled 3
      | Some root =>
        let sep := match s_sep st with Some s => s | None => [32] end in
        let '(l, ok) := largest_loop (S (List.length (t_objs d))) root cs in
        let txt := join sep (map (largest_token (s_lo st)) l) in
        if ok then Exit 0 (txt ++ NL) else Exit 1 txt
      end
    else match nlv with
    | LoLevel z => Exit 0 (BitmapText.dec (count_loop (level_objs d z) cs ns 0) ++ NL)
    | _ =>
      match ilv with
      | LoLevel z =>
        let sep := match s_sep st with Some s => s | None => [44] end in
        Exit 0 (join sep (intersect_loop (level_objs d z) cs ns (s_lo st) (s_oo st)) ++ NL)
      | _ =>
        match hlv with
        | Some levels =>
          let sep := match s_sep st with Some s => s | None => [32] end in
          match root_obj d with
          | Some r => Exit 0 (List.concat (hier_output d (s_lo st) sep levels [] false (dcs r) cs) ++ NL)
          | None => Unmodelled 3
          end
        | None =>
          match print_set (s_cof st) (if s_no st then ns else cs) with
          | Some t => Exit 0 (t ++ NL)
          | None => Unmodelled 4
          end
        end
      end
    end.

  (* ---- stdin mode: "process stdin arguments line-by-line" ---- *)
  (* strtok(line, " \n"): the tokens of a line, each a NUL-terminated string *)
  Fixpoint tokenize (line cur : list N) : list (list N) :=
    match line with
    | [] => match cur with [] => [] | _ => [rev cur ++ [0]] end
    | c :: t => if (c =? 32) || (c =? 10)
                then match cur with [] => tokenize t [] | _ => (rev cur ++ [0]) :: tokenize t [] end
                else tokenize t (c :: cur)
    end.

  (* the inner while(1) over the tokens: every token is a location, also one that starts with '-' *)
  Fixpoint line_fold (st : cstate) (toks : list (list N)) : res (cstate + outcome) :=
    match toks with
    | [] => Ok (inl st)
    | t :: tl =>
      let* r := loc_step st t in
      match r with
      | Stop o => Ok (inr o)
      | Continue st' _ => line_fold st' tl
      end
    end.

  (* hwloc_bitmap_zero(cpuset); hwloc_bitmap_zero(nodeset); at the start of every line.
     [zero_ns = false] is the variant that forgets the nodeset (seeded change C20d). *)
  Definition zero_sets_gen (zero_ns : bool) (st : cstate) : cstate :=
    set_sets st (bs_empty, if zero_ns then bs_empty else snd (s_sets st)) 0.
  Definition zero_sets := zero_sets_gen true.

  (* the outer while(1): the SAME bitmaps are reused from line to line; the value returned by
     hwloc_calc_output is ignored; stdout is the concatenation of what each line prints *)
  Fixpoint stdin_loop_gen (zero_ns : bool) (st : cstate) (lines : list (list (list N))) (nlv ilv : lvl_opt) (hlv : option (list Z))
    : res outcome :=
    match lines with
    | [] => Ok (Exit 0 [])
    | toks :: rest =>
      let* r := line_fold (zero_sets_gen zero_ns st) toks in
      match r with
      | inr o => Ok o
      | inl st' =>
        match calc_output st' nlv ilv hlv with
        | Exit _ txt =>
          let* o := stdin_loop_gen zero_ns st' rest nlv ilv hlv in
          match o with
          | Exit rc t2 => Ok (Exit rc (txt ++ t2))
          | x => Ok x
          end
        | x => Ok x
        end
      end
    end.
  Definition stdin_loop := stdin_loop_gen true.

  (* main() after the topology options; [stdin]: the lines read when no location was given on the command line *)
  Definition calc_main_stdin (args : list (list N)) (stdin : list (list N)) : res outcome :=
    let* r := main_loop cs0 args in
    match r with
    | inr o => Ok o
    | inl st =>
      let* nlv := opt_level (s_nstr st) in
      match nlv with
      | LoFail => Ok (Exit 0 [])
      | LoUnmodelled => Ok (Unmodelled 5)
      | _ =>
        let* ilv := opt_level (s_istr st) in
        match ilv with
        | LoFail => Ok (Exit 0 [])
        | LoUnmodelled => Ok (Unmodelled 5)
        | _ =>
          let* hl := (match s_hstr st with
                      | None => Ok (Some (Some None))
                      | Some v => let* r := hier_levels (split_dots (content v) []) in
                                  Ok (match r with
                                      | None => None
                                      | Some None => Some None
                                      | Some (Some zs) => Some (Some (Some zs))
                                      end)
                      end) in
          match hl with
          | None => Ok (Unmodelled 5)
          | Some None => Ok (Exit 0 [])
          | Some (Some hlv) =>
            if 0 <? s_nloc st then Ok (calc_output st nlv ilv hlv)
            else
              let* o := stdin_loop st (map (fun l => tokenize l []) stdin) nlv ilv hlv in
              match o with
              | Exit rc t => Ok (Exit rc ((if (0 <=? s_verbose st)%Z then WAITING else []) ++ t))
              | x => Ok x
              end
          end
        end
      end
    end.

  (* main() after the topology options, stdin empty *)
  Definition calc_main (args : list (list N)) : res outcome :=
    let* r := main_loop cs0 args in
    match r with
    | inr o => Ok o
    | inl st =>
      let* nlv := opt_level (s_nstr st) in
      match nlv with
      | LoFail => Ok (Exit 0 [])
      | LoUnmodelled => Ok (Unmodelled 5)
      | _ =>
        let* ilv := opt_level (s_istr st) in
        match ilv with
        | LoFail => Ok (Exit 0 [])
        | LoUnmodelled => Ok (Unmodelled 5)
        | _ =>
          let* hl := (match s_hstr st with
                      | None => Ok (Some (Some None))
                      | Some v => let* r := hier_levels (split_dots (content v) []) in
                                  Ok (match r with
                                      | None => None
                                      | Some None => Some None
                                      | Some (Some zs) => Some (Some (Some zs))
                                      end)
                      end) in
          match hl with
          | None => Ok (Unmodelled 5)
          | Some None => Ok (Exit 0 [])
          | Some (Some hlv) =>
            if 0 <? s_nloc st then Ok (calc_output st nlv ilv hlv)
            else Ok (Exit 0 (if (0 <=? s_verbose st)%Z then WAITING else []))
          end
        end
      end
    end.
End Main.

(* ================================================================== *)
(* 5. lstopo --of synthetic: output_synthetic() of utils/lstopo/lstopo-text.c              *)
(* [export_into t buflen]: what hwloc_topology_export_synthetic(topology, buf, buflen, flags) returns and
   leaves in buf when the complete description is [t] (the snprintf contract of the export: C07).
   output_synthetic: a first call on char sbuffer[1024]; if the returned length does not fit, a second
   call on malloc(length+1) with buflen [second_len length] (= length+1 in the code); then
   fprintf(output, "%s\n", buffer). *)
Definition SBUFFER : nat := 1024.
Definition export_into (t : list N) (buflen : nat) : nat * list N :=
  (List.length t, match buflen with O => [] | S k => firstn k t ++ [0] end).
Definition output_synthetic_gen (second_len : nat -> nat) (t : list N) : list N :=
  let l := fst (export_into t SBUFFER) in
  (if Nat.leb SBUFFER l then content (snd (export_into t (second_len l)))
   else content (snd (export_into t SBUFFER))) ++ NL.
Definition output_synthetic : list N -> list N := output_synthetic_gen S.
