(* The structural acceptance rules of the XML importer (hwloc/topology-xml.c: hwloc_look_xml,
   hwloc__xml_import_object, hwloc__xml_import_object_attr) over an
   abstract parsed document.

   A document is what the tokenizer delivers: the version of the topology tag and the elements below it;
   an element has a tag, its attributes in document order (values already unescaped), the raw text that
   follows its opening tag, whether it is auto-closed, and its child elements in document order.

   [import_doc] answers
     Accept t   : the load gets past the importer; t = the object tree handed to the core (types after
                  the Group->Die conversion, the attribute state of each object, children of all four kinds
                  in the order of insertion)
     Reject     : hwloc_topology_load returns -1 because of the importer
     Unmodelled : the document uses something this model does not decide (distances2, distances2hetero,
                  memattr, cpukind elements; an object without a type attribute; a page_type with an
                  info attribute; an sscanf input outside the plainly valid / plainly invalid forms; a set
                  string on which hwloc_bitmap_sscanf asserts); such documents are counted, not judged.
   The configuration modelled is the one the tie uses: every type filter KEEP_ALL (no object is dropped by
   a filter), no userdata import callback, nolibxml backend (a closing tag must follow the last child).

   The statements follow the C code in order where order can change the answer (attributes are judged
   against the type the object has at that moment; sub-elements before child objects). *)
From Coq Require Import String Ascii NArith ZArith List Bool.
From HV Require Import Base.Bytes Base.Strto Base.BSet Gen.Tables Text.TypeOrder Text.TypeNames Bitmap.BitmapText.
Import ListNotations.
Local Open Scope N_scope.

Inductive elem := Elem (tag : list N) (attrs : list (list N * list N)) (content : list N) (closed : bool) (kids : list elem).
Record doc := Doc { d_major : N; d_minor : N; d_top : list elem }.


Definition e_tag (e : elem) := match e with Elem t _ _ _ _ => t end.
Definition e_attrs (e : elem) := match e with Elem _ a _ _ _ => a end.
Definition e_content (e : elem) := match e with Elem _ _ c _ _ => c end.
Definition e_closed (e : elem) := match e with Elem _ _ _ c _ => c end.
Definition e_kids (e : elem) := match e with Elem _ _ _ _ k => k end.

Definition beq (a : list N) (s : string) : bool := if list_eq_dec N.eq_dec a (bytes_of_string s) then true else false.
Definition all_space (l : list N) : bool := forallb (fun c => mem_byte c (bytes_of_string (String " " (String "009" (String "010" (String "013" EmptyString)))))) l.
Definition cz (v : list N) : list N := v ++ [0].          (* the value as a C string *)
Definition num (v : list N) : N := match strtoul (cz v) 0 10 with Ok (n, _) => n | Oob => 0 end.
Definition u32 (n : N) : N := n mod 4294967296.
Definition lower_bytes (l : list N) : list N := map tolower l.

(* a leaf element the importer closes right after its attributes: nothing but blanks inside *)
Definition leaf_ok (e : elem) : bool := all_space (e_content e) && match e_kids e with [] => true | _ => false end.

(* ---------- three-valued sscanf of the fixed formats ---------- *)
Inductive scan3 (A : Type) := SValid (a : A) | SInvalid | SUnsure.
Arguments SValid {A} a. Arguments SInvalid {A}. Arguments SUnsure {A}.

Definition hexv (c : N) : option N := if isxdigit c then digit_val c else None.
(* 1..w hexadecimal digits, no blank, sign or 0x prefix in front *)
Fixpoint hex_run (w : nat) (l : list N) (acc : N) (n : nat) : N * nat * list N :=
  match w, l with
  | S w', c :: tl => match hexv c with Some d => hex_run w' tl (acc * 16 + d) (S n) | None => (acc, n, l) end
  | _, _ => (acc, n, l)
  end.
Definition starts_unsure (l : list N) : bool :=
  match l with
  | c :: tl => isspace c || (c =? 43) || (c =? 45) ||
               ((c =? 48) && match tl with x :: _ => (x =? 120) || (x =? 88) | [] => false end)
  | [] => false
  end.
(* one %x / %0Nx conversion: Some (Some (v, rest)) converted, Some None = matching failure, None = unsure *)
Definition conv_hex (w : nat) (l : list N) : option (option (N * list N)) :=
  if starts_unsure l then None
  else let '(v, n, rest) := hex_run w l 0 0%nat in
       match n with O => Some None | _ => Some (Some (v, rest)) end.
Definition lit1 (c : N) (l : list N) : option (list N) := match l with x :: tl => if x =? c then Some tl else None | [] => None end.

(* "%x:%02x:%02x.%01x" == 4 ? *)
Definition scan_busid (v : list N) : scan3 unit :=
  match conv_hex 8 v with None => SUnsure | Some None => SInvalid | Some (Some (_, r1)) =>
  match r1 with c :: _ => if isxdigit c then SUnsure else
    match lit1 58 r1 with None => SInvalid | Some r2 =>
    match conv_hex 2 r2 with None => SUnsure | Some None => SInvalid | Some (Some (_, r3)) =>
    match lit1 58 r3 with None => SInvalid | Some r4 =>
    match conv_hex 2 r4 with None => SUnsure | Some None => SInvalid | Some (Some (_, r5)) =>
    match lit1 46 r5 with None => SInvalid | Some r6 =>
    match conv_hex 1 r6 with None => SUnsure | Some None => SInvalid | Some (Some _) => SValid tt end end end end end end
  | [] => SInvalid end end.
(* "%x:[%02x-%02x]" == 3 ? *)
Definition scan_bridge_pci (v : list N) : scan3 unit :=
  match conv_hex 8 v with None => SUnsure | Some None => SInvalid | Some (Some (_, r1)) =>
  match r1 with c :: _ => if isxdigit c then SUnsure else
    match lit1 58 r1 with None => SInvalid | Some r2 =>
    match lit1 91 r2 with None => SInvalid | Some r3 =>
    match conv_hex 2 r3 with None => SUnsure | Some None => SInvalid | Some (Some (_, r4)) =>
    match lit1 45 r4 with None => SInvalid | Some r5 =>
    match conv_hex 2 r5 with None => SUnsure | Some None => SInvalid | Some (Some _) => SValid tt end end end end end
  | [] => SInvalid end end.
(* decimal run of at most 9 digits (no overflow question) *)
Fixpoint dec_run (w : nat) (l : list N) (acc : N) (n : nat) : N * nat * list N :=
  match w, l with
  | S w', c :: tl => if isdigit c then dec_run w' tl (acc * 10 + (c - 48)) (S n) else (acc, n, l)
  | _, _ => (acc, n, l)
  end.
Definition conv_dec (l : list N) : option (option (N * list N)) :=
  match l with
  | c :: _ => if isspace c || (c =? 43) || (c =? 45) then None
              else let '(v, n, rest) := dec_run 9 l 0 0%nat in
                   match n with O => Some None
                   | _ => match rest with d :: _ => if isdigit d then None else Some (Some (v, rest)) | [] => Some (Some (v, rest)) end end
  | [] => Some None
  end.
(* "%u-%u" == 2 ? *)
Definition scan_bridge_type (v : list N) : scan3 (N * N) :=
  match conv_dec v with None => SUnsure | Some None => SInvalid | Some (Some (up, r1)) =>
  match lit1 45 r1 with None => SInvalid | Some r2 =>
  match conv_dec r2 with None => SUnsure | Some None => SInvalid | Some (Some (down, _)) => SValid (up, down) end end end.

(* ---------- the object being filled by its attributes ---------- *)
Record ost := mkOst {
  o_type : option N;           (* None: the sentinel type of a fresh non-root object *)
  o_gottype : bool;
  o_os : N;
  o_cs : option bset; o_ccs : option bset; o_ns : option bset; o_cns : option bset;
  o_subtype : option (list N);
  o_gkind : N;                 (* attr->group.kind *)
  o_cdepth : N; o_ctype : N;   (* attr->cache.depth / type *)
  o_bup : N; o_bdown : N;      (* attr->bridge.upstream_type / downstream_type *)
  o_ignore : bool;
  o_unsure : bool;             (* something the model cannot decide was met *)
  o_bad : bool                 (* goto error_with_object *)
}.
Definition ost0 (root : bool) : ost :=
  mkOst (if root then Some HWLOC_OBJ_MACHINE else None) false HWLOC_UNKNOWN_INDEX None None None None None 0 0 0 0 0 false false false.

(* the object tree handed to the core: final type, the attribute state the checks were run on, children *)
Inductive tree := T (type : N) (o : ost) (kids : list tree).
Inductive verdict := Accept (t : tree) | Reject | Unmodelled.
Definition t_type (t : tree) := match t with T ty _ _ => ty end.
Definition t_ost (t : tree) := match t with T _ o _ => o end.
Definition t_kids (t : tree) := match t with T _ _ k => k end.

Definition HWLOC_GROUP_KIND_INTEL_TILE : N := 102.
Definition HWLOC_GROUP_KIND_INTEL_MODULE : N := 103.
Definition HWLOC_GROUP_KIND_INTEL_DIE : N := 104.
Definition HWLOC_GROUP_KIND_LINUX_CLUSTER : N := 201.

Definition ty_is (o : ost) (p : N -> bool) : bool := match o_type o with Some t => p t | None => false end.
Definition cacheish (t : N) : bool := is_cache t || (t =? HWLOC_OBJ_MEMCACHE).

(* hwloc_bitmap_sscanf into a freshly allocated or existing set: (set, unsure) *)
Definition scan_set (v : list N) : bset * bool :=
  match parse_hwloc 0 (cz v) with
  | Ok (PSet b) => (abs b, false)
  | Ok PFail => (bs_empty, false)
  | _ => (bs_empty, true)
  end.

Definition upd_type (o : ost) (t : option N) (k : N) : ost :=
  mkOst t true (o_os o) (o_cs o) (o_ccs o) (o_ns o) (o_cns o) (o_subtype o) k (o_cdepth o) (o_ctype o) (o_bup o) (o_bdown o) (o_ignore o) (o_unsure o) (o_bad o).
Definition set_bad (o : ost) : ost :=
  mkOst (o_type o) (o_gottype o) (o_os o) (o_cs o) (o_ccs o) (o_ns o) (o_cns o) (o_subtype o) (o_gkind o) (o_cdepth o) (o_ctype o) (o_bup o) (o_bdown o) (o_ignore o) (o_unsure o) true.
Definition set_unsure (o : ost) : ost :=
  mkOst (o_type o) (o_gottype o) (o_os o) (o_cs o) (o_ccs o) (o_ns o) (o_cns o) (o_subtype o) (o_gkind o) (o_cdepth o) (o_ctype o) (o_bup o) (o_bdown o) (o_ignore o) true (o_bad o).
Definition set_ignore (o : ost) : ost :=
  mkOst (o_type o) (o_gottype o) (o_os o) (o_cs o) (o_ccs o) (o_ns o) (o_cns o) (o_subtype o) (o_gkind o) (o_cdepth o) (o_ctype o) (o_bup o) (o_bdown o) true (o_unsure o) (o_bad o).

(* one attribute (the body of the while loop of hwloc__xml_import_object) *)
Definition one_attr (o : ost) (nv : list N * list N) : ost :=
  if o_bad o then o else
  let '(name, v) := nv in
  if beq name "type" then
    if o_gottype o then set_bad o else
    match type_sscanf_vals_cur (cz v) with
    | Ok (Some sv) => upd_type o (Some (sv_type sv)) (o_gkind o)
    | Ok None =>
      let lv := lower_bytes v in
      if beq lv "tile" then upd_type o (Some HWLOC_OBJ_GROUP) HWLOC_GROUP_KIND_INTEL_TILE
      else if beq lv "module" then upd_type o (Some HWLOC_OBJ_GROUP) HWLOC_GROUP_KIND_INTEL_MODULE
      else if beq lv "cluster" then upd_type o (Some HWLOC_OBJ_GROUP) HWLOC_GROUP_KIND_LINUX_CLUSTER
      else set_bad o
    | Oob => set_unsure o
    end
  else if beq name "os_index" then
    mkOst (o_type o) (o_gottype o) (u32 (num v)) (o_cs o) (o_ccs o) (o_ns o) (o_cns o) (o_subtype o) (o_gkind o) (o_cdepth o) (o_ctype o) (o_bup o) (o_bdown o) (o_ignore o) (o_unsure o) (o_bad o)
  else if beq name "cpuset" then
    let '(s, u) := scan_set v in
    mkOst (o_type o) (o_gottype o) (o_os o) (Some s) (o_ccs o) (o_ns o) (o_cns o) (o_subtype o) (o_gkind o) (o_cdepth o) (o_ctype o) (o_bup o) (o_bdown o) (o_ignore o) (o_unsure o || u) (o_bad o)
  else if beq name "complete_cpuset" then
    let '(s, u) := scan_set v in
    mkOst (o_type o) (o_gottype o) (o_os o) (o_cs o) (Some s) (o_ns o) (o_cns o) (o_subtype o) (o_gkind o) (o_cdepth o) (o_ctype o) (o_bup o) (o_bdown o) (o_ignore o) (o_unsure o || u) (o_bad o)
  else if beq name "nodeset" then
    let '(s, u) := scan_set v in
    mkOst (o_type o) (o_gottype o) (o_os o) (o_cs o) (o_ccs o) (Some s) (o_cns o) (o_subtype o) (o_gkind o) (o_cdepth o) (o_ctype o) (o_bup o) (o_bdown o) (o_ignore o) (o_unsure o || u) (o_bad o)
  else if beq name "complete_nodeset" then
    let '(s, u) := scan_set v in
    mkOst (o_type o) (o_gottype o) (o_os o) (o_cs o) (o_ccs o) (o_ns o) (Some s) (o_subtype o) (o_gkind o) (o_cdepth o) (o_ctype o) (o_bup o) (o_bdown o) (o_ignore o) (o_unsure o || u) (o_bad o)
  else if beq name "allowed_cpuset" || beq name "allowed_nodeset" then
    (* parsed into the topology's allowed sets for the root: only an assertion inside the parser matters here *)
    let '(_, u) := scan_set v in if u then set_unsure o else o
  else if beq name "subtype" then
    mkOst (o_type o) (o_gottype o) (o_os o) (o_cs o) (o_ccs o) (o_ns o) (o_cns o) (Some v) (o_gkind o) (o_cdepth o) (o_ctype o) (o_bup o) (o_bdown o) (o_ignore o) (o_unsure o) (o_bad o)
  else if beq name "kind" then
    if ty_is o (fun t => t =? HWLOC_OBJ_GROUP) then
      mkOst (o_type o) (o_gottype o) (o_os o) (o_cs o) (o_ccs o) (o_ns o) (o_cns o) (o_subtype o) (u32 (num v)) (o_cdepth o) (o_ctype o) (o_bup o) (o_bdown o) (o_ignore o) (o_unsure o) (o_bad o)
    else o
  else if beq name "depth" then
    if ty_is o cacheish then
      mkOst (o_type o) (o_gottype o) (o_os o) (o_cs o) (o_ccs o) (o_ns o) (o_cns o) (o_subtype o) (o_gkind o) (u32 (num v)) (o_ctype o) (o_bup o) (o_bdown o) (o_ignore o) (o_unsure o) (o_bad o)
    else o
  else if beq name "cache_type" then
    if ty_is o cacheish && (num v <=? 2) then
      mkOst (o_type o) (o_gottype o) (o_os o) (o_cs o) (o_ccs o) (o_ns o) (o_cns o) (o_subtype o) (o_gkind o) (o_cdepth o) (num v) (o_bup o) (o_bdown o) (o_ignore o) (o_unsure o) (o_bad o)
    else o
  else if beq name "pci_busid" then
    if ty_is o (fun t => (t =? HWLOC_OBJ_PCI_DEVICE) || (t =? HWLOC_OBJ_BRIDGE)) then
      match scan_busid v with SValid _ => o | SInvalid => set_ignore o | SUnsure => set_unsure o end
    else o
  else if beq name "bridge_pci" then
    if ty_is o (fun t => t =? HWLOC_OBJ_BRIDGE) then
      match scan_bridge_pci v with SValid _ => o | SInvalid => set_ignore o | SUnsure => set_unsure o end
    else o
  else if beq name "bridge_type" then
    if ty_is o (fun t => t =? HWLOC_OBJ_BRIDGE) then
      match scan_bridge_type v with
      | SValid (up, down) =>
        mkOst (o_type o) (o_gottype o) (o_os o) (o_cs o) (o_ccs o) (o_ns o) (o_cns o) (o_subtype o) (o_gkind o) (o_cdepth o) (o_ctype o) up down (o_ignore o) (o_unsure o) (o_bad o)
      | SInvalid => o
      | SUnsure => set_unsure o
      end
    else o
  else o.      (* every other attribute is stored or ignored without any effect on acceptance *)

(* ---------- non-object sub-elements of an object ---------- *)
Inductive sub_res := SubOk | SubBad | SubUnsure.

Definition info_ok (e : elem) : bool :=
  forallb (fun nv => beq (fst nv) "name" || beq (fst nv) "value") (e_attrs e) && leaf_ok e.

Definition TWO64 : N := 18446744073709551616.
Definition userdata_ok (e : elem) : bool :=
  forallb (fun nv => beq (fst nv) "length" || beq (fst nv) "encoding" || beq (fst nv) "name") (e_attrs e) &&
  let length := fold_left (fun acc nv => if beq (fst nv) "length" then num (snd nv) else acc) (e_attrs e) 0 in
  let encoded := fold_left (fun acc nv => if beq (fst nv) "encoding" then beq (snd nv) "base64" else acc) (e_attrs e) false in
  let expected := if encoded then (4 * (((length + 2) mod TWO64) / 3)) mod TWO64 else length in
  (* no callback: get_content(expected) then close_content, close_tag *)
  (if e_closed e then expected =? 0 else len (e_content e) =? expected) &&
  match e_kids e with [] => true | _ => false end.

Definition pagetype_res (e : elem) : sub_res :=
  if existsb (fun nv => beq (fst nv) "info") (e_attrs e) then SubUnsure
  else if forallb (fun nv => beq (fst nv) "size" || beq (fst nv) "count") (e_attrs e) && leaf_ok e then SubOk else SubBad.

(* the sub-elements in front of the first <object> child; returns the verdict and the remaining children *)
Fixpoint subnodes (is_numa is_root : bool) (l : list elem) : sub_res * list elem :=
  match l with
  | [] => (SubOk, [])
  | e :: tl =>
    if beq (e_tag e) "object" then (SubOk, l)
    else
      let r := if beq (e_tag e) "page_type" then (if is_numa || is_root then pagetype_res e else SubBad)
               else if beq (e_tag e) "info" then (if info_ok e then SubOk else SubBad)
               else if beq (e_tag e) "userdata" then (if userdata_ok e then SubOk else SubBad)
               else SubBad in
      match r with SubOk => subnodes is_numa is_root tl | _ => (r, tl) end
  end.

(* ---------- the validity checks after the sub-elements (in the order of the C code) ---------- *)
Definition cache_type_by_depth_type (depth ctype : N) : option N :=
  if ctype =? HWLOC_OBJ_CACHE_INSTRUCTION then (if (1 <=? depth) && (depth <=? 3) then Some (HWLOC_OBJ_L1ICACHE + depth - 1) else None)
  else (if (1 <=? depth) && (depth <=? 5) then Some (HWLOC_OBJ_L1CACHE + depth - 1) else None).

Definition singleton_at (s : option bset) (i : N) : bool :=
  match s with Some b => match bs_weight b with Some 1 => mem i b | _ => false end | None => false end.

(* the final type (Group -> Die), or None when the object is refused *)
Definition checks (parent : option N) (psets : bool * bool) (o : ost) (t : N) : option N :=
  if (match parent with None => negb (t =? HWLOC_OBJ_MACHINE) | Some _ => t =? HWLOC_OBJ_MACHINE end) then None else
  if (match parent with
      | None => false
      | Some p =>
        ((p =? HWLOC_OBJ_PU) && is_normal t) ||
        (if is_normal t then negb (is_normal p)
         else if is_memory t then is_io p || (p =? HWLOC_OBJ_MISC)
         else if is_io t then is_memory p || (p =? HWLOC_OBJ_MISC)
         else false)
      end) then None else
  let t' := if (t =? HWLOC_OBJ_GROUP) && ((o_gkind o =? HWLOC_GROUP_KIND_INTEL_DIE) ||
                                           match o_subtype o with Some s => beq s "Die" | None => false end)
            then HWLOC_OBJ_DIE else t in
  if is_cache t' && negb (match cache_type_by_depth_type (o_cdepth o) (o_ctype o) with Some c => c =? t' | None => false end) then None else
  let nocs := match o_cs o with None => true | Some _ => false end in
  let nons := match o_ns o with None => true | Some _ => false end in
  if (nocs || nons) && negb (is_special t') then None else
  let anyset := negb nocs || negb nons || (match o_ccs o with Some _ => true | None => false end) || (match o_cns o with Some _ => true | None => false end) in
  if anyset && is_special t' then None else
  if (t' =? HWLOC_OBJ_PU) && negb (singleton_at (o_cs o) (o_os o)) then None else
  if (t' =? HWLOC_OBJ_NUMANODE) && negb (singleton_at (o_ns o) (o_os o)) then None else
  if (t' =? HWLOC_OBJ_BRIDGE) && negb (((o_bup o =? HWLOC_OBJ_BRIDGE_HOST) || (o_bup o =? HWLOC_OBJ_BRIDGE_PCI)) && (o_bdown o =? HWLOC_OBJ_BRIDGE_PCI)) then None else
  (* a set while the parent has none (only reachable where the kind rules above already refuse) *)
  if (match parent with None => false | Some _ => (negb nocs && negb (fst psets)) || (negb nons && negb (snd psets)) end) then None else
  Some t'.

(* ---------- one <object> element ---------- *)
Inductive ores := OReject | OUnmodelled | OOk (ts : list tree) (rootinfo : option bset * option bset).

Definition is_obj (e : elem) : bool := beq (e_tag e) "object".

Fixpoint import_object (parent : option N) (psets : bool * bool) (e : elem) {struct e} : ores :=
  match e with
  | Elem _ attrs content _ kids =>
    let o := fold_left one_attr attrs (ost0 (match parent with None => true | Some _ => false end)) in
    if o_bad o then OReject else
    if o_unsure o then OUnmodelled else
    if o_ignore o && (match parent with None => true | Some _ => false end) then OReject else
    if negb (all_space content) then OReject else       (* text where a tag is expected *)
    match subnodes (ty_is o (fun t => t =? HWLOC_OBJ_NUMANODE)) (match parent with None => true | Some _ => false end) kids with
    | (SubBad, _) => OReject
    | (SubUnsure, _) => OUnmodelled
    | (SubOk, _) =>
      match o_type o with
      | None => OUnmodelled
      | Some t =>
        match checks parent psets o t with
        | None => OReject
        | Some t' =>
          let ign := o_ignore o in
          let cparent := if ign then parent else Some t' in
          let cpsets := if ign then psets else (match o_cs o with Some _ => true | None => false end, match o_ns o with Some _ => true | None => false end) in
          (* the children: the sub-elements in front were judged by [subnodes]; from the first object on,
             every child must be an object *)
          (fix children (l : list elem) (seen : bool) (acc : list tree) {struct l} : ores :=
             match l with
             | [] =>
               if ign then OOk (rev acc) (o_cs o, o_ns o)
               else if (t' =? HWLOC_OBJ_MEMCACHE) && negb (existsb (fun k => is_memory (t_type k)) acc) then OReject
               else OOk [T t' o (rev acc)] (o_cs o, o_ns o)
             | c :: tl =>
               if negb (is_obj c) then (if seen then OReject else children tl false acc) else
               match import_object cparent cpsets c with
               | OReject => OReject
               | OUnmodelled => OUnmodelled
               | OOk ts _ => children tl true (rev_append ts acc)
               end
             end) kids false []
        end
      end
    end
  end.

(* ---------- the elements after the root object ---------- *)
Inductive top_res := TopDone | TopBad | TopUnsure.
Fixpoint after_root (l : list elem) : top_res :=
  match l with
  | [] => TopDone
  | e :: tl =>
    let t := e_tag e in
    if beq t "distances2" || beq t "distances2hetero" || beq t "memattr" || beq t "cpukind" then TopUnsure
    else if beq t "support" then (if e_closed e then after_root tl else TopDone)   (* no close_tag: an open <support> ends the scan *)
    else if beq t "info" then (if info_ok e then after_root tl else TopBad)
    else TopDone                                                                   (* unknown tag: goto done *)
  end.

Fixpoint count_type (ty : N) (t : tree) : N :=
  match t with T ty' _ kids => (if ty' =? ty then 1 else 0) + fold_right (fun k acc => count_type ty k + acc) 0 kids end.

Definition import_doc (d : doc) : verdict :=
  if (3 <? d_major d) || (d_major d <? 2) then Reject else
  match d_top d with
  | [] => Reject
  | r :: rest =>
    if negb (is_obj r) then Reject else
    match import_object None (true, true) r with
    | OReject => Reject
    | OUnmodelled => Unmodelled
    | OOk ts (rcs, rns) =>
      match ts with
      | [t] =>
        match after_root rest with
        | TopBad => Reject
        | TopUnsure => Unmodelled
        | TopDone =>
          match rcs, rns with
          | Some _, Some ns =>
            (* "root with empty nodeset": every NUMA node inserted below has already set its bit in the root's
               nodeset (hwloc_insert_object_by_parent), so the parsed value only matters when there is none *)
            if bs_is_empty ns && (count_type HWLOC_OBJ_NUMANODE t =? 0) then Reject
            else if (count_type HWLOC_OBJ_PU t =? 0) || (count_type HWLOC_OBJ_NUMANODE t =? 0) then Reject
            (* hwloc_discover refuses a root whose cpuset is empty; like the nodeset, the root's cpuset has received
               the bit of every PU inserted below it, so with at least one PU it is not *)
            else Accept t
          | _, _ => Reject
          end
        end
      | _ => Reject
      end
    end
  end.
