(* hwloc_decode_from_base64 (hwloc/base64.c) over a target BLOCK with checked reads and stores.

   coq/Text/Base64.v (C05) models the same function as a list of completed bytes; here the target is the
   malloc'ed block of [targsize] bytes the caller hands in (hwloc__xml_import_userdata: malloc(length+1),
   targsize = length+1) and every access [target[tarindex]], [target[tarindex+1]] goes through [rdr] / [wr]:
   an access at an index >= targsize is [Oob].  The four bound tests of the C code are kept where they are,
   in front of the accesses of each state; the theorem (Base64MemProofs.v) is that they are sufficient.

   Result: Ok None = return -1;  Ok (Some (n, block)) = return n with the block as written. *)
From Coq Require Import NArith List Bool.
From HV Require Import Base.Bytes Text.Base64 Text.XmlLex.
Import ListNotations.
Local Open Scope N_scope.

(* after the pad character: what the C code does with the characters after the first '=' ; true = "return tarindex" *)
Definition finish_pad_mem (state : N) (rest : list N) (tgt : list N) (tarindex : N) : res bool :=
  if state <? 2 then Ok false
  else
    let tail_ok :=
      if state =? 2 then
        match skip_spaces rest with
        | c :: tl => if c =? PAD then only_spaces tl else false
        | [] => false
        end
      else only_spaces rest in
    if negb tail_ok then Ok false
    else let* c := rdr tgt tarindex in Ok (c =? 0).      (* if (target && target[tarindex] != 0) return -1 *)

Fixpoint decm (src : list N) (state tarindex : N) (tgt : list N) : res (option (N * list N)) :=
  let targsize := len tgt in
  match src with
  | [] => Ok (if state =? 0 then Some (tarindex, tgt) else None)
  | ch :: tl =>
      if ch =? 0 then Ok (if state =? 0 then Some (tarindex, tgt) else None)
      else if isspace ch then decm tl state tarindex tgt
      else if ch =? PAD then
        let* ok := finish_pad_mem state tl tgt tarindex in Ok (if ok then Some (tarindex, tgt) else None)
      else match b64_pos ch with
           | None => Ok None
           | Some pos =>
               if state =? 0 then
                 if targsize <=? tarindex then Ok None
                 else let* t1 := wr tgt tarindex ((pos * 4) mod 256) in decm tl 1 tarindex t1
               else if state =? 1 then
                 if targsize <=? tarindex + 1 then Ok None
                 else let* c := rdr tgt tarindex in
                      let* t1 := wr tgt tarindex (N.lor c (pos / 16)) in
                      let* t2 := wr t1 (tarindex + 1) (((pos mod 16) * 16) mod 256) in
                      decm tl 2 (tarindex + 1) t2
               else if state =? 2 then
                 if targsize <=? tarindex + 1 then Ok None
                 else let* c := rdr tgt tarindex in
                      let* t1 := wr tgt tarindex (N.lor c (pos / 4)) in
                      let* t2 := wr t1 (tarindex + 1) (((pos mod 4) * 64) mod 256) in
                      decm tl 3 (tarindex + 1) t2
               else
                 if targsize <=? tarindex then Ok None
                 else let* c := rdr tgt tarindex in
                      let* t1 := wr tgt tarindex (N.lor c pos) in
                      decm tl 0 (tarindex + 1) t1
           end
  end.

(* the call: a fresh block of targsize bytes (contents irrelevant: every cell is written before it is read) *)
Definition decode_mem (src : list N) (targsize : N) : res (option (N * list N)) :=
  decm src 0 0 (repeat 170 (N.to_nat targsize)).
