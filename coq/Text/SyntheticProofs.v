(* C07: lemmas about the model of Text/Synthetic.v *)
From Coq Require Import String NArith ZArith List Bool Lia.
From HV Require Import Base.Bytes Base.Strto Gen.Tables Text.Synthetic.
Import ListNotations.
Local Open Scope N_scope.

(* ---------- concrete descriptions as C objects ---------- *)
Definition desc (p : list N) : list N := p ++ [0].
Definition nonul (p : list N) : bool := forallb (fun b => negb (b =? 0)) p.
Lemma nonul_no_nul p : nonul p = true -> no_nul p.
Proof.
  unfold nonul, no_nul. rewrite forallb_forall, Forall_forall. intros H b Hb.
  specialize (H b Hb). apply negb_true_iff, N.eqb_neq in H. exact H.
Qed.
Lemma desc_nul_terminated p : nonul p = true -> nul_terminated (desc p).
Proof. intros H. exists (len p). apply cstring_app. now apply nonul_no_nul. Qed.

Fixpoint rep (k : nat) (w : list N) : list N := match k with O => [] | S k' => w ++ rep k' w end.

(* 126 levels below Machine, no NUMA level: "group:1 " x 125 ++ "pu:1" *)
Definition w_memmove : list N := rep 125 (bytes_of_string "group:1 ") ++ bytes_of_string "pu:1".
(* one level fewer is fine *)
Definition w_125 : list N := rep 124 (bytes_of_string "group:1 ") ++ bytes_of_string "pu:1".
Definition w_loops : list N := bytes_of_string "pu:8(indexes=1* 2:2*2:4*2)".
Definition w_uninit : list N := bytes_of_string "pack:2 core:2 pu:2(indexes=pu:core)".
Definition w_e0 : list N := [112; 117; 224; 58; 50].       (* "pu\xe0:2" *)
Definition w_div : list N := bytes_of_string "pack:65536 die:65536 core:65536 l2:65536 pu:2(indexes=l2:pack)".

Ltac all_variants v := destruct v as [a b c d]; cbn [fix_memmove fix_loops fix_arity fix_tm]; intros ->;
  split; [apply desc_nul_terminated; vm_compute; reflexivity|]; destruct_bools; vm_compute; reflexivity
with destruct_bools := repeat match goal with x : bool |- _ => destruct x end.
Lemma memmove_refuted v : fix_memmove v = false -> nul_terminated (desc w_memmove) /\ parse v (desc w_memmove) = Fault FLevel.
Proof. all_variants v. Qed.
Definition memmove_class_b v s : bool :=
  match front v s with
  | Ret (st, d0) =>
    match middle st with
    | Ret (lv, c, tn, tg) => needs_numa tn (st_nnr st) && (c =? MAXD - 1)
    | _ => false
    end
  | _ => false
  end.
Lemma memmove_class_b_sound v s : memmove_class_b v s = true -> memmove_class v s.
Proof.
  unfold memmove_class_b, memmove_class. destruct (front v s) as [[st d0]| |]; try discriminate.
  destruct (middle st) as [[[[lv c] tn] tg]| |] eqn:E; try discriminate.
  intros H. apply andb_true_iff in H. destruct H as [H1 H2]. apply N.eqb_eq in H2.
  exists st, d0, lv, c, tn, tg. auto.
Qed.
Lemma memmove_class_b_complete v s : memmove_class v s -> memmove_class_b v s = true.
Proof.
  unfold memmove_class_b. intros [st [d0 [lv [c [tn [tg [E1 [E2 [E3 E4]]]]]]]]].
  rewrite E1, E2, E3. subst c. now rewrite N.eqb_refl.
Qed.
Lemma memmove_witness_in_class v : memmove_class v (desc w_memmove).
Proof. apply memmove_class_b_sound. destruct v as [a b c d]. destruct a, b, c, d; vm_compute; reflexivity. Qed.
Lemma memmove_fixed_ok : exists sy, parse Fixed (desc w_memmove) = Ret sy /\ lenl (sy_levels sy) = 128.
Proof. eexists. split; vm_compute; reflexivity. Qed.
Lemma below_boundary_ok v : exists sy, parse v (desc w_125) = Ret sy /\ lenl (sy_levels sy) = 127.
Proof. destruct v as [a b c d]. destruct a, b, c, d; eexists; split; vm_compute; reflexivity. Qed.
Lemma loops_refuted v : fix_loops v = false -> nul_terminated (desc w_loops) /\ parse v (desc w_loops) = Fault FLoops.
Proof. all_variants v. Qed.
Lemma uninit_refuted v : fix_arity v = false -> nul_terminated (desc w_uninit) /\ parse v (desc w_uninit) = Fault FUninit.
Proof. all_variants v. Qed.
Lemma type_match_refuted v : fix_tm v = false -> nul_terminated (desc w_e0) /\ parse v (desc w_e0) = Fault FLit.
Proof. all_variants v. Qed.
(* since 6af4733 the description whose level product wraps modulo 2^64 is rejected *)
Lemma div_witness_rejected v : parse v (desc w_div) = Rej.
Proof. destruct v as [a b c d]. destruct a, b, c, d; vm_compute; reflexivity. Qed.
Lemma fixed_rejects_or_accepts_witnesses :
  parse Fixed (desc w_loops) <> Fault FLoops /\ parse Fixed (desc w_uninit) <> Fault FUninit /\ parse Fixed (desc w_e0) <> Fault FLit.
Proof. repeat split; vm_compute; discriminate. Qed.

(* ================================================================== *)
(* Safety of the parsing loop, for every NUL-terminated description     *)
(* ================================================================== *)
From Coq Require Import ZifyBool ZifyN ZifyNat.

(* [spec Q r]: r is a value satisfying Q, or a rejection, or the only fault the
   string-level code can produce: running past a type literal ([FLit]) *)
Definition spec0 {A} (P : bool) (Q : A -> Prop) (r : out A) : Prop :=
  match r with Ret a => Q a | Rej => True | Fault f => f = FLit /\ P = false end.
(* P: hwloc__type_match cannot run past its literal: the fixed test, or no byte 0xE0 in the description *)
Definition tm_ok (v : variant) (s : list N) : bool := fix_tm v || forallb (fun b => negb (b =? 224) && (b <? 256)) s.

Lemma spec_bind {A B} P (Q : A -> Prop) (R : B -> Prop) (r : out A) (k : A -> out B) :
  spec0 P Q r -> (forall a, Q a -> spec0 P R (k a)) -> spec0 P R (obind r k).
Proof. destruct r as [a| |f]; simpl; auto. Qed.
Lemma spec_weaken {A} P (Q Q' : A -> Prop) r : spec0 P Q r -> (forall a, Q a -> Q' a) -> spec0 P Q' r.
Proof. destruct r; simpl; auto. Qed.
Lemma spec_lift {A} P (Q : A -> Prop) (r : res A) : (exists a, r = Ok a /\ Q a) -> spec0 P Q (lift r).
Proof. intros [a [-> H]]. exact H. Qed.

Lemma skipn_rd (s : list N) i c : rd s i = Some c -> skipn (N.to_nat i) s = c :: skipn (N.to_nat (N.succ i)) s.
Proof.
  unfold rd. rewrite N2Nat.inj_succ. generalize (N.to_nat i) as k.
  induction s as [|b t IH]; intros k H; destruct k; simpl in *; try discriminate.
  - now injection H as ->.
  - now apply IH.
Qed.

Section WithString.
Variables (v : variant) (s : list N) (n : N).
Hypothesis Hs : cstring s n.
Notation spec := (spec0 (tm_ok v s)).

Lemma rd_in i : i <= n -> exists c, rd s i = Some c /\ (c = 0 <-> i = n).
Proof.
  intros Hi. destruct Hs as [H0 Hk]. destruct (N.eq_dec i n) as [->|Hne].
  - exists 0. tauto.
  - destruct (Hk i) as [c [Hc Nz]]; [lia|]. exists c. tauto.
Qed.
Lemma rdo_spec i : i <= n -> spec (fun c => rd s i = Some c /\ (c = 0 <-> i = n)) (rdo s i).
Proof. intros Hi. destruct (rd_in i Hi) as [c [Hc Hz]]. unfold rdo, rdr. rewrite Hc. simpl. auto. Qed.

(* ---- hwloc__type_match ---- *)
Definition goodlit (lit : list N) : Prop := exists p, lit = p ++ [0] /\ Forall (fun b => b <> 0 /\ b < 128) p.
Definition goodstr (lit : string) : bool := forallb (fun b => negb (b =? 0) && (b <? 128)) (bytes_of_string lit).
Lemma goodstr_lit lit : goodstr lit = true -> goodlit (cstr lit).
Proof.
  unfold goodstr, goodlit, cstr. intros H. exists (bytes_of_string lit). split; [reflexivity|].
  rewrite forallb_forall in H. apply Forall_forall. intros b Hb. specialize (H b Hb). lia.
Qed.
Lemma goodlit_step c tc lit' : tm_ok v s = true -> In c s -> c <> 0 -> goodlit (tc :: lit') ->
  ((fix_tm v && (tc =? 0)) || (negb (sc c =? sc tc)%Z && negb (sc c =? sc tc - 32)%Z)) = false -> goodlit lit'.
Proof.
  intros T Hin Hc [p [E F]] Hcond. destruct p as [|x p']; simpl in E; injection E as -> ->.
  - exfalso. unfold tm_ok in T. destruct (fix_tm v); simpl in Hcond; [discriminate|]. simpl in T.
    rewrite forallb_forall in T. specialize (T c Hin). unfold sc in Hcond. change (0 <? 128) with true in Hcond. cbv iota in Hcond.
    destruct (c <? 128) eqn:E; lia.
  - exists p'. split; [reflexivity|]. now inversion F.
Qed.
Lemma tm_l_spec mm : forall d lit i k, (tm_ok v s = true -> goodlit lit) -> N.to_nat (n - i) = d -> i <= n ->
  spec (fun r => match r with Some e => i <= e <= n | None => True end)
       (tm_l v (skipn (N.to_nat i) s) i lit k mm).
Proof.
  induction d as [|d IH]; intros lit i k Hg Hd Hi;
    destruct (rd_in i Hi) as [c [Hc Hz]]; rewrite (skipn_rd s i c Hc); cbn [tm_l].
  - assert (i = n) by lia. assert (c = 0) by tauto. subst c. cbn. destruct (k <? mm); simpl; auto. lia.
  - destruct (N.eqb_spec c 0) as [->|Hc0].
    + destruct (k <? mm); simpl; auto. lia.
    + destruct lit as [|tc lit'].
      { simpl. split; [reflexivity|]. destruct (tm_ok v s); [|reflexivity].
        destruct (Hg eq_refl) as [p [E _]]. destruct p; discriminate. }
      assert (i <> n) by tauto.
      destruct (_ || _) eqn:Hcond.
      * destruct (isalpha c || (c =? 45)); simpl; auto. destruct (k <? mm); simpl; auto. lia.
      * eapply spec_weaken; [apply IH; [|lia|lia]|].
        -- intros T. eapply goodlit_step; eauto. unfold rd in Hc. eapply nth_error_In; eauto.
        -- intros [e|]; simpl; auto. lia.
Qed.
Lemma type_match_spec i lit mm : goodstr lit = true -> i <= n ->
  spec (fun r => match r with Some e => i <= e <= n | None => True end) (type_match v s i lit mm).
Proof. intros Hg Hi. unfold type_match. eapply tm_l_spec; eauto. intros _. now apply goodstr_lit. Qed.
Lemma tmb_spec i lit mm : goodstr lit = true -> i <= n -> spec (fun _ => True) (tmb v s i lit mm).
Proof.
  intros Hg Hi. unfold tmb. eapply spec_bind; [apply type_match_spec; assumption|]. intros a _. exact I.
Qed.
Lemma any_match_spec i alts : forallb (fun a => goodstr (fst a)) alts = true -> i <= n -> spec (fun _ => True) (any_match v s i alts).
Proof.
  intros Hg Hi. induction alts as [|[l m] r IH]; cbn [any_match]; [exact I|].
  cbn [forallb fst] in Hg. apply andb_true_iff in Hg. destruct Hg as [G1 G2].
  eapply spec_bind; [apply tmb_spec; assumption|]. intros [|] _; [exact I|exact (IH G2)].
Qed.
Lemma first_simple_spec i tbl : forallb (fun a => goodstr (fst (fst a))) tbl = true -> i <= n -> spec (fun _ => True) (first_simple v s i tbl).
Proof.
  intros Hg Hi. induction tbl as [|[[l m] t] r IH]; cbn [first_simple]; [exact I|].
  cbn [forallb fst] in Hg. apply andb_true_iff in Hg. destruct Hg as [G1 G2].
  eapply spec_bind; [apply tmb_spec; assumption|]. intros [|] _; [exact I|exact (IH G2)].
Qed.

(* ---- libc pieces ---- *)
Lemma strchr_spec i c : i <= n -> c <> 0 ->
  spec (fun r => match r with Some j => i <= j < n /\ rd s j = Some c | None => True end) (lift (strchr s i c)).
Proof.
  intros Hi Hc. destruct (strchr_ok s n i c Hs Hi) as [r [E H]]. rewrite E. simpl.
  destruct r as [j|]; [|exact I]. destruct H as [Hr [Hj _]]. split; [|exact Hj].
  destruct (N.eq_dec j n) as [->|]; [|lia]. destruct Hs as [H0 _]. congruence.
Qed.
Lemma strchr0_spec i c : i <= n -> spec (fun _ => True) (lift (strchr s i c)).
Proof. intros Hi. destruct (strchr_ok s n i c Hs Hi) as [r [E _]]. rewrite E. exact I. Qed.
Lemma strtoul_spec i b : i <= n -> spec (fun r => i <= snd r <= n) (lift (strtoul s i b)).
Proof. intros Hi. destruct (strtoul_ok s n i b Hs Hi) as [v0 [e [E [H _]]]]. rewrite E. exact H. Qed.
Lemma strtol_spec i b : i <= n -> spec (fun r => i <= snd r <= n) (lift (strtol s i b)).
Proof. intros Hi. destruct (strtol_ok s n i b Hs Hi) as [v0 [e [E H]]]. rewrite E. exact H. Qed.
Lemma scan_spec p i : i <= n -> p 0 = false -> spec (fun j => i <= j <= n) (lift (scan_while p s i)).
Proof. intros Hi Hp. destruct (scan_while_ok p s n i Hs Hi Hp) as [j [E H]]. rewrite E. exact H. Qed.
Lemma strcspn_spec i set : i <= n -> spec (fun l => i + l <= n) (lift (strcspn s i set)).
Proof.
  intros Hi. unfold strcspn.
  destruct (scan_while_ok (fun b => negb (b =? 0) && negb (mem_byte b set)) s n i Hs Hi eq_refl) as [j [E H]].
  rewrite E. simpl. lia.
Qed.
Lemma strspn_spec i set : i <= n -> spec (fun l => i + l <= n) (lift (strspn s i set)).
Proof.
  intros Hi. unfold strspn.
  destruct (scan_while_ok (fun b => negb (b =? 0) && mem_byte b set) s n i Hs Hi eq_refl) as [j [E H]].
  rewrite E. simpl. lia.
Qed.

(* a successful comparison of k literal bytes (none of them NUL) leaves room for them *)
Lemma strncmp_room fold (Hf : fold_ok fold) a na : cstring a na -> forall k i j,
  i + N.of_nat k <= na -> j <= n ->
  match strncmp_f fold k a i s j with
  | Ok None => j + N.of_nat k <= n
  | Ok (Some _) => True
  | Oob => False
  end.
Proof.
  intros Ha. induction k as [|k IH]; intros i j Hik Hj; cbn [strncmp_f]; [lia|].
  destruct Ha as [Ha0 Hak]. destruct (Hak i) as [x [Hx Nx]]; [lia|].
  destruct (rd_in j Hj) as [y [Hy Zy]]. unfold rdr. rewrite Hx, Hy. cbn [bind].
  destruct (fold x =? fold y) eqn:E; cbn [negb]; [|exact I].
  destruct (N.eqb_spec x 0) as [->|_]; [congruence|].
  apply N.eqb_eq in E. assert (y <> 0). { intros ->. apply Nx, Hf, E. }
  assert (j <> n) by tauto.
  specialize (IH (N.succ i) (N.succ j)).
  destruct (strncmp_f fold k a (N.succ i) s (N.succ j)) as [[p|]|]; try (apply IH; lia).
  assert (N.succ j + N.of_nat k <= n) by (apply IH; lia). lia.
Qed.
Lemma lit_cstring lit : nonul (bytes_of_string lit) = true -> cstring (cstr lit) (len (bytes_of_string lit)).
Proof. intros H. unfold cstr. apply cstring_app. now apply nonul_no_nul. Qed.
Lemma prefix_gen fold (Hf : fold_ok fold) lit i : nonul (bytes_of_string lit) = true -> i <= n ->
  spec (fun b => b = true -> i + len (bytes_of_string lit) <= n)
       (lift (cmp_eq (strncmp_f fold (N.to_nat (len (bytes_of_string lit))) (cstr lit) 0 s i))).
Proof.
  intros Hl Hi. pose proof (strncmp_room fold Hf (cstr lit) _ (lit_cstring lit Hl) (N.to_nat (len (bytes_of_string lit))) 0 i) as H.
  rewrite N2Nat.id in H. specialize (H ltac:(lia) Hi). unfold cmp_eq.
  destruct (strncmp_f _ _ _ _ _ _) as [[p|]|]; simpl; [discriminate|auto|contradiction].
Qed.
Lemma has_prefix_spec' lit i : nonul (bytes_of_string lit) = true -> i <= n ->
  spec (fun b => b = true -> i + len (bytes_of_string lit) <= n) (lift (has_prefix lit s i)).
Proof. intros. apply (prefix_gen (fun x => x) fold_ok_id); assumption. Qed.
Lemma has_prefix_nocase_spec lit i : nonul (bytes_of_string lit) = true -> i <= n ->
  spec (fun b => b = true -> i + len (bytes_of_string lit) <= n) (lift (has_prefix_nocase lit s i)).
Proof. intros. apply (prefix_gen tolower fold_ok_tolower); assumption. Qed.

(* ---- osdev[...] ---- *)
Lemma osdev_types_spec : forall fuel i, i <= n -> (N.to_nat (n - i) < fuel)%nat -> spec (fun _ => True) (osdev_types_f v fuel s i).
Proof.
  induction fuel as [|f IH]; intros i Hi Hf; [lia|]. cbn [osdev_types_f].
  eapply spec_bind; [apply any_match_spec; [reflexivity|exact Hi]|]. intros _ _.
  eapply spec_bind; [apply (strchr_spec i 44 Hi); discriminate|]. intros [j|] Hj.
  - apply IH; lia.
  - eapply spec_bind; [apply strchr0_spec; exact Hi|]. intros; exact I.
Qed.
Lemma len_ge : n < len s.
Proof. destruct Hs as [H0 _]. now apply rd_some_lt in H0. Qed.

(* ---- hwloc_type_sscanf ---- *)
Lemma cache_suffix_spec i t d ct : i <= n -> spec (fun _ => True) (cache_suffix v s i t d ct).
Proof. intros Hi. unfold cache_suffix. eapply spec_bind; [apply tmb_spec; [reflexivity|exact Hi]|]. intros; exact I. Qed.

Lemma type_sscanf_spec i : i <= n -> spec (fun _ => True) (type_sscanf v s i).
Proof.
  intros Hi. unfold type_sscanf. pose proof len_ge as Hl. unfold len in Hl.
  eapply spec_bind; [apply has_prefix_nocase_spec; [reflexivity|exact Hi]|]. intros [|] H1.
  { specialize (H1 eq_refl). change (len (bytes_of_string "osdev[")) with 6 in H1.
    eapply spec_bind; [apply osdev_types_spec; lia|]. intros; exact I. }
  eapply spec_bind; [apply has_prefix_nocase_spec; [reflexivity|exact Hi]|]. intros [|] H2.
  { specialize (H2 eq_refl). change (len (bytes_of_string "os[")) with 3 in H2.
    eapply spec_bind; [apply osdev_types_spec; lia|]. intros; exact I. }
  eapply spec_bind; [apply tmb_spec; [reflexivity|exact Hi]|]. intros [|] _; [exact I|].
  eapply spec_bind; [apply any_match_spec; [reflexivity|exact Hi]|]. intros [|] _; [exact I|].
  eapply spec_bind; [apply first_simple_spec; [reflexivity|exact Hi]|]. intros [t|] _; [exact I|].
  eapply spec_bind; [apply rdo_spec; exact Hi|]. intros c0 [Hc0 Z0].
  eapply spec_bind with (Q := fun b : bool => b = true -> i + 1 <= n).
  { destruct ((c0 =? 108) || (c0 =? 76)) eqn:E; [|simpl; discriminate].
    assert (c0 <> 0) by (intros ->; discriminate). assert (i <> n) by tauto.
    eapply spec_bind; [apply rdo_spec; lia|]. intros c1 _. simpl. lia. }
  intros [|] Hisl.
  - specialize (Hisl eq_refl).
    eapply spec_bind; [apply strtol_spec; exact Hisl|]. intros r Hr. cbv beta in Hr. cbv zeta.
    eapply spec_bind; [apply rdo_spec; lia|]. intros ce [Hce Zce].
    assert (Hnz : forall x, ce =? x = true -> x <> 0 -> snd r + 1 <= n).
    { intros x Hx Hx0. apply N.eqb_eq in Hx. subst x. assert (snd r <> n) by tauto. lia. }
    destruct (ce =? 105) eqn:E1; [|destruct (ce =? 73) eqn:E2]; cbn [orb].
    + destruct (_ && _); [apply cache_suffix_spec; apply (Hnz 105); [exact E1|discriminate]|exact I].
    + destruct (_ && _); [apply cache_suffix_spec; apply (Hnz 73); [exact E2|discriminate]|exact I].
    + destruct (_ && _); [|exact I].
      destruct (ce =? 100) eqn:E3; [|destruct (ce =? 68) eqn:E4]; cbn [orb].
      * apply cache_suffix_spec; apply (Hnz 100); [exact E3|discriminate].
      * apply cache_suffix_spec; apply (Hnz 68); [exact E4|discriminate].
      * destruct (ce =? 117) eqn:E5; [|destruct (ce =? 85) eqn:E6]; cbn [orb].
        -- apply cache_suffix_spec; apply (Hnz 117); [exact E5|discriminate].
        -- apply cache_suffix_spec; apply (Hnz 85); [exact E6|discriminate].
        -- apply cache_suffix_spec; lia.
  - eapply spec_bind; [apply type_match_spec; [reflexivity|exact Hi]|]. intros [e|] He; [|exact I].
    eapply spec_bind; [apply rdo_spec; lia|]. intros ce _.
    destruct (isdigit ce); [|exact I].
    eapply spec_bind; [apply strtol_spec; lia|]. intros; exact I.
Qed.

(* ---- attributes ---- *)
Lemma apply_unit_spec e size us : e <= n ->
  Forall (fun u => nonul (bytes_of_string (fst u)) = true) us ->
  spec (fun r => e <= snd r <= n) (apply_unit s e size us).
Proof.
  intros He. induction us as [|[u m] r IH]; intros Hu; cbn [apply_unit]; [simpl; lia|].
  inversion Hu as [|x l Hu1 Hu2]; subst.
  eapply spec_bind; [apply has_prefix_nocase_spec; [exact Hu1|exact He]|].
  intros [|] Hp; [specialize (Hp eq_refl); simpl; lia | apply IH; exact Hu2].
Qed.
Lemma parse_memory_attr_spec i : i <= n -> spec (fun r => i <= snd r <= n) (parse_memory_attr s i).
Proof.
  intros Hi. unfold parse_memory_attr.
  eapply spec_bind; [apply (strtoul_spec i 0 Hi)|]. intros r Hr. cbv beta in Hr.
  eapply spec_weaken; [apply apply_unit_spec; [lia|repeat constructor]|]. intros a Ha. cbv beta in Ha. lia.
Qed.

Lemma parse_attrs_f_spec ty : forall fuel a mem msc istr, a <= n -> (N.to_nat (n - a) < fuel)%nat ->
  spec (fun _ => True) (parse_attrs_f fuel s ty a mem msc istr).
Proof.
  induction fuel as [|f IH]; intros a mem msc istr Ha Hf; [lia|]. cbn [parse_attrs_f].
  eapply spec_bind; [apply rdo_spec; exact Ha|]. intros c _.
  destruct (c =? 41); [exact I|].
  eapply spec_bind with (Q := fun st : N * N * option (N * N) * N => a <= snd st <= n).
  { eapply spec_bind with (Q := fun b : bool => b = true -> a + 5 <= n).
    { destruct (is_cache ty); [apply (has_prefix_spec' "size=" a eq_refl Ha)|simpl; discriminate]. }
    intros [|] H1.
    { specialize (H1 eq_refl). eapply spec_bind; [apply parse_memory_attr_spec; exact H1|].
      intros r Hr. cbv beta in Hr. unfold spec0. cbn [snd]. lia. }
    eapply spec_bind with (Q := fun b : bool => b = true -> a + 7 <= n).
    { destruct (is_cache ty); [simpl; discriminate|apply (has_prefix_spec' "memory=" a eq_refl Ha)]. }
    intros [|] H2.
    { specialize (H2 eq_refl). eapply spec_bind; [apply parse_memory_attr_spec; exact H2|].
      intros r Hr. cbv beta in Hr. unfold spec0. cbn [snd]. lia. }
    eapply spec_bind; [apply (has_prefix_spec' "memorysidecachesize=" a eq_refl Ha)|]. intros [|] H3.
    { specialize (H3 eq_refl). change (len (bytes_of_string "memorysidecachesize=")) with 20 in H3.
      eapply spec_bind; [apply parse_memory_attr_spec; exact H3|].
      intros r Hr. cbv beta in Hr. unfold spec0. cbn [snd]. lia. }
    eapply spec_bind; [apply (has_prefix_spec' "indexes=" a eq_refl Ha)|]. intros [|] H4.
    { specialize (H4 eq_refl). change (len (bytes_of_string "indexes=")) with 8 in H4.
      eapply spec_bind; [apply strcspn_spec; exact H4|]. intros l Hl. cbv beta in Hl. unfold spec0. cbn [snd]. lia. }
    eapply spec_bind; [apply strcspn_spec; exact Ha|]. intros l Hl. cbv beta in Hl. unfold spec0. cbn [snd]. lia. }
  intros [[[mem' msc'] istr'] a'] Ha'. cbn [snd] in Ha'.
  eapply spec_bind; [apply rdo_spec; lia|]. intros c2 [Hc2 Z2].
  destruct (N.eqb_spec c2 32) as [->|_].
  - assert (a' <> n) by (intros E; apply Z2 in E; discriminate). apply IH; lia.
  - destruct (c2 =? 41); exact I.
Qed.

Lemma parse_attrs_spec i ty msc0 : i <= n -> spec (fun pa => i <= pa_next pa <= n) (parse_attrs s i ty msc0).
Proof.
  intros Hi. unfold parse_attrs. pose proof len_ge as Hl. unfold len in Hl.
  eapply spec_bind; [apply (strchr_spec i 41 Hi); discriminate|]. intros [p|] Hp; [|exact I].
  eapply spec_bind; [apply parse_attrs_f_spec; [exact Hi|lia]|]. intros [[m ms] is] _. simpl. lia.
Qed.
End WithString.

(* ---- the level array ---- *)
Lemma upd_nth_some {A} (l : list A) f : forall k, (k < length l)%nat ->
  exists l', upd_nth l k f = Some l' /\ length l' = length l.
Proof.
  induction l as [|x t IH]; intros [|k] H; simpl in *; try lia.
  - eexists; split; reflexivity.
  - destruct (IH k) as [l' [E L]]; [lia|]. rewrite E. simpl. eexists; split; [reflexivity|simpl; lia].
Qed.
Lemma lv_upd_spec P a i f : i < lenl a -> spec0 P (fun a' => lenl a' = lenl a) (lv_upd a i f).
Proof.
  unfold lenl, lv_upd. intros H. destruct (upd_nth_some a f (N.to_nat i)) as [l' [E L]]; [lia|].
  rewrite E. simpl. lia.
Qed.
Lemma lv_get_spec P a i : i < lenl a -> spec0 P (fun _ => True) (lv_get a i).
Proof.
  unfold lenl, lv_get. intros H. destruct (nth_error a (N.to_nat i)) eqn:E; [exact I|].
  apply nth_error_None in E. lia.
Qed.

Definition Inv (st : pstate) : Prop :=
  lenl (st_lv st) = MAXD /\ 1 <= st_count st /\ st_count st + 1 <= MAXD.

Section Loop.
Variables (v : variant) (s : list N) (n : N).
Hypothesis Hs : cstring s n.
Notation spec := (spec0 (tm_ok v s)).

Lemma step_spec st pos : Inv st -> pos <= n ->
  spec (fun r => match r with
                 | SCont st' pos' => Inv st' /\ pos < pos' <= n
                 | SBreak st' => Inv st'
                 end) (step v s st pos).
Proof.
  intros [HL [Hc1 Hc2]] Hpos. unfold step. set (count := st_count st) in *.
  eapply spec_bind; [apply lv_upd_spec; lia|]. intros lv1 L1. cbv beta in L1.
  eapply spec_bind; [apply (scan_spec v s n Hs); [exact Hpos|reflexivity]|]. intros pos1 Hp1. cbv beta in Hp1.
  eapply spec_bind; [apply (rdo_spec v s n Hs); lia|]. intros c [Hc Zc].
  destruct (N.eqb_spec c 0) as [->|Hc0].
  { unfold spec0, Inv. cbn. repeat split; lia. }
  assert (Hlt : pos1 < n). { assert (pos1 <> n) by tauto. lia. }
  destruct (c =? 91).
  - (* attached *)
    eapply spec_bind; [apply (type_sscanf_spec v s n Hs); lia|]. intros [[[ty d] ct]|] _; [|exact I].
    destruct (negb (ty =? HWLOC_OBJ_NUMANODE)); [exact I|].
    eapply spec_bind; [apply lv_get_spec; lia|]. intros par _.
    eapply spec_bind; [apply lv_upd_spec; lia|]. intros lv2 L2. cbv beta in L2.
    eapply spec_bind; [apply (strchr_spec v s n Hs (pos1 + 1) 93); [lia|discriminate]|]. intros [p|] Hp; [|exact I].
    eapply spec_bind; [apply (strchr_spec v s n Hs (pos1 + 1) 40); [lia|discriminate]|]. intros at_ Hat.
    eapply spec_bind with (Q := fun r : list level * option (N * N) => lenl (fst r) = MAXD).
    { destruct at_ as [a|]; [|unfold spec0; cbn; lia].
      destruct (a <? p); [|unfold spec0; cbn; lia].
      eapply spec_bind; [apply (parse_attrs_spec v s n Hs); lia|]. intros pa _.
      eapply spec_bind; [apply lv_upd_spec; lia|]. intros lv3 L3. cbv beta in L3. unfold spec0. cbn. lia. }
    intros r Hr. cbv beta in Hr. unfold spec0, Inv. cbn. repeat split; try lia.
  - (* normal level *)
    eapply spec_bind; [apply lv_upd_spec; lia|]. intros lv2 L2. cbv beta in L2.
    eapply spec_bind with (Q := fun tp : N * N * N * N => pos1 <= snd tp <= n).
    { destruct (negb (isdigit c)); [|unfold spec0; cbn; lia].
      eapply spec_bind; [apply (type_sscanf_spec v s n Hs); lia|]. intros ts _.
      eapply spec_bind with (Q := fun _ : N * N * N => True).
      { destruct ts as [x|]; [exact I|].
        eapply spec_bind; [apply (has_prefix_spec' v s n Hs "Tile" pos1 eq_refl); lia|]. intros t1 _.
        eapply spec_bind with (Q := fun _ : bool => True).
        { destruct t1; [exact I|].
          eapply spec_weaken; [apply (has_prefix_spec' v s n Hs "Module" pos1 eq_refl); lia|]. intros; exact I. }
        intros [|] _; exact I. }
      intros [[ty d] ct] _.
      destruct (disallowed_level ty); [exact I|].
      eapply spec_bind; [apply (strchr_spec v s n Hs pos1 58); [lia|discriminate]|]. intros [p|] Hp; [|exact I].
      unfold spec0. cbn. lia. }
    intros [[[ty d] ct] pos2] Hp2. cbn [snd] in Hp2.
    destruct (if is_cache ty then (d, ct) else if ty =? HWLOC_OBJ_GROUP then (d, M1) else (M1, M1)) as [d' ct'].
    eapply spec_bind; [apply lv_upd_spec; lia|]. intros lv3 L3. cbv beta in L3.
    eapply spec_bind; [apply (strtoul_spec v s n Hs pos2 0); lia|]. intros r Hr. cbv beta in Hr. cbv zeta.
    destruct (N.eqb_spec (snd r) pos2) as [_|Hne]; [exact I|].
    destruct (fst r =? 0); [exact I|].
    destruct (fix_width_overflow && _); [exact I|].
    eapply spec_bind; [apply lv_upd_spec; lia|]. intros lv4 L4. cbv beta in L4.
    eapply spec_bind; [apply (rdo_spec v s n Hs); lia|]. intros cn [Hcn Zcn].
    eapply spec_bind with (Q := fun r2 : list level * N => lenl (fst r2) = MAXD /\ snd r <= snd r2 <= n).
    { destruct (N.eqb_spec cn 40) as [->|_]; [|unfold spec0; cbn; lia].
      assert (snd r <> n) by (intros E; apply Zcn in E; discriminate).
      eapply spec_bind; [apply (parse_attrs_spec v s n Hs); lia|]. intros pa Hpa. cbv beta in Hpa.
      eapply spec_bind; [apply lv_upd_spec; lia|]. intros lv5 L5. cbv beta in L5. unfold spec0. cbn. lia. }
    intros [lv5 np] [L5 Hnp]. cbn [fst snd] in L5, Hnp.
    destruct (N.leb_spec MAXD (count + 1)); [exact I|].
    destruct (Tables.UINT_MAX <? fst r); [exact I|].
    eapply spec_bind; [apply lv_upd_spec; lia|]. intros lv6 L6. cbv beta in L6.
    unfold spec0, Inv. cbn. repeat split; lia.
Qed.

Lemma main_loop_spec : forall fuel st pos, Inv st -> pos <= n -> (N.to_nat (n - pos) < fuel)%nat ->
  spec Inv (main_loop v fuel s st pos).
Proof.
  induction fuel as [|f IH]; intros st pos Hinv Hpos Hf; [lia|]. cbn [main_loop].
  eapply spec_bind; [apply (rdo_spec v s n Hs); exact Hpos|]. intros c _.
  destruct (c =? 0); [exact Hinv|].
  eapply spec_bind; [apply step_spec; assumption|]. intros [st' pos'|st'] H.
  - destruct H as [H1 H2]. apply IH; [exact H1|lia|lia].
  - exact H.
Qed.

Lemma MAXD_ge2 : 2 <= MAXD. Proof. vm_compute. discriminate. Qed.
Lemma init_levels_len : lenl init_levels = MAXD.
Proof. vm_compute. reflexivity. Qed.

Lemma front_spec : spec (fun r => Inv (fst r) /\ snd r <= n) (front v s).
Proof.
  unfold front. pose proof (len_ge s n Hs) as Hl. unfold len in Hl. pose proof MAXD_ge2 as HM.
  eapply spec_bind; [apply (rdo_spec v s n Hs); lia|]. intros c0 [Hc0 Z0].
  eapply spec_bind with (Q := fun r : list level * N => lenl (fst r) = MAXD /\ snd r <= n).
  { destruct (N.eqb_spec c0 40) as [->|_]; [|unfold spec0; cbn [fst snd]; split; [apply init_levels_len|lia]].
    assert (0 <> n) by (intros E; apply Z0 in E; discriminate).
    eapply spec_bind; [apply (parse_attrs_spec v s n Hs); lia|]. intros pa Hpa. cbv beta in Hpa.
    eapply spec_bind; [apply lv_upd_spec; rewrite init_levels_len; lia|]. intros lv L. cbv beta in L.
    unfold spec0. cbn [fst snd]. rewrite L. split; [apply init_levels_len|lia]. }
  intros [lv d0] [L Hd]. cbn [fst snd] in L, Hd.
  eapply spec_bind; [apply main_loop_spec; [unfold Inv; cbn; lia|exact Hd|lia]|].
  intros st Hst. unfold spec0. cbn [fst snd]. auto.
Qed.
End Loop.

(* No byte outside the description, no element outside level[], no fuel exhaustion
   in the whole parsing loop, for every NUL-terminated description and every variant;
   the only possible fault is the literal overrun of hwloc__type_match, and only when
   the description holds a byte 0xE0 and the test is not fixed *)
Theorem front_safe v s : nul_terminated s ->
  match front v s with
  | Ret (st, d0) => lenl (st_lv st) = MAXD /\ 1 <= st_count st /\ st_count st + 1 <= MAXD
  | Rej => True
  | Fault f => f = FLit /\ tm_ok v s = false
  end.
Proof.
  intros [n Hs]. pose proof (front_spec v s n Hs) as H. unfold spec0 in H.
  destruct (front v s) as [[st d0]| |f]; auto. destruct H as [H _]. exact H.
Qed.

(* ================================================================== *)
(* After the loop: checks, default types, the implicit NUMA level       *)
(* ================================================================== *)
Definition upto_insert v s : out (list level * N) :=
  do* fr := front v s in
  do* m := middle (fst fr) in
  let '(lv, count, tcn, tcg) := m in
  if needs_numa tcn (st_nnr (fst fr)) then numa_insert v lv count else Ret (lv, count).

Lemma parse_decomp v s :
  parse v s =
  do* fr := front v s in
  do* m := middle (fst fr) in
  let '(lv, count, tcn, tcg) := m in
  do* r := (if needs_numa tcn (st_nnr (fst fr)) then numa_insert v lv count else Ret (lv, count)) in
  back v s (fst r) (snd r) tcg (st_nnr (fst fr)) (st_nistr (fst fr)) (snd fr).
Proof.
  unfold parse. destruct (front v s) as [[st d0]| |]; reflexivity.
Qed.

Lemma default_assign_nnr c nnr : default_assign c nnr = default_assign c (if nnr =? 0 then 0 else 1).
Proof. destruct nnr; reflexivity. Qed.

Definition assign_ok_b (c z : N) : bool :=
  forallb (fun a : N * (N * N * N) => fst a <? c) (fst (fst (default_assign c z))).
Lemma assign_ok_all : forallb (fun k => assign_ok_b (N.of_nat k) 0 && assign_ok_b (N.of_nat k) 1) (seq 0 (S MAXnat)) = true.
Proof. vm_compute. reflexivity. Qed.
Lemma assign_ok c nnr : c <= MAXD -> Forall (fun a : N * (N * N * N) => fst a < c) (fst (fst (default_assign c nnr))).
Proof.
  intros Hc. rewrite default_assign_nnr. pose proof assign_ok_all as H. rewrite forallb_forall in H.
  specialize (H (N.to_nat c)). rewrite N2Nat.id in H.
  assert (Hin : In (N.to_nat c) (seq 0 (S MAXnat))) by (apply in_seq; unfold MAXnat; lia).
  specialize (H Hin). apply andb_true_iff in H. destruct H as [H0 H1].
  apply Forall_forall. intros a Ha.
  destruct (nnr =? 0); [unfold assign_ok_b in H0; rewrite forallb_forall in H0; specialize (H0 a Ha)
                       |unfold assign_ok_b in H1; rewrite forallb_forall in H1; specialize (H1 a Ha)]; lia.
Qed.

Lemma set_types_spec P : forall asg lv, Forall (fun a : N * (N * N * N) => fst a < lenl lv) asg ->
  spec0 P (fun lv' => lenl lv' = lenl lv) (set_types lv asg).
Proof.
  induction asg as [|[i [[t d] c]] r IH]; intros lv H; cbn [set_types]; [reflexivity|].
  inversion H as [|x l H1 H2]; subst. cbn [fst] in H1.
  eapply spec_bind; [apply lv_upd_spec; exact H1|]. intros lv' L. cbv beta in L.
  eapply spec_weaken; [apply IH; rewrite L; exact H2|]. intros a Ha. cbv beta in Ha. lia.
Qed.

Lemma middle_spec P st : Inv st ->
  spec0 P (fun m => let '(lv, count, tcn, tcg) := m in lenl lv = MAXD /\ count = st_count st) (middle st).
Proof.
  intros [HL [H1 H2]]. unfold middle.
  eapply spec_bind; [apply lv_get_spec; lia|]. intros last _.
  destruct (_ && _); [exact I|].
  eapply spec_bind; [apply lv_upd_spec; lia|]. intros lv L. cbv beta in L.
  repeat match goal with |- spec0 _ _ (if ?b then Rej else _) => destruct b; [exact I|] end.
  match goal with |- spec0 _ _ (if ?b then _ else _) => destruct b end.
  - destruct (default_assign (st_count st) (st_nnr st)) as [[asg ng] nn] eqn:E.
    eapply spec_bind; [apply set_types_spec|].
    + pose proof (assign_ok (st_count st) (st_nnr st) ltac:(lia)) as F. rewrite E in F. cbn [fst] in F.
      eapply Forall_impl; [|exact F]. intros a Ha. cbv beta in Ha. lia.
    + intros lv' L'. cbv beta in L'. unfold spec0. split; [lia|reflexivity].
  - unfold spec0. split; [lia|reflexivity].
Qed.

Lemma firstn_lenl {A} k (l : list A) : k <= lenl l -> lenl (firstn (N.to_nat k) l) = k.
Proof. unfold lenl. intros H. rewrite firstn_length. lia. Qed.

Lemma numa_insert_spec P v lv count : lenl lv = MAXD -> 1 <= count -> count + 1 <= MAXD ->
  (fix_memmove v = true \/ count <> MAXD - 1) ->
  spec0 P (fun r => lenl (fst r) = MAXD /\ snd r = count + 1) (numa_insert v lv count).
Proof.
  intros HL H1 H2 Hfix. pose proof MAXD_ge2 as HM. unfold numa_insert, lv_memmove.
  set (k := if fix_memmove v then count - 1 else count).
  assert (Hk : 2 + k <= MAXD). { unfold k. destruct (fix_memmove v); [lia|]. destruct Hfix; [discriminate|lia]. }
  rewrite HL.
  destruct (N.ltb_spec MAXD (1 + k)); [lia|]. destruct (N.ltb_spec MAXD (2 + k)); [lia|]. cbn [orb obind].
  set (lv1 := firstn _ lv ++ _ ++ _).
  assert (L1 : lenl lv1 = MAXD).
  { unfold lv1, lenl. rewrite !app_length, !firstn_length, !skipn_length. unfold lenl in HL. lia. }
  eapply spec_bind; [apply lv_get_spec; lia|]. intros l0 _.
  eapply spec_bind; [apply lv_upd_spec; lia|]. intros lv2 L2. cbv beta in L2.
  eapply spec_bind; [apply lv_upd_spec; lia|]. intros lv3 L3. cbv beta in L3.
  unfold spec0. cbn [fst snd]. split; [lia|reflexivity].
Qed.

Lemma numa_insert_overflow v lv count : fix_memmove v = false -> lenl lv = MAXD -> count = MAXD - 1 ->
  numa_insert v lv count = Fault FLevel.
Proof.
  intros Hv HL ->. pose proof MAXD_ge2 as HM. unfold numa_insert, lv_memmove. rewrite Hv, HL.
  destruct (N.ltb_spec MAXD (1 + (MAXD - 1))); [reflexivity|].
  destruct (N.ltb_spec MAXD (2 + (MAXD - 1))); [reflexivity|lia].
Qed.

(* Everything before the index processing.  The level array is never accessed
   out of bounds EXCEPT by the memmove of the implicit NUMA insertion, exactly
   for the class [memmove_class] (126 levels below Machine, no NUMA); the string
   is never read out of bounds; the only other fault is the type-literal overrun
   on a byte 0xE0. *)
Theorem upto_insert_safe v s : nul_terminated s ->
  match upto_insert v s with
  | Ret (lv, count) => lenl lv = MAXD /\ 1 <= count <= MAXD
  | Rej => True
  | Fault f => (f = FLit /\ tm_ok v s = false) \/ (f = FLevel /\ fix_memmove v = false /\ memmove_class v s)
  end.
Proof.
  intros Hn. pose proof (front_safe v s Hn) as Hf. unfold upto_insert.
  destruct (front v s) as [[st d0]| |f] eqn:Ef; cbn [obind fst]; [|exact I|left; exact Hf].
  pose proof (middle_spec true st Hf) as Hm. unfold spec0 in Hm.
  destruct (middle st) as [[[[lv c] tn] tg]| |f] eqn:Em; cbn [obind]; [|exact I|destruct Hm; discriminate].
  destruct Hm as [HL ->]. destruct Hf as [_ [H1 H2]].
  destruct (needs_numa tn (st_nnr st)) eqn:En; [|split; [exact HL|lia]].
  destruct (fix_memmove v) eqn:Efix.
  - pose proof (numa_insert_spec true v lv (st_count st) HL H1 H2 (or_introl Efix)) as Hi. unfold spec0 in Hi.
    destruct (numa_insert v lv (st_count st)) as [[lv' c']| |f]; [|exact I|destruct Hi; discriminate].
    cbn [fst snd] in Hi. destruct Hi as [? ->]. split; [assumption|lia].
  - destruct (N.eq_dec (st_count st) (MAXD - 1)) as [Ec|Ec].
    + assert (Hcls : memmove_class v s).
      { exists st, d0, lv, (st_count st), tn, tg. auto. }
      destruct (numa_insert v lv (st_count st)) as [[lv' c']| |f] eqn:Ei.
      * exfalso. unfold numa_insert, lv_memmove in Ei. rewrite Efix, HL in Ei.
        pose proof MAXD_ge2. destruct (N.ltb_spec MAXD (1 + st_count st)); [discriminate|].
        destruct (N.ltb_spec MAXD (2 + st_count st)); [discriminate|lia].
      * exact I.
      * right. unfold numa_insert, lv_memmove in Ei. rewrite Efix, HL in Ei.
        destruct ((MAXD <? 1 + st_count st) || (MAXD <? 2 + st_count st)) eqn:Eb; cbn [obind] in Ei; [injection Ei as <-; auto|].
        exfalso. pose proof MAXD_ge2. lia.
    + pose proof (numa_insert_spec true v lv (st_count st) HL H1 H2 (or_intror Ec)) as Hi. unfold spec0 in Hi.
      destruct (numa_insert v lv (st_count st)) as [[lv' c']| |f]; [|exact I|destruct Hi; discriminate].
      cbn [fst snd] in Hi. destruct Hi as [? ->]. split; [assumption|lia].
Qed.

(* ... and conversely every description of that class does overflow on the current code *)
Theorem memmove_class_overflows v s : fix_memmove v = false -> nul_terminated s -> memmove_class v s -> upto_insert v s = Fault FLevel.
Proof.
  intros Hv Hn [st [d0 [lv [c [tn [tg [E1 [E2 [E3 E4]]]]]]]]].
  pose proof (front_safe v s Hn) as Hf. rewrite E1 in Hf.
  pose proof (middle_spec true st Hf) as Hm. rewrite E2 in Hm. unfold spec0 in Hm. destruct Hm as [HL _].
  unfold upto_insert. rewrite E1. cbn [obind fst]. rewrite E2. cbn [obind]. rewrite E3.
  now apply numa_insert_overflow.
Qed.
Lemma upto_insert_fault_parse v s f : upto_insert v s = Fault f -> parse v s = Fault f.
Proof.
  rewrite parse_decomp. unfold upto_insert.
  destruct (front v s) as [fr| |]; cbn [obind]; try congruence.
  destruct (middle (fst fr)) as [[[[lv c] tn] tg]| |]; cbn [obind]; try congruence.
  destruct (if needs_numa tn (st_nnr (fst fr)) then numa_insert v lv c else Ret (lv, c)); cbn [obind]; congruence.
Qed.

(* ================================================================== *)
(* strtol / strtoul never step over a byte that cannot be part of a     *)
(* number (blank, sign, alphanumeric): e.g. the ')' closing attributes  *)
(* ================================================================== *)
Definition stopc (c : N) : Prop := isspace c = false /\ c <> 45 /\ c <> 43 /\ digit_val c = None.
Lemma stopc_41 : stopc 41. Proof. repeat split; discriminate. Qed.

Lemma scan_le_stop pr s i j p c : scan_while pr s i = Ok j -> i <= p -> rd s p = Some c -> pr c = false -> j <= p.
Proof.
  intros E Hi Hp Hc. apply scan_while_spec in E. destruct E as [Hij [_ Hm]].
  destruct (N.le_gt_cases j p) as [H|H]; [exact H|].
  destruct (Hm p) as [b [Hb Pb]]; [lia|]. congruence.
Qed.

Lemma strto_core_le_stop s n i base p c : cstring s n -> i <= p -> rd s p = Some c -> stopc c ->
  forall r, strto_core s i base = Ok r -> sr_end r <= p.
Proof.
  intros Hs Hi Hp [Hsp [H45 [H43 Hdv]]] r. unfold strto_core.
  destruct (scan_while isspace s i) as [j0|] eqn:E0; cbn [bind]; [|discriminate].
  pose proof (scan_le_stop _ _ _ _ _ _ E0 Hi Hp Hsp) as Hj0.
  unfold rdr. destruct (rd s j0) as [c0'|] eqn:R0; cbn [bind]; [|discriminate].
  set (j1 := if (c0' =? 45) || (c0' =? 43) then N.succ j0 else j0).
  assert (Hj1 : j1 <= p).
  { unfold j1. destruct ((c0' =? 45) || (c0' =? 43)) eqn:Es; [|exact Hj0].
    destruct (N.eq_dec j0 p) as [->|]; [|lia]. rewrite Hp in R0. injection R0 as <-.
    apply orb_true_iff in Es. destruct Es as [Es|Es]; apply N.eqb_eq in Es; congruence. }
  destruct (rd s j1) as [c1'|] eqn:R1; cbn [bind]; [|discriminate].
  assert (Hdig : forall b, is_digit_in b c = false).
  { intros b. unfold is_digit_in. now rewrite Hdv. }
  assert (Hc48 : c <> 48). { intros ->. discriminate. }
  (* the prefix decision *)
  match goal with |- context [bind ?pb _] => set (PB := pb) end.
  assert (HPB : forall pf j2 b, PB = Ok (pf, j2, b) -> j2 <= p /\ (pf = true -> N.succ j1 <= p)).
  { unfold PB. intros pf j2 b. destruct (N.eqb_spec c1' 48) as [->|_].
    - assert (j1 <> p). { intros ->. rewrite Hp in R1. injection R1 as ->. congruence. }
      destruct ((base =? 0) || (base =? 16)).
      + destruct (rd s (N.succ j1)) as [cx|] eqn:Rx; cbn [bind]; [|discriminate].
        destruct (N.eqb_spec (toupper cx) 88) as [Ex|_]; intros [= <- <- <-].
        * assert (N.succ j1 <> p).
          { intros Ep. rewrite Ep, Hp in Rx. injection Rx as <-. revert Ex Hdv. unfold toupper, digit_val, islower, isdigit, isupper.
            destruct (N.leb_spec 97 c); destruct (N.leb_spec c 122); destruct (N.leb_spec 48 c); destruct (N.leb_spec c 57);
            destruct (N.leb_spec 65 c); destruct (N.leb_spec c 90); cbn; intros; try discriminate; lia. }
          split; [lia|intros _; lia].
        * split; [lia|discriminate].
      + intros [= <- <- <-]. split; [lia|discriminate].
    - intros [= <- <- <-]. split; [lia|discriminate]. }
  destruct PB as [[[pf j2] b]|] eqn:EPB; cbn [bind]; [|discriminate].
  destruct (HPB pf j2 b eq_refl) as [Hj2 Hpf].
  destruct (scan_while (is_digit_in b) s j2) as [je|] eqn:Ee; cbn [bind]; [|discriminate].
  pose proof (scan_le_stop _ _ _ _ _ _ Ee Hj2 Hp (Hdig b)) as Hje.
  destruct (je =? j2); intros [= <-]; cbn [sr_end]; [|exact Hje].
  destruct pf; [apply Hpf; reflexivity|exact Hi].
Qed.

Lemma strtol_le_stop s n i base p c v e : cstring s n -> i <= p -> rd s p = Some c -> stopc c ->
  strtol s i base = Ok (v, e) -> e <= p.
Proof.
  intros Hs Hi Hp Hc. unfold strtol. destruct (strto_core s i base) as [r|] eqn:E; cbn [bind]; [|discriminate].
  intros [= _ <-]. eapply strto_core_le_stop; eauto.
Qed.
Lemma strtoul_le_stop s n i base p c v e : cstring s n -> i <= p -> rd s p = Some c -> stopc c ->
  strtoul s i base = Ok (v, e) -> e <= p.
Proof.
  intros Hs Hi Hp Hc. unfold strtoul. destruct (strto_core s i base) as [r|] eqn:E; cbn [bind]; [|discriminate].
  intros [= _ <-]. eapply strto_core_le_stop; eauto.
Qed.
