(* C07: lemmas about the model of Text/Synthetic.v *)
From Coq Require Import String NArith ZArith List Bool Lia.
From HV Require Import Base.Bytes Base.Strto Gen.Tables Text.Synthetic.
Import ListNotations.
Local Open Scope N_scope.

(* ---------- concrete descriptions as C objects ---------- *)
Definition desc (p : list N) : list N := p ++ [0].
Definition nonul (p : list N) : bool := forallb (fun b => negb (b =? 0)) p.
Lemma nonul_no_nul p : nonul p = true -> no_nul p.
Proof.
  unfold nonul, no_nul. rewrite forallb_forall, Forall_forall. intros H b Hb.
  specialize (H b Hb). apply negb_true_iff, N.eqb_neq in H. exact H.
Qed.
Lemma desc_nul_terminated p : nonul p = true -> nul_terminated (desc p).
Proof. intros H. exists (len p). apply cstring_app. now apply nonul_no_nul. Qed.

Fixpoint rep (k : nat) (w : list N) : list N := match k with O => [] | S k' => w ++ rep k' w end.

(* 126 levels below Machine, no NUMA level: "group:1 " x 125 ++ "pu:1" *)
Definition w_memmove : list N := rep 125 (bytes_of_string "group:1 ") ++ bytes_of_string "pu:1".
(* one level fewer is fine *)
Definition w_125 : list N := rep 124 (bytes_of_string "group:1 ") ++ bytes_of_string "pu:1".
Definition w_loops : list N := bytes_of_string "pu:2(indexes=1* 2:2*2:4*2)".
Definition w_uninit : list N := bytes_of_string "pack:2 core:2 pu:2(indexes=pu:core)".
Definition w_e0 : list N := [112; 117; 224; 58; 50].       (* "pu\xe0:2" *)
Definition w_div : list N := bytes_of_string "pack:65536 die:65536 core:65536 l2:65536 pu:2(indexes=l2:pack)".

Lemma memmove_refuted : nul_terminated (desc w_memmove) /\ parse Cur (desc w_memmove) = Fault FLevel.
Proof. split; [apply desc_nul_terminated; vm_compute; reflexivity | vm_compute; reflexivity]. Qed.
Definition memmove_class_b v s : bool :=
  match front v s with
  | Ret (st, d0) =>
    match middle st with
    | Ret (lv, c, tn, tg) => needs_numa tn (st_nnr st) && (c =? MAXD - 1)
    | _ => false
    end
  | _ => false
  end.
Lemma memmove_class_b_sound v s : memmove_class_b v s = true -> memmove_class v s.
Proof.
  unfold memmove_class_b, memmove_class. destruct (front v s) as [[st d0]| |]; try discriminate.
  destruct (middle st) as [[[[lv c] tn] tg]| |] eqn:E; try discriminate.
  intros H. apply andb_true_iff in H. destruct H as [H1 H2]. apply N.eqb_eq in H2.
  exists st, d0, lv, c, tn, tg. auto.
Qed.
Lemma memmove_class_b_complete v s : memmove_class v s -> memmove_class_b v s = true.
Proof.
  unfold memmove_class_b. intros [st [d0 [lv [c [tn [tg [E1 [E2 [E3 E4]]]]]]]]].
  rewrite E1, E2, E3. subst c. now rewrite N.eqb_refl.
Qed.
Lemma memmove_witness_in_class : memmove_class Cur (desc w_memmove).
Proof. apply memmove_class_b_sound. vm_compute. reflexivity. Qed.
Lemma memmove_fixed_ok : exists sy, parse Fixed (desc w_memmove) = Ret sy /\ lenl (sy_levels sy) = 128.
Proof. eexists. split; vm_compute; reflexivity. Qed.
Lemma below_boundary_ok : exists sy, parse Cur (desc w_125) = Ret sy /\ lenl (sy_levels sy) = 127.
Proof. eexists. split; vm_compute; reflexivity. Qed.
Lemma loops_refuted : nul_terminated (desc w_loops) /\ parse Cur (desc w_loops) = Fault FLoops.
Proof. split; [apply desc_nul_terminated; vm_compute; reflexivity | vm_compute; reflexivity]. Qed.
Lemma uninit_refuted : nul_terminated (desc w_uninit) /\ parse Cur (desc w_uninit) = Fault FUninit.
Proof. split; [apply desc_nul_terminated; vm_compute; reflexivity | vm_compute; reflexivity]. Qed.
Lemma type_match_refuted : nul_terminated (desc w_e0) /\ parse Cur (desc w_e0) = Fault FLit.
Proof. split; [apply desc_nul_terminated; vm_compute; reflexivity | vm_compute; reflexivity]. Qed.
Lemma div_refuted : nul_terminated (desc w_div) /\ parse Cur (desc w_div) = Fault FDiv.
Proof. split; [apply desc_nul_terminated; vm_compute; reflexivity | vm_compute; reflexivity]. Qed.
Lemma fixed_rejects_or_accepts_witnesses :
  parse Fixed (desc w_loops) <> Fault FLoops /\ parse Fixed (desc w_uninit) <> Fault FUninit /\ parse Fixed (desc w_e0) <> Fault FLit.
Proof. repeat split; vm_compute; discriminate. Qed.
