(* Model of the attribute-value escaping of the built-in XML backend
   (hwloc/topology-xml-nolibxml.c):
     export: hwloc__nolibxml_export_escape_string  (called by new_prop)
     import: the value loop of hwloc__nolibxml_import_next_attr
   and of the export-side string filter hwloc__xml_export_safestrdup
   (hwloc/topology-xml.c).

   Strings are lists of bytes without the terminating NUL on the export side.
   On the import side the argument is the rest of the (NUL-terminated) buffer
   starting right after the opening quote; the C loop rewrites the buffer in
   place, always behind its read cursor ([len <= len+escaped]), so unread input
   is never modified and the loop is a function of the input bytes. *)
From Coq Require Import String Ascii.
From Coq Require Import NArith PeanoNat List Bool.
From HV Require Import Base.Bytes.
Import ListNotations.
Local Open Scope N_scope.

Definition lit (s : string) : list N := bytes_of_string s.

(* ---------- HWLOC_XML_CHAR_VALID and hwloc__xml_export_safestrdup ---------- *)
(* the macro is applied to a plain (signed) char: bytes >= 128 are negative and fail [c >= 32] *)
Definition xml_char_valid (c : N) : bool :=
  ((32 <=? c) && (c <=? 126)) || (c =? 9) || (c =? 10) || (c =? 13).
Definition safestrdup (s : list N) : list N := filter xml_char_valid s.
Definition xml_safe_string (s : list N) : bool := forallb xml_char_valid s.
(* hwloc__xml_export_check_buffer: 0 iff every byte is valid *)
Definition check_buffer (s : list N) : bool := forallb xml_char_valid s.

(* ---------- export: escape ---------- *)
Definition special (c : N) : bool :=
  (c =? 10) || (c =? 13) || (c =? 9) || (c =? 34) || (c =? 60) || (c =? 62) || (c =? 38).

Definition esc1 (c : N) : list N :=
  if c =? 10 then lit "&#10;"
  else if c =? 13 then lit "&#13;"
  else if c =? 9 then lit "&#9;"
  else if c =? 34 then lit "&quot;"
  else if c =? 60 then lit "&lt;"
  else if c =? 62 then lit "&gt;"
  else if c =? 38 then lit "&amp;"
  else [c].

(* NULL (None) when strcspn finds nothing to escape; otherwise the chunks between special characters are copied
   and each special character is replaced *)
Definition escape_string (s : list N) : option (list N) :=
  if existsb special s then Some (flat_map esc1 s) else None.

(* what new_prop prints between the quotes: escaped ? escaped : value *)
Definition escaped_value (s : list N) : list N :=
  match escape_string s with Some e => e | None => s end.

(* ---------- import: unescape ---------- *)
Inductive ures := UOk (value rest : list N) | UFail | UOob.

Fixpoint starts_with (p s : list N) : bool :=
  match p, s with
  | [], _ => true
  | x :: p', y :: s' => (x =? y) && starts_with p' s'
  | _ :: _, [] => false
  end.

(* the strncmp chain after a '&', in the order of the C code; returns the character and the input after the entity *)
Definition match_entity (s : list N) : option (N * list N) :=
  if starts_with (lit "#10;") s then Some (10, skipn 4 s)
  else if starts_with (lit "#13;") s then Some (13, skipn 4 s)
  else if starts_with (lit "#9;") s then Some (9, skipn 3 s)
  else if starts_with (lit "quot;") s then Some (34, skipn 5 s)
  else if starts_with (lit "lt;") s then Some (60, skipn 3 s)
  else if starts_with (lit "gt;") s then Some (62, skipn 3 s)
  else if starts_with (lit "amp;") s then Some (38, skipn 4 s)
  else None.

(* [s] = the buffer from value[len+escaped] on.  One unit of fuel per produced character. *)
Fixpoint unesc (fuel : nat) (s : list N) : ures :=
  match fuel with
  | O => UOob
  | S fuel' =>
      match s with
      | [] => UOob                                       (* read past the end of the block *)
      | c :: tl =>
          if c =? 34 then UOk [] tl                      (* closing quote: value[len] = 0, the rest starts after it *)
          else if c =? 0 then UFail                       (* the text ends inside the value (/repo commit 214eeaf) *)
          else
            match (if c =? 38 then match_entity tl else Some (c, tl)) with
            | None => UFail                              (* unknown entity: return -1 *)
            | Some (ch, rest) =>
                match rest with
                | [] => UOob
                | n :: _ =>
                    if n =? 0 then UFail                 (* if (value[len+escaped] == '\0') return -1 *)
                    else match unesc fuel' rest with
                         | UOk v r => UOk (ch :: v) r
                         | e => e
                         end
                end
            end
      end
  end.

Definition unescape (s : list N) : ures := unesc (S (length s)) s.

(* ---------- import: one attribute, and the attribute list of an element ----------
   hwloc__nolibxml_import_next_attr on the attribute buffer of an element (find_child
   has replaced the closing angle bracket, or slash and bracket, by NUL): skip blanks, the name is the longest
   prefix over [a-z_], then an equal sign and a double quote, the unescaped value, and
   the blanks after the closing quote.  None = return -1 (also how the end of the list is reported). *)
Definition is_blank (c : N) : bool := (c =? 32) || (c =? 9) || (c =? 10) || (c =? 13).
Definition is_attr_name_char (c : N) : bool := ((97 <=? c) && (c <=? 122)) || (c =? 95).

Fixpoint skip_blanks (s : list N) : list N :=
  match s with c :: tl => if is_blank c then skip_blanks tl else s | [] => [] end.
Fixpoint span_name (s : list N) : list N * list N :=
  match s with
  | c :: tl => if is_attr_name_char c then let (n, r) := span_name tl in (c :: n, r) else ([], s)
  | [] => ([], [])
  end.

Definition next_attr (s : list N) : option (list N * list N * list N) :=
  let (name, s2) := span_name (skip_blanks s) in
  match s2 with
  | 61 :: 34 :: s3 =>
      match unescape s3 with
      | UOk v rest => Some (name, v, skip_blanks rest)
      | _ => None
      end
  | _ => None
  end.

(* the caller's loop: while (next_attr(...) >= 0) *)
Fixpoint parse_attrs (fuel : nat) (s : list N) : list (list N * list N) :=
  match fuel with
  | O => []
  | S f => match next_attr s with
           | Some (n, v, rest) => (n, v) :: parse_attrs f rest
           | None => []
           end
  end.

(* ---------- import: element content (hwloc__nolibxml_import_get_content, element not auto-closed) ----------
   the content ends at the next '<'; its length must be the expected one; it is NOT unescaped *)
Fixpoint before_lt (s : list N) : option (list N) :=
  match s with
  | [] => None                                        (* strchr reaches the NUL: return -1 *)
  | c :: tl => if c =? 0 then None else if c =? 60 then Some [] else option_map (cons c) (before_lt tl)
  end.
Definition get_content (buffer : list N) (expected_length : N) : option (list N) :=
  match before_lt buffer with
  | Some c => if N.of_nat (length c) =? expected_length then Some c else None
  | None => None
  end.
