(* C07: every index array the parser accepts is injective (no duplicate os_index), and an
   interleaving it accepts is a permutation of 0..total-1.  This is the hypothesis [inj_on] of
   C01's synthetic_requests_are_laminar. *)
From Coq Require Import String NArith ZArith List Bool Lia Permutation Sorting.Sorted.
From Coq Require Import ZifyBool ZifyN ZifyNat.
From HV Require Import Base.Bytes Base.Strto Gen.Tables Text.Synthetic Text.SyntheticProofs Text.SyntheticBack.
Import ListNotations.
Local Open Scope N_scope.

Lemma obind_ret {A B} (r : out A) (k : A -> out B) b : obind r k = Ret b -> exists a, r = Ret a /\ k a = Ret b.
Proof. destruct r as [a| |f]; simpl; try discriminate. eauto. Qed.

(* ---------- the duplicate test ---------- *)
Lemma adj_dup_sorted l : StronglySorted (fun x y => is_true (N.leb x y)) l -> adj_dup l = false -> NoDup l.
Proof.
  induction l as [|x r IH]; intros HS Hd; [constructor|].
  inversion HS as [|a b HS' HF]; subst. constructor.
  - destruct r as [|y r']; [intros []|]. cbn [adj_dup] in Hd. apply orb_false_iff in Hd. destruct Hd as [Hxy Hd].
    intros [->|Hin]; [rewrite N.eqb_refl in Hxy; discriminate|].
    inversion HS' as [|a b _ HF']; subst. rewrite Forall_forall in HF, HF'.
    assert (H1 : is_true (y <=? x)) by (apply HF'; exact Hin).
    assert (H2 : is_true (x <=? y)) by (apply HF; left; reflexivity).
    unfold is_true in *. lia.
  - apply IH; [exact HS'|]. destruct r as [|y r']; [reflexivity|]. cbn [adj_dup] in Hd. apply orb_false_iff in Hd. tauto.
Qed.
Lemma dupb_NoDup l : dupb l = false -> NoDup l.
Proof.
  unfold dupb. intros H.
  assert (HS : StronglySorted (fun x y => is_true (N.leb x y)) (NSort.sort l)).
  { apply Sorted_StronglySorted; [|apply NSort.Sorted_sort].
    intros a b c H1 H2. unfold is_true, NLeb.leb in *. lia. }
  apply (Permutation_NoDup (Permutation_sym (NSort.Permuted_sort l))). now apply adj_dup_sorted.
Qed.

(* ---------- explicit lists ---------- *)
Lemma explicit_length s total : forall fuel attr i acc a, explicit_f fuel s attr i total acc = Ret a ->
  N.of_nat (length acc) = i -> i <= total -> N.of_nat (length a) = total.
Proof.
  induction fuel as [|f IH]; intros attr i acc a E Hl Hi; [discriminate|]. cbn [explicit_f] in E.
  destruct (N.ltb_spec i total) as [Hlt|Hge].
  - apply obind_ret in E. destruct E as [r [_ E]]. cbv zeta in E.
    destruct (snd r =? attr); [discriminate|].
    destruct (negb (i =? total - 1)).
    + apply obind_ret in E. destruct E as [c [_ E]]. destruct (c =? 44); [|discriminate].
      eapply IH; [exact E| |lia]. cbn [length]. lia.
    + eapply IH; [exact E| |lia]. cbn [length]. lia.
  - injection E as <-. rewrite rev_length. lia.
Qed.

(* ---------- interleavings ---------- *)
Lemma gen_array_length loops total : length (gen_array loops total) = N.to_nat total.
Proof. unfold gen_array. now rewrite map_length, seq_length. Qed.

Lemma interleave_perm v s lv attr length total a : fix_perm_check = true ->
  interleave v s lv attr length total = Ret a ->
  N.of_nat (List.length a) = total /\ NoDup a /\ Forall (fun x => x < total) a.
Proof.
  intros Hfix E. unfold interleave in E.
  apply obind_ret in E. destruct E as [nr [_ E]].
  apply obind_ret in E. destruct E as [c [_ E]].
  apply obind_ret in E. destruct E as [[[loops minstep] nbs] [_ E]].
  destruct (nbs =? 0); [discriminate|].
  apply obind_ret in E. destruct E as [[loops' nr'] [_ E]].
  destruct (U32 <=? total); [discriminate|]. rewrite Hfix in E.
  destruct (forallb _ _ && negb _) eqn:Hc; [|discriminate]. injection E as <-.
  apply andb_true_iff in Hc. destruct Hc as [H1 H2]. apply negb_true_iff in H2.
  split; [rewrite gen_array_length; lia|]. split; [now apply dupb_NoDup|].
  rewrite forallb_forall in H1. apply Forall_forall. intros x Hx. specialize (H1 x Hx). lia.
Qed.

(* an accepted interleaving is a permutation of 0 .. total-1 *)
Theorem interleave_is_permutation v s lv attr length total a : fix_perm_check = true ->
  interleave v s lv attr length total = Ret a ->
  Permutation a (map N.of_nat (seq 0 (N.to_nat total))).
Proof.
  intros Hfix E. destruct (interleave_perm v s lv attr length total a Hfix E) as [Hl [Hn Hf]].
  apply NoDup_Permutation_bis; [exact Hn|rewrite map_length, seq_length; lia|].
  intros x Hx. rewrite Forall_forall in Hf. specialize (Hf x Hx). apply in_map_iff.
  exists (N.to_nat x). split; [lia|]. apply in_seq. lia.
Qed.

(* ---------- hwloc_synthetic_process_indexes ---------- *)
Theorem process_indexes_injective v s lv istr total a : fix_dup_indexes = true -> fix_perm_check = true ->
  process_indexes v s lv istr total = Ret (Some a) -> N.of_nat (length a) = total /\ NoDup a.
Proof.
  intros Hd Hp E. unfold process_indexes in E. destruct istr as [[attr length]|]; [|discriminate].
  destruct (T64 <=? total * 4); [discriminate|].
  match type of E with match ?b with _ => _ end = _ => destruct b as [a'| |f] eqn:Eb end; try discriminate.
  injection E as ->. apply obind_ret in Eb. destruct Eb as [i [_ Eb]].
  destruct (i =? length).
  - apply obind_ret in Eb. destruct Eb as [a0 [E0 Eb]]. rewrite Hd in Eb. cbn [andb] in Eb.
    destruct (dupb a0) eqn:Edup; [discriminate|]. injection Eb as <-.
    split; [eapply explicit_length; [exact E0|reflexivity|lia]|now apply dupb_NoDup].
  - destruct (interleave_perm v s lv attr length total a Hp Eb) as [H1 [H2 _]]. auto.
Qed.

(* ---------- through the final loop: every level of an accepted description ---------- *)
Definition iarr_ok (l : level) : Prop :=
  match lv_iarr l with None => True | Some a => N.of_nat (length a) = lv_width l /\ NoDup a end.

Lemma lv_upd_inv a i f a' : lv_upd a i f = Ret a' -> upd_nth a (N.to_nat i) f = Some a'.
Proof. unfold lv_upd. destruct (upd_nth a (N.to_nat i) f); [intros [= ->]; reflexivity|discriminate]. Qed.
Lemma lv_get_inv a i l : lv_get a i = Ret l -> nth_error a (N.to_nat i) = Some l.
Proof. unfold lv_get. destruct (nth_error a (N.to_nat i)); [intros [= ->]; reflexivity|discriminate]. Qed.

Section Final.
Hypothesis Hd : fix_dup_indexes = true.
Hypothesis Hp : fix_perm_check = true.

Lemma final_loop_iarr v s : forall k i lv tcg lv', final_loop v s k i lv tcg = Ret lv' ->
  (forall j l, (j < N.to_nat i)%nat -> nth_error lv j = Some l -> iarr_ok l) ->
  forall j l, (j < N.to_nat i + k)%nat -> nth_error lv' j = Some l -> iarr_ok l.
Proof.
  induction k as [|k IH]; intros i lv tcg lv' E Hprev j l Hj Hl; cbn [final_loop] in E.
  - injection E as <-. apply (Hprev j l); [lia|exact Hl].
  - apply obind_ret in E. destruct E as [l0 [E0 E]]. apply lv_get_inv in E0.
    destruct (if _ && _ then _ else _) as [d tcg'].
    apply obind_ret in E. destruct E as [lv1 [E1 E]]. apply lv_upd_inv in E1.
    apply obind_ret in E. destruct E as [ia [Eia E]].
    apply obind_ret in E. destruct E as [lv2 [E2 E]]. apply lv_upd_inv in E2.
    refine (IH (i + 1) lv2 tcg' lv' E _ j l ltac:(lia) Hl).
    intros j' l' Hj' Hl'. rewrite (upd_nth_nth _ lv1 _ lv2 E2) in Hl'. rewrite (upd_nth_nth _ lv _ lv1 E1) in Hl'.
    destruct (Nat.eqb_spec j' (N.to_nat i)) as [->|Hne].
    + rewrite E0 in Hl'. cbn in Hl'. injection Hl' as <-. unfold iarr_ok. cbn.
      destruct ia as [a|]; [|exact I]. exact (process_indexes_injective v s lv1 _ _ a Hd Hp Eia).
    + apply (Hprev j' l'); [lia|exact Hl'].
Qed.

(* every index array of an accepted description: as many entries as objects, no duplicate *)
Theorem parse_index_arrays_injective v s sy : parse v s = Ret sy ->
  Forall iarr_ok (sy_levels sy) /\
  match sy_niarr sy with None => True | Some a => N.of_nat (length a) = sy_nnr sy /\ NoDup a end.
Proof.
  intros E. rewrite parse_decomp in E.
  apply obind_ret in E. destruct E as [fr [_ E]].
  apply obind_ret in E. destruct E as [[[[lv c] tn] tg] [_ E]].
  apply obind_ret in E. destruct E as [r [_ E]]. unfold back in E.
  apply obind_ret in E. destruct E as [lv1 [_ E]].
  apply obind_ret in E. destruct E as [lv2 [E2 E]].
  apply obind_ret in E. destruct E as [nia [En E]].
  apply obind_ret in E. destruct E as [lv3 [E3 E]]. apply lv_upd_inv in E3. injection E as <-. cbn [sy_levels sy_niarr sy_nnr].
  split.
  - apply Forall_forall. intros l Hin. destruct (In_nth_error _ _ Hin) as [j Hj].
    assert (Hlt : (j < N.to_nat (snd r))%nat).
    { assert (j < length (firstn (N.to_nat (snd r)) lv3))%nat by (apply nth_error_Some; congruence).
      rewrite firstn_length in H. lia. }
    rewrite nth_firstn in Hj by exact Hlt. rewrite (upd_nth_nth _ lv2 _ lv3 E3) in Hj.
    assert (Hok : forall l2, nth_error lv2 j = Some l2 -> iarr_ok l2).
    { intros l2 H2. eapply (final_loop_iarr v s _ 0 lv1 tg lv2 E2); [intros j0 l0 Hj0; simpl in Hj0; lia| |exact H2]. simpl. lia. }
    destruct (Nat.eqb j (N.to_nat (snd r - 1))); [|now apply Hok].
    destruct (nth_error lv2 j) as [l2|] eqn:E2j; [|discriminate]. cbn in Hj. injection Hj as <-.
    specialize (Hok l2 eq_refl). exact Hok.
  - destruct nia as [a|]; [|exact I]. exact (process_indexes_injective v s lv2 _ _ a Hd Hp En).
Qed.
End Final.

Definition w_nonperm : list N := bytes_of_string "pu:6(indexes=1*3:2*2)".
Lemma nonperm_ignored v : exists sy, parse v (desc w_nonperm) = Ret sy /\ forallb (fun l => match lv_iarr l with None => true | Some _ => false end) (sy_levels sy) = true.
Proof. destruct v as [a b c d]. destruct a, b, c, d; eexists; split; vm_compute; reflexivity. Qed.
