(* C20 - lemmas about Text/Calc.v *)
From Coq Require Import List NArith ZArith Bool String Lia.
From Coq Require Import ZifyBool ZifyN ZifyNat.
From HV Require Import Base.BSet Base.Bytes Base.Strto Gen.Tables Text.TypeOrder Text.TypeNames Bitmap.BitmapText
  Topo.Dump Topo.Obj Topo.Helpers Text.Calc.
Import ListNotations.
Local Open Scope Z_scope.
Ltac Zify.zify_post_hook ::= Z.div_mod_to_equations.

(* ------------------------------------------------------------------ *)
(* algebra of pairs of sets                                            *)

Lemma bs_union_assoc a b c : bs_union (bs_union a b) c = bs_union a (bs_union b c).
Proof. apply bs_ext. intros i. rewrite !mem_union. now rewrite orb_assoc. Qed.
Lemma bs_union_empty_r a : bs_union a bs_empty = a.
Proof. apply bs_ext. intros i. rewrite mem_union, mem_empty. now rewrite orb_false_r. Qed.
Lemma bs_union_empty_l a : bs_union bs_empty a = a.
Proof. apply bs_ext. intros i. now rewrite mem_union, mem_empty. Qed.

Lemma union2_assoc a b c : union2 (union2 a b) c = union2 a (union2 b c).
Proof. unfold union2. cbn [fst snd]. now rewrite !bs_union_assoc. Qed.
Lemma union2_empty_r a : union2 a empty2 = a.
Proof. destruct a. unfold union2, empty2. cbn [fst snd]. now rewrite !bs_union_empty_r. Qed.
Lemma union2_empty_l a : union2 empty2 a = a.
Proof. destruct a. unfold union2, empty2. cbn [fst snd]. now rewrite !bs_union_empty_l. Qed.

(* membership in either component, uniformly *)
Definition mem2 (side : bool) (i : N) (s : sets) : bool := if side then mem i (fst s) else mem i (snd s).
Lemma mem2_union2 side i a b : mem2 side i (union2 a b) = mem2 side i a || mem2 side i b.
Proof. destruct side; unfold mem2, union2; cbn [fst snd]; apply mem_union. Qed.
Lemma mem2_empty2 side i : mem2 side i empty2 = false.
Proof. destruct side; unfold mem2, empty2; cbn [fst snd]; apply mem_empty. Qed.
Lemma sets_ext (a b : sets) : (forall side i, mem2 side i a = mem2 side i b) -> a = b.
Proof.
  intros H. destruct a as [a1 a2], b as [b1 b2]. f_equal; apply bs_ext; intros i.
  - exact (H true i).
  - exact (H false i).
Qed.
Lemma mem2_big_union {A} side i (f : A -> sets) l :
  mem2 side i (big_union f l) = existsb (fun x => mem2 side i (f x)) l.
Proof.
  induction l as [|x l IH]; cbn [big_union fold_right existsb].
  - apply mem2_empty2.
  - fold (big_union f l). now rewrite mem2_union2, IH.
Qed.

(* ------------------------------------------------------------------ *)
(* the loop of hwloc_calc_append_object_range                          *)

(* the indexes the loop looks up, in order *)
Fixpoint visit (n : nat) (w : Z) (wrap : bool) (step : Z) (i : Z) : list Z :=
  match n with
  | O => []
  | S n' => let i1 := if wrap && (w <=? i) then 0 else i in i1 :: visit n' w wrap step (u32 (i1 + step))
  end.

Definition at_index (logical : bool) (ins : list cobj) (F : cobj -> sets) (j : Z) : sets :=
  match get_obj logical ins j with Some o => F o | None => empty2 end.

Lemma get_obj_In logical ins j o : get_obj logical ins j = Some o -> In o ins.
Proof.
  unfold get_obj. destruct logical; intros H.
  - eapply nth_error_In; eauto.
  - apply find_some in H. tauto.
Qed.

Lemma range_loop_sets logical ins (F : cobj -> sets) (f : cobj -> sets -> option sets) :
  (forall o, In o ins -> forall a, f o a = Some (union2 a (F o))) ->
  forall n w wrap step i acc,
    range_loop logical n ins w wrap step i f acc
    = Some (union2 acc (big_union (at_index logical ins F) (visit n w wrap step i))).
Proof.
  intros Hf. induction n as [|n IH]; intros w wrap step i acc; cbn [range_loop visit big_union fold_right].
  - now rewrite union2_empty_r.
  - fold (big_union (at_index logical ins F)).
    set (i1 := if wrap && (w <=? i) then 0 else i).
    unfold at_index at 1.
    destruct (get_obj logical ins i1) as [o|] eqn:E.
    + rewrite (Hf o (get_obj_In _ _ _ _ E)). rewrite IH. now rewrite union2_assoc.
    + rewrite IH. now rewrite union2_empty_l.
Qed.

Lemma range_loop_optsets logical ins (F : cobj -> sets) (f : cobj -> option sets -> option (option sets)) :
  (forall o, In o ins -> forall a, f o (Some a) = Some (Some (union2 a (F o)))) ->
  forall n w wrap step i acc,
    range_loop logical n ins w wrap step i f (Some acc)
    = Some (Some (union2 acc (big_union (at_index logical ins F) (visit n w wrap step i)))).
Proof.
  intros Hf. induction n as [|n IH]; intros w wrap step i acc; cbn [range_loop visit big_union fold_right].
  - now rewrite union2_empty_r.
  - fold (big_union (at_index logical ins F)).
    set (i1 := if wrap && (w <=? i) then 0 else i).
    unfold at_index at 1.
    destruct (get_obj logical ins i1) as [o|] eqn:E.
    + rewrite (Hf o (get_obj_In _ _ _ _ E)). rewrite IH. now rewrite union2_assoc.
    + rewrite IH. now rewrite union2_empty_l.
Qed.

(* ------------------------------------------------------------------ *)
(* when the C arithmetic does what the documentation says              *)

(* the conditions under which the unsigned loop does not wrap modulo 2^32: all numbers below 2^31
   (what int holds), and first + amount*step below 2^32 *)
Definition range_ok (r : range) (w : Z) : Prop :=
  0 <= r_first r < 2147483648 /\ (r_step r = 1 \/ r_step r = 2) /\ w < 2147483648 /\
  (if r_wrap r then 0 <= r_amount r /\ r_step r = 1 /\ r_amount r < 2147483648
   else if r_amount r =? -1 then True
        else 0 <= r_amount r /\ r_first r + r_amount r * r_step r < UINT).

(* no-wrap: the visited indexes are first + k*step *)
Lemma visit_nowrap step : 1 <= step -> forall n w i, 0 <= i -> i + Z.of_nat n * step < UINT ->
  visit n w false step i = map (fun k => i + Z.of_nat k * step) (seq 0 n).
Proof.
  intros Hs. induction n as [|n IH]; intros w i Hi Hb; [reflexivity|].
  cbn [visit andb]. cbn [seq map]. f_equal; [lia|].
  rewrite IH.
  - rewrite <- seq_shift, map_map. apply map_ext. intros k. unfold u32. unfold UINT in *.
    rewrite Z.mod_small by nia. lia.
  - unfold u32. apply Z.mod_pos_bound. reflexivity.
  - unfold u32. unfold UINT in *. rewrite Z.mod_small by nia. nia.
Qed.

(* wrap-around (step 1): (start + k) mod w, where a start beyond the level restarts at 0 *)
Lemma visit_wrap : forall n w i, 0 < w -> w < 2147483648 -> 0 <= i < 2147483648 ->
  visit n w true 1 i = map (fun k => ((if i <? w then i else 0) + Z.of_nat k) mod w) (seq 0 n).
Proof.
  induction n as [|n IH]; intros w i Hw Hw2 Hi; [reflexivity|].
  cbn [visit andb seq map].
  destruct (Z.leb_spec w i) as [Hge|Hlt].
  - destruct (Z.ltb_spec i w); [lia|]. f_equal.
    + unfold u32, UINT. rewrite Z.mod_small by lia. change (0 + 1) with 1. rewrite IH by lia.
      rewrite <- seq_shift, map_map. apply map_ext. intros k.
      destruct (Z.ltb_spec 1 w).
      * f_equal; lia.
      * assert (w = 1) by lia. subst w. now rewrite !Z.mod_1_r.
  - destruct (Z.ltb_spec i w); [|lia]. replace (Z.of_nat 0) with 0 by reflexivity. rewrite Z.add_0_r, (Z.mod_small i w) by lia. f_equal.
    + unfold u32, UINT. rewrite Z.mod_small by lia. rewrite IH by lia.
      rewrite <- seq_shift, map_map. apply map_ext. intros k.
      destruct (Z.ltb_spec (i + 1) w).
      * f_equal; lia.
      * assert (i + 1 = w) by lia.
        replace (i + Z.of_nat (S k)) with (Z.of_nat k + 1 * w) by lia.
        rewrite Z.mod_add by lia. f_equal; lia.
Qed.

Lemma loop_count_ok r w : 0 <= w -> range_ok r w ->
  loop_count r w = if r_amount r =? -1 then (if r_first r <? w then (w - r_first r + r_step r - 1) / r_step r else 0)
                   else r_amount r.
Proof.
  intros Hw (Hf & Hs & Hw2 & H). unfold loop_count.
  destruct (r_wrap r).
  - destruct H as (Ha & _ & Ha2). destruct (Z.eqb_spec (r_amount r) (-1)); [lia|].
    unfold u32, UINT. apply Z.mod_small. lia.
  - destruct (Z.eqb_spec (r_amount r) (-1)).
    + unfold u32, UINT. rewrite (Z.mod_small (r_first r)) by lia.
      destruct (Z.ltb_spec (r_first r) w); [|reflexivity].
      rewrite (Z.mod_small (w - r_first r + r_step r - 1)) by lia.
      rewrite (Z.mod_small (r_step r)) by lia.
      apply Z.mod_small. split; [apply Z.div_pos; lia|].
      apply Z.div_lt_upper_bound; lia.
    + unfold u32, UINT in *. apply Z.mod_small. nia.
Qed.


Lemma existsb_map_eq {A} (g : A -> Z) (j : Z) l : existsb (Z.eqb j) (map g l) = existsb (fun x => j =? g x) l.
Proof. induction l as [|x l IH]; cbn [map existsb]; [reflexivity|now rewrite IH]. Qed.

(* position j exists and is visited by the loop  <->  the range designates it *)
Lemma visited_iff_sel r w j : 0 <= w -> range_ok r w -> 0 <= j < w ->
  existsb (Z.eqb j) (visit (Z.to_nat (loop_count r w)) w (r_wrap r) (r_step r) (u32 (r_first r))) = sel r w j.
Proof.
  intros Hw Hok Hj. pose proof Hok as (Hf & Hs & Hw2 & H).
  rewrite (loop_count_ok r w Hw Hok). unfold sel.
  destruct (r_wrap r) eqn:Ew.
  - destruct H as (Ha & Hs1 & Ha2). destruct (Z.eqb_spec (r_amount r) (-1)); [lia|].
    rewrite Hs1. unfold u32, UINT. rewrite (Z.mod_small (r_first r)) by lia.
    rewrite visit_wrap by lia. destruct (Z.ltb_spec 0 w); [|lia]. cbn [andb].
    apply existsb_map_eq.
  - assert (Hu : u32 (r_first r) = r_first r).
    { unfold u32, UINT. apply Z.mod_small. destruct (Z.eqb_spec (r_amount r) (-1)); unfold UINT in *; nia. }
    rewrite Hu.
    set (cnt := if r_amount r =? -1 then (if r_first r <? w then (w - r_first r + r_step r - 1) / r_step r else 0) else r_amount r).
    assert (Hc : 0 <= cnt /\ r_first r + cnt * r_step r < UINT).
    { unfold cnt, UINT in *. destruct (Z.eqb_spec (r_amount r) (-1)); destruct (Z.ltb_spec (r_first r) w); destruct Hs as [Hs|Hs]; rewrite Hs in *; lia. }
    rewrite visit_nowrap; [|lia|lia|rewrite Z2Nat.id; lia].
    rewrite existsb_map_eq.
    apply eq_iff_eq_true. rewrite existsb_exists. split.
    + intros [k [Hk Ek]]. apply in_seq in Hk. apply Z.eqb_eq in Ek.
      assert (Hkc : Z.of_nat k < cnt) by lia.
      unfold cnt in Hkc. destruct (Z.eqb_spec (r_amount r) (-1)); destruct (Z.ltb_spec (r_first r) w); destruct Hs as [Hs|Hs]; rewrite Hs in *; lia.
    + intros Hsel.
      exists (Z.to_nat ((j - r_first r) / r_step r)). rewrite in_seq.
      unfold cnt. destruct (Z.eqb_spec (r_amount r) (-1)); destruct (Z.ltb_spec (r_first r) w); destruct Hs as [Hs|Hs]; rewrite Hs in *; lia.
Qed.

Lemma visit_nonneg : forall n w wrap step i, 0 <= i -> Forall (fun j => 0 <= j) (visit n w wrap step i).
Proof.
  induction n as [|n IH]; intros w wrap step i Hi; cbn [visit]; constructor.
  - destruct (wrap && (w <=? i)); lia.
  - apply IH. unfold u32. apply Z.mod_pos_bound. reflexivity.
Qed.

Lemma in_indexed_from {A} (l : list A) : forall k p (o : A),
  In (p, o) (indexed_from k l) <-> k <= p /\ nth_error l (Z.to_nat (p - k)) = Some o.
Proof.
  induction l as [|x l IH]; intros k p o; cbn [indexed_from In].
  - split; [tauto|]. intros [_ H]. now destruct (Z.to_nat (p - k)).
  - rewrite IH. split.
    + intros [E|[Hk Hn]].
      * injection E as -> ->. split; [lia|]. now rewrite Z.sub_diag.
      * split; [lia|]. replace (Z.to_nat (p - k)) with (S (Z.to_nat (p - (k + 1)))) by lia. exact Hn.
    + intros [Hk Hn]. destruct (Z.eq_dec p k) as [->|Hne].
      * rewrite Z.sub_diag in Hn. cbn in Hn. left. congruence.
      * right. split; [lia|]. replace (Z.to_nat (p - k)) with (S (Z.to_nat (p - (k + 1)))) in Hn by lia. exact Hn.
Qed.

Lemma in_indexed {A} (l : list A) p (o : A) :
  In (p, o) (indexed l) <-> 0 <= p /\ nth_error l (Z.to_nat p) = Some o.
Proof. unfold indexed. rewrite in_indexed_from. now rewrite Z.sub_0_r. Qed.

(* the union over the visited indexes is the union over the designated positions *)
Lemma big_union_visit_sel r ins (F : cobj -> sets) :
  range_ok r (Z.of_nat (List.length ins)) ->
  big_union (at_index true ins F)
            (visit (Z.to_nat (loop_count r (Z.of_nat (List.length ins)))) (Z.of_nat (List.length ins)) (r_wrap r) (r_step r) (u32 (r_first r)))
  = big_union (fun io => if sel r (Z.of_nat (List.length ins)) (fst io) then F (snd io) else empty2) (indexed ins).
Proof.
  intros Hok. set (w := Z.of_nat (List.length ins)) in *. assert (Hw : 0 <= w) by lia.
  apply sets_ext. intros side i. rewrite !mem2_big_union.
  apply eq_iff_eq_true. rewrite !existsb_exists. split.
  - intros [j [Hj Hm]].
    assert (Hj0 : 0 <= j).
    { pose proof (visit_nonneg (Z.to_nat (loop_count r w)) w (r_wrap r) (r_step r) (u32 (r_first r))) as Hn.
      rewrite Forall_forall in Hn. apply Hn; [|exact Hj]. unfold u32. apply Z.mod_pos_bound. reflexivity. }
    unfold at_index, get_obj in Hm. destruct (nth_error ins (Z.to_nat j)) as [o|] eqn:En; [|now rewrite mem2_empty2 in Hm].
    assert (Hjw : j < w). { assert (Z.to_nat j < List.length ins)%nat by (apply nth_error_Some; congruence). lia. }
    exists (j, o). split; [apply in_indexed; split; [lia|exact En]|]. cbn [fst snd].
    rewrite <- (visited_iff_sel r w j Hw Hok) by lia.
    replace (existsb _ _) with true; [exact Hm|]. symmetry. apply existsb_exists. exists j. split; [exact Hj|apply Z.eqb_refl].
  - intros [[p o] [Hin Hm]]. cbn [fst snd] in Hm. apply in_indexed in Hin. destruct Hin as [Hp En].
    destruct (sel r w p) eqn:Es; [|now rewrite mem2_empty2 in Hm].
    assert (Hpw : p < w). { assert (Z.to_nat p < List.length ins)%nat by (apply nth_error_Some; congruence). lia. }
    rewrite <- (visited_iff_sel r w p Hw Hok) in Es by lia. apply existsb_exists in Es. destruct Es as [j [Hj Ej]].
    apply Z.eqb_eq in Ej. subst j. exists p. split; [exact Hj|]. unfold at_index, get_obj. now rewrite En.
Qed.

(* ------------------------------------------------------------------ *)
(* the evaluator computes the denotation                               *)
Section ChainDenotes.
  Variable LV : Type.
  Variable objs : LV -> list cobj.

  (* every range met while walking the chain is inside the domain where the C
     arithmetic is the documented one; no assert() on the way *)
  Fixpoint chain_ok (c : chain LV) (lv : LV) (rcs rns : bset) : Prop :=
    match c with
    | CEnd r => range_ok r (Z.of_nat (List.length (inside_objs rcs rns (objs lv))))
    | CNext r lv' rest =>
        range_ok r (Z.of_nat (List.length (inside_objs rcs rns (objs lv))))
        /\ forall o, In o (inside_objs rcs rns (objs lv)) -> chain_ok rest lv' (co_cs o) (co_nds o)
    | CFail => True
    | CAbort => False
    end.

  Lemma eval_chain_denotes : forall c lv rcs rns acc, chain_ok c lv rcs rns ->
    exists ok, eval_chain LV objs true None c lv rcs rns acc
               = EAcc ok (union2 acc (denote LV objs c lv rcs rns)).
  Proof.
    induction c as [r|r lv' rest IH| |]; intros lv rcs rns acc Hok; cbn [eval_chain denote chain_ok] in *.
    - unfold over_limit. exists true.
      rewrite (range_loop_sets true _ osets) by (intros; reflexivity).
      now rewrite big_union_visit_sel.
    - destruct Hok as [Hr Hrest]. unfold over_limit. exists true.
      rewrite (range_loop_optsets true _ (fun o => denote LV objs rest lv' (co_cs o) (co_nds o))).
      + now rewrite big_union_visit_sel.
      + intros o Ho a. destruct (IH lv' (co_cs o) (co_nds o) a (Hrest o Ho)) as [ok ->]. reflexivity.
    - exists false. now rewrite union2_empty_r.
    - contradiction.
  Qed.
End ChainDenotes.

(* physical indexes, explicit forms *)
Section ChainDenotesPhys.
  Variable LV : Type.
  Variable objs : LV -> list cobj.

  Definition explicit_range (r : range) : Prop := r_wrap r = false /\ r_amount r <> -1 /\ r_step r = 1.

  Fixpoint chain_ok_phys (c : chain LV) (lv : LV) (rcs rns : bset) : Prop :=
    match c with
    | CEnd r => explicit_range r /\ range_ok r (Z.of_nat (List.length (inside_objs rcs rns (objs lv))))
    | CNext r lv' rest =>
        explicit_range r /\ range_ok r (Z.of_nat (List.length (inside_objs rcs rns (objs lv))))
        /\ forall o, In o (inside_objs rcs rns (objs lv)) -> chain_ok_phys rest lv' (co_cs o) (co_nds o)
    | CFail => True
    | CAbort => False
    end.

  Lemma visit_explicit r w : 0 <= w -> explicit_range r -> range_ok r w ->
    visit (Z.to_nat (loop_count r w)) w (r_wrap r) (r_step r) (u32 (r_first r)) = interval r.
  Proof.
    intros Hw (Ew & Ea & Es) Hok. rewrite (loop_count_ok r w Hw Hok).
    destruct Hok as (Hf & _ & Hw2 & H). rewrite Ew in *. destruct (Z.eqb_spec (r_amount r) (-1)); [contradiction|].
    rewrite Es in *. unfold u32, UINT in *. rewrite (Z.mod_small (r_first r)) by lia.
    rewrite visit_nowrap; [|lia|lia|unfold UINT; rewrite Z2Nat.id; lia].
    unfold interval. apply map_ext. intros k. lia.
  Qed.

  Lemma eval_chain_denotes_phys : forall c lv rcs rns acc, chain_ok_phys c lv rcs rns ->
    exists ok, eval_chain LV objs false None c lv rcs rns acc
               = EAcc ok (union2 acc (denote_phys LV objs c lv rcs rns)).
  Proof.
    induction c as [r|r lv' rest IH| |]; intros lv rcs rns acc Hok; cbn [eval_chain denote_phys chain_ok_phys] in *.
    - destruct Hok as [He Hr]. unfold over_limit. exists true.
      rewrite (range_loop_sets false _ osets) by (intros; reflexivity).
      rewrite visit_explicit by (try lia; assumption). reflexivity.
    - destruct Hok as [He [Hr Hrest]]. unfold over_limit. exists true.
      rewrite (range_loop_optsets false _ (fun o => denote_phys LV objs rest lv' (co_cs o) (co_nds o))).
      + rewrite visit_explicit by (try lia; assumption). reflexivity.
      + intros o Ho a. destruct (IH lv' (co_cs o) (co_nds o) a (Hrest o Ho)) as [ok ->]. reflexivity.
    - exists false. now rewrite union2_empty_r.
    - contradiction.
  Qed.
End ChainDenotesPhys.

(* what the fixed code (01261ca) guarantees *)
Lemma loop_count_open_beyond r w : r_amount r = -1 -> 0 <= r_first r < 2147483648 -> w <= r_first r -> loop_count r w = 0.
Proof.
  intros Ha Hf Hw. unfold loop_count. rewrite Ha. cbn [Z.eqb]. unfold u32, UINT. rewrite Z.mod_small by lia.
  destruct (Z.ltb_spec (r_first r) w); [lia|reflexivity].
Qed.

(* numbers that fit in an int give ranges inside the domain of calc_denotes *)
Lemma mk_range_ok first amount wrap w : 0 <= w < 2147483648 -> 0 <= first < 2147483648 ->
  (amount = -1 /\ wrap = false) \/ (0 <= amount /\ first + amount < 2147483648) ->
  range_ok (mk_range first amount wrap) w.
Proof.
  intros Hw Hf Ha. unfold range_ok, mk_range. cbn [r_first r_amount r_step r_wrap].
  assert (Ef : i32 first = first). { unfold i32, UINT. rewrite Z.mod_small by lia. destruct (Z.ltb_spec first 2147483648); lia. }
  rewrite Ef. split; [lia|]. split; [now left|]. split; [lia|].
  destruct Ha as [[-> ->]|[Ha1 Ha2]].
  - change (i32 (-1)) with (-1). cbn. exact I.
  - assert (Ea : i32 amount = amount). { unfold i32, UINT. rewrite Z.mod_small by lia. destruct (Z.ltb_spec amount 2147483648); lia. }
    rewrite Ea. destruct wrap.
    + repeat split; lia.
    + destruct (Z.eqb_spec amount (-1)); [lia|]. unfold UINT. split; lia.
Qed.

(* ------------------------------------------------------------------ *)
(* a list of locations is the fold of the operators                    *)
(* the location evaluator of a state only looks at the input options *)
Definition input_opts (st : cstate) := (s_li st, s_ni st, s_cif st).
Lemma process_arg_d_opts d limit st st' a : input_opts st = input_opts st' ->
  process_arg_d d limit st a = process_arg_d d limit st' a.
Proof. unfold input_opts, process_arg_d. intros [= -> -> ->]. reflexivity. Qed.

Lemma main_loop_locations d limit st0 : forall args items st, input_opts st = input_opts st0 ->
  Forall2 (fun a it => is_dash (content a) = false
                       /\ process_arg_d d limit st0 a = Ok (fst it, LSets (snd it))) args items ->
  exists st', main_loop d limit st args = Ok (inl st')
              /\ s_sets st' = fold_left (fun acc it => apply_mode2 (fst it) acc (snd it)) items (s_sets st)
              /\ s_nloc st' = (s_nloc st + N.of_nat (List.length items))%N
              /\ input_opts st' = input_opts st0.
Proof.
  induction args as [|a args IH]; intros items st Ho H; inversion H as [|a' it args' items' [Hd Hp] Hrest]; subst.
  - exists st. cbn [main_loop fold_left Datatypes.length]. split; [reflexivity|]. split; [reflexivity|]. split; [cbn; lia|exact Ho].
  - cbn [main_loop]. unfold main_step, loc_step. rewrite Hd. rewrite (process_arg_d_opts d limit st st0 a Ho), Hp.
    cbn [bind]. destruct it as [m x]. cbn [fst snd].
    destruct (IH items' (set_sets st (apply_mode2 m (s_sets st) x) (N.succ (s_nloc st)))) as [st' [E [Hs [Hn Ho']]]];
      [exact Ho|exact Hrest|].
    exists st'. split; [exact E|]. cbn [fold_left Datatypes.length fst snd]. split; [exact Hs|]. split; [|exact Ho'].
    rewrite Hn. cbn [set_sets s_nloc Datatypes.length]. lia.
Qed.

(* ------------------------------------------------------------------ *)
(* --single                                                            *)
Lemma singlify_subset s : bs_subset (singlify s) s = true.
Proof.
  apply bs_subset_spec. intros i. unfold singlify. destruct (bs_first s) as [k|] eqn:E.
  - rewrite mem_single. intros Hi. apply N.eqb_eq in Hi. subst i. now apply bs_first_some in E.
  - now rewrite mem_empty.
Qed.
Lemma singlify_empty s : s = bs_empty <-> singlify s = bs_empty.
Proof.
  unfold singlify. split.
  - intros ->. reflexivity.
  - destruct (bs_first s) as [k|] eqn:E.
    + intros H. assert (Hm : mem k (bs_single k) = true) by (rewrite mem_single; apply N.eqb_refl).
      rewrite H, mem_empty in Hm. discriminate.
    + intros _. now apply bs_first_none.
Qed.
Lemma singlify_first s : s <> bs_empty ->
  exists k, bs_first s = Some k /\ singlify s = bs_single k /\ forall i, mem i (singlify s) = true <-> i = k.
Proof.
  intros Hne. unfold singlify. destruct (bs_first s) as [k|] eqn:E.
  - exists k. repeat split; intros; rewrite mem_single in *; [now apply N.eqb_eq|subst; apply N.eqb_refl].
  - apply bs_first_none in E. contradiction.
Qed.

(* ------------------------------------------------------------------ *)
(* -N counts what -I lists                                             *)
Lemma count_loop_acc lv cs ns : forall nb, count_loop lv cs ns nb = (nb + count_loop lv cs ns 0)%N.
Proof.
  induction lv as [|o lv IH]; intros nb; cbn [count_loop]; [lia|].
  destruct (covers cs ns o); [|apply IH]. rewrite (IH (N.succ nb)), (IH (N.succ 0)). lia.
Qed.
Lemma count_eq_length_intersect lv cs ns lo oo :
  count_loop lv cs ns 0 = N.of_nat (List.length (intersect_loop lv cs ns lo oo)).
Proof.
  induction lv as [|o lv IH]; cbn [count_loop intersect_loop]; [reflexivity|].
  destruct (covers cs ns o); [|exact IH]. rewrite count_loop_acc, IH. cbn [Datatypes.length]. lia.
Qed.

(* ------------------------------------------------------------------ *)
(* --largest: the objects printed partition the set, hence naming them again gives the set back *)
Lemma largest_loop_union root : forall fuel remaining l,
  largest_loop fuel root remaining = (l, true) ->
  (forall set o, get_first_largest_obj_inside_cpuset root set = Some o -> bs_subset (cs o) set = true) ->
  fold_right (fun o acc => bs_union (dcs o) acc) bs_empty l = remaining.
Proof.
  induction fuel as [|f IH]; intros remaining l H Hinc; cbn [largest_loop] in H; [discriminate|].
  destruct (bs_is_empty remaining) eqn:Ee.
  - injection H as <-. cbn. symmetry. now apply bs_is_empty_spec.
  - destruct (get_first_largest_obj_inside_cpuset root remaining) as [o|] eqn:Eo; [|discriminate].
    destruct (largest_loop f root (bs_diff remaining (cs o))) as [l' ok] eqn:El.
    injection H as <- ->. cbn [fold_right]. rewrite (IH _ _ El Hinc).
    apply bs_ext. intros i. rewrite mem_union, mem_diff.
    pose proof (Hinc _ _ Eo) as Hs. rewrite bs_subset_spec in Hs. specialize (Hs i).
    unfold cs in *. destruct (mem i (dcs (odata o))) eqn:Em; destruct (mem i remaining) eqn:Er; cbn; try reflexivity.
    specialize (Hs eq_refl). congruence.
Qed.

Lemma nul_terminated_cstr_0_colon_m1 : nul_terminated (cstr "0:-1").
Proof.
  exists 4%N. change (cstr "0:-1") with ([48; 58; 45; 49] ++ 0 :: [])%N.
  apply (cstring_app [48; 58; 45; 49]%N []). repeat constructor; discriminate.
Qed.

(* ------------------------------------------------------------------ *)
(* the calc-specific parsers never read outside a NUL-terminated argument *)
Local Open Scope N_scope.

Lemma cstring_rdr s n j : cstring s n -> j <= n -> exists b, rdr s j = Ok b /\ (j < n -> b <> 0) /\ (j = n -> b = 0).
Proof.
  intros [H0 Hk] Hj. unfold rdr. destruct (N.eq_dec j n) as [->|Hne].
  - rewrite H0. exists 0. split; [reflexivity|]. split; [lia|reflexivity].
  - destruct (Hk j) as [b [Hb Nz]]; [lia|]. rewrite Hb. exists b. split; [reflexivity|]. split; [auto|lia].
Qed.

Lemma cstring_len s n : cstring s n -> n < len s.
Proof. intros [H0 _]. now apply rd_some_lt in H0. Qed.

Lemma parse_level_size_total s n p : cstring s n -> p <= n ->
  exists l, parse_level_size s p = Ok l /\ p + l <= n.
Proof.
  intros Hs Hp. unfold parse_level_size, strcspn.
  destruct (scan_while_ok (fun b => negb (b =? 0) && negb (mem_byte b [C_COLON; C_EQ; C_DOT; C_LBR])) s n p Hs Hp eq_refl)
    as [j [Hj Hr]].
  rewrite Hj. cbn [bind]. replace (p + (j - p)) with j by lia.
  destruct (cstring_rdr s n j Hs) as [c [Hc _]]; [lia|]. rewrite Hc. cbn [bind].
  destruct (negb (c =? C_LBR)).
  - exists (j - p). split; [reflexivity|lia].
  - destruct (strchr_ok s n j C_RBR Hs) as [r [Hr2 Hspec]]; [lia|]. rewrite Hr2. cbn [bind].
    destruct r as [k|].
    + exists (k + 1 - p). split; [reflexivity|]. destruct Hspec as [Hk [Hrd _]].
      assert (k <> n). { intros ->. destruct Hs as [H0 _]. rewrite H0 in Hrd. discriminate. }
      lia.
    + exists 0. split; [reflexivity|lia].
Qed.

(* the copy "memcpy(string, s+p, l); string[l] = 0" of a piece of a C string is a C string of length l *)
Lemma nth_error_firstn_lt {A} (l : list A) : forall k m, (m < k)%nat -> nth_error (firstn k l) m = nth_error l m.
Proof.
  induction l as [|x l IH]; intros k m H.
  - now rewrite firstn_nil.
  - destruct k; [lia|]. destruct m; [reflexivity|]. cbn. apply IH. lia.
Qed.

Lemma copy_cstring s n p l : cstring s n -> p + l <= n -> cstring (sub s p (p + l) ++ [0]) l.
Proof.
  intros Hs Hl. pose proof (cstring_len s n Hs) as Hlen.
  assert (Hlen2 : len (sub s p (p + l)) = l).
  { unfold sub, len in *. rewrite firstn_length, skipn_length. lia. }
  rewrite <- Hlen2 at 2. apply cstring_app. unfold no_nul. rewrite Forall_forall. intros b Hb.
  destruct (In_nth_error _ _ Hb) as [m Hm].
  assert (Hml : (m < N.to_nat l)%nat).
  { assert (m < List.length (sub s p (p + l)))%nat by (apply nth_error_Some; congruence). unfold len in Hlen2. lia. }
  unfold sub in Hm. replace (N.to_nat (p + l - p)) with (N.to_nat l) in Hm by lia.
  rewrite nth_error_firstn_lt in Hm by exact Hml.
  assert (Hrd : rd (skipn (N.to_nat p) s) (N.of_nat m) = Some b) by (unfold rd; now rewrite Nat2N.id).
  rewrite rd_skipn in Hrd. destruct Hs as [_ Hk]. destruct (Hk (p + N.of_nat m)) as [b' [Hb' Nz]]; [lia|]. congruence.
Qed.

Lemma has_prefix_total lit s n : no_nul (bytes_of_string lit) -> cstring s n -> exists b, has_prefix lit s 0 = Ok b.
Proof.
  intros Hl Hs. rewrite has_prefix_spec by exact Hl.
  pose proof (prefix_l_ok (bytes_of_string lit) s n 0 Hl Hs) as H.
  destruct (prefix_l (bytes_of_string lit) (skipn (N.to_nat 0) s)) as [b|]; [eauto|]. exfalso. apply H; [lia|reflexivity].
Qed.

Lemma parse_range_total s n p : cstring s n -> p <= n ->
  exists r, parse_range s p = Ok r /\ match snd r with Some d => p <= d < n | None => True end.
Proof.
  intros Hs Hp. unfold parse_range.
  destruct (strchr_ok s n p C_DOT Hs Hp) as [dot [Hdot Hspec]]. rewrite Hdot. cbn [bind].
  assert (Hd : match dot with Some d => p <= d < n | None => True end).
  { destruct dot as [d|]; [|exact I]. destruct Hspec as [Hk [Hrd _]].
    assert (d <> n). { intros ->. destruct Hs as [H0 _]. rewrite H0 in Hrd. discriminate. } lia. }
  assert (Hl : exists l, (match dot with Some d => Ok (d - p) | None => strlen_at s p end) = Ok l /\ p + l <= n).
  { destruct dot as [d|].
    - exists (d - p). split; [reflexivity|lia].
    - rewrite (strlen_at_ok s n p Hs Hp). exists (n - p). split; [reflexivity|lia]. }
  destruct Hl as [l [-> Hln]]. cbn [bind].
  destruct (65 <=? l); [eexists; split; [reflexivity|exact Hd]|].
  rewrite rdn_ok by (pose proof (cstring_len s n Hs); lia). cbn [bind].
  pose proof (copy_cstring s n p l Hs Hln) as Hc. set (str := sub s p (p + l) ++ [0]) in *.
  destruct (cstring_rdr str l 0 Hc) as [c0 [Hc0 _]]; [lia|]. rewrite Hc0. cbn [bind].
  destruct (negb (isdigit c0)).
  - destruct (has_prefix_total "all" str l) as [a Ha]; [repeat constructor; discriminate|exact Hc|]. rewrite Ha. cbn [bind].
    destruct a; [eexists; split; [reflexivity|exact Hd]|].
    destruct (has_prefix_total "odd" str l) as [o Ho]; [repeat constructor; discriminate|exact Hc|]. rewrite Ho. cbn [bind].
    destruct o; [eexists; split; [reflexivity|exact Hd]|].
    destruct (has_prefix_total "even" str l) as [e He]; [repeat constructor; discriminate|exact Hc|]. rewrite He. cbn [bind].
    destruct e; eexists; (split; [reflexivity|exact Hd]).
  - destruct (strtol_ok str l 0 10 Hc) as [first [e [He Hel]]]; [lia|]. rewrite He. cbn [bind].
    destruct (cstring_rdr str l e Hc) as [ce [Hce [Hnz Hz]]]; [lia|]. rewrite Hce. cbn [bind].
    destruct (N.eqb_spec ce C_MINUS) as [Em|_].
    + assert (e < l). { destruct (N.eq_dec e l) as [->|]; [|lia]. specialize (Hz eq_refl). subst ce. discriminate. }
      destruct (strtol_ok str l (e + 1) 10 Hc) as [last [e2 [He2 Hel2]]]; [lia|]. rewrite He2. cbn [bind].
      destruct (cstring_rdr str l e2 Hc) as [c2 [Hc2 _]]; [lia|]. rewrite Hc2. cbn [bind].
      destruct (negb (c2 =? 0)); [eexists; split; [reflexivity|exact Hd]|].
      destruct (e2 =? e + 1); [|destruct (last <? first)%Z; [|destruct (LONG_MAXZ <? last - first + 1)%Z]]; eexists; (split; [reflexivity|exact Hd]).
    + destruct (N.eqb_spec ce C_COLON) as [Ec|_].
      * assert (e < l). { destruct (N.eq_dec e l) as [->|]; [|lia]. specialize (Hz eq_refl). subst ce. discriminate. }
        destruct (strtol_ok str l (e + 1) 10 Hc) as [am [e2 [He2 Hel2]]]; [lia|]. rewrite He2. cbn [bind].
        destruct (cstring_rdr str l e2 Hc) as [c2 [Hc2 _]]; [lia|]. rewrite Hc2. cbn [bind].
        destruct (negb (c2 =? 0)); [eexists; split; [reflexivity|exact Hd]|].
        destruct (e2 =? e + 1); [|destruct (am <? 0)%Z]; eexists; (split; [reflexivity|exact Hd]).
      * destruct (negb (ce =? 0)); eexists; (split; [reflexivity|exact Hd]).
Qed.

(* the whole chain, for any level resolver that itself stays inside the copied type string *)
Lemma parse_chain_total (LV : Type) (resolve : list N -> res (option (lvl LV))) s n :
  cstring s n -> (forall t, nul_terminated t -> resolve t <> Oob) ->
  forall fuel p, p <= n -> (N.to_nat (n - p) < fuel)%nat -> parse_chain LV resolve fuel s p <> Oob.
Proof.
  intros Hs Hres. induction fuel as [|f IH]; intros p Hp Hf; [lia|].
  cbn [parse_chain].
  destruct (parse_range_total s n p Hs Hp) as [[r dot] [-> Hd]]. cbn [bind snd] in *.
  destruct r as [r|]; [|discriminate].
  destruct ((r_amount r =? -1)%Z && r_wrap r); [discriminate|].
  destruct dot as [d|]; [|discriminate].
  destruct (parse_level_size_total s n (d + 1) Hs) as [tl [-> Htl]]; [lia|]. cbn [bind].
  destruct (cstring_rdr s n (d + 1 + tl) Hs) as [sc [-> [Hnz Hz]]]; [lia|]. cbn [bind].
  destruct (N.eqb_spec tl 0) as [->|Hne]; [discriminate|]. cbn [orb].
  destruct (N.eqb_spec sc C_COLON) as [Esc|_]; [|discriminate]. cbn [negb].
  assert (Hlt : d + 1 + tl < n).
  { destruct (N.eq_dec (d + 1 + tl) n) as [E|]; [|lia]. specialize (Hz E). subst sc. discriminate. }
  unfold parse_level. destruct (21 <=? tl); [discriminate|].
  rewrite rdn_ok by (pose proof (cstring_len s n Hs); lia). cbn [bind].
  pose proof (Hres (sub s (d + 1) (d + 1 + tl) ++ [0])) as Hr.
  destruct (resolve (sub s (d + 1) (d + 1 + tl) ++ [0])) as [lv|] eqn:E.
  - cbn [bind]. destruct lv as [[l| |]|]; try discriminate.
    specialize (IH (d + 1 + tl + 1)).
    destruct (parse_chain LV resolve f s (d + 1 + tl + 1)) as [rest|].
    + cbn [bind]. destruct rest; discriminate.
    + exfalso. apply IH; [lia|lia|reflexivity].
  - exfalso. apply Hr; [|reflexivity]. exists tl. apply (copy_cstring s n); [exact Hs|lia].
Qed.

Lemma calc_parsers_total (LV : Type) (resolve : list N -> res (option (lvl LV))) s n :
  cstring s n -> (forall t, nul_terminated t -> resolve t <> Oob) ->
  forall p, p <= n ->
    (exists l, parse_level_size s p = Ok l /\ p + l <= n)
    /\ (exists r, parse_range s p = Ok r)
    /\ parse_chain LV resolve (S (List.length s)) s p <> Oob.
Proof.
  intros Hs Hres p Hp. split; [exact (parse_level_size_total s n p Hs Hp)|]. split.
  - destruct (parse_range_total s n p Hs Hp) as [r [Hr _]]. now exists r.
  - apply (parse_chain_total LV resolve s n Hs Hres); [exact Hp|].
    pose proof (cstring_len s n Hs) as H. unfold len in H. lia.
Qed.

Lemma nul_terminated_cstr_trunc : nul_terminated (cstr "0:4294967295").
Proof.
  exists 12%N. change (cstr "0:4294967295") with ([48; 58; 52; 50; 57; 52; 57; 54; 55; 50; 57; 53] ++ 0 :: [])%N.
  apply (cstring_app [48; 58; 52; 50; 57; 52; 57; 54; 55; 50; 57; 53]%N []). repeat constructor; discriminate.
Qed.

(* ------------------------------------------------------------------ *)
(* after fix 99dfc63: every range the parser accepts fits in an int    *)
Lemma strto_core_digit_pos s c0 r : rdr s 0 = Ok c0 -> isdigit c0 = true -> strto_core s 0 10 = Ok r -> sr_neg r = false.
Proof.
  intros H0 Hd. destruct s as [|b t]; [discriminate|]. change (rdr (b :: t) 0) with (@Ok N b) in H0. injection H0 as ->.
  assert (Hsp : isspace c0 = false) by (unfold isdigit, isspace in *; lia).
  assert (Hm : (c0 =? 45) = false) by (unfold isdigit in *; lia).
  assert (Hp : (c0 =? 43) = false) by (unfold isdigit in *; lia).
  unfold strto_core, scan_while. cbn [N.to_nat skipn scan_l]. rewrite Hsp. cbn [bind].
  change (rdr (c0 :: t) 0) with (@Ok N c0). cbn [bind]. rewrite Hm, Hp. cbn [orb].
  change (rdr (c0 :: t) 0) with (@Ok N c0). cbn [bind].
  repeat (match goal with
          | |- context [bind ?x _] => destruct x; cbn [bind]; try discriminate
          | |- context [if ?x then _ else _] => destruct x; cbn [bind]; try discriminate
          | |- context [match ?p with pair _ _ => _ end] => destruct p
          end); intros [= <-]; reflexivity.
Qed.

Lemma strtol_digit_nonneg str c0 v e : rdr str 0 = Ok c0 -> isdigit c0 = true -> strtol str 0 10 = Ok (v, e) -> (0 <= v)%Z.
Proof.
  intros H0 Hd. unfold strtol. destruct (strto_core str 0 10) as [r|] eqn:E; [|discriminate]. cbn [bind].
  rewrite (strto_core_digit_pos _ _ _ H0 Hd E). intros [= <- _]. destruct (LONG_MAX <? sr_mag r); lia.
Qed.

(* a range as the documentation describes it: nothing negative, nothing an int cannot hold *)
Definition range_wf (r : range) : Prop :=
  (0 <= r_first r <= INT_MAX)%Z /\ (r_step r = 1 \/ r_step r = 2)%Z /\ (r_step r = 1 \/ r_amount r = -1)%Z /\
  ((r_amount r = -1 /\ r_wrap r = false)%Z \/ (0 <= r_amount r <= INT_MAX)%Z).

Lemma store_range_wf first amount wrap r : (0 <= first)%Z -> ((amount = -1)%Z /\ wrap = false \/ (0 <= amount)%Z) ->
  store_range first amount wrap = Some r -> range_wf r.
Proof.
  intros Hf Ha. unfold store_range, INT_MAX.
  destruct (Z.ltb_spec 2147483647 first); [discriminate|]. destruct (Z.ltb_spec 2147483647 amount); [discriminate|].
  cbn [orb]. intros [= <-]. unfold range_wf, mk_range, INT_MAX. cbn [r_first r_amount r_step r_wrap].
  assert (Ef : i32 first = first). { unfold i32, UINT. rewrite Z.mod_small by lia. destruct (Z.ltb_spec first 2147483648); lia. }
  rewrite Ef. split; [lia|]. split; [now left|]. split; [now left|].
  destruct Ha as [[-> ->]|Ha]; [left; split; reflexivity|].
  right. unfold i32, UINT. rewrite Z.mod_small by lia. destruct (Z.ltb_spec amount 2147483648); lia.
Qed.

Lemma kw_wf first step : (first = 0 \/ first = 1)%Z -> (step = 1 \/ step = 2)%Z -> range_wf (RG first (-1) step false).
Proof.
  intros Hf Hs. unfold range_wf, INT_MAX. cbn [r_first r_amount r_step r_wrap].
  split; [lia|]. split; [exact Hs|]. split; [now right|]. left. split; reflexivity.
Qed.

Lemma parse_range_wf s p r dot : parse_range s p = Ok (Some r, dot) -> r = ub_marker \/ range_wf r.
Proof.
  unfold parse_range.
  repeat (match goal with
          | |- context [bind ?x _] => destruct x eqn:?; cbn [bind]; try discriminate
          | |- context [match ?p with pair _ _ => _ end] => destruct p eqn:?
          | |- context [match ?o with Some _ => _ | None => _ end] => destruct o eqn:?; cbn [bind]; try discriminate
          | |- context [if ?x then _ else _] => destruct x eqn:?; cbn [bind]; try discriminate
          end);
  intros [= E1 E2]; subst;
  try (right; apply kw_wf; lia);
  try (left; reflexivity);
  right;
  match goal with
  | H1 : rdr ?str 0 = Ok ?c, H2 : strtol ?str 0 10 = Ok (?v, ?e), H3 : negb (isdigit ?c) = false |- _ =>
      assert (Hv : (0 <= v)%Z) by (apply (strtol_digit_nonneg str c v e H1); [destruct (isdigit c); [reflexivity|cbn in H3; discriminate H3]|exact H2])
  end;
  (eapply store_range_wf; [exact Hv| |eassumption]); first [left; split; reflexivity | right; lia].
Qed.

(* ... and lies in the domain of calc_denotes for every level an int can count *)
Lemma range_wf_ok r w : range_wf r -> (0 <= w < 2147483648)%Z -> range_ok r w.
Proof.
  unfold range_wf, range_ok, INT_MAX, UINT. intros (Hf & Hs & Hws & Ha) Hw.
  split; [lia|]. split; [exact Hs|]. split; [lia|].
  destruct (r_wrap r) eqn:Ew.
  - destruct Ha as [[_ Hx]|Ha]; [discriminate|]. lia.
  - destruct (Z.eqb_spec (r_amount r) (-1)); [exact I|]. destruct Ha as [[Hx _]|Ha]; [contradiction|]. lia.
Qed.

(* ------------------------------------------------------------------ *)
(* lstopo --of synthetic prints exactly the library export, whatever its length *)
Lemma content_app0 l : Forall (fun b => b <> 0) l -> content (l ++ [0]) = l.
Proof.
  induction 1 as [|b l Hb _ IH]; [reflexivity|]. cbn [app content].
  destruct (N.eqb_spec b 0); [contradiction|]. now rewrite IH.
Qed.
Lemma Forall_firstn_ {A} (P : A -> Prop) k : forall l, Forall P l -> Forall P (firstn k l).
Proof.
  induction k as [|k IH]; intros l H; [constructor|]. destruct l as [|x l]; [constructor|].
  inversion H; subst. cbn [firstn]. constructor; auto.
Qed.

Lemma output_synthetic_is_export t : Forall (fun b => b <> 0) t -> output_synthetic t = t ++ NL.
Proof.
  intros Ht. unfold output_synthetic, output_synthetic_gen, export_into, SBUFFER. cbn [fst snd].
  destruct (Nat.leb_spec 1024 (List.length t)) as [Hge|Hlt]; f_equal.
  - rewrite firstn_all. now apply content_app0.
  - rewrite firstn_all2 by lia. now apply content_app0.
Qed.

(* the variant that passes buflen = length to the second call (seeded change C20b) loses the last
   character of every export of 1024 characters or more *)
Lemma output_synthetic_short_second_call t : Forall (fun b => b <> 0) t -> (1024 <= List.length t)%nat ->
  output_synthetic_gen (fun l => l) t = removelast t ++ NL.
Proof.
  intros Ht Hl. unfold output_synthetic_gen, export_into, SBUFFER. cbn [fst snd].
  destruct (Nat.leb_spec 1024 (List.length t)) as [_|Hlt]; [|lia]. f_equal.
  destruct (List.length t) as [|k] eqn:E; [lia|].
  rewrite removelast_firstn_len, E. cbn [pred]. apply content_app0. now apply Forall_firstn_.
Qed.

(* ------------------------------------------------------------------ *)
(* stdin mode: every line is evaluated from zeroed sets, whatever the earlier lines were *)
Section Stdin.
  Variable d : dump.
  Variable limit : option Z.

  Lemma loc_step_inv st t st' k : loc_step d limit st t = Ok (Continue st' k) ->
    k = 0%nat /\ zero_sets st' = zero_sets st.
  Proof.
    unfold loc_step. destruct (process_arg_d d limit st t) as [[m r]|]; [|discriminate]. cbn [bind].
    destruct r; try discriminate; intros [= <- <-]; split; reflexivity.
  Qed.

  Lemma line_fold_zero : forall toks st st', line_fold d limit st toks = Ok (inl st') -> zero_sets st' = zero_sets st.
  Proof.
    induction toks as [|t tl IH]; intros st st' H; cbn [line_fold] in H.
    - now injection H as <-.
    - destruct (loc_step d limit st t) as [[st1 k|o]|] eqn:E; cbn [bind] in H; try discriminate.
      apply loc_step_inv in E. destruct E as [_ E]. rewrite <- E. now apply IH.
  Qed.

  Definition not_exit (o : outcome) : Prop := match o with Exit _ _ => False | _ => True end.
  Lemma loc_step_stop st t o : loc_step d limit st t = Ok (Stop o) -> not_exit o.
  Proof.
    unfold loc_step. destruct (process_arg_d d limit st t) as [[m r]|]; [|discriminate]. cbn [bind].
    destruct r; try discriminate; intros [= <-]; exact I.
  Qed.
  Lemma line_fold_stop : forall toks st o, line_fold d limit st toks = Ok (inr o) -> not_exit o.
  Proof.
    induction toks as [|t tl IH]; intros st o H; cbn [line_fold] in H; [discriminate|].
    destruct (loc_step d limit st t) as [[st1 k|o1]|] eqn:E; cbn [bind] in H; try discriminate.
    - now apply IH in H.
    - injection H as <-. now apply loc_step_stop in E.
  Qed.

  Definition line_out (z : cstate) nlv ilv hlv (toks : list (list N)) : res outcome :=
    let* r := line_fold d limit z toks in
    match r with inr o => Ok o | inl st' => Ok (calc_output d st' nlv ilv hlv) end.

  (* stdout of a sequence of independent runs: concatenation, stopping at the first abnormal outcome *)
  Fixpoint seq_out (outs : list (res outcome)) : res outcome :=
    match outs with
    | [] => Ok (Exit 0 [])
    | o :: rest =>
      let* x := o in
      match x with
      | Exit _ txt => let* y := seq_out rest in
                      match y with Exit rc t2 => Ok (Exit rc (txt ++ t2)) | y' => Ok y' end
      | x' => Ok x'
      end
    end.

  Lemma stdin_loop_stateless nlv ilv hlv : forall lines st,
    stdin_loop d limit st lines nlv ilv hlv = seq_out (map (line_out (zero_sets st) nlv ilv hlv) lines).
  Proof.
    induction lines as [|toks rest IH]; intros st; [reflexivity|].
    unfold stdin_loop in *. cbn [stdin_loop_gen map seq_out]. unfold line_out at 1.
    change (zero_sets_gen true st) with (zero_sets st).
    destruct (line_fold d limit (zero_sets st) toks) as [[st'|o]|] eqn:E; cbn [bind]; [| |reflexivity].
    2: { apply line_fold_stop in E. destruct o; [contradiction|reflexivity..]. }
    destruct (calc_output d st' nlv ilv hlv); try reflexivity.
    rewrite IH. apply line_fold_zero in E. rewrite E. reflexivity.
  Qed.

  (* a line whose tokens are not options gives what the same tokens give on the command line *)
  Lemma line_fold_eq_main_loop : forall toks st,
    Forall (fun t => is_dash (content t) = false) toks -> main_loop d limit st toks = line_fold d limit st toks.
  Proof.
    induction toks as [|t tl IH]; intros st H; [reflexivity|]. inversion H as [|t' tl' Ht Htl]; subst.
    cbn [main_loop line_fold]. unfold main_step. rewrite Ht.
    destruct (loc_step d limit st t) as [[st1 k|o]|] eqn:E; cbn [bind]; try reflexivity.
    destruct (loc_step_inv _ _ _ _ E) as [-> _]. now apply IH.
  Qed.
End Stdin.
