(* Safety of the nolibxml tokenizer model: no entry point reads or writes
   outside the block, whatever bytes the block holds, provided its last byte
   is NUL (what backend_init guarantees) and the cursors of the state are
   inside the block.  Fuel exhaustion is an [Oob] in the model, so "not Oob"
   also says that every inner loop ends within (length of the block + 1)
   iterations: that is the bounded-time claim for one call. *)
From Coq Require Import String Ascii NArith ZArith List Bool Lia.
From HV Require Import Base.Bytes Base.Strto Text.XmlLex.
Import ListNotations.
Local Open Scope N_scope.

(* ---------- blocks with a NUL at index n ---------- *)
Definition nulat (s : list N) (n : N) : Prop := rd s n = Some 0.
(* the whole block: n is its last index *)
Definition wfb (s : list N) (n : N) : Prop := len s = n + 1 /\ nulat s n.

Lemma nulat_lt s n : nulat s n -> n < len s.
Proof. intros H. eapply rd_some_lt; exact H. Qed.

Lemma rd_le_some s n i : nulat s n -> i <= n -> exists b, rd s i = Some b.
Proof. intros H Hi. apply rd_lt_some. apply nulat_lt in H. lia. Qed.

(* ---------- stores ---------- *)
Lemma len_upd s i b : i < len s -> len (upd s i b) = len s.
Proof.
  unfold upd, len. intros H. rewrite app_length. cbn [length]. rewrite firstn_length, skipn_length. lia.
Qed.

Lemma rd_upd_same s i b : i < len s -> rd (upd s i b) i = Some b.
Proof.
  unfold upd, rd, len. intros H. rewrite nth_error_app2; rewrite firstn_length; [|lia].
  replace (N.to_nat i - Nat.min (N.to_nat i) (length s))%nat with 0%nat by lia. reflexivity.
Qed.

Lemma nth_upd_other (k : nat) : forall (s : list N) b (j : nat), j <> k ->
  nth_error (firstn k s ++ b :: skipn (S k) s) j = nth_error s j \/ (length s <= k)%nat.
Proof.
  induction k as [|k IH]; intros s b j Hj.
  - destruct s as [|a s]; [right; cbn; lia|]. left. destruct j as [|j]; [lia|]. reflexivity.
  - destruct s as [|a s]; [right; cbn; lia|].
    destruct j as [|j]; [left; reflexivity|].
    destruct (IH s b j) as [E|E]; [lia|left; cbn [firstn app nth_error]; exact E|right; cbn [length]; lia].
Qed.

Lemma rd_upd_other s i b j : i < len s -> j <> i -> rd (upd s i b) j = rd s j.
Proof.
  unfold upd, rd, len. intros H Hj.
  destruct (nth_upd_other (N.to_nat i) s b (N.to_nat j)) as [E|E]; [lia|exact E|lia].
Qed.

Lemma wr_ok s n i b : nulat s n -> i <= n -> (i = n -> b = 0) ->
  exists s', wr s i b = Ok s' /\ len s' = len s /\ nulat s' n /\
             rd s' i = Some b /\ (forall j, j <> i -> rd s' j = rd s j).
Proof.
  intros Hn Hi Hb. pose proof (nulat_lt _ _ Hn) as Hl. unfold wr.
  destruct (N.ltb_spec i (len s)) as [Hlt|]; [|lia].
  exists (upd s i b). split; [reflexivity|]. split; [apply len_upd; exact Hlt|]. split.
  - unfold nulat. destruct (N.eq_dec n i) as [->|Hne].
    + rewrite rd_upd_same by exact Hlt. now rewrite Hb.
    + rewrite rd_upd_other by assumption. exact Hn.
  - split; [apply rd_upd_same; exact Hlt|]. intros j Hj. apply rd_upd_other; assumption.
Qed.

Lemma wfb_wr s n i b s' : wfb s n -> wr s i b = Ok s' -> i <= n -> (i = n -> b = 0) -> wfb s' n.
Proof.
  intros [Hl Hn] Hw Hi Hb. destruct (wr_ok s n i b Hn Hi Hb) as [s2 [E [L [N2 _]]]].
  rewrite Hw in E. injection E as <-. split; [lia|exact N2].
Qed.

(* ---------- scans never pass a NUL ---------- *)
Lemma scan_ok p s n i : nulat s n -> i <= n -> p 0 = false ->
  exists j, scan_while p s i = Ok j /\ i <= j <= n /\
            (exists b, rd s j = Some b /\ p b = false) /\
            (forall m, i <= m < j -> exists b, rd s m = Some b /\ p b = true).
Proof.
  intros Hn Hi P0.
  remember (N.to_nat (n - i)) as d eqn:Ed. revert i Hi Ed.
  induction d as [|d IH]; intros i Hi Ed.
  - assert (i = n) by lia. subst i. exists n.
    assert (E : scan_while p s n = Ok n).
    { apply scan_while_spec. split; [lia|]. split; [exists 0; now split|]. intros m Hm; lia. }
    split; [exact E|]. split; [lia|]. split; [exists 0; now split|]. intros m Hm; lia.
  - destruct (rd_le_some s n i Hn Hi) as [b Hb].
    destruct (p b) eqn:Pb.
    + destruct (IH (N.succ i)) as [j [Hj [Hr [Hex Hm]]]]; [lia|lia|].
      exists j. apply scan_while_spec in Hj. destruct Hj as [Hij [Hex' Hm']].
      assert (Hall : forall m, i <= m < j -> exists b0, rd s m = Some b0 /\ p b0 = true).
      { intros m Hlt. destruct (N.eq_dec m i) as [->|Hne]; [eauto|]. apply Hm'. lia. }
      split; [apply scan_while_spec; split; [lia|]; split; [exact Hex'|exact Hall]|].
      split; [lia|]. split; [exact Hex|exact Hall].
    + exists i. assert (E : scan_while p s i = Ok i).
      { apply scan_while_spec. split; [lia|]. split; [eauto|]. intros m Hm; lia. }
      split; [exact E|]. split; [lia|]. split; [eauto|]. intros m Hm; lia.
Qed.

Lemma strspn_ok s n i set : nulat s n -> i <= n ->
  exists k, strspn s i set = Ok k /\ i + k <= n.
Proof.
  intros Hn Hi. unfold strspn.
  destruct (scan_ok (fun b => negb (b =? 0) && mem_byte b set) s n i Hn Hi eq_refl) as [j [E [Hr _]]].
  rewrite E. cbn [bind]. eexists. split; [reflexivity|lia].
Qed.

Lemma ignore_spaces_ok s n i : nulat s n -> i <= n ->
  exists j, ignore_spaces s i = Ok j /\ i <= j <= n.
Proof.
  intros Hn Hi. unfold ignore_spaces. destruct (strspn_ok s n i SPACES Hn Hi) as [k [E Hk]].
  rewrite E. cbn [bind]. eexists. split; [reflexivity|lia].
Qed.

(* strchr: found index is inside [i, n]; for c <> 0 it is before n *)
Lemma strchr_ok2 s n i c : nulat s n -> i <= n ->
  exists r, strchr s i c = Ok r /\
    match r with Some j => i <= j <= n /\ rd s j = Some c | None => True end.
Proof.
  intros Hn Hi. unfold strchr.
  destruct (scan_ok (fun b => negb (b =? c) && negb (b =? 0)) s n i Hn Hi) as [j [E [Hr [[b [Hb Pb]] _]]]].
  { cbn. now rewrite andb_false_r. }
  rewrite E. cbn [bind]. unfold rdr. rewrite Hb. cbn [bind]. eexists. split; [reflexivity|].
  destruct (N.eqb_spec b c) as [->|]; [split; [lia|exact Hb]|exact I].
Qed.

Lemma nulat_ne s n j c : nulat s n -> rd s j = Some c -> c <> 0 -> j <> n.
Proof. unfold nulat. intros Hn Hj Hc ->. congruence. Qed.

(* ---------- prefix tests ---------- *)
Lemma skipn_cons_rd s i : i < len s ->
  exists y, rd s i = Some y /\ skipn (N.to_nat i) s = y :: skipn (N.to_nat (N.succ i)) s.
Proof.
  intros H. destruct (rd_lt_some s i H) as [y Hy]. exists y. split; [exact Hy|].
  rewrite N2Nat.inj_succ. unfold rd in Hy. clear H. revert s Hy. generalize (N.to_nat i) as k.
  induction k as [|k IH]; intros s Hy.
  - destruct s as [|b s]; [discriminate|]. cbn in Hy. injection Hy as ->. reflexivity.
  - destruct s as [|b s]; [discriminate|]. cbn in Hy. cbn [skipn]. apply IH. exact Hy.
Qed.

Lemma prefix_l_safe lit : no_nul lit -> forall s n i, nulat s n -> i <= n ->
  exists b, prefix_l lit (skipn (N.to_nat i) s) = Ok b /\ (b = true -> i + len lit <= n).
Proof.
  intros Hl. induction Hl as [|x l Hx Hl IH]; intros s n i Hn Hi.
  - exists true. split; [reflexivity|]. intros _. unfold len. cbn. lia.
  - pose proof (nulat_lt _ _ Hn) as Hlen.
    destruct (skipn_cons_rd s i) as [y [Hy E]]; [lia|]. rewrite E. cbn [prefix_l].
    destruct (N.eqb_spec x y) as [<-|Hne].
    + assert (i <> n) by (eapply nulat_ne; eauto).
      destruct (IH s n (N.succ i) Hn) as [b [Eb Hb]]; [lia|].
      exists b. split; [exact Eb|]. intros ->. specialize (Hb eq_refl). rewrite len_cons. lia.
    + exists false. split; [reflexivity|discriminate].
Qed.

Lemma no_nul_lit (lit : string) : forallb (fun b => negb (b =? 0)) (bytes_of_string lit) = true -> no_nul (bytes_of_string lit).
Proof.
  intros H. unfold no_nul. rewrite Forall_forall. rewrite forallb_forall in H. intros b Hb.
  specialize (H b Hb). apply negb_true_iff, N.eqb_neq in H. exact H.
Qed.

Lemma has_prefix_safe lit s n i :
  forallb (fun b => negb (b =? 0)) (bytes_of_string lit) = true -> nulat s n -> i <= n ->
  exists b, has_prefix lit s i = Ok b /\ (b = true -> i + len (bytes_of_string lit) <= n).
Proof.
  intros Hl Hn Hi. rewrite has_prefix_spec by (apply no_nul_lit; exact Hl).
  apply prefix_l_safe; [apply no_nul_lit; exact Hl|exact Hn|exact Hi].
Qed.

(* ---------- cursors of a state are inside the block ---------- *)
Definition cur_ok (n : N) (st : nstate) : Prop :=
  tagbuffer st <= n /\ (forall a, attrbuffer st = Some a -> a <= n) /\ (forall j, tagname st = TBuf j -> j <= n).

Lemma rdr_ok s n i : nulat s n -> i <= n -> exists b, rdr s i = Ok b /\ rd s i = Some b.
Proof. intros Hn Hi. destruct (rd_le_some s n i Hn Hi) as [b Hb]. exists b. unfold rdr. now rewrite Hb. Qed.

(* ---------- get_content / close_content ---------- *)
Lemma get_content_safe s n st e : wfb s n -> cur_ok n st ->
  exists s' st' r, get_content s st e = Ok (s', st', r) /\ wfb s' n /\ cur_ok n st' /\ closed st' = closed st /\
    match r with
    | GcAt i => i <= n /\ tagbuffer st' < n /\ closed st = false
    | GcEmpty => closed st = true
    | GcErr => True
    end.
Proof.
  intros [Hl Hn] (Ht & Ha & Hj). unfold get_content.
  destruct (closed st) eqn:Ec.
  - do 3 eexists. split; [reflexivity|]. repeat split; try assumption. now destruct (e =? 0).
  - destruct (strchr_ok2 s n (tagbuffer st) c_lt Hn Ht) as [r [E Hr]]. rewrite E. cbn [bind].
    destruct r as [en|].
    + destruct Hr as [Hen Hc].
      destruct (negb (en - tagbuffer st =? e)).
      * do 3 eexists. split; [reflexivity|]. repeat split; assumption.
      * assert (en <> n) by (eapply nulat_ne; eauto; discriminate).
        destruct (wr_ok s n en 0 Hn) as [s1 [Ew [L1 [N1 _]]]]; [lia|reflexivity|].
        rewrite Ew. cbn [bind]. do 3 eexists. split; [reflexivity|].
        split; [split; [lia|exact N1]|]. split; [repeat split; cbn; [lia|exact Ha|exact Hj]|].
        split; [reflexivity|]. cbn. repeat split; lia.
    + do 3 eexists. split; [reflexivity|]. repeat split; assumption.
Qed.

Lemma close_content_safe s n st : wfb s n -> (closed st = true \/ tagbuffer st < n) ->
  exists s', close_content s st = Ok s' /\ wfb s' n.
Proof.
  intros [Hl Hn] H. unfold close_content. destruct (closed st) eqn:Ec.
  - exists s. split; [reflexivity|split; assumption].
  - destruct H as [H|H]; [discriminate|].
    destruct (wr_ok s n (tagbuffer st) c_lt Hn) as [s1 [Ew [L1 [N1 _]]]]; [lia|lia|].
    exists s1. split; [exact Ew|split; [lia|exact N1]].
Qed.

(* ---------- string comparisons of close_tag ---------- *)
Lemma streq_lit_safe l : forall s n i, nulat s n -> i <= n -> exists b, streq_lit s i l = Ok b.
Proof.
  induction l as [|y l IH]; intros s n i Hn Hi; cbn [streq_lit];
    destruct (rdr_ok s n i Hn Hi) as [x [Ex Rx]]; rewrite Ex; cbn [bind].
  - eauto.
  - destruct (N.eqb_spec x y) as [<-|]; [|eauto].
    destruct (N.eqb_spec x 0) as [|Hx]; [eauto|].
    apply (IH s n); [exact Hn|]. assert (i <> n) by (eapply nulat_ne; eauto). lia.
Qed.

Lemma streq_buf_safe fuel : forall s n i j, nulat s n -> i <= n -> j <= n -> (n < N.of_nat fuel + i) ->
  exists b, streq_buf fuel s i j = Ok b.
Proof.
  induction fuel as [|f IH]; intros s n i j Hn Hi Hj Hf; [lia|]. cbn [streq_buf].
  destruct (rdr_ok s n i Hn Hi) as [x [Ex Rx]]. destruct (rdr_ok s n j Hn Hj) as [y [Ey Ry]].
  rewrite Ex, Ey. cbn [bind].
  destruct (N.eqb_spec x y) as [<-|]; cbn [negb]; [|eauto].
  destruct (N.eqb_spec x 0) as [|Hx]; [eauto|].
  assert (i <> n) by (eapply nulat_ne; eauto). assert (j <> n) by (eapply nulat_ne; eauto).
  apply (IH s n); [exact Hn|lia|lia|lia].
Qed.

Lemma streq_tag_safe s n i t : wfb s n -> i <= n -> t <> TNull -> (forall j, t = TBuf j -> j <= n) ->
  exists b, streq_tag s i t = Ok b.
Proof.
  intros [Hl Hn] Hi Ht Hj. destruct t as [|l|j]; [congruence| |]; cbn [streq_tag].
  - eapply streq_lit_safe; eauto.
  - eapply streq_buf_safe; eauto. unfold len in Hl. lia.
Qed.

(* ---------- close_tag ---------- *)
Lemma close_tag_safe s n st : wfb s n -> cur_ok n st -> tagname st <> TNull ->
  exists s' st' b, close_tag s st = Ok (s', st', b) /\ wfb s' n /\ cur_ok n st' /\
                   tagname st' = tagname st /\ tagbuffer st <= tagbuffer st'.
Proof.
  intros [Hl Hn] (Ht & Ha & Hj) Hnn. unfold close_tag.
  destruct (closed st).
  { do 3 eexists. split; [reflexivity|]. repeat split; try assumption. lia. }
  destruct (ignore_spaces_ok s n (tagbuffer st) Hn Ht) as [b0 [E0 H0]]. rewrite E0. cbn [bind].
  destruct (rdr_ok s n b0 Hn) as [c [Ec Rc]]; [lia|]. rewrite Ec. cbn [bind].
  destruct (N.eqb_spec c c_lt) as [->|]; cbn [negb].
  2:{ do 3 eexists. split; [reflexivity|]. repeat split; try assumption. lia. }
  assert (b0 <> n) by (eapply nulat_ne; eauto; discriminate).
  destruct (strchr_ok2 s n (b0 + 1) c_gt Hn) as [r [E Hr]]; [lia|]. rewrite E. cbn [bind].
  destruct r as [en|].
  2:{ do 3 eexists. split; [reflexivity|]. repeat split; try assumption. lia. }
  destruct Hr as [Hen Hc]. assert (en <> n) by (eapply nulat_ne; eauto; discriminate).
  destruct (wr_ok s n en 0 Hn) as [s1 [Ew [L1 [N1 _]]]]; [lia|reflexivity|]. rewrite Ew. cbn [bind].
  destruct (rdr_ok s1 n (b0 + 1) N1) as [c1 [Ec1 Rc1]]; [lia|]. rewrite Ec1. cbn [bind].
  assert (W1 : wfb s1 n) by (split; [lia|exact N1]).
  assert (C1 : cur_ok n (mkState (en + 1) (attrbuffer st) (tagname st) false)).
  { repeat split; cbn; [lia|exact Ha|exact Hj]. }
  destruct (N.eqb_spec c1 c_sl) as [->|]; cbn [negb].
  2:{ do 3 eexists. split; [reflexivity|]. split; [exact W1|]. split; [exact C1|]. split; [reflexivity|cbn; lia]. }
  assert (b0 + 1 <> n) by (eapply nulat_ne; eauto; discriminate).
  destruct (streq_tag_safe s1 n (b0 + 1 + 1) (tagname st) W1) as [bb Eb]; [lia|exact Hnn|exact Hj|].
  rewrite Eb. cbn [bind]. do 3 eexists. split; [reflexivity|].
  split; [exact W1|]. split; [exact C1|]. split; [reflexivity|cbn; lia].
Qed.

(* ---------- find_child ---------- *)
Lemma find_child_safe s n st : wfb s n -> cur_ok n st ->
  exists s' r, find_child s st = Ok (s', r) /\ wfb s' n /\
    match r with
    | FcChild c tg => cur_ok n c /\ tg <= n /\ tagname c = TBuf tg /\ tagbuffer st < tagbuffer c
    | _ => True
    end.
Proof.
  intros [Hl Hn] (Ht & Ha & Hj). unfold find_child.
  destruct (closed st).
  { do 2 eexists. split; [reflexivity|]. split; [split; assumption|exact I]. }
  destruct (ignore_spaces_ok s n (tagbuffer st) Hn Ht) as [b0 [E0 H0]]. rewrite E0. cbn [bind].
  destruct (rdr_ok s n b0 Hn) as [c [Ec Rc]]; [lia|]. rewrite Ec. cbn [bind].
  destruct (N.eqb_spec c c_lt) as [->|]; cbn [negb].
  2:{ do 2 eexists. split; [reflexivity|]. split; [split; assumption|exact I]. }
  assert (b0 <> n) by (eapply nulat_ne; eauto; discriminate).
  destruct (rdr_ok s n (b0 + 1) Hn) as [c1 [Ec1 Rc1]]; [lia|]. rewrite Ec1. cbn [bind].
  destruct (c1 =? c_sl).
  { do 2 eexists. split; [reflexivity|]. split; [split; assumption|exact I]. }
  destruct (strchr_ok2 s n (b0 + 1) c_gt Hn) as [r [E Hr]]; [lia|]. rewrite E. cbn [bind].
  destruct r as [en|].
  2:{ do 2 eexists. split; [reflexivity|]. split; [split; assumption|exact I]. }
  destruct Hr as [Hen Hc]. assert (en <> n) by (eapply nulat_ne; eauto; discriminate).
  destruct (wr_ok s n en 0 Hn) as [s1 [Ew [L1 [N1 _]]]]; [lia|reflexivity|]. rewrite Ew. cbn [bind].
  destruct (rdr_ok s1 n (en - 1) N1) as [cm [Ecm Rcm]]; [lia|]. rewrite Ecm. cbn [bind].
  assert (exists s2 cl, (if cm =? c_sl then let* s2 := wr s1 (en - 1) 0 in Ok (s2, true) else Ok (s1, false)) = Ok (s2, cl)
                        /\ len s2 = len s /\ nulat s2 n) as [s2 [cl [E2 [L2 N2]]]].
  { destruct (cm =? c_sl).
    - destruct (wr_ok s1 n (en - 1) 0 N1) as [s2 [Ew2 [L2 [N2 _]]]]; [lia|reflexivity|].
      rewrite Ew2. cbn [bind]. do 2 eexists. split; [reflexivity|]. split; [lia|exact N2].
    - do 2 eexists. split; [reflexivity|]. split; [lia|exact N1]. }
  rewrite E2. cbn [bind].
  destruct (strspn_ok s2 n (b0 + 1) TAGNAME N2) as [k [Ek Hk]]; [lia|]. rewrite Ek. cbn [bind].
  destruct (rdr_ok s2 n (b0 + 1 + k) N2) as [c2 [Ec2 Rc2]]; [lia|]. rewrite Ec2. cbn [bind].
  destruct (N.eqb_spec c2 0) as [->|Hc2].
  { do 2 eexists. split; [reflexivity|]. split; [split; [lia|exact N2]|].
    split; [repeat split; cbn; [lia|discriminate|intros j [= <-]; lia]|]. cbn. repeat split; lia. }
  destruct (c2 =? c_sp); cbn [negb].
  2:{ do 2 eexists. split; [reflexivity|]. split; [split; [lia|exact N2]|exact I]. }
  assert (b0 + 1 + k <> n) by (eapply nulat_ne; eauto).
  destruct (wr_ok s2 n (b0 + 1 + k) 0 N2) as [s3 [Ew3 [L3 [N3 _]]]]; [lia|reflexivity|]. rewrite Ew3. cbn [bind].
  do 2 eexists. split; [reflexivity|]. split; [split; [lia|exact N3]|].
  split; [repeat split; cbn; [lia|intros a [= <-]; lia|intros j [= <-]; lia]|]. cbn. repeat split; lia.
Qed.

(* ---------- next_attr ---------- *)
Definition ents_ok (es : list (string * N)) : Prop :=
  Forall (fun e => forallb (fun b => negb (b =? 0)) (bytes_of_string (fst e)) = true) es.

Lemma ENTITIES_ok : ents_ok ENTITIES.
Proof. unfold ents_ok, ENTITIES. repeat constructor. Qed.

Lemma match_entity_safe es : ents_ok es -> forall s n i, nulat s n -> i <= n ->
  exists r, match_entity es s i = Ok r /\ match r with Some (k, _) => i + k <= n | None => True end.
Proof.
  intros He. induction He as [|[lit ch] es Hl He IH]; intros s n i Hn Hi; cbn [match_entity].
  - eexists. split; [reflexivity|exact I].
  - cbn [fst] in Hl. destruct (has_prefix_safe lit s n i Hl Hn Hi) as [b [Eb Hb]]. rewrite Eb. cbn [bind].
    destruct b.
    + eexists. split; [reflexivity|]. cbn. apply Hb. reflexivity.
    + apply IH; assumption.
Qed.

Lemma attr_loop_safe fuel : forall s n value ln esc,
  nulat s n -> value + ln + esc <= n -> n < N.of_nat fuel + (value + ln + esc) ->
  exists r, attr_loop fuel s value ln esc = Ok r /\
    match r with
    | ALdone s' ln' esc' => len s' = len s /\ nulat s' n /\ value + ln' + esc' < n
    | ALfail s' => len s' = len s /\ nulat s' n
    end.
Proof.
  induction fuel as [|f IH]; intros s n value ln esc Hn Hr Hf; [lia|]. cbn [attr_loop].
  destruct (rdr_ok s n (value + ln + esc) Hn Hr) as [c [Ec Rc]]. rewrite Ec. cbn [bind].
  destruct (N.eqb_spec c c_qu) as [->|Hq].
  { eexists. split; [reflexivity|]. cbn. split; [reflexivity|]. split; [exact Hn|].
    assert (value + ln + esc <> n) by (eapply nulat_ne; eauto; discriminate). lia. }
  destruct (N.eqb_spec c 0) as [->|Hz].
  { eexists. split; [reflexivity|]. cbn. split; [reflexivity|exact Hn]. }
  assert (Hrn : value + ln + esc <> n) by (eapply nulat_ne; eauto).
  (* the recursive call, common to both branches *)
  assert (Rec : forall s' esc', len s' = len s -> nulat s' n -> value + (ln + 1) + esc' <= n -> esc <= esc' ->
            exists r, (let* c' := rdr s' (value + (ln + 1) + esc') in
                       if c' =? 0 then Ok (ALfail s') else attr_loop f s' value (ln + 1) esc') = Ok r /\
              match r with
              | ALdone s2 ln' esc2 => len s2 = len s /\ nulat s2 n /\ value + ln' + esc2 < n
              | ALfail s2 => len s2 = len s /\ nulat s2 n
              end).
  { intros s' esc' L' N' R' Hesc.
    destruct (rdr_ok s' n _ N' R') as [c' [Ec' Rc']]. rewrite Ec'. cbn [bind].
    destruct (c' =? 0).
    - eexists. split; [reflexivity|]. cbn. split; assumption.
    - destruct (IH s' n value (ln + 1) esc' N' R') as [r [Er Hr']]; [lia|].
      exists r. split; [exact Er|]. destruct r; rewrite <- L'; exact Hr'. }
  destruct (N.eqb_spec c c_am) as [->|Ha].
  - destruct (match_entity_safe ENTITIES ENTITIES_ok s n (value + 1 + ln + esc) Hn) as [m [Em Hm]]; [lia|].
    rewrite Em. cbn [bind]. destruct m as [[k ch]|].
    + destruct (wr_ok s n (value + ln) ch Hn) as [s' [Ew [L' [N' _]]]]; [lia|lia|].
      rewrite Ew. cbn [bind]. apply Rec; [exact L'|exact N'|lia|lia].
    + cbn [bind]. eexists. split; [reflexivity|]. cbn. split; [reflexivity|exact Hn].
  - destruct (wr_ok s n (value + ln) c Hn) as [s' [Ew [L' [N' _]]]]; [lia|lia|].
    rewrite Ew. cbn [bind]. apply Rec; [exact L'|exact N'|lia|lia].
Qed.

Lemma next_attr_safe s n st : wfb s n -> cur_ok n st ->
  exists s' st' r, next_attr s st = Ok (s', st', r) /\ wfb s' n /\ cur_ok n st' /\
    tagbuffer st' = tagbuffer st /\ tagname st' = tagname st /\ closed st' = closed st /\
    match r with
    | Some (nm, vl) => nm <= n /\ vl <= n /\
                       exists a a', attrbuffer st = Some a /\ attrbuffer st' = Some a' /\ a < a'
    | None => True
    end.
Proof.
  intros [Hl Hn] (Ht & Ha & Hj). unfold next_attr.
  destruct (attrbuffer st) as [a|] eqn:Ea.
  2:{ do 3 eexists. split; [reflexivity|]. split; [split; assumption|].
      split; [repeat split; try assumption; rewrite Ea; discriminate|]. repeat split. }
  specialize (Ha a eq_refl).
  assert (Cst : cur_ok n st) by (repeat split; try assumption; intros a0 E0; rewrite Ea in E0; injection E0 as <-; exact Ha).
  destruct (ignore_spaces_ok s n a Hn Ha) as [b [Eb Hb]]. rewrite Eb. cbn [bind].
  destruct (strspn_ok s n b ATTRNAME Hn) as [k [Ek Hk]]; [lia|]. rewrite Ek. cbn [bind].
  destruct (rdr_ok s n (b + k) Hn Hk) as [c [Ec Rc]]. rewrite Ec. cbn [bind].
  destruct (N.eqb_spec c c_eq) as [->|]; cbn [negb].
  2:{ do 3 eexists. split; [reflexivity|]. split; [split; assumption|]. split; [exact Cst|]. repeat split. }
  assert (b + k <> n) by (eapply nulat_ne; eauto; discriminate).
  destruct (rdr_ok s n (b + k + 1) Hn) as [c2 [Ec2 Rc2]]; [lia|]. rewrite Ec2. cbn [bind].
  destruct (N.eqb_spec c2 c_qu) as [->|]; cbn [negb].
  2:{ do 3 eexists. split; [reflexivity|]. split; [split; assumption|]. split; [exact Cst|]. repeat split. }
  assert (b + k + 1 <> n) by (eapply nulat_ne; eauto; discriminate).
  destruct (wr_ok s n (b + k) 0 Hn) as [s1 [Ew [L1 [N1 _]]]]; [lia|reflexivity|]. rewrite Ew. cbn [bind].
  destruct (attr_loop_safe (S (length s)) s1 n (b + k + 2) 0 0 N1) as [r [Er Hr]]; [lia|unfold len in Hl; lia|].
  rewrite Er. cbn [bind]. destruct r as [s2 ln esc|s2].
  - destruct Hr as (L2 & N2 & Hlt).
    destruct (wr_ok s2 n (b + k + 2 + ln) 0 N2) as [s3 [Ew3 [L3 [N3 _]]]]; [lia|reflexivity|]. rewrite Ew3. cbn [bind].
    destruct (ignore_spaces_ok s3 n (b + k + 2 + ln + esc + 1) N3) as [nx [Enx Hnx]]; [lia|]. rewrite Enx. cbn [bind].
    do 3 eexists. split; [reflexivity|]. split; [split; [lia|exact N3]|].
    split; [repeat split; cbn; [exact Ht|intros a0 [= <-]; lia|exact Hj]|].
    cbn. repeat split; try lia. exists a, nx. repeat split. lia.
  - destruct Hr as (L2 & N2).
    do 3 eexists. split; [reflexivity|]. split; [split; [lia|exact N2]|]. split; [exact Cst|]. repeat split.
Qed.

(* ---------- look_init / diff_init ---------- *)
Lemma first_nul s n : nulat s n -> exists m, m <= n /\ cstring s m.
Proof.
  intros Hn. destruct (scan_ok (fun b => negb (b =? 0)) s n 0 Hn) as [j [_ [Hr [[b [Hb Pb]] Hm]]]]; [lia|reflexivity|].
  exists j. split; [lia|]. split.
  - apply negb_false_iff, N.eqb_eq in Pb. now subst b.
  - intros k Hk. destruct (Hm k) as [c [Hc Pc]]; [lia|]. exists c. split; [exact Hc|].
    apply negb_true_iff, N.eqb_neq in Pc. exact Pc.
Qed.

Lemma match_lit_safe l : no_nul l -> forall s n i, nulat s n -> i <= n ->
  exists r, match_lit l s i = Ok r /\ match r with Some j => i <= j <= n | None => True end.
Proof.
  intros Hl. induction Hl as [|y l Hy Hl IH]; intros s n i Hn Hi; cbn [match_lit].
  - eexists. split; [reflexivity|]. cbn. lia.
  - destruct (rdr_ok s n i Hn Hi) as [x [Ex Rx]]. rewrite Ex. cbn [bind].
    destruct (N.eqb_spec x y) as [->|].
    + assert (i <> n) by (eapply nulat_ne; eauto).
      destruct (IH s n (N.succ i) Hn) as [r [Er Hr]]; [lia|]. exists r. split; [exact Er|].
      destruct r; [lia|exact I].
    + eexists. split; [reflexivity|exact I].
Qed.

Lemma scan_u_safe s m i : cstring s m -> i <= m ->
  exists r, scan_u s i = Ok r /\ match r with Some (_, e) => i <= e <= m | None => True end.
Proof.
  intros Hs Hi. unfold scan_u. destruct (strtoul_ok s m i 10 Hs Hi) as [v [e [E [He _]]]].
  rewrite E. cbn [bind]. destruct (e =? i); eexists; (split; [reflexivity|]); [exact I|cbn; lia].
Qed.

Lemma cstring_nulat s m : cstring s m -> nulat s m.
Proof. intros [H _]. exact H. Qed.

Lemma scan_version_safe s m i : cstring s m -> i <= m -> exists r, scan_version s i = Ok r.
Proof.
  intros Hs Hi. pose proof (cstring_nulat _ _ Hs) as Hn. unfold scan_version.
  destruct (match_lit_safe (bytes_of_string "<topology") (no_nul_lit "<topology" eq_refl) s m i Hn Hi) as [r1 [E1 H1]].
  rewrite E1. cbn [bind]. destruct r1 as [i1|]; [|eauto].
  destruct (scan_ok isspace s m i1 Hn) as [i2 [E2 [H2 _]]]; [lia|reflexivity|]. rewrite E2. cbn [bind].
  destruct (match_lit_safe (bytes_of_string "version=""") (no_nul_lit "version=""" eq_refl) s m i2 Hn) as [r3 [E3 H3]]; [lia|].
  rewrite E3. cbn [bind]. destruct r3 as [i3|]; [|eauto].
  destruct (scan_u_safe s m i3 Hs) as [u1 [Eu1 Hu1]]; [lia|]. rewrite Eu1. cbn [bind].
  destruct u1 as [[major i4]|]; [|eauto].
  assert (Hdot : no_nul [46]) by (repeat constructor; discriminate).
  destruct (match_lit_safe [46] Hdot s m i4 Hn) as [r5 [E5 H5]]; [lia|].
  rewrite E5. cbn [bind]. destruct r5 as [i5|]; [|eauto].
  destruct (scan_u_safe s m i5 Hs) as [u2 [Eu2 Hu2]]; [lia|]. rewrite Eu2. cbn [bind].
  destruct u2 as [[minor i6]|]; eauto.
Qed.

Lemma skip_headers_safe fuel : forall s m i, nulat s m -> i <= m -> m < N.of_nat fuel + i ->
  exists r, skip_headers fuel s i = Ok r /\ match r with Some j => j <= m | None => True end.
Proof.
  induction fuel as [|f IH]; intros s m i Hn Hi Hf; [lia|]. cbn [skip_headers].
  destruct (has_prefix_safe "<?xml " s m i eq_refl Hn Hi) as [a [Ea _]]. rewrite Ea. cbn [bind].
  assert (exists b, (if a then Ok true else has_prefix "<!DOCTYPE " s i) = Ok b) as [b Eb].
  { destruct a; [eauto|]. destruct (has_prefix_safe "<!DOCTYPE " s m i eq_refl Hn Hi) as [b [Eb _]]. eauto. }
  rewrite Eb. cbn [bind]. destruct b; cbn [negb].
  2:{ eexists. split; [reflexivity|]. exact Hi. }
  destruct (strchr_ok2 s m i c_nl Hn Hi) as [r [E Hr]]. rewrite E. cbn [bind].
  destruct r as [en|]; [|eexists; split; [reflexivity|exact I]].
  destruct Hr as [Hen Hc]. assert (en <> m) by (eapply nulat_ne; eauto; discriminate).
  apply IH; [exact Hn|lia|lia].
Qed.

Lemma look_init_safe s n : wfb s n ->
  exists r, look_init s = Ok r /\
    match r with LiOk _ _ st => cur_ok n st /\ tagname st <> TNull /\ attrbuffer st = None /\ closed st = false | LiFail => True end.
Proof.
  intros [Hl Hn]. destruct (first_nul s n Hn) as [m [Hm Hs]]. pose proof (cstring_nulat _ _ Hs) as Nm.
  unfold look_init.
  destruct (skip_headers_safe (S (length s)) s m 0 Nm) as [h [Eh Hh]]; [lia|unfold len in Hl; lia|].
  rewrite Eh. cbn [bind]. destruct h as [b|]; [|eexists; split; [reflexivity|exact I]].
  destruct (scan_version_safe s m b Hs Hh) as [v Ev]. rewrite Ev. cbn [bind].
  destruct v as [[major minor]|].
  - destruct (strchr_ok2 s m b c_gt Nm Hh) as [r [E Hr]]. rewrite E. cbn [bind].
    destruct r as [en|]; [|eexists; split; [reflexivity|exact I]].
    destruct Hr as [Hen Hc]. assert (en <> m) by (eapply nulat_ne; eauto; discriminate).
    eexists. split; [reflexivity|]. cbn. repeat split; cbn; try (intros; discriminate); try reflexivity; lia.
  - destruct (has_prefix_safe "<topology>" s m b eq_refl Nm Hh) as [t [Et Ht]]. rewrite Et. cbn [bind].
    destruct t.
    { specialize (Ht eq_refl). change (len (bytes_of_string "<topology>")) with 10 in Ht.
      eexists. split; [reflexivity|]. cbn. repeat split; cbn; try (intros; discriminate); try reflexivity; lia. }
    destruct (has_prefix_safe "<root>" s m b eq_refl Nm Hh) as [t [Et' Ht']]. rewrite Et'. cbn [bind].
    destruct t; [|eexists; split; [reflexivity|exact I]].
    specialize (Ht' eq_refl). change (len (bytes_of_string "<root>")) with 6 in Ht'.
    eexists. split; [reflexivity|]. cbn. repeat split; cbn; try (intros; discriminate); try reflexivity; lia.
Qed.

Lemma diff_init_safe s n : wfb s n ->
  exists r, diff_init s = Ok r /\ match r with Some st => cur_ok n st /\ closed st = false | None => True end.
Proof.
  intros [Hl Hn]. unfold diff_init.
  destruct (skip_headers_safe (S (length s)) s n 0 Hn) as [h [Eh Hh]]; [lia|unfold len in Hl; lia|].
  rewrite Eh. cbn [bind]. destruct h as [b|]; eexists; (split; [reflexivity|]); [|exact I].
  cbn. repeat split; cbn; try (intros; discriminate); try reflexivity. exact Hh.
Qed.

(* close_child keeps the cursors inside *)
Lemma close_child_ok n p c : cur_ok n p -> cur_ok n c -> cur_ok n (close_child p c).
Proof. intros (Hp1 & Hp2 & Hp3) (Hc1 & _ & _). repeat split; cbn; assumption. Qed.

(* ---------- the statements exported to Props/Properties_C06.v ---------- *)
(* Every entry point, from any block whose last byte is NUL and any state whose cursors are inside the
   block, returns (no Oob read or write, no fuel exhaustion) a block of the same size whose last byte
   is still NUL and a state whose cursors are still inside: the hypotheses are an invariant, so the
   statement extends to every sequence of calls that respects the calling protocol
   (close_tag needs a tag name; close_content comes after a get_content that returned 0 or 1). *)
Definition entry_points_safe (s : list N) (n : N) (st : nstate) : Prop :=
  (exists s' st' r, next_attr s st = Ok (s', st', r) /\ wfb s' n /\ cur_ok n st') /\
  (exists s' r, find_child s st = Ok (s', r) /\ wfb s' n /\
                match r with FcChild c _ => cur_ok n c /\ tagname c <> TNull | _ => True end) /\
  (tagname st <> TNull -> exists s' st' b, close_tag s st = Ok (s', st', b) /\ wfb s' n /\ cur_ok n st') /\
  (forall e, exists s' st' r, get_content s st e = Ok (s', st', r) /\ wfb s' n /\ cur_ok n st' /\
             (r <> GcErr -> exists s'', close_content s' st' = Ok s'' /\ wfb s'' n)).

Lemma xml_lex_safe_lemma s n : wfb s n ->
  (exists r, look_init s = Ok r /\
     match r with LiOk _ _ st => cur_ok n st /\ tagname st <> TNull | LiFail => True end) /\
  (exists r, diff_init s = Ok r /\ match r with Some st => cur_ok n st | None => True end) /\
  (forall st, cur_ok n st -> entry_points_safe s n st).
Proof.
  intros W. split; [|split].
  - destruct (look_init_safe s n W) as [r [E H]]. exists r. split; [exact E|]. destruct r; [exact I|tauto].
  - destruct (diff_init_safe s n W) as [r [E H]]. exists r. split; [exact E|]. destruct r; [tauto|exact I].
  - intros st C. unfold entry_points_safe. split; [|split; [|split]].
    + destruct (next_attr_safe s n st W C) as (s' & st' & r & E & W' & C' & _). eauto 8.
    + destruct (find_child_safe s n st W C) as (s' & r & E & W' & H). exists s', r. split; [exact E|]. split; [exact W'|].
      destruct r as [| |c tg]; try exact I. destruct H as (Cc & _ & Tn & _). split; [exact Cc|]. rewrite Tn. discriminate.
    + intros Hn. destruct (close_tag_safe s n st W C Hn) as (s' & st' & b & E & W' & C' & _). eauto 8.
    + intros e. destruct (get_content_safe s n st e W C) as (s' & st' & r & E & W' & C' & Ecl & H).
      exists s', st', r. split; [exact E|]. split; [exact W'|]. split; [exact C'|]. intros Hr.
      apply close_content_safe; [exact W'|]. destruct r; [congruence|left; congruence|right; tauto].
Qed.

(* progress: a successful call moves its cursor strictly forward, and cursors stay <= n, so at most
   n + 1 attributes can be read from a tag and at most n + 1 children found below a state:
   every client loop over these calls is bounded by the size of the block *)
Lemma xml_lex_progress_lemma s n st : wfb s n -> cur_ok n st ->
  (forall s' st' nm vl, next_attr s st = Ok (s', st', Some (nm, vl)) ->
     exists a a', attrbuffer st = Some a /\ attrbuffer st' = Some a' /\ a < a' <= n) /\
  (forall s' c tg, find_child s st = Ok (s', FcChild c tg) -> tagbuffer st < tagbuffer c <= n).
Proof.
  intros W C. split.
  - intros s' st' nm vl E. destruct (next_attr_safe s n st W C) as (s2 & st2 & r & E2 & _ & C2 & _ & _ & _ & H).
    rewrite E in E2. injection E2 as <- <- <-. destruct H as (_ & _ & a & a' & Ea & Ea' & Hlt).
    exists a, a'. repeat split; try assumption. destruct C2 as (_ & Ha & _). apply Ha. exact Ea'.
  - intros s' c tg E. destruct (find_child_safe s n st W C) as (s2 & r & E2 & _ & H).
    rewrite E in E2. injection E2 as <- <-. destruct H as ((Hc & _) & _ & _ & Hlt). lia.
Qed.

(* the calling protocol of close_content is needed: writing the '<' back at a cursor that was not
   set by get_content can overwrite the final NUL (the defect of hwloc__xml_import_userdata fixed in
   the caller by /repo commit 8aa0f87) *)
Lemma close_content_needs_protocol_lemma :
  exists s n st, wfb s n /\ cur_ok n st /\ exists s', close_content s st = Ok s' /\ ~ wfb s' n.
Proof.
  exists [60; 0], 1, (mkState 1 None (TLit (cstr "userdata")) false).
  split; [split; reflexivity|]. split; [repeat split; cbn; try (intros; discriminate); lia|].
  eexists. split; [reflexivity|]. intros [_ H]. discriminate H.
Qed.
