(* Lemmas about Text/XmlExport.v: attribute lists printed by new_prop are read back by next_attr,
   base64 userdata content is delivered unchanged, plain userdata content is not in general (refuted),
   and the exact condition under which the distances export overruns its line buffer. *)
From Coq Require Import String Ascii.
From Coq Require Import NArith ZArith PeanoNat List Bool Lia ZifyBool ZifyN ZifyNat.
From HV Require Import Base.Bytes Gen.Tables Text.XmlEscape Text.XmlEscapeProofs Text.Base64 Text.Base64Proofs Text.XmlExport.
From HV Require Bitmap.BitmapText.
Import ListNotations.
Local Open Scope N_scope.
Ltac Zify.zify_post_hook ::= Z.div_mod_to_equations.

(* ---------- attribute lists ---------- *)
Lemma skip_blanks_idem s : skip_blanks (skip_blanks s) = skip_blanks s.
Proof.
  induction s as [|c s IH]; [reflexivity|]. cbn [skip_blanks].
  destruct (is_blank c) eqn:E; [exact IH|]. cbn [skip_blanks]. now rewrite E.
Qed.
Lemma next_attr_skip s : next_attr (skip_blanks s) = next_attr s.
Proof. unfold next_attr. now rewrite skip_blanks_idem. Qed.
Lemma parse_attrs_skip fuel s : parse_attrs fuel (skip_blanks s) = parse_attrs fuel s.
Proof. destruct fuel; [reflexivity|]. cbn [parse_attrs]. now rewrite next_attr_skip. Qed.

Definition attr_ok (a : list N * list N) : Prop := attr_name_ok (fst a) = true /\ Forall (fun b => b <> 0) (snd a).

Lemma attrs_roundtrip_l : forall attrs fuel, Forall attr_ok attrs -> (length attrs < fuel)%nat ->
  parse_attrs fuel (flat_map print_attr attrs ++ [0]) = attrs.
Proof.
  induction attrs as [|[n v] attrs IH]; intros fuel Hok Hf.
  - destruct fuel; [cbn in Hf; lia|]. reflexivity.
  - destruct fuel as [|fuel]; [cbn in Hf; lia|]. cbn [length] in Hf.
    inversion Hok as [|? ? [Hn Hv] Hok']; subst. cbn [fst snd] in Hn, Hv.
    cbn [flat_map]. unfold print_attr at 1. cbn [fst snd]. rewrite <- app_assoc.
    replace ((32 :: n ++ lit "=""" ++ escaped_value v ++ [34]) ++ flat_map print_attr attrs ++ [0])
      with (32 :: n ++ lit "=""" ++ escaped_value v ++ 34 :: (flat_map print_attr attrs ++ [0]))
      by (cbn [app]; rewrite <- !app_assoc; reflexivity).
    cbn [parse_attrs]. rewrite next_attr_print by assumption.
    rewrite parse_attrs_skip, IH by (auto; lia). reflexivity.
Qed.

(* strings that went through the export filter never contain NUL *)
Lemma safestrdup_no_nul s : Forall (fun b => b <> 0) (safestrdup s).
Proof. apply safe_no_nul, safestrdup_safe. Qed.

(* the <info name= value=> element of any info pair is read back as the filtered pair *)
Lemma info_attrs_roundtrip_l i :
  match info_node i with
  | XNode _ attrs _ => parse_attrs 3 (flat_map print_attr attrs ++ [0]) = [(lit "name", safestrdup (fst i)); (lit "value", safestrdup (snd i))]
  end.
Proof.
  unfold info_node. apply attrs_roundtrip_l; [|cbn; lia].
  repeat constructor; cbn [fst snd]; try reflexivity; apply safestrdup_no_nul.
Qed.

(* ---------- userdata content ---------- *)
(* base64 record: what the nolibxml importer finds between the tags is the encoded text, of the expected length,
   and decoding it into length+1 bytes gives the exported bytes *)
Lemma before_lt_plain c tail : forallb content_plain c = true -> before_lt (c ++ 60 :: tail) = Some c.
Proof.
  induction c as [|x c IH]; intros H; [reflexivity|].
  cbn [forallb] in H. apply andb_prop in H. destruct H as [Hx Hc].
  cbn [app before_lt]. unfold content_plain in Hx.
  assert (x <> 0 /\ x <> 60) as [H0 H60] by lia.
  apply N.eqb_neq in H0, H60. rewrite H0, H60, IH by exact Hc. reflexivity.
Qed.

Lemma until_nul_plain c : forallb content_plain c = true -> until_nul c = c.
Proof.
  induction c as [|x c IH]; intros H; [reflexivity|].
  cbn [forallb] in H. apply andb_prop in H. destruct H as [Hx Hc].
  cbn [until_nul]. unfold content_plain in Hx. assert (H0 : x <> 0) by lia.
  apply N.eqb_neq in H0. rewrite H0, IH by exact Hc. reflexivity.
Qed.

Lemma userdata_base64_roundtrip_l bytes tail :
  Forall (fun b => b < 256) bytes ->
  let len := N.of_nat (length bytes) in
  get_content (until_nul (encode bytes) ++ lit "</userdata>" ++ tail) (encoded_length len) = Some (encode bytes) /\
  decode (encode bytes) (len + 1) = Some bytes.
Proof.
  intros HB len. split.
  - rewrite until_nul_plain by (apply encode_plain, HB).
    unfold get_content. change (lit "</userdata>" ++ tail) with (60 :: (lit "/userdata>" ++ tail)).
    rewrite before_lt_plain by (apply encode_plain, HB).
    rewrite b64_encoded_length_l. fold len. now rewrite N.eqb_refl.
  - apply b64_decode_encode_l; [exact HB|subst len; lia].
Qed.

(* plain record: the exporter accepts every HWLOC_XML_CHAR_VALID buffer and writes it as is; the importer cuts at
   the first '<' and does not unescape.  Content without '<' comes back; content with '<' does not. *)
Lemma userdata_plain_roundtrip_l c tail :
  check_buffer c = true -> existsb (N.eqb 60) c = false ->
  get_content (until_nul c ++ lit "</userdata>" ++ tail) (N.of_nat (length c)) = Some c.
Proof.
  intros Hc Hlt.
  assert (E : until_nul c = c /\ before_lt (c ++ 60 :: (lit "/userdata>" ++ tail)) = Some c).
  { induction c as [|x c IH]; [split; reflexivity|].
    cbn [check_buffer forallb] in Hc. apply andb_prop in Hc. destruct Hc as [Hx Hc].
    cbn [existsb] in Hlt. apply orb_false_elim in Hlt. destruct Hlt as [H60 Hlt].
    destruct (IH Hc Hlt) as [I1 I2].
    assert (H0 : (x =? 0) = false) by (unfold xml_char_valid in Hx; lia).
    rewrite N.eqb_sym in H60.
    split; cbn [until_nul app before_lt]; rewrite H0; [now rewrite I1|rewrite H60, I2; reflexivity]. }
  destruct E as [E1 E2]. rewrite E1. unfold get_content.
  change (lit "</userdata>" ++ tail) with (60 :: (lit "/userdata>" ++ tail)). rewrite E2.
  now rewrite N.eqb_refl.
Qed.

Lemma userdata_plain_markup_refuted_l :
  exists c, check_buffer c = true /\
            userdata_node {| ud_b64 := false; ud_name := None; ud_bytes := c |} <> None /\
            forall tail, get_content (until_nul c ++ lit "</userdata>" ++ tail) (N.of_nat (length c)) = None.
Proof.
  exists [97; 60; 98].     (* "a<b" *)
  split; [reflexivity|]. split; [vm_compute; discriminate|]. intros tail. reflexivity.
Qed.

(* ---------- the 255-byte line buffer of the distances export ---------- *)
Definition line_fits {A} (bufsize : N) (render : A -> list N) (c : list A) : bool :=
  N.of_nat (length (flat_map (fun x => render x ++ [32]) c)) <? bufsize.
Definition array_fits {A} (bufsize : N) (render : A -> list N) (l : list A) : bool :=
  forallb (line_fits bufsize render) (chunks10 (length l) l).

Lemma array_nodes_some {A} bufsize tag (render : A -> list N) l :
  array_nodes bufsize tag render l <> None <-> array_fits bufsize render l = true.
Proof.
  unfold array_nodes, array_fits.
  match goal with |- context [forallb fst (map ?f ?ch)] => set (mk := f); set (cs := ch) end.
  assert (E : forallb fst (map mk cs) = forallb (line_fits bufsize render) cs).
  { clear. induction cs as [|c cs IH]; [reflexivity|]. cbn [map forallb]. rewrite IH. reflexivity. }
  rewrite E. destruct (forallb (line_fits bufsize render) cs); split; congruence.
Qed.

(* a concrete loaded topology on which the faithful model of the export runs past the buffer: twenty objects whose
   gp_index has twenty digits, one heterogeneous matrix over them (corpus/c05/hetero-distances-large-gp_index.xml) *)
Definition big_gp (i : N) : N := 18446744073709550000 + i.
Definition overflow_dist : dist :=
  {| d_hetero := true; d_unique_type := 0; d_kind := 5; d_name := Some (lit "H"); d_indexes := [];
     d_objs := map (fun i => (6, big_gp i)) [4; 7; 10; 14; 17; 20] ++ map (fun i => (4, big_gp i)) [2; 3; 5; 6; 8; 9; 12; 13; 15; 16; 18; 19];
     d_values := repeat 10 324 |}.
Definition empty_bm : bm := BitmapText.BM [] false.
Definition overflow_topo : topo :=
  {| t_root := Obj 0 (Some 0) (big_gp 1) None None None ANone [] [] [] [] [] [];
     t_allowed_cpuset := empty_bm; t_allowed_nodeset := empty_bm; t_distances := [overflow_dist];
     t_support := None; t_memattrs := []; t_cpukinds := []; t_infos := [] |}.

(* before /repo commit 3181493 (255-byte buffer) the export of this topology ran past the buffer; the committed code exports it *)
Lemma export_overflow_before_fix_l : export_bytes_gen false false overflow_topo GPINDEX_BUF_OLD = None.
Proof. vm_compute. reflexivity. Qed.
Lemma export_overflow_fixed_l : export_bytes false false overflow_topo <> None.
Proof. vm_compute. discriminate. Qed.

(* the export is defined exactly when every distances line fits *)
Definition dist_fits (gpbuf : N) (d : dist) : bool :=
  (if d_hetero d then array_fits gpbuf (fun tg => type_string (fst tg) ++ [58] ++ dec (snd tg)) (d_objs d)
   else array_fits ARRAY_BUF dec (d_indexes d)) && array_fits ARRAY_BUF dec (d_values d).

Lemma dist_node_some gpbuf v2 d : dist_node_gen v2 gpbuf d <> None <-> dist_fits gpbuf d = true.
Proof.
  unfold dist_node_gen, dist_fits.
  pose proof (array_nodes_some gpbuf "indexes" (fun tg : N * N => type_string (fst tg) ++ [58] ++ dec (snd tg)) (d_objs d)) as H1.
  pose proof (array_nodes_some ARRAY_BUF "indexes" dec (d_indexes d)) as H2.
  pose proof (array_nodes_some ARRAY_BUF "u64values" dec (d_values d)) as H3.
  destruct (d_hetero d).
  - destruct (array_nodes gpbuf "indexes" _ (d_objs d)); destruct (array_nodes ARRAY_BUF "u64values" dec (d_values d));
      destruct (array_fits gpbuf _ (d_objs d)); destruct (array_fits ARRAY_BUF dec (d_values d)); cbn [andb]; intuition congruence.
  - destruct (array_nodes ARRAY_BUF "indexes" dec (d_indexes d)); destruct (array_nodes ARRAY_BUF "u64values" dec (d_values d));
      destruct (array_fits ARRAY_BUF dec (d_indexes d)); destruct (array_fits ARRAY_BUF dec (d_values d)); cbn [andb]; intuition congruence.
Qed.

Lemma opt_all_some {A} (l : list (option A)) : opt_all l <> None <-> Forall (fun o => o <> None) l.
Proof.
  induction l as [|[x|] l IH]; cbn [opt_all].
  - split; [constructor|discriminate].
  - destruct (opt_all l); split; intros H.
    + constructor; [discriminate|]. apply IH. discriminate.
    + discriminate.
    + exfalso. apply H. reflexivity.
    + inversion H as [|? ? _ H']; subst. apply IH in H'. now exfalso.
  - split; [intros H; now exfalso|]. intros H. inversion H as [|? ? Hx _]; subst. now exfalso.
Qed.

Lemma export_defined_iff_l gpbuf v2 ud T :
  export_bytes_gen v2 ud T gpbuf <> None <-> forallb (dist_fits gpbuf) (t_distances T) = true.
Proof.
  unfold export_bytes_gen, topology_node_gen.
  assert (E : dist_nodes_gen v2 T gpbuf <> None <-> forallb (dist_fits gpbuf) (t_distances T) = true).
  { unfold dist_nodes_gen. rewrite opt_all_some, Forall_app, !Forall_map, !Forall_forall.
    rewrite forallb_forall. split.
    - intros [H1 H2] d Hd. apply (dist_node_some gpbuf v2).
      destruct (d_hetero d) eqn:Eh; [apply H2|apply H1]; apply filter_In; split; auto. now rewrite Eh.
    - intros H. split; intros d Hd; apply filter_In in Hd; destruct Hd as [Hd _]; apply dist_node_some, H, Hd. }
  destruct (dist_nodes_gen v2 T gpbuf) as [l|].
  - split; intros _; [apply E|]; discriminate.
  - split; intros H; [exfalso; now apply H|apply E in H; exfalso; now apply H].
Qed.

(* ---------- at most 20 digits for a 64-bit value ---------- *)
Lemma dec_fixed_length k v : length (BitmapText.dec_fixed k v) = k.
Proof. revert v. induction k as [|k IH]; intros v; [reflexivity|]. cbn [BitmapText.dec_fixed]. rewrite app_length, IH. cbn. lia. Qed.

Lemma dec_fixed_zero k : BitmapText.dec_fixed k 0 = repeat 48 k.
Proof.
  induction k as [|k IH]; [reflexivity|]. cbn [BitmapText.dec_fixed]. change (0 / 10) with 0. rewrite IH.
  change (48 + 0 mod 10) with 48. clear IH. induction k as [|k IH]; [reflexivity|]. cbn [repeat app]. now rewrite IH.
Qed.

Lemma repeat_snoc {A} (x : A) k : repeat x k ++ [x] = x :: repeat x k.
Proof. induction k as [|k IH]; [reflexivity|]. cbn [repeat app]. now rewrite IH. Qed.

(* leading digits are zeros *)
Lemma dec_fixed_lead : forall m k v, (m <= k)%nat -> v < 10 ^ N.of_nat m ->
  BitmapText.dec_fixed k v = repeat 48 (k - m) ++ BitmapText.dec_fixed m v.
Proof.
  induction m as [|m IH]; intros k v Hk Hv.
  - assert (v = 0) by (cbn in Hv; lia). subst. rewrite dec_fixed_zero. cbn [BitmapText.dec_fixed]. rewrite app_nil_r. f_equal. lia.
  - destruct k as [|k]; [lia|]. cbn [BitmapText.dec_fixed].
    assert (Hv' : v / 10 < 10 ^ N.of_nat m).
    { rewrite Nat2N.inj_succ, N.pow_succ_r' in Hv. lia. }
    rewrite (IH k (v / 10)) by (auto; lia).
    replace (S k - S m)%nat with (k - m)%nat by lia. rewrite <- app_assoc. reflexivity.
Qed.

Lemma strip0_length (l : list N) : (length (BitmapText.strip0 l) <= length l)%nat.
Proof.
  induction l as [|d l IH]; [cbn; lia|].
  destruct l as [|e l]; [cbn; lia|].
  change (BitmapText.strip0 (d :: e :: l)) with (if d =? 48 then BitmapText.strip0 (e :: l) else d :: e :: l).
  destruct (d =? 48); cbn [length] in *; lia.
Qed.

Lemma strip0_zeros j (l : list N) : (length (BitmapText.strip0 (repeat 48%N j ++ l)) <= Nat.max 1 (length l))%nat.
Proof.
  induction j as [|j IH]; cbn [repeat app].
  - pose proof (strip0_length l). lia.
  - destruct (repeat 48 j ++ l) as [|e r] eqn:E; [cbn [BitmapText.strip0 length]; pose proof (Nat.le_max_l 1 (length l)); lia|].
    change (BitmapText.strip0 (48 :: e :: r)) with (if 48 =? 48 then BitmapText.strip0 (e :: r) else 48 :: e :: r).
    change (48 =? 48) with true. cbv iota. exact IH.
Qed.

Lemma dec_length_u64 v : v < 2 ^ 64 -> (length (XmlExport.dec v) <= 20)%nat.
Proof.
  intros Hv. unfold XmlExport.dec, BitmapText.dec.
  set (k := S (N.to_nat (N.size v))).
  destruct (Nat.le_gt_cases 20 k) as [Hk|Hk].
  - rewrite (dec_fixed_lead 20 k v Hk) by (change (10 ^ N.of_nat 20) with 100000000000000000000; change (2 ^ 64) with 18446744073709551616 in Hv; lia).
    pose proof (strip0_zeros (k - 20) (BitmapText.dec_fixed 20 v)) as H. rewrite dec_fixed_length in H. lia.
  - pose proof (strip0_length (BitmapText.dec_fixed k v)) as H. rewrite dec_fixed_length in H. lia.
Qed.

(* ---------- totality of the export (code as committed, after /repo 3181493) ---------- *)
Definition u64 (v : N) : Prop := v < 2 ^ 64.
Definition dist_wf (d : dist) : Prop :=
  Forall u64 (d_values d) /\ Forall u64 (d_indexes d) /\ Forall (fun tg => fst tg < HWLOC_OBJ_TYPE_MAX /\ u64 (snd tg)) (d_objs d).

Lemma type_string_len_all : forallb (fun ty => (length (type_string ty) <=? 8)%nat) (Base64Proofs.range 20) = true.
Proof. vm_compute. reflexivity. Qed.
Lemma type_string_len ty : ty < HWLOC_OBJ_TYPE_MAX -> (length (type_string ty) <= 8)%nat.
Proof.
  intros H. apply Nat.leb_le. apply (Base64Proofs.forall_range _ 20 type_string_len_all).
  unfold HWLOC_OBJ_TYPE_MAX in H. lia.
Qed.

Lemma Forall_firstn {A} (P : A -> Prop) n l : Forall P l -> Forall P (firstn n l).
Proof. revert l. induction n as [|n IH]; intros [|x l] H; cbn [firstn]; auto. inversion H; subst. constructor; auto. Qed.
Lemma Forall_skipn {A} (P : A -> Prop) n l : Forall P l -> Forall P (skipn n l).
Proof. revert l. induction n as [|n IH]; intros [|x l] H; cbn [skipn]; auto. inversion H; subst. auto. Qed.

Lemma chunks10_spec {A} (P : A -> Prop) : forall fuel l, Forall P l ->
  Forall (fun c => (length c <= 10)%nat /\ Forall P c) (chunks10 fuel l).
Proof.
  induction fuel as [|f IH]; intros l H; [constructor|].
  cbn [chunks10]. destruct l as [|x l]; [constructor|].
  constructor; [split; [rewrite firstn_length; lia|now apply Forall_firstn]|].
  apply IH. now apply Forall_skipn.
Qed.

Lemma flat_map_len_bound {A} (render : A -> list N) (P : A -> Prop) B c :
  (forall x, P x -> (length (render x) <= B)%nat) -> Forall P c ->
  (length (flat_map (fun x => render x ++ [32%N]) c) <= (B + 1) * length c)%nat.
Proof.
  intros HB H. induction H as [|x c Hx Hc IH]; [cbn; lia|].
  cbn [flat_map length]. rewrite !app_length. cbn [length]. specialize (HB x Hx). lia.
Qed.

Lemma array_fits_bound {A} (render : A -> list N) (P : A -> Prop) B bufsize l :
  (forall x, P x -> (length (render x) <= B)%nat) -> Forall P l -> N.of_nat ((B + 1) * 10) < bufsize ->
  array_fits bufsize render l = true.
Proof.
  intros HB Hl Hs. unfold array_fits. apply forallb_forall. intros c Hc.
  pose proof (chunks10_spec P (length l) l Hl) as Hch. rewrite Forall_forall in Hch.
  destruct (Hch c Hc) as [Hlen HP].
  unfold line_fits. apply N.ltb_lt.
  pose proof (flat_map_len_bound render P B c HB HP). nia.
Qed.

Lemma dist_fits_wf d : dist_wf d -> dist_fits GPINDEX_BUF d = true.
Proof.
  intros (Hv & Hi & Ho). unfold dist_fits. apply andb_true_intro. split.
  - destruct (d_hetero d).
    + apply (array_fits_bound _ (fun tg => fst tg < HWLOC_OBJ_TYPE_MAX /\ u64 (snd tg)) 29); [|exact Ho|vm_compute; reflexivity].
      intros [ty gp] [Hty Hgp]. cbn [fst snd] in *. rewrite !app_length. cbn [length].
      pose proof (type_string_len ty Hty). pose proof (dec_length_u64 gp Hgp). lia.
    + apply (array_fits_bound _ u64 20); [|exact Hi|vm_compute; reflexivity].
      intros x Hx. now apply dec_length_u64.
  - apply (array_fits_bound _ u64 20); [|exact Hv|vm_compute; reflexivity].
    intros x Hx. now apply dec_length_u64.
Qed.

Lemma export_total_l v2 ud T : Forall dist_wf (t_distances T) -> export_bytes v2 ud T <> None.
Proof.
  intros H. apply export_defined_iff_l. apply forallb_forall. intros d Hd.
  apply dist_fits_wf. rewrite Forall_forall in H. now apply H.
Qed.
