(* Lemmas about Text/XmlExport.v: attribute lists printed by new_prop are read back by next_attr,
   base64 userdata content is delivered unchanged, plain userdata content is not in general (refuted),
   and the exact condition under which the distances export overruns its line buffer. *)
From Coq Require Import String Ascii.
From Coq Require Import NArith ZArith PeanoNat List Bool Lia ZifyBool ZifyN ZifyNat.
From HV Require Import Base.Bytes Gen.Tables Text.XmlEscape Text.XmlEscapeProofs Text.Base64 Text.Base64Proofs Text.XmlExport.
From HV Require Bitmap.BitmapText.
Import ListNotations.
Local Open Scope N_scope.

(* ---------- attribute lists ---------- *)
Lemma skip_blanks_idem s : skip_blanks (skip_blanks s) = skip_blanks s.
Proof.
  induction s as [|c s IH]; [reflexivity|]. cbn [skip_blanks].
  destruct (is_blank c) eqn:E; [exact IH|]. cbn [skip_blanks]. now rewrite E.
Qed.
Lemma next_attr_skip s : next_attr (skip_blanks s) = next_attr s.
Proof. unfold next_attr. now rewrite skip_blanks_idem. Qed.
Lemma parse_attrs_skip fuel s : parse_attrs fuel (skip_blanks s) = parse_attrs fuel s.
Proof. destruct fuel; [reflexivity|]. cbn [parse_attrs]. now rewrite next_attr_skip. Qed.

Definition attr_ok (a : list N * list N) : Prop := attr_name_ok (fst a) = true /\ Forall (fun b => b <> 0) (snd a).

Lemma attrs_roundtrip_l : forall attrs fuel, Forall attr_ok attrs -> (length attrs < fuel)%nat ->
  parse_attrs fuel (flat_map print_attr attrs ++ [0]) = attrs.
Proof.
  induction attrs as [|[n v] attrs IH]; intros fuel Hok Hf.
  - destruct fuel; [cbn in Hf; lia|]. reflexivity.
  - destruct fuel as [|fuel]; [cbn in Hf; lia|]. cbn [length] in Hf.
    inversion Hok as [|? ? [Hn Hv] Hok']; subst. cbn [fst snd] in Hn, Hv.
    cbn [flat_map]. unfold print_attr at 1. cbn [fst snd]. rewrite <- app_assoc.
    replace ((32 :: n ++ lit "=""" ++ escaped_value v ++ [34]) ++ flat_map print_attr attrs ++ [0])
      with (32 :: n ++ lit "=""" ++ escaped_value v ++ 34 :: (flat_map print_attr attrs ++ [0]))
      by (cbn [app]; rewrite <- !app_assoc; reflexivity).
    cbn [parse_attrs]. rewrite next_attr_print by assumption.
    rewrite parse_attrs_skip, IH by (auto; lia). reflexivity.
Qed.

(* strings that went through the export filter never contain NUL *)
Lemma safestrdup_no_nul s : Forall (fun b => b <> 0) (safestrdup s).
Proof. apply safe_no_nul, safestrdup_safe. Qed.

(* the <info name= value=> element of any info pair is read back as the filtered pair *)
Lemma info_attrs_roundtrip_l i :
  match info_node i with
  | XNode _ attrs _ => parse_attrs 3 (flat_map print_attr attrs ++ [0]) = [(lit "name", safestrdup (fst i)); (lit "value", safestrdup (snd i))]
  end.
Proof.
  unfold info_node. apply attrs_roundtrip_l; [|cbn; lia].
  repeat constructor; cbn [fst snd]; try reflexivity; apply safestrdup_no_nul.
Qed.

(* ---------- userdata content ---------- *)
(* base64 record: what the nolibxml importer finds between the tags is the encoded text, of the expected length,
   and decoding it into length+1 bytes gives the exported bytes *)
Lemma before_lt_plain c tail : forallb content_plain c = true -> before_lt (c ++ 60 :: tail) = Some c.
Proof.
  induction c as [|x c IH]; intros H; [reflexivity|].
  cbn [forallb] in H. apply andb_prop in H. destruct H as [Hx Hc].
  cbn [app before_lt]. unfold content_plain in Hx.
  assert (x <> 0 /\ x <> 60) as [H0 H60] by lia.
  apply N.eqb_neq in H0, H60. rewrite H0, H60, IH by exact Hc. reflexivity.
Qed.

Lemma until_nul_plain c : forallb content_plain c = true -> until_nul c = c.
Proof.
  induction c as [|x c IH]; intros H; [reflexivity|].
  cbn [forallb] in H. apply andb_prop in H. destruct H as [Hx Hc].
  cbn [until_nul]. unfold content_plain in Hx. assert (H0 : x <> 0) by lia.
  apply N.eqb_neq in H0. rewrite H0, IH by exact Hc. reflexivity.
Qed.

Lemma userdata_base64_roundtrip_l bytes tail :
  Forall (fun b => b < 256) bytes ->
  let len := N.of_nat (length bytes) in
  get_content (until_nul (encode bytes) ++ lit "</userdata>" ++ tail) (encoded_length len) = Some (encode bytes) /\
  decode (encode bytes) (len + 1) = Some bytes.
Proof.
  intros HB len. split.
  - rewrite until_nul_plain by (apply encode_plain, HB).
    unfold get_content. change (lit "</userdata>" ++ tail) with (60 :: (lit "/userdata>" ++ tail)).
    rewrite before_lt_plain by (apply encode_plain, HB).
    rewrite b64_encoded_length_l. fold len. now rewrite N.eqb_refl.
  - apply b64_decode_encode_l; [exact HB|subst len; lia].
Qed.

(* plain record: the exporter accepts every HWLOC_XML_CHAR_VALID buffer and writes it as is; the importer cuts at
   the first '<' and does not unescape.  Content without '<' comes back; content with '<' does not. *)
Lemma userdata_plain_roundtrip_l c tail :
  check_buffer c = true -> existsb (N.eqb 60) c = false ->
  get_content (until_nul c ++ lit "</userdata>" ++ tail) (N.of_nat (length c)) = Some c.
Proof.
  intros Hc Hlt.
  assert (E : until_nul c = c /\ before_lt (c ++ 60 :: (lit "/userdata>" ++ tail)) = Some c).
  { induction c as [|x c IH]; [split; reflexivity|].
    cbn [check_buffer forallb] in Hc. apply andb_prop in Hc. destruct Hc as [Hx Hc].
    cbn [existsb] in Hlt. apply orb_false_elim in Hlt. destruct Hlt as [H60 Hlt].
    destruct (IH Hc Hlt) as [I1 I2].
    assert (H0 : (x =? 0) = false) by (unfold xml_char_valid in Hx; lia).
    rewrite N.eqb_sym in H60.
    split; cbn [until_nul app before_lt]; rewrite H0; [now rewrite I1|rewrite H60, I2; reflexivity]. }
  destruct E as [E1 E2]. rewrite E1. unfold get_content.
  change (lit "</userdata>" ++ tail) with (60 :: (lit "/userdata>" ++ tail)). rewrite E2.
  now rewrite N.eqb_refl.
Qed.

Lemma userdata_plain_markup_refuted_l :
  exists c, check_buffer c = true /\
            userdata_node {| ud_b64 := false; ud_name := None; ud_bytes := c |} <> None /\
            forall tail, get_content (until_nul c ++ lit "</userdata>" ++ tail) (N.of_nat (length c)) = None.
Proof.
  exists [97; 60; 98].     (* "a<b" *)
  split; [reflexivity|]. split; [vm_compute; discriminate|]. intros tail. reflexivity.
Qed.

(* ---------- the 255-byte line buffer of the distances export ---------- *)
Definition line_fits {A} (render : A -> list N) (c : list A) : bool :=
  N.of_nat (length (flat_map (fun x => render x ++ [32]) c)) <? 255.
Definition array_fits {A} (render : A -> list N) (l : list A) : bool :=
  forallb (line_fits render) (chunks10 (length l) l).

Lemma array_nodes_some {A} tag (render : A -> list N) l :
  array_nodes tag render l <> None <-> array_fits render l = true.
Proof.
  unfold array_nodes, array_fits.
  match goal with |- context [forallb fst (map ?f ?ch)] => set (mk := f); set (cs := ch) end.
  assert (E : forallb fst (map mk cs) = forallb (line_fits render) cs).
  { clear. induction cs as [|c cs IH]; [reflexivity|]. cbn [map forallb]. rewrite IH. reflexivity. }
  rewrite E. destruct (forallb (line_fits render) cs); split; congruence.
Qed.

(* a concrete loaded topology on which the faithful model of the export runs past the buffer: twenty objects whose
   gp_index has twenty digits, one heterogeneous matrix over them (corpus/c05/hetero-distances-large-gp_index.xml) *)
Definition big_gp (i : N) : N := 18446744073709550000 + i.
Definition overflow_dist : dist :=
  {| d_hetero := true; d_unique_type := 0; d_kind := 5; d_name := Some (lit "H"); d_indexes := [];
     d_objs := map (fun i => (6, big_gp i)) [4; 7; 10; 14; 17; 20] ++ map (fun i => (4, big_gp i)) [2; 3; 5; 6; 8; 9; 12; 13; 15; 16; 18; 19];
     d_values := repeat 10 324 |}.
Definition empty_bm : bm := BitmapText.BM [] false.
Definition overflow_topo : topo :=
  {| t_root := Obj 0 (Some 0) (big_gp 1) None None None ANone [] [] [] [] [] [];
     t_allowed_cpuset := empty_bm; t_allowed_nodeset := empty_bm; t_distances := [overflow_dist];
     t_support := None; t_memattrs := []; t_cpukinds := []; t_infos := [] |}.

Lemma export_overflow_refuted_l : export_bytes false false overflow_topo = None.
Proof. vm_compute. reflexivity. Qed.

(* the export is defined exactly when every distances line fits *)
Definition dist_fits (d : dist) : bool :=
  (if d_hetero d then array_fits (fun tg => type_string (fst tg) ++ [58] ++ dec (snd tg)) (d_objs d)
   else array_fits dec (d_indexes d)) && array_fits dec (d_values d).

Lemma dist_node_some v2 d : dist_node v2 d <> None <-> dist_fits d = true.
Proof.
  unfold dist_node, dist_fits.
  pose proof (array_nodes_some "indexes" (fun tg : N * N => type_string (fst tg) ++ [58] ++ dec (snd tg)) (d_objs d)) as H1.
  pose proof (array_nodes_some "indexes" dec (d_indexes d)) as H2.
  pose proof (array_nodes_some "u64values" dec (d_values d)) as H3.
  destruct (d_hetero d).
  - destruct (array_nodes "indexes" _ (d_objs d)); destruct (array_nodes "u64values" dec (d_values d));
      destruct (array_fits _ (d_objs d)); destruct (array_fits dec (d_values d)); cbn [andb]; intuition congruence.
  - destruct (array_nodes "indexes" dec (d_indexes d)); destruct (array_nodes "u64values" dec (d_values d));
      destruct (array_fits dec (d_indexes d)); destruct (array_fits dec (d_values d)); cbn [andb]; intuition congruence.
Qed.

Lemma opt_all_some {A} (l : list (option A)) : opt_all l <> None <-> Forall (fun o => o <> None) l.
Proof.
  induction l as [|[x|] l IH]; cbn [opt_all].
  - split; [constructor|discriminate].
  - destruct (opt_all l); split; intros H.
    + constructor; [discriminate|]. apply IH. discriminate.
    + discriminate.
    + exfalso. apply H. reflexivity.
    + inversion H as [|? ? _ H']; subst. apply IH in H'. now exfalso.
  - split; [intros H; now exfalso|]. intros H. inversion H as [|? ? Hx _]; subst. now exfalso.
Qed.

Lemma export_defined_iff_l v2 ud T :
  export_bytes v2 ud T <> None <-> forallb dist_fits (t_distances T) = true.
Proof.
  unfold export_bytes, topology_node.
  assert (E : dist_nodes v2 T <> None <-> forallb dist_fits (t_distances T) = true).
  { unfold dist_nodes. rewrite opt_all_some, Forall_app, !Forall_map, !Forall_forall.
    rewrite forallb_forall. split.
    - intros [H1 H2] d Hd. apply (dist_node_some v2).
      destruct (d_hetero d) eqn:Eh; [apply H2|apply H1]; apply filter_In; split; auto. now rewrite Eh.
    - intros H. split; intros d Hd; apply filter_In in Hd; destruct Hd as [Hd _]; apply dist_node_some, H, Hd. }
  destruct (dist_nodes v2 T) as [l|].
  - split; intros _; [apply E|]; discriminate.
  - split; intros H; [exfalso; now apply H|apply E in H; exfalso; now apply H].
Qed.
