(* Lemmas about Text/XmlEscape.v *)
From Coq Require Import String Ascii.
From Coq Require Import NArith ZArith PeanoNat List Bool Lia ZifyBool ZifyN ZifyNat.
From HV Require Import Base.Bytes Text.XmlEscape.
Import ListNotations.
Local Open Scope N_scope.

Lemma escaped_value_flat s : escaped_value s = flat_map esc1 s.
Proof.
  unfold escaped_value, escape_string.
  destruct (existsb special s) eqn:E; [reflexivity|].
  induction s as [|c s IH]; [reflexivity|].
  cbn [existsb] in E. apply orb_false_elim in E. destruct E as [Ec Es].
  cbn [flat_map]. rewrite <- IH by exact Es.
  unfold special in Ec. unfold esc1.
  repeat (apply orb_false_elim in Ec; destruct Ec as [Ec ?]).
  repeat match goal with H : (c =? _) = false |- _ => rewrite H; clear H end.
  reflexivity.
Qed.


(* after a '&' produced by esc1, the strncmp chain recognises the entity and yields the character *)
Lemma match_entity_esc1 c tail : special c = true ->
  exists e, esc1 c = 38 :: e /\ match_entity (e ++ tail) = Some (c, tail) /\ (length (esc1 c) <= 6)%nat.
Proof.
  unfold special, esc1. intros H.
  destruct (c =? 10) eqn:E10; [apply N.eqb_eq in E10; subst; eexists; repeat split; cbn; lia|].
  destruct (c =? 13) eqn:E13; [apply N.eqb_eq in E13; subst; eexists; repeat split; cbn; lia|].
  destruct (c =? 9) eqn:E9; [apply N.eqb_eq in E9; subst; eexists; repeat split; cbn; lia|].
  destruct (c =? 34) eqn:E34; [apply N.eqb_eq in E34; subst; eexists; repeat split; cbn; lia|].
  destruct (c =? 60) eqn:E60; [apply N.eqb_eq in E60; subst; eexists; repeat split; cbn; lia|].
  destruct (c =? 62) eqn:E62; [apply N.eqb_eq in E62; subst; eexists; repeat split; cbn; lia|].
  destruct (c =? 38) eqn:E38; [apply N.eqb_eq in E38; subst; eexists; repeat split; cbn; lia|].
  discriminate.
Qed.

Lemma esc1_plain c : special c = false -> esc1 c = [c] /\ (c =? 34) = false /\ (c =? 38) = false.
Proof.
  unfold special, esc1. intros H.
  repeat (apply orb_false_elim in H; destruct H as [H ?]).
  repeat match goal with H : (c =? _) = false |- _ => rewrite H end. auto.
Qed.

(* the first byte of an escaped string followed by a quote is never NUL *)
Lemma escaped_head_nonzero s rest : Forall (fun b => b <> 0) s ->
  exists n tl, flat_map esc1 s ++ 34 :: rest = n :: tl /\ (n =? 0) = false.
Proof.
  intros H. destruct s as [|c s]; [now exists 34, rest|].
  inversion H as [|? ? Hc _]; subst. cbn [flat_map].
  destruct (special c) eqn:E.
  - destruct (match_entity_esc1 c [] E) as (e & He & _). rewrite He. cbn. eauto.
  - destruct (esc1_plain c E) as (He & _). rewrite He. cbn. exists c. eexists. split; [reflexivity|]. now apply N.eqb_neq.
Qed.

Lemma head_step (R : list N) n tl (X : ures) : R = n :: tl -> (n =? 0) = false ->
  match R with [] => UOob | m :: _ => if m =? 0 then UFail else X end = X.
Proof. intros -> H. now rewrite H. Qed.

Lemma unesc_escape_gen : forall s rest fuel, Forall (fun b => b <> 0) s -> (length s < fuel)%nat ->
  unesc fuel (flat_map esc1 s ++ 34 :: rest) = UOk s rest.
Proof.
  induction s as [|c s IH]; intros rest fuel Hs Hf.
  - destruct fuel; [cbn in Hf; lia|]. reflexivity.
  - destruct fuel as [|fuel]; [cbn in Hf; lia|]. cbn [length] in Hf.
    inversion Hs as [|? ? Hc Hs']; subst.
    cbn [flat_map]. 
    destruct (escaped_head_nonzero s rest Hs') as (n & tl & Hn & Hnz).
    destruct (special c) eqn:E.
    + destruct (match_entity_esc1 c (flat_map esc1 s ++ 34 :: rest) E) as (e & He & Hm & _).
      rewrite He. rewrite <- app_assoc. cbn [app unesc].
      change (38 =? 34) with false. change (38 =? 0) with false. change (38 =? 38) with true. cbv iota.
      rewrite Hm. rewrite (head_step _ _ _ _ Hn Hnz).
      rewrite IH by (auto; lia). reflexivity.
    + destruct (esc1_plain c E) as (He & H34 & H38). rewrite He. cbn [app unesc].
      rewrite H34, H38. rewrite (proj2 (N.eqb_neq c 0) Hc). rewrite (head_step _ _ _ _ Hn Hnz).
      rewrite IH by (auto; lia). reflexivity.
Qed.

Lemma flat_map_esc1_length s : (length s <= length (flat_map esc1 s) <= 6 * length s)%nat.
Proof.
  induction s as [|c s IH]; [cbn; lia|]. cbn [flat_map length]. rewrite app_length.
  assert (1 <= length (esc1 c) <= 6)%nat.
  { destruct (special c) eqn:E.
    - destruct (match_entity_esc1 c [] E) as (e & He & _ & Hl). rewrite He in *. cbn [length] in *. lia.
    - destruct (esc1_plain c E) as (He & _). rewrite He. cbn. lia. }
  lia.
Qed.

(* unescape (escape s) = s : for every value without NUL, whatever follows the closing quote *)
Lemma unescape_escape_l s rest : Forall (fun b => b <> 0) s ->
  unescape (escaped_value s ++ 34 :: rest) = UOk s rest.
Proof.
  intros Hs. unfold unescape. rewrite escaped_value_flat. apply unesc_escape_gen; [exact Hs|].
  rewrite app_length. pose proof (flat_map_esc1_length s). cbn [length]. lia.
Qed.

(* malloc(fulllen*6+1) is large enough *)
Lemma escape_fits_l s e : escape_string s = Some e -> (length e + 1 <= length s * 6 + 1)%nat.
Proof.
  unfold escape_string. destruct (existsb special s); [|discriminate]. intros [= <-].
  pose proof (flat_map_esc1_length s). lia.
Qed.

(* no raw markup or line-break character in the output; '&' only opens one of the seven entities *)
Definition raw_unsafe (c : N) : bool := (c =? 34) || (c =? 60) || (c =? 62) || (c =? 10) || (c =? 13) || (c =? 9).
Lemma esc1_safe c : forallb (fun x => negb (raw_unsafe x)) (esc1 c) = true.
Proof.
  destruct (special c) eqn:E.
  - unfold special in E. unfold esc1.
    destruct (c =? 10); [reflexivity|]. destruct (c =? 13); [reflexivity|]. destruct (c =? 9); [reflexivity|].
    destruct (c =? 34); [reflexivity|]. destruct (c =? 60); [reflexivity|]. destruct (c =? 62); [reflexivity|].
    destruct (c =? 38); [reflexivity|]. discriminate.
  - destruct (esc1_plain c E) as (He & _). rewrite He. cbn [forallb]. rewrite andb_true_r.
    unfold special in E. unfold raw_unsafe.
    repeat (apply orb_false_elim in E; destruct E as [E ?]).
    repeat match goal with H : (c =? _) = false |- _ => rewrite H end. reflexivity.
Qed.
Lemma escape_output_safe_l s : forallb (fun x => negb (raw_unsafe x)) (escaped_value s) = true.
Proof.
  rewrite escaped_value_flat. induction s as [|c s IH]; [reflexivity|].
  cbn [flat_map]. rewrite forallb_app, esc1_safe, IH. reflexivity.
Qed.

(* the NULL shortcut: nothing to escape means the value is printed unchanged *)
Lemma escape_none_iff s : escape_string s = None <-> existsb special s = false.
Proof. unfold escape_string. destruct (existsb special s); split; congruence. Qed.

(* the export filter *)
Lemma safestrdup_safe s : xml_safe_string (safestrdup s) = true.
Proof.
  unfold xml_safe_string, safestrdup. apply forallb_forall. intros x Hx. apply filter_In in Hx. tauto.
Qed.
Lemma safestrdup_id s : xml_safe_string s = true -> safestrdup s = s.
Proof.
  unfold xml_safe_string, safestrdup. induction s as [|c s IH]; [reflexivity|].
  cbn [forallb filter]. intros H. apply andb_prop in H. destruct H as [Hc Hs]. rewrite Hc, IH by exact Hs. reflexivity.
Qed.
Lemma safestrdup_idem s : safestrdup (safestrdup s) = safestrdup s.
Proof. apply safestrdup_id, safestrdup_safe. Qed.
Lemma safe_no_nul s : xml_safe_string s = true -> Forall (fun b => b <> 0) s.
Proof.
  unfold xml_safe_string. intros H. apply Forall_forall. intros x Hx.
  rewrite forallb_forall in H. specialize (H x Hx). intros ->. discriminate.
Qed.
(* what the filter loses, exactly: the bytes outside HWLOC_XML_CHAR_VALID *)
Lemma safestrdup_loses s : safestrdup s <> s <-> xml_safe_string s = false.
Proof.
  split.
  - intros H. destruct (xml_safe_string s) eqn:E; [|reflexivity]. now apply safestrdup_id in E.
  - intros E H. rewrite <- H in E. now rewrite safestrdup_safe in E.
Qed.

(* ---------- attribute lists ---------- *)
Definition attr_name_ok (n : list N) : bool := forallb is_attr_name_char n.

Lemma span_name_app n rest : attr_name_ok n = true ->
  (match rest with c :: _ => is_attr_name_char c = false | [] => True end) ->
  span_name (n ++ rest) = (n, rest).
Proof.
  unfold attr_name_ok. induction n as [|c n IH]; intros Hn Hr.
  - destruct rest as [|c r]; [reflexivity|]. cbn [app span_name]. now rewrite Hr.
  - cbn [forallb] in Hn. apply andb_prop in Hn. destruct Hn as [Hc Hn].
    cbn [app span_name]. rewrite Hc, IH by assumption. reflexivity.
Qed.

Lemma skip_blanks_nonblank c tl : is_blank c = false -> skip_blanks (c :: tl) = c :: tl.
Proof. intros H. cbn [skip_blanks]. now rewrite H. Qed.

Lemma name_char_not_blank c : is_attr_name_char c = true -> is_blank c = false.
Proof.
  unfold is_attr_name_char, is_blank. intros H.
  destruct (c =? 32) eqn:E1; [apply N.eqb_eq in E1; subst; discriminate|].
  destruct (c =? 9) eqn:E2; [apply N.eqb_eq in E2; subst; discriminate|].
  destruct (c =? 10) eqn:E3; [apply N.eqb_eq in E3; subst; discriminate|].
  destruct (c =? 13) eqn:E4; [apply N.eqb_eq in E4; subst; discriminate|]. reflexivity.
Qed.

(* one printed attribute ` name="escaped"` followed by anything is read back, and the scan resumes after the blanks *)
Lemma next_attr_print n v rest : attr_name_ok n = true -> Forall (fun b => b <> 0) v ->
  next_attr (32 :: n ++ lit "=""" ++ escaped_value v ++ 34 :: rest) = Some (n, v, skip_blanks rest).
Proof.
  intros Hn Hv. unfold next_attr.
  assert (Hs : skip_blanks (32 :: n ++ lit "=""" ++ escaped_value v ++ 34 :: rest) = n ++ lit "=""" ++ escaped_value v ++ 34 :: rest).
  { cbn [skip_blanks]. change (is_blank 32) with true. cbv iota.
    destruct n as [|c n]; [reflexivity|]. cbn [app]. apply skip_blanks_nonblank, name_char_not_blank.
    unfold attr_name_ok in Hn. cbn [forallb] in Hn. now apply andb_prop in Hn. }
  rewrite Hs. change (lit "=""") with [61; 34]. rewrite span_name_app; [|exact Hn|reflexivity].
  change (lit "=""") with [61; 34]. cbn [app]. cbv beta iota.
  rewrite unescape_escape_l by exact Hv. reflexivity.
Qed.
