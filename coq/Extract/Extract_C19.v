From Coq Require Import ExtrOcamlBasic.
From HV Require Import Base.BSet Gen.Tables Text.TypeOrder Topo.Dump Topo.WFCheck Topo.Obj Topo.Heap Topo.Dup Topo.Shmem.
Extraction "c19_model.ml" wf_check model_get_length model_used model_reject model_calls.
