From Coq Require Import ExtrOcamlBasic.
From Coq Require Import NArith ZArith.
From HV Require Import Gen.Tables Attr.Diff.
Extraction "c16_model.ml" diff_build_gen diff_apply diff_apply_forward_cancel flag_reverse table attrs
  keys_unique depths_addressable vals_u64 names_set info_names_nodup info_pairs_nodup no_hetero_dists tmem_consistent
  slots_distinct entry_u64 erase skel N.of_uint N.to_uint Z.of_N Z.to_N.
