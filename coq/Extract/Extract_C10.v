From Coq Require Import ExtrOcamlBasic.
From HV Require Import Base.BSet Gen.Tables Topo.Bind.
Extraction "c10_model.ml" run linux_run linux_present hid_index all_hids installed legal_call is_binding_call
  backends_is_thissystem thissystem_after x86_look kcall_cpumask kcall_nodemask bs_is_empty bs_subset
  CPUBIND_ALLFLAGS MEMBIND_ALLFLAGS policy_ok.
