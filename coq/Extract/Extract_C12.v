From Coq Require Import ExtrOcamlBasic.
From HV Require Import Base.BSet Gen.Tables Text.TypeOrder Topo.Dump Topo.WFCheck Topo.Obj Topo.Heap Topo.Dup.
Extraction "c12_model.ml" wf_check dup_tree model_sizes model_preorder_sizes model_wf tree_eqb tree_diff declared_classes allowed_shared.
