From Coq Require Import ExtrOcamlBasic.
From HV Require Import Base.BSet Gen.Tables Text.TypeOrder Topo.Dump Topo.WFCheck Topo.Obj Topo.Restrict.
Extraction "c08_model.ml" wf_check restrict_spec_check restrict_rc_check einval_identity model_run impl_view spec_dropped dont_merge_check group_depths_check.
