From Coq Require Import ExtrOcamlBasic.
From HV Require Import Conc.Events.
Extraction "c17_model.ml" run_op run_prog events_of results_of get_topo writes conflict_locs race_b alone
  all_valid statics_warm topo_valid loc_topo.
