From Coq Require Import ExtrOcamlBasic.
From HV Require Import Base.BSet Base.Bytes Base.Strto Base.Snprintf Bitmap.BitmapText.
Extraction "c04_model.ml" abs canon pieces_hwloc pieces_taskset pieces_list snprintf_pieces asprintf_pieces parse_hwloc parse_hwloc_gen parse_taskset parse_list strtoul strtol long_bits bm_wfb.
