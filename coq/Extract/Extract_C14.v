From Coq Require Import ExtrOcamlBasic.
From HV Require Import Base.BSet Gen.Tables Attr.Memattrs.
Extraction "c14_model.ml" step init_state init_state_nomem run gp_none os_none.
