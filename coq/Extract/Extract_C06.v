From Coq Require Import ExtrOcamlBasic.
From HV Require Import Text.XmlLex.
Extraction "c06_model.ml" walk_topology walk_diff.
