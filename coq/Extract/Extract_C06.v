From Coq Require Import ExtrOcamlBasic.
From HV Require Import Text.XmlLex Text.Base64Mem Text.XmlImport.
Extraction "c06_model.ml" walk_topology walk_diff decode_mem import_doc.
