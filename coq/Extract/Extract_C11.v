From Coq Require Import ExtrOcamlBasic.
From HV Require Import Gen.Tables Text.TypeOrder Text.TypeNames.
Extraction "c11_model.ml" compare_types is_normal is_memory is_io is_misc is_cache is_dcache is_icache
  type_sscanf_cur type_snprintf type_text attr_snprintf obj_type_string lit attr_union_size
  get_type_depth_with_attr type_sscanf_as_depth_cur tier_forced_subtype pci_class_string.
