From Coq Require Import ExtrOcamlBasic.
From HV Require Import Gen.Tables Text.TypeOrder.
Extraction "c11_model.ml" compare_types is_normal is_memory is_io is_misc is_cache is_dcache is_icache.
