From Coq Require Import ExtrOcamlBasic.
From HV Require Import Base.BSet Gen.Tables Text.TypeOrder Topo.Dump Topo.WFCheck Topo.Obj Topo.Insert Topo.Api.
Extraction "c02_model.ml" wf_check levels_agree model_levels dump_levels hist_check ud_check dm_vanish_check group_depth_check step topo_of_dump compare_with_dump get_extra find_by_gp max_gp tm_of.
