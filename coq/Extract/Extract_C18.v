From Coq Require Import ExtrOcamlBasic.
From HV Require Import Base.BSet Gen.Tables Text.TypeOrder Topo.Dump Topo.WFCheck Topo.Obj Text.LinuxParse Text.LinuxNode.
Extraction "c18_model.ml" wf_check levels_agree model_levels dump_levels cpumask_parse cpulist_parse print_cpumask print_cpulist disallowed_check linux_node_requests first_mismatch chain_ok.
