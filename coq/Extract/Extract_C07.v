From Coq Require Import ExtrOcamlBasic.
From HV Require Import Gen.Tables Text.Synthetic.
Extraction "c07_model.ml" parse Cur Fixed front middle needs_numa is_cache M1 HWLOC_OBJ_GROUP HWLOC_OBJ_NUMANODE.
