From Coq Require Import ExtrOcamlBasic.
From HV Require Import Base.BSet Gen.Tables Text.TypeOrder Topo.Dump Topo.WFCheck Topo.Obj Topo.Sets Topo.Remove Topo.Insert Topo.Restrict Topo.InsertTie Topo.MemAttach Topo.SynthBuild Topo.SynthBuildProofs Topo.LinuxCpu Topo.DiscInsertProofs Topo.DiscPresenceProofs.
Extraction "c01_model.ml" wf_check levels_agree model_levels dump_levels sets_pipeline_diff total_memory_diff removal_agrees insert_tie merge_agrees find_parent_tie attach_tie synth_requests_diff synth_hyp_of_desc linux_cpu_agrees disc_step_inside disc_ord_after cover_hyp_of.
