From Coq Require Import ExtrOcamlBasic.
From HV Require Import Gen.Tables Attr.Distances.
Extraction "c13_model.ml" add_create add_values add_commit refresh set_objects get_all get_by_type get_by_depth get_by_name get_name release_remove remove_all remove_by_depth dup topology_dup xml_roundtrip transform user_set_obj restrict_values restrict_arrays find_groups_by_min_distance check_grouping_matrix TYPE_NONE.
