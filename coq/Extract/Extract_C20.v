From Coq Require Import ExtrOcamlBasic.
From HV Require Import Base.BSet Base.Bytes Gen.Tables Topo.Dump Text.Calc.
Extraction "c20_model.ml" calc_main calc_main_stdin parse_range parse_level_size loop_count.
