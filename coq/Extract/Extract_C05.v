From Coq Require Import ExtrOcamlBasic.
From HV Require Import Base.Bytes Bitmap.BitmapText Text.Base64 Text.XmlEscape Text.XmlExport.
Extraction "c05_model.ml" export_bytes encode encode_to decode encoded_length escaped_value unescape safestrdup.
