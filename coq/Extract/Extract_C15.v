From Coq Require Import ExtrOcamlBasic.
From HV Require Import Base.BSet Attr.Cpukinds.
Extraction "c15_model.ml" init_state pub_register restrict_state rank_state dup_state xml_reload get_nr get_info get_by_cpuset bs_inter bs_is_empty internal_register adopt_state guarded_step topology_restrict.
