From Coq Require Import ExtrOcamlBasic.
From Coq Require Import NArith ZArith String.
From HV Require Import Gen.Tables Text.TypeOrder Topo.Dump Topo.Obj Topo.Helpers Topo.Distrib Topo.HelpersProofs Topo.DistribProofs.
Extraction "c09_model.ml" tree_of_dump nflatten flatten
  get_obj_covering_cpuset get_child_covering_cpuset get_first_largest_obj_inside_cpuset get_largest_objs_inside_cpuset
  iter_inside iter_covering get_nbobjs_inside_cpuset_by_depth get_obj_inside_cpuset_by_depth get_obj_index_inside_cpuset
  cpuset_to_nodeset cpuset_from_nodeset get_type_depth get_depth_type get_type_or_below_depth get_type_or_above_depth
  level_objs get_common_ancestor_obj obj_is_in_subtree get_closest_objs get_obj_with_same_locality
  bitmap_singlify_per_core core_level hwloc_distrib resolve_roots
  covering_spec largest_spec inside_spec covering_iter_spec to_nodeset_spec from_nodeset_spec common_ancestor_spec
  closest_spec same_locality_spec type_depth_spec depth_type_spec singlify_spec
  slots_sets distrib_spec_cover distrib_spec_disjoint distrib_disjoint_applies wsum weight_u dist_leaves
  tree_wf level_ok wbound
  is_normal is_memory is_io
  HWLOC_TYPE_DEPTH_NUMANODE HWLOC_OBJ_TYPE_MAX
  String.length N.of_uint N.to_uint Z.of_N Z.to_N.
