(* Model of hwloc_filter_bridges() and remove_empty() with
   unlink_and_free_single_object() (hwloc/topology.c), on the tree model: the
   part of hwloc_discover between the phase boundaries 3 and 4. *)
From Coq Require Import List NArith ZArith Bool.
From HV Require Import Base.BSet Gen.Tables Text.TypeOrder Topo.Dump Topo.Obj Topo.Sets.
Import ListNotations.
Local Open Scope N_scope.

(* ---------- hwloc__filter_bridges ---------- *)

(* [nvs id] tells whether the object's subtype is "NVSwitch" (kept on purpose) *)
Section FilterBridges.
Variable filt : N -> N.         (* type -> filter *)
Variable nvs : N -> bool.       (* object id -> subtype is NVSwitch *)

Definition removable_bridge (d : dobj) : bool :=
  (filt (o_type d) =? HWLOC_TYPE_FILTER_KEEP_IMPORTANT) &&
  ((o_type d =? HWLOC_OBJ_BRIDGE) ||
   ((o_type d =? HWLOC_OBJ_PCI_DEVICE) && (Z.shiftr (o_pci_class d) 8 =? 6)%Z && negb (nvs (o_id d)))).

(* one I/O child, after recursion into its own I/O children: what replaces it in
   the parent's I/O list, and the Misc children handed to the parent *)
Fixpoint filter_io (o : obj) : list obj * list obj :=
  match o with
  | Obj d n m i x =>
      let r := map filter_io i in
      let i' := flat_map fst r in
      let handed := flat_map snd r in
      (* Misc children of removed grand-children were appended to this object's Misc list *)
      let x' := x ++ handed in
      if removable_bridge d && match i' with [] => true | _ => false end
      then ([], x')                      (* unlinked: no I/O children to hand up, Misc children go to the parent *)
      else ([Obj d n m i' x'], [])
  end.

(* hwloc_filter_bridges: normal children first, then this object's I/O list *)
Fixpoint filter_bridges (o : obj) : obj :=
  match o with
  | Obj d n m i x =>
      let n' := map filter_bridges n in
      let r := map filter_io i in
      Obj d n' m (flat_map fst r) (x ++ flat_map snd r)
  end.
End FilterBridges.

(* ---------- remove_empty ---------- *)

Definition is_empty_obj (d : dobj) : bool :=
  if is_normal (o_type d) then bs_is_empty (oset (o_cs d)) else bs_is_empty (oset (o_nds d)).

(* result: the object if kept (None if unlinked) and the Misc children handed to the parent *)
Fixpoint remove_empty (o : obj) : option obj * list obj :=
  match o with
  | Obj d n m i x =>
      let rn := map remove_empty n in
      let rm := map remove_empty m in
      let keep (r : list (option obj * list obj)) := flat_map (fun p => match fst p with Some c => [c] | None => [] end) r in
      let n' := keep rn in
      let m' := keep rm in
      let x' := x ++ flat_map snd rn ++ flat_map snd rm in
      match n', m', i with
      | [], [], [] => if is_empty_obj d then (None, x') else (Some (Obj d n' m' i x'), [])
      | _, _, _ => (Some (Obj d n' m' i x'), [])
      end
  end.

(* phase 3 -> phase 4 of hwloc_discover *)
Definition removal_pipeline (filt : N -> N) (nvs : N -> bool) (root : obj) : option obj :=
  fst (remove_empty (filter_bridges filt nvs root)).

(* ---------- correspondence helper: shape of a tree in DFS order ---------- *)

Definition shape_of (o : obj) : list (option N * (nat * nat * nat * nat)) :=
  map (fun c => (o_gp (odata c), (List.length (onch c), List.length (omch c), List.length (oich c), List.length (oxch c))))
      (flatten o).

Definition shape_of_dump (d : dump) : list (option N * (nat * nat * nat * nat)) :=
  map (fun o => (o_gp o, (List.length (o_nch o), List.length (o_mch o), List.length (o_ich o), List.length (o_xch o))))
      (t_objs d).

Definition opt_N_eqb (a b : option N) : bool :=
  match a, b with Some x, Some y => x =? y | None, None => true | _, _ => false end.

Fixpoint shape_eqb (a b : list (option N * (nat * nat * nat * nat))) : bool :=
  match a, b with
  | [], [] => true
  | (g1, (n1, m1, i1, x1)) :: a', (g2, (n2, m2, i2, x2)) :: b' =>
      opt_N_eqb g1 g2 && Nat.eqb n1 n2 && Nat.eqb m1 m2 && Nat.eqb i1 i2 && Nat.eqb x1 x2 && shape_eqb a' b'
  | _, _ => false
  end.

(* phase-3 dump and the list of NVSwitch ids vs phase-4 dump *)
Definition removal_agrees (d3 d4 : dump) (nvswitch_ids : list N) : bool :=
  match tree_of_dump d3 with
  | Some root =>
      match removal_pipeline (fun ty => nthN (t_filters d3) ty HWLOC_TYPE_FILTER_KEEP_ALL)
                             (fun id => existsb (N.eqb id) nvswitch_ids) root with
      | Some r => shape_eqb (shape_of r) (shape_of_dump d4)
      | None => false
      end
  | None => false
  end.
