(* C01: the request lists of the modelled backends meet the hypothesis of DiscPresenceProofs.discovery_covers
   ("every cpu of every requested cpuset is also requested alone"): the synthetic backend (Topo/SynthBuild.v)
   whenever PUs are kept (hwloc refuses to filter them out), and the Linux CPU discovery (Topo/LinuxCpu.v) for
   every content of the sysfs files. *)
From Coq Require Import List NArith ZArith Bool Lia.
From HV Require Import Base.BSet Gen.Tables Text.TypeOrder Topo.SynthBuild Topo.SynthBuildProofs Topo.LinuxCpu Topo.LinuxCpuProofs.
From HV Require Text.Synthetic.
Import ListNotations.
Local Open Scope N_scope.

(* ---------- synthetic ---------- *)

Definition Sing (set : bset) (rs : list sreq) : Prop :=
  forall j, mem j set = true -> exists r, In r rs /\ r_cs r = bs_single j.

Lemma Sing_app_union a b ra rb : Sing a ra -> Sing b rb -> Sing (bs_union a b) (ra ++ rb).
Proof.
  intros Ha Hb j Hj. rewrite mem_union in Hj. apply orb_true_iff in Hj as [Hj|Hj].
  - destruct (Ha j Hj) as (r & Hr & E). exists r. split; [apply in_or_app; left; exact Hr|exact E].
  - destruct (Hb j Hj) as (r & Hr & E). exists r. split; [apply in_or_app; right; exact Hr|exact E].
Qed.
Lemma Sing_more set rs extra : Sing set rs -> Sing set (rs ++ extra).
Proof. intros H j Hj. destruct (H j Hj) as (r & Hr & E). exists r. split; [apply in_or_app; left; exact Hr|exact E]. Qed.

Section LookSing.
  Variable keep : N -> bool.
  Variable narr : option (list N).

  Lemma look_singles : forall levels, shape_ok levels -> keep (Synthetic.lv_type (leaf_of levels)) = true ->
    forall depth c ka,
      let '(set, rs, _, _) := look keep narr levels depth c ka in Sing set rs.
  Proof.
    induction 1 as [lv Hlv|lv rest Hlv Hrest IH]; intros Hkeep depth c ka.
    - cbn [look]. rewrite Hlv. unfold leaf_of in Hkeep. cbn [last] in Hkeep. rewrite Hkeep.
      destruct (attached_reqs keep narr (Synthetic.lv_att lv) _ ka) as [att ka'].
      intros j Hj. rewrite mem_single in Hj. apply N.eqb_eq in Hj. subst j.
      eexists. split; [cbn [app]; left; reflexivity|reflexivity].
    - pose proof (shape_nonempty _ Hrest) as Hne.
      rewrite (leaf_of_cons lv rest Hne) in Hkeep. specialize (IH Hkeep).
      cbn [look]. destruct (arity_of lv) as [|n0] eqn:EA; [contradiction|].
      fold (rep keep narr rest depth).
      assert (G : forall n set rs c1 ka1, Sing set rs ->
                 let '(set', rs', _, _) := rep keep narr rest depth n set rs c1 ka1 in Sing set' rs').
      { induction n as [|n IHn]; intros set rs c1 ka1 Hs.
        - cbn [rep]. exact Hs.
        - cbn [rep]. specialize (IH (S depth) c1 ka1).
          destruct (look keep narr rest (S depth) c1 ka1) as [[[s1 r1] c2] ka2].
          apply IHn. apply Sing_app_union; assumption. }
      specialize (G (S n0) bs_empty [] (cbump c depth) ka ltac:(intros j Hj; rewrite mem_empty in Hj; discriminate)).
      cbn [rep] in G.
      destruct (look keep narr rest (S depth) (cbump c depth) ka) as [[[s1 r1] c1] ka1].
      destruct (rep keep narr rest depth n0 (bs_union bs_empty s1) ([] ++ r1) c1 ka1) as [[[set rs] c'] ka'].
      destruct (attached_reqs keep narr (Synthetic.lv_att lv) set ka') as [att ka''].
      apply Sing_more. exact G.
  Qed.
End LookSing.

(* every cpu of the root cpuset - hence of every requested cpuset - is requested alone *)
Theorem synthetic_requests_have_singletons : forall keep sy l0 below,
  Synthetic.sy_levels sy = l0 :: below -> shape_ok below -> keep (Synthetic.lv_type (leaf_of below)) = true ->
  let '(set, rs) := requests keep sy in
  forall r j, In r rs -> mem j (r_cs r) = true -> exists r', In r' rs /\ r_cs r' = bs_single j.
Proof.
  intros keep sy l0 below E Hshape Hkeep.
  destruct (synthetic_requests_spec keep sy l0 below E Hshape) as (total & Hspec).
  unfold requests in *. rewrite E in *.
  fold (rep keep (Synthetic.sy_niarr sy) below 0) in *.
  assert (G : forall n set rs c1 ka1, Sing set rs ->
             let '(set', rs', _, _) := rep keep (Synthetic.sy_niarr sy) below 0 n set rs c1 ka1 in Sing set' rs').
  { induction n as [|n IHn]; intros set rs c1 ka1 Hs.
    - cbn [rep]. exact Hs.
    - cbn [rep]. pose proof (look_singles keep (Synthetic.sy_niarr sy) below Hshape Hkeep 1%nat c1 ka1) as IH.
      destruct (look keep (Synthetic.sy_niarr sy) below 1 c1 ka1) as [[[s1 r1] c2] ka2].
      apply IHn. apply Sing_app_union; assumption. }
  specialize (G (arity_of l0) bs_empty [] (repeat 0 (List.length (l0 :: below))) 0
                ltac:(intros j Hj; rewrite mem_empty in Hj; discriminate)).
  destruct (rep keep (Synthetic.sy_niarr sy) below 0 (arity_of l0) bs_empty [] (repeat 0 (List.length (l0 :: below))) 0) as [[[set rs] c'] ka'].
  destruct (attached_reqs keep (Synthetic.sy_niarr sy) (Synthetic.lv_att l0) set ka') as [att ka''].
  destruct Hspec as (_ & Hsub & _).
  intros r j Hr Hj. rewrite Forall_forall in Hsub.
  apply (Sing_more set rs att G j). apply (Hsub r Hr j Hj).
Qed.

(* ---------- Linux ---------- *)

Lemma interesting_from_cpus v j : mem j (interesting v) = true -> exists c, In c (v_cpus v) /\ c_n c = j.
Proof.
  unfold interesting. set (online := read_list (v_online v)).
  assert (G : forall cpus acc,
             mem j (fold_left (fun acc c => if cpu_is_online online c && c_topo c then bs_add (c_n c) acc else acc) cpus acc) = true ->
             mem j acc = true \/ exists c, In c cpus /\ c_n c = j).
  { induction cpus as [|c tl IH]; cbn [fold_left]; intros acc H; [left; exact H|].
    destruct (IH _ H) as [H1|(c' & Hc' & E)].
    - destruct (cpu_is_online online c && c_topo c); [|left; exact H1].
      rewrite mem_add in H1. apply orb_true_iff in H1 as [H1|H1]; [|left; exact H1].
      apply N.eqb_eq in H1. right. exists c. split; [left; reflexivity|symmetry; exact H1].
    - right. exists c'. split; [right; exact Hc'|exact E]. }
  intros H. destruct (G _ _ H) as [H1|H1]; [rewrite mem_empty in H1; discriminate|exact H1].
Qed.

Theorem linux_requests_have_singletons : forall keep v r j,
  In r (linux_cpu_requests keep v) -> mem j (q_cs r) = true ->
  exists r', In r' (linux_cpu_requests keep v) /\ q_cs r' = bs_single j /\ q_type r' = HWLOC_OBJ_PU.
Proof.
  intros keep v r j Hr Hj.
  pose proof (linux_requests_within_interesting keep v) as W. unfold within in W. rewrite Forall_forall in W.
  assert (Ji : mem j (interesting v) = true) by (apply (W r Hr j Hj)).
  destruct (interesting_from_cpus v j Ji) as (c & Hc & Ec).
  destruct (linux_requests_have_every_pu keep v c Hc ltac:(rewrite Ec; exact Ji)) as (c' & Ec' & Hin).
  eexists. split; [exact Hin|]. cbn. rewrite Ec', Ec. split; reflexivity.
Qed.
