(* Theorems about the model of remove_empty (Topo/Remove.v). *)
From Coq Require Import List NArith ZArith Bool Lia.
From HV Require Import Base.BSet Gen.Tables Text.TypeOrder Topo.Dump Topo.Obj Topo.Sets Topo.SetsProofs Topo.Remove.
Import ListNotations.
Local Open Scope N_scope.

(* every normal/memory object that remains either has a normal, memory or I/O
   child, or a non-empty cpuset (normal) / nodeset (memory) *)
Inductive NoEmptyLeaf : obj -> Prop :=
| NoEmptyLeaf_intro d n m i x :
    (n = [] -> m = [] -> i = [] -> is_empty_obj d = false) ->
    Forall NoEmptyLeaf n -> Forall NoEmptyLeaf m ->
    NoEmptyLeaf (Obj d n m i x).

Lemma keep_in (r : list (option obj * list obj)) c :
  In c (flat_map (fun p => match fst p with Some c => [c] | None => [] end) r) ->
  exists p, In p r /\ fst p = Some c.
Proof.
  intros H. apply in_flat_map in H as (p & Hp & Hc). exists p. split; [exact Hp|].
  destruct (fst p); [destruct Hc as [<-|[]]; reflexivity|destruct Hc].
Qed.

Theorem remove_empty_no_empty_leaf : forall o r, fst (remove_empty o) = Some r -> NoEmptyLeaf r.
Proof.
  induction o as [d n m i x IHn IHm _ _] using obj_ind'. intros r H.
  cbn [remove_empty] in H.
  set (keep := fun r : list (option obj * list obj) => flat_map (fun p => match fst p with Some c => [c] | None => [] end) r) in *.
  set (n' := keep (map remove_empty n)) in *. set (m' := keep (map remove_empty m)) in *.
  assert (Fn : Forall NoEmptyLeaf n').
  { rewrite Forall_forall in *. intros c Hc. apply keep_in in Hc as (p & Hp & Hf).
    apply in_map_iff in Hp as (c0 & <- & Hc0). apply (IHn c0 Hc0 c Hf). }
  assert (Fm : Forall NoEmptyLeaf m').
  { rewrite Forall_forall in *. intros c Hc. apply keep_in in Hc as (p & Hp & Hf).
    apply in_map_iff in Hp as (c0 & <- & Hc0). apply (IHm c0 Hc0 c Hf). }
  destruct n' as [|a n2] eqn:En; [destruct m' as [|b m2] eqn:Em; [destruct i as [|c i2]|]|].
  - destruct (is_empty_obj d) eqn:E; cbn in H; [discriminate|]. injection H as <-.
    constructor; [intros _ _ _; exact E|constructor|constructor].
  - cbn in H. injection H as <-. constructor; [intros _ _ Hi; discriminate|constructor|constructor].
  - cbn in H. injection H as <-. constructor; [intros _ Hm; discriminate|constructor|exact Fm].
  - cbn in H. injection H as <-. constructor; [intros Hn; discriminate|exact Fn|exact Fm].
Qed.

(* the payload of every remaining object is the payload of an object of the
   input tree: remove_empty never alters types, indexes or sets *)
Lemma remove_empty_root_payload o r : fst (remove_empty o) = Some r -> odata r = odata o.
Proof.
  destruct o as [d n m i x]. cbn [remove_empty].
  set (n' := flat_map _ (map remove_empty n)). set (m' := flat_map _ (map remove_empty m)).
  destruct n'; [destruct m'; [destruct i|]|]; try (intros H; injection H as <-; reflexivity).
  destruct (is_empty_obj d); intros H; [discriminate|injection H as <-; reflexivity].
Qed.
