(* C09 - proofs about the model of hwloc_distrib (Topo/Distrib.v). *)
From Coq Require Import List NArith ZArith Bool Lia.
From HV Require Import Base.BSet Gen.Tables Text.TypeOrder Topo.Dump Topo.Obj Topo.Helpers Topo.HelpersProofs Topo.Distrib.
Import ListNotations.
Local Open Scope N_scope.

Lemma pow32 : 2 ^ 32 = 4294967296.
Proof. reflexivity. Qed.

Lemma u32_small x : x < 2 ^ 32 -> u32 x = x.
Proof. intros H. unfold u32. now apply N.mod_small. Qed.

Lemma u32_minus1 x : 1 <= x -> x - 1 < 2 ^ 32 -> u32 (x + (2 ^ 32 - 1)) = x - 1.
Proof.
  intros H1 H2. unfold u32. replace (x + (2 ^ 32 - 1)) with ((x - 1) + 1 * 2 ^ 32) by (rewrite pow32 in *; lia).
  rewrite N.mod_add by (rewrite pow32; discriminate). now apply N.mod_small.
Qed.

Lemma u32_sub a b : b <= a -> a < 2 ^ 32 -> u32 (a + 2 ^ 32 - b) = a - b.
Proof.
  intros H1 H2. unfold u32. replace (a + 2 ^ 32 - b) with ((a - b) + 1 * 2 ^ 32) by (rewrite pow32 in *; lia).
  rewrite N.mod_add by (rewrite pow32; discriminate). apply N.mod_small. lia.
Qed.

(* ceil (x * n / tot) as the C code computes it *)
Definition cdiv (n tot x : N) : N := (x * n + tot - 1) / tot.

Lemma cdiv_0 n tot : 0 < tot -> cdiv n tot 0 = 0.
Proof. intros H. unfold cdiv. apply N.div_small. lia. Qed.

Lemma cdiv_tot n tot : 0 < tot -> cdiv n tot tot = n.
Proof.
  intros H. unfold cdiv. symmetry. apply (N.div_unique _ _ _ (tot - 1)); lia.
Qed.

Lemma cdiv_mono n tot x y : 0 < tot -> x <= y -> cdiv n tot x <= cdiv n tot y.
Proof.
  intros H Hxy. unfold cdiv. apply N.div_le_mono; [lia|].
  assert (x * n <= y * n) by (apply N.mul_le_mono_r; exact Hxy). lia.
Qed.

Lemma cdiv_pos n tot x : 0 < tot -> 1 <= x -> 1 <= n -> 1 <= cdiv n tot x.
Proof.
  intros H Hx Hn. unfold cdiv. apply N.div_le_lower_bound; [lia|].
  assert (1 * 1 <= x * n) by (apply N.mul_le_mono; assumption). lia.
Qed.

Lemma cdiv_le_n n tot x : 0 < tot -> x <= tot -> cdiv n tot x <= n.
Proof. intros H Hx. rewrite <- (cdiv_tot n tot H) at 2. now apply cdiv_mono. Qed.

Lemma chunk_of_exact gw w n tot :
  0 < tot -> gw + w <= tot -> tot * n + tot <= 2 ^ 32 ->
  chunk_of gw w n tot = cdiv n tot (gw + w) - cdiv n tot gw.
Proof.
  intros Ht Hw Hb. unfold chunk_of.
  assert (Hn : n < 2 ^ 32).
  { assert (1 * n <= tot * n) by (apply N.mul_le_mono_r; lia). lia. }
  assert (E1 : u32 ((gw + w) * n + tot + (2 ^ 32 - 1)) = (gw + w) * n + tot - 1).
  { assert ((gw + w) * n <= tot * n) by (apply N.mul_le_mono_r; exact Hw).
    apply u32_minus1; lia. }
  assert (E2 : u32 (gw * n + tot + (2 ^ 32 - 1)) = gw * n + tot - 1).
  { assert (gw * n <= tot * n) by (apply N.mul_le_mono_r; lia).
    apply u32_minus1; lia. }
  rewrite E1, E2. fold (cdiv n tot (gw + w)). fold (cdiv n tot gw).
  apply u32_sub.
  - apply cdiv_mono; lia.
  - pose proof (cdiv_le_n n tot (gw + w) Ht Hw). lia.
Qed.

(* ---------- weights ---------- *)

Lemma pos_weight_pos p : 1 <= pos_weight p.
Proof. induction p; simpl; lia. Qed.

(* a set of known weight below 2^32: weight_u is zero exactly on the empty set *)
Definition small_weight (s : bset) : bool :=
  match bs_weight s with Some w => w <? 2 ^ 32 | None => false end.

Lemma weight_u_zero s : small_weight s = true -> weight_u s = 0 -> s = bs_empty.
Proof.
  unfold small_weight, weight_u, bs_weight. destruct s as [f i]. cbn [inf fin].
  destruct i; [discriminate|]. intros H1 H2. apply N.ltb_lt in H1. rewrite u32_small in H2 by exact H1.
  destruct f as [|p]; [reflexivity|]. pose proof (pos_weight_pos p). lia.
Qed.

Lemma weight_u_empty : weight_u bs_empty = 0.
Proof. reflexivity. Qed.

(* plain sum of the roots' weights *)
Definition wsumN (l : list entry) : N := fold_right (fun e acc => weight_u (e_cs e) + acc) 0 l.

Lemma wsumN_app a b : wsumN (a ++ b) = wsumN a + wsumN b.
Proof. induction a as [|e tl IH]; cbn [app wsumN fold_right]; [reflexivity|]. fold (wsumN (tl ++ b)) (wsumN tl). rewrite IH. lia. Qed.

Lemma wsumN_rev l : wsumN (rev l) = wsumN l.
Proof.
  induction l as [|e tl IH]; [reflexivity|]. cbn [rev]. rewrite wsumN_app, IH. cbn [wsumN fold_right]. fold (wsumN tl). lia.
Qed.

Lemma tot_weight_sum l : wsumN l < 2 ^ 32 -> tot_weight l = wsumN l.
Proof.
  unfold tot_weight.
  assert (G : forall a, a + wsumN l < 2 ^ 32 ->
            fold_left (fun acc e => u32 (acc + weight_u (e_cs e))) l a = a + wsumN l).
  { induction l as [|e tl IH]; intros a Ha; cbn [fold_left wsumN fold_right] in *; [lia|].
    fold (wsumN tl) in *. rewrite u32_small by lia. rewrite IH by lia. lia. }
  intros H. rewrite G by lia. lia.
Qed.

(* ---------- the loop over the roots ---------- *)

Definition good_sets (U : bset) (sets : list bset) : Prop :=
  Forall (fun s => s <> bs_empty /\ bs_subset s U = true) sets.

(* exactly k written slots: non-empty sets inside T whose union is T *)
Definition sub_good (T : bset) (k : N) (r : dres) : Prop :=
  exists sets, r = D_ok (map Some sets) /\ N.of_nat (List.length sets) = k /\ good_sets T sets /\ union_list sets = T.

Lemma good_sets_mono U V sets : bs_subset U V = true -> good_sets U sets -> good_sets V sets.
Proof.
  intros H G. unfold good_sets in *. rewrite Forall_forall in *. intros s Hs. destruct (G s Hs) as [G1 G2].
  split; [exact G1|eapply subset_trans; eauto].
Qed.

Lemma map_repeat {A B} (f : A -> B) x k : map f (repeat x k) = repeat (f x) k.
Proof. induction k; cbn; [reflexivity|now f_equal]. Qed.

Lemma union_list_repeat s k : (0 < k)%nat -> union_list (repeat s k) = s.
Proof.
  intros H. apply bs_ext. intros i. rewrite mem_union_list.
  destruct k; [lia|]. cbn [repeat existsb]. destruct (mem i s) eqn:E; [reflexivity|].
  cbn [orb]. apply not_true_iff_false. intros X. apply existsb_exists in X as [t [H1 H2]].
  apply repeat_spec in H1. subst t. congruence.
Qed.

Lemma union_empty_r s : bs_union s bs_empty = s.
Proof. apply bs_ext. intros i. now rewrite mem_union, mem_empty, orb_false_r. Qed.

Lemma pad_exact k sets : N.of_nat (List.length sets) = k -> pad k (map Some sets) = map Some sets.
Proof.
  intros H. unfold pad. rewrite firstn_app.
  replace (N.to_nat k) with (List.length (map Some sets)) by (rewrite map_length; lia).
  rewrite firstn_all, Nat.sub_diag. cbn [firstn]. apply app_nil_r.
Qed.

Section Loop.
  Variables (until : Z) (n tot : N) (U : bset).
  Hypothesis Hn : 1 <= n.
  Hypothesis Htot : 0 < tot.
  Hypothesis Hb : tot * n + tot <= 2 ^ 32.

  (* what the loop needs from each root *)
  Definition entry_ok (e : entry) : Prop :=
    small_weight (e_cs e) = true /\
    bs_subset (e_cs e) U = true /\
    (forall k, 2 <= k -> k <= n -> o_arity (odata (e_obj e)) <> 0 -> weight_u (e_cs e) <> 0 ->
               sub_good (e_cs e) k (e_sub e k)).

  Definition inv (P : list entry) (st : dstate) : Prop :=
    exists sets, st = (D_ok (map Some sets), cdiv n tot (wsumN P), wsumN P) /\
                 N.of_nat (List.length sets) = cdiv n tot (wsumN P) /\
                 good_sets U sets /\ union_list sets = union_list (map e_cs P).

  Lemma step_inv P e st :
    inv P st -> entry_ok e -> wsumN P + weight_u (e_cs e) <= tot ->
    inv (P ++ [e]) (distrib_step until n tot st e).
  Proof.
    intros (sets & -> & Hlen & Hgood & Hun) (Hsm & Hsub & Hrec) Hle.
    set (gw := wsumN P) in *. set (w := weight_u (e_cs e)) in *.
    assert (HwP : wsumN (P ++ [e]) = gw + w).
    { rewrite wsumN_app. cbn [wsumN fold_right]. fold w. fold gw. lia. }
    assert (HUP : union_list (map e_cs (P ++ [e])) = bs_union (union_list (map e_cs P)) (e_cs e)).
    { rewrite map_app, union_list_app. cbn [map union_list fold_right]. now rewrite union_empty_r. }
    unfold distrib_step. fold w.
    destruct (N.eqb_spec w 0) as [Ew|Nw].
    - (* continue *)
      exists sets. rewrite HwP. rewrite Ew. rewrite N.add_0_r. repeat split; auto.
      rewrite HUP, (weight_u_zero _ Hsm Ew), union_empty_r. exact Hun.
    - assert (Hc : chunk_of gw w n tot = cdiv n tot (gw + w) - cdiv n tot gw) by (apply chunk_of_exact; assumption).
      pose proof (cdiv_mono n tot gw (gw + w) Htot ltac:(lia)) as Hmono.
      pose proof (cdiv_le_n n tot (gw + w) Htot Hle) as Hlen'.
      assert (Hn32 : n < 2 ^ 32).
      { assert (1 * n <= tot * n) by (apply N.mul_le_mono_r; lia). lia. }
      set (chunk := chunk_of gw w n tot) in *.
      assert (Eg : u32 (cdiv n tot gw + chunk) = cdiv n tot (gw + w)) by (rewrite u32_small; lia).
      assert (Ew' : u32 (gw + w) = gw + w).
      { apply u32_small. assert (tot <= tot * n + tot) by lia. rewrite pow32 in *. lia. }
      unfold inv. rewrite Eg, Ew'. rewrite HwP, HUP.
      assert (NEe : e_cs e <> bs_empty) by (intros X; apply Nw; unfold w; rewrite X; reflexivity).
      destruct ((o_arity (odata (e_obj e)) =? 0) || (chunk <=? 1) || (until <=? o_depth (odata (e_obj e)))%Z) eqn:Eleaf.
      + destruct (N.ltb_spec 0 chunk) as [Hpos|Hzero].
        * (* chunk copies of the root's cpuset *)
          exists (sets ++ repeat (e_cs e) (N.to_nat chunk)).
          rewrite map_app, map_repeat. split; [reflexivity|]. split; [rewrite app_length, repeat_length; lia|].
          split.
          { apply Forall_app. split; [exact Hgood|]. apply Forall_forall. intros s Hs. apply repeat_spec in Hs. subst s. auto. }
          rewrite union_list_app, Hun, union_list_repeat by lia. reflexivity.
        * (* no chunk: merge into the previous set, which exists *)
          assert (Hgw : gw <> 0).
          { intros X. rewrite X in *. rewrite cdiv_0 in Hc by exact Htot. cbn [N.add] in Hc.
            pose proof (cdiv_pos n tot w Htot ltac:(lia) Hn). lia. }
          pose proof (cdiv_pos n tot gw Htot ltac:(lia) Hn) as Hg1.
          destruct (N.eqb_spec (cdiv n tot gw) 0) as [X|_]; [lia|].
          destruct (exists_last (l := sets)) as (sets0 & l & ->).
          { intros X. rewrite X in Hlen. cbn in Hlen. lia. }
          unfold or_last. rewrite map_app. cbn [map]. rewrite last_last, removelast_last.
          exists (sets0 ++ [bs_union l (e_cs e)]). rewrite map_app. cbn [map].
          split; [reflexivity|]. split; [rewrite app_length in *; cbn [List.length] in *; lia|].
          unfold good_sets in Hgood. apply Forall_app in Hgood as [G0 Gl]. inversion Gl as [|? ? [Gl1 Gl2] _]; subst.
          split.
          { apply Forall_app. split; [exact G0|]. constructor; [|constructor]. split.
            - intros X. apply NEe. apply bs_ext. intros i. rewrite mem_empty.
              assert (Y : mem i (bs_union l (e_cs e)) = false) by (rewrite X; apply mem_empty).
              rewrite mem_union in Y. now apply orb_false_iff in Y.
            - apply bs_subset_spec. intros i. rewrite mem_union. rewrite bs_subset_spec in Gl2, Hsub.
              intros Y. apply orb_true_iff in Y as [Y|Y]; auto. }
          rewrite union_list_app in *. cbn [union_list fold_right] in *. rewrite <- Hun.
          apply bs_ext. intros i. rewrite !mem_union, !mem_empty.
          destruct (mem i (union_list sets0)), (mem i l), (mem i (e_cs e)); reflexivity.
      + (* recursion into the children *)
        apply orb_false_iff in Eleaf as [Eleaf E3]. apply orb_false_iff in Eleaf as [E1 E2].
        apply N.eqb_neq in E1. apply N.leb_gt in E2.
        destruct (Hrec chunk ltac:(lia) ltac:(lia) E1 Nw) as (ss & Es & Els & Egs & Eus).
        rewrite Es. rewrite (pad_exact _ _ Els).
        exists (sets ++ ss). rewrite map_app. split; [reflexivity|]. split; [rewrite app_length; lia|].
        split.
        { apply Forall_app. split; [exact Hgood|]. eapply good_sets_mono; eauto. }
        rewrite union_list_app, Hun, Eus. reflexivity.
  Qed.

  Lemma loop_inv rest : forall P st,
    inv P st -> Forall entry_ok rest -> wsumN P + wsumN rest <= tot ->
    inv (P ++ rest) (fold_left (distrib_step until n tot) rest st).
  Proof.
    induction rest as [|e tl IH]; intros P st Hi Hok Hle; cbn [fold_left].
    - now rewrite app_nil_r.
    - inversion Hok as [|? ? Hoe Hotl]; subst. cbn [wsumN fold_right] in Hle. fold (wsumN tl) in Hle.
      change (P ++ e :: tl) with (P ++ [e] ++ tl). rewrite app_assoc. apply IH; [|exact Hotl|].
      + apply step_inv; auto. lia.
      + rewrite wsumN_app. cbn [wsumN fold_right]. lia.
  Qed.
End Loop.

Lemma union_list_rev l : union_list (rev l) = union_list l.
Proof.
  apply bs_ext. intros i. rewrite !mem_union_list.
  destruct (existsb (mem i) l) eqn:E.
  - apply existsb_exists in E as [s [H1 H2]]. apply existsb_exists. exists s. split; [now apply in_rev in H1|exact H2].
  - apply not_true_iff_false. intros X. apply existsb_exists in X as [s [H1 H2]]. apply in_rev in H1.
    assert (existsb (mem i) l = true) by (apply existsb_exists; eauto). congruence.
Qed.

(* one call of hwloc_distrib (after the argument check) on roots of total weight tot > 0:
   exactly n slots written, each non-empty and inside the union of the roots, covering it *)
Lemma distrib_loop_good until rv roots n :
  1 <= n -> 0 < wsumN roots -> wsumN roots * n + wsumN roots <= 2 ^ 32 ->
  Forall (entry_ok n (union_list (map e_cs roots))) roots ->
  sub_good (union_list (map e_cs roots)) n (distrib_loop until rv roots n).
Proof.
  intros Hn Ht Hb Hok. unfold distrib_loop.
  assert (Hlt : wsumN roots < 2 ^ 32) by (rewrite pow32 in *; lia).
  rewrite (tot_weight_sum _ Hlt).
  set (tot := wsumN roots) in *. set (U := union_list (map e_cs roots)) in *.
  set (order := if rv then rev roots else roots).
  assert (Ho1 : wsumN order = tot) by (unfold order; destruct rv; [apply wsumN_rev|reflexivity]).
  assert (Ho2 : union_list (map e_cs order) = U).
  { unfold order; destruct rv; [|reflexivity]. now rewrite map_rev, union_list_rev. }
  assert (Ho3 : Forall (entry_ok n U) order).
  { unfold order; destruct rv; [|exact Hok]. apply Forall_forall. intros e He. rewrite Forall_forall in Hok. apply Hok. now apply in_rev. }
  assert (I0 : inv n tot U [] (D_ok [], 0, 0)).
  { exists []. cbn [wsumN fold_right map List.length union_list]. rewrite cdiv_0 by exact Ht. repeat split; constructor. }
  pose proof (loop_inv until n tot U Hn Ht Hb order [] _ I0 Ho3) as L.
  cbn [wsumN fold_right app] in L. specialize (L ltac:(lia)).
  destruct L as (sets & -> & Hlen & Hg & Hu). cbn [fst].
  exists sets. rewrite Ho1, cdiv_tot in Hlen by exact Ht. rewrite Ho2 in Hu. auto.
Qed.

(* ---------- the recursion over the tree ---------- *)

Definition csum (l : list obj) : N := fold_right (fun c acc => weight_u (cs c) + acc) 0 l.

(* domain hypothesis: every cpuset below o is finite with a weight below 2^32
   and the children of any object weigh at most B together *)
Fixpoint wbound (B : N) (o : obj) : bool :=
  match o with
  | Obj _ n _ _ _ =>
      (fix go (l : list obj) : bool := match l with [] => true | c :: tl => wbound B c && go tl end) n &&
      forallb (fun c => small_weight (cs c)) n && (csum n <=? B)
  end.

Lemma wbound_eq B o :
  wbound B o = forallb (wbound B) (onch o) && forallb (fun c => small_weight (cs c)) (onch o) && (csum (onch o) <=? B).
Proof.
  destruct o as [d n m i x]. cbn [wbound onch].
  assert (E : (fix go (l : list obj) : bool := match l with [] => true | c :: tl => wbound B c && go tl end) n = forallb (wbound B) n).
  { induction n as [|c tl IH]; cbn [forallb]; [reflexivity|]. now rewrite IH. }
  now rewrite E.
Qed.

Definition kids (until : Z) (rv : bool) (l : list obj) : list entry :=
  map (fun c => entry_of until rv (cs c) c) l.

Lemma dsub_eq until rv o k : dsub until rv o k = distrib_loop until rv (kids until rv (onch o)) k.
Proof.
  destruct o as [d n m i x]. cbn [dsub onch].
  assert (E : (fix go (l : list obj) : list entry :=
                 match l with [] => [] | c :: tl => (cs c, c, dsub until rv c) :: go tl end) n = kids until rv n).
  { unfold kids, entry_of. induction n as [|c tl IH]; cbn [map]; [reflexivity|]. now rewrite IH. }
  now rewrite E.
Qed.

Lemma kids_cs until rv l : map e_cs (kids until rv l) = map cs l.
Proof. unfold kids. rewrite map_map. reflexivity. Qed.

Lemma kids_wsum until rv l : wsumN (kids until rv l) = csum l.
Proof. induction l as [|c tl IH]; [reflexivity|]. cbn [kids map wsumN csum fold_right] in *. unfold kids in IH. fold (wsumN (map (fun c => entry_of until rv (cs c) c) tl)). rewrite IH. reflexivity. Qed.

Lemma csum_zero l : csum l = 0 -> forall c, In c l -> weight_u (cs c) = 0.
Proof.
  induction l as [|c tl IH]; intros H x Hx; [contradiction|]. cbn [csum fold_right] in H. fold (csum tl) in H.
  destruct Hx as [<-|Hx]; [lia|]. apply IH; [lia|exact Hx].
Qed.

Lemma dsub_good until rv B : forall o, tree_wf o = true -> wbound B o = true ->
  forall k, 1 <= k -> B * k + B <= 2 ^ 32 -> onch o <> [] -> cs o <> bs_empty ->
  sub_good (cs o) k (dsub until rv o k).
Proof.
  intros o. pattern o. apply obj_nind. clear o. intros d n m i x IH W WB k Hk Hb NEn NEo.
  set (o := Obj d n m i x) in *. change (onch o) with n in *.
  pose proof (tree_wf_inv _ W) as (WC & _ & _ & _ & WU). change (onch o) with n in *. specialize (WU NEn).
  rewrite wbound_eq in WB. change (onch o) with n in WB.
  apply andb_true_iff in WB as [WB WB3]. apply andb_true_iff in WB as [WB1 WB2]. apply N.leb_le in WB3.
  rewrite forallb_forall in WB1, WB2. rewrite Forall_forall in WC, IH.
  rewrite dsub_eq. change (onch o) with n. rewrite WU. rewrite <- (kids_cs until rv n).
  assert (Hcs : csum n * k + csum n <= B * k + B).
  { assert (csum n * k <= B * k) by (apply N.mul_le_mono_r; exact WB3). lia. }
  apply distrib_loop_good; try exact Hk.
  - rewrite kids_wsum. destruct (N.eq_dec (csum n) 0) as [Z0|]; [|lia]. exfalso. apply NEo. rewrite WU.
    apply bs_ext. intros j. rewrite mem_empty, mem_union_list. apply not_true_iff_false. intros X.
    apply existsb_exists in X as [s [H1 H2]]. apply in_map_iff in H1 as [c [<- Hc]].
    rewrite (weight_u_zero _ (WB2 c Hc) (csum_zero _ Z0 c Hc)), mem_empty in H2. discriminate.
  - rewrite kids_wsum. lia.
  - apply Forall_forall. intros e He. unfold kids in He. apply in_map_iff in He as [c [<- Hc]].
    unfold entry_ok, entry_of, e_cs, e_obj, e_sub. cbn [fst snd].
    split; [apply WB2; exact Hc|]. split.
    + rewrite kids_cs. apply bs_subset_spec. intros j Hj. rewrite mem_union_list. apply existsb_exists.
      exists (cs c). split; [now apply in_map|exact Hj].
    + intros k' Hk1 Hk2 Har Hwc.
      pose proof (tree_wf_inv _ (WC c Hc)) as (_ & _ & Harity & _).
      apply (IH c Hc (WC c Hc) (WB1 c Hc)).
      * lia.
      * assert (B * k' <= B * k) by (apply N.mul_le_mono_l; exact Hk2). lia.
      * intros X. rewrite X in Harity. cbn in Harity. contradiction.
      * intros X. apply Hwc. rewrite X. reflexivity.
Qed.

(* ---------- hwloc_distrib ---------- *)

Definition rsum (roots : list (bset * obj)) : N := fold_right (fun r acc => weight_u (fst r) + acc) 0 roots.

Definition root_ok (B : N) (r : bset * obj) : Prop :=
  fst r = cs (snd r) /\ tree_wf (snd r) = true /\ wbound B (snd r) = true /\ small_weight (fst r) = true.

Lemma rsum_zero l : rsum l = 0 -> forall r, In r l -> weight_u (fst r) = 0.
Proof.
  induction l as [|c tl IH]; intros H x Hx; [contradiction|]. cbn [rsum fold_right] in H. fold (rsum tl) in H.
  destruct Hx as [<-|Hx]; [lia|]. apply IH; [lia|exact Hx].
Qed.

(* distrib_count + distrib_nonempty_included_cover: for roots of positive total weight
   and n >= 1 in the no-wrap domain, the call succeeds and writes exactly n
   slots; every set is non-empty and inside the union of the roots' cpusets,
   and together they cover it *)
Lemma hwloc_distrib_good roots n until flags B :
  1 <= n -> (flags = 0 \/ flags = HWLOC_DISTRIB_FLAG_REVERSE) ->
  Forall (root_ok B) roots -> rsum roots <= B -> B * n + B <= 2 ^ 32 ->
  (exists r, In r roots /\ fst r <> bs_empty) ->
  exists sets, hwloc_distrib roots n until flags = (0%Z, 0, D_ok (map Some sets)) /\
               N.of_nat (List.length sets) = n /\
               Forall (fun s => s <> bs_empty /\ bs_subset s (roots_union roots) = true) sets /\
               union_list sets = roots_union roots.
Proof.
  intros Hn Hfl Hok Hsum Hb [r0 [Hr0 NE0]].
  unfold hwloc_distrib.
  assert (E1 : (n =? 0) = false) by (apply N.eqb_neq; lia).
  assert (E2 : (N.ldiff flags HWLOC_DISTRIB_FLAG_REVERSE =? 0) = true).
  { apply N.eqb_eq. destruct Hfl as [-> | ->]; [apply N.ldiff_0_l|apply N.ldiff_diag]. }
  rewrite E1, E2. cbn [orb negb].
  set (rv := negb (N.land flags HWLOC_DISTRIB_FLAG_REVERSE =? 0)).
  set (es := map (fun r => entry_of until rv (fst r) (snd r)) roots).
  assert (Ecs : map e_cs es = map fst roots) by (unfold es; rewrite map_map; reflexivity).
  assert (Ews : wsumN es = rsum roots).
  { unfold es. clear. induction roots as [|r tl IH]; [reflexivity|]. cbn [map wsumN rsum fold_right] in *.
    fold (wsumN (map (fun r => entry_of until rv (fst r) (snd r)) tl)). rewrite IH. reflexivity. }
  assert (G : sub_good (union_list (map e_cs es)) n (distrib_loop until rv es n)).
  { assert (Hrs : rsum roots * n + rsum roots <= B * n + B).
    { assert (rsum roots * n <= B * n) by (apply N.mul_le_mono_r; exact Hsum). lia. }
    apply distrib_loop_good; try exact Hn.
    - rewrite Ews. destruct (N.eq_dec (rsum roots) 0) as [Z0|]; [|lia]. exfalso. apply NE0.
      rewrite Forall_forall in Hok. destruct (Hok r0 Hr0) as (_ & _ & _ & Hs).
      apply (weight_u_zero _ Hs). now apply (rsum_zero roots).
    - rewrite Ews. lia.
    - apply Forall_forall. intros e He. unfold es in He. apply in_map_iff in He as [r [<- Hr]].
      rewrite Forall_forall in Hok. destruct (Hok r Hr) as (Hcs & W & WB & Hs).
      unfold entry_ok. rewrite Ecs. unfold entry_of, e_cs, e_obj, e_sub. cbn [fst snd].
      split; [exact Hs|]. split.
      + apply bs_subset_spec. intros j Hj. rewrite mem_union_list. apply existsb_exists.
        exists (fst r). split; [now apply in_map|exact Hj].
      + intros k Hk1 Hk2 Har Hwc. rewrite Hcs.
        pose proof (tree_wf_inv _ W) as (_ & _ & Harity & _).
        apply (dsub_good until rv B (snd r) W WB).
        * lia.
        * assert (B * k <= B * n) by (apply N.mul_le_mono_l; exact Hk2). lia.
        * intros X. rewrite X in Harity. cbn in Harity. contradiction.
        * intros X. apply Hwc. rewrite Hcs, X. reflexivity. }
  assert (Etot : (tot_weight es =? 0) = false).
  { assert (B * 1 <= B * n) by (apply N.mul_le_mono_l; lia).
    apply N.eqb_neq. rewrite tot_weight_sum by (rewrite Ews; rewrite pow32 in *; lia). rewrite Ews.
    intros Z0. apply NE0. rewrite Forall_forall in Hok. destruct (Hok r0 Hr0) as (_ & _ & _ & Hs).
    apply (weight_u_zero _ Hs). now apply (rsum_zero roots). }
  fold es. rewrite Etot.
  destruct G as (sets & Es & Hlen & Hg & Hu). rewrite Es, (pad_exact _ _ Hlen).
  exists sets. unfold roots_union. rewrite Ecs in *. auto.
Qed.

(* roots without any CPU: the call fails with EINVAL and writes nothing (fix 18dcd81) *)
Lemma hwloc_distrib_cpuless roots n until flags :
  Forall (fun r => weight_u (fst r) = 0) roots ->
  fst (fst (hwloc_distrib roots n until flags)) = (-1)%Z /\ snd (fst (hwloc_distrib roots n until flags)) = 1 /\
  snd (hwloc_distrib roots n until flags) = D_ok [].
Proof.
  intros Hz. unfold hwloc_distrib.
  destruct ((n =? 0) || negb (N.ldiff flags HWLOC_DISTRIB_FLAG_REVERSE =? 0)); [auto|].
  set (rv := negb (N.land flags HWLOC_DISTRIB_FLAG_REVERSE =? 0)).
  assert (E : tot_weight (map (fun r => entry_of until rv (fst r) (snd r)) roots) = 0).
  { unfold tot_weight. generalize dependent roots. induction roots as [|r tl IH]; intros Hz; [reflexivity|].
    inversion Hz as [|? ? Hr Htl]; subst. cbn [map fold_left]. unfold e_cs at 2, entry_of at 2. cbn [fst]. rewrite Hr. cbn [N.add].
    change (u32 0) with 0. apply IH. exact Htl. }
  rewrite E. cbn. auto.
Qed.

(* ================================================================== *)
(* distrib_disjoint: pairwise disjoint answers                         *)

(* ---------- the cardinal of a disjoint union ---------- *)

Lemma count_below_union b a c : bs_intersects a c = false ->
  count_below b (bs_union a c) = count_below b a + count_below b c.
Proof.
  intros D. induction b as [|b IH]; cbn [count_below]; [reflexivity|]. rewrite IH, mem_union.
  destruct (mem (N.of_nat b) a) eqn:Ea, (mem (N.of_nat b) c) eqn:Ec; cbn [orb]; try lia.
  exfalso. assert (bs_intersects a c = true) by (apply bs_intersects_spec; eauto). congruence.
Qed.

Lemma count_below_stable s B : (forall i, N.of_nat B <= i -> mem i s = false) ->
  forall b, (B <= b)%nat -> count_below b s = count_below B s.
Proof.
  intros H b Hb. induction Hb as [|b Hb IH]; [reflexivity|]. cbn [count_below]. rewrite IH, H by lia. lia.
Qed.

Lemma weight_count s : inf s = false -> exists B, forall b, (B <= b)%nat -> bs_weight s = Some (count_below b s).
Proof.
  destruct s as [f i]. cbn [inf]. intros ->. unfold bs_weight. cbn [inf fin]. destruct f as [|p].
  - exists 0%nat. intros b _. f_equal. induction b as [|b IH]; cbn [count_below]; [reflexivity|].
    rewrite <- IH. unfold mem. cbn [fin inf]. rewrite N.bits_0. reflexivity.
  - exists (Pos.to_nat (Pos.size p)). intros b Hb. f_equal. rewrite pos_weight_count.
    symmetry. apply count_below_stable; [|exact Hb].
    intros j Hj. unfold mem, bs_of_N. cbn [fin inf]. rewrite xorb_false_r. apply N.bits_above_log2.
    pose proof (N.size_log2 (Npos p) ltac:(discriminate)) as E. cbn [N.size] in E. lia.
Qed.

Lemma weight_union a c : inf a = false -> inf c = false -> bs_intersects a c = false ->
  exists wa wc, bs_weight a = Some wa /\ bs_weight c = Some wc /\ bs_weight (bs_union a c) = Some (wa + wc).
Proof.
  intros Ia Ic D.
  assert (Iu : inf (bs_union a c) = false) by (unfold bs_union; rewrite Ia, Ic; reflexivity).
  destruct (weight_count a Ia) as [B1 H1]. destruct (weight_count c Ic) as [B2 H2]. destruct (weight_count _ Iu) as [B3 H3].
  set (b := (B1 + B2 + B3)%nat).
  exists (count_below b a), (count_below b c). split; [apply H1; lia|]. split; [apply H2; lia|].
  rewrite (H3 b) by lia. now rewrite count_below_union.
Qed.

Lemma small_weight_inf s : small_weight s = true -> inf s = false /\ bs_weight s = Some (weight_u s).
Proof.
  unfold small_weight, weight_u. destruct (bs_weight s) as [w|] eqn:E; [|discriminate].
  intros H. apply N.ltb_lt in H. rewrite u32_small by exact H. split; [|reflexivity].
  unfold bs_weight in E. destruct (inf s); [discriminate|reflexivity].
Qed.

Definition ssum (l : list bset) : N := fold_right (fun s acc => weight_u s + acc) 0 l.

Lemma disjoint_union_list s l : forallb (fun t => negb (bs_intersects s t)) l = true -> bs_intersects s (union_list l) = false.
Proof.
  intros H. apply intersects_false. intros i Hi. rewrite mem_union_list. apply not_true_iff_false. intros X.
  apply existsb_exists in X as [t [H1 H2]]. rewrite forallb_forall in H. specialize (H t H1). apply negb_true_iff in H.
  rewrite intersects_false in H. rewrite (H i Hi) in H2. discriminate.
Qed.

Lemma union_list_weight l : forallb small_weight l = true -> pairwise_disjoint l = true ->
  bs_weight (union_list l) = Some (ssum l).
Proof.
  induction l as [|s tl IH]; intros Hs Hd; [reflexivity|].
  cbn [forallb] in Hs. apply andb_true_iff in Hs as [Hs1 Hs2].
  cbn [pairwise_disjoint] in Hd. apply andb_true_iff in Hd as [Hd1 Hd2].
  specialize (IH Hs2 Hd2). cbn [union_list fold_right ssum]. fold (union_list tl) (ssum tl).
  destruct (small_weight_inf s Hs1) as [I1 W1].
  assert (I2 : inf (union_list tl) = false) by (unfold bs_weight in IH; destruct (inf (union_list tl)); [discriminate|reflexivity]).
  destruct (weight_union s (union_list tl) I1 I2 (disjoint_union_list _ _ Hd1)) as (wa & wc & E1 & E2 & E3).
  rewrite E3. congruence.
Qed.

Lemma weight_u_le s w : bs_weight s = Some w -> weight_u s <= w.
Proof. unfold weight_u. intros ->. unfold u32. apply N.mod_le. rewrite pow32. discriminate. Qed.

Lemma csum_ssum l : csum l = ssum (map cs l).
Proof. induction l as [|c tl IH]; [reflexivity|]. cbn [map]. unfold csum, ssum in *. cbn [fold_right]. now rewrite IH. Qed.

(* the weight of an object is at most the sum of its children's *)
Lemma weight_le_csum B o : tree_wf o = true -> wbound B o = true -> onch o <> [] -> weight_u (cs o) <= csum (onch o).
Proof.
  intros W WB NE. pose proof (tree_wf_inv _ W) as (_ & WD & _ & _ & WU). specialize (WU NE).
  rewrite wbound_eq in WB. apply andb_true_iff in WB as [WB _]. apply andb_true_iff in WB as [_ WB2].
  rewrite WU, csum_ssum. apply weight_u_le. apply union_list_weight; [|exact WD].
  rewrite forallb_forall in *. intros s Hs. apply in_map_iff in Hs as [c [<- Hc]]. auto.
Qed.

Lemma cdiv_add_le n tot x w : 0 < tot -> n <= tot -> cdiv n tot (x + w) <= cdiv n tot x + w.
Proof.
  intros Ht Hn. unfold cdiv.
  assert (E : (x * n + tot - 1) / tot + w = (x * n + tot - 1 + w * tot) / tot) by (symmetry; apply N.div_add; lia).
  rewrite E. apply N.div_le_mono; [lia|].
  assert (w * n <= w * tot) by (apply N.mul_le_mono_l; exact Hn). lia.
Qed.

Lemma pairwise_disjoint_app_inv a b : pairwise_disjoint (a ++ b) = true ->
  pairwise_disjoint a = true /\ pairwise_disjoint b = true /\ (forall s t, In s a -> In t b -> bs_intersects s t = false).
Proof.
  induction a as [|x tl IH]; cbn [app pairwise_disjoint]; intros H; [repeat split; auto; intros s t []|].
  apply andb_true_iff in H as [H1 H2]. rewrite forallb_app in H1. apply andb_true_iff in H1 as [H1a H1b].
  destruct (IH H2) as (I1 & I2 & I3). split; [now rewrite H1a, I1|]. split; [exact I2|].
  intros s t [<-|Hs] Ht; [|auto]. rewrite forallb_forall in H1b. now apply negb_true_iff, H1b.
Qed.

Lemma pairwise_disjoint_rev l : pairwise_disjoint l = true -> pairwise_disjoint (rev l) = true.
Proof.
  induction l as [|s tl IH]; intros H; [reflexivity|]. cbn [pairwise_disjoint] in H. apply andb_true_iff in H as [H1 H2].
  cbn [rev]. apply pairwise_disjoint_app; [auto|reflexivity|].
  intros t u Ht [<-|[]]. apply in_rev in Ht. rewrite forallb_forall in H1. rewrite intersects_sym. now apply negb_true_iff, H1.
Qed.

Definition sub_goodD (T : bset) (k : N) (r : dres) : Prop :=
  exists sets, r = D_ok (map Some sets) /\ N.of_nat (List.length sets) = k /\ good_sets T sets /\ union_list sets = T /\
               pairwise_disjoint sets = true.

Section LoopD.
  Variables (until : Z) (n tot : N) (U : bset).
  Hypothesis Hn : 1 <= n.
  Hypothesis Htot : 0 < tot.
  Hypothesis Hb : tot * n + tot <= 2 ^ 32.
  Hypothesis Hnt : n <= tot.

  Definition entry_okD (e : entry) : Prop :=
    small_weight (e_cs e) = true /\
    bs_subset (e_cs e) U = true /\
    (o_arity (odata (e_obj e)) = 0 \/ (until <= o_depth (odata (e_obj e)))%Z -> weight_u (e_cs e) <= 1) /\
    (forall k, 2 <= k -> k <= n -> k <= weight_u (e_cs e) -> o_arity (odata (e_obj e)) <> 0 -> (o_depth (odata (e_obj e)) < until)%Z ->
               sub_goodD (e_cs e) k (e_sub e k)).

  Definition invD (P : list entry) (st : dstate) : Prop :=
    exists sets, st = (D_ok (map Some sets), cdiv n tot (wsumN P), wsumN P) /\
                 N.of_nat (List.length sets) = cdiv n tot (wsumN P) /\
                 good_sets U sets /\ union_list sets = union_list (map e_cs P) /\ pairwise_disjoint sets = true.

  (* a set inside the processed roots does not meet a root disjoint from them *)
  Lemma old_new_disjoint sets P c s t :
    union_list sets = union_list (map e_cs P) -> (forall e', In e' P -> bs_intersects (e_cs e') c = false) ->
    In s sets -> bs_subset t c = true -> bs_intersects s t = false.
  Proof.
    intros Hun Hd Hs Ht. apply intersects_false. intros i Hi.
    destruct (mem i t) eqn:Et; auto. exfalso.
    assert (M : mem i (union_list sets) = true) by (rewrite mem_union_list; apply existsb_exists; eauto).
    rewrite Hun, mem_union_list in M. apply existsb_exists in M as [u [H1 H2]]. apply in_map_iff in H1 as [e' [<- He']].
    specialize (Hd e' He'). rewrite intersects_false in Hd. rewrite bs_subset_spec in Ht.
    pose proof (Ht i Et) as K. rewrite (Hd i H2) in K. discriminate.
  Qed.

  Lemma step_invD P e st :
    invD P st -> entry_okD e -> wsumN P + weight_u (e_cs e) <= tot ->
    (forall e', In e' P -> bs_intersects (e_cs e') (e_cs e) = false) ->
    invD (P ++ [e]) (distrib_step until n tot st e).
  Proof.
    intros (sets & -> & Hlen & Hgood & Hun & Hpd) (Hsm & Hsub & Hleaf & Hrec) Hle Hdj.
    set (gw := wsumN P) in *. set (w := weight_u (e_cs e)) in *.
    assert (HwP : wsumN (P ++ [e]) = gw + w).
    { rewrite wsumN_app. cbn [wsumN fold_right]. fold w. fold gw. lia. }
    assert (HUP : union_list (map e_cs (P ++ [e])) = bs_union (union_list (map e_cs P)) (e_cs e)).
    { rewrite map_app, union_list_app. cbn [map union_list fold_right]. now rewrite union_empty_r. }
    unfold distrib_step. fold w.
    destruct (N.eqb_spec w 0) as [Ew|Nw].
    - exists sets. rewrite HwP. rewrite Ew. rewrite N.add_0_r. repeat split; auto.
      rewrite HUP, (weight_u_zero _ Hsm Ew), union_empty_r. exact Hun.
    - assert (Hc : chunk_of gw w n tot = cdiv n tot (gw + w) - cdiv n tot gw) by (apply chunk_of_exact; assumption).
      pose proof (cdiv_mono n tot gw (gw + w) Htot ltac:(lia)) as Hmono.
      pose proof (cdiv_le_n n tot (gw + w) Htot Hle) as Hlen'.
      pose proof (cdiv_add_le n tot gw w Htot Hnt) as Hcw.
      assert (Hn32 : n < 2 ^ 32).
      { assert (1 * n <= tot * n) by (apply N.mul_le_mono_r; lia). lia. }
      set (chunk := chunk_of gw w n tot) in *.
      assert (Eg : u32 (cdiv n tot gw + chunk) = cdiv n tot (gw + w)) by (rewrite u32_small; lia).
      assert (Ew' : u32 (gw + w) = gw + w).
      { apply u32_small. assert (tot <= tot * n + tot) by lia. rewrite pow32 in *. lia. }
      unfold invD. rewrite Eg, Ew'. rewrite HwP, HUP.
      assert (NEe : e_cs e <> bs_empty) by (intros X; apply Nw; unfold w; rewrite X; reflexivity).
      destruct ((o_arity (odata (e_obj e)) =? 0) || (chunk <=? 1) || (until <=? o_depth (odata (e_obj e)))%Z) eqn:Eleaf.
      + assert (Hc1 : chunk <= 1).
        { apply orb_true_iff in Eleaf as [Eleaf|E3].
          - apply orb_true_iff in Eleaf as [E1|E2]; [|now apply N.leb_le].
            apply N.eqb_eq in E1. specialize (Hleaf (or_introl E1)). lia.
          - apply Z.leb_le in E3. specialize (Hleaf (or_intror E3)). lia. }
        destruct (N.ltb_spec 0 chunk) as [Hpos|Hzero].
        * assert (E1 : N.to_nat chunk = 1%nat) by lia. rewrite E1. cbn [repeat].
          exists (sets ++ [e_cs e]). rewrite map_app. cbn [map]. split; [reflexivity|]. split; [rewrite app_length; cbn [List.length]; lia|].
          split; [apply Forall_app; split; [exact Hgood|constructor; [auto|constructor]]|].
          split; [rewrite union_list_app, Hun; cbn [union_list fold_right]; now rewrite union_empty_r|].
          apply pairwise_disjoint_app; [exact Hpd|reflexivity|].
          intros s t Hs [<-|[]]. eapply old_new_disjoint; eauto. apply subset_refl.
        * assert (Hgw : gw <> 0).
          { intros X. rewrite X in *. rewrite cdiv_0 in Hc by exact Htot. cbn [N.add] in Hc.
            pose proof (cdiv_pos n tot w Htot ltac:(lia) Hn). lia. }
          pose proof (cdiv_pos n tot gw Htot ltac:(lia) Hn) as Hg1.
          destruct (N.eqb_spec (cdiv n tot gw) 0) as [X|_]; [lia|].
          destruct (exists_last (l := sets)) as (sets0 & l & ->).
          { intros X. rewrite X in Hlen. cbn in Hlen. lia. }
          unfold or_last. rewrite map_app. cbn [map]. rewrite last_last, removelast_last.
          exists (sets0 ++ [bs_union l (e_cs e)]). rewrite map_app. cbn [map].
          split; [reflexivity|]. split; [rewrite app_length in *; cbn [List.length] in *; lia|].
          unfold good_sets in Hgood. apply Forall_app in Hgood as [G0 Gl]. inversion Gl as [|? ? [Gl1 Gl2] _]; subst.
          destruct (pairwise_disjoint_app_inv _ _ Hpd) as (P0 & _ & P1).
          split.
          { apply Forall_app. split; [exact G0|]. constructor; [|constructor]. split.
            - intros X. apply NEe. apply bs_ext. intros i. rewrite mem_empty.
              assert (Y : mem i (bs_union l (e_cs e)) = false) by (rewrite X; apply mem_empty).
              rewrite mem_union in Y. now apply orb_false_iff in Y.
            - apply bs_subset_spec. intros i. rewrite mem_union. rewrite bs_subset_spec in Gl2, Hsub.
              intros Y. apply orb_true_iff in Y as [Y|Y]; auto. }
          split.
          { rewrite union_list_app in *. cbn [union_list fold_right] in *. rewrite <- Hun.
            apply bs_ext. intros i. rewrite !mem_union, !mem_empty.
            destruct (mem i (union_list sets0)), (mem i l), (mem i (e_cs e)); reflexivity. }
          apply pairwise_disjoint_app; [exact P0|reflexivity|].
          intros s t Hs [<-|[]]. apply intersects_false. intros i Hi. rewrite mem_union.
          pose proof (P1 s l Hs (or_introl eq_refl)) as D1. rewrite intersects_false in D1. rewrite (D1 i Hi). cbn [orb].
          assert (D2 : bs_intersects s (e_cs e) = false).
          { eapply old_new_disjoint; [exact Hun|exact Hdj| |apply subset_refl]. apply in_or_app. now left. }
          rewrite intersects_false in D2. auto.
      + apply orb_false_iff in Eleaf as [Eleaf E3]. apply orb_false_iff in Eleaf as [E1 E2].
        apply N.eqb_neq in E1. apply N.leb_gt in E2. apply Z.leb_gt in E3.
        destruct (Hrec chunk ltac:(lia) ltac:(lia) ltac:(lia) E1 E3) as (ss & Es & Els & Egs & Eus & Eds).
        rewrite Es. rewrite (pad_exact _ _ Els).
        exists (sets ++ ss). rewrite map_app. split; [reflexivity|]. split; [rewrite app_length; lia|].
        split; [apply Forall_app; split; [exact Hgood|eapply good_sets_mono; eauto]|].
        split; [rewrite union_list_app, Hun, Eus; reflexivity|].
        apply pairwise_disjoint_app; [exact Hpd|exact Eds|].
        intros s t Hs Ht. eapply old_new_disjoint; eauto.
        unfold good_sets in Egs. rewrite Forall_forall in Egs. now apply Egs.
  Qed.

  Lemma loop_invD rest : forall P st,
    invD P st -> Forall entry_okD rest -> wsumN P + wsumN rest <= tot ->
    pairwise_disjoint (map e_cs (P ++ rest)) = true ->
    invD (P ++ rest) (fold_left (distrib_step until n tot) rest st).
  Proof.
    induction rest as [|e tl IH]; intros P st Hi Hok Hle Hpd; cbn [fold_left].
    - now rewrite app_nil_r.
    - inversion Hok as [|? ? Hoe Hotl]; subst. cbn [wsumN fold_right] in Hle. fold (wsumN tl) in Hle.
      change (P ++ e :: tl) with (P ++ [e] ++ tl) in *. rewrite app_assoc in *. apply IH; [|exact Hotl| |exact Hpd].
      + apply step_invD; auto; [lia|].
        rewrite map_app in Hpd. destruct (pairwise_disjoint_app_inv _ _ Hpd) as (D1 & _ & _).
        rewrite map_app in D1. destruct (pairwise_disjoint_app_inv _ _ D1) as (_ & _ & D2).
        intros e' He'. apply D2; [now apply in_map|now left].
      + rewrite wsumN_app. cbn [wsumN fold_right]. lia.
  Qed.
End LoopD.

Lemma distrib_loop_goodD until rv roots n :
  1 <= n -> n <= wsumN roots -> wsumN roots * n + wsumN roots <= 2 ^ 32 ->
  pairwise_disjoint (map e_cs roots) = true ->
  Forall (entry_okD until n (union_list (map e_cs roots))) roots ->
  sub_goodD (union_list (map e_cs roots)) n (distrib_loop until rv roots n).
Proof.
  intros Hn Hnt Hb Hpd Hok. unfold distrib_loop.
  assert (Ht : 0 < wsumN roots) by lia.
  assert (Hlt : wsumN roots < 2 ^ 32) by (rewrite pow32 in *; lia).
  rewrite (tot_weight_sum _ Hlt).
  set (tot := wsumN roots) in *. set (U := union_list (map e_cs roots)) in *.
  set (order := if rv then rev roots else roots).
  assert (Ho1 : wsumN order = tot) by (unfold order; destruct rv; [apply wsumN_rev|reflexivity]).
  assert (Ho2 : union_list (map e_cs order) = U).
  { unfold order; destruct rv; [|reflexivity]. now rewrite map_rev, union_list_rev. }
  assert (Ho3 : Forall (entry_okD until n U) order).
  { unfold order; destruct rv; [|exact Hok]. apply Forall_forall. intros e He. rewrite Forall_forall in Hok. apply Hok. now apply in_rev. }
  assert (Ho4 : pairwise_disjoint (map e_cs order) = true).
  { unfold order; destruct rv; [|exact Hpd]. rewrite map_rev. now apply pairwise_disjoint_rev. }
  assert (I0 : invD n tot U [] (D_ok [], 0, 0)).
  { exists []. cbn [wsumN fold_right map List.length union_list]. rewrite cdiv_0 by exact Ht. repeat split; constructor. }
  pose proof (loop_invD until n tot U Hn Ht Hb Hnt order [] _ I0 Ho3) as L.
  cbn [wsumN fold_right app] in L. specialize (L ltac:(lia) Ho4).
  destruct L as (sets & -> & Hlen & Hg & Hu & Hd). cbn [fst].
  exists sets. rewrite Ho1, cdiv_tot in Hlen by exact Ht. rewrite Ho2 in Hu. auto.
Qed.

(* ---------- the recursion over the tree ---------- *)

Lemma dist_leaves_eq until o :
  dist_leaves until o =
  if bs_is_empty (cs o) then []
  else if (o_arity (odata o) =? 0) || (until <=? o_depth (odata o))%Z then [o]
  else flat_map (dist_leaves until) (onch o).
Proof.
  destruct o as [d n m i x]. cbn [dist_leaves onch odata]. destruct (bs_is_empty _); [reflexivity|].
  destruct (_ || _); [reflexivity|]. induction n as [|c tl IH]; cbn [flat_map]; [reflexivity|]. now rewrite IH.
Qed.

(* every distribution leaf below o is a single PU *)
Definition unit_leaves (until : Z) (o : obj) : bool := forallb (fun l => weight_u (cs l) =? 1) (dist_leaves until o).

Lemma unit_leaves_child until o c :
  unit_leaves until o = true -> cs o <> bs_empty -> o_arity (odata o) <> 0 -> (o_depth (odata o) < until)%Z ->
  In c (onch o) -> unit_leaves until c = true.
Proof.
  unfold unit_leaves. rewrite (dist_leaves_eq until o). intros H NE Ha Hd Hc.
  apply is_empty_false in NE. rewrite NE in H.
  assert (E : (o_arity (odata o) =? 0) || (until <=? o_depth (odata o))%Z = false).
  { apply orb_false_iff. split; [now apply N.eqb_neq|now apply Z.leb_gt]. }
  rewrite E in H. apply forallb_forall. intros l Hl. rewrite forallb_forall in H. apply H. apply in_flat_map. eauto.
Qed.

Lemma unit_leaf_weight until c :
  unit_leaves until c = true -> (o_arity (odata c) = 0 \/ (until <= o_depth (odata c))%Z) -> weight_u (cs c) <= 1.
Proof.
  unfold unit_leaves. rewrite dist_leaves_eq. intros H L. destruct (bs_is_empty (cs c)) eqn:E.
  - apply bs_is_empty_spec in E. rewrite E. cbn. lia.
  - assert (X : (o_arity (odata c) =? 0) || (until <=? o_depth (odata c))%Z = true).
    { apply orb_true_iff. destruct L as [L|L]; [left; now apply N.eqb_eq|right; now apply Z.leb_le]. }
    rewrite X in H. cbn [forallb] in H. apply andb_true_iff in H as [H _]. apply N.eqb_eq in H. lia.
Qed.

Lemma dsub_goodD until rv B : forall o, tree_wf o = true -> wbound B o = true -> unit_leaves until o = true ->
  forall k, 1 <= k -> k <= weight_u (cs o) -> B * k + B <= 2 ^ 32 ->
  o_arity (odata o) <> 0 -> (o_depth (odata o) < until)%Z ->
  sub_goodD (cs o) k (dsub until rv o k).
Proof.
  intros o. pattern o. apply obj_nind. clear o. intros d n m i x IH W WB UL k Hk Hkw Hb Har Hdep.
  set (o := Obj d n m i x) in *.
  assert (NEo : cs o <> bs_empty) by (intros X; rewrite X in Hkw; cbn in Hkw; lia).
  pose proof (tree_wf_inv _ W) as (WC & WD & Harity & _ & WU). change (onch o) with n in *.
  assert (NEn : n <> []) by (intros X; rewrite X in Harity; cbn in Harity; contradiction).
  specialize (WU NEn).
  pose proof (weight_le_csum B o W WB NEn) as Hwc. change (onch o) with n in Hwc.
  rewrite wbound_eq in WB. change (onch o) with n in WB.
  apply andb_true_iff in WB as [WB WB3]. apply andb_true_iff in WB as [WB1 WB2]. apply N.leb_le in WB3.
  rewrite forallb_forall in WB1, WB2. rewrite Forall_forall in WC, IH.
  rewrite dsub_eq. change (onch o) with n. rewrite WU. rewrite <- (kids_cs until rv n).
  assert (Hcs : csum n * k + csum n <= B * k + B).
  { assert (csum n * k <= B * k) by (apply N.mul_le_mono_r; exact WB3). lia. }
  apply distrib_loop_goodD; try exact Hk.
  - rewrite kids_wsum. lia.
  - rewrite kids_wsum. lia.
  - rewrite kids_cs. exact WD.
  - apply Forall_forall. intros e He. unfold kids in He. apply in_map_iff in He as [c [<- Hc]].
    unfold entry_okD. rewrite kids_cs. unfold entry_of, e_cs, e_obj, e_sub. cbn [fst snd].
    pose proof (unit_leaves_child until o c UL NEo Har Hdep Hc) as ULc.
    split; [apply WB2; exact Hc|]. split; [|split].
    + apply bs_subset_spec. intros j Hj. rewrite mem_union_list. apply existsb_exists.
      exists (cs c). split; [now apply in_map|exact Hj].
    + apply unit_leaf_weight. exact ULc.
    + intros k' Hk1 Hk2 Hk3 Harc Hdc.
      apply (IH c Hc (WC c Hc) (WB1 c Hc) ULc); auto; try lia.
      assert (B * k' <= B * k) by (apply N.mul_le_mono_l; exact Hk2). lia.
Qed.

(* distrib_disjoint: the n sets are pairwise disjoint when the roots are pairwise disjoint, every
   distribution leaf below them is a single PU and n does not exceed their number (= total weight) *)
Lemma hwloc_distrib_disjoint roots n until flags B :
  1 <= n -> (flags = 0 \/ flags = HWLOC_DISTRIB_FLAG_REVERSE) ->
  Forall (root_ok B) roots -> rsum roots <= B -> B * n + B <= 2 ^ 32 ->
  pairwise_disjoint (map fst roots) = true ->
  Forall (fun r => unit_leaves until (snd r) = true) roots ->
  n <= rsum roots ->
  exists sets, hwloc_distrib roots n until flags = (0%Z, 0, D_ok (map Some sets)) /\
               N.of_nat (List.length sets) = n /\ pairwise_disjoint sets = true.
Proof.
  intros Hn Hfl Hok Hsum Hb Hpd Hul Hnr.
  unfold hwloc_distrib.
  assert (E1 : (n =? 0) = false) by (apply N.eqb_neq; lia).
  assert (E2 : (N.ldiff flags HWLOC_DISTRIB_FLAG_REVERSE =? 0) = true).
  { apply N.eqb_eq. destruct Hfl as [-> | ->]; [apply N.ldiff_0_l|apply N.ldiff_diag]. }
  rewrite E1, E2. cbn [orb negb].
  set (rv := negb (N.land flags HWLOC_DISTRIB_FLAG_REVERSE =? 0)).
  set (es := map (fun r => entry_of until rv (fst r) (snd r)) roots).
  assert (Ecs : map e_cs es = map fst roots) by (unfold es; rewrite map_map; reflexivity).
  assert (Ews : wsumN es = rsum roots).
  { unfold es. clear. induction roots as [|r tl IH]; [reflexivity|]. cbn [map wsumN rsum fold_right] in *.
    fold (wsumN (map (fun r => entry_of until rv (fst r) (snd r)) tl)). rewrite IH. reflexivity. }
  assert (HB1 : B * 1 <= B * n) by (apply N.mul_le_mono_l; lia).
  assert (G : sub_goodD (union_list (map e_cs es)) n (distrib_loop until rv es n)).
  { assert (Hrs : rsum roots * n + rsum roots <= B * n + B).
    { assert (rsum roots * n <= B * n) by (apply N.mul_le_mono_r; exact Hsum). lia. }
    apply distrib_loop_goodD; try exact Hn.
    - rewrite Ews. exact Hnr.
    - rewrite Ews. lia.
    - rewrite Ecs. exact Hpd.
    - apply Forall_forall. intros e He. unfold es in He. apply in_map_iff in He as [r [<- Hr]].
      rewrite Forall_forall in Hok, Hul. destruct (Hok r Hr) as (Hcs & W & WB & Hs). pose proof (Hul r Hr) as ULr.
      unfold entry_okD. rewrite Ecs. unfold entry_of, e_cs, e_obj, e_sub. cbn [fst snd].
      split; [exact Hs|]. split; [|split].
      + apply bs_subset_spec. intros j Hj. rewrite mem_union_list. apply existsb_exists.
        exists (fst r). split; [now apply in_map|exact Hj].
      + rewrite Hcs. apply unit_leaf_weight. exact ULr.
      + intros k Hk1 Hk2 Hk3 Har Hdep. rewrite Hcs in *.
        apply (dsub_goodD until rv B (snd r) W WB ULr); auto; try lia.
        assert (B * k <= B * n) by (apply N.mul_le_mono_l; exact Hk2). lia. }
  assert (Etot : (tot_weight es =? 0) = false).
  { apply N.eqb_neq. rewrite tot_weight_sum by (rewrite Ews; rewrite pow32 in *; lia). rewrite Ews. lia. }
  fold es. rewrite Etot.
  destruct G as (sets & Es & Hlen & Hg & Hu & Hd). rewrite Es, (pad_exact _ _ Hlen).
  exists sets. auto.
Qed.
