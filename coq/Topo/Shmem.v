(* C19 — shared-memory topologies (hwloc/shmem.c): the dup of Topo/Dup.v run under
   the two allocators of shmem.c, the header, the adoption checks, and what each
   public call does to an adopted (read-only mapped) topology.

   tma_get_length_malloc:  *length += align(n); return malloc(n)
   tma_shmem_malloc:       p = cursor; cursor += align(n); return p
   align(n) = (n + ALIGN - 1) & ~(ALIGN - 1)   (ALIGN a power of two: = align_up ALIGN n) *)
From Coq Require Import List NArith Bool String.
From HV Require Import Gen.Tables Topo.Heap Topo.Dup.
Import ListNotations.
Local Open Scope N_scope.

Definition align (n : N) : N := align_up HWLOC_SHMEM_MALLOC_ALIGN n.
Definition sum_aligned (l : list N) : N := fold_right (fun x a => align x + a) 0 l.

(* the C allocators tabulated by harness/tables_shmem.inc on 0..64 agree with [align] *)
Definition align_table_ok : bool :=
  forallb (fun i => N.eqb (nth i SHMEM_GET_LENGTH_INCR 0) (align (N.of_nat i)) && N.eqb (nth i SHMEM_WRITE_INCR 0) (align (N.of_nat i))) (seq 0 65).

(* hwloc_shmem_topology_get_length: (sizeof(header) + length + pagesize - 1) & ~(pagesize - 1) *)
Definition get_length (sizes : list N) : N :=
  align_up SHMEM_PAGESIZE (SIZEOF_STRUCT_HWLOC_SHMEM_HEADER + sum_aligned sizes).

(* hwloc_shmem_topology_write: the cursor starts at mmap_address + header_length *)
Definition write_allocator : allocator := bump HWLOC_SHMEM_MALLOC_ALIGN.
Definition write_start (base : N) : rstate write_allocator := (base + SHMEM_HEADER_LENGTH, []).
Definition write_run (t : tree) (base : N) := assign ksize write_allocator t (write_start base).
Definition cursor_end (t : tree) (base : N) : N := fst (snd (write_run t base)).

(* every logged block (size, address), most recent first, ends before the next one starts; all start at or after [lo] *)
Fixpoint chain (lo : N) (l : list (N * N)) (c : N) : Prop :=
  match l with
  | [] => lo <= c
  | (n, a) :: r => a + align n <= c /\ chain lo r a
  end.

(* ---------------------------------------------------------------- header and adoption checks *)
Record header := { h_version : N; h_length : N; h_address : N; h_mmap_length : N }.
Definition write_header (addr len : N) : header :=
  {| h_version := HWLOC_SHMEM_HEADER_VERSION; h_length := SHMEM_HEADER_LENGTH; h_address := addr; h_mmap_length := len |}.

Inductive adopt_result := AdoptOk | AdoptErr (errno : N) | AdoptMmapFailed.
(* [mmap_res]: None = MAP_FAILED, Some a = address returned for the hint [addr];
   [abi] = topology_abi found at mmap_address + header_length *)
Definition adopt_check (flags : N) (hdr : header) (addr len : N) (mmap_res : option N) (abi : N) : adopt_result :=
  if negb (flags =? 0) then AdoptErr EINVAL_
  else if negb ((h_version hdr =? HWLOC_SHMEM_HEADER_VERSION) && (h_length hdr =? SHMEM_HEADER_LENGTH)
                && (h_address hdr =? addr) && (h_mmap_length hdr =? len)) then AdoptErr EINVAL_
  else match mmap_res with
       | None => AdoptMmapFailed
       | Some a => if negb (a =? addr) then AdoptErr EBUSY_
                   else if negb (abi =? HWLOC_TOPOLOGY_ABI) then AdoptErr EINVAL_
                   else AdoptOk
       end.

(* ---------------------------------------------------------------- calls on an adopted topology *)
(* where the data a call writes lives in the adopter's address space *)
Inductive region := Private (* malloc()ed by hwloc_shmem_topology_adopt: struct, support, topology infos *) | Mapped (* PROT_READ *).
Inductive outcome := Ok | Refused (errno : N) | Fault (* write into the read-only mapping / free of a mapped pointer *).

Inductive call :=
| CRestrict | CInsertMisc | CAllocGroup | CInsertGroup | CDistancesAdd | CDistancesRemove | CDistancesRemoveByDepth | CDiffApply
| CMemattrRegister | CMemattrSetValue | CCpukindsRegister | CRefresh | CObjAddInfo
| CDistancesReleaseRemove | CObjSetSubtype
| CAllow | CTopologyInfosAdd | CSetUserdata
| CDump | CExportXml | CDistancesQuery | CMemattrQuery | CCpukindsQuery | CCheck | CDup.

(* state of the adopted copy that matters: were the memattr caches of the *mapped* topology validated by the writer?
   hwloc_shmem_topology_write refreshes the distances and the memattrs of [new] (fix 13a2f04; it used to refresh the OLD memattrs) *)
Definition writer_validates_mapped_memattr_caches : bool := true.
(* hwloc_shmem_topology_adopt duplicates support, infos and (fix e8b5396) the allowed sets *)
Definition adopter_has_private_allowed_sets : bool := true.

Inductive kind_of_call := Modifier | Permitted | Consulting.
Definition call_kind (c : call) : kind_of_call :=
  match c with
  | CRestrict | CInsertMisc | CAllocGroup | CInsertGroup | CDistancesAdd | CDistancesRemove | CDistancesRemoveByDepth | CDiffApply
  | CMemattrRegister | CMemattrSetValue | CCpukindsRegister | CRefresh | CObjAddInfo
  | CDistancesReleaseRemove | CObjSetSubtype => Modifier
  | CAllow | CTopologyInfosAdd | CSetUserdata => Permitted
  | _ => Consulting
  end.
(* the entry points that test topology->adopted_shmem_addr (topology.c, distances.c, diff.c; memattrs.c, cpukinds.c and
   hwloc_topology_refresh since fix 18c90e7) *)
Definition has_guard (c : call) : bool :=
  match c with
  | CRestrict | CInsertMisc | CAllocGroup | CInsertGroup | CDistancesAdd | CDistancesRemove | CDistancesRemoveByDepth | CDiffApply
  | CMemattrRegister | CMemattrSetValue | CCpukindsRegister | CRefresh
  | CDistancesReleaseRemove | CObjSetSubtype => true          (* fix 4607909 *)
  | _ => false
  end.
(* what an unguarded call writes *)
Definition writes (include_disallowed : bool) (c : call) : option region :=
  match c with
  | CMemattrRegister | CMemattrSetValue | CCpukindsRegister | CObjAddInfo => Some Mapped   (* realloc / store in arrays of the mapping *)
  | CDistancesReleaseRemove | CObjSetSubtype => Some Mapped                                  (* unlink + free of mapped blocks *)
  | CRefresh => Some Mapped                                                                 (* cache flags and cached pointers *)
  | CAllow => if include_disallowed then Some (if adopter_has_private_allowed_sets then Private else Mapped) else None
  | CTopologyInfosAdd | CSetUserdata => Some Private
  | CMemattrQuery => if writer_validates_mapped_memattr_caches then None else Some Mapped   (* first query refreshes *)
  | _ => None
  end.
Definition adopted_call (include_disallowed : bool) (c : call) : outcome :=
  if has_guard c then Refused EPERM_
  else match c, include_disallowed with
       | CAllow, false => Refused EINVAL_
       | _, _ => match writes include_disallowed c with Some Mapped => Fault | _ => Ok end
       end.

Definition all_calls : list call :=
  [CRestrict; CInsertMisc; CAllocGroup; CInsertGroup; CDistancesAdd; CDistancesRemove; CDistancesRemoveByDepth; CDiffApply;
   CMemattrRegister; CMemattrSetValue; CCpukindsRegister; CRefresh; CObjAddInfo; CDistancesReleaseRemove; CObjSetSubtype;
   CAllow; CTopologyInfosAdd; CSetUserdata;
   CDump; CExportXml; CDistancesQuery; CMemattrQuery; CCpukindsQuery; CCheck; CDup].

(* names of the harness lines "call <name> ..." *)
Definition call_name (c : call) : string :=
  match c with
  | CRestrict => "restrict" | CInsertMisc => "insert_misc" | CAllocGroup => "alloc_group" | CInsertGroup => "insert_group"
  | CDistancesAdd => "distances_add" | CDistancesRemove => "distances_remove" | CDistancesRemoveByDepth => "distances_remove_by_depth"
  | CDiffApply => "diff_apply" | CMemattrRegister => "memattr_register" | CMemattrSetValue => "memattr_set_value_builtin"
  | CCpukindsRegister => "cpukinds_register" | CRefresh => "refresh" | CObjAddInfo => "obj_add_info" | CAllow => "allow_all"
  | CTopologyInfosAdd => "topology_infos_add" | CSetUserdata => "set_userdata" | CDump => "dump" | CExportXml => "export_xml"
  | CDistancesQuery => "distances_query" | CMemattrQuery => "memattr_query" | CCpukindsQuery => "cpukinds_query" | CCheck => "check"
  | CDup => "dup_adopted" | CDistancesReleaseRemove => "distances_release_remove" | CObjSetSubtype => "obj_set_subtype"
  end%string.
Definition outcome_code (o : outcome) : N := match o with Ok => 0 | Refused e => e | Fault => 999 end.
Definition model_calls (include_disallowed : bool) : list (string * N) :=
  map (fun c => (call_name c, outcome_code (adopted_call include_disallowed c))) all_calls.

(* driver entry points *)
Definition model_get_length (sizes : list N) : N := get_length sizes.
Definition model_used (sizes : list N) : N := SHMEM_HEADER_LENGTH + sum_aligned sizes.
Definition model_reject (case_ : N) : N :=
  (* 0 wrong address, 1 longer length, 2 shorter length, 3 flags, 4 header version, 5 abi, 6 busy range *)
  let hdr := write_header 4096 8192 in
  let r := match case_ with
           | 0 => adopt_check 0 hdr 8192 8192 (Some 8192) HWLOC_TOPOLOGY_ABI
           | 1 => adopt_check 0 hdr 4096 12288 (Some 4096) HWLOC_TOPOLOGY_ABI
           | 2 => adopt_check 0 hdr 4096 4096 (Some 4096) HWLOC_TOPOLOGY_ABI
           | 3 => adopt_check 1 hdr 4096 8192 (Some 4096) HWLOC_TOPOLOGY_ABI
           | 4 => adopt_check 0 {| h_version := HWLOC_SHMEM_HEADER_VERSION + 1; h_length := SHMEM_HEADER_LENGTH; h_address := 4096; h_mmap_length := 8192 |} 4096 8192 (Some 4096) HWLOC_TOPOLOGY_ABI
           | 5 => adopt_check 0 hdr 4096 8192 (Some 4096) (N.lxor HWLOC_TOPOLOGY_ABI 65536)
           | _ => adopt_check 0 hdr 4096 8192 (Some 1048576) HWLOC_TOPOLOGY_ABI
           end in
  match r with AdoptOk => 0 | AdoptErr e => e | AdoptMmapFailed => 998 end.

(* ---------------------------------------------------------------- systematic corruption of the stored header / ABI
   (what harness/hwv_shmem.c "rejectsweep" applies to the file): every single-bit flip of each field, neighbouring ABI values *)
Definition flips (bits : nat) (v : N) : list N := map (fun k => N.lxor v (2 ^ N.of_nat k)) (seq 0 bits).
Definition is_einval (r : adopt_result) : bool := match r with AdoptErr e => e =? EINVAL_ | _ => false end.
Definition corrupted_abis : list N :=
  flips 32 HWLOC_TOPOLOGY_ABI ++ [HWLOC_TOPOLOGY_ABI + 1; HWLOC_TOPOLOGY_ABI - 1; HWLOC_TOPOLOGY_ABI + 256; HWLOC_TOPOLOGY_ABI - 256;
                                  229376 (* 0x38000 *); 131072; 262144; 0; 4294967295; N.lor HWLOC_TOPOLOGY_ABI 65535].
Definition corrupted_headers (addr len : N) : list header :=
  map (fun v => {| h_version := v; h_length := SHMEM_HEADER_LENGTH; h_address := addr; h_mmap_length := len |}) (flips 32 HWLOC_SHMEM_HEADER_VERSION) ++
  map (fun v => {| h_version := HWLOC_SHMEM_HEADER_VERSION; h_length := v; h_address := addr; h_mmap_length := len |}) (flips 32 SHMEM_HEADER_LENGTH) ++
  map (fun v => {| h_version := HWLOC_SHMEM_HEADER_VERSION; h_length := SHMEM_HEADER_LENGTH; h_address := v; h_mmap_length := len |}) (flips 64 addr) ++
  map (fun v => {| h_version := HWLOC_SHMEM_HEADER_VERSION; h_length := SHMEM_HEADER_LENGTH; h_address := addr; h_mmap_length := v |}) (flips 64 len).
Definition corruption_table_ok (addr len : N) : bool :=
  forallb (fun a => is_einval (adopt_check 0 (write_header addr len) addr len (Some addr) a)) corrupted_abis &&
  forallb (fun h => is_einval (adopt_check 0 h addr len (Some addr) HWLOC_TOPOLOGY_ABI)) (corrupted_headers addr len).
