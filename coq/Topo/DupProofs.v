(* C12 — lemmas about the generic duplication (Topo/Heap.v) and its hwloc instance (Topo/Dup.v). *)
From Coq Require Import List NArith Bool Lia.
From HV Require Import Gen.Tables Topo.Heap Topo.Dup.
Import ListNotations.
Local Open Scope N_scope.

(* ---------------------------------------------------------------- nested induction on trees *)
Section TreeInd.
  Variable P : tree -> Prop.
  Definition Pc (c : cell) : Prop := match c with COwn t => P t | _ => True end.
  Hypothesis Hnode : forall k n cs, Forall Pc cs -> P (T k n cs).
  Fixpoint tree_ind2 (t : tree) : P t :=
    match t with
    | T k n cs =>
      Hnode k n cs
        ((fix go (cs : list cell) : Forall Pc cs :=
            match cs with
            | [] => Forall_nil _
            | c :: r => Forall_cons c (match c return Pc c with COwn t' => tree_ind2 t' | _ => I end) (go r)
            end) cs)
    end.
End TreeInd.

Section Gen.
  Variable ksize : N -> N -> N.
  Variable al : allocator.
  Notation rstate := (rstate al).

  (* named versions of the inner loops *)
  Definition assign_cell (c : cell) (s : rstate) : acell * rstate :=
    match c with
    | CV v => (AV v, s) | CNull => (ANull, s) | COpq g => (AOpq g, s) | CLink i => (ALink i, s) | CUndef => (AUndef, s)
    | CZ => let '(a0, s0) := alloc al 0 s in (AZ a0, s0)
    | COwn t' => let '(t1, s1') := assign ksize al t' s in (AOwn t1, s1')
    end.
  Fixpoint assign_cells (cs : list cell) (s : rstate) : list acell * rstate :=
    match cs with
    | [] => ([], s)
    | c :: r => let '(ac, s') := assign_cell c s in let '(acs, s'') := assign_cells r s' in (ac :: acs, s'')
    end.

  Lemma assign_unfold k n cs s :
    assign ksize al (T k n cs) s =
    let '(a, s1) := alloc al (ksize k n) s in let '(acs, s2) := assign_cells cs s1 in (AT a k n acs, s2).
  Proof.
    simpl. destruct (alloc al (ksize k n) s) as [a s1].
    match goal with |- (let '(_, _) := ?F cs s1 in _) = _ => assert (E : forall l st, F l st = assign_cells l st) end.
    { induction l as [|c r IH]; intro st; [reflexivity|].
      destruct c; simpl; rewrite ?IH; try reflexivity.
      all: try (destruct (alloc al 0 st) as [a0 s0]; rewrite IH; reflexivity).
      all: try (destruct (assign ksize al t st) as [t1 s1']; rewrite IH; reflexivity). }
    rewrite E. reflexivity.
  Qed.

  Definition cell_sizes (c : cell) : list N := match c with COwn t => sizes ksize t | CZ => [0] | _ => [] end.
  Lemma sizes_unfold k n cs : sizes ksize (T k n cs) = ksize k n :: flat_map cell_sizes cs.
  Proof.
    first [ reflexivity | simpl; f_equal; induction cs as [|c r IH]; [reflexivity|]; simpl; rewrite IH; reflexivity ].
  Qed.

  Definition cell_wf (c : cell) : bool := match c with COwn t => wf_tree ksize t | _ => true end.
  Lemma wf_unfold k n cs : wf_tree ksize (T k n cs) = (0 <? ksize k n) && forallb cell_wf cs.
  Proof.
    first [ reflexivity | simpl; f_equal; induction cs as [|c r IH]; [reflexivity|]; simpl; rewrite IH; reflexivity ].
  Qed.

  Definition acell_addrs (c : acell) : list N := match c with AOwn t => addrs t | _ => [] end.
  Lemma addrs_unfold a k n acs : addrs (AT a k n acs) = a :: flat_map acell_addrs acs.
  Proof.
    unfold addrs. simpl. f_equal. induction acs as [|c r IH]; [reflexivity|].
    simpl. rewrite map_app, IH. destruct c; reflexivity.
  Qed.

  Definition log_sizes (s : rstate) : list N := map fst (snd s).

  Lemma alloc_log n s a s' : alloc al n s = (a, s') -> log_sizes s' = n :: log_sizes s /\ anext al (fst s) n = (a, fst s').
  Proof.
    unfold alloc, log_sizes. destruct (anext al (fst s) n) as [a0 st'] eqn:E. intro H. inversion H; subst. simpl. auto.
  Qed.

  (* ---- (1) the copy erases to the tree that was laid out; (2) the requests are [sizes t] whatever the allocator answers *)
  Lemma assign_erase_trace :
    forall t s t' s', assign ksize al t s = (t', s') ->
      erase t' = t /\ log_sizes s' = rev (sizes ksize t) ++ log_sizes s.
  Proof.
    intro t. induction t as [k n cs IH] using tree_ind2. intros s t' s' H.
    rewrite assign_unfold in H. destruct (alloc al (ksize k n) s) as [a s1] eqn:Ea.
    destruct (assign_cells cs s1) as [acs s2] eqn:Ec. inversion H; subst; clear H.
    apply alloc_log in Ea. destruct Ea as [Ea _].
    assert (Hc : map (erase_cell erase) acs = cs /\ log_sizes s' = rev (flat_map cell_sizes cs) ++ log_sizes s1).
    { clear Ea. revert s1 acs s' Ec. induction cs as [|c r IHr]; intros s1 acs s' Ec.
      - simpl in Ec. inversion Ec; subst. auto.
      - inversion IH as [|? ? Hc Hr]; subst. specialize (IHr Hr).
        simpl in Ec. destruct (assign_cell c s1) as [ac sa] eqn:E1. destruct (assign_cells r sa) as [acs' sb] eqn:E2.
        inversion Ec; subst; clear Ec. destruct (IHr _ _ _ E2) as [I1 I2].
        assert (Hcell : erase_cell erase ac = c /\ log_sizes sa = rev (cell_sizes c) ++ log_sizes s1).
        { destruct c; simpl in E1; try (inversion E1; subst; simpl; auto; fail).
          - destruct (alloc al 0 s1) as [a0 s0] eqn:E0. inversion E1; subst. apply alloc_log in E0. destruct E0 as [E0 _]. simpl. auto.
          - destruct (assign ksize al t s1) as [t1 s1'] eqn:E0. inversion E1; subst. unfold Pc in Hc.
            destruct (Hc _ _ _ E0) as [J1 J2]. simpl. rewrite J1. auto. }
        destruct Hcell as [K1 K2]. split.
        + simpl. rewrite K1, I1. reflexivity.
        + simpl. rewrite I2, K2, rev_app_distr, app_assoc. reflexivity. }
    destruct Hc as [H1 H2]. split.
    - simpl. rewrite H1. reflexivity.
    - rewrite sizes_unfold. simpl. rewrite H2, Ea, <- app_assoc. reflexivity.
  Qed.

  (* ---- (3) freshness of the addresses of the copy under the allocator contract *)
  Variable owns : ast al -> N -> Prop.
  Hypothesis spec : alloc_spec al owns.

  Definition fresh_between (s s' : rstate) (l : list N) : Prop :=
    (forall x, owns (fst s) x -> owns (fst s') x) /\
    (forall a, In a l -> ~ owns (fst s) a /\ owns (fst s') a) /\
    NoDup l.

  Lemma fresh_nil s : fresh_between s s [].
  Proof. split; [auto|split; [intros a []|constructor]]. Qed.

  Lemma fresh_app s1 s2 s3 l1 l2 :
    fresh_between s1 s2 l1 -> fresh_between s2 s3 l2 -> fresh_between s1 s3 (l1 ++ l2).
  Proof.
    intros (M1 & F1 & N1) (M2 & F2 & N2). split; [auto|split].
    - intros a H. apply in_app_or in H. destruct H as [H|H].
      + apply F1 in H. destruct H as [H1 H2]. split; auto.
      + apply F2 in H. destruct H as [H1 H2]. split; auto.
    - clear M1 M2. induction l1 as [|x r IH]; simpl; [exact N2|].
      inversion N1; subst. constructor.
      + intro I. apply in_app_or in I. destruct I as [I|I]; [tauto|].
        apply F2 in I. destruct I as [I _]. apply I. apply (F1 x). left; reflexivity.
      + apply IH; auto. intros a Ha. apply F1. right; exact Ha.
  Qed.

  Lemma alloc_fresh n s a s' : alloc al n s = (a, s') -> 0 < n -> fresh_between s s' [a].
  Proof.
    intros H Hn. apply alloc_log in H. destruct H as [_ H].
    destruct (spec_fresh _ _ spec _ _ _ _ H Hn) as [F1 F2].
    split; [|split].
    - intros x Hx. eapply (spec_mono _ _ spec); eauto.
    - intros a0 [<-|[]]. split; assumption.
    - constructor; [intros []|constructor].
  Qed.

  Lemma alloc_mono n s a s' : alloc al n s = (a, s') -> fresh_between s s' [].
  Proof.
    intros H. apply alloc_log in H. destruct H as [_ H]. split; [|split].
    - intros x Hx. eapply (spec_mono _ _ spec); eauto.
    - intros a0 [].
    - constructor.
  Qed.

  Lemma assign_fresh :
    forall t s t' s', wf_tree ksize t = true -> assign ksize al t s = (t', s') -> fresh_between s s' (addrs t').
  Proof.
    intro t. induction t as [k n cs IH] using tree_ind2. intros s t' s' W H.
    rewrite wf_unfold in W. apply andb_true_iff in W. destruct W as [W0 Wc]. apply N.ltb_lt in W0.
    rewrite assign_unfold in H. destruct (alloc al (ksize k n) s) as [a s1] eqn:Ea.
    destruct (assign_cells cs s1) as [acs s2] eqn:Ec. inversion H; subst; clear H.
    rewrite addrs_unfold. change (a :: flat_map acell_addrs acs) with ([a] ++ flat_map acell_addrs acs).
    eapply fresh_app; [eapply alloc_fresh; eauto|].
    clear Ea W0. revert s1 acs s' Ec. induction cs as [|c r IHr]; intros s1 acs s' Ec.
    - simpl in Ec. inversion Ec; subst. apply fresh_nil.
    - inversion IH as [|? ? Hc Hr]; subst. simpl in Wc. apply andb_true_iff in Wc. destruct Wc as [Wc Wr].
      simpl in Ec. destruct (assign_cell c s1) as [ac sa] eqn:E1. destruct (assign_cells r sa) as [acs' sb] eqn:E2.
      inversion Ec; subst; clear Ec. simpl.
      eapply fresh_app; [|eapply IHr; eauto].
      destruct c; simpl in E1; try (inversion E1; subst; apply fresh_nil; fail).
      + destruct (alloc al 0 s1) as [a0 s0] eqn:E0. inversion E1; subst. simpl. eapply alloc_mono; eauto.
      + destruct (assign ksize al t s1) as [t1 s1'] eqn:E0. inversion E1; subst. simpl. unfold Pc in Hc. simpl in Wc. eapply Hc; eauto.
  Qed.
End Gen.

(* ---------------------------------------------------------------- heaps *)
Lemma upd_same h a b : upd h a b a = b.
Proof. unfold upd. rewrite N.eqb_refl. reflexivity. Qed.
Lemma upd_other h a b x : x <> a -> upd h a b x = h x.
Proof. unfold upd. intro H. apply N.eqb_neq in H. rewrite H. reflexivity. Qed.

Lemma write_nodes_other l : forall h x, ~ In x (map fst l) -> write_nodes l h x = h x.
Proof.
  induction l as [|[a b] r IH]; intros h x H; [reflexivity|].
  unfold write_nodes in *. simpl. simpl in H. rewrite IH by tauto. apply upd_other. intro E; subst; tauto.
Qed.

Lemma write_nodes_in l : forall h a b, NoDup (map fst l) -> In (a, b) l -> write_nodes l h a = Some b.
Proof.
  induction l as [|[a0 b0] r IH]; intros h a b N I; [destruct I|].
  simpl in N. inversion N; subst. unfold write_nodes in *. simpl. destruct I as [E|I].
  - inversion E; subst. fold (write_nodes r (upd h a (Some b))). rewrite write_nodes_other by assumption. apply upd_same.
  - apply IH; assumption.
Qed.

Lemma free_addrs_other l : forall h x, ~ In x l -> free_addrs l h x = h x.
Proof.
  induction l as [|a r IH]; intros h x H; [reflexivity|].
  unfold free_addrs in *. simpl. simpl in H. rewrite IH by tauto. apply upd_other. intro E; subst; tauto.
Qed.
Lemma free_addrs_in l : forall h x, In x l -> free_addrs l h x = None.
Proof.
  induction l as [|a r IH]; intros h x H; [destruct H|].
  unfold free_addrs in *. simpl. destruct (in_dec N.eq_dec x r) as [I|I].
  - apply IH; assumption.
  - fold (free_addrs r (upd h a None)). rewrite free_addrs_other by assumption. destruct H as [->|H]; [apply upd_same|tauto].
Qed.

(* frame: a heap that agrees with [h] on the footprint of a stored tree stores it too *)
Lemma stored_frame h h' t : stored h t -> (forall x, In x (addrs t) -> h' x = h x) -> stored h' t.
Proof.
  intros S A a b I. rewrite A; [apply S; exact I|]. unfold addrs. apply in_map_iff. exists (a, b). auto.
Qed.

(* nested induction on laid-out trees *)
Section ATreeInd.
  Variable P : atree -> Prop.
  Definition Pa (c : acell) : Prop := match c with AOwn t => P t | _ => True end.
  Hypothesis Hnode : forall a k n cs, Forall Pa cs -> P (AT a k n cs).
  Fixpoint atree_ind2 (t : atree) : P t :=
    match t with
    | AT a k n cs =>
      Hnode a k n cs
        ((fix go (cs : list acell) : Forall Pa cs :=
            match cs with
            | [] => Forall_nil _
            | c :: r => Forall_cons c (match c return Pa c with AOwn t' => atree_ind2 t' | _ => I end) (go r)
            end) cs)
    end.
End ATreeInd.

Lemma at_addr_in t : In (at_addr t) (addrs t).
Proof. destruct t. unfold addrs. simpl. left. reflexivity. Qed.

Lemma addrs_sub a k n cs t' x : In (AOwn t') cs -> In x (addrs t') -> In x (addrs (AT a k n cs)).
Proof.
  intros I Hx. rewrite addrs_unfold. right. apply in_flat_map. exists (AOwn t'). split; [exact I|exact Hx].
Qed.

(* every pointer held by a block of a laid-out tree is the address of one of its blocks *)
Lemma nodes_closed : forall t a b p, In (a, b) (nodes t) -> In p (hptrs b) -> In p (addrs t).
Proof.
  intro t. induction t as [a0 k n cs IH] using atree_ind2. intros a b p I Hp.
  simpl in I. destruct I as [E|I].
  - inversion E; subst. unfold hptrs in Hp. simpl in Hp. apply in_flat_map in Hp. destruct Hp as (hc & Hhc & Hp).
    apply in_map_iff in Hhc. destruct Hhc as (c & <- & Hc).
    destruct c; simpl in Hp; try (destruct Hp; fail). destruct Hp as [<-|[]].
    eapply addrs_sub; [exact Hc|apply at_addr_in].
  - apply in_flat_map in I. destruct I as (c & Hc & I). destruct c; try (destruct I; fail).
    rewrite Forall_forall in IH. specialize (IH _ Hc). unfold Pa in IH.
    eapply addrs_sub; [exact Hc|]. eapply IH; eauto.
Qed.

(* ---------------------------------------------------------------- the C order of requests has the same totals *)
Definition sumf (f : N -> N) (l : list N) : N := fold_right (fun x a => f x + a) 0 l.
Lemma sumf_app f l1 l2 : sumf f (l1 ++ l2) = sumf f l1 + sumf f l2.
Proof. induction l1 as [|x r IH]; simpl; [reflexivity|]. rewrite IH. lia. Qed.

Lemma csizes_app l1 l2 : csizes (l1 ++ l2) = csizes l1 ++ csizes l2.
Proof. unfold csizes. apply flat_map_app. Qed.
Lemma sizes_csizes k n cs : sizes ksize (T k n cs) = ksize k n :: csizes cs.
Proof. rewrite sizes_unfold. reflexivity. Qed.

Lemma csizes_cons c r : csizes (c :: r) = csizes [c] ++ csizes r.
Proof. unfold csizes. simpl. rewrite app_nil_r. reflexivity. Qed.
Lemma csizes_own t : csizes [COwn t] = sizes ksize t.
Proof. unfold csizes. simpl. apply app_nil_r. Qed.
Lemma sumf_cons f x l : sumf f (x :: l) = f x + sumf f l.
Proof. reflexivity. Qed.
Lemma sumf_nil f : sumf f [] = 0.
Proof. reflexivity. Qed.

Lemma c_sizes_sum f s : sumf f (c_sizes s) = sumf f (sizes ksize (topo_tree s)).
Proof.
  unfold c_sizes, topo_tree.
  rewrite sizes_csizes.
  rewrite !csizes_app.
  rewrite (csizes_cons (COwn (T K_LEVELS (ts_nl s) (ts_level0 s :: ts_levels s))) [ts_nbobjs s]).
  rewrite (csizes_cons (ts_acpu s) [ts_anode s; COwn (T K_OBJ 1 (ts_root_pre s ++ ts_root_attr s :: ts_root_rest s))]).
  rewrite (csizes_cons (ts_anode s) [COwn (T K_OBJ 1 (ts_root_pre s ++ ts_root_attr s :: ts_root_rest s))]).
  rewrite !csizes_own, !sizes_csizes.
  rewrite (csizes_cons (ts_level0 s) (ts_levels s)).
  rewrite csizes_app, (csizes_cons (ts_root_attr s) (ts_root_rest s)).
  rewrite (csizes_cons (ts_acpu s) [ts_anode s]).
  repeat first [rewrite sumf_app | rewrite sumf_cons | rewrite sumf_nil].
  lia.
Qed.

Lemma nodup_app_disj {A} (l1 l2 : list A) :
  NoDup l1 -> NoDup l2 -> (forall x, In x l1 -> ~ In x l2) -> NoDup (l1 ++ l2).
Proof.
  intros N1 N2 D. induction l1 as [|x r IH]; simpl; [exact N2|].
  inversion N1; subst. constructor.
  - intro I. apply in_app_or in I. destruct I as [I|I]; [tauto|]. apply (D x); [left; reflexivity|exact I].
  - apply IH; [assumption|]. intros y Hy. apply D. right; exact Hy.
Qed.

(* ---------------------------------------------------------------- the statements of C12 *)
Lemma trace_assign ksz al t s t' s' :
  assign ksz al t s = (t', s') -> trace al s' = trace al s ++ sizes ksz t.
Proof.
  intro H. apply assign_erase_trace in H. destruct H as [_ H]. unfold trace. unfold log_sizes in H.
  rewrite H, rev_app_distr, rev_involutive. reflexivity.
Qed.

Section Main.
  Variable ksz : N -> N -> N.
  Variable al : allocator.
  Variable owns : ast al -> N -> Prop.
  Hypothesis spec : alloc_spec al owns.

  (* [h, at0]: the original, stored in the heap, its blocks in use; [t]: the tree the dup code derives from it *)
  Variables (h : heap) (at0 : atree) (s : rstate al) (t : tree).
  Hypothesis Hst : stored h at0.
  Hypothesis Hown : forall x, In x (addrs at0) -> owns (fst s) x.
  Hypothesis Hwf : wf_tree ksz t = true.
  Variables (at1 : atree) (h1 : heap) (s1 : rstate al).
  Hypothesis Hrun : dup_run ksz al t h s = (at1, h1, s1).

  Lemma run_inv : assign ksz al t s = (at1, s1) /\ h1 = write_nodes (nodes at1) h.
  Proof.
    unfold dup_run in Hrun. destruct (assign ksz al t s) as [t' s'] eqn:E. inversion Hrun; subst. auto.
  Qed.

  Lemma copy_fresh : fresh_between al owns s s1 (addrs at1).
  Proof. destruct run_inv as [E _]. eapply assign_fresh; eauto. Qed.

  Lemma copy_disjoint : forall x, In x (addrs at1) -> ~ In x (addrs at0).
  Proof.
    intros x H1 H0. destruct copy_fresh as (_ & F & _). apply F in H1. destruct H1 as [H1 _]. apply H1. apply Hown. exact H0.
  Qed.

  Theorem dup_abs_equal_gen : erase at1 = t /\ stored h1 at1 /\ stored h1 at0.
  Proof.
    pose proof copy_fresh as (_ & _ & ND). pose proof copy_disjoint as CD.
    destruct run_inv as [E Eh]. rewrite Eh. split; [|split].
    - apply assign_erase_trace in E. tauto.
    - intros a b I. apply write_nodes_in; [exact ND|exact I].
    - eapply stored_frame; [exact Hst|]. intros x Hx. apply write_nodes_other.
      intro H1. eapply CD; eauto.
  Qed.

  Theorem dup_footprint_fresh_gen :
    NoDup (addrs at1) /\
    (forall x, In x (addrs at1) -> ~ owns (fst s) x /\ owns (fst s1) x /\ ~ In x (addrs at0)) /\
    (forall a b p, In (a, b) (nodes at1) -> In p (hptrs b) -> In p (addrs at1)).
  Proof.
    destruct copy_fresh as (_ & F & ND). split; [exact ND|split].
    - intros x Hx. destruct (F x Hx) as [F1 F2]. split; [exact F1|split; [exact F2|apply copy_disjoint; exact Hx]].
    - intros a b p. apply nodes_closed.
  Qed.

  Theorem dup_trace_gen : trace al s1 = trace al s ++ sizes ksz t.
  Proof. destruct run_inv as [E _]. eapply trace_assign; eauto. Qed.

  (* any write or free confined to the footprint of one copy leaves the other stored as it was *)
  Theorem frame_gen :
    forall h2, (forall x, ~ In x (addrs at1) -> h2 x = h1 x) -> stored h2 at0.
  Proof.
    intros h2 H. destruct dup_abs_equal_gen as (_ & _ & S0). eapply stored_frame; [exact S0|].
    intros x Hx. apply H. intro H1. eapply copy_disjoint; eauto.
  Qed.
  Theorem frame_gen' :
    forall h2, (forall x, ~ In x (addrs at0) -> h2 x = h1 x) -> stored h2 at1.
  Proof.
    intros h2 H. destruct dup_abs_equal_gen as (_ & S1 & _). eapply stored_frame; [exact S1|].
    intros x Hx. apply H. apply copy_disjoint. exact Hx.
  Qed.

  (* destroying in either order: the survivor is intact, afterwards every block of both is released exactly once *)
  Theorem destroy_any_order_gen :
    stored (free_addrs (addrs at1) h1) at0 /\ stored (free_addrs (addrs at0) h1) at1 /\
    (NoDup (addrs at0) -> NoDup (addrs at0 ++ addrs at1)) /\
    (forall x, In x (addrs at0 ++ addrs at1) ->
       free_addrs (addrs at0) (free_addrs (addrs at1) h1) x = None /\ free_addrs (addrs at1) (free_addrs (addrs at0) h1) x = None).
  Proof.
    split; [|split; [|split]].
    - apply frame_gen. intros x Hx. apply free_addrs_other. exact Hx.
    - apply frame_gen'. intros x Hx. apply free_addrs_other. exact Hx.
    - intro ND0. destruct copy_fresh as (_ & _ & ND1). apply nodup_app_disj; auto.
      intros x H0 H1. eapply copy_disjoint; eauto.
    - intros x Hx. destruct (in_dec N.eq_dec x (addrs at0)) as [I0|I0]; destruct (in_dec N.eq_dec x (addrs at1)) as [I1|I1].
      + exfalso. eapply copy_disjoint; eauto.
      + split; [apply free_addrs_in; exact I0|]. rewrite free_addrs_other by exact I1. apply free_addrs_in; exact I0.
      + split; [|apply free_addrs_in; exact I1]. rewrite free_addrs_other by exact I0. apply free_addrs_in; exact I1.
      + exfalso. apply in_app_or in Hx. tauto.
  Qed.
End Main.

(* ---------------------------------------------------------------- hwloc instance (what Props/Properties_C12.v states) *)
Section HwlocDup.
  Variable al : allocator.
  Variable owns : ast al -> N -> Prop.
  Hypothesis spec : alloc_spec al owns.
  Variables (h : heap) (at0 : atree) (s : rstate al).
  Hypothesis Hst : stored h at0.
  Hypothesis Hown : forall x, In x (addrs at0) -> owns (fst s) x.
  Hypothesis Hwf : model_wf (dup_tree (erase at0)) = true.
  Variables (at1 : atree) (h1 : heap) (s1 : rstate al).
  Hypothesis Hrun : dup_run ksize al (dup_tree (erase at0)) h s = (at1, h1, s1).

  Lemma hw_dup_abs_equal : erase at1 = dup_tree (erase at0) /\ stored h1 at1 /\ stored h1 at0.
  Proof. eapply dup_abs_equal_gen; eauto. Qed.

  Lemma hw_dup_footprint_fresh :
    NoDup (addrs at1) /\
    (forall x, In x (addrs at1) -> ~ owns (fst s) x /\ owns (fst s1) x /\ ~ In x (addrs at0)) /\
    (forall a b p, In (a, b) (nodes at1) -> In p (hptrs b) -> In p (addrs at1)).
  Proof. eapply dup_footprint_fresh_gen; eauto. Qed.

  Lemma hw_frame :
    (forall h2, (forall x, ~ In x (addrs at1) -> h2 x = h1 x) -> stored h2 at0) /\
    (forall h2, (forall x, ~ In x (addrs at0) -> h2 x = h1 x) -> stored h2 at1).
  Proof. split; [eapply frame_gen; eauto|eapply frame_gen'; eauto]. Qed.

  Lemma hw_destroy_any_order :
    stored (free_addrs (addrs at1) h1) at0 /\ stored (free_addrs (addrs at0) h1) at1 /\
    (NoDup (addrs at0) -> NoDup (addrs at0 ++ addrs at1)) /\
    (forall x, In x (addrs at0 ++ addrs at1) ->
       free_addrs (addrs at0) (free_addrs (addrs at1) h1) x = None /\ free_addrs (addrs at1) (free_addrs (addrs at0) h1) x = None).
  Proof. eapply destroy_any_order_gen; eauto. Qed.
End HwlocDup.

(* the sizes requested do not depend on the addresses the allocator returns *)
Lemma hw_alloc_sequence_parametric :
  forall (al1 al2 : allocator) (t : tree) (s1 : rstate al1) (s2 : rstate al2),
    trace al1 (snd (assign ksize al1 t s1)) = trace al1 s1 ++ sizes ksize t /\
    trace al2 (snd (assign ksize al2 t s2)) = trace al2 s2 ++ sizes ksize t.
Proof.
  intros. split.
  - destruct (assign ksize al1 t s1) as [t' s'] eqn:E. simpl. eapply trace_assign; eauto.
  - destruct (assign ksize al2 t s2) as [t' s'] eqn:E. simpl. eapply trace_assign; eauto.
Qed.

(* the C order of the requests has the same sum, for any per-request cost [f] (alignment rule of shmem.c included) *)
Lemma hw_c_order_same_total : forall f s, sumf f (c_sizes s) = sumf f (sizes ksize (topo_tree s)).
Proof. exact c_sizes_sum. Qed.

(* the bump allocator meets the allocator contract *)
Lemma align_up_ge A n : 0 < A -> n <= align_up A n.
Proof.
  intro HA. unfold align_up. pose proof (N.div_mod (n + A - 1) A ltac:(lia)) as D.
  pose proof (N.mod_lt (n + A - 1) A ltac:(lia)) as M. nia.
Qed.
Lemma bump_spec A : 0 < A -> alloc_spec (bump A) (fun c x => x < c).
Proof.
  intro HA. split.
  - intros c n a c' E Hn. simpl in E. inversion E; subst. pose proof (align_up_ge A n HA). split; lia.
  - intros c n a c' x E Hx. simpl in E. inversion E; subst. lia.
Qed.
