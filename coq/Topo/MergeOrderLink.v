(* C01: the executable ordering test of the checker ([ordered_first], Topo/WFCheck.v) is EQUIVALENT to the Prop
   statement of the ordering clause ([ChildrenOrdered], Topo/WFOrder.v) - soundness was there, completeness is new:
   the checker raises the "children-order" clause on no list that meets the clause - and the tree-level invariant of
   the level-merging proofs ([ord_tree], Topo/MergeProofs.v) is that clause on every normal object of the tree.  So
   the theorem about the load-time merging pass speaks about the same statement as the well-formedness theorem for
   dumps. *)
From Coq Require Import List NArith ZArith Bool Lia.
From HV Require Import Base.BSet Gen.Tables Topo.Dump Topo.Obj Topo.WFCheck Topo.WF Topo.WFOrder Topo.Api Topo.Restrict
  Topo.MergeProofs.
Import ListNotations.

Lemma ordered_first_complete l : forall pf pe,
  (pe = true -> Forall (fun s => (first_Z s < 0)%Z) l) ->
  Forall (fun s => (0 <= first_Z s)%Z -> (pf < first_Z s)%Z) l ->
  ChildrenOrdered l ->
  ordered_first l pf pe = true.
Proof.
  induction l as [|s tl IH]; intros pf pe He Hf Ho; cbn [ordered_first]; [reflexivity|].
  cbv zeta.
  inversion Hf as [|? ? Hs Hft]; subst. inversion Ho as [|? ? Hhead Hot]; subst.
  destruct (0 <=? first_Z s)%Z eqn:Ef.
  - apply Z.leb_le in Ef.
    assert (Epe : pe = false).
    { destruct pe; [|reflexivity]. specialize (He eq_refl). inversion He as [|? ? Hneg _]; subst. exfalso; lia. }
    subst pe. cbn [negb andb].
    apply andb_true_iff. split; [apply Z.ltb_lt; now apply Hs|].
    apply IH; [discriminate| |exact Hot].
    eapply Forall_impl; [|exact Hhead]. cbv beta. intros a Ha H0. unfold before_first in Ha. now apply Ha.
  - apply Z.leb_gt in Ef.
    assert (Hall : Forall (fun a => (first_Z a < 0)%Z) tl).
    { eapply Forall_impl; [|exact Hhead]. cbv beta. intros a Ha. unfold before_first in Ha.
      destruct (Z.lt_ge_cases (first_Z a) 0) as [Hlt|Hge]; [exact Hlt|]. destruct (Ha Hge) as [H0 _]. exfalso; lia. }
    apply IH; [intros _; exact Hall| |exact Hot].
    eapply Forall_impl; [|exact Hall]. cbv beta. intros a Ha H0. exfalso; lia.
Qed.

(* the entry call of the checker: nothing before the first child *)
Theorem ordered_first_iff l : ordered_first l (-1)%Z false = true <-> ChildrenOrdered l.
Proof.
  split.
  - intros H. apply ordered_first_spec in H. destruct H as (_ & _ & H). exact H.
  - intros H. apply ordered_first_complete; [discriminate| |exact H].
    apply Forall_forall. intros s _ H0. lia.
Qed.

Lemma strictly_ordered_first_complete l : forall pf,
  Forall (fun s => (pf < first_Z s)%Z) l ->
  ForallOrdPairs (fun a b => (first_Z a < first_Z b)%Z) l ->
  strictly_ordered_first l pf = true.
Proof.
  induction l as [|s tl IH]; intros pf Hf Ho; cbn [strictly_ordered_first]; [reflexivity|].
  cbv zeta. inversion Hf as [|? ? Hs _]; subst. inversion Ho as [|? ? Hhead Hot]; subst.
  apply andb_true_iff. split; [now apply Z.ltb_lt|]. now apply IH.
Qed.

Theorem strictly_ordered_first_iff l : strictly_ordered_first l (-1)%Z = true <-> MemChildrenOrdered l.
Proof.
  unfold MemChildrenOrdered. split.
  - intros H. apply strictly_ordered_first_spec in H. destruct H as [Hb Hc]. split; [|exact Hc].
    eapply Forall_impl; [|exact Hb]. cbv beta. intros a Ha. lia.
  - intros [Hb Hc]. apply strictly_ordered_first_complete; [|exact Hc].
    eapply Forall_impl; [|exact Hb]. cbv beta. intros a Ha. lia.
Qed.

Definition kid_sets (p : obj) : list bset := map (fun c => oset (o_ccs (odata c))) (onch p).

Theorem kids_ordered_iff p : kids_ordered p <-> ChildrenOrdered (kid_sets p).
Proof. unfold kids_ordered, kid_sets. apply ordered_first_iff. Qed.

Theorem ord_tree_iff o : ord_tree o <-> forall p, In p (nflatten o) -> ChildrenOrdered (kid_sets p).
Proof.
  unfold ord_tree. rewrite Forall_forall. split; intros H p Hp; apply kids_ordered_iff; now apply H.
Qed.

(* the load-time merging pass, stated with the Prop clause of WFOrder on both sides *)
Theorem keep_structure_children_order_prop filters dm root root' :
  keep_structure filters dm root = Some root' ->
  NoDup (nid root) ->
  (forall p, In p (nflatten root) -> ChildrenOrdered (kid_sets p)) ->
  forall p, In p (nflatten root') -> ChildrenOrdered (kid_sets p).
Proof.
  intros Hk Hn Ho. apply ord_tree_iff.
  destruct (keep_structure_children_ordered filters dm root root' Hk Hn) as [H _]; [now apply ord_tree_iff|exact H].
Qed.

Example children_order_clause_nonvacuous :
  (forall p, In p (nflatten wide_tree) -> ChildrenOrdered (kid_sets p)) /\
  ~ (forall p, In p (nflatten (merge_tree [1%N; 4%N] false wide_tree)) -> ChildrenOrdered (kid_sets p)).
Proof.
  split.
  - apply ord_tree_iff. apply ord_tree_b. vm_compute. reflexivity.
  - intros H. apply ord_tree_iff in H. unfold ord_tree in H. rewrite Forall_forall in H.
    assert (E : forallb kids_orderedb (nflatten (merge_tree [1%N; 4%N] false wide_tree)) = true).
    { apply forallb_forall. intros p Hp. exact (H p Hp). }
    vm_compute in E. discriminate.
Qed.
