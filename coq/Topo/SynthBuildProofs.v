(* Theorems about the insertion requests of the synthetic backend (Topo/SynthBuild.v), for every level
   array of the shape the parser produces (inner levels of arity >= 1, one leaf level) and every filter
   assignment: the cpuset of an object is the set of leaf indexes drawn while it was built, children are
   requested before their parent, and the requests form a laminar family (two cpusets are nested or
   disjoint) as soon as the leaf indexes are pairwise distinct.  These are the hypotheses under which
   insertion by cpuset (Topo/InsertProofs.v: insert_keeps_order) keeps "cpuset = disjoint union of the
   children's cpusets" at every level. *)
From Coq Require Import List NArith ZArith Bool Lia.
From HV Require Import Base.BSet Gen.Tables Text.TypeOrder Topo.SetsProofs Topo.SynthBuild.
From HV Require Text.Synthetic.
Import ListNotations.
Local Open Scope N_scope.

Definition disj (a b : bset) : Prop := forall i, mem i a = true -> mem i b = true -> False.

(* ---------- counters ---------- *)

Lemma cget_cbump_same : forall c l, (l < List.length c)%nat -> cget (cbump c l) l = cget c l + 1.
Proof.
  induction c as [|x t IH]; intros l H; [cbn in H; lia|].
  destruct l as [|l']; [reflexivity|]. cbn [cbump]. unfold cget in *. cbn [nth]. apply IH. cbn in H. lia.
Qed.
Lemma cget_cbump_other : forall c l l', l <> l' -> cget (cbump c l) l' = cget c l'.
Proof.
  induction c as [|x t IH]; intros l l' H; [destruct l; reflexivity|].
  destruct l as [|l0]; destruct l' as [|l'0]; try reflexivity; try congruence.
  cbn [cbump]. unfold cget in *. cbn [nth]. apply IH. congruence.
Qed.
Lemma cbump_length : forall c l, List.length (cbump c l) = List.length c.
Proof. induction c as [|x t IH]; intros [|l]; cbn; try reflexivity. now rewrite IH. Qed.

(* ---------- the shape of a parsed level array below the Machine level ---------- *)

Inductive shape_ok : list Synthetic.level -> Prop :=
| shape_leaf lv : arity_of lv = O -> shape_ok [lv]
| shape_inner lv rest : arity_of lv <> O -> shape_ok rest -> shape_ok (lv :: rest).

Lemma shape_nonempty l : shape_ok l -> l <> [].
Proof. intros H; destruct H; discriminate. Qed.

Definition dummy_level : Synthetic.level := Synthetic.junk.
Definition leaf_of (levels : list Synthetic.level) : Synthetic.level := last levels dummy_level.
Definition leafidx (levels : list Synthetic.level) (k : N) : N :=
  next_index (Synthetic.lv_iarr (leaf_of levels)) (Synthetic.lv_type (leaf_of levels)) k.

Lemma leaf_of_cons lv rest : rest <> [] -> leaf_of (lv :: rest) = leaf_of rest.
Proof. intros H. unfold leaf_of. destruct rest; [contradiction|reflexivity]. Qed.

(* the set of leaf indexes drawn for the counter values k0 <= k < k1 *)
Definition in_range (levels : list Synthetic.level) (k0 k1 : N) (s : bset) : Prop :=
  forall i, mem i s = true <-> exists k, k0 <= k < k1 /\ i = leafidx levels k.

Lemma in_range_empty levels k s : (forall i, mem i s = false) -> in_range levels k k s.
Proof. intros H i. rewrite H. split; [discriminate|intros (k' & Hk & _); lia]. Qed.

Lemma in_range_union levels k0 k1 k2 a b : k0 <= k1 -> k1 <= k2 ->
  in_range levels k0 k1 a -> in_range levels k1 k2 b -> in_range levels k0 k2 (bs_union a b).
Proof.
  intros H01 H12 Ha Hb i. rewrite mem_union, orb_true_iff, (Ha i), (Hb i). split.
  - intros [(k & Hk & E)|(k & Hk & E)]; exists k; (split; [lia|exact E]).
  - intros (k & Hk & E). destruct (N.lt_ge_cases k k1); [left|right]; exists k; (split; [lia|exact E]).
Qed.


(* ---------- laminar families ---------- *)

Definition lam2 (a b : bset) : Prop := sub a b \/ sub b a \/ disj a b.
Definition Laminar (rs : list sreq) : Prop := ForallOrdPairs (fun a b => lam2 (r_cs a) (r_cs b)) rs.

Lemma FOP_app {A} (R : A -> A -> Prop) l1 l2 :
  ForallOrdPairs R l1 -> ForallOrdPairs R l2 -> (forall a b, In a l1 -> In b l2 -> R a b) -> ForallOrdPairs R (l1 ++ l2).
Proof.
  induction l1 as [|x t IH]; intros H1 H2 Hx; [exact H2|].
  inversion H1 as [|x' t' Hxt Ht]; subst. cbn [app]. constructor.
  - apply Forall_app. split; [exact Hxt|]. apply Forall_forall. intros b Hb. apply Hx; [left; reflexivity|exact Hb].
  - apply IH; [exact Ht|exact H2|]. intros a b Ha Hb. apply Hx; [right; exact Ha|exact Hb].
Qed.

Lemma same_cs_laminar s rs : Forall (fun r => r_cs r = s) rs -> Laminar rs.
Proof.
  induction rs as [|r t IH]; intros H; [constructor|]. inversion H as [|r' t' Hr Ht]; subst. constructor; [|apply IH, Ht].
  eapply Forall_impl; [|exact Ht]. intros b Hb. left. rewrite Hb. apply sub_refl.
Qed.

Definition inj_on (levels : list Synthetic.level) (bound : N) : Prop :=
  forall k1 k2, k1 < bound -> k2 < bound -> leafidx levels k1 = leafidx levels k2 -> k1 = k2.

Lemma ranges_disjoint levels bound k0 k1 k2 a b : inj_on levels bound -> k2 <= bound ->
  in_range levels k0 k1 a -> in_range levels k1 k2 b -> disj a b.
Proof.
  intros Hinj Hb Ha Hbb i Hia Hib. apply Ha in Hia as (ka & Hka & Ea). apply Hbb in Hib as (kb & Hkb & Eb).
  assert (ka = kb) by (apply Hinj; [lia|lia|congruence]). lia.
Qed.

Section Look.
  Variable keep : N -> bool.
  Variable bound : N.
  Variable narr : option (list N).

  Lemma attached_cs : forall atts set k, Forall (fun r => r_cs r = set) (fst (attached_reqs keep narr atts set k)).
  Proof.
    induction atts as [|a tl IH]; intros set k; [constructor|].
    cbn [attached_reqs]. specialize (IH set (k + 1)). destruct (attached_reqs keep narr tl set (k + 1)) as [rest k'].
    cbn [fst] in *. constructor; [reflexivity|]. destruct (_ && _); [constructor; [reflexivity|exact IH]|exact IH].
  Qed.

  (* the loop over the children of one object *)
  Definition rep (below : list Synthetic.level) (depth : nat) :=
    fix rep (n : nat) (set : bset) (rs : list sreq) (c : counters) (ka : N) : bset * list sreq * counters * N :=
      match n with
      | O => (set, rs, c, ka)
      | S n' =>
          let '(s1, r1, c1, ka1) := look keep narr below (S depth) c ka in
          rep n' (bs_union set s1) (rs ++ r1) c1 ka1
      end.

  (* what one call establishes; D = index of the leaf level *)
  Definition look_post (levels : list Synthetic.level) (D : nat) (c : counters) (res : bset * list sreq * counters * N) : Prop :=
    let '(set, rs, c', _) := res in
    List.length c' = List.length c /\
    cget c D <= cget c' D /\
    in_range levels (cget c D) (cget c' D) set /\
    Forall (fun r => sub (r_cs r) set) rs /\
    (inj_on levels bound -> cget c' D <= bound -> Laminar rs).

  Lemma own_att_same_cs (lv : Synthetic.level) os set att :
    Forall (fun r => r_cs r = set) att ->
    Forall (fun r => r_cs r = set)
      ((if keep (Synthetic.lv_type lv) then
          mkReq (Synthetic.lv_type lv) os set (if Synthetic.lv_type lv =? HWLOC_OBJ_NUMANODE then Some (bs_single os) else None)
                (Synthetic.lv_mem lv) (Synthetic.lv_depth lv)
          :: (if (Synthetic.lv_type lv =? HWLOC_OBJ_NUMANODE) && negb (Synthetic.lv_msc lv =? 0) && keep HWLOC_OBJ_MEMCACHE
              then [mscache_req os set (Synthetic.lv_msc lv)] else [])
        else []) ++ att).
  Proof.
    intros Ha. apply Forall_app. split; [|exact Ha].
    destruct (keep (Synthetic.lv_type lv)); [|constructor].
    constructor; [reflexivity|]. destruct (_ && _ && _); [constructor; [reflexivity|constructor]|constructor].
  Qed.

  Lemma look_spec : forall levels, shape_ok levels -> forall depth c ka,
    (depth + List.length levels - 1 < List.length c)%nat ->
    look_post levels (depth + List.length levels - 1) c (look keep narr levels depth c ka).
  Proof.
    induction 1 as [lv Hlv|lv rest Hlv Hrest IH]; intros depth c ka Hlen.
    - (* the leaf level *)
      cbn [List.length] in *. replace (depth + 1 - 1)%nat with depth in * by lia.
      cbn [look]. rewrite Hlv.
      destruct (attached_reqs keep narr (Synthetic.lv_att lv) _ ka) as [att ka'] eqn:EA.
      unfold look_post. rewrite cbump_length. split; [reflexivity|].
      rewrite cget_cbump_same by exact Hlen. split; [lia|]. split; [|].
      + unfold in_range. intros i. rewrite mem_single. unfold leafidx, leaf_of. cbn [last]. split.
        * intros E. apply N.eqb_eq in E. exists (cget c depth). split; [lia|exact E].
        * intros (k & Hk & E). assert (k = cget c depth) by lia. subst k. apply N.eqb_eq. exact E.
      + pose proof (attached_cs (Synthetic.lv_att lv) (bs_single (next_index (Synthetic.lv_iarr lv) (Synthetic.lv_type lv) (cget c depth))) ka) as HA.
        rewrite EA in HA. cbn [fst] in HA. cbn [app].
        pose proof (own_att_same_cs lv (next_index (Synthetic.lv_iarr lv) (Synthetic.lv_type lv) (cget c depth)) _ att HA) as Hsame.
        split; [eapply Forall_impl; [|exact Hsame]; intros r ->; apply sub_refl|].
        intros _ _. eapply same_cs_laminar, Hsame.
    - (* an inner level *)
      pose proof (shape_nonempty _ Hrest) as Hne.
      assert (HD : (depth + List.length (lv :: rest) - 1 = S depth + List.length rest - 1)%nat) by (cbn [List.length]; lia).
      rewrite HD in *. set (D := (S depth + List.length rest - 1)%nat) in *.
      assert (HdD : depth <> D) by (destruct rest; [contradiction|cbn [List.length] in *; lia]).
      assert (Hinj' : inj_on (lv :: rest) bound -> inj_on rest bound).
      { unfold inj_on, leafidx. now rewrite (leaf_of_cons lv rest Hne). }
      cbn [look]. destruct (arity_of lv) as [|n0] eqn:EA; [contradiction|].
      fold (rep rest depth).
      (* the loop *)
      assert (G : forall n set rs c1 ka1 k0,
                 List.length c1 = List.length c -> k0 <= cget c1 D -> in_range rest k0 (cget c1 D) set ->
                 Forall (fun r => sub (r_cs r) set) rs ->
                 (inj_on rest bound -> cget c1 D <= bound -> Laminar rs) ->
                 let '(set', rs', c', _) := rep rest depth n set rs c1 ka1 in
                 List.length c' = List.length c /\ cget c1 D <= cget c' D /\ in_range rest k0 (cget c' D) set' /\
                 Forall (fun r => sub (r_cs r) set') rs' /\
                 (inj_on rest bound -> cget c' D <= bound -> Laminar rs')).
      { induction n as [|n IHn]; intros set rs c1 ka1 k0 Hl Hk Hr Hs Hlam.
        - cbn [rep]. split; [exact Hl|]. split; [lia|]. split; [assumption|]. split; assumption.
        - cbn [rep]. specialize (IH (S depth) c1 ka1). fold D in IH. rewrite Hl in IH. specialize (IH Hlen).
          destruct (look keep narr rest (S depth) c1 ka1) as [[[s1 r1] c2] ka2]. unfold look_post in IH.
          destruct IH as (L2 & M2 & R2 & S2 & Lam2).
          assert (Hl2 : List.length c2 = List.length c) by congruence.
          specialize (IHn (bs_union set s1) (rs ++ r1) c2 ka2 k0 Hl2 ltac:(lia)
                          (in_range_union rest k0 _ _ set s1 Hk M2 Hr R2)).
          assert (Hs' : Forall (fun r => sub (r_cs r) (bs_union set s1)) (rs ++ r1)).
          { apply Forall_app. split; (eapply Forall_impl; [|eassumption]); intros r Hr0 i Hi; rewrite mem_union; apply Hr0 in Hi; rewrite Hi; [reflexivity|apply orb_true_r]. }
          assert (Hlam' : inj_on rest bound -> cget c2 D <= bound -> Laminar (rs ++ r1)).
          { intros Hi Hb. apply FOP_app; [apply Hlam; [exact Hi|lia]|apply Lam2; assumption|].
            intros a b Ha Hb0. right. right.
            pose proof (ranges_disjoint rest bound k0 (cget c1 D) (cget c2 D) set s1 Hi Hb Hr R2) as Hd.
            rewrite Forall_forall in Hs, S2. intros i Hia Hib. apply (Hd i); [apply (Hs a Ha), Hia|apply (S2 b Hb0), Hib]. }
          specialize (IHn Hs' Hlam'). destruct (rep rest depth n (bs_union set s1) (rs ++ r1) c2 ka2) as [[[set' rs'] c'] ka'].
          destruct IHn as (A1 & A2 & A3 & A4 & A5). split; [exact A1|]. split; [lia|]. split; [assumption|]. split; assumption. }
      specialize (G (S n0) bs_empty [] (cbump c depth) ka (cget (cbump c depth) D)
                    (cbump_length c depth) (N.le_refl _) (in_range_empty rest _ _ mem_empty) (Forall_nil _)
                    (fun _ _ => FOP_nil _)).
      cbn [rep] in G.
      destruct (look keep narr rest (S depth) (cbump c depth) ka) as [[[s1 r1] c1] ka1].
      destruct (rep rest depth n0 (bs_union bs_empty s1) ([] ++ r1) c1 ka1) as [[[set rs] c'] ka'].
      destruct G as (G1 & G2 & G3 & G4 & G5).
      destruct (attached_reqs keep narr (Synthetic.lv_att lv) set ka') as [att ka''] eqn:EAt.
      unfold look_post. rewrite cget_cbump_other in G2, G3 by exact HdD.
      split; [exact G1|]. split; [exact G2|]. split; [|].
      + unfold in_range in *. intros i. rewrite (G3 i). unfold leafidx. now rewrite (leaf_of_cons lv rest Hne).
      + pose proof (attached_cs (Synthetic.lv_att lv) set ka') as HA. rewrite EAt in HA. cbn [fst] in HA.
        pose proof (own_att_same_cs lv (next_index (Synthetic.lv_iarr lv) (Synthetic.lv_type lv) (cget c depth)) set att HA) as Hsame.
        split.
        * apply Forall_app. split; [exact G4|]. eapply Forall_impl; [|exact Hsame]. intros r ->. apply sub_refl.
        * intros Hi Hb. apply FOP_app; [apply G5; [apply Hinj', Hi|exact Hb]|eapply same_cs_laminar, Hsame|].
          intros a b Ha Hb0. left. rewrite Forall_forall in G4, Hsame. rewrite (Hsame b Hb0). apply G4, Ha.
  Qed.
End Look.

(* ---------- the whole backend: hwloc_look_synthetic ---------- *)

Section Top.
  Variable keep : N -> bool.

  (* the loop over the children of an object, as a lemma of its own (same invariant as inside look_spec) *)
  Lemma rep_spec bound narr below depth (c : counters) : shape_ok below -> (S depth + List.length below - 1 < List.length c)%nat ->
    forall n set rs c1 ka1 k0,
      let D := (S depth + List.length below - 1)%nat in
      List.length c1 = List.length c -> k0 <= cget c1 D -> in_range below k0 (cget c1 D) set ->
      Forall (fun r => sub (r_cs r) set) rs ->
      (inj_on below bound -> cget c1 D <= bound -> Laminar rs) ->
      let '(set', rs', c', _) := rep keep narr below depth n set rs c1 ka1 in
      List.length c' = List.length c /\ cget c1 D <= cget c' D /\ in_range below k0 (cget c' D) set' /\
      Forall (fun r => sub (r_cs r) set') rs' /\
      (inj_on below bound -> cget c' D <= bound -> Laminar rs').
  Proof.
    intros Hshape Hlen. induction n as [|n IHn]; intros set rs c1 ka1 k0 D Hl Hk Hr Hs Hlam.
    - cbn [rep]. split; [exact Hl|]. split; [lia|]. split; [assumption|]. split; assumption.
    - cbn [rep]. pose proof (look_spec keep bound narr below Hshape (S depth) c1 ka1) as IH. fold D in IH. rewrite Hl in IH. specialize (IH Hlen).
      destruct (look keep narr below (S depth) c1 ka1) as [[[s1 r1] c2] ka2]. unfold look_post in IH.
      destruct IH as (L2 & M2 & R2 & S2 & Lam2).
      assert (Hl2 : List.length c2 = List.length c) by congruence.
      specialize (IHn (bs_union set s1) (rs ++ r1) c2 ka2 k0 Hl2 ltac:(fold D; lia)
                      (in_range_union below k0 _ _ set s1 Hk M2 Hr R2)).
      assert (Hs' : Forall (fun r => sub (r_cs r) (bs_union set s1)) (rs ++ r1)).
      { apply Forall_app. split; (eapply Forall_impl; [|eassumption]); intros r Hr0 i Hi; rewrite mem_union; apply Hr0 in Hi; rewrite Hi; [reflexivity|apply orb_true_r]. }
      assert (Hlam' : inj_on below bound -> cget c2 D <= bound -> Laminar (rs ++ r1)).
      { intros Hi Hb. apply FOP_app; [apply Hlam; [exact Hi|lia]|apply Lam2; assumption|].
        intros a b Ha Hb0. right. right.
        pose proof (ranges_disjoint below bound k0 (cget c1 D) (cget c2 D) set s1 Hi Hb Hr R2) as Hd.
        rewrite Forall_forall in Hs, S2. intros i Hia Hib. apply (Hd i); [apply (Hs a Ha), Hia|apply (S2 b Hb0), Hib]. }
      specialize (IHn Hs' Hlam'). fold D in IHn. destruct (rep keep narr below depth n (bs_union set s1) (rs ++ r1) c2 ka2) as [[[set' rs'] c'] ka'].
      destruct IHn as (A1 & A2 & A3 & A4 & A5). split; [exact A1|]. split; [lia|]. split; [assumption|]. split; assumption.
  Qed.

  (* For every parsed description whose levels below the Machine have the parser's shape:
     - the cpuset given to the root is exactly the set of PU indexes drawn (leaf k gets leafidx k, k < total);
     - every requested object's cpuset is included in it;
     - if those PU indexes are pairwise distinct, the requested cpusets form a laminar family. *)
  Theorem synthetic_requests_spec : forall sy l0 below,
    Synthetic.sy_levels sy = l0 :: below -> shape_ok below ->
    exists total,
      let '(set, rs) := requests keep sy in
      in_range below 0 total set /\
      Forall (fun r => sub (r_cs r) set) rs /\
      (inj_on below total -> Laminar rs).
  Proof.
    intros sy l0 below E Hshape. unfold requests. rewrite E.
    set (c0 := repeat 0 (List.length (l0 :: below))).
    assert (Hlen : (1 + List.length below - 1 < List.length c0)%nat).
    { unfold c0. rewrite repeat_length. cbn [List.length]. pose proof (shape_nonempty _ Hshape). destruct below; [contradiction|cbn [List.length]; lia]. }
    set (D := (1 + List.length below - 1)%nat) in *.
    assert (H0 : cget c0 D = 0).
    { unfold cget, c0. generalize (List.length (l0 :: below)). generalize D. clear. intros d m. revert d. induction m as [|m IH]; intros [|d]; cbn; try reflexivity. apply IH. }
    fold (rep keep (Synthetic.sy_niarr sy) below 0).
    destruct (rep keep (Synthetic.sy_niarr sy) below 0 (arity_of l0) bs_empty [] c0 0) as [[[set rs] c'] ka'] eqn:ER.
    pose proof (rep_spec (cget c' D) (Synthetic.sy_niarr sy) below 0 c0 Hshape Hlen (arity_of l0) bs_empty [] c0 0 0
                  eq_refl ltac:(fold D; lia)) as G.
    fold D in G. rewrite H0 in G. specialize (G (in_range_empty below 0 _ mem_empty) (Forall_nil _) (fun _ _ => FOP_nil _)).
    rewrite ER in G. destruct G as (G1 & G2 & G3 & G4 & G5).
    destruct (attached_reqs keep (Synthetic.sy_niarr sy) (Synthetic.lv_att l0) set ka') as [att ka''] eqn:EAt.
    exists (cget c' D). split; [exact G3|].
    pose proof (attached_cs keep (Synthetic.sy_niarr sy) (Synthetic.lv_att l0) set ka') as HA. rewrite EAt in HA. cbn [fst] in HA.
    split.
    - apply Forall_app. split; [exact G4|]. eapply Forall_impl; [|exact HA]. intros r ->. apply sub_refl.
    - intros Hi. apply FOP_app; [apply G5; [exact Hi|lia]|eapply same_cs_laminar, HA|].
      intros a b Ha Hb0. left. rewrite Forall_forall in G4, HA. rewrite (HA b Hb0). apply G4, Ha.
  Qed.
End Top.

(* without an explicit index array the leaf indexes are the counter values themselves: always distinct *)
Lemma default_indexes_distinct levels bound :
  Synthetic.lv_iarr (leaf_of levels) = None -> Synthetic.lv_type (leaf_of levels) = HWLOC_OBJ_PU -> inj_on levels bound.
Proof.
  intros Ha Ht k1 k2 _ _. unfold leafidx, next_index. rewrite Ha, Ht.
  replace (Synthetic.is_cache HWLOC_OBJ_PU || (HWLOC_OBJ_PU =? HWLOC_OBJ_GROUP)) with false by (vm_compute; reflexivity).
  trivial.
Qed.

(* with an explicit array: distinct as soon as the array has no duplicate among its first [bound] entries *)
Lemma array_indexes_distinct levels bound a :
  Synthetic.lv_iarr (leaf_of levels) = Some a -> NoDup (firstn (N.to_nat bound) a) -> (N.to_nat bound <= List.length a)%nat ->
  inj_on levels bound.
Proof.
  intros Ha Hnd Hlen k1 k2 H1 H2. unfold leafidx, next_index. rewrite Ha. intros E.
  assert (F : forall k, k < bound -> nth (N.to_nat k) a 0 = nth (N.to_nat k) (firstn (N.to_nat bound) a) 0).
  { intros k Hk. assert (Hn : (N.to_nat k < N.to_nat bound)%nat) by lia.
    revert Hlen Hn. generalize (N.to_nat bound) (N.to_nat k). clear.
    intros b. revert a. induction b as [|b IH]; intros a n Hl Hn; [lia|].
    destruct a as [|x t]; [cbn in Hl; lia|]. destruct n as [|n]; [reflexivity|]. cbn [firstn nth]. apply IH; [cbn in Hl; lia|lia]. }
  rewrite (F k1 H1), (F k2 H2) in E.
  apply N2Nat.inj. rewrite NoDup_nth in Hnd. apply (Hnd _ _); [| |exact E];
    rewrite firstn_length; lia.
Qed.

(* ---------- executable forms of the hypotheses, evaluated on every traced description ---------- *)

Fixpoint shape_okb (l : list Synthetic.level) : bool :=
  match l with
  | [] => false
  | [lv] => Nat.eqb (arity_of lv) O
  | lv :: rest => negb (Nat.eqb (arity_of lv) O) && shape_okb rest
  end.

Lemma shape_okb_ok l : shape_okb l = true -> shape_ok l.
Proof.
  induction l as [|lv rest IH]; [discriminate|]. destruct rest as [|lv2 rest'].
  - cbn. intros H. apply shape_leaf. now apply Nat.eqb_eq.
  - intros H. change (negb (Nat.eqb (arity_of lv) O) && shape_okb (lv2 :: rest') = true) in H.
    apply andb_true_iff in H as [H1 H2]. apply shape_inner; [|apply IH, H2].
    apply negb_true_iff, Nat.eqb_neq in H1. exact H1.
Qed.

Fixpoint nodupb (l : list N) : bool :=
  match l with [] => true | x :: t => negb (existsb (N.eqb x) t) && nodupb t end.
Lemma nodupb_ok l : nodupb l = true -> NoDup l.
Proof.
  induction l as [|x t IH]; [constructor|]. cbn. intros H. apply andb_true_iff in H as [H1 H2].
  constructor; [|apply IH, H2]. intros Hin. apply negb_true_iff in H1.
  assert (existsb (N.eqb x) t = true) by (apply existsb_exists; exists x; split; [exact Hin|apply N.eqb_refl]). congruence.
Qed.

(* the PU level has no index list, or one without duplicates among its first [total] entries *)
Definition indexes_okb (below : list Synthetic.level) (total : N) : bool :=
  match Synthetic.lv_iarr (leaf_of below) with
  | None => Synthetic.lv_type (leaf_of below) =? HWLOC_OBJ_PU
  | Some a => nodupb (firstn (N.to_nat total) a) && Nat.leb (N.to_nat total) (List.length a)
  end.

Lemma indexes_okb_ok below total : indexes_okb below total = true -> inj_on below total.
Proof.
  unfold indexes_okb. destruct (Synthetic.lv_iarr (leaf_of below)) as [a|] eqn:E.
  - intros H. apply andb_true_iff in H as [H1 H2]. eapply array_indexes_distinct; [exact E|apply nodupb_ok, H1|apply Nat.leb_le, H2].
  - intros H. apply N.eqb_eq in H. apply default_indexes_distinct; assumption.
Qed.

(* number of PUs of a description: product of the arities *)
Definition total_pus (below : list Synthetic.level) (a0 : nat) : N :=
  fold_left (fun acc lv => match arity_of lv with O => acc | n => acc * N.of_nat n end) below (N.of_nat a0).

(* the hypotheses of synthetic_requests_spec, as one executable test on a parsed description *)
Definition synth_hypotheses_hold (sy : Synthetic.synth) : bool :=
  match Synthetic.sy_levels sy with
  | l0 :: below => shape_okb below && indexes_okb below (total_pus below (arity_of l0))
  | [] => false
  end.

Definition synth_hyp_of_desc (desc : list N) : option bool :=
  match Synthetic.parse Synthetic.Cur desc with
  | Synthetic.Ret sy => Some (synth_hypotheses_hold sy)
  | _ => None
  end.
