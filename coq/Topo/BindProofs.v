(* C10 - lemmas about Topo/Bind.v.
   Structure: [calls_of T a] lists, as a pure function of the arguments, every
   hook call an entry point can construct; [pres_run_api] shows that whatever
   the OS answers, whatever hooks exist, the trace only grows by such calls.
   The trace theorems are then facts about [calls_of]; the result theorems
   (rc / errno) are proved on the short paths their hypotheses select. *)
From Coq Require Import NArith ZArith Bool List Lia String.
From HV Require Import Base.BSet Gen.Tables Topo.Bind.
Import ListNotations.
Local Open Scope N_scope.

(* ---------- tables: the model's masks and policy check are what the entry points accept ---------- *)
Lemma policy_ok_table :
  forallb (fun e => forallb (fun pb => Bool.eqb (policy_ok (fst pb)) (snd pb)) (snd e)) bind_accepted_policies = true.
Proof. vm_compute. reflexivity. Qed.

Definition is_membind_name (s : string) : bool :=
  existsb (String.eqb s) ["set_membind"; "get_membind"; "set_proc_membind"; "get_proc_membind"; "set_area_membind";
                          "get_area_membind"; "get_area_memlocation"; "alloc_membind"]%string.
Lemma allflags_table :
  forallb (fun e => snd e =? (if is_membind_name (fst e) then MEMBIND_ALLFLAGS else CPUBIND_ALLFLAGS)) bind_accepted_flags = true
  /\ List.length bind_accepted_flags = 16%nat.
Proof. split; vm_compute; reflexivity. Qed.

(* ---------- sets ---------- *)
Lemma bs_subset_refl a : bs_subset a a = true.
Proof. apply bs_subset_spec. auto. Qed.
Lemma bs_subset_trans a b c : bs_subset a b = true -> bs_subset b c = true -> bs_subset a c = true.
Proof. rewrite !bs_subset_spec. auto. Qed.
Lemma bs_subset_empty_r a : bs_subset a bs_empty = true -> bs_is_empty a = true.
Proof.
  rewrite bs_subset_spec, bs_is_empty_mem. intros H i.
  destruct (mem i a) eqn:E; [|reflexivity]. apply H in E. now rewrite mem_empty in E.
Qed.
Lemma nonempty_subset a b : bs_is_empty a = false -> bs_subset a b = true -> bs_is_empty b = false.
Proof.
  intros Ha Hs. destruct (bs_is_empty b) eqn:E; [|reflexivity].
  apply bs_is_empty_spec in E. subst b. apply bs_subset_empty_r in Hs. congruence.
Qed.

(* ---------- pure versions of the three fix functions ---------- *)
Definition fixc (T : topo) (set : bset) : option bset :=
  if bs_is_empty set then None else if negb (bs_subset set (t_ccpuset T)) then None
  else if bs_subset (t_cpuset T) set then Some (t_ccpuset T) else Some set.
Definition fixm (T : topo) (ns : bset) : option bset :=
  if bs_is_empty ns then None else if negb (bs_subset ns (t_cnodeset T)) then None
  else if bs_subset (t_nodeset T) ns then Some (t_cnodeset T) else Some ns.
Definition fixmc (T : topo) (cs : bset) : option bset :=
  if bs_is_empty cs then None else if negb (bs_subset cs (t_ccpuset T)) then None
  else if bs_subset (t_cpuset T) cs then Some (t_cnodeset T) else Some (cpuset_to_nodeset T cs).

Lemma fixc_some T set x : fixc T set = Some x ->
  bs_is_empty set = false /\ bs_subset set (t_ccpuset T) = true /\
  bs_is_empty x = false /\ bs_subset x (t_ccpuset T) = true /\
  x = (if bs_subset (t_cpuset T) set then t_ccpuset T else set).
Proof.
  unfold fixc. destruct (bs_is_empty set) eqn:E1; [discriminate|].
  destruct (bs_subset set (t_ccpuset T)) eqn:E2; [|discriminate]. cbn [negb].
  destruct (bs_subset (t_cpuset T) set) eqn:E3; intros H; injection H as <-; repeat split; auto.
  - eapply nonempty_subset; eauto.
  - apply bs_subset_refl.
Qed.
Lemma fixm_some T ns x : fixm T ns = Some x ->
  bs_is_empty ns = false /\ bs_subset ns (t_cnodeset T) = true /\
  bs_is_empty x = false /\ bs_subset x (t_cnodeset T) = true /\
  x = (if bs_subset (t_nodeset T) ns then t_cnodeset T else ns).
Proof.
  unfold fixm. destruct (bs_is_empty ns) eqn:E1; [discriminate|].
  destruct (bs_subset ns (t_cnodeset T)) eqn:E2; [|discriminate]. cbn [negb].
  destruct (bs_subset (t_nodeset T) ns) eqn:E3; intros H; injection H as <-; repeat split; auto.
  - eapply nonempty_subset; eauto.
  - apply bs_subset_refl.
Qed.
Lemma fixmc_some T cs x : fixmc T cs = Some x ->
  bs_is_empty cs = false /\ bs_subset cs (t_ccpuset T) = true /\ x = derived_nodeset T cs.
Proof.
  unfold fixmc, derived_nodeset. destruct (bs_is_empty cs) eqn:E1; [discriminate|].
  destruct (bs_subset cs (t_ccpuset T)) eqn:E2; [|discriminate]. cbn [negb].
  destruct (bs_subset (t_cpuset T) cs) eqn:E3; intros H; injection H as <-; auto.
Qed.
Lemma fixc_none T set : fixc T set = None -> bs_is_empty set || negb (bs_subset set (t_ccpuset T)) = true.
Proof.
  unfold fixc. destruct (bs_is_empty set); [reflexivity|]. destruct (bs_subset set (t_ccpuset T)); cbn [negb orb]; [|reflexivity].
  destruct (bs_subset (t_cpuset T) set); discriminate.
Qed.

(* every hook call an entry point can construct, from its arguments alone *)
Definition both (mk : hid -> hcall) (hp ht : hid) : list hcall := [mk hp; mk ht].
Definition mem_calls (T : topo) (set : bset) (f : N) (k : bset -> list hcall) : list hcall :=
  if bynodeset f then k set else match fixmc T set with Some ns => k ns | None => [] end.
Definition calls_of (T : topo) (a : apicall) : list hcall :=
  match a with
  | A_set_cpubind set f =>
    if flags_ok CPUBIND_ALLFLAGS f then
      match fixc T set with Some x => both (fun h => HC h 0 (Some x) 0 f 0) H_set_thisproc_cpubind H_set_thisthread_cpubind | None => [] end
    else []
  | A_get_cpubind f => if flags_ok CPUBIND_ALLFLAGS f then both (fun h => HC h 0 None 0 f 0) H_get_thisproc_cpubind H_get_thisthread_cpubind else []
  | A_set_proc_cpubind pid set f =>
    if flags_ok CPUBIND_ALLFLAGS f then match fixc T set with Some x => [HC H_set_proc_cpubind pid (Some x) 0 f 0] | None => [] end else []
  | A_get_proc_cpubind pid f => if flags_ok CPUBIND_ALLFLAGS f then [HC H_get_proc_cpubind pid None 0 f 0] else []
  | A_set_thread_cpubind tid set f =>
    if flags_ok CPUBIND_ALLFLAGS f then match fixc T set with Some x => [HC H_set_thread_cpubind tid (Some x) 0 f 0] | None => [] end else []
  | A_get_thread_cpubind tid f => if flags_ok CPUBIND_ALLFLAGS f then [HC H_get_thread_cpubind tid None 0 f 0] else []
  | A_get_last_cpu_location f => if flags_ok CPUBIND_ALLFLAGS f then both (fun h => HC h 0 None 0 f 0) H_get_thisproc_last H_get_thisthread_last else []
  | A_get_proc_last_cpu_location pid f => if flags_ok CPUBIND_ALLFLAGS f then [HC H_get_proc_last pid None 0 f 0] else []
  | A_set_membind set p f =>
    mem_calls T set f (fun ns => if flags_ok MEMBIND_ALLFLAGS f && policy_ok p then
      match fixm T ns with Some x => both (fun h => HC h 0 (Some x) p f 0) H_set_thisproc_membind H_set_thisthread_membind | None => [] end else [])
  | A_get_membind f => if flags_ok MEMBIND_ALLFLAGS f then both (fun h => HC h 0 None 0 f 0) H_get_thisproc_membind H_get_thisthread_membind else []
  | A_set_proc_membind pid set p f =>
    mem_calls T set f (fun ns => if flags_ok MEMBIND_ALLFLAGS f && policy_ok p then
      match fixm T ns with Some x => [HC H_set_proc_membind pid (Some x) p f 0] | None => [] end else [])
  | A_get_proc_membind pid f => if flags_ok MEMBIND_ALLFLAGS f then [HC H_get_proc_membind pid None 0 f 0] else []
  | A_set_area_membind len set p f =>
    mem_calls T set f (fun ns => if flags_ok MEMBIND_ALLFLAGS f && policy_ok p then
      if len =? 0 then [] else
      match fixm T ns with Some x => [HC H_set_area_membind 0 (Some x) p f len] | None => [] end else [])
  | A_get_area_membind len f => if flags_ok MEMBIND_ALLFLAGS f && negb (len =? 0) then [HC H_get_area_membind 0 None 0 f len] else []
  | A_get_area_memlocation len f => if flags_ok MEMBIND_ALLFLAGS f && negb (len =? 0) then [HC H_get_area_memlocation 0 None 0 f len] else []
  | A_alloc_membind len set p f =>
    HC H_alloc 0 None 0 0 len ::
    mem_calls T set f (fun ns => if flags_ok MEMBIND_ALLFLAGS f && policy_ok p then
      match fixm T ns with
      | Some x => if flag HWLOC_MEMBIND_MIGRATE f then [] else [HC H_alloc_membind 0 (Some x) p f len; HC H_set_area_membind 0 (Some x) p f len]
      | None => [] end else [])
  end.

Section Pres.
  Variable W : Type.
  Variable os : hcall -> W -> hres * W.
  Variable heap : N -> bool.
  Variable present : hid -> bool.
  Variable T : topo.
  Variable Q : hcall -> Prop.
  (* an invariant of the OS state that every hook keeps when it is called with a call satisfying Q *)
  Variable I : W -> Prop.
  Hypothesis HI : forall c w, Q c -> t_thissystem T = true -> I w -> I (snd (os c w)).

  Definition Inv (s : st W) : Prop := Forall Q (s_trace s) /\ I (s_w s).
  Definition pres {X} (f : st W -> X * st W) : Prop := forall s, Inv s -> Inv (snd (f s)).

  (* a call only has to satisfy Q when it can actually reach the OS *)
  Definition Q' (c : hcall) : Prop := t_thissystem T = true -> Q c.
  Lemma pres_invoke c : Q' c -> pres (invoke W os heap T c).
  Proof.
    intros Hc s [Hs Hw]. unfold invoke. destruct (t_thissystem T) eqn:TS.
    - pose proof (HI c (s_w s) (Hc TS) eq_refl Hw) as H1.
      destruct (os c (s_w s)) as [r w']. cbn [snd] in *. split; cbn [s_trace s_w]; [|exact H1].
      apply Forall_app. split; [exact Hs|]. constructor; [exact (Hc TS)|constructor].
    - cbn [snd]. split; [exact Hs|exact Hw].
  Qed.
  Lemma pres_fail e : pres (fail W e).
  Proof. intros s Hs. exact Hs. Qed.
  Lemma pres_ioe c : Q' c -> pres (invoke_or_enosys W os heap present T c).
  Proof.
    intros Hc s Hs. unfold invoke_or_enosys. destruct (installed present T (hc_id c)).
    - now apply pres_invoke. - exact Hs.
  Qed.
  Lemma pres_this P Th hp ht mk f : Q' (mk hp) -> Q' (mk ht) -> pres (this_dispatch W os heap present T P Th hp ht mk f).
  Proof.
    intros Hp Ht s Hs. unfold this_dispatch.
    destruct (flag P f); [now apply pres_ioe|]. destruct (flag Th f); [now apply pres_ioe|].
    destruct (installed present T hp); [|now apply pres_ioe].
    pose proof (pres_invoke (mk hp) Hp s Hs) as H1.
    destruct (invoke W os heap T (mk hp) s) as [r s1]. cbn [snd] in H1.
    destruct ((0 <=? hr_rc r)%Z || negb (err_eqb (s_errno s1) ENOSYS)); [exact H1|].
    now apply pres_ioe.
  Qed.
  Lemma pres_do_alloc len : Q' (HC H_alloc 0 None 0 0 len) -> pres (do_alloc W os heap present T len).
  Proof.
    intros Hc s Hs. unfold do_alloc. destruct (installed present T H_alloc).
    - pose proof (pres_invoke _ Hc s Hs) as H1. destruct (invoke W os heap T (HC H_alloc 0 None 0 0 len) s). exact H1.
    - destruct (heap len); exact Hs.
  Qed.
  Lemma pres_alloc_fallback len f : Q' (HC H_alloc 0 None 0 0 len) -> pres (alloc_fallback W os heap present T len f).
  Proof.
    intros Hc s Hs. unfold alloc_fallback. destruct (flag HWLOC_MEMBIND_STRICT f); [exact Hs|].
    pose proof (pres_do_alloc len Hc s Hs) as H1. destruct (do_alloc W os heap present T len s). exact H1.
  Qed.

  (* the stateful fix functions are the pure ones plus errno *)
  Lemma fix_cpubind_eq set s :
    fix_cpubind W T set s = (fixc T set, match fixc T set with None => set_errno W EINVAL s | Some _ => s end).
  Proof.
    unfold fix_cpubind, fixc. destruct (bs_is_empty set); [reflexivity|].
    destruct (negb (bs_subset set (t_ccpuset T))); [reflexivity|]. destruct (bs_subset (t_cpuset T) set); reflexivity.
  Qed.
  Lemma fix_membind_eq ns s :
    fix_membind W T ns s = (fixm T ns, match fixm T ns with None => set_errno W EINVAL s | Some _ => s end).
  Proof.
    unfold fix_membind, fixm. destruct (bs_is_empty ns); [reflexivity|].
    destruct (negb (bs_subset ns (t_cnodeset T))); [reflexivity|]. destruct (bs_subset (t_nodeset T) ns); reflexivity.
  Qed.
  Lemma fix_membind_cpuset_eq cs s :
    fix_membind_cpuset W T cs s = (fixmc T cs, match fixmc T cs with None => set_errno W EINVAL s | Some _ => s end).
  Proof.
    unfold fix_membind_cpuset, fixmc. destruct (bs_is_empty cs); [reflexivity|].
    destruct (negb (bs_subset cs (t_ccpuset T))); [reflexivity|]. destruct (bs_subset (t_cpuset T) cs); reflexivity.
  Qed.

  Lemma pres_with_nodeset set f (k : bset -> st W -> ares * st W) :
    (forall ns, (bynodeset f = true /\ ns = set \/ bynodeset f = false /\ fixmc T set = Some ns) -> pres (k ns)) ->
    pres (with_nodeset W T set f k).
  Proof.
    intros Hk s Hs. unfold with_nodeset. destruct (bynodeset f) eqn:B.
    - apply Hk; auto.
    - rewrite fix_membind_cpuset_eq. destruct (fixmc T set) eqn:E; [|exact Hs]. apply Hk; auto.
  Qed.

  Ltac inl := cbn [In both]; auto 8.

  (* whatever the OS does, the trace grows only by calls listed in [calls_of] *)
  Lemma pres_run_api a : (forall c, In c (calls_of T a) -> Q' c) -> pres (run_api W os heap present T a).
  Proof.
    intros HQ. destruct a; cbn [run_api]; cbn [calls_of] in HQ.
    - (* set_cpubind *) intros s Hs. unfold set_cpubind, einval.
      destruct (flags_ok CPUBIND_ALLFLAGS flags); cbn [negb]; [|exact Hs].
      rewrite fix_cpubind_eq. destruct (fixc T set) as [x|]; [|exact Hs].
      unfold ret_rc. cbn [snd]. apply pres_this; auto; apply HQ; inl.
    - intros s Hs. unfold get_cpubind, einval. destruct (flags_ok CPUBIND_ALLFLAGS flags); cbn [negb]; [|exact Hs].
      unfold ret_cpuset. cbn [snd]. apply pres_this; auto; apply HQ; inl.
    - intros s Hs. unfold set_who_cpubind, einval. destruct (flags_ok CPUBIND_ALLFLAGS flags); cbn [negb]; [|exact Hs].
      rewrite fix_cpubind_eq. destruct (fixc T set) as [x|]; [|exact Hs].
      unfold ret_rc. cbn [snd]. apply pres_ioe; auto; apply HQ; inl.
    - intros s Hs. unfold get_who_cpubind, einval. destruct (flags_ok CPUBIND_ALLFLAGS flags); cbn [negb]; [|exact Hs].
      unfold ret_cpuset. cbn [snd]. apply pres_ioe; auto; apply HQ; inl.
    - intros s Hs. unfold set_who_cpubind, einval. destruct (flags_ok CPUBIND_ALLFLAGS flags); cbn [negb]; [|exact Hs].
      rewrite fix_cpubind_eq. destruct (fixc T set) as [x|]; [|exact Hs].
      unfold ret_rc. cbn [snd]. apply pres_ioe; auto; apply HQ; inl.
    - intros s Hs. unfold get_who_cpubind, einval. destruct (flags_ok CPUBIND_ALLFLAGS flags); cbn [negb]; [|exact Hs].
      unfold ret_cpuset. cbn [snd]. apply pres_ioe; auto; apply HQ; inl.
    - intros s Hs. unfold get_last_cpu_location, einval. destruct (flags_ok CPUBIND_ALLFLAGS flags); cbn [negb]; [|exact Hs].
      unfold ret_cpuset. cbn [snd]. apply pres_this; auto; apply HQ; inl.
    - intros s Hs. unfold get_who_cpubind, einval. destruct (flags_ok CPUBIND_ALLFLAGS flags); cbn [negb]; [|exact Hs].
      unfold ret_cpuset. cbn [snd]. apply pres_ioe; auto; apply HQ; inl.
    - (* set_membind *) unfold set_membind. apply pres_with_nodeset. intros ns Hns s Hs.
      assert (HQ' : forall c, In c (if flags_ok MEMBIND_ALLFLAGS flags && policy_ok policy then
                match fixm T ns with Some x => both (fun h => HC h 0 (Some x) policy flags 0) H_set_thisproc_membind H_set_thisthread_membind | None => [] end else []) -> Q' c).
      { intros c Hc. apply HQ. unfold mem_calls. destruct Hns as [[B ->]|[B E]]; rewrite B; [|rewrite E]; exact Hc. }
      unfold set_membind_by_nodeset, einval.
      destruct (flags_ok MEMBIND_ALLFLAGS flags); cbn [negb orb andb] in *; [|exact Hs].
      destruct (policy_ok policy); cbn [negb] in *; [|exact Hs].
      rewrite fix_membind_eq. destruct (fixm T ns) as [x|]; [|exact Hs].
      unfold ret_rc. cbn [snd]. apply pres_this; auto; apply HQ'; inl.
    - intros s Hs. unfold get_membind, ret_early. destruct (flags_ok MEMBIND_ALLFLAGS flags); cbn [negb]; [|exact Hs].
      unfold ret_membind. destruct (bynodeset flags); cbn [snd]; apply pres_this; auto; apply HQ; inl.
    - (* set_proc_membind *) unfold set_proc_membind. apply pres_with_nodeset. intros ns Hns s Hs.
      assert (HQ' : forall c, In c (if flags_ok MEMBIND_ALLFLAGS flags && policy_ok policy then
                match fixm T ns with Some x => [HC H_set_proc_membind pid (Some x) policy flags 0] | None => [] end else []) -> Q' c).
      { intros c Hc. apply HQ. unfold mem_calls. destruct Hns as [[B ->]|[B E]]; rewrite B; [|rewrite E]; exact Hc. }
      unfold set_proc_membind_by_nodeset, einval.
      destruct (flags_ok MEMBIND_ALLFLAGS flags); cbn [negb orb andb] in *; [|exact Hs].
      destruct (policy_ok policy); cbn [negb] in *; [|exact Hs].
      rewrite fix_membind_eq. destruct (fixm T ns) as [x|]; [|exact Hs].
      unfold ret_rc. cbn [snd]. apply pres_ioe; auto; apply HQ'; inl.
    - intros s Hs. unfold get_proc_membind, ret_early. destruct (flags_ok MEMBIND_ALLFLAGS flags); cbn [negb]; [|exact Hs].
      unfold ret_membind. destruct (bynodeset flags); cbn [snd]; apply pres_ioe; auto; apply HQ; inl.
    - (* set_area_membind *) unfold set_area_membind. apply pres_with_nodeset. intros ns Hns s Hs.
      assert (HQ' : forall c, In c (if flags_ok MEMBIND_ALLFLAGS flags && policy_ok policy then
                if len =? 0 then [] else
                match fixm T ns with Some x => [HC H_set_area_membind 0 (Some x) policy flags len] | None => [] end else []) -> Q' c).
      { intros c Hc. apply HQ. unfold mem_calls. destruct Hns as [[B ->]|[B E]]; rewrite B; [|rewrite E]; exact Hc. }
      unfold set_area_membind_by_nodeset, einval.
      destruct (flags_ok MEMBIND_ALLFLAGS flags); cbn [negb orb andb] in *; [|exact Hs].
      destruct (policy_ok policy); cbn [negb] in *; [|exact Hs].
      destruct (len =? 0); [exact Hs|].
      rewrite fix_membind_eq. destruct (fixm T ns) as [x|]; [|exact Hs].
      unfold ret_rc. cbn [snd]. apply pres_ioe; auto; apply HQ'; inl.
    - intros s Hs. unfold get_area_membind, ret_early. destruct (flags_ok MEMBIND_ALLFLAGS flags); cbn [negb andb] in *; [|exact Hs].
      destruct (len =? 0); cbn [negb] in *; [exact Hs|].
      unfold ret_membind. destruct (bynodeset flags); cbn [snd]; apply pres_ioe; auto; apply HQ; inl.
    - intros s Hs. unfold get_area_memlocation, ret_early. destruct (flags_ok MEMBIND_ALLFLAGS flags); cbn [negb andb] in *; [|exact Hs].
      destruct (len =? 0); cbn [negb] in *; [exact Hs|].
      unfold ret_membind. destruct (bynodeset flags); cbn [snd fst]; apply pres_ioe; auto; apply HQ; inl.
    - (* alloc_membind *)
      assert (HA : Q' (HC H_alloc 0 None 0 0 len)) by (apply HQ; left; reflexivity).
      assert (Hby : forall ns, (bynodeset flags = true /\ ns = set \/ bynodeset flags = false /\ fixmc T set = Some ns) ->
                    pres (alloc_membind_by_nodeset W os heap present T len ns policy flags)).
      { intros ns Hns s Hs.
        assert (HQ' : forall c, In c (if flags_ok MEMBIND_ALLFLAGS flags && policy_ok policy then
                  match fixm T ns with
                  | Some x => if flag HWLOC_MEMBIND_MIGRATE flags then [] else [HC H_alloc_membind 0 (Some x) policy flags len; HC H_set_area_membind 0 (Some x) policy flags len]
                  | None => [] end else []) -> Q' c).
        { intros c Hc. apply HQ. right. unfold mem_calls. destruct Hns as [[B ->]|[B E]]; rewrite B; [|rewrite E]; exact Hc. }
        unfold alloc_membind_by_nodeset.
        destruct (flags_ok MEMBIND_ALLFLAGS flags); cbn [negb orb andb] in *; [|exact Hs].
        destruct (policy_ok policy); cbn [negb] in *; [|exact Hs].
        rewrite fix_membind_eq. destruct (fixm T ns) as [x|]; [|now apply pres_alloc_fallback].
        destruct (flag HWLOC_MEMBIND_MIGRATE flags); [now apply pres_alloc_fallback|].
        destruct (installed present T H_alloc_membind).
        { assert (Hc : Q' (HC H_alloc_membind 0 (Some x) policy flags len)) by (apply HQ'; inl).
          pose proof (pres_invoke _ Hc s Hs) as H1. destruct (invoke W os heap T (HC H_alloc_membind 0 (Some x) policy flags len) s). exact H1. }
        destruct (installed present T H_set_area_membind); [|now apply pres_alloc_fallback].
        pose proof (pres_do_alloc len HA s Hs) as H1. destruct (do_alloc W os heap present T len s) as [p s2]. cbn [snd] in H1.
        destruct (p =? 0)%Z; [exact H1|].
        assert (Hc : Q' (HC H_set_area_membind 0 (Some x) policy flags len)) by (apply HQ'; inl).
        pose proof (pres_invoke _ Hc s2 H1) as H2. destruct (invoke W os heap T (HC H_set_area_membind 0 (Some x) policy flags len) s2) as [r s3].
        cbn [snd] in H2. destruct (negb (hr_rc r =? 0)%Z && flag HWLOC_MEMBIND_STRICT flags); exact H2. }
      intros s Hs. unfold alloc_membind. destruct (bynodeset flags) eqn:B.
      + apply Hby; auto.
      + rewrite fix_membind_cpuset_eq. destruct (fixmc T set) eqn:E.
        * apply Hby; auto.
        * now apply pres_alloc_fallback.
  Qed.
End Pres.

(* ---------- facts about calls_of: the three trace properties ---------- *)
Ltac brk H := repeat match type of H with
  | In _ (if ?b then _ else _) => let E := fresh "E" in destruct b eqn:E
  | In _ (match ?o with Some _ => _ | None => _ end) => let E := fresh "E" in destruct o eqn:E
  | In _ (_ :: _) => let H' := fresh "H" in destruct H as [H'|H]; [symmetry in H'|]
  | In _ [] => destruct H
  | In _ (both _ _ _) => unfold both in H
  | In _ (mem_calls _ _ _ _) => unfold mem_calls in H
  end.

Lemma legal_some T h who x p f len :
  bs_is_empty x = false -> bs_subset x (complete_of T (hid_kind h)) = true -> legal_call T (HC h who (Some x) p f len) = true.
Proof. intros E S. unfold legal_call. cbn [hc_set hc_id]. now rewrite E, S. Qed.

(* every call an entry point can construct carries a legal set, for ALL arguments *)
Lemma calls_legal T a c : In c (calls_of T a) -> legal_call T c = true.
Proof.
  intros H. destruct a; cbn [calls_of] in H; brk H; subst c; try reflexivity;
  repeat match goal with
  | E : fixc _ _ = Some _ |- _ => apply fixc_some in E; destruct E as (?&?&?&?&?)
  | E : fixm _ _ = Some _ |- _ => apply fixm_some in E; destruct E as (?&?&?&?&?)
  end; apply legal_some; assumption.
Qed.

(* the hooks of the membind family all take a nodeset *)
Lemma calls_mem_kind T a c : api_is_mem a = true -> In c (calls_of T a) -> hc_set c <> None -> hid_kind (hc_id c) = KNode.
Proof.
  intros Hm H Hs. destruct a; try discriminate Hm; cbn [calls_of] in H; brk H; subst c; try reflexivity;
  exfalso; apply Hs; reflexivity.
Qed.

Definition bad_derived (T : topo) (a : apicall) : bool :=
  match api_set a with
  | Some s => api_is_mem a && negb (flag HWLOC_MEMBIND_BYNODESET (api_flags a)) && negb (bad_set T a)
              && (bs_is_empty (derived_nodeset T s) || negb (bs_subset (derived_nodeset T s) (t_cnodeset T)))
  | None => false
  end.
(* the rejected classes: unknown flag bit, bad policy, empty set, set outside the complete set,
   and for membind by cpuset a cpuset whose NUMA nodes form an unusable nodeset *)
Definition invalid (T : topo) (a : apicall) : bool := bad_flags a || bad_policy a || bad_set T a || bad_derived T a.

Lemma calls_invalid_no_binding T a c : invalid T a = true -> In c (calls_of T a) -> is_binding_call c = false.
Proof.
  intros Hi H. destruct a; cbn [calls_of] in H; brk H; subst c; try reflexivity; exfalso;
  repeat match goal with
  | E : fixc _ _ = Some _ |- _ => apply fixc_some in E; destruct E as (?&?&?&?&?)
  | E : fixm _ _ = Some _ |- _ => apply fixm_some in E; destruct E as (?&?&?&?&?)
  | E : fixmc _ _ = Some _ |- _ => apply fixmc_some in E; destruct E as (?&?&?)
  | E : _ && _ = true |- _ => apply andb_true_iff in E; destruct E
  end;
  revert Hi; unfold invalid, bad_derived, bad_flags, bad_policy, bad_set, api_setkind, api_allflags, bynodeset in *;
  cbn [api_flags api_is_mem api_set api_policy andb complete_of];
  repeat match goal with
  | E : ?x = _ |- context [?x] => rewrite E
  end; subst; cbn [negb orb andb complete_of];
  repeat match goal with
  | E : ?x = _ |- context [?x] => rewrite E
  end; cbn [negb orb andb]; rewrite ?andb_false_r; discriminate.
Qed.

Lemma calls_full_complete T a c x :
  covers_topology T a = true -> In c (calls_of T a) -> hc_set c = Some x -> x = complete_of T (hid_kind (hc_id c)).
Proof.
  intros Hc H Hx. destruct a; cbn [calls_of] in H; brk H; subst c; cbn [hc_set] in Hx; try discriminate;
  injection Hx as <-; cbn [hc_id hid_kind complete_of];
  repeat match goal with
  | E : fixc _ _ = Some _ |- _ => apply fixc_some in E; destruct E as (?&?&?&?&?)
  | E : fixm _ _ = Some _ |- _ => apply fixm_some in E; destruct E as (?&?&?&?&?)
  | E : fixmc _ _ = Some _ |- _ => apply fixmc_some in E; destruct E as (?&?&?)
  end;
  revert Hc; unfold covers_topology, api_setkind, bynodeset, derived_nodeset in *; cbn [api_set api_flags api_is_mem andb];
  repeat match goal with
  | E : flag HWLOC_MEMBIND_BYNODESET _ = _ |- _ => rewrite E
  end; intros Hc; subst;
  repeat match goal with
  | E : ?x = true |- context [if ?x then _ else _] => rewrite E
  end; try reflexivity;
  repeat match goal with
  | |- context [if ?b then _ else _] => destruct b
  end; reflexivity.
Qed.

(* ---------- results (return value, errno, untouched OS) ---------- *)
Ltac fixfacts := repeat match goal with
  | E : fixc _ _ = Some _ |- _ => apply fixc_some in E; destruct E as (?&?&?&?&?)
  | E : fixm _ _ = Some _ |- _ => apply fixm_some in E; destruct E as (?&?&?&?&?)
  | E : fixmc _ _ = Some _ |- _ => apply fixmc_some in E; destruct E as (?&?&?)
  | E : _ && _ = true |- _ => apply andb_true_iff in E; destruct E
  end.
(* close a goal whose hypotheses say the arguments are fine while Hi says they are invalid *)
Ltac contra Hi :=
  exfalso; fixfacts; revert Hi;
  unfold invalid, bad_derived, bad_flags, bad_policy, bad_set, api_setkind, api_allflags, bynodeset in *;
  cbn [api_flags api_is_mem api_set api_policy andb complete_of];
  repeat match goal with E : ?x = _ |- context [?x] => rewrite E end; subst; cbn [negb orb andb complete_of];
  repeat match goal with E : ?x = _ |- context [?x] => rewrite E end; cbn [negb orb andb]; rewrite ?andb_false_r; discriminate.
Ltac conds := repeat (match goal with
  | |- context [flags_ok ?m ?f] => let E := fresh "Ef" in destruct (flags_ok m f) eqn:E
  | |- context [policy_ok ?p] => let E := fresh "Ep" in destruct (policy_ok p) eqn:E
  | |- context [flag HWLOC_MEMBIND_BYNODESET ?f] => let E := fresh "Eb" in destruct (flag HWLOC_MEMBIND_BYNODESET f) eqn:E
  | |- context [fixc ?T ?s] => let E := fresh "Ec" in destruct (fixc T s) eqn:E
  | |- context [fixmc ?T ?s] => let E := fresh "Emc" in destruct (fixmc T s) eqn:E
  | |- context [fixm ?T ?s] => let E := fresh "Em" in destruct (fixm T s) eqn:E
  | |- context [N.eqb ?l 0] => let E := fresh "El" in destruct (N.eqb l 0) eqn:E
  end; cbn [negb orb andb]; cbv beta iota).

Section Results.
  Variable W : Type.
  Variable os : hcall -> W -> hres * W.
  Variable heap : N -> bool.
  Variable present : hid -> bool.
  Variable T : topo.
  Notation RUN := (run W os heap present T).

  Ltac open_api :=
    unfold run; cbn [run_api];
    unfold set_cpubind, get_cpubind, set_who_cpubind, get_who_cpubind, get_last_cpu_location, set_membind, get_membind,
      set_proc_membind, get_proc_membind, set_area_membind, get_area_membind, get_area_memlocation, alloc_membind,
      set_membind_by_nodeset, set_proc_membind_by_nodeset, set_area_membind_by_nodeset, alloc_membind_by_nodeset,
      with_nodeset, einval, ret_early, bynodeset;
    rewrite ?fix_cpubind_eq, ?fix_membind_cpuset_eq.
  Ltac conds' := repeat (conds; rewrite ?fix_membind_eq).

  (* the only non-allocating call that accepts an unusable set: a zero-length area returns 0
     before the NODE set is looked at (documented: "0 on success or if len is 0"); a cpuset is
     converted, hence checked, before that *)
  Definition area_len0_bynodeset (a : apicall) : bool :=
    match a with
    | A_set_area_membind len _ _ f =>
      (len =? 0) && negb (bad_flags a) && negb (bad_policy a) && (flag HWLOC_MEMBIND_BYNODESET f || negb (bad_set T a))
    | _ => false
    end.

  Lemma reject_result a w :
    invalid T a = true -> api_is_alloc a = false -> area_len0_bynodeset a = false ->
    a_rc (fst (RUN a w)) = (-1)%Z /\ s_errno (snd (RUN a w)) = EINVAL /\ s_trace (snd (RUN a w)) = [] /\ s_w (snd (RUN a w)) = w.
  Proof.
    intros Hi Ha Hx. destruct a; try discriminate Ha; open_api; conds';
    first [ solve [cbn; repeat split; reflexivity]
          | solve [contra Hi]
          | (* zero-length area *) exfalso; fixfacts; revert Hx;
            unfold area_len0_bynodeset, bad_flags, bad_policy, bad_set, api_setkind, api_allflags;
            cbn [api_flags api_is_mem api_policy api_set andb];
            repeat match goal with E : ?x = _ |- context [?x] => rewrite E end; cbn [negb andb orb complete_of];
            repeat match goal with E : ?x = _ |- context [?x] => rewrite E end; cbn [negb andb orb]; discriminate ].
  Qed.

  (* alloc_membind: an unknown flag bit / bad policy gives NULL/EINVAL when the set is passed BY NODESET
     (by cpuset the set is converted first); any invalid argument with STRICT gives NULL/EINVAL *)
  Lemma reject_result_alloc len set p f w :
    invalid T (A_alloc_membind len set p f) = true -> flag HWLOC_MEMBIND_STRICT f = true ->
    let a := A_alloc_membind len set p f in
    a_rc (fst (RUN a w)) = 0%Z /\ s_errno (snd (RUN a w)) = EINVAL /\ s_trace (snd (RUN a w)) = [] /\ s_w (snd (RUN a w)) = w.
  Proof.
    intros Hi Hs a. subst a. open_api; conds'; unfold alloc_fallback; rewrite ?Hs;
    first [ solve [cbn; repeat split; reflexivity] | solve [contra Hi] ].
  Qed.

  Lemma fixm_none ns : fixm T ns = None -> bs_is_empty ns || negb (bs_subset ns (t_cnodeset T)) = true.
  Proof.
    unfold fixm. destruct (bs_is_empty ns); [reflexivity|]. destruct (bs_subset ns (t_cnodeset T)); cbn [negb orb]; [|reflexivity].
    destruct (bs_subset (t_nodeset T) ns); discriminate.
  Qed.
  Lemma fixmc_none cs : fixmc T cs = None -> bs_is_empty cs || negb (bs_subset cs (t_ccpuset T)) = true.
  Proof.
    unfold fixmc. destruct (bs_is_empty cs); [reflexivity|]. destruct (bs_subset cs (t_ccpuset T)); cbn [negb orb]; [|reflexivity].
    destruct (bs_subset (t_cpuset T) cs); discriminate.
  Qed.

  (* close a goal whose hypotheses say an argument was rejected while Hv says all are valid *)
  Ltac contra_valid Hv :=
    exfalso;
    repeat match goal with
    | E : fixc _ _ = None |- _ => apply fixc_none in E
    | E : fixm _ _ = None |- _ => apply fixm_none in E
    | E : fixmc _ _ = None |- _ => apply fixmc_none in E
    end; fixfacts; subst; revert Hv;
    unfold invalid, bad_derived, bad_flags, bad_policy, bad_set, api_setkind, api_allflags, bynodeset in *;
    cbn [api_flags api_is_mem api_set api_policy andb complete_of];
    repeat match goal with E : ?x = _ |- context [?x] => rewrite E end; cbn [negb orb andb complete_of];
    repeat match goal with E : ?x = _ |- context [?x] => rewrite E end; cbn [negb orb andb];
    rewrite ?orb_true_r; discriminate.

  Ltac open_rest :=
    unfold ret_rc, ret_cpuset, ret_membind, this_dispatch, invoke_or_enosys, alloc_fallback, do_alloc, installed, bynodeset.

  (* no hook, valid arguments: -1/ENOSYS, nothing reaches the OS *)
  Lemma enosys_result a w :
    t_thissystem T = true -> invalid T a = false -> api_is_alloc a = false ->
    (forall h, In h (api_hooks a) -> present h = false) ->
    match api_len a with Some l => l <> 0 | None => True end ->
    a_rc (fst (RUN a w)) = (-1)%Z /\ s_errno (snd (RUN a w)) = ENOSYS /\ s_trace (snd (RUN a w)) = [] /\ s_w (snd (RUN a w)) = w.
  Proof.
    intros Hts Hv Ha Hh Hl. destruct a; try discriminate Ha; cbn [api_len] in Hl; revert Hh; cbn [api_hooks api_flags api_is_mem];
    open_api; conds'; try solve [contra_valid Hv];
    try (match goal with E : (_ =? 0) = true |- _ => exfalso; apply Hl; apply N.eqb_eq; exact E end);
    open_rest; rewrite Hts; cbn [hc_id];
    repeat match goal with |- context [flag ?b ?f] => destruct (flag b f) eqn:? end; intros Hh;
    rewrite ?Hh by (cbn [In]; auto); cbn; repeat split; reflexivity.
  Qed.

  (* a topology that is not this system: whatever the arguments, the OS is neither called nor changed *)
  Lemma dummy_untouched a w :
    t_thissystem T = false -> s_trace (snd (RUN a w)) = [] /\ s_w (snd (RUN a w)) = w.
  Proof.
    intros Hts. destruct a; open_api; conds'; open_rest; unfold invoke; rewrite ?Hts;
    repeat match goal with |- context [if ?b then _ else _] => destruct b end; cbn; split; reflexivity.
  Qed.

  (* ... set-calls with valid arguments return 0 *)
  Lemma dummy_set_result a w :
    t_thissystem T = false -> invalid T a = false -> api_is_alloc a = false -> api_set a <> None ->
    a_rc (fst (RUN a w)) = 0%Z.
  Proof.
    intros Hts Hv Ha Hs. destruct a; try discriminate Ha; try (exfalso; apply Hs; reflexivity);
    open_api; conds'; try solve [contra_valid Hv]; open_rest; unfold invoke; rewrite ?Hts;
    repeat match goal with |- context [flag ?b ?f] => destruct (flag b f) eqn:? end;
    repeat match goal with |- context [heap ?l] => destruct (heap l) eqn:? end; cbn; reflexivity.
  Qed.

  (* what a get-call reports on a foreign topology: the whole machine *)
  Definition whole_machine (a : apicall) : bset :=
    if api_is_mem a then (if flag HWLOC_MEMBIND_BYNODESET (api_flags a) then t_cnodeset T else cpuset_from_nodeset T (t_cnodeset T))
    else t_ccpuset T.
  Lemma dummy_get_result a w :
    t_thissystem T = false -> bad_flags a = false -> api_set a = None ->
    match api_len a with Some l => l <> 0 | None => True end ->
    a_rc (fst (RUN a w)) = 0%Z /\ a_set (fst (RUN a w)) = Some (whole_machine a) /\
    (match a with A_get_membind _ | A_get_proc_membind _ _ | A_get_area_membind _ _ => a_policy (fst (RUN a w)) = Some HWLOC_MEMBIND_MIXED | _ => True end).
  Proof.
    intros Hts Hv Hs Hl. destruct a; try discriminate Hs; cbn [api_len] in Hl;
    revert Hv; unfold bad_flags, api_allflags, whole_machine; cbn [api_flags api_is_mem]; intros Hv; apply negb_false_iff in Hv;
    open_api; rewrite Hv; cbn [negb];
    try (destruct (N.eqb_spec len 0) as [El|El]; [exfalso; apply Hl; exact El|]);
    open_rest; unfold invoke; rewrite ?Hts;
    repeat match goal with |- context [flag ?b ?f] => destruct (flag b f) eqn:? end; cbn; repeat split; reflexivity.
  Qed.
End Results.

(* ---------- corollaries on whole runs ---------- *)
Section Runs.
  Variable W : Type.
  Variable os : hcall -> W -> hres * W.
  Variable heap : N -> bool.
  Variable present : hid -> bool.
  Variable T : topo.
  Notation RUN := (run W os heap present T).

  Lemma run_inv (Q : hcall -> Prop) (I : W -> Prop) a w :
    (forall c w, Q c -> t_thissystem T = true -> I w -> I (snd (os c w))) ->
    (forall c, In c (calls_of T a) -> Q c) -> I w ->
    Forall Q (s_trace (snd (RUN a w))) /\ I (s_w (snd (RUN a w))).
  Proof.
    intros HI H Hw. unfold run. apply (pres_run_api W os heap present T Q I HI a).
    - intros c Hc _. now apply H.
    - split; [constructor|exact Hw].
  Qed.
  Lemma run_trace (Q : hcall -> Prop) a w :
    (forall c, In c (calls_of T a) -> Q c) -> Forall Q (s_trace (snd (RUN a w))).
  Proof. intros H. apply (run_inv Q (fun _ => True) a w); auto. Qed.

  Lemma run_only_legal a w c : In c (s_trace (snd (RUN a w))) -> legal_call T c = true.
  Proof.
    intros Hc. pose proof (run_trace (fun c => legal_call T c = true) a w (fun c => calls_legal T a c)) as H.
    rewrite Forall_forall in H. now apply H.
  Qed.
  Lemma run_invalid_no_binding a w c : invalid T a = true -> In c (s_trace (snd (RUN a w))) -> is_binding_call c = false.
  Proof.
    intros Hi Hc. pose proof (run_trace (fun c => is_binding_call c = false) a w (fun c => calls_invalid_no_binding T a c Hi)) as H.
    rewrite Forall_forall in H. now apply H.
  Qed.
  Lemma run_mem_kind a w c : api_is_mem a = true -> In c (s_trace (snd (RUN a w))) -> hc_set c <> None -> hid_kind (hc_id c) = KNode.
  Proof.
    intros Hm Hc. pose proof (run_trace (fun c => hc_set c <> None -> hid_kind (hc_id c) = KNode) a w (fun c Hin => calls_mem_kind T a c Hm Hin)) as H.
    rewrite Forall_forall in H. now apply H.
  Qed.
  Lemma run_full_complete a w c x :
    covers_topology T a = true -> In c (s_trace (snd (RUN a w))) -> hc_set c = Some x -> x = complete_of T (hid_kind (hc_id c)).
  Proof.
    intros Hcv Hc. pose proof (run_trace (fun c => forall x, hc_set c = Some x -> x = complete_of T (hid_kind (hc_id c))) a w
                                 (fun c Hin x => calls_full_complete T a c x Hcv Hin)) as H.
    rewrite Forall_forall in H. now apply H.
  Qed.
End Runs.

(* ---------- hwloc_backends_is_thissystem ---------- *)
Lemma foreign_backend_not_thissystem backends :
  (exists b, In b backends /\ bk_is_thissystem b <> (-1)%Z) -> backends_is_thissystem backends false None = false.
Proof.
  intros [b [Hin Hb]]. unfold backends_is_thissystem.
  destruct (existsb (fun b => bk_envvar_forced b && negb (bk_is_thissystem b =? -1)%Z) backends) eqn:E2; [reflexivity|].
  destruct (existsb (fun b => negb (bk_envvar_forced b) && negb (bk_is_thissystem b =? -1)%Z) backends) eqn:E1; [reflexivity|].
  exfalso. rewrite <- not_true_iff_false in E1, E2. rewrite existsb_exists in E1, E2.
  assert (Hn : negb (bk_is_thissystem b =? -1)%Z = true) by (apply negb_true_iff; apply Z.eqb_neq; exact Hb).
  destruct (bk_envvar_forced b) eqn:F; [apply E2|apply E1]; exists b; rewrite F, Hn; auto.
Qed.
Lemma flag_makes_thissystem backends :
  (forall b, In b backends -> bk_envvar_forced b = false) -> backends_is_thissystem backends true None = true.
Proof.
  intros H. unfold backends_is_thissystem.
  destruct (existsb (fun b => bk_envvar_forced b && negb (bk_is_thissystem b =? -1)%Z) backends) eqn:E2; [|now destruct (existsb _ backends)].
  apply existsb_exists in E2 as [b [Hin Hb]]. rewrite (H b Hin) in Hb. discriminate.
Qed.
Lemma env_overrides_thissystem backends fl v : backends_is_thissystem backends fl (Some v) = negb (v =? 0)%Z.
Proof. reflexivity. Qed.

(* a derived topology (dup, dup of dup, adopt, in any order) is its source as far as binding goes *)
Lemma derive_id T ds : fold_left derive ds T = T.
Proof. revert T. induction ds as [|d ds IH]; intros T; cbn [fold_left]; [reflexivity|]. rewrite IH. destruct d, T; reflexivity. Qed.

(* the hooks a load installs depend on that load's configuration only, not on earlier (failed) loads of the handle *)
Lemma thissystem_last_load_only history c :
  thissystem_after (history ++ [c]) = backends_is_thissystem (lc_backends c) (lc_flag c) (lc_env c).
Proof.
  unfold thissystem_after. rewrite fold_left_app. cbn [fold_left]. unfold load_step.
  destruct (backends_is_thissystem _ _ _); [apply orb_true_r|apply andb_false_r].
Qed.

(* ---------- /proc/<tid>/stat: the task name cannot confuse the parser ---------- *)
Lemma after_last_rparen_keeps rest best : ~ In 41%N rest -> after_last_rparen rest best = best.
Proof.
  revert best. induction rest as [|c r IH]; intros best H; cbn [after_last_rparen]; [reflexivity|].
  destruct (N.eqb_spec c 41) as [->|_]; [exfalso; apply H; left; reflexivity|]. apply IH. intros Hr. apply H. right. exact Hr.
Qed.
Lemma after_last_rparen_app a rest best : ~ In 41%N rest -> after_last_rparen (a ++ 41 :: rest) best = Some rest.
Proof.
  revert best. induction a as [|c a IH]; intros best H; cbn [app after_last_rparen].
  - rewrite N.eqb_refl. now apply after_last_rparen_keeps.
  - now apply IH.
Qed.
Lemma upto_nul_id s : ~ In 0%N s -> upto_nul s = s.
Proof.
  induction s as [|c r IH]; intros H; cbn [upto_nul]; [reflexivity|].
  destruct (N.eqb_spec c 0) as [->|_]; [exfalso; apply H; left; reflexivity|]. f_equal. apply IH. intros Hr. apply H. right. exact Hr.
Qed.
(* what follows the name decides alone: for EVERY prefix (pid) and EVERY task name - parentheses, spaces, digits,
   ") " sequences, empty - the answer is the one computed from the bytes after the closing parenthesis *)
Lemma parse_stat_ignores_name pre name rest :
  ~ In 41%N rest -> ~ In 0%N (pre ++ 40 :: name ++ 41 :: rest) -> (List.length (pre ++ 40%N :: name ++ 41%N :: rest) <= 1023)%nat ->
  parse_stat (pre ++ 40 :: name ++ 41 :: rest) =
    match skip_fields 36 (tl rest) with Some f => scan_int f | None => None end.
Proof.
  intros Hr H0 Hl. unfold parse_stat. rewrite firstn_all2 by exact Hl. rewrite (upto_nul_id _ H0).
  replace (pre ++ 40 :: name ++ 41 :: rest) with ((pre ++ 40 :: name) ++ 41 :: rest) by (rewrite <- app_assoc; reflexivity).
  rewrite (after_last_rparen_app (pre ++ 40 :: name) rest None Hr).
  destruct ((pre ++ 40 :: name) ++ 41 :: rest) eqn:E; [|reflexivity].
  exfalso. destruct pre; discriminate E.
Qed.

(* ---------- x86 look_procs against the idealised affinity model ---------- *)
Lemma bs_inter_subset a b : bs_subset a b = true -> bs_inter a b = a.
Proof.
  intros H. apply bs_ext. intros i. rewrite mem_inter. rewrite bs_subset_spec in H.
  destruct (mem i a) eqn:E; [now rewrite (H i E)|reflexivity].
Qed.
Lemma x86_procs_restores allowed restrict_set nbprocs orig cur :
  bs_subset orig allowed = true -> bs_is_empty orig = false ->
  fst (x86_look_procs allowed restrict_set nbprocs orig cur) = orig.
Proof.
  intros Hs He. unfold x86_look_procs.
  destruct (x86_bind_loop allowed restrict_set (map N.of_nat (seq 0 nbprocs)) cur []) as [cur1 visited].
  cbn [fst snd]. unfold ideal_set. rewrite (bs_inter_subset orig allowed Hs), He. reflexivity.
Qed.
(* what is saved is the THREAD binding: the calling thread ends where it started, whatever the other threads are bound to *)
Lemma x86_restores allowed restrict nbprocs thread others :
  bs_subset thread allowed = true -> bs_is_empty thread = false ->
  fst (x86_look allowed restrict nbprocs thread others) = thread.
Proof. intros Hs He. unfold x86_look, x86_query_thisthread. now apply x86_procs_restores. Qed.
(* saving the process binding instead leaves the thread on the union of all threads *)
Lemma x86_saving_proc_leaves_union allowed nbprocs thread others :
  bs_subset (bs_union thread others) allowed = true -> bs_is_empty (bs_union thread others) = false ->
  fst (x86_look_saving_proc allowed nbprocs thread others) = bs_union thread others.
Proof. intros Hs He. unfold x86_look_saving_proc, x86_query_thisproc. now apply x86_procs_restores. Qed.

(* ---------- the Linux hooks: which masks reach the kernel ---------- *)
(* [kinv w]: every kernel call recorded so far carried only non-empty masks inside the complete
   cpuset / nodeset.  Each set-like Linux hook keeps it when it is called with a legal set
   (which is all bind.c ever passes: run_only_legal), for EVERY kernel behaviour. *)
Definition mask_ok (complete : bset) (m : option bset) : bool :=
  match m with None => true | Some s => negb (bs_is_empty s) && bs_subset s complete end.
Definition klegal (T : topo) (k : kcall) : bool :=
  mask_ok (t_ccpuset T) (kcall_cpumask k) && mask_ok (t_cnodeset T) (kcall_nodemask k).

Lemma subset_finite a b : bs_subset a b = true -> inf b = false -> inf a = false.
Proof.
  intros Hs Hb. destruct (inf a) eqn:Ea; [|reflexivity]. exfalso.
  rewrite bs_subset_spec in Hs.
  set (i := N.succ (N.max (N.log2 (fin a)) (N.log2 (fin b)))).
  assert (Ha : mem i a = true). { unfold mem. rewrite N.bits_above_log2 by (unfold i; lia). now rewrite Ea. }
  apply Hs in Ha. unfold mem in Ha. rewrite N.bits_above_log2 in Ha by (unfold i; lia). rewrite Hb in Ha. discriminate.
Qed.

Lemma mask_from_nodeset_legal T ns :
  inf (t_cnodeset T) = false -> bs_is_empty ns = false -> bs_subset ns (t_cnodeset T) = true ->
  mask_ok (t_cnodeset T) (Some (snd (mask_from_nodeset ns))) = true.
Proof.
  intros Hf He Hs. pose proof (subset_finite _ _ Hs Hf) as Hfin.
  unfold mask_from_nodeset. assert (Hnf : bs_is_full ns = false) by (unfold bs_is_full; now rewrite Hfin).
  rewrite Hnf. destruct (bs_last ns) as [l|] eqn:El.
  2:{ apply bs_last_none in El. destruct El as [El|El]; [congruence|]. subst ns. discriminate He. }
  cbn [snd mask_ok]. apply bs_last_some in El. destruct El as [Hl _].
  apply andb_true_iff. split.
  - apply negb_true_iff. match goal with |- ?x = false => destruct x eqn:E end; [|reflexivity]. exfalso.
    rewrite bs_is_empty_mem in E. specialize (E l). rewrite mem_inter, Hl, mem_range in E. cbn [andb] in E.
    apply andb_false_iff in E. destruct E as [E|E]; [apply N.leb_gt in E; lia|].
    apply N.ltb_ge in E. revert E. unfold HWLOC_BITS_PER_LONG.
    pose proof (N.div_mod (l + 1 + 64 - 1) 64 ltac:(lia)) as D. pose proof (N.mod_lt (l + 1 + 64 - 1) 64 ltac:(lia)). lia.
  - apply bs_subset_spec. intros i Hi. rewrite mem_inter in Hi. apply andb_true_iff in Hi. destruct Hi as [Hi _].
    rewrite bs_subset_spec in Hs. auto.
Qed.

Section L.
  Variable KW : Type.
  Variable kernel : kcall -> KW -> kres * KW.
  Variable T : topo.
  Variable tpid : Z.
  Variable nr_cpus max_numnodes : N.
  Hypothesis Hfin : inf (t_cnodeset T) = false.
  Notation LOS := (linux_os KW kernel T tpid nr_cpus max_numnodes).
  Definition kinv (w : lw KW) : Prop := Forall (fun k => klegal T k = true) (l_ktrace w).

  Lemma kc_inv c w : klegal T c = true -> kinv w -> kinv (snd (kc KW kernel c w)).
  Proof.
    intros Hc Hw. unfold kc. destruct (kernel c (l_k w)). cbn [snd]. unfold kinv. cbn [l_ktrace].
    apply Forall_app. split; [exact Hw|]. constructor; [exact Hc|constructor].
  Qed.
  (* a step that keeps the invariant whatever it returns *)
  Definition keeps {X} (f : lw KW -> X * lw KW) : Prop := forall w, kinv w -> kinv (snd (f w)).

  Lemma keeps_kc c : klegal T c = true -> keeps (kc KW kernel c).
  Proof. intros H w. now apply kc_inv. Qed.

  Lemma keeps_set_tid tid set : bs_is_empty set = false -> bs_subset set (t_ccpuset T) = true -> keeps (set_tid_cpubind KW kernel tid set).
  Proof.
    intros He Hs w Hw. unfold set_tid_cpubind. destruct (bs_last set); [|exact Hw].
    pose proof (kc_inv (K_setaffinity tid set) w) as H. destruct (kc KW kernel (K_setaffinity tid set) w). cbn [snd] in *.
    apply H; [|exact Hw]. unfold klegal. cbn [kcall_cpumask kcall_nodemask mask_ok]. now rewrite He, Hs.
  Qed.
  Lemma keeps_get_tid tid : keeps (get_tid_cpubind KW kernel T nr_cpus tid).
  Proof.
    intros w Hw. unfold get_tid_cpubind. pose proof (kc_inv (K_getaffinity tid) w eq_refl Hw) as H.
    destruct (kc KW kernel (K_getaffinity tid) w). cbn [snd] in *. destruct (k_rc k <? 0)%Z; exact H.
  Qed.
  Lemma keeps_get_other tid : keeps (get_other_thread_cpubind KW kernel T nr_cpus tid).
  Proof.
    intros w Hw. unfold get_other_thread_cpubind. pose proof (kc_inv (K_getaffinity tid) w eq_refl Hw) as H.
    destruct (kc KW kernel (K_getaffinity tid) w). cbn [snd] in *. destruct (k_rc k <? 0)%Z; exact H.
  Qed.
  Lemma keeps_get_last tid : keeps (get_tid_last KW kernel tid).
  Proof.
    intros w Hw. unfold get_tid_last. set (t' := if (tid =? 0)%Z then 1%Z else tid).
    pose proof (kc_inv (K_lastcpu t') w eq_refl Hw) as H.
    destruct (kc KW kernel (K_lastcpu t') w). cbn [snd] in *. destruct (k_rc k <? 0)%Z; [exact H|].
    destruct (parse_stat _); exact H.
  Qed.

  Section FE.
    Variable A : Type.
    Variable cb : Z -> nat -> A -> lw KW -> (bool * err * A) * lw KW.
    Hypothesis Hcb : forall t i a, keeps (cb t i a).
    Lemma keeps_pass tids : forall idx a failed ferr, keeps (foreach_pass KW A cb tids idx a failed ferr).
    Proof.
      induction tids as [|t rest IH]; intros idx a failed ferr w Hw; cbn [foreach_pass]; [exact Hw|].
      pose proof (Hcb t idx a w Hw) as H1. destruct (cb t idx a w) as [[[ok e] a1] w1]. cbn [snd] in H1.
      destruct ok; apply IH; exact H1.
    Qed.
    Lemma keeps_retry fuel : forall pid tids a, keeps (foreach_retry KW kernel A cb fuel pid tids a).
    Proof.
      induction fuel as [|f IH]; intros pid tids a w Hw; cbn [foreach_retry];
      pose proof (keeps_pass tids 0%nat a 0%nat E0 w Hw) as H1;
      destruct (foreach_pass KW A cb tids 0 a 0 E0 w) as [[[a1 failed] ferr] w1]; cbn [snd] in H1;
      pose proof (kc_inv (K_tasklist pid) w1 eq_refl H1) as H2;
      destruct (kc KW kernel (K_tasklist pid) w1) as [r w2]; cbn [snd] in H2;
      destruct (k_rc r <? 0)%Z; try exact H2;
      destruct (negb (zeqb_list (k_list r) tids) || ((0 <? failed)%nat && negb (failed =? List.length tids)%nat)); try exact H2.
      - destruct (0 <? failed)%nat; exact H2.
      - now apply IH.
      - destruct (0 <? failed)%nat; exact H2.
    Qed.
    Lemma keeps_foreach pid a : keeps (foreach_proc_tid KW kernel A cb pid a).
    Proof.
      intros w Hw. unfold foreach_proc_tid. pose proof (kc_inv (K_tasklist pid) w eq_refl Hw) as H1.
      destruct (kc KW kernel (K_tasklist pid) w) as [r w1]. cbn [snd] in H1.
      destruct (k_rc r <? 0)%Z; [exact H1|]. now apply keeps_retry.
    Qed.
  End FE.

  Lemma keeps_of_foreach (f : lw KW -> (Z * err * bset) * lw KW) : keeps f -> keeps (fun w => of_foreach KW (f w)).
  Proof. intros H w Hw. specialize (H w Hw). unfold of_foreach. destruct (f w) as [[[rc e] a] w1]. exact H. Qed.


  Lemma keeps_set_pid pid set : bs_is_empty set = false -> bs_subset set (t_ccpuset T) = true -> keeps (set_pid_cpubind KW kernel pid set).
  Proof.
    intros He Hs w Hw. unfold set_pid_cpubind.
    apply (keeps_of_foreach (foreach_proc_tid KW kernel bset _ pid bs_empty)); [|exact Hw].
    apply keeps_foreach. intros t i a w0 Hw0. pose proof (keeps_set_tid t set He Hs w0 Hw0) as H.
    destruct (set_tid_cpubind KW kernel t set w0). exact H.
  Qed.
  Lemma keeps_get_pid pid flags : keeps (get_pid_cpubind KW kernel T nr_cpus pid flags).
  Proof.
    intros w Hw. unfold get_pid_cpubind.
    apply (keeps_of_foreach (foreach_proc_tid KW kernel bset _ pid bs_empty)); [|exact Hw].
    apply keeps_foreach. intros t i a w0 Hw0. pose proof (keeps_get_tid t w0 Hw0) as H.
    destruct (get_tid_cpubind KW kernel T nr_cpus t w0) as [r w1]. cbn [snd] in H.
    destruct (negb (hr_rc r =? 0)%Z); [exact H|]. destruct (flag HWLOC_CPUBIND_STRICT flags); [|exact H].
    destruct i; [exact H|]. destruct (bs_eqb _ _); exact H.
  Qed.
  Lemma keeps_get_pid_last pid : keeps (get_pid_last KW kernel pid).
  Proof.
    intros w Hw. unfold get_pid_last.
    apply (keeps_of_foreach (foreach_proc_tid KW kernel bset _ pid bs_empty)); [|exact Hw].
    apply keeps_foreach. intros t i a w0 Hw0. pose proof (keeps_get_last t w0 Hw0) as H.
    destruct (get_tid_last KW kernel t w0) as [r w1]. cbn [snd] in H.
    destruct (negb (hr_rc r =? 0)%Z); exact H.
  Qed.

  Lemma keeps_pm_probe (issue : Z -> lw KW -> kres * lw KW) lp pm :
    (forall m, keeps (issue m)) -> forall w, kinv w -> kinv (snd (with_pm_probe KW issue lp pm w)).
  Proof.
    intros Hi w Hw. unfold with_pm_probe. pose proof (Hi lp w Hw) as H1. destruct (issue lp w) as [r w1]. cbn [snd] in H1.
    destruct ((lp =? zN MPOL_PREFERRED_MANY)%Z && (pm =? -1)%Z); [|exact H1].
    destruct (k_rc r =? 0)%Z; [exact H1|]. destruct (err_eqb (k_errno r) EINVAL); [|exact H1].
    pose proof (Hi (zN MPOL_PREFERRED) w1 H1) as H2. destruct (issue (zN MPOL_PREFERRED) w1) as [r2 w2]. cbn [snd] in H2.
    destruct (k_rc r2 =? 0)%Z; exact H2.
  Qed.

  Lemma keeps_set_thisthread_membind ns p f :
    bs_is_empty ns = false -> bs_subset ns (t_cnodeset T) = true -> keeps (linux_set_thisthread_membind KW kernel T ns p f).
  Proof.
    intros He Hs w Hw. unfold linux_set_thisthread_membind. destruct (linux_policy p f) as [lp0|]; [|exact Hw].
    set (lp := pm_fix (l_pm_thread w) lp0). destruct (lp =? zN MPOL_DEFAULT)%Z.
    { pose proof (kc_inv (K_set_mempolicy lp None 0) w eq_refl Hw) as H. destruct (kc KW kernel (K_set_mempolicy lp None 0) w). exact H. }
    destruct (lp =? zN MPOL_LOCAL)%Z.
    { destruct (negb (bs_eqb ns (t_cnodeset T))); [exact Hw|].
      pose proof (kc_inv (K_set_mempolicy (zN MPOL_PREFERRED) None 0) w eq_refl Hw) as H.
      destruct (kc KW kernel (K_set_mempolicy (zN MPOL_PREFERRED) None 0) w). exact H. }
    pose proof (mask_from_nodeset_legal T ns Hfin He Hs) as Hm. destruct (mask_from_nodeset ns) as [maxi mask]. cbn [snd] in Hm.
    assert (Hgo : forall w0, kinv w0 -> kinv (snd (
        let '(r, pm, w1) := with_pm_probe KW (fun m => kc KW kernel (K_set_mempolicy m (Some mask) (maxi + 1))) lp (l_pm_thread w0) w0 in
        ((if (k_rc r <? 0)%Z then hfail (k_errno r) else hok), set_pm_thread KW pm w1)))).
    { intros w0 Hw0.
      assert (Hk : forall m, klegal T (K_set_mempolicy m (Some mask) (maxi + 1)) = true)
        by (intros m; unfold klegal; cbn [kcall_cpumask kcall_nodemask mask_ok andb]; exact Hm).
      pose proof (keeps_pm_probe (fun m => kc KW kernel (K_set_mempolicy m (Some mask) (maxi + 1))) lp (l_pm_thread w0)
                    (fun m => keeps_kc _ (Hk m)) w0 Hw0) as H.
      destruct (with_pm_probe KW _ lp (l_pm_thread w0) w0) as [[r pm] w1]. exact H. }
    destruct (flag HWLOC_MEMBIND_MIGRATE f); [|now apply Hgo].
    pose proof (kc_inv (K_migrate_pages (maxi + 1) (migrate_fullmask maxi) mask) w) as H.
    destruct (kc KW kernel (K_migrate_pages (maxi + 1) (migrate_fullmask maxi) mask) w) as [r w1]. cbn [snd] in H.
    assert (H1 : kinv w1) by (apply H; [unfold klegal; cbn [kcall_cpumask kcall_nodemask mask_ok andb]; exact Hm|exact Hw]).
    destruct ((k_rc r <? 0)%Z && flag HWLOC_MEMBIND_STRICT f); [exact H1|now apply Hgo].
  Qed.

  Lemma keeps_set_area_membind len ns p f :
    bs_is_empty ns = false -> bs_subset ns (t_cnodeset T) = true -> keeps (linux_set_area_membind KW kernel T len ns p f).
  Proof.
    intros He Hs w Hw. unfold linux_set_area_membind. destruct (linux_policy p f) as [lp0|]; [|exact Hw].
    set (lp := pm_fix (l_pm_area w) lp0). destruct (lp =? zN MPOL_DEFAULT)%Z.
    { pose proof (kc_inv (K_mbind len lp None 0 0) w eq_refl Hw) as H. destruct (kc KW kernel (K_mbind len lp None 0 0) w). exact H. }
    destruct (lp =? zN MPOL_LOCAL)%Z.
    { destruct (negb (bs_eqb ns (t_cnodeset T))); [exact Hw|].
      pose proof (kc_inv (K_mbind len (zN MPOL_PREFERRED) None 0 0) w eq_refl Hw) as H.
      destruct (kc KW kernel (K_mbind len (zN MPOL_PREFERRED) None 0 0) w). exact H. }
    pose proof (mask_from_nodeset_legal T ns Hfin He Hs) as Hm. destruct (mask_from_nodeset ns) as [maxi mask]. cbn [snd] in Hm.
    match goal with |- context [with_pm_probe KW (fun m => kc KW kernel (K_mbind len m (Some mask) (maxi + 1) ?mfl)) lp ?pm w] =>
      assert (Hk : forall m, klegal T (K_mbind len m (Some mask) (maxi + 1) mfl) = true)
        by (intros m; unfold klegal; cbn [kcall_cpumask kcall_nodemask mask_ok andb]; exact Hm);
      pose proof (keeps_pm_probe (fun m => kc KW kernel (K_mbind len m (Some mask) (maxi + 1) mfl)) lp pm (fun m => keeps_kc _ (Hk m)) w Hw) as H;
      destruct (with_pm_probe KW (fun m => kc KW kernel (K_mbind len m (Some mask) (maxi + 1) mfl)) lp pm w) as [[r pm'] w1] end. exact H.
  Qed.

  Lemma keeps_alloc len : keeps (linux_alloc KW kernel len).
  Proof.
    intros w Hw. unfold linux_alloc. pose proof (kc_inv (K_mmap len) w eq_refl Hw) as H.
    destruct (kc KW kernel (K_mmap len) w) as [r w1]. cbn [snd] in H. destruct (k_rc r <? 0)%Z; exact H.
  Qed.
  Lemma keeps_alloc_membind len ns p f :
    bs_is_empty ns = false -> bs_subset ns (t_cnodeset T) = true -> keeps (linux_alloc_membind KW kernel T len ns p f).
  Proof.
    intros He Hs w Hw. unfold linux_alloc_membind. pose proof (keeps_alloc len w Hw) as H1.
    destruct (linux_alloc KW kernel len w) as [a w1]. cbn [snd] in H1. destruct (hr_rc a =? 0)%Z; [exact H1|].
    pose proof (keeps_set_area_membind len ns p f He Hs w1 H1) as H2.
    destruct (linux_set_area_membind KW kernel T len ns p f w1) as [r w2]. cbn [snd] in H2.
    destruct ((hr_rc r <? 0)%Z && flag HWLOC_MEMBIND_STRICT f); exact H2.
  Qed.
  Lemma keeps_get_thisthread_membind : keeps (linux_get_thisthread_membind KW kernel T max_numnodes).
  Proof.
    intros w Hw. unfold linux_get_thisthread_membind. pose proof (kc_inv (K_get_mempolicy false max_numnodes 0) w eq_refl Hw) as H.
    destruct (kc KW kernel (K_get_mempolicy false max_numnodes 0) w) as [r w1]. cbn [snd] in H.
    destruct (k_rc r <? 0)%Z; [exact H|]. destruct (hwloc_policy _); exact H.
  Qed.
  Lemma keeps_area_pages n : forall a, keeps (area_pages KW kernel max_numnodes n a).
  Proof.
    induction n as [|n IH]; intros a w Hw; cbn [area_pages]; [exact Hw|].
    pose proof (kc_inv (K_get_mempolicy true max_numnodes MPOL_F_ADDR) w eq_refl Hw) as H.
    destruct (kc KW kernel (K_get_mempolicy true max_numnodes MPOL_F_ADDR) w) as [r w1]. cbn [snd] in H.
    destruct (k_rc r <? 0)%Z; [exact H|]. now apply IH.
  Qed.
  Lemma keeps_get_area_membind len : keeps (linux_get_area_membind KW kernel T max_numnodes len).
  Proof.
    intros w Hw. unfold linux_get_area_membind.
    pose proof (keeps_area_pages (pages_of len) (AA 0 0 false false true area_gmask0) w Hw) as H.
    destruct (area_pages KW kernel max_numnodes (pages_of len) _ w) as [[e a] w1]. cbn [snd] in H.
    destruct e; [exact H|]. destruct (aa_mixed a); [exact H|]. destruct (hwloc_policy (aa_lp a)); exact H.
  Qed.
  Lemma keeps_get_area_memlocation len : keeps (linux_get_area_memlocation KW kernel len).
  Proof.
    intros w Hw. unfold linux_get_area_memlocation. pose proof (kc_inv (K_move_pages (N.of_nat (pages_of len))) w eq_refl Hw) as H.
    destruct (kc KW kernel (K_move_pages (N.of_nat (pages_of len))) w) as [r w1]. cbn [snd] in H. destruct (k_rc r <? 0)%Z; exact H.
  Qed.


  (* ---- what hwloc_linux_get_area_membind reports ---- *)
  (* the answers the kernel gives to n successive per-page get_mempolicy calls (stops at the first failure) *)
  Fixpoint page_answers (n : nat) (k : KW) : list kres :=
    match n with
    | O => []
    | S n' => let (r, k') := kernel (K_get_mempolicy true max_numnodes MPOL_F_ADDR) k in
              if (k_rc r <? 0)%Z then [r] else r :: page_answers n' k'
    end.
  Definition answer_local (r : kres) : bool := lp_is_local (page_lp max_numnodes r).
  Definition answer_mask (r : kres) : bset := below_max max_numnodes (k_set r).

  Lemma area_pages_spec n : forall a w e a' w',
    area_pages KW kernel max_numnodes n a w = ((e, a'), w') -> e = None ->
    aa_full a' = aa_full a || existsb answer_local (page_answers n (l_k w)) /\
    (aa_full a' = false -> aa_gmask a' = fold_left bs_union (map answer_mask (page_answers n (l_k w))) (aa_gmask a)).
  Proof.
    induction n as [|n IH]; intros a w e a' w' H He; cbn [area_pages page_answers] in *.
    - injection H as <- <- <-. cbn [existsb map fold_left]. rewrite orb_false_r. auto.
    - unfold kc in H. destruct (kernel (K_get_mempolicy true max_numnodes MPOL_F_ADDR) (l_k w)) as [r k'] eqn:Ek.
      destruct (k_rc r <? 0)%Z eqn:Er.
      + injection H as <- <- <-. discriminate He.
      + apply IH in H; [|exact He]. cbn [aa_full aa_gmask l_k] in H. destruct H as [H1 H2].
        cbn [existsb map fold_left]. unfold answer_local at 1. split.
        * rewrite H1. now rewrite orb_assoc.
        * intros Hf. rewrite H2 by exact Hf. rewrite Hf in H1. symmetry in H1.
          apply orb_false_iff in H1 as [H1 _]. rewrite H1. reflexivity.
  Qed.

  (* the reported nodeset: the topology nodeset as soon as one page is DEFAULT/LOCAL, otherwise exactly the
     union of the masks the kernel returned for the pages - no stale bits *)
  Lemma get_area_membind_reports len w :
    hr_rc (fst (linux_get_area_membind KW kernel T max_numnodes len w)) = 0%Z ->
    hr_set (fst (linux_get_area_membind KW kernel T max_numnodes len w)) =
      (if existsb answer_local (page_answers (pages_of len) (l_k w)) then t_nodeset T
       else fold_left bs_union (map answer_mask (page_answers (pages_of len) (l_k w))) bs_empty).
  Proof.
    unfold linux_get_area_membind.
    destruct (area_pages KW kernel max_numnodes (pages_of len) (AA 0 0 false false true area_gmask0) w) as [[e a'] w'] eqn:E.
    destruct e as [e|]; [cbn; discriminate|].
    apply area_pages_spec in E; [|reflexivity]. cbn [aa_full aa_gmask orb] in E. destruct E as [E1 E2].
    intros Hrc. rewrite <- E1.
    assert (G : (if aa_full a' then t_nodeset T else aa_gmask a') =
                (if aa_full a' then t_nodeset T else fold_left bs_union (map answer_mask (page_answers (pages_of len) (l_k w))) bs_empty)).
    { destruct (aa_full a'); [reflexivity|]. now apply E2. }
    destruct (aa_mixed a'); [exact G|]. destruct (hwloc_policy (aa_lp a')); [exact G|]. cbn in Hrc. discriminate.
  Qed.

  (* ---- every Linux hook keeps the kernel-mask invariant when called with a legal set ---- *)
  Definition needs_set (h : hid) : bool :=
    match h with
    | H_set_thisproc_cpubind | H_set_thisthread_cpubind | H_set_proc_cpubind | H_set_thread_cpubind
    | H_set_thisproc_membind | H_set_thisthread_membind | H_set_proc_membind | H_set_area_membind | H_alloc_membind => true
    | _ => false
    end.
  Definition good_call (c : hcall) : bool :=
    legal_call T c && (if needs_set (hc_id c) then match hc_set c with Some _ => true | None => false end else true).

  Ltac los := unfold linux_os, enosys_if_pid, the_set, pid_of; cbn [hc_id hc_set hc_flags hc_who hc_policy hc_len].
  Ltac cpufacts H := unfold good_call, legal_call in H; cbn [hc_id hc_set hid_kind complete_of needs_set] in H;
    apply andb_true_iff in H; destruct H as [H _]; apply andb_true_iff in H; destruct H as [He Hs]; apply negb_true_iff in He.

  Lemma los_set_thisproc_cpubind who x p f len : good_call (HC H_set_thisproc_cpubind who (Some x) p f len) = true -> keeps (LOS (HC H_set_thisproc_cpubind who (Some x) p f len)).
  Proof. intros H. cpufacts H. los. now apply keeps_set_pid. Qed.
  Lemma los_set_thisthread_cpubind who x p f len : good_call (HC H_set_thisthread_cpubind who (Some x) p f len) = true -> keeps (LOS (HC H_set_thisthread_cpubind who (Some x) p f len)).
  Proof. intros H. cpufacts H. los. intros w Hw. destruct (negb (tpid =? 0)%Z); [exact Hw|]. now apply keeps_set_tid. Qed.
  Lemma los_set_proc_cpubind who x p f len : good_call (HC H_set_proc_cpubind who (Some x) p f len) = true -> keeps (LOS (HC H_set_proc_cpubind who (Some x) p f len)).
  Proof. intros H. cpufacts H. los. intros w Hw. destruct (flag HWLOC_CPUBIND_THREAD f); [now apply keeps_set_tid|now apply keeps_set_pid]. Qed.
  Lemma los_set_thread_cpubind who x p f len : good_call (HC H_set_thread_cpubind who (Some x) p f len) = true -> keeps (LOS (HC H_set_thread_cpubind who (Some x) p f len)).
  Proof. intros H. cpufacts H. los. intros w Hw. destruct (negb (tpid =? 0)%Z); [exact Hw|]. now apply keeps_set_tid. Qed.
  Lemma los_set_thisthread_membind who x p f len : good_call (HC H_set_thisthread_membind who (Some x) p f len) = true -> keeps (LOS (HC H_set_thisthread_membind who (Some x) p f len)).
  Proof. intros H. cpufacts H. los. now apply keeps_set_thisthread_membind. Qed.
  Lemma los_set_area_membind who x p f len : good_call (HC H_set_area_membind who (Some x) p f len) = true -> keeps (LOS (HC H_set_area_membind who (Some x) p f len)).
  Proof. intros H. cpufacts H. los. now apply keeps_set_area_membind. Qed.
  Lemma los_alloc_membind who x p f len : good_call (HC H_alloc_membind who (Some x) p f len) = true -> keeps (LOS (HC H_alloc_membind who (Some x) p f len)).
  Proof. intros H. cpufacts H. los. now apply keeps_alloc_membind. Qed.

  Lemma los_get_thisproc_cpubind who s p f len : keeps (LOS (HC H_get_thisproc_cpubind who s p f len)).
  Proof. los. apply keeps_get_pid. Qed.
  Lemma los_get_thisthread_cpubind who s p f len : keeps (LOS (HC H_get_thisthread_cpubind who s p f len)).
  Proof. los. intros w Hw. destruct (negb (tpid =? 0)%Z); [exact Hw|]. now apply keeps_get_tid. Qed.
  Lemma los_get_proc_cpubind who s p f len : keeps (LOS (HC H_get_proc_cpubind who s p f len)).
  Proof. los. intros w Hw. destruct (flag HWLOC_CPUBIND_THREAD f); [now apply keeps_get_tid|now apply keeps_get_pid]. Qed.
  Lemma los_get_thread_cpubind who s p f len : keeps (LOS (HC H_get_thread_cpubind who s p f len)).
  Proof. los. intros w Hw. destruct (negb (tpid =? 0)%Z); [exact Hw|]. destruct (who =? 1)%Z; [now apply keeps_get_tid|now apply keeps_get_other]. Qed.
  Lemma los_get_thisproc_last who s p f len : keeps (LOS (HC H_get_thisproc_last who s p f len)).
  Proof. los. apply keeps_get_pid_last. Qed.
  Lemma los_get_thisthread_last who s p f len : keeps (LOS (HC H_get_thisthread_last who s p f len)).
  Proof.
    los. intros w Hw. destruct (negb (tpid =? 0)%Z); [exact Hw|].
    pose proof (kc_inv K_getcpu w eq_refl Hw) as H. destruct (kc KW kernel K_getcpu w) as [r w1]. cbn [snd] in H.
    destruct (0 <=? k_rc r)%Z; [exact H|now apply keeps_get_last].
  Qed.
  Lemma los_get_proc_last who s p f len : keeps (LOS (HC H_get_proc_last who s p f len)).
  Proof. los. intros w Hw. destruct (flag HWLOC_CPUBIND_THREAD f); [now apply keeps_get_last|now apply keeps_get_pid_last]. Qed.
  Lemma los_get_thisthread_membind who s p f len : keeps (LOS (HC H_get_thisthread_membind who s p f len)).
  Proof. los. apply keeps_get_thisthread_membind. Qed.
  Lemma los_get_area_membind who s p f len : keeps (LOS (HC H_get_area_membind who s p f len)).
  Proof. los. apply keeps_get_area_membind. Qed.
  Lemma los_get_area_memlocation who s p f len : keeps (LOS (HC H_get_area_memlocation who s p f len)).
  Proof. los. apply keeps_get_area_memlocation. Qed.
  Lemma los_alloc who s p f len : keeps (LOS (HC H_alloc who s p f len)).
  Proof. los. apply keeps_alloc. Qed.
  Lemma los_never_installed h who s p f len :
    In h [H_set_thisproc_membind; H_get_thisproc_membind; H_set_proc_membind; H_get_proc_membind] -> keeps (LOS (HC h who s p f len)).
  Proof. intros [<-|[<-|[<-|[<-|[]]]]]; los; intros w Hw; exact Hw. Qed.

  Lemma linux_os_keeps c : good_call c = true -> keeps (LOS c).
  Proof.
    intros H. destruct c as [h who s p f len].
    assert (Hs : needs_set h = true -> exists x, s = Some x).
    { intros Hn. unfold good_call in H. cbn [hc_id hc_set] in H. rewrite Hn in H. apply andb_true_iff in H as [_ H].
      destruct s as [x|]; [now exists x|discriminate]. }
    destruct h;
    try (destruct (Hs eq_refl) as [x ->]);
    first [ now apply los_set_thisproc_cpubind | now apply los_set_thisthread_cpubind | now apply los_set_proc_cpubind
          | now apply los_set_thread_cpubind | now apply los_set_thisthread_membind | now apply los_set_area_membind
          | now apply los_alloc_membind
          | apply los_get_thisproc_cpubind | apply los_get_thisthread_cpubind | apply los_get_proc_cpubind | apply los_get_thread_cpubind
          | apply los_get_thisproc_last | apply los_get_thisthread_last | apply los_get_proc_last | apply los_get_thisthread_membind
          | apply los_get_area_membind | apply los_get_area_memlocation | apply los_alloc
          | apply los_never_installed; cbn [In]; auto 6 ].
  Qed.
End L.

Lemma calls_good T a c : In c (calls_of T a) -> good_call T c = true.
Proof.
  intros H. unfold good_call. rewrite (calls_legal T a c H). cbn [andb].
  destruct a; cbn [calls_of] in H; brk H; subst c; reflexivity.
Qed.

(* the composition: bind.c dispatch over the Linux hooks - only legal masks reach the kernel *)
Lemma linux_run_kernel_masks_legal KW kernel T tpid nr_cpus max_numnodes heap a (w : lw KW) :
  inf (t_cnodeset T) = false -> kinv KW T w ->
  kinv KW T (s_w (snd (linux_run KW kernel T tpid nr_cpus max_numnodes heap a w))).
Proof.
  intros Hf Hw. unfold linux_run.
  apply (run_inv (lw KW) (linux_os KW kernel T tpid nr_cpus max_numnodes) heap linux_present T
           (fun c => good_call T c = true) (kinv KW T) a w).
  - intros c w0 Hc _ Hw0. now apply linux_os_keeps.
  - intros c Hc. now apply (calls_good T a).
  - exact Hw.
Qed.
