(* C10 - lemmas about Topo/Bind.v *)
From Coq Require Import NArith ZArith Bool List Lia.
From HV Require Import Base.BSet Gen.Tables Topo.Bind.
Import ListNotations.
Local Open Scope N_scope.

Lemma policy_ok_table :
  forallb (fun e => forallb (fun pb => Bool.eqb (policy_ok (fst pb)) (snd pb)) (snd e)) bind_accepted_policies = true.
Proof. vm_compute. reflexivity. Qed.
