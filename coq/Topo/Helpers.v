(* C09 - models of the traversal / locality helpers of include/hwloc/helper.h,
   include/hwloc/inlines.h and hwloc/traversal.c, following the C loops.

   Three views of the same topology are used, each where the C code uses it:
   - the normal-children tree [obj] for the top-down searches
     (covering, first-largest, largest objects inside a set);
   - a level as a list of [dobj] in logical order for the cousin iterators
     (next_cousin = successor in the list, levels[depth][0] = head);
   - the flat dump with [deref] on parent pointers for the climbing loops
     (common ancestor, closest objects, same locality of I/O objects),
     fuelled, with an explicit crash value where C dereferences NULL.
   The brute-force definitions (right-hand sides of the theorems, evaluated on
   the C answers by ocaml/drv_c09.ml) are at the end of the file. *)
From Coq Require Import List NArith ZArith Bool Lia.
From HV Require Import Base.BSet Gen.Tables Text.TypeOrder Topo.Dump Topo.Obj.
Import ListNotations.
Local Open Scope N_scope.

Definition dcs (o : dobj) : bset := match o_cs o with Some s => s | None => bs_empty end.
Definition dnds (o : dobj) : bset := match o_nds o with Some s => s | None => bs_empty end.
Definition cs (o : obj) : bset := dcs (odata o).

(* ------------------------------------------------------------------ *)
(* hwloc_get_child_covering_cpuset / hwloc_get_obj_covering_cpuset     *)

(* child->cpuset && hwloc_bitmap_isincluded(set, child->cpuset) *)
Definition child_covers (set : bset) (c : obj) : bool :=
  match o_cs (odata c) with Some s => bs_subset set s | None => false end.

Definition get_child_covering_cpuset (set : bset) (parent : obj) : option obj :=
  if bs_is_empty set then None else find (child_covers set) (onch parent).

(* the while(1) loop: descend while some child covers the (non-empty) set *)
Fixpoint cover_descend (set : bset) (o : obj) : obj :=
  match o with
  | Obj _ n _ _ _ =>
      (fix go (l : list obj) : obj :=
         match l with
         | [] => o
         | c :: tl => if child_covers set c then cover_descend set c else go tl
         end) n
  end.

Definition get_obj_covering_cpuset (root : obj) (set : bset) : option obj :=
  if bs_is_empty set || negb (bs_subset set (cs root)) then None
  else Some (cover_descend set root).

(* ------------------------------------------------------------------ *)
(* hwloc_get_first_largest_obj_inside_cpuset                           *)

Fixpoint first_largest_descend (set : bset) (o : obj) : obj :=
  match o with
  | Obj _ n _ _ _ =>
      if bs_subset (cs o) set then o
      else (fix go (l : list obj) : obj :=
              match l with
              | [] => o     (* no child intersects: return their father *)
              | c :: tl => if bs_intersects (cs c) set then first_largest_descend set c else go tl
              end) n
  end.

Definition get_first_largest_obj_inside_cpuset (root : obj) (set : bset) : option obj :=
  if negb (bs_intersects (cs root) set) then None else Some (first_largest_descend set root).

(* ------------------------------------------------------------------ *)
(* hwloc__get_largest_objs_inside_cpuset (traversal.c): [max] is the room left
   in the caller's array; returns the objects stored, in order, and the room
   left afterwards.  "gotten" is the length of the list. *)

Fixpoint largest_rec (o : obj) (set : bset) (max : nat) {struct o} : list obj * nat :=
  match max with
  | O => ([], O)                                (* if ( *max <= 0) return 0; *)
  | S m =>
      match o with
      | Obj _ n _ _ _ =>
          if bs_eqb (cs o) set then ([o], m)
          else (fix go (l : list obj) (max : nat) {struct l} : list obj * nat :=
                  match l with
                  | [] => ([], max)
                  | c :: tl =>
                      if bs_intersects set (cs c) then
                        let (r, max') := largest_rec c (bs_inter set (cs c)) max in
                        match max' with
                        | O => (r, O)           (* if (! *max) break; *)
                        | S _ => let (r2, max'') := go tl max' in (r ++ r2, max'')
                        end
                      else go tl max
                  end) n max
      end
  end.

(* hwloc_get_largest_objs_inside_cpuset: (return value, objs[0..]) *)
Definition get_largest_objs_inside_cpuset (root : obj) (set : bset) (max : Z) : Z * list obj :=
  if negb (bs_subset set (cs root)) then ((-1)%Z, [])
  else if (max <=? 0)%Z then (0%Z, [])
  else let r := fst (largest_rec root set (Z.to_nat max)) in (Z.of_nat (List.length r), r).

(* the same search with unbounded room *)
Fixpoint largest_all (o : obj) (set : bset) : list obj :=
  match o with
  | Obj _ n _ _ _ =>
      if bs_eqb (cs o) set then [o]
      else (fix go (l : list obj) : list obj :=
              match l with
              | [] => []
              | c :: tl => (if bs_intersects set (cs c) then largest_all c (bs_inter set (cs c)) else []) ++ go tl
              end) n
  end.

(* ------------------------------------------------------------------ *)
(* level iterators: hwloc_get_next_obj_by_depth + the skipping loops     *)

(* the cousin chain starting at hwloc_get_next_obj_by_depth(depth, prev) *)
Definition next_by_depth (lv : list dobj) (depth : Z) (prev : option dobj) : list dobj :=
  match prev with
  | None => lv
  | Some p => if (o_depth p =? depth)%Z then skipn (S (N.to_nat (o_lidx p))) lv else []
  end.

Definition inside_pred (set : bset) (o : dobj) : bool :=
  negb (bs_is_empty (dcs o)) && bs_subset (dcs o) set.
Definition covering_pred (set : bset) (o : dobj) : bool := bs_intersects set (dcs o).

Definition get_next_obj_inside_cpuset_by_depth (lv : list dobj) (depth : Z) (set : bset) (prev : option dobj) : option dobj :=
  find (inside_pred set) (next_by_depth lv depth prev).
Definition get_next_obj_covering_cpuset_by_depth (lv : list dobj) (depth : Z) (set : bset) (prev : option dobj) : option dobj :=
  find (covering_pred set) (next_by_depth lv depth prev).

(* the caller's loop: prev = NULL; while ((prev = next(prev)) != NULL) ... *)
Fixpoint iterate (next : option dobj -> option dobj) (fuel : nat) (prev : option dobj) : list dobj :=
  match fuel with
  | O => []
  | S f => match next prev with
           | None => []
           | Some o => o :: iterate next f (Some o)
           end
  end.

Definition iter_inside (lv : list dobj) (depth : Z) (set : bset) : list dobj :=
  iterate (get_next_obj_inside_cpuset_by_depth lv depth set) (S (List.length lv)) None.
Definition iter_covering (lv : list dobj) (depth : Z) (set : bset) : list dobj :=
  iterate (get_next_obj_covering_cpuset_by_depth lv depth set) (S (List.length lv)) None.

(* hwloc_get_nbobjs_inside_cpuset_by_depth / hwloc_get_obj_inside_cpuset_by_depth / hwloc_get_obj_index_inside_cpuset *)
Definition get_nbobjs_inside_cpuset_by_depth (lv : list dobj) (set : bset) : N :=
  N.of_nat (List.length (filter (inside_pred set) lv)).
Definition get_obj_inside_cpuset_by_depth (lv : list dobj) (set : bset) (idx : N) : option dobj :=
  nth_error (filter (inside_pred set) lv) (N.to_nat idx).
Definition get_obj_index_inside_cpuset (lv : list dobj) (set : bset) (o : dobj) : Z :=
  if negb (bs_subset (dcs o) set) then (-1)%Z
  else Z.of_nat (List.length (filter (inside_pred set) (firstn (N.to_nat (o_lidx o)) lv))).

(* ------------------------------------------------------------------ *)
(* hwloc_cpuset_to_nodeset / hwloc_cpuset_from_nodeset ([nl] = the NUMA level) *)

Definition cpuset_to_nodeset (nl : list dobj) (cpuset : bset) : bset :=
  fold_left (fun acc o => bs_add (o_os o) acc) (iter_covering nl HWLOC_TYPE_DEPTH_NUMANODE cpuset) bs_empty.

Definition cpuset_from_nodeset (nl : list dobj) (nodeset : bset) : bset :=
  fold_left (fun acc o => if mem (o_os o) nodeset then bs_union acc (dcs o) else acc) nl bs_empty.

(* ------------------------------------------------------------------ *)
(* hwloc_get_type_depth / hwloc_get_depth_type                         *)

Definition get_type_depth (d : dump) (ty : Z) : Z :=
  if ((0 <=? ty) && (ty <? Z.of_N HWLOC_OBJ_TYPE_MAX))%Z     (* (unsigned) type >= HWLOC_OBJ_TYPE_MAX *)
  then nth (Z.to_nat ty) (t_tdepths d) HWLOC_TYPE_DEPTH_UNKNOWN
  else HWLOC_TYPE_DEPTH_UNKNOWN.

Definition find_level (d : dump) (depth : Z) : option level :=
  find (fun l => (l_depth l =? depth)%Z) (t_levels d).

Definition level_objs (d : dump) (depth : Z) : list dobj :=
  match find_level d depth with
  | Some l => flat_map (fun p => match deref d p with Some o => [o] | None => [] end) (l_ids l)
  | None => []
  end.

Definition HWLOC_OBJ_TYPE_NONE : Z := (-1)%Z.

Definition get_depth_type (d : dump) (depth : Z) : Z :=
  if ((0 <=? depth) && (depth <? t_depth d))%Z              (* !((unsigned) depth >= nb_levels) *)
  then match level_objs d depth with
       | o :: _ => Z.of_N (o_type o)                        (* levels[depth][0]->type *)
       | [] => HWLOC_OBJ_TYPE_NONE
       end
  else if (depth =? HWLOC_TYPE_DEPTH_NUMANODE)%Z then Z.of_N HWLOC_OBJ_NUMANODE
  else if (depth =? HWLOC_TYPE_DEPTH_BRIDGE)%Z then Z.of_N HWLOC_OBJ_BRIDGE
  else if (depth =? HWLOC_TYPE_DEPTH_PCI_DEVICE)%Z then Z.of_N HWLOC_OBJ_PCI_DEVICE
  else if (depth =? HWLOC_TYPE_DEPTH_OS_DEVICE)%Z then Z.of_N HWLOC_OBJ_OS_DEVICE
  else if (depth =? HWLOC_TYPE_DEPTH_MISC)%Z then Z.of_N HWLOC_OBJ_MISC
  else if (depth =? HWLOC_TYPE_DEPTH_MEMCACHE)%Z then Z.of_N HWLOC_OBJ_MEMCACHE
  else HWLOC_OBJ_TYPE_NONE.

(* hwloc_get_type_or_below_depth / hwloc_get_type_or_above_depth (inlines.h);
   compare_types on a (type)-1 answer of get_depth_type is outside the model: None *)
Fixpoint below_scan (d : dump) (ty : N) (fuel : nat) (depth : Z) : option Z :=
  match fuel with
  | O => None
  | S f => let t := get_depth_type d depth in
           if (t <? 0)%Z then None
           else if (compare_types (Z.to_N t) ty <? 0)%Z then Some (depth + 1)%Z
           else below_scan d ty f (depth - 1)%Z
  end.
Definition get_type_or_below_depth (d : dump) (ty : N) : option Z :=
  let dep := get_type_depth d (Z.of_N ty) in
  if negb (dep =? HWLOC_TYPE_DEPTH_UNKNOWN)%Z then Some dep
  else below_scan d ty (S (Z.to_nat (t_depth d))) (get_type_depth d (Z.of_N HWLOC_OBJ_PU)).

Fixpoint above_scan (d : dump) (ty : N) (fuel : nat) (depth : Z) : option Z :=
  match fuel with
  | O => None
  | S f => let t := get_depth_type d depth in
           if (t <? 0)%Z then None
           else if (compare_types (Z.to_N t) ty >? 0)%Z then Some (depth - 1)%Z
           else above_scan d ty f (depth + 1)%Z
  end.
Definition get_type_or_above_depth (d : dump) (ty : N) : option Z :=
  let dep := get_type_depth d (Z.of_N ty) in
  if negb (dep =? HWLOC_TYPE_DEPTH_UNKNOWN)%Z then Some dep
  else above_scan d ty (S (Z.to_nat (t_depth d))) 0%Z.

(* ------------------------------------------------------------------ *)
(* hwloc_get_common_ancestor_obj.  Normal objects: the alternating climb on
   depths (the two inner while loops and the equal-depth step are one
   transition each; the sequence of (obj1, obj2) states is the C one).  As soon
   as one object has a negative (virtual) depth, the numbers of ancestors are
   compared instead (fix df24cb8).  In the flattened loop the depth test is
   made at every transition; C makes it once per outer iteration, which is the
   same sequence whenever the parent of an object of depth >= 0 has depth >= 0. *)

Inductive ca_res := CA_obj (i : N) | CA_null | CA_crash | CA_fuel.

(* for(tmp = obj; tmp->parent; tmp = tmp->parent) h++; *)
Fixpoint height (d : dump) (fuel : nat) (o : dobj) : nat :=
  match fuel with
  | O => O
  | S f => match deref d (o_parent o) with Some p => S (height d f p) | None => O end
  end.

(* k times obj = obj->parent *)
Fixpoint climb (d : dump) (k : nat) (o : dobj) : option dobj :=
  match k with
  | O => Some o
  | S k' => match deref d (o_parent o) with Some p => climb d k' p | None => None end
  end.

(* while (obj1 != obj2) { obj1 = obj1->parent; obj2 = obj2->parent; } *)
Fixpoint climb_both (d : dump) (fuel : nat) (a b : dobj) : ca_res :=
  match fuel with
  | O => CA_fuel
  | S f =>
      if o_id a =? o_id b then CA_obj (o_id a)
      else match deref d (o_parent a), deref d (o_parent b) with
           | Some pa, Some pb => climb_both d f pa pb
           | None, None => CA_null
           | _, _ => CA_crash
           end
  end.

Definition ca_by_height (d : dump) (a b : dobj) : ca_res :=
  let fuel := S (List.length (t_objs d)) in
  let h1 := height d fuel a in
  let h2 := height d fuel b in
  match climb d (h1 - h2) a, climb d (h2 - h1) b with
  | Some a', Some b' => climb_both d fuel a' b'
  | _, _ => CA_crash
  end.

Fixpoint common_ancestor (d : dump) (fuel : nat) (a b : dobj) : ca_res :=
  match fuel with
  | O => CA_fuel
  | S f =>
      if o_id a =? o_id b then CA_obj (o_id a)
      else if (o_depth a <? 0)%Z || (o_depth b <? 0)%Z then ca_by_height d a b
      else if (o_depth b <? o_depth a)%Z then
        match deref d (o_parent a) with Some pa => common_ancestor d f pa b | None => CA_crash end
      else if (o_depth a <? o_depth b)%Z then
        match deref d (o_parent b) with Some pb => common_ancestor d f a pb | None => CA_crash end
      else
        match deref d (o_parent a), deref d (o_parent b) with
        | Some pa, Some pb => common_ancestor d f pa pb
        | None, None => CA_null             (* NULL != NULL is false: returns NULL *)
        | _, _ => CA_crash                  (* NULL->depth *)
        end
  end.

Definition ca_fuel (a b : dobj) : nat := S (Z.to_nat (Z.abs (o_depth a)) + Z.to_nat (Z.abs (o_depth b))).

Definition get_common_ancestor_obj (d : dump) (a b : dobj) : ca_res :=
  common_ancestor d (ca_fuel a b + List.length (t_objs d)) a b.

(* hwloc_obj_is_in_subtree *)
Definition obj_is_in_subtree (o root : dobj) : bool :=
  match o_cs o, o_cs root with Some a, Some b => bs_subset a b | _, _ => false end.

(* ------------------------------------------------------------------ *)
(* hwloc_get_closest_objs: [lv] = levels[src->depth], or the special level of
   a memory source (fix df9b650) *)

Fixpoint closest_rec (d : dump) (fuel : nat) (lv : list dobj) (parent : dobj) (max : nat) : list dobj :=
  match fuel with
  | O => []
  | S f =>
      match max with
      | O => []                                          (* while (stored < max) *)
      | S _ =>
          match deref d (o_parent parent) with
          | None => []                                   (* goto out *)
          | Some np =>
              if bs_eqb (dcs parent) (dcs np) then closest_rec d f lv np max
              else
                let found := filter (fun o => bs_subset (dcs o) (dcs np) && negb (bs_subset (dcs o) (dcs parent))) lv in
                let taken := firstn max found in
                taken ++ closest_rec d f lv np (max - List.length taken)
          end
      end
  end.

Definition get_closest_objs (d : dump) (src : dobj) (max : N) : list dobj :=
  match o_cs src with
  | None => []
  | Some _ => closest_rec d (S (List.length (t_objs d))) (level_objs d (o_depth src)) src (N.to_nat max)
  end.

(* ------------------------------------------------------------------ *)
(* hwloc_get_obj_with_same_locality(src, type, NULL, NULL, 0)          *)

Definition E_OK : N := 0.  Definition E_INVAL : N := 1.  Definition E_NOENT : N := 2.

Definition opt_bs_eqb (a b : option bset) : bool :=
  match a, b with Some x, Some y => bs_eqb x y | _, _ => false end.

Definition io_children (d : dump) (o : dobj) : list dobj :=
  flat_map (fun p => match deref d p with Some c => [c] | None => [] end) (o_ich o).

Fixpoint climb_osdev (d : dump) (fuel : nat) (o : dobj) : option dobj :=
  match fuel with
  | O => None
  | S f => if o_type o =? HWLOC_OBJ_OS_DEVICE
           then match deref d (o_parent o) with Some p => climb_osdev d f p | None => None end
           else Some o
  end.

(* [mt o]: obj->subtype matches subtype and obj->name starts with nameprefix (case-insensitive;
   always true when both arguments are NULL).  The string comparisons are made by the caller. *)
Definition get_obj_with_same_locality (d : dump) (src : dobj) (ty : N) (mt : dobj -> bool) (flags : N) : option dobj * N :=
  if negb (flags =? 0) then (None, E_INVAL)
  else if is_normal (o_type src) || is_memory (o_type src) then
    if negb (is_normal ty) && negb (is_memory ty) then (None, E_INVAL)
    else
      let dep := get_type_depth d (Z.of_N ty) in
      (* hwloc_get_next_obj_by_type: NULL for an unknown or multiple depth *)
      if (dep =? HWLOC_TYPE_DEPTH_UNKNOWN)%Z || (dep =? HWLOC_TYPE_DEPTH_MULTIPLE)%Z then (None, E_NOENT)
      else match find (fun o => opt_bs_eqb (o_cs src) (o_cs o) && opt_bs_eqb (o_nds src) (o_nds o) && mt o) (level_objs d dep) with
           | Some o => (Some o, E_OK)
           | None => (None, E_NOENT)
           end
  else if is_io (o_type src) then
    if negb ((o_type src =? HWLOC_OBJ_OS_DEVICE) || (o_type src =? HWLOC_OBJ_PCI_DEVICE))
       || negb ((ty =? HWLOC_OBJ_OS_DEVICE) || (ty =? HWLOC_OBJ_PCI_DEVICE)) then (None, E_INVAL)
    else match climb_osdev d (S (List.length (t_objs d))) src with
         | None => (None, E_NOENT)
         | Some pci =>
             if ty =? HWLOC_OBJ_PCI_DEVICE then
               if (o_type pci =? HWLOC_OBJ_PCI_DEVICE) && mt pci then (Some pci, E_OK) else (None, E_NOENT)
             else
               match find (fun c => (o_type c =? HWLOC_OBJ_OS_DEVICE) && mt c) (io_children d pci) with
               | Some c => (Some c, E_OK)
               | None => (None, E_NOENT)
               end
         end
  else (None, E_INVAL).

(* ------------------------------------------------------------------ *)
(* hwloc_get_type_depth_with_attr: [gd] = attrp->group.depth, None when attrp is NULL or attrsize
   is smaller than the union *)

Definition level_first (d : dump) (depth : Z) : option dobj :=
  match level_objs d depth with o :: _ => Some o | [] => None end.

Definition get_type_depth_with_attr (d : dump) (ty : Z) (gd : option Z) : Z :=
  let depth := get_type_depth d ty in
  match gd with
  | Some g =>
      if (ty =? Z.of_N HWLOC_OBJ_GROUP)%Z && (depth =? HWLOC_TYPE_DEPTH_MULTIPLE)%Z && negb (g =? Z.of_N UINT_MAX)%Z then
        match find (fun l => match level_first d (Z.of_nat l) with
                             | Some o => (o_type o =? HWLOC_OBJ_GROUP) && (o_group_depth o =? g)%Z
                             | None => false end) (seq 0 (Z.to_nat (t_depth d))) with
        | Some l => Z.of_nat l
        | None => HWLOC_TYPE_DEPTH_UNKNOWN
        end
      else depth
  | None => depth
  end.

(* ------------------------------------------------------------------ *)
(* hwloc_get_next_child: normal, then memory, then I/O, then Misc children *)

Definition first_ptr (l : list ptr) : ptr := match l with p :: _ => p | [] => PNull end.

Definition get_next_child (d : dump) (parent : dobj) (prev : option dobj) : ptr :=
  let state0 := match prev with
                | Some p => if o_type p =? HWLOC_OBJ_MISC then 3 else if is_io (o_type p) then 2
                            else if is_memory (o_type p) then 1 else 0
                | None => 0
                end in
  let obj0 := match prev with Some p => o_next_sib p | None => o_first parent end in
  let '(obj1, state1) := if ptr_eqb obj0 PNull && (state0 =? 0) then (first_ptr (o_mch parent), 1) else (obj0, state0) in
  let '(obj2, state2) := if ptr_eqb obj1 PNull && (state1 =? 1) then (first_ptr (o_ich parent), 2) else (obj1, state1) in
  if ptr_eqb obj2 PNull && (state2 =? 2) then first_ptr (o_xch parent) else obj2.

Fixpoint iter_children (d : dump) (fuel : nat) (parent : dobj) (prev : option dobj) : list dobj :=
  match fuel with
  | O => []
  | S f => match deref d (get_next_child d parent prev) with
           | Some c => c :: iter_children d f parent (Some c)
           | None => []
           end
  end.

(* ------------------------------------------------------------------ *)
(* hwloc_get_memory_parents_depth *)

Fixpoint climb_memory (d : dump) (fuel : nat) (o : dobj) : option dobj :=
  match fuel with
  | O => None
  | S f => if is_memory (o_type o) then match deref d (o_parent o) with Some p => climb_memory d f p | None => None end
           else Some o
  end.

Definition get_memory_parents_depth (d : dump) : option Z :=
  fold_left (fun acc numa =>
               match acc with
               | None => None
               | Some depth =>
                   if (depth =? HWLOC_TYPE_DEPTH_MULTIPLE)%Z then acc
                   else match deref d (o_parent numa) with
                        | None => None
                        | Some p0 =>
                            match climb_memory d (S (List.length (t_objs d))) p0 with
                            | None => None
                            | Some p => if (depth =? HWLOC_TYPE_DEPTH_UNKNOWN)%Z then Some (o_depth p)
                                        else if (depth =? o_depth p)%Z then acc else Some HWLOC_TYPE_DEPTH_MULTIPLE
                            end
                        end
               end) (level_objs d HWLOC_TYPE_DEPTH_NUMANODE) (Some HWLOC_TYPE_DEPTH_UNKNOWN).

(* ------------------------------------------------------------------ *)
(* hwloc_bitmap_singlify_per_core ([cores] = the Core level when the Core
   depth is known and single, [] otherwise)                            *)

Definition elements (s : bset) : list N :=
  match bs_last s with Some k => bs_elements_below (S (N.to_nat k)) s | None => [] end.

Definition singlify_core (which : N) (cpuset : bset) (core : dobj) : bset :=
  if covering_pred cpuset core then
    match nth_error (elements (bs_inter (dcs core) cpuset)) (N.to_nat which) with
    | Some pu => bs_add pu (bs_diff cpuset (dcs core))
    | None => bs_diff cpuset (dcs core)
    end
  else cpuset.

Definition bitmap_singlify_per_core (cores : list dobj) (cpuset : bset) (which : N) : bset :=
  fold_left (singlify_core which) cores cpuset.

Definition core_level (d : dump) : list dobj :=
  let dep := get_type_depth d (Z.of_N HWLOC_OBJ_CORE) in
  if (dep =? HWLOC_TYPE_DEPTH_UNKNOWN)%Z || (dep =? HWLOC_TYPE_DEPTH_MULTIPLE)%Z then [] else level_objs d dep.

(* ================================================================== *)
(* Brute-force definitions over all objects (spec side)                *)

Definition all_normal (root : obj) : list obj := nflatten root.

(* o' is o or a descendant of o through normal children *)
Definition in_subtree_of (o' o : obj) : bool := existsb (fun x => oid x =? oid o') (nflatten o).

(* covering: r is Some o iff set is non-empty and included in o, and every
   object including the set is an ancestor-or-self of o *)
Definition covering_spec (root : obj) (set : bset) (r : option N) : bool :=
  let incl := filter (fun o => bs_subset set (cs o)) (all_normal root) in
  match r with
  | None => bs_is_empty set || match incl with [] => true | _ => false end
  | Some i =>
      negb (bs_is_empty set) &&
      match find (fun o => oid o =? i) (all_normal root) with
      | None => false
      | Some o => bs_subset set (cs o) && forallb (fun a => in_subtree_of o a) incl
      end
  end.

Definition union_list (l : list bset) : bset := fold_right bs_union bs_empty l.

Fixpoint pairwise_disjoint (l : list bset) : bool :=
  match l with
  | [] => true
  | s :: tl => forallb (fun t => negb (bs_intersects s t)) tl && pairwise_disjoint tl
  end.

Definition lookup_objs (root : obj) (ids : list N) : option (list obj) :=
  fold_right (fun i acc => match find (fun o => oid o =? i) (all_normal root), acc with
                           | Some o, Some r => Some (o :: r) | _, _ => None end) (Some []) ids.

(* strict ancestors of the object with id i (brute force: every object whose subtree holds it) *)
Definition strict_ancestors (root : obj) (i : N) : list obj :=
  filter (fun a => negb (oid a =? i) && existsb (fun x => oid x =? i) (nflatten a)) (all_normal root).

(* largest: rc = -1 iff set not included in the root; otherwise (when the
   array was not filled up) the objects are pairwise disjoint, union to the
   set, each is included in the set while none of its strict ancestors is *)
Definition largest_spec (root : obj) (set : bset) (max : Z) (rc : Z) (ids : list N) : bool :=
  if negb (bs_subset set (cs root)) then (rc =? -1)%Z
  else if (max <=? 0)%Z then (rc =? 0)%Z
  else
    (rc =? Z.of_nat (List.length ids))%Z && (rc <=? max)%Z &&
    match lookup_objs root ids with
    | None => false
    | Some os =>
        pairwise_disjoint (map cs os) &&
        forallb (fun o => bs_subset (cs o) set && negb (bs_is_empty (cs o) && negb (bs_is_empty set)) &&
                          forallb (fun a => negb (bs_subset (cs a) set)) (strict_ancestors root (oid o))) os &&
        (if (rc <? max)%Z then bs_eqb (union_list (map cs os)) set
         else bs_subset (union_list (map cs os)) set)
    end.

Definition ids_eqb (a b : list N) : bool := list_N_eqb a b.

Definition inside_spec (lv : list dobj) (set : bset) (ids : list N) : bool :=
  ids_eqb ids (map o_id (filter (inside_pred set) lv)).
Definition covering_iter_spec (lv : list dobj) (set : bset) (ids : list N) : bool :=
  ids_eqb ids (map o_id (filter (covering_pred set) lv)).

(* the inside family against the brute-force list B = [objects of the level with a non-empty cpuset
   included in the set, in logical order]: nbobjs = |B|; get_obj_inside(k) = B[k] for k < |B| and
   NULL for k = |B|; index_inside(B[k]) = k; and for EVERY object o of the level (CPU-less ones
   included) index_inside(o) = -1 when o's cpuset is not included in the set, else the number of
   members of B before o in the level *)
Fixpoint index_in_level (lv : list dobj) (id : N) (pos : nat) : option nat :=
  match lv with
  | [] => None
  | o :: tl => if o_id o =? id then Some pos else index_in_level tl id (S pos)
  end.

Definition nb_inside_spec (lv : list dobj) (set : bset) (nb : N) (items : list (option N * Z)) (alls : list (N * Z)) : bool :=
  let B := filter (inside_pred set) lv in
  (nb =? N.of_nat (List.length B)) &&
  Nat.eqb (List.length items) (S (List.length B)) &&
  forallb (fun ko => match nth_error items (fst ko) with
                     | Some (Some i, idx) => (i =? o_id (snd ko)) && (idx =? Z.of_nat (fst ko))%Z
                     | _ => false end) (combine (seq 0 (List.length B)) B) &&
  match nth_error items (List.length B) with Some (None, _) => true | _ => false end &&
  Nat.eqb (List.length alls) (List.length lv) &&
  forallb (fun ii => match index_in_level lv (fst ii) 0 with
                     | None => false
                     | Some pos =>
                         match nth_error lv pos with
                         | None => false
                         | Some o =>
                             if bs_subset (dcs o) set
                             then (snd ii =? Z.of_nat (List.length (filter (inside_pred set) (firstn pos lv))))%Z
                             else (snd ii =? -1)%Z
                         end
                     end) alls.

(* to_nodeset: i in the result iff some NUMA node of os_index i intersects the cpuset *)
Definition to_nodeset_spec (nl : list dobj) (cpuset res : bset) : bool :=
  negb (inf res) &&
  forallb (fun o => Bool.eqb (mem (o_os o) res) (existsb (fun o' => (o_os o' =? o_os o) && bs_intersects cpuset (dcs o')) nl)) nl &&
  forallb (fun i => existsb (fun o => o_os o =? i) nl) (elements res).
Definition from_nodeset_spec (nl : list dobj) (nodeset res : bset) : bool :=
  bs_eqb res (union_list (map dcs (filter (fun o => mem (o_os o) nodeset) nl))).

(* ancestors-or-self through parent pointers (fuelled) *)
Fixpoint anc_chain (d : dump) (fuel : nat) (o : dobj) : list dobj :=
  match fuel with
  | O => [o]
  | S f => o :: match deref d (o_parent o) with Some p => anc_chain d f p | None => [] end
  end.
Definition ancestors_or_self (d : dump) (o : dobj) : list dobj := anc_chain d (List.length (t_objs d)) o.

(* r is a common ancestor-or-self, and every common ancestor-or-self is an ancestor-or-self of r *)
Definition common_ancestor_spec (d : dump) (a b : dobj) (r : N) : bool :=
  let aa := ancestors_or_self d a in
  let ab := ancestors_or_self d b in
  existsb (fun x => o_id x =? r) aa && existsb (fun x => o_id x =? r) ab &&
  match get d r with
  | None => false
  | Some ro =>
      let ar := ancestors_or_self d ro in
      forallb (fun x => negb (existsb (fun y => o_id y =? o_id x) ab) || existsb (fun y => o_id y =? o_id x) ar) aa
  end.

(* depth of the deepest common ancestor, by brute force over the two chains *)
Definition ca_depth (d : dump) (a b : dobj) : Z :=
  let ab := ancestors_or_self d b in
  match find (fun x => existsb (fun y => o_id y =? o_id x) ab) (ancestors_or_self d a) with
  | Some x => o_depth x
  | None => (-1000)%Z
  end.

Fixpoint nonincreasing (l : list Z) : bool :=
  match l with
  | a :: ((b :: _) as tl) => (b <=? a)%Z && nonincreasing tl
  | _ => true
  end.

Fixpoint nodup_ids (l : list N) : bool :=
  match l with [] => true | x :: tl => negb (existsb (N.eqb x) tl) && nodup_ids tl end.

(* closest: objects of src's level, distinct, not src, ordered by decreasing
   depth of their common ancestor with src; complete when the array was not
   filled: every object of the level whose cpuset is not inside src's is there *)
Definition closest_spec (d : dump) (src : dobj) (max : N) (ids : list N) : bool :=
  let lv := level_objs d (o_depth src) in
  (N.of_nat (List.length ids) <=? max) && nodup_ids ids &&
  forallb (fun i => negb (i =? o_id src) && existsb (fun o => o_id o =? i) lv) ids &&
  nonincreasing (flat_map (fun i => match get d i with Some o => [ca_depth d src o] | None => [] end) ids) &&
  (negb (N.of_nat (List.length ids) <? max) ||
   forallb (fun o => bs_subset (dcs o) (dcs src) || existsb (N.eqb (o_id o)) ids) lv).

Definition same_locality_spec (d : dump) (src : dobj) (ty : N) (mt : dobj -> bool) (r : option N) : bool :=
  let good o := (o_type o =? ty) && opt_bs_eqb (o_cs src) (o_cs o) && opt_bs_eqb (o_nds src) (o_nds o) && mt o in
  match r with
  | Some i => match get d i with Some o => good o | None => false end
  | None =>
      (* complete unless the type sits at several depths (hwloc_get_next_obj_by_type gives up) *)
      (get_type_depth d (Z.of_N ty) =? HWLOC_TYPE_DEPTH_MULTIPLE)%Z || negb (existsb good (t_objs d))
  end.

(* I/O sources (PCI or OS devices): the answer lives in the same PCI device: the container is the
   first ancestor-or-self of src that is not an OS device; a PCI answer is that container, an
   OS-device answer is one of its I/O children; NULL iff there is no such matching object *)
Definition same_locality_io_spec (d : dump) (src : dobj) (ty : N) (mt : dobj -> bool) (r : option N) : bool :=
  match find (fun a => negb (o_type a =? HWLOC_OBJ_OS_DEVICE)) (ancestors_or_self d src) with
  | None => match r with None => true | Some _ => false end
  | Some cont =>
      let cands := if ty =? HWLOC_OBJ_PCI_DEVICE then (if (o_type cont =? HWLOC_OBJ_PCI_DEVICE) && mt cont then [cont] else [])
                   else filter (fun c => (o_type c =? HWLOC_OBJ_OS_DEVICE) && mt c)
                               (filter (fun o => ptr_eqb (o_parent o) (PId (o_id cont)) && is_io (o_type o)) (t_objs d)) in
      match r with
      | Some i => existsb (fun c => o_id c =? i) cands
      | None => match cands with [] => true | _ => false end
      end
  end.

(* type depth with a group-depth attribute: a non-negative answer names a level of that type; for
   Groups at several depths and a given group depth it is the first level of Groups of that depth *)
Definition type_depth_attr_spec (d : dump) (ty : N) (gd : option Z) (dep : Z) : bool :=
  let plain := get_type_depth d (Z.of_N ty) in
  match gd with
  | Some g =>
      if (ty =? HWLOC_OBJ_GROUP) && (plain =? HWLOC_TYPE_DEPTH_MULTIPLE)%Z && negb (g =? Z.of_N UINT_MAX)%Z then
        let groups := filter (fun o => (o_type o =? HWLOC_OBJ_GROUP) && (o_group_depth o =? g)%Z) (t_objs d) in
        match groups with
        | [] => (dep =? HWLOC_TYPE_DEPTH_UNKNOWN)%Z
        | _ => existsb (fun o => (o_depth o =? dep)%Z) groups && forallb (fun o => (dep <=? o_depth o)%Z) groups
        end
      else (dep =? plain)%Z
  | None => (dep =? plain)%Z
  end.

(* next_child enumerates the four children lists in order *)
Definition next_child_spec (d : dump) (parent : dobj) (ids : list N) : bool :=
  ids_eqb ids (ptr_ids (o_nch parent ++ o_mch parent ++ o_ich parent ++ o_xch parent)).

(* memory parents depth: the common depth of the first non-memory ancestors of the NUMA nodes, MULTIPLE if they differ *)
Definition memory_parents_spec (d : dump) (dep : Z) : bool :=
  let parents := flat_map (fun numa => match find (fun a => negb (is_memory (o_type a))) (ancestors_or_self d numa) with
                                       | Some p => [o_depth p] | None => [] end) (level_objs d HWLOC_TYPE_DEPTH_NUMANODE) in
  match parents with
  | [] => false
  | p :: tl => if forallb (Z.eqb p) tl then (dep =? p)%Z else (dep =? HWLOC_TYPE_DEPTH_MULTIPLE)%Z
  end.

(* type/depth lookups: the depth of a type is its fixed special depth, or the
   common depth of its objects, UNKNOWN when there is none, MULTIPLE when they
   sit at several depths; and the two lookups are mutually inverse where
   get_type_depth gives a depth *)
Definition special_depth_of (ty : N) : option Z :=
  if ty =? HWLOC_OBJ_NUMANODE then Some HWLOC_TYPE_DEPTH_NUMANODE
  else if ty =? HWLOC_OBJ_MEMCACHE then Some HWLOC_TYPE_DEPTH_MEMCACHE
  else if ty =? HWLOC_OBJ_BRIDGE then Some HWLOC_TYPE_DEPTH_BRIDGE
  else if ty =? HWLOC_OBJ_PCI_DEVICE then Some HWLOC_TYPE_DEPTH_PCI_DEVICE
  else if ty =? HWLOC_OBJ_OS_DEVICE then Some HWLOC_TYPE_DEPTH_OS_DEVICE
  else if ty =? HWLOC_OBJ_MISC then Some HWLOC_TYPE_DEPTH_MISC
  else None.

Definition type_depth_spec (d : dump) (ty : N) (dep : Z) : bool :=
  (match special_depth_of ty with
   | Some sd => (dep =? sd)%Z
   | None =>
       match filter (fun o => o_type o =? ty) (t_objs d) with
       | [] => (dep =? HWLOC_TYPE_DEPTH_UNKNOWN)%Z
       | o :: tl => if forallb (fun o' => (o_depth o' =? o_depth o)%Z) tl then (dep =? o_depth o)%Z
                    else (dep =? HWLOC_TYPE_DEPTH_MULTIPLE)%Z
       end
   end) &&
  ((dep =? HWLOC_TYPE_DEPTH_UNKNOWN)%Z || (dep =? HWLOC_TYPE_DEPTH_MULTIPLE)%Z || (get_depth_type d dep =? Z.of_N ty)%Z).

(* the converse direction, for a depth: its type's depth is that depth or MULTIPLE *)
Definition depth_type_spec (d : dump) (dep : Z) (ty : Z) : bool :=
  if (ty <? 0)%Z then negb (existsb (fun o => (o_depth o =? dep)%Z) (t_objs d))
  else forallb (fun o => negb (o_depth o =? dep)%Z || (Z.of_N (o_type o) =? ty)%Z) (t_objs d) &&
       let td := get_type_depth d ty in ((td =? dep)%Z || (td =? HWLOC_TYPE_DEPTH_MULTIPLE)%Z).

(* singlify: result inside the input, bits outside every core untouched, and
   for every core exactly the which-th PU of (core /\ input) is kept (none if there is no such PU) *)
Definition singlify_spec (cores : list dobj) (cpuset : bset) (which : N) (res : bset) : bool :=
  bs_subset res cpuset &&
  bs_eqb (bs_diff res (union_list (map dcs cores))) (bs_diff cpuset (union_list (map dcs cores))) &&
  forallb (fun c =>
             match nth_error (elements (bs_inter (dcs c) cpuset)) (N.to_nat which) with
             | Some pu => bs_eqb (bs_inter res (dcs c)) (bs_single pu)
             | None => bs_is_empty (bs_inter res (dcs c))
             end) cores.
