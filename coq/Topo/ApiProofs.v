(* C02: lemmas about Topo/Api.v and Topo/Insert.v *)
From Coq Require Import List NArith ZArith Bool String Lia Permutation.
From HV Require Import Base.BSet Gen.Tables Text.TypeOrder Topo.Dump Topo.WFCheck Topo.Obj Topo.Insert Topo.Api.
Import ListNotations.
Local Open Scope N_scope.

(* ------------------------------------------------------------------ *)
(* induction principle for the nested tree                             *)

Section ObjInd.
  Variable P : obj -> Prop.
  Hypothesis H : forall d n m i x, Forall P n -> Forall P m -> Forall P i -> Forall P x -> P (Obj d n m i x).
  Fixpoint obj_ind4 (o : obj) : P o :=
    match o with
    | Obj d n m i x =>
        let fix go (l : list obj) : Forall P l :=
          match l with [] => Forall_nil P | c :: tl => Forall_cons c (obj_ind4 c) (go tl) end in
        H d n m i x (go n) (go m) (go i) (go x)
    end.
End ObjInd.

(* ------------------------------------------------------------------ *)
(* the put-back path loses nothing                                     *)

Lemma skip_lt_app t l : fst (skip_lt t l) ++ snd (skip_lt t l) = l.
Proof.
  induction l as [|h tl IH]; cbn [skip_lt]; [reflexivity|].
  destruct (obj_first_lt (odata h) (odata t)); [|reflexivity].
  destruct (skip_lt t tl) as [a b]. cbn [fst snd] in *. now rewrite <- IH.
Qed.

Lemma putback_perm taken : forall l, Permutation (putback l taken) (l ++ taken).
Proof.
  induction taken as [|t ts IH]; intros l; cbn [putback].
  - now rewrite app_nil_r.
  - pose proof (skip_lt_app t l) as E. destruct (skip_lt t l) as [a b]. cbn [fst snd] in E. subst l.
    rewrite <- app_assoc. apply Permutation_app_head.
    rewrite (IH (t :: b)). cbn [app]. apply Permutation_middle.
Qed.

(* every child that was moved below OBJ is back in CUR's list, and nothing else changed *)
Lemma putback_from_perm k full taken :
  Permutation (firstn k full ++ putback (skipn k full) taken) (full ++ taken).
Proof.
  rewrite putback_perm, app_assoc, firstn_skipn. reflexivity.
Qed.

Lemma link_at_perm kept_rev p o : Permutation (link_at kept_rev p o) (o :: rev kept_rev).
Proof.
  unfold link_at. destruct p as [k|].
  - rewrite <- Permutation_middle. now rewrite firstn_skipn.
  - rewrite Permutation_app_comm. reflexivity.
Qed.

(* the scan of the put-back path keeps the relative order of the children that never left CUR *)
Lemma skip_lt_prefix t l : exists a b, skip_lt t l = (a, b) /\ l = a ++ b /\ Forall (fun h => obj_first_lt (odata h) (odata t) = true) a.
Proof.
  induction l as [|h tl IH]; cbn [skip_lt].
  - exists [], []. repeat split. constructor.
  - destruct (obj_first_lt (odata h) (odata t)) eqn:E.
    + destruct IH as (a & b & E1 & E2 & E3). rewrite E1. exists (h :: a), b. repeat split.
      * now rewrite E2.
      * constructor; assumption.
    + exists [], (h :: tl). repeat split. constructor.
Qed.

(* ------------------------------------------------------------------ *)
(* hwloc___insert_object_by_cpuset, one level                          *)

Section LoopFacts.
  Variable rec : obj -> obj -> obj * outcome.
  Variable dms : list N.
  Variable dm_new : bool.
  Variable d : dobj.
  Variables m i x : list obj.

  Definition flat_child (o c : obj) : Prop :=
    match verdict_of dms dm_new (odata o) (odata c) with VDifferent | VTake false => True | _ => False end.

  (* OBJ keeps its payload through the loop (only its memory children can change) *)
  Definition stays (c : obj) (o : obj) : bool :=
    match verdict_of dms dm_new (odata o) (odata c) with VDifferent => true | _ => false end.

  (* When every child is either disjoint from OBJ or strictly contained in it, the loop inserts OBJ:
     the disjoint children stay, in order; the contained ones become OBJ's children, in order. *)
  Lemma ins_loop_flat : forall l kept_rev taken putp o,
    Forall (flat_child o) l ->
    exists p,
      ins_loop rec dms dm_new d m i x l kept_rev taken putp o =
      (Obj d (link_at (rev (filter (fun c => stays c o) l) ++ kept_rev) p
                      (with_children o (taken ++ filter (fun c => negb (stays c o)) l))) m i x, OInserted).
  Proof.
    induction l as [|c tl IH]; intros kept_rev taken putp o Hall.
    - exists putp. cbn [ins_loop filter rev app]. rewrite app_nil_r. reflexivity.
    - inversion Hall as [|c0 tl0 Hc Htl]; subst.
      unfold flat_child in Hc. cbn [ins_loop filter].
      destruct (verdict_of dms dm_new (odata o) (odata c)) as [| | | | | |[|]] eqn:V; try contradiction.
      + assert (S : stays c o = true) by (unfold stays; rewrite V; reflexivity).
        rewrite S. cbn [negb].
        destruct (IH (c :: kept_rev) taken (next_putp putp kept_rev o c) o Htl) as [p Hp].
        exists p. rewrite Hp. cbn [rev]. rewrite <- app_assoc. reflexivity.
      + assert (S : stays c o = false) by (unfold stays; rewrite V; reflexivity).
        rewrite S. cbn [negb].
        destruct (IH kept_rev (taken ++ [c]) putp o Htl) as [p Hp].
        exists p. rewrite Hp. rewrite <- app_assoc. reflexivity.
  Qed.

  Lemma filter_partition_perm {A} (f : A -> bool) (l : list A) :
    Permutation (filter f l ++ filter (fun a => negb (f a)) l) l.
  Proof.
    induction l as [|a tl IH]; cbn [filter]; [constructor|].
    destruct (f a); cbn [negb app].
    - now constructor.
    - rewrite <- Permutation_middle. now constructor.
  Qed.

  (* no child is lost or duplicated by a successful flat insertion: CUR's new children are OBJ plus the
     children that stayed, OBJ's children are the others, and together they are exactly the old children *)
  Lemma ins_loop_flat_no_loss : forall l o,
    Forall (flat_child o) l ->
    exists (n' K T : list obj),
      ins_loop rec dms dm_new d m i x l [] [] None o = (Obj d n' m i x, OInserted) /\
      Permutation n' (with_children o T :: K) /\
      Permutation (K ++ T) l.
  Proof.
    intros l o Hall. destruct (ins_loop_flat l [] [] None o Hall) as [p Hp].
    exists (link_at (rev (filter (fun c => stays c o) l) ++ []) p (with_children o ([] ++ filter (fun c => negb (stays c o)) l))),
           (filter (fun c => stays c o) l), (filter (fun c => negb (stays c o)) l).
    split; [exact Hp|]. split.
    - rewrite link_at_perm. rewrite app_nil_r, rev_involutive. reflexivity.
    - apply filter_partition_perm.
  Qed.

  Definition fail_child (o c : obj) : Prop :=
    match verdict_of dms dm_new (odata o) (odata c) with VDifferent | VTake false | VFail => True | _ => False end.

  (* "no object lost on the put-back path": when the insertion is abandoned at this level, CUR's children
     are exactly the old ones (those that had been moved below OBJ are back) *)
  Lemma ins_loop_fail_no_loss : forall l kept_rev taken putp o n' mm ii xx dd,
    Forall (fail_child o) l ->
    ins_loop rec dms dm_new d m i x l kept_rev taken putp o = (Obj dd n' mm ii xx, OFail) ->
    Permutation n' (rev kept_rev ++ taken ++ l).
  Proof.
    induction l as [|c tl IH]; intros kept_rev taken putp o n' mm ii xx dd Hall E.
    - cbn [ins_loop] in E. discriminate E.
    - inversion Hall as [|c0 tl0 Hc Htl]; subst. unfold fail_child in Hc. cbn [ins_loop] in E.
      destruct (verdict_of dms dm_new (odata o) (odata c)) as [| | | | | |[|]] eqn:V; try contradiction.
      + injection E as _ En _ _ _. subst n'.
        rewrite putback_from_perm. rewrite <- app_assoc. apply Permutation_app_head.
        apply Permutation_app_comm.
      + apply IH in E; [|exact Htl]. rewrite E. cbn [rev]. rewrite <- app_assoc. apply Permutation_app_head.
        cbn [app]. apply Permutation_middle.
      + apply IH in E; [|exact Htl]. rewrite E. apply Permutation_app_head.
        rewrite <- app_assoc. reflexivity.
  Qed.
End LoopFacts.

(* ------------------------------------------------------------------ *)
(* the invariant                                                       *)

Definition ocs (o : obj) : bset := oset (o_cs (odata o)).

Fixpoint pairwise_disjoint (l : list bset) : bool :=
  match l with
  | [] => true
  | s :: tl => forallb (fun u => negb (bs_intersects s u)) tl && pairwise_disjoint tl
  end.

Definition dcs (d : dobj) : bset := oset (o_cs d).

(* siblings in the order hwloc__object_cpusets_compare_first gives: no child sorts before its predecessor *)
Fixpoint sorted_first (l : list dobj) : bool :=
  match l with
  | a :: tl => match tl with b :: _ => negb (obj_first_lt b a) | [] => true end && sorted_first tl
  | [] => true
  end.

(* the clauses about one object and its normal children, over the payloads only *)
Definition sibs_okd (d : dobj) (ds : list dobj) : bool :=
  pairwise_disjoint (map dcs ds) && sorted_first ds &&
  forallb (fun c => bs_subset (dcs c) (dcs d) && subset_opt (o_ccs c) (o_ccs d)
                    && subset_opt (o_nds c) (o_nds d) && subset_opt (o_cnds c) (o_cnds d)) ds &&
  match ds with [] => true | _ => bs_eqb (union_all (map dcs ds)) (dcs d) end.

Definition sibs_ok (d : dobj) (n : list obj) : bool := sibs_okd d (map odata n).

Fixpoint tree_inv (o : obj) : bool :=
  match o with
  | Obj d n m i x =>
      sibs_ok d n && (fix all (l : list obj) : bool := match l with [] => true | c :: tl => tree_inv c && all tl end) n
  end.

Lemma tree_inv_eq d n m i x : tree_inv (Obj d n m i x) = sibs_ok d n && forallb tree_inv n.
Proof. reflexivity. Qed.

Definition allowed_ok (t : topo) : Prop :=
  bs_subset (m_acpu t) (root_set t o_cs) = true /\ bs_subset (m_anode t) (root_set t o_nds) = true.

(* Inv: sibling cpusets pairwise disjoint and ordered, child sets included in the parent's, parent cpuset =
   union of its normal children's, gp_index unique and below next_gp_index, allowed sets inside the root's
   cpuset / nodeset *)
Definition Inv (t : topo) : Prop :=
  tree_inv (m_root t) = true /\
  nodup_N (gps (m_root t)) = true /\
  Forall (fun g => g < m_next_gp t) (gps (m_root t)) /\
  allowed_ok t.

(* ------------------------------------------------------------------ *)
(* calls that do not touch the tree                                    *)

Definition structural (c : call) : bool := match c with CMisc _ _ | CGroup _ => true | _ => false end.

Ltac brk := repeat match goal with
                   | |- context [match ?x with _ => _ end] => destruct x eqn:?
                   end.

Lemma step_info_mod_root t g op n v : m_root (fst (step_info_mod t g op n v)) = m_root t.
Proof. unfold step_info_mod. brk; reflexivity. Qed.

Lemma step_allow_root t f c n : m_root (fst (step_allow t f c n)) = m_root t.
Proof. unfold step_allow. brk; reflexivity. Qed.

Theorem step_tree_unchanged t c : structural c = false -> m_root (fst (step t c)) = m_root t.
Proof.
  destruct c; cbn [structural step]; intros Hs; try discriminate.
  - apply step_info_mod_root.
  - apply step_info_mod_root.
  - brk; reflexivity.
  - unfold step_subtype. brk; reflexivity.
  - apply step_allow_root.
  - reflexivity.
Qed.

Lemma step_next_gp_mono t c : m_next_gp t <= m_next_gp (fst (step t c)).
Proof.
  destruct c; cbn [step].
  - unfold step_misc. brk; cbn; lia.
  - unfold step_info_mod. brk; cbn; lia.
  - unfold step_info_mod. brk; cbn; lia.
  - brk; cbn; lia.
  - unfold step_subtype. brk; cbn; lia.
  - unfold step_allow. brk; cbn; lia.
  - unfold step_group. brk; cbn; lia.
  - cbn. lia.
Qed.

(* ------------------------------------------------------------------ *)
(* hwloc_topology_allow                                                *)

Lemma subset_inter_l a b c : bs_subset a c = true -> bs_subset (bs_inter a b) c = true.
Proof.
  rewrite !bs_subset_spec. intros H i Hi. rewrite mem_inter in Hi. apply andb_true_iff in Hi as [Ha _]. auto.
Qed.
Lemma subset_refl a : bs_subset a a = true.
Proof. rewrite bs_subset_spec. auto. Qed.

Lemma subset_inter_self a b : bs_subset (bs_inter a b) a = true.
Proof. apply subset_inter_l, subset_refl. Qed.

(* allowed sets stay inside the root's cpuset / nodeset (what hwloc_topology_check asserts), for every flag
   word and every argument *)
Theorem allow_preserves_allowed t f c n : allowed_ok t -> allowed_ok (fst (step_allow t f c n)).
Proof.
  intros (H1 & H2). unfold step_allow.
  brk; unfold allowed_ok, root_set in *; cbn [fst m_acpu m_anode m_root set_allowed]; split;
    try assumption; try apply subset_refl; try apply subset_inter_self.
Qed.

(* ------------------------------------------------------------------ *)
(* errors leave the observable state untouched                         *)

(* everything but next_gp_index (alloc_group_object consumes one even when the insertion is refused) *)
Definition obs (t : topo) :=
  (m_root t, m_flags t, m_filters t, m_acpu t, m_anode t, m_thissystem t, m_tinfos t, m_extra t).

Theorem step_error_is_identity t c e :
  snd (step t c) = RErr e -> obs (fst (step t c)) = obs t.
Proof.
  destruct c; cbn [step]; intros Hr.
  - unfold step_misc in *. revert Hr. brk; cbn; intros; try discriminate; reflexivity.
  - unfold step_info_mod in *. revert Hr. brk; cbn; intros; try discriminate; reflexivity.
  - unfold step_info_mod in *. revert Hr. brk; cbn; intros; try discriminate; reflexivity.
  - revert Hr. brk; cbn; intros; try discriminate; reflexivity.
  - unfold step_subtype in *. revert Hr. brk; cbn; intros; try discriminate; reflexivity.
  - unfold step_allow in *. revert Hr. brk; cbn; intros; try discriminate; reflexivity.
  - unfold step_group in *. revert Hr. brk; cbn; intros; try discriminate; reflexivity.
  - cbn in Hr. discriminate.
Qed.

(* ------------------------------------------------------------------ *)
(* userdata and the other per-object extras of existing objects        *)

Lemma find_filter_neq (e : list (N * extra)) g g' :
  (g' =? g) = false ->
  find (fun p => fst p =? g) (filter (fun p => negb (fst p =? g')) e) = find (fun p => fst p =? g) e.
Proof.
  intros Hne. induction e as [|[k v] tl IH]; [reflexivity|]. cbn [filter find fst].
  destruct (k =? g') eqn:E1; cbn [negb].
  - apply N.eqb_eq in E1. subst k. rewrite Hne. exact IH.
  - cbn [find fst]. destruct (k =? g); [reflexivity|exact IH].
Qed.

Lemma get_put_other e g g' v : (g' =? g) = false -> get_extra (put_extra e g' v) g = get_extra e g.
Proof.
  intros Hne. unfold get_extra, put_extra. cbn [find fst]. rewrite Hne. now rewrite find_filter_neq.
Qed.
Lemma get_put_same e g v : get_extra (put_extra e g v) g = v.
Proof. unfold get_extra, put_extra. cbn [find fst snd]. now rewrite N.eqb_refl. Qed.

Definition is_group_call (c : call) : bool := match c with CGroup _ => true | _ => false end.

(* hwloc never alters the userdata of an existing object (objects are named by gp_index; every gp_index in
   use is below next_gp_index under Inv), whatever the call and its arguments *)
Theorem userdata_untouched t c g :
  is_group_call c = false ->
  g < m_next_gp t -> x_ud (get_extra (m_extra (fst (step t c))) g) = x_ud (get_extra (m_extra t) g).
Proof.
  intros Hc Hg.
  assert (Hne : (m_next_gp t =? g) = false) by (apply N.eqb_neq; lia).
  destruct c; cbn [step].
  - unfold step_misc. brk; cbn [fst m_extra set_extra set_next_gp set_root]; try reflexivity.
    rewrite get_put_other by exact Hne. reflexivity.
  - unfold step_info_mod. brk; cbn [fst m_extra set_extra]; try reflexivity;
      (destruct (g0 =? g) eqn:E; [apply N.eqb_eq in E; subst g0; rewrite get_put_same; reflexivity | rewrite get_put_other by exact E; reflexivity]).
  - unfold step_info_mod. brk; cbn [fst m_extra set_extra]; try reflexivity;
      (destruct (g0 =? g) eqn:E; [apply N.eqb_eq in E; subst g0; rewrite get_put_same; reflexivity | rewrite get_put_other by exact E; reflexivity]).
  - brk; reflexivity.
  - unfold step_subtype. brk; cbn [fst m_extra set_extra]; try reflexivity;
      (destruct (g0 =? g) eqn:E; [apply N.eqb_eq in E; subst g0; rewrite get_put_same; reflexivity | rewrite get_put_other by exact E; reflexivity]).
  - unfold step_allow. brk; reflexivity.
  - discriminate Hc.
  - reflexivity.
Qed.

(* ------------------------------------------------------------------ *)
(* Inv is preserved by every call that does not restructure the tree   *)

Lemma allowed_ok_same_root t t' :
  m_root t' = m_root t -> m_acpu t' = m_acpu t -> m_anode t' = m_anode t -> allowed_ok t -> allowed_ok t'.
Proof. unfold allowed_ok, root_set. intros -> -> ->. auto. Qed.

Lemma step_allowed_ok t c : structural c = false -> allowed_ok t -> allowed_ok (fst (step t c)).
Proof.
  destruct c; cbn [structural step]; intros Hs Ha; try discriminate.
  - unfold step_info_mod. brk; exact Ha.
  - unfold step_info_mod. brk; exact Ha.
  - brk; exact Ha.
  - unfold step_subtype. brk; exact Ha.
  - apply allow_preserves_allowed, Ha.
  - exact Ha.
Qed.

Theorem step_preserves_inv_partial t c : structural c = false -> Inv t -> Inv (fst (step t c)).
Proof.
  intros Hs (H1 & H2 & H3 & H4). unfold Inv. rewrite (step_tree_unchanged t c Hs).
  split; [exact H1|]. split; [exact H2|]. split.
  - pose proof (step_next_gp_mono t c) as Hm. eapply Forall_impl; [|exact H3]. cbn beta. intros a Ha. lia.
  - apply step_allowed_ok; assumption.
Qed.

Theorem history_preserves_inv_partial cs : forall t,
  forallb (fun c => negb (structural c)) cs = true -> Inv t -> Inv (run t cs).
Proof.
  induction cs as [|c tl IH]; intros t Hall Hi; [exact Hi|].
  cbn [forallb] in Hall. apply andb_true_iff in Hall as [Hc Htl]. apply negb_true_iff in Hc.
  unfold run. cbn [fold_left]. apply IH; [exact Htl|]. apply step_preserves_inv_partial; assumption.
Qed.

(* gp_index of every object is stable (the tree is literally the same) through such histories *)
Theorem gp_index_stable_partial cs : forall t,
  forallb (fun c => negb (structural c)) cs = true -> m_root (run t cs) = m_root t.
Proof.
  induction cs as [|c tl IH]; intros t Hall; [reflexivity|].
  cbn [forallb] in Hall. apply andb_true_iff in Hall as [Hc Htl]. apply negb_true_iff in Hc.
  unfold run. cbn [fold_left]. fold (run (fst (step t c)) tl). rewrite IH by exact Htl.
  apply step_tree_unchanged, Hc.
Qed.

(* userdata along a whole history, for every call including Group insertion *)
Theorem history_userdata_untouched cs : forall t g,
  forallb (fun c => negb (is_group_call c)) cs = true ->
  g < m_next_gp t -> x_ud (get_extra (m_extra (run t cs)) g) = x_ud (get_extra (m_extra t) g).
Proof.
  induction cs as [|c tl IH]; intros t g Hall Hg; [reflexivity|].
  cbn [forallb] in Hall. apply andb_true_iff in Hall as [Hc Htl]. apply negb_true_iff in Hc.
  unfold run. cbn [fold_left]. fold (run (fst (step t c)) tl).
  rewrite IH; [apply userdata_untouched; assumption|exact Htl|].
  pose proof (step_next_gp_mono t c). lia.
Qed.

(* ------------------------------------------------------------------ *)
(* witnesses: a 4-PU machine, two packages                              *)

Definition S (n : N) : option bset := Some (bs_of_N n).
Definition mk (ty gp cs : N) (n : list obj) : obj :=
  Obj (fresh_dobj ty gp (S cs) (S cs) (S 1) (S 1) (-1)%Z (-1)%Z) n [] [] [].
Definition mkg (gp cs : N) (kind : Z) (n : list obj) : obj :=
  Obj (fresh_dobj HWLOC_OBJ_GROUP gp (S cs) (S cs) (S 1) (S 1) kind 0%Z) n [] [] [].
Definition pu (gp i : N) : obj := mk HWLOC_OBJ_PU gp (N.shiftl 1 i) [].
Definition filters0 : list N := repeat 0 20.

(* Machine > Package{0,1} , Package{2,3} *)
Definition tree0 : obj :=
  mk HWLOC_OBJ_MACHINE 1 15 [mk HWLOC_OBJ_PACKAGE 2 3 [pu 3 0; pu 4 1]; mk HWLOC_OBJ_PACKAGE 5 12 [pu 6 2; pu 7 3]].
Definition topo0 : topo := mkTopo tree0 1 filters0 (bs_of_N 15) (bs_of_N 1) 8 false [] [].

(* the same with a user Group (kind 5, mergeable, userdata set) around PU 0 and PU 1... of a 4-core package *)
Definition tree1 : obj :=
  mk HWLOC_OBJ_MACHINE 1 15 [mk HWLOC_OBJ_PACKAGE 2 15 [mkg 8 3 5%Z [pu 3 0; pu 4 1]; pu 6 2; pu 7 3]].
Definition topo1 : topo := mkTopo tree1 1 filters0 (bs_of_N 15) (bs_of_N 1) 9 false [] [(8, mkExtra None None [] true false)].
(* the same Group with dont_merge *)
Definition topo2 : topo := mkTopo tree1 1 filters0 (bs_of_N 15) (bs_of_N 1) 9 false [] [(8, mkExtra None None [] true true)].

Definition gsp (cs : N) (dm : bool) (kind : N) : gspec := mkG (S cs) None None None dm kind 0 false None.

Lemma Inv_topo0 : Inv topo0.
Proof. unfold Inv, allowed_ok. repeat split; try (vm_compute; reflexivity). repeat constructor. Qed.
Lemma Inv_topo1 : Inv topo1.
Proof. unfold Inv, allowed_ok. repeat split; try (vm_compute; reflexivity). repeat constructor. Qed.
Lemma Inv_topo2 : Inv topo2.
Proof. unfold Inv, allowed_ok. repeat split; try (vm_compute; reflexivity). repeat constructor. Qed.

(* a well-formed insertion: Group {2,3}... of topo1's package is inserted and Inv still holds *)
Lemma group_ok_example :
  snd (step topo1 (CGroup (gsp 12 false 0))) = RObj (Some 9) true /\
  tree_inv (m_root (fst (step topo1 (CGroup (gsp 12 false 0))))) = true.
Proof. split; vm_compute; reflexivity. Qed.

(* a dont_merge Group over a mergeable Group with the same cpuset: the linked object is returned, with the
   new gp_index, and Inv still holds *)
Lemma group_dontmerge_over_mergeable :
  snd (step topo1 (CGroup (gsp 3 true 3))) = RObj (Some 8) false /\
  existsb (N.eqb 8) (gps (m_root (fst (step topo1 (CGroup (gsp 3 true 3)))))) = true /\
  tree_inv (m_root (fst (step topo1 (CGroup (gsp 3 true 3))))) = true.
Proof. repeat split; vm_compute; reflexivity. Qed.

(* a mergeable Group of smaller kind (or a dont_merge Group) overwrites the existing Group in place: the object
   keeps its gp_index (8) but its userdata (set in topo1) is replaced by the inserted Group's (none) *)
Lemma group_smaller_kind_overwrites_userdata :
  snd (step topo1 (CGroup (gsp 3 false 3))) = RObj (Some 8) false /\
  existsb (N.eqb 8) (gps (m_root (fst (step topo1 (CGroup (gsp 3 false 3)))))) = true /\
  x_ud (get_extra (m_extra topo1) 8) = true /\
  x_ud (get_extra (m_extra (fst (step topo1 (CGroup (gsp 3 false 3))))) 8) = false.
Proof. repeat split; vm_compute; reflexivity. Qed.

(* two dont_merge Groups of different kinds with the same cpuset become siblings: Inv is lost *)
Lemma group_dontmerge_same_cpuset_breaks_inv :
  tree_inv (m_root (fst (step topo2 (CGroup (gsp 3 true 7))))) = false.
Proof. vm_compute. reflexivity. Qed.

(* CUSTOM with a usable cpuset and a nodeset outside the topology: EINVAL, nothing modified *)
Definition topo0d : topo := mkTopo tree0 1 filters0 (bs_of_N 15) (bs_of_N 1) 8 false [] [].
Lemma allow_einval_example :
  snd (step topo0d (CAllow HWLOC_ALLOW_FLAG_CUSTOM (S 3) (S 32))) = RErr EINVAL /\
  snd (step topo0d (CAllow HWLOC_ALLOW_FLAG_CUSTOM (S 3) (S 1))) = RInt 0 /\
  m_acpu (fst (step topo0d (CAllow HWLOC_ALLOW_FLAG_CUSTOM (S 3) (S 1)))) = bs_of_N 3.
Proof. repeat split; vm_compute; reflexivity. Qed.

(* ALL with an offline PU (complete_cpuset 0x1f, cpuset 0xf): allowed = cpuset *)
Definition tree_off : obj :=
  match tree0 with Obj d n m i x => Obj (set_sets d (S 15) (S 31) (S 1) (S 1)) n m i x end.
Definition topo_off : topo := mkTopo tree_off 1 filters0 (bs_of_N 3) (bs_of_N 1) 8 false [] [].
Lemma allow_all_example :
  snd (step topo_off (CAllow HWLOC_ALLOW_FLAG_ALL None None)) = RInt 0 /\
  m_acpu (fst (step topo_off (CAllow HWLOC_ALLOW_FLAG_ALL None None))) = bs_of_N 15.
Proof. split; vm_compute; reflexivity. Qed.

(* ------------------------------------------------------------------ *)
(* hwloc_topology_insert_misc_object preserves Inv                     *)

Lemma map_gp_eq g f d n m i x :
  map_gp g f (Obj d n m i x) =
  (if has_gp g (Obj d n m i x) then f else fun o => o)
    (Obj d (map (map_gp g f) n) (map (map_gp g f) m) (map (map_gp g f) i) (map (map_gp g f) x)).
Proof. cbn [map_gp]. destruct (has_gp g (Obj d n m i x)); reflexivity. Qed.

(* f only touches the memory / io / misc children lists *)
Definition keeps_shape (f : obj -> obj) : Prop :=
  forall d n m i x, exists m' i' x', f (Obj d n m i x) = Obj d n m' i' x'.

Lemma map_gp_shape g f (Hf : keeps_shape f) : forall o,
  odata (map_gp g f o) = odata o /\ tree_inv (map_gp g f o) = tree_inv o.
Proof.
  induction o as [d n m i x Hn _ _ _] using obj_ind4.
  rewrite map_gp_eq.
  assert (E1 : map odata (map (map_gp g f) n) = map odata n).
  { induction Hn as [|c tl [Hc _] _ IH]; [reflexivity|]. cbn [map]. now rewrite Hc, IH. }
  assert (E2 : forallb tree_inv (map (map_gp g f) n) = forallb tree_inv n).
  { clear E1. induction Hn as [|c tl [_ Hc] _ IH]; [reflexivity|]. cbn [map forallb]. now rewrite Hc, IH. }
  assert (G : forall m' i' x', tree_inv (Obj d (map (map_gp g f) n) m' i' x') = tree_inv (Obj d n m i x)).
  { intros. rewrite !tree_inv_eq. unfold sibs_ok. now rewrite E1, E2. }
  destruct (has_gp g (Obj d n m i x)).
  - destruct (Hf d (map (map_gp g f) n) (map (map_gp g f) m) (map (map_gp g f) i) (map (map_gp g f) x)) as (m' & i' & x' & E).
    rewrite E. split; [reflexivity|apply G].
  - split; [reflexivity|apply G].
Qed.

(* gp_index lists *)
Definition gpl (d : dobj) : list N := match o_gp d with Some g => [g] | None => [] end.

Lemma flatten_eq d n m i x :
  flatten (Obj d n m i x) = Obj d n m i x :: flat_map flatten n ++ flat_map flatten m ++ flat_map flatten i ++ flat_map flatten x.
Proof. reflexivity. Qed.

Lemma flat_map_flat_map {A B C} (f : B -> list C) (g : A -> list B) l :
  flat_map f (flat_map g l) = flat_map (fun a => flat_map f (g a)) l.
Proof. induction l as [|a tl IH]; [reflexivity|]. cbn [flat_map]. now rewrite flat_map_app, IH. Qed.

Lemma gps_eq d n m i x :
  gps (Obj d n m i x) = gpl d ++ flat_map gps n ++ flat_map gps m ++ flat_map gps i ++ flat_map gps x.
Proof.
  unfold gps at 1. rewrite flatten_eq. cbn [flat_map odata]. fold (gpl d).
  rewrite !flat_map_app, !flat_map_flat_map. reflexivity.
Qed.

Definition cnt (a : N) (l : list N) : nat := count_occ N.eq_dec l a.
Lemma cnt_app a l1 l2 : cnt a (l1 ++ l2) = (cnt a l1 + cnt a l2)%nat.
Proof. apply count_occ_app. Qed.

Definition add_misc (mo : obj) (p : obj) : obj := match p with Obj d n m i x => Obj d n m i (x ++ [mo]) end.
Lemma add_misc_shape mo : keeps_shape (add_misc mo).
Proof. intros d n m i x. exists m, i, (x ++ [mo]). reflexivity. Qed.

(* every object whose gp_index is p gets one more Misc child (gp_index g): the multiset of gp_index grows by
   as many copies of g *)
Lemma gps_map_gp_count p g mo (Hmo : gps mo = [g]) a : forall o,
  cnt a (gps (map_gp p (add_misc mo) o)) = (cnt a (gps o) + (if N.eq_dec g a then cnt p (gps o) else 0))%nat.
Proof.
  induction o as [d n m i x Hn Hm Hi Hx] using obj_ind4.
  assert (L : forall l, Forall (fun o => cnt a (gps (map_gp p (add_misc mo) o)) =
                                          (cnt a (gps o) + (if N.eq_dec g a then cnt p (gps o) else 0))%nat) l ->
              cnt a (flat_map gps (map (map_gp p (add_misc mo)) l)) =
              (cnt a (flat_map gps l) + (if N.eq_dec g a then cnt p (flat_map gps l) else 0))%nat).
  { intros l Hl. induction Hl as [|c tl Hc _ IH]; cbn [map flat_map].
    - destruct (N.eq_dec g a); reflexivity.
    - rewrite !cnt_app, Hc, IH. destruct (N.eq_dec g a); lia. }
  rewrite map_gp_eq.
  assert (Hg : has_gp p (Obj d n m i x) = true -> cnt p (gpl d) = 1%nat).
  { unfold has_gp, gpl. cbn [odata]. destruct (o_gp d) as [q|]; [|discriminate]. intros E. apply N.eqb_eq in E. subst q.
    unfold cnt. cbn. destruct (N.eq_dec p p); [reflexivity|contradiction]. }
  assert (Hg' : has_gp p (Obj d n m i x) = false -> cnt p (gpl d) = 0%nat).
  { unfold has_gp, gpl. cbn [odata]. destruct (o_gp d) as [q|]; [|reflexivity]. intros E. apply N.eqb_neq in E.
    unfold cnt. cbn. destruct (N.eq_dec q p); [contradiction|reflexivity]. }
  destruct (has_gp p (Obj d n m i x)) eqn:E.
  - cbn [add_misc]. rewrite !gps_eq. rewrite flat_map_app. cbn [flat_map]. rewrite Hmo, app_nil_r.
    rewrite !cnt_app, (L n Hn), (L m Hm), (L i Hi), (L x Hx), (Hg eq_refl).
    assert (Hs : cnt a [g] = if N.eq_dec g a then 1%nat else 0%nat) by (unfold cnt; cbn; destruct (N.eq_dec g a); reflexivity).
    rewrite Hs. destruct (N.eq_dec g a); lia.
  - rewrite !gps_eq, !cnt_app, (L n Hn), (L m Hm), (L i Hi), (L x Hx), (Hg' eq_refl).
    destruct (N.eq_dec g a); lia.
Qed.

Lemma nodup_N_NoDup l : nodup_N l = true <-> NoDup l.
Proof.
  induction l as [|a tl IH]; cbn [nodup_N].
  - split; [constructor|reflexivity].
  - rewrite andb_true_iff, negb_true_iff, IH. split.
    + intros [H1 H2]. constructor; [|exact H2]. intros Hin.
      assert (existsb (N.eqb a) tl = true) by (apply existsb_exists; exists a; split; [exact Hin|apply N.eqb_refl]). congruence.
    + intros H. inversion H as [|a' tl' H1 H2]; subst. split; [|exact H2].
      destruct (existsb (N.eqb a) tl) eqn:E; [|reflexivity]. apply existsb_exists in E as (b & Hb & Eb).
      apply N.eqb_eq in Eb. subst b. contradiction.
Qed.

Theorem step_misc_preserves_inv t p name : Inv t -> Inv (fst (step_misc t p name)).
Proof.
  intros (H1 & H2 & H3 & A1 & A2). unfold step_misc.
  destruct (filter_is_none t HWLOC_OBJ_MISC); [repeat split; assumption|].
  destruct (find_obj t p) as [po|] eqn:Ef; [|repeat split; assumption].
  cbn [fst].
  set (g := m_next_gp t).
  set (mo := Obj (fresh_dobj HWLOC_OBJ_MISC g None None None None (-1)%Z (-1)%Z) [] [] [] []).
  set (f := fun p0 : obj => match p0 with Obj d n m i x => Obj d n m i (x ++ [mo]) end).
  change f with (add_misc mo).
  assert (Hmo : gps mo = [g]) by reflexivity.
  destruct (map_gp_shape p (add_misc mo) (add_misc_shape mo) (m_root t)) as [Ed Et].
  assert (Hfresh : cnt g (gps (m_root t)) = 0%nat).
  { apply count_occ_not_In. intros Hin. rewrite Forall_forall in H3. specialize (H3 g Hin). unfold g in H3. lia. }
  apply nodup_N_NoDup in H2.
  unfold Inv. cbn [m_root m_next_gp set_extra set_next_gp set_root m_acpu m_anode].
  split; [rewrite Et; exact H1|]. split; [|split].
  - apply nodup_N_NoDup. apply (NoDup_count_occ N.eq_dec). intros a.
    fold (cnt a (gps (map_gp p (add_misc mo) (m_root t)))). rewrite (gps_map_gp_count p g mo Hmo a).
    pose proof (proj1 (NoDup_count_occ N.eq_dec _) H2 a) as Ha. pose proof (proj1 (NoDup_count_occ N.eq_dec _) H2 p) as Hp.
    fold (cnt a (gps (m_root t))) in Ha. fold (cnt p (gps (m_root t))) in Hp.
    destruct (N.eq_dec g a) as [<-|]; lia.
  - apply Forall_forall. intros a Ha.
    assert (Hc : (cnt a (gps (map_gp p (add_misc mo) (m_root t))) > 0)%nat) by (apply count_occ_In; exact Ha).
    rewrite (gps_map_gp_count p g mo Hmo a) in Hc.
    destruct (N.eq_dec g a) as [<-|Hne].
    + unfold g. lia.
    + assert (In a (gps (m_root t))) by (apply (count_occ_In N.eq_dec); unfold cnt in Hc; lia).
      rewrite Forall_forall in H3. specialize (H3 a H). lia.
  - unfold allowed_ok, root_set in *. cbn [m_root m_acpu m_anode set_extra set_next_gp set_root]. rewrite Ed. split; assumption.
Qed.

(* ------------------------------------------------------------------ *)
(* every call except Group insertion                                   *)

Definition is_group_insert (c : call) : bool := match c with CGroup _ => true | _ => false end.

Theorem step_preserves_inv_nongroup t c : is_group_insert c = false -> Inv t -> Inv (fst (step t c)).
Proof.
  destruct c; intros Hs Hi; try discriminate; try (apply step_preserves_inv_partial; [reflexivity|exact Hi]).
  cbn [step]. apply step_misc_preserves_inv, Hi.
Qed.

Theorem history_preserves_inv_nongroup cs : forall t,
  forallb (fun c => negb (is_group_insert c)) cs = true -> Inv t -> Inv (run t cs).
Proof.
  induction cs as [|c tl IH]; intros t Hall Hi; [exact Hi|].
  cbn [forallb] in Hall. apply andb_true_iff in Hall as [Hc Htl]. apply negb_true_iff in Hc.
  unfold run. cbn [fold_left]. apply IH; [exact Htl|]. apply step_preserves_inv_nongroup; assumption.
Qed.

(* no object disappears, and every object keeps its gp_index, through any call but Group insertion
   (restrict is the only other call that removes objects; it is not a call of this model) *)
Theorem gp_index_kept_nongroup t c a :
  is_group_insert c = false -> In a (gps (m_root t)) -> In a (gps (m_root (fst (step t c)))).
Proof.
  intros Hs Hin. destruct c; try discriminate; try (rewrite step_tree_unchanged by reflexivity; exact Hin).
  cbn [step]. unfold step_misc. brk; cbn [fst m_root set_extra set_next_gp set_root]; try exact Hin.
  set (mo := Obj (fresh_dobj HWLOC_OBJ_MISC (m_next_gp t) None None None None (-1)%Z (-1)%Z) [] [] [] []).
  change (fun p : obj => match p with Obj d n m i x => Obj d n m i (x ++ [mo]) end) with (add_misc mo).
  apply (count_occ_In N.eq_dec).
  fold (cnt a (gps (map_gp parent (add_misc mo) (m_root t)))).
  rewrite (gps_map_gp_count parent (m_next_gp t) mo eq_refl a).
  apply (count_occ_In N.eq_dec) in Hin. unfold cnt. lia.
Qed.
