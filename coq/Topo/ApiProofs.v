(* C02: lemmas about Topo/Api.v and Topo/Insert.v *)
From Coq Require Import List NArith ZArith Bool String Lia.
From HV Require Import Base.BSet Gen.Tables Text.TypeOrder Topo.Dump Topo.WFCheck Topo.Obj Topo.Insert Topo.Api.
Import ListNotations.
Local Open Scope N_scope.
