(* C02: model of hwloc___insert_object_by_cpuset (hwloc/topology.c:1557-1665) on
   the inductive tree of Topo/Obj.v, with the helpers it calls:
   hwloc_obj_cmp_sets, hwloc_type_cmp, hwloc__object_cpusets_compare_first,
   hwloc__insert_try_merge_group, the put-back path.

   The C function walks the children list of CUR once, with three moving
   pointers: cur_children (the slot after the last child that stays), obj_children
   (the slot after the last child moved below OBJ) and putp (the slot where OBJ
   will be linked).  Here: [kept] (reversed list of the children that stay),
   [taken] (children moved below OBJ, in order) and [putp] (= number of kept
   children when the slot was recorded). *)
From Coq Require Import List NArith ZArith Bool.
From HV Require Import Base.BSet Gen.Tables Text.TypeOrder Topo.Dump Topo.WFCheck Topo.Obj.
Import ListNotations.
Local Open Scope N_scope.

(* ---------- comparisons ---------- *)

Inductive cmp := EQUAL | INCLUDED | CONTAINS | INTERSECTS | DIFFERENT.

(* hwloc_bitmap_compare_inclusion: both empty -> EQUAL, empty vs non-empty -> INCLUDED / CONTAINS *)
Definition cmp_incl (a b : bset) : cmp :=
  if bs_eqb a b then EQUAL
  else if bs_subset a b then INCLUDED
  else if bs_subset b a then CONTAINS
  else if bs_intersects a b then INTERSECTS
  else DIFFERENT.

(* hwloc_obj_cmp_sets: complete_cpuset when both have one, else cpuset; NULL or empty -> DIFFERENT *)
Definition cmp_sets (a b : dobj) : cmp :=
  let s12 := match o_ccs a, o_ccs b with
             | Some x, Some y => (Some x, Some y)
             | _, _ => (o_cs a, o_cs b)
             end in
  match s12 with
  | (Some x, Some y) => if bs_is_empty x || bs_is_empty y then DIFFERENT else cmp_incl x y
  | _ => DIFFERENT
  end.

(* hwloc_type_cmp *)
Definition type_cmp (a b : dobj) : cmp :=
  let c := compare_types (o_type a) (o_type b) in
  if (c =? HWLOC_TYPE_UNORDERED)%Z then DIFFERENT
  else if (0 <? c)%Z then INCLUDED
  else if (c <? 0)%Z then CONTAINS
  else if (o_type a =? HWLOC_OBJ_GROUP)
          && negb ((o_group_kind a =? o_group_kind b)%Z && (o_group_subkind a =? o_group_subkind b)%Z) then DIFFERENT
  else EQUAL.

(* hwloc_bitmap_compare_first(a, b) < 0 on finite sets: lowest index first, the empty set is the highest *)
Definition first_lt (a b : bset) : bool :=
  match bs_first a, bs_first b with
  | Some x, Some y => x <? y
  | Some _, None => true
  | None, _ => false
  end.

(* hwloc__object_cpusets_compare_first(a, b) < 0 *)
Definition obj_first_lt (a b : dobj) : bool :=
  match o_ccs a, o_ccs b with
  | Some x, Some y => first_lt x y
  | _, _ => match o_cs a, o_cs b with
            | Some x, Some y => first_lt x y
            | _, _ => false
            end
  end.

(* ---------- hwloc__insert_try_merge_group ---------- *)

Inductive merge_res :=
| MNone                      (* NULL: cannot merge *)
| MKeepOld                   (* returns old, new is dropped *)
| MReplace.                  (* hwloc_replace_linked_object(old, new), returns old (which now holds the contents of new) *)

Definition try_merge_group (old new : dobj) (dm_old dm_new : bool) : merge_res :=
  let gnew := o_type new =? HWLOC_OBJ_GROUP in
  let gold := o_type old =? HWLOC_OBJ_GROUP in
  if gnew && gold then
    if dm_new then (if dm_old then MNone else MReplace)
    else if dm_old then MKeepOld
    else if (o_group_kind new <? o_group_kind old)%Z then MReplace else MKeepOld
  else if gnew && negb dm_new then
    if (o_type old =? HWLOC_OBJ_PU) && (o_group_kind new =? Z.of_N HWLOC_GROUP_KIND_MEMORY)%Z then MNone else MKeepOld
  else if gold && negb dm_old then
    if (o_type new =? HWLOC_OBJ_PU) && (o_group_kind old =? Z.of_N HWLOC_GROUP_KIND_MEMORY)%Z then MNone else MReplace
  else MNone.

(* ---------- the put-back path (topology.c:1645-1664) ---------- *)

Fixpoint skip_lt (t : obj) (l : list obj) : list obj * list obj :=
  match l with
  | h :: tl => if obj_first_lt (odata h) (odata t) then let '(a, b) := skip_lt t tl in (h :: a, b) else ([], l)
  | [] => ([], [])
  end.

(* reinsert the [taken] children one by one; the scan position only moves forward *)
Fixpoint putback (l : list obj) (taken : list obj) : list obj :=
  match taken with
  | [] => l
  | t :: ts => let '(a, b) := skip_lt t l in a ++ putback (t :: b) ts
  end.

(* ---------- outcome ---------- *)

Inductive outcome :=
| OInserted                          (* returns obj *)
| OMergedKeep (into : option N)      (* returns an existing object (its gp_index); nothing linked *)
| OMergedEqual (into : option N)     (* same, after merge_insert_equal(obj, child) *)
| OReplaced                          (* contents of an existing Group replaced by those of OBJ; returns that (linked) object *)
| OFail.                             (* NULL after put-back *)

Definition gp_in (dms : list N) (d : dobj) : bool :=
  match o_gp d with Some g => existsb (N.eqb g) dms | None => false end.

Definition with_children (o : obj) (n : list obj) : obj :=
  match o with Obj d _ m i x => Obj d n m i x end.
Definition with_mchildren (o : obj) (m : list obj) : obj :=
  match o with Obj d n _ i x => Obj d n m i x end.

(* OBJ linked at slot [p] of the kept children *)
Definition link_at (kept_rev : list obj) (p : option nat) (o : obj) : list obj :=
  let K := rev kept_rev in
  match p with
  | Some k => firstn k K ++ o :: skipn k K
  | None => K ++ [o]
  end.

(* hwloc_replace_linked_object(old, new): the payload of new, the children of old *)
Definition replace_payload (old : obj) (d : dobj) : obj :=
  match old with Obj _ n m i x => Obj d n m i x end.

(* what the loop body decides for one child (topology.c:1577-1629) *)
Inductive verdict :=
| VMergeKeep                 (* try_merge_group kept the existing object: return it *)
| VMergeEqual                (* same type, same sets: merge_insert_equal, return the existing object *)
| VReplace                   (* existing Group overwritten with OBJ *)
| VRecurse                   (* OBJ strictly included in CHILD: go deeper *)
| VFail                      (* intersection without inclusion: put-back *)
| VDifferent                 (* disjoint: CHILD stays, maybe record putp *)
| VTake (memory_too : bool). (* OBJ contains CHILD: CHILD moves below OBJ *)

Definition verdict_of (dms : list N) (dm_new : bool) (o c : dobj) : verdict :=
  match cmp_sets o c with
  | EQUAL =>
      match try_merge_group c o (gp_in dms c) dm_new with
      | MKeepOld => VMergeKeep
      | MReplace => VReplace
      | MNone =>
          match type_cmp o c with
          | EQUAL => VMergeEqual
          | INCLUDED => VRecurse
          | INTERSECTS => VFail
          | DIFFERENT => VDifferent
          | CONTAINS => VTake true
          end
      end
  | INCLUDED => VRecurse
  | INTERSECTS => VFail
  | DIFFERENT => VDifferent
  | CONTAINS => VTake false
  end.

Definition next_putp (putp : option nat) (kept_rev : list obj) (o c : obj) : option nat :=
  match putp with
  | None => if obj_first_lt (odata o) (odata c) then Some (List.length kept_rev) else None
  | Some p => Some p
  end.

(* One pass over the children list of CUR = Obj d _ m i x.  [rec] is the recursive call on a child
   ("OBJ is strictly contained in some child of CUR, go deeper"). *)
Section Loop.
  Variable rec : obj -> obj -> obj * outcome.
  Variable dms : list N.
  Variable dm_new : bool.
  Variable d : dobj.
  Variables m i x : list obj.

  Fixpoint ins_loop (l : list obj) (kept_rev taken : list obj) (putp : option nat) (o : obj) {struct l} : obj * outcome :=
    match l with
    | [] =>
        (* end of the list: link OBJ (with the taken children) at putp, or last *)
        (Obj d (link_at kept_rev putp (with_children o taken)) m i x, OInserted)
    | c :: tl =>
        let stop (c' : obj) (r : outcome) := (Obj d (rev kept_rev ++ c' :: tl) m i x, r) in
        match verdict_of dms dm_new (odata o) (odata c) with
        | VMergeKeep => stop c (OMergedKeep (o_gp (odata c)))
        | VMergeEqual => stop c (OMergedEqual (o_gp (odata c)))
        | VReplace => stop (replace_payload c (odata o)) OReplaced
        | VRecurse => let '(c', r) := rec c o in stop c' r
        | VFail =>
            (* put-back: from putp if known, else from the start of CUR's list *)
            let full := rev kept_rev ++ c :: tl in
            let k := match putp with Some p => p | None => O end in
            (Obj d (firstn k full ++ putback (skipn k full) taken) m i x, OFail)
        | VDifferent => ins_loop tl (c :: kept_rev) taken (next_putp putp kept_rev o c) o
        | VTake false => ins_loop tl kept_rev (taken ++ [c]) putp o
        | VTake true =>
            (* equal sets: OBJ also steals CHILD's memory children (overwriting its own memory_first_child) *)
            ins_loop tl kept_rev (taken ++ [with_mchildren c []]) putp (with_mchildren o (omch c))
        end
    end.
End Loop.

(* The main routine.  [dms] = gp_index of the Groups that have dont_merge set;
   [dm_new] = dont_merge of OBJ.  Returns the new CUR and the outcome. *)
Fixpoint insert_by_cpuset (dms : list N) (dm_new : bool) (cur : obj) (o : obj) {struct cur} : obj * outcome :=
  match cur with
  | Obj d n m i x => ins_loop (insert_by_cpuset dms dm_new) dms dm_new d m i x n [] [] None o
  end.
