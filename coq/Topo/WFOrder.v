(* C01: Prop statement of the ORDERING clauses of well-formedness and soundness of the executable checker for them
   (Topo/WF.v covers sets/uniqueness/totals, Topo/WFLinks.v the pointers):
   - the normal children of every normal object are ordered by the first index of their complete cpuset, children
     with an empty complete cpuset coming after all the others;
   - the memory children of every object have non-empty complete nodesets with strictly increasing first indexes. *)
From Coq Require Import List NArith ZArith Bool Lia String.
From HV Require Import Base.BSet Gen.Tables Text.TypeOrder Topo.Dump Topo.WFCheck Topo.WF.
Import ListNotations.
Local Open Scope N_scope.

(* a before b: if b is not empty then a is not empty either and starts strictly earlier *)
Definition before_first (a b : bset) : Prop :=
  (0 <= first_Z b)%Z -> (0 <= first_Z a)%Z /\ (first_Z a < first_Z b)%Z.
Definition ChildrenOrdered (l : list bset) : Prop := ForallOrdPairs before_first l.
Definition MemChildrenOrdered (l : list bset) : Prop :=
  Forall (fun a => (0 <= first_Z a)%Z) l /\ ForallOrdPairs (fun a b => (first_Z a < first_Z b)%Z) l.

Lemma ordered_first_spec l : forall pf pe, ordered_first l pf pe = true ->
  (pe = true -> Forall (fun s => (first_Z s < 0)%Z) l) /\
  Forall (fun s => (0 <= first_Z s)%Z -> (pf < first_Z s)%Z) l /\
  ChildrenOrdered l.
Proof.
  induction l as [|s tl IH]; intros pf pe H; cbn [ordered_first] in H.
  - repeat split; constructor.
  - cbv zeta in H. destruct (0 <=? first_Z s)%Z eqn:Ef.
    + apply Z.leb_le in Ef.
      apply andb_true_iff in H as [H Ht]. apply andb_true_iff in H as [Hpe Hpf].
      apply negb_true_iff in Hpe. apply Z.ltb_lt in Hpf.
      destruct (IH _ _ Ht) as (_ & Hb & Hc).
      split; [intros E; rewrite E in Hpe; discriminate|]. split.
      * constructor; [intros _; exact Hpf|].
        eapply Forall_impl; [|exact Hb]. cbv beta. intros a Ha H0. specialize (Ha H0). lia.
      * constructor; [|exact Hc].
        eapply Forall_impl; [|exact Hb]. cbv beta. intros a Ha H0. split; [exact Ef|now apply Ha].
    + apply Z.leb_gt in Ef.
      destruct (IH _ _ H) as (Ha & _ & Hc). specialize (Ha eq_refl).
      split; [intros _; constructor; [exact Ef|exact Ha]|]. split.
      * constructor; [intros H0; lia|].
        eapply Forall_impl; [|exact Ha]. cbv beta. intros a Hlt H0. lia.
      * constructor; [|exact Hc].
        eapply Forall_impl; [|exact Ha]. cbv beta. intros a Hlt H0. lia.
Qed.

Lemma strictly_ordered_first_spec l : forall pf, strictly_ordered_first l pf = true ->
  Forall (fun s => (pf < first_Z s)%Z) l /\ ForallOrdPairs (fun a b => (first_Z a < first_Z b)%Z) l.
Proof.
  induction l as [|s tl IH]; intros pf H; cbn [strictly_ordered_first] in H.
  - split; constructor.
  - cbv zeta in H. apply andb_true_iff in H as [Hpf Ht]. apply Z.ltb_lt in Hpf.
    destruct (IH _ Ht) as (Hb & Hc). split.
    + constructor; [exact Hpf|]. eapply Forall_impl; [|exact Hb]. cbv beta. intros a Ha. lia.
    + constructor; [exact Hb|exact Hc].
Qed.

Record WFOrder (d : dump) : Prop := {
  wfo_children : forall o, In o (t_objs d) ->
      is_special (o_type o) = false -> is_memory (o_type o) = false -> o_type o <> HWLOC_OBJ_PU ->
      ChildrenOrdered (map (fun c => oset (o_ccs c)) (objs_of d (o_nch o)));
  wfo_memory_children : forall o, In o (t_objs d) -> is_special (o_type o) = false ->
      MemChildrenOrdered (map (fun c => oset (o_cnds c)) (objs_of d (o_mch o)))
}.

Section Sound.
Variable d : dump.
Hypothesis Hall : wf_check d = [].
Variable o : dobj.
Hypothesis Hin : In o (t_objs d).

Lemma sound_children_order :
  is_special (o_type o) = false -> is_memory (o_type o) = false -> o_type o <> HWLOC_OBJ_PU ->
  ChildrenOrdered (map (fun c => oset (o_ccs c)) (objs_of d (o_nch o))).
Proof.
  intros Hsp Hm Hpu. destruct (check_obj_nil d o Hin Hall) as (_ & Hs & _).
  assert (E1 : (o_type o =? HWLOC_OBJ_PU) = false) by now apply N.eqb_neq.
  unfold check_sets in Hs. rewrite Hsp, E1, Hm in Hs. brk.
  got "children-order"%string.
  match goal with H : ordered_first _ _ _ = true |- _ => apply ordered_first_spec in H; destruct H as (_ & _ & H); exact H end.
Qed.

Lemma sound_memory_children_order :
  is_special (o_type o) = false ->
  MemChildrenOrdered (map (fun c => oset (o_cnds c)) (objs_of d (o_mch o))).
Proof.
  intros Hsp. destruct (check_obj_nil d o Hin Hall) as (_ & Hs & _).
  unfold check_sets in Hs. rewrite Hsp in Hs. brk.
  got "memory-children-order"%string.
  match goal with H : strictly_ordered_first _ _ = true |- _ =>
    apply strictly_ordered_first_spec in H; destruct H as (Hb & Hc) end.
  split; [|exact Hc]. eapply Forall_impl; [|exact Hb]. cbv beta. intros a Ha. lia.
Qed.
End Sound.

Theorem wf_check_sound_order d : wf_check d = [] -> WFOrder d.
Proof.
  intros H. constructor.
  - intros o Hin. now apply sound_children_order.
  - intros o Hin. now apply sound_memory_children_order.
Qed.
