(* C01/C18: which objects the Linux backend asks the core to insert for the CPU side of the machine, and in
   which order (hwloc/topology-linux.c: look_sysfscpu), as a function of the CONTENTS of the sysfs files it
   reads (bytes), composed with the models of the two sysfs parsers (Text/LinuxParse.v, C18) and of
   atoi/strtoul (Base/Strto.v).  The harness prints the files' contents through the HWLOC_VERIF hook at the
   moment the backend starts reading; the requests are observed through the insertion hook. *)
From Coq Require Import List NArith ZArith Bool String.
From HV Require Import Base.BSet Base.Bytes Base.Strto Gen.Tables Text.TypeOrder Text.LinuxParse.
Import ListNotations.
Local Open Scope N_scope.

Definition file := option (list N).       (* None: cannot be opened; Some []: opened, nothing read *)

Record cache_files := mkCF {
  cf_map : file; cf_level : file; cf_type : file; cf_id : file; cf_size : file }.

Record cpu_files := mkCPU {
  c_n : N; c_topo : bool; c_on : file;
  c_core : file; c_cluster : file; c_die : file; c_pkg : file; c_book : file; c_drawer : file;
  c_core_id : file; c_cluster_id : file; c_die_id : file; c_pkg_id : file; c_book_id : file; c_drawer_id : file;
  c_caches : list cache_files }.

Record lview := mkView {
  v_old : bool; v_s390 : bool; v_amdcu : bool; v_knl : bool; v_caches : bool; v_dmcg : bool;
  v_online : file; v_cpus : list cpu_files }.

(* one insertion request *)
Record lreq := mkLReq { q_type : N; q_os : N; q_cs : bset; q_gkind : N; q_gsub : N; q_dm : bool; q_cdepth : N; q_ctype : N }.

Definition UINTMAX : N := 4294967295.
Definition to_unsigned (z : Z) : N := Z.to_N (z mod 4294967296)%Z.

(* ---------- readers ---------- *)

(* hwloc__alloc_read_path_as_cpumask *)
Definition read_mask (f : file) : option bset :=
  match f with
  | Some c => match cpumask_parse c with Parsed s => Some s | _ => None end
  | None => None
  end.
(* hwloc__alloc_read_path_as_cpulist *)
Definition read_list (f : file) : option bset :=
  match f with
  | Some c => match cpulist_parse c with Parsed s => Some s | _ => None end
  | None => None
  end.
(* hwloc_read_path_by_length(path, buf, len): at most len-1 bytes, failure when nothing was read *)
Definition read_len (f : file) (len : nat) : option (list N) :=
  match f with
  | Some [] => None
  | Some c => Some (firstn (len - 1) c)
  | None => None
  end.
(* hwloc_read_path_as_int: atoi of at most 10 bytes; as used: (unsigned) value, UINT_MAX when unreadable *)
Definition read_id (f : file) : option N :=
  match read_len f 11 with
  | Some c => match atoi (c ++ [0]) 0 with Ok z => Some (to_unsigned z) | Oob => None end
  | None => None
  end.
Definition id_or_unknown (f : file) : N := match read_id f with Some v => v | None => UINTMAX end.
(* hwloc_read_path_as_uint: (unsigned) strtoul(.., 10) *)
Definition read_uint (f : file) : option N :=
  match read_len f 11 with
  | Some c => match strtoul (c ++ [0]) 0 10 with Ok (v, _) => Some (v mod 4294967296) | Oob => None end
  | None => None
  end.

Fixpoint lprefix (p c : list N) : bool :=
  match p, c with
  | [], _ => true
  | x :: p', y :: c' => (x =? y) && lprefix p' c'
  | _ :: _, [] => false
  end.

(* cache/indexJ/type, read with a 20-byte buffer: "Data" / "Unified" / "Instruction", default unified *)
Definition read_ctype (f : file) : N :=
  match read_len f 20 with
  | Some c =>
      if lprefix (bytes_of_string "Data"%string) c then HWLOC_OBJ_CACHE_DATA
      else if lprefix (bytes_of_string "Unified"%string) c then HWLOC_OBJ_CACHE_UNIFIED
      else if lprefix (bytes_of_string "Instruction"%string) c then HWLOC_OBJ_CACHE_INSTRUCTION
      else HWLOC_OBJ_CACHE_UNIFIED
  | None => HWLOC_OBJ_CACHE_UNIFIED
  end.

(* hwloc_cache_type_by_depth_type *)
Definition cache_otype (depth ctype : N) : option N :=
  if ctype =? HWLOC_OBJ_CACHE_INSTRUCTION then
    if (1 <=? depth) && (depth <=? 3) then Some (LCPU_OBJ_L1ICACHE + depth - 1) else None
  else
    if (1 <=? depth) && (depth <=? 5) then Some (LCPU_OBJ_L1CACHE + depth - 1) else None.

(* ---------- sets ---------- *)

Definition first_is (s : bset) (i : N) : bool := match bs_first s with Some k => k =? i | None => false end.
Definition weight_is_1 (s : bset) : bool := match bs_weight s with Some 1 => true | _ => false end.
Definition weight_gt_1 (s : bset) : bool := match bs_weight s with Some w => 1 <? w | None => true end.
(* hwloc_bitmap_next(s, i) *)
Definition next_after (s : bset) (i : N) : option N := bs_first (bs_inter s (bs_from (i + 1))).

Definition find_cpu (v : lview) (n : N) : option cpu_files := find (fun c => c_n c =? n) (v_cpus v).

(* the set of cpus whose topology is read: online (global file, else the per-cpu file) and with a topology directory *)
Definition cpu_is_online (online : option bset) (c : cpu_files) : bool :=
  match online with
  | Some s => mem (c_n c) s
  | None =>
      (* char online[2]: one byte is read; offline iff atoi of it is 0 *)
      match read_len (c_on c) 2 with
      | Some [b] => negb ((b =? 48) || negb (isdigit b))
      | _ => true
      end
  end.
Definition interesting (v : lview) : bset :=
  let online := read_list (v_online v) in
  fold_left (fun acc c => if cpu_is_online online c && c_topo c then bs_add (c_n c) acc else acc) (v_cpus v) bs_empty.

Definition inter_opt (m : option bset) (cpuset : bset) : option bset :=
  match m with Some s => Some (bs_inter s cpuset) | None => None end.

Definition simple_req (ty os : N) (cs : bset) : lreq := mkLReq ty os cs 0 0 false 0 0.

(* ---------- one cpu ---------- *)

Section OneCpu.
  Variable keep : N -> bool.
  Variable v : lview.
  Variable cpuset : bset.

  (* the caches of cpu [i] *)
  Definition cache_reqs (c : cpu_files) : list lreq :=
    let i := c_n c in
    flat_map (fun cf =>
      match read_mask (cf_map cf) with
      | None => []
      | Some m0 =>
          (* ia64 returning empty L3 and L2i: use the core set instead *)
          let m1 := if bs_is_empty m0 then match read_mask (c_core c) with Some t => t | None => m0 end else m0 in
          let m := bs_inter m1 cpuset in
          if first_is m i then
            match read_uint (cf_level cf) with
            | None => []
            | Some depth =>
                let ctype := read_ctype (cf_type cf) in
                let id := match read_uint (cf_id cf) with Some x => x | None => LCPU_UNKNOWN_INDEX end in
                match cache_otype depth ctype with
                | None => []
                | Some otype =>
                    if negb (keep otype) then []
                    else
                      let kB := match read_uint (cf_size cf) with Some x => x | None => 0 end in
                      if (kB =? 0) && (otype =? LCPU_OBJ_L3CACHE) && v_knl v then []
                      else [mkLReq otype id m 0 0 false depth ctype]
                end
            end
          else []
      end) (c_caches c).

  (* core: requests, new threadwithcoreid, "not first of its core" *)
  Definition core_part (c : cpu_files) (twc : Z) : list lreq * Z * bool :=
    let i := c_n c in
    if keep HWLOC_OBJ_CORE then
      match inter_opt (read_mask (c_core c)) cpuset with
      | Some cs =>
          let '(twc, got) :=
            if weight_gt_1 cs && (twc =? -1)%Z then
              let myid := id_or_unknown (c_core_id c) in
              let sib := match bs_first cs with Some f => if f =? i then next_after cs i else Some f | None => None end in
              let sibid := match sib with
                           | Some sn => match find_cpu v sn with Some sc => id_or_unknown (c_core_id sc) | None => UINTMAX end
                           | None => UINTMAX     (* cannot happen: weight > 1 *)
                           end in
              ((if N.eqb sibid myid then 0%Z else 1%Z), Some myid)
            else (twc, None) in
          let nf := negb (first_is cs i) in
          if negb nf || negb (twc =? 0)%Z then
            let myid := match got with Some x => x | None => id_or_unknown (c_core_id c) end in
            ([simple_req HWLOC_OBJ_CORE myid (if negb (twc =? 0)%Z then bs_single i else cs)], twc, nf)
          else ([], twc, nf)
      | None => ([], twc, false)
      end
    else ([], twc, false).

  Definition cluster_part (c : cpu_files) (nfcore : bool) : option bset * bool :=
    let i := c_n c in
    if negb nfcore && keep HWLOC_OBJ_GROUP then
      match inter_opt (read_mask (c_cluster c)) cpuset with
      | Some cs => if weight_is_1 cs then (None, nfcore)
                   else if negb (first_is cs i) then (None, true)
                   else (Some cs, nfcore)
      | None => (None, nfcore)
      end
    else (None, nfcore).

  Definition die_part (c : cpu_files) (clusterset : option bset) (nfcluster : bool) : option bset * option bset * bool :=
    let i := c_n c in
    if negb nfcluster && keep HWLOC_OBJ_DIE then
      match inter_opt (read_mask (c_die c)) cpuset with
      | Some ds =>
          let '(dieset, nfdie) :=
            if weight_is_1 ds then (None, nfcluster)
            else if negb (first_is ds i) then (None, true)
            else (Some ds, nfcluster) in
          let clusterset := match clusterset, dieset with
                            | Some cl, Some d => if bs_eqb d cl then None else clusterset
                            | _, _ => clusterset
                            end in
          (dieset, clusterset, nfdie)
      | None => (None, clusterset, nfcluster)
      end
    else (None, clusterset, nfcluster).

  Definition pkg_part (c : cpu_files) (clusterset : option bset) (nfdie : bool) : list lreq * option bset :=
    let i := c_n c in
    if negb nfdie && keep HWLOC_OBJ_PACKAGE then
      match inter_opt (read_mask (c_pkg c)) cpuset with
      | Some ps =>
          let clusterset := match clusterset with Some cl => if bs_eqb ps cl then None else clusterset | None => None end in
          if first_is ps i then ([simple_req HWLOC_OBJ_PACKAGE (id_or_unknown (c_pkg_id c)) ps], clusterset)
          else ([], clusterset)
      | None => ([], clusterset)
      end
    else ([], clusterset).

  Definition s390_one (c : cpu_files) (m idf : file) (sub : N) : list lreq :=
    match inter_opt (read_mask m) cpuset with
    | Some bs => if first_is bs (c_n c) then
                   match read_id idf with
                   | Some id => [mkLReq HWLOC_OBJ_GROUP id bs LCPU_GROUP_KIND_S390_BOOK sub false 0 0]
                   | None => []
                   end
                 else []
    | None => []
    end.
  Definition s390_part (c : cpu_files) : list lreq :=
    if v_s390 v && keep HWLOC_OBJ_GROUP then
      s390_one c (c_book c) (c_book_id c) 0 ++
      (* the drawer is only looked at when the book file could be read *)
      match read_mask (c_book c) with Some _ => s390_one c (c_drawer c) (c_drawer_id c) 1 | None => [] end
    else [].

  (* the requests of one iteration of the main loop; [twc] = threadwithcoreid (-1 unknown, 0, 1) *)
  Definition one_cpu (c : cpu_files) (twc : Z) : list lreq * Z :=
    let i := c_n c in
    let '(core_rq, twc, nfcore) := core_part c twc in
    let '(clusterset, nfcluster) := cluster_part c nfcore in
    let '(dieset, clusterset, nfdie) := die_part c clusterset nfcluster in
    let '(pkg_rq, clusterset) := pkg_part c clusterset nfdie in
    let cluster_rq := match clusterset with
                      | Some cl => [mkLReq HWLOC_OBJ_GROUP (id_or_unknown (c_cluster_id c)) cl LCPU_GROUP_KIND_LINUX_CLUSTER 0 (v_dmcg v) 0 0]
                      | None => []
                      end in
    let die_rq := match dieset with Some d => [simple_req HWLOC_OBJ_DIE (id_or_unknown (c_die_id c)) d] | None => [] end in
    let pu_rq := [simple_req HWLOC_OBJ_PU i (bs_single i)] in
    let cache_rq := if v_caches v then cache_reqs c else [] in
    (core_rq ++ pkg_rq ++ cluster_rq ++ die_rq ++ s390_part c ++ pu_rq ++ cache_rq, twc).
End OneCpu.

(* ---------- look_sysfscpu ---------- *)

Fixpoint insert_sorted (c : cpu_files) (l : list cpu_files) : list cpu_files :=
  match l with
  | [] => [c]
  | x :: t => if c_n c <=? c_n x then c :: l else x :: insert_sorted c t
  end.
Definition sort_cpus (l : list cpu_files) : list cpu_files := fold_right insert_sorted [] l.

Definition linux_cpu_requests (keep : N -> bool) (v : lview) : list lreq :=
  let cpuset := interesting v in
  let cpus := filter (fun c => mem (c_n c) cpuset) (sort_cpus (v_cpus v)) in
  fst (fold_left (fun '(acc, twc) c => let '(rs, twc') := one_cpu keep v cpuset c twc in (acc ++ rs, twc'))
                 cpus ([], if v_amdcu v then (-1)%Z else 0%Z)).

(* ---------- correspondence ---------- *)

Definition opt_bs_eqb (a b : option bset) : bool :=
  match a, b with Some x, Some y => bs_eqb x y | None, None => true | _, _ => false end.

(* observed: type, os_index, cpuset, (group kind, subkind), (cache depth, cache type) *)
Definition obs := (N * N * option bset * (Z * Z) * (Z * Z))%type.

Definition lreq_matches (m : lreq) (o : obs) : bool :=
  let '(ty, os, cs, (gk, gs), (cd, ct)) := o in
  (q_type m =? ty) && (q_os m =? os) && opt_bs_eqb (Some (q_cs m)) cs &&
  (if ty =? HWLOC_OBJ_GROUP then (Z.of_N (q_gkind m) =? gk)%Z && (Z.of_N (q_gsub m) =? gs)%Z else true) &&
  (if is_cache ty then (Z.of_N (q_cdepth m) =? cd)%Z && (Z.of_N (q_ctype m) =? ct)%Z else true).

Fixpoint prefix_matches (ms : list lreq) (os : list obs) : bool :=
  match ms, os with
  | [], _ => true
  | m :: ms', o :: os' => lreq_matches m o && prefix_matches ms' os'
  | _ :: _, [] => false
  end.

(* the requests of look_sysfscpu are one contiguous block of the observed root-level insertions *)
Fixpoint is_infix (ms : list lreq) (os : list obs) : bool :=
  prefix_matches ms os || match os with [] => false | _ :: os' => is_infix ms os' end.

(* position of the first mismatch when the block is aligned on the first observed PU/Core request (diagnostics) *)
Definition linux_cpu_agrees (filters : list N) (v : lview) (observed : list obs) : bool * nat :=
  let keep := fun ty => negb (nthN filters ty HWLOC_TYPE_FILTER_KEEP_ALL =? HWLOC_TYPE_FILTER_KEEP_NONE) in
  let ms := linux_cpu_requests keep v in
  (is_infix ms observed, List.length ms).
