(* The flat dump of a topology: what the C side observes through the public
   object fields and per-depth accessors (harness/hwv_dump.h prints it, the
   model side computes it).  Pointers are dump-local ids. *)
From Coq Require Import List NArith ZArith Bool.
From HV Require Import Base.BSet.
Import ListNotations.

Inductive ptr := PNull | PId (i : N) | PBad.

Definition ptr_eqb (a b : ptr) : bool :=
  match a, b with
  | PNull, PNull => true
  | PId i, PId j => N.eqb i j
  | _, _ => false   (* PBad equals nothing, not even itself *)
  end.

Record dobj := mkDobj {
  o_id : N; o_type : N; o_depth : Z; o_os : N; o_gp : option N;
  o_parent : ptr; o_first : ptr; o_last : ptr;
  o_prev_sib : ptr; o_next_sib : ptr; o_prev_cousin : ptr; o_next_cousin : ptr;
  o_arity : N; o_marity : N; o_iarity : N; o_xarity : N; o_rank : N; o_lidx : N;
  o_carray : option (list ptr);           (* children[] ; None = NULL pointer *)
  o_nch : list ptr; o_mch : list ptr; o_ich : list ptr; o_xch : list ptr;   (* first -> next_sibling chains *)
  o_cs : option bset; o_ccs : option bset; o_nds : option bset; o_cnds : option bset;
  o_tm : N; o_lm : N;
  o_cache_depth : Z; o_cache_type : Z;    (* -1 when the object has no such attribute *)
  o_group_depth : Z; o_group_kind : Z; o_group_subkind : Z;
  o_pci_class : Z; o_os_types : Z
}.

Record level := mkLevel { l_depth : Z; l_type : Z; l_width : N; l_ids : list ptr; l_probe : ptr }.

Record dump := mkDump {
  t_flags : N; t_depth : Z; t_nobj : N; t_filters : list N;
  t_acpu : option bset; t_anode : option bset;
  t_levels : list level;
  t_tdepths : list Z;        (* hwloc_get_type_depth for every type, in type order *)
  t_objs : list dobj
}.

Definition get (d : dump) (i : N) : option dobj := nth_error (t_objs d) (N.to_nat i).
Definition deref (d : dump) (p : ptr) : option dobj :=
  match p with PId i => get d i | _ => None end.
