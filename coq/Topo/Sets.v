(* Model of the set post-processing of hwloc_discover() (hwloc/topology.c):
   root fix-up, propagate_nodeset, fixup_sets, remove_unused_sets, and
   propagate_total_memory, on the tree model.  Statement order follows the C
   code; a NULL set is None. *)
From Coq Require Import List NArith ZArith Bool.
From HV Require Import Base.BSet Gen.Tables Text.TypeOrder Topo.Dump Topo.Obj.
Import ListNotations.
Local Open Scope N_scope.

Definition set_sets (d : dobj) (v_o_cs : _) (v_o_ccs : _) (v_o_nds : _) (v_o_cnds : _) : dobj :=
  mkDobj (o_id d) (o_type d) (o_depth d) (o_os d) (o_gp d) (o_parent d) (o_first d) (o_last d) (o_prev_sib d) (o_next_sib d) (o_prev_cousin d) (o_next_cousin d) (o_arity d) (o_marity d) (o_iarity d) (o_xarity d) (o_rank d) (o_lidx d) (o_carray d) (o_nch d) (o_mch d) (o_ich d) (o_xch d) v_o_cs v_o_ccs v_o_nds v_o_cnds (o_tm d) (o_lm d) (o_cache_depth d) (o_cache_type d) (o_group_depth d) (o_group_kind d) (o_group_subkind d) (o_pci_class d) (o_os_types d).
Definition set_nodesets (d : dobj) (v_o_nds : _) (v_o_cnds : _) : dobj :=
  mkDobj (o_id d) (o_type d) (o_depth d) (o_os d) (o_gp d) (o_parent d) (o_first d) (o_last d) (o_prev_sib d) (o_next_sib d) (o_prev_cousin d) (o_next_cousin d) (o_arity d) (o_marity d) (o_iarity d) (o_xarity d) (o_rank d) (o_lidx d) (o_carray d) (o_nch d) (o_mch d) (o_ich d) (o_xch d) (o_cs d) (o_ccs d) v_o_nds v_o_cnds (o_tm d) (o_lm d) (o_cache_depth d) (o_cache_type d) (o_group_depth d) (o_group_kind d) (o_group_subkind d) (o_pci_class d) (o_os_types d).
Definition set_tm (d : dobj) (v_o_tm : _) : dobj :=
  mkDobj (o_id d) (o_type d) (o_depth d) (o_os d) (o_gp d) (o_parent d) (o_first d) (o_last d) (o_prev_sib d) (o_next_sib d) (o_prev_cousin d) (o_next_cousin d) (o_arity d) (o_marity d) (o_iarity d) (o_xarity d) (o_rank d) (o_lidx d) (o_carray d) (o_nch d) (o_mch d) (o_ich d) (o_xch d) (o_cs d) (o_ccs d) (o_nds d) (o_cnds d) v_o_tm (o_lm d) (o_cache_depth d) (o_cache_type d) (o_group_depth d) (o_group_kind d) (o_group_subkind d) (o_pci_class d) (o_os_types d).

Definition oset (o : option bset) : bset := match o with Some s => s | None => bs_empty end.
Definition onds (o : obj) : bset := oset (o_nds (odata o)).
Definition ocnds (o : obj) : bset := oset (o_cnds (odata o)).
Definition ocs (o : obj) : bset := oset (o_cs (odata o)).
Definition occs (o : obj) : bset := oset (o_ccs (odata o)).

Definition union_of (f : obj -> bset) (l : list obj) (acc : bset) : bset :=
  fold_left (fun a c => bs_union a (f c)) l acc.

(* propagate_nodeset(obj); [pn] is the parent's nodeset at the time of the call
   (empty for the root) *)
Fixpoint propagate_nodeset (pn : bset) (o : obj) : obj :=
  match o with
  | Obj d n m i x =>
      let nds0 := pn in
      let cnds0 := match o_cnds d with None => nds0 | Some c => bs_union c nds0 end in
      (* add the local (memory children) nodesets *)
      let nds1 := union_of onds m nds0 in
      let cnds1 := union_of ocnds m cnds0 in
      (* propagate down to the normal children, then their nodesets back up *)
      let n' := map (propagate_nodeset nds1) n in
      let nds2 := union_of onds n' nds1 in
      let cnds2 := union_of ocnds n' cnds1 in
      Obj (set_nodesets d (Some nds2) (Some cnds2)) n' m i x
  end.

(* fixup_sets: the sets of [o] computed from its parent's final sets, then its
   children.  [mem] tells whether o is in a memory children list *)
Fixpoint fixup_child (pcs pccs pnds pcnds : bset) (o : obj) : obj :=
  match o with
  | Obj d n m i x =>
      let cs := bs_inter (oset (o_cs d)) pcs in
      let nds := bs_inter (oset (o_nds d)) pnds in
      let ccs := match o_ccs d with Some c => bs_inter c pccs | None => cs end in
      let cnds := match o_cnds d with Some c => bs_inter c pcnds | None => nds end in
      let cs' := if is_memory (o_type d) then pcs else cs in
      let ccs' := if is_memory (o_type d) then pccs else ccs in
      Obj (set_sets d (Some cs') (Some ccs') (Some nds) (Some cnds))
          (map (fixup_child cs' ccs' nds cnds) n) (map (fixup_child cs' ccs' nds cnds) m) i x
  end.

Definition fixup_sets (root : obj) : obj :=
  match root with
  | Obj d n m i x =>
      Obj d (map (fixup_child (oset (o_cs d)) (oset (o_ccs d)) (oset (o_nds d)) (oset (o_cnds d))) n)
            (map (fixup_child (oset (o_cs d)) (oset (o_ccs d)) (oset (o_nds d)) (oset (o_cnds d))) m) i x
  end.

Fixpoint remove_unused_sets (acpu anode : bset) (o : obj) : obj :=
  match o with
  | Obj d n m i x =>
      Obj (set_sets d (Some (bs_inter (oset (o_cs d)) acpu)) (o_ccs d) (Some (bs_inter (oset (o_nds d)) anode)) (o_cnds d))
          (map (remove_unused_sets acpu anode) n) (map (remove_unused_sets acpu anode) m) i x
  end.

(* the part of hwloc_discover between the two phase boundaries 1 and 2:
   returns the new tree and the new allowed sets *)
Definition sets_pipeline (include_disallowed : bool) (acpu anode : bset) (root : obj) : obj * bset * bset :=
  match root with
  | Obj d n m i x =>
      (* fixup root sets *)
      let rcs := bs_inter (oset (o_cs d)) (oset (o_ccs d)) in
      let rnds := bs_inter (oset (o_nds d)) (oset (o_cnds d)) in
      let acpu' := bs_inter acpu rcs in
      let anode' := bs_inter anode rnds in
      let r1 := Obj (set_sets d (Some rcs) (o_ccs d) (Some rnds) (o_cnds d)) n m i x in
      let r2 := fixup_sets (propagate_nodeset bs_empty r1) in
      let r3 := if include_disallowed then r2 else remove_unused_sets acpu' anode' r2 in
      (r3, acpu', anode')
  end.

(* propagate_total_memory *)
Fixpoint propagate_total_memory (o : obj) : obj :=
  match o with
  | Obj d n m i x =>
      let n' := map propagate_total_memory n in
      let m' := map propagate_total_memory m in
      let tot := fold_left (fun a c => a + o_tm (odata c)) m' (fold_left (fun a c => a + o_tm (odata c)) n' 0) in
      let tot' := if o_type d =? HWLOC_OBJ_NUMANODE then tot + o_lm d else tot in
      Obj (set_tm d tot') n' m' i x
  end.

(* ---------- correspondence helpers: compare a model tree with a dump, object by object (DFS order) ---------- *)

Definition opt_bset_eqb (a b : option bset) : bool :=
  match a, b with Some x, Some y => bs_eqb x y | None, None => true | _, _ => false end.

Fixpoint sets_diff (l : list obj) (ds : list dobj) : list N :=
  match l, ds with
  | o :: l', d :: ds' =>
      (if opt_bset_eqb (o_cs (odata o)) (o_cs d) && opt_bset_eqb (o_ccs (odata o)) (o_ccs d) &&
          opt_bset_eqb (o_nds (odata o)) (o_nds d) && opt_bset_eqb (o_cnds (odata o)) (o_cnds d)
       then [] else [o_id d]) ++ sets_diff l' ds'
  | [], [] => []
  | _, _ => [0]
  end.

Fixpoint tm_diff (l : list obj) (ds : list dobj) : list N :=
  match l, ds with
  | o :: l', d :: ds' => (if o_tm (odata o) =? o_tm d then [] else [o_id d]) ++ tm_diff l' ds'
  | [], [] => []
  | _, _ => [0]
  end.

(* phase 1 dump, phase 2 dump -> ids whose sets differ from the model's prediction *)
Definition sets_pipeline_diff (d1 d2 : dump) : option (list N) :=
  match tree_of_dump d1 with
  | Some root =>
      let incl := negb (N.land (t_flags d1) HWLOC_TOPOLOGY_FLAG_INCLUDE_DISALLOWED =? 0) in
      let '(r, acpu, anode) := sets_pipeline incl (oset (t_acpu d1)) (oset (t_anode d1)) root in
      Some (sets_diff (flatten r) (t_objs d2) ++
            (if opt_bset_eqb (Some acpu) (t_acpu d2) && opt_bset_eqb (Some anode) (t_anode d2) then [] else [999999]))
  | None => None
  end.

(* phase 5 dump, final dump -> ids whose total_memory differs from the model's *)
Definition total_memory_diff (d5 dfinal : dump) : option (list N) :=
  match tree_of_dump d5 with
  | Some root => Some (tm_diff (flatten (propagate_total_memory root)) (t_objs dfinal))
  | None => None
  end.
