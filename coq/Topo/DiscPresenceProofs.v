(* C01: what hwloc___insert_object_by_cpuset keeps DURING DISCOVERY, second part (first part: the sibling order,
   Topo/DiscInsertProofs.v).  Nothing is invented, nothing is lost except a mergeable Group that gives way to an
   object with the same cpuset, and OBJ's cpuset is the cpuset of some object of the tree afterwards; in an
   ordered tree two objects that share a cpu are on one branch.  Together: once every cpu of every requested
   cpuset has been requested as a singleton (the PUs), the children of every object cover its cpuset - the
   "cpuset is the disjoint union of the children's cpusets" clause of the property, obtained for every sequence
   of insertions and not only for the loaded topologies a run observes. *)
From Coq Require Import List NArith ZArith Bool Lia Permutation Sorted.
From HV Require Import Base.BSet Gen.Tables Text.TypeOrder Topo.Dump Topo.WFCheck Topo.Obj Topo.Insert Topo.Api Topo.ApiProofs Topo.InsertProofs Topo.DiscInsertProofs.
Import ListNotations.
Local Open Scope N_scope.

(* ---------- payloads of the normal objects of a tree ---------- *)

Definition npay (o : obj) : list dobj := map odata (nflatten o).
Definition npays (l : list obj) : list dobj := flat_map npay l.

Lemma npays_nflattens l : map odata (nflattens l) = npays l.
Proof.
  unfold nflattens, npays. induction l as [|c tl IH]; cbn [flat_map map]; [reflexivity|].
  rewrite map_app, IH. reflexivity.
Qed.
Lemma npay_eq d n m i x : npay (Obj d n m i x) = d :: npays n.
Proof. unfold npay. rewrite nflatten_eq. cbn [map odata onch]. now rewrite npays_nflattens. Qed.
Lemma npays_app a b : npays (a ++ b) = npays a ++ npays b.
Proof. apply flat_map_app. Qed.
Lemma npays_cons c l : npays (c :: l) = npay c ++ npays l.
Proof. reflexivity. Qed.
Lemma npay_with_mchildren c mm : npay (with_mchildren c mm) = npay c.
Proof. destruct c as [d n m i x]. cbn [with_mchildren]. now rewrite !npay_eq. Qed.
Lemma npay_with_children o taken : npay (with_children o taken) = odata o :: npays taken.
Proof. destruct o as [d n m i x]. cbn [with_children odata]. now rewrite npay_eq. Qed.
Lemma npay_replace c d : npay (replace_payload c d) = d :: npays (onch c).
Proof. destruct c as [dc n m i x]. cbn [replace_payload onch]. now rewrite npay_eq. Qed.
Lemma npay_self c : npay c = odata c :: npays (onch c).
Proof. destruct c as [dc n m i x]. cbn [odata onch]. apply npay_eq. Qed.
Lemma in_npays_perm l1 l2 y : Permutation l1 l2 -> In y (npays l1) -> In y (npays l2).
Proof. intros H. apply Permutation_in. unfold npays. now apply Permutation_flat_map. Qed.

(* ---------- one level, OBJ linked here ---------- *)

Section LevelPay.
  Variable rec : obj -> obj -> obj * outcome.
  Variable dms : list N.
  Variable dm_new : bool.
  Variable d : dobj.
  Variables m i x : list obj.
  Variable od : dobj.

  Lemma ins_loop_level_pay : forall l kept_rev taken putp o,
    odata o = od -> Forall (flat2 dms dm_new od) l ->
    exists n', ins_loop rec dms dm_new d m i x l kept_rev taken putp o = (Obj d n' m i x, OInserted) /\
      forall y, In y (npays n') <-> y = od \/ In y (npays (rev kept_rev)) \/ In y (npays taken) \/ In y (npays l).
  Proof.
    induction l as [|c tl IH]; intros kept_rev taken putp o Ho Hall.
    - cbn [ins_loop]. eexists. split; [reflexivity|]. intros y.
      assert (P1 : Permutation (link_at kept_rev putp (with_children o taken)) (with_children o taken :: rev kept_rev)) by apply link_at_perm.
      split.
      + intros H. apply (in_npays_perm _ _ y P1) in H. rewrite npays_cons, in_app_iff, npay_with_children, Ho in H.
        cbn [In] in H. cbn [npays flat_map In]. intuition.
      + intros H. apply (in_npays_perm _ _ y (Permutation_sym P1)). rewrite npays_cons, in_app_iff, npay_with_children, Ho.
        cbn [In]. cbn [npays flat_map In] in H. intuition.
    - inversion Hall as [|c0 tl0 Hc Htl]; subst c0 tl0. cbn [ins_loop].
      unfold flat2, vd in Hc. rewrite Ho.
      destruct (verdict_of dms dm_new od (odata c)) as [| | | | | |mt] eqn:V; try contradiction.
      + destruct (IH (c :: kept_rev) taken (next_putp putp kept_rev o c) o Ho Htl) as (n' & E & Hy).
        exists n'. split; [exact E|]. intros y. rewrite Hy. cbn [rev]. rewrite npays_app, npays_cons, !in_app_iff.
        cbn [npays flat_map In]. rewrite in_app_iff. cbn [In]. tauto.
      + destruct mt.
        * destruct (IH kept_rev (taken ++ [with_mchildren c []]) putp (with_mchildren o (omch c))
                     ltac:(rewrite odata_with_mchildren; exact Ho) Htl) as (n' & E & Hy).
          exists n'. split; [exact E|]. intros y. rewrite Hy. rewrite npays_app, npays_cons, !in_app_iff, npay_with_mchildren.
          cbn [npays flat_map In]. rewrite in_app_iff. cbn [In]. tauto.
        * destruct (IH kept_rev (taken ++ [c]) putp o Ho Htl) as (n' & E & Hy).
          exists n'. split; [exact E|]. intros y. rewrite Hy. rewrite npays_app, npays_cons, !in_app_iff.
          cbn [npays flat_map In]. rewrite in_app_iff. cbn [In]. tauto.
  Qed.
End LevelPay.

(* ---------- the three facts, for one call ---------- *)

Definition has_key (t : obj) (k : bset) : Prop := exists y, In y (npay t) /\ dcs y = k.

Record objects_kept (od : dobj) (out : outcome) (cur cur' : obj) : Prop := mkKept {
  ok_new : forall y, In y (npay cur') -> y = od \/ In y (npay cur);                       (* nothing invented *)
  ok_old : forall y, In y (npay cur) -> In y (npay cur') \/ (out = OReplaced /\ dcs y = dcs od);  (* nothing lost, but a Group replaced by OBJ *)
  ok_key : has_key cur' (dcs od);                                                          (* OBJ's cpuset is there *)
  ok_ins : out = OInserted -> In od (npay cur')
}.

(* the same four facts about the children lists (the payload of the node itself is not touched by the call) *)
Record kids_kept (od : dobj) (out : outcome) (n n' : list obj) : Prop := mkKids {
  kk_new : forall y, In y (npays n') -> y = od \/ In y (npays n);
  kk_old : forall y, In y (npays n) -> In y (npays n') \/ (out = OReplaced /\ dcs y = dcs od);
  kk_key : exists y, In y (npays n') /\ dcs y = dcs od;
  kk_ins : out = OInserted -> In od (npays n')
}.

Lemma kids_to_objects od out d n n' m i x : kids_kept od out n n' -> objects_kept od out (Obj d n m i x) (Obj d n' m i x).
Proof.
  intros [K1 K2 K3 K4]. constructor.
  - intros y. rewrite !npay_eq. cbn [In]. intros [H|H]; [right; left; exact H|]. destruct (K1 y H); tauto.
  - intros y. rewrite !npay_eq. cbn [In]. intros [H|H]; [left; left; exact H|]. destruct (K2 y H); tauto.
  - destruct K3 as (y & Hy & Ky). exists y. split; [rewrite npay_eq; right; exact Hy|exact Ky].
  - intros Hi. rewrite npay_eq. right. apply K4, Hi.
Qed.

Section NodePay.
  Variable rec : obj -> obj -> obj * outcome.
  Variable dms : list N.
  Variable dm_new : bool.
  Variable d : dobj.
  Variables m i x : list obj.
  Variable od : dobj.
  Hypothesis Hod : wfk od.
  Hypothesis Hne : nonempty (dcs od).

  Definition rec_kept (c : obj) : Prop :=
    forall o c' out, odata o = od -> sub (dcs od) (okey c) -> rec c o = (c', out) -> out <> OFail -> objects_kept od out c c'.

  Lemma node_keeps_kids n o r out :
    odata o = od ->
    ForallOrdPairs disj (map okey n) -> Forall tree_ord n -> Forall (no_sibling_defect dms dm_new od) n -> Forall rec_kept n ->
    ins_loop rec dms dm_new d m i x n [] [] None o = (r, out) -> out <> OFail ->
    exists n', r = Obj d n' m i x /\ kids_kept od out n n'.
  Proof.
    intros Ho Hdisj Hch Hnsd Hrec E Hout.
    assert (Hall : Forall (fun c => wfk (odata c) /\ no_sibling_defect dms dm_new od c) n).
    { rewrite Forall_forall in *. intros c Hc. split; [apply tree_ord_wfk, Hch, Hc|apply Hnsd, Hc]. }
    destruct (ins_loop_outcomes rec dms dm_new d m i x od Hod n [] None o r out Ho Hne Hall Hdisj E Hout)
      as [[-> Hclean]|(pre & c & post & c' & -> & -> & Hcase)].
    - assert (Hflat : Forall (flat2 dms dm_new od) n).
      { eapply Forall_impl; [|exact Hclean]. intros c Hc. unfold clean_child in Hc. unfold flat2.
        destruct (vd dms dm_new od c); try contradiction; exact I. }
      destruct (ins_loop_level_pay rec dms dm_new d m i x od n [] [] None o Ho Hflat) as (n' & E1 & Hy).
      rewrite E in E1. injection E1 as ->.
      assert (Hy' : forall y, In y (npays n') <-> y = od \/ In y (npays n)).
      { intros y. rewrite Hy. cbn [rev npays flat_map In]. tauto. }
      exists n'. split; [reflexivity|]. constructor.
      + intros y. rewrite Hy'. tauto.
      + intros y. rewrite Hy'. tauto.
      + exists od. split; [|reflexivity]. apply Hy'. left; reflexivity.
      + intros _. apply Hy'. left; reflexivity.
    - cbn [rev app].
      assert (Hcin : In c (pre ++ c :: post)) by (apply in_or_app; right; left; reflexivity).
      assert (Hwc : wfk (odata c)) by (rewrite Forall_forall in Hch; apply tree_ord_wfk, Hch, Hcin).
      assert (G : objects_kept od out c c').
      { destruct Hcase as [[V R]|[[-> [Hv Hni]]|[-> [V ->]]]].
        - assert (Hsubc : sub (dcs od) (okey c)) by (eapply recurse_sub; eassumption).
          rewrite Forall_forall in Hrec. apply (Hrec c Hcin o c' out Ho Hsubc R Hout).
        - assert (Ek : dcs od = okey c) by (apply (equal_key dms dm_new od Hod c Hwc); tauto).
          constructor.
          + intros y Hy. right; exact Hy.
          + intros y Hy. left; exact Hy.
          + exists (odata c). split; [rewrite npay_self; left; reflexivity|symmetry; exact Ek].
          + intros Hi. exfalso. exact (Hni Hi).
        - pose proof (equal_key dms dm_new od Hod c Hwc (or_intror (or_intror V))) as Ek.
          constructor.
          + intros y. rewrite npay_replace, npay_self. cbn [In]. intros [<-|H]; [left; reflexivity|right; right; exact H].
          + intros y. rewrite npay_replace, npay_self. cbn [In]. intros [<-|H]; [right; split; [reflexivity|symmetry; exact Ek]|left; right; exact H].
          + exists od. split; [rewrite npay_replace; left; reflexivity|reflexivity].
          + discriminate. }
      destruct G as [G1 G2 G3 G4]. exists (pre ++ c' :: post). split; [reflexivity|]. constructor.
      + intros y. rewrite !npays_app, !npays_cons, !in_app_iff. intros [H|[H|H]]; try tauto.
        destruct (G1 y H); tauto.
      + intros y. rewrite !npays_app, !npays_cons, !in_app_iff. intros [H|[H|H]]; try tauto.
        destruct (G2 y H); tauto.
      + destruct G3 as (y & Hy & Ky). exists y. split; [|exact Ky].
        rewrite npays_app, npays_cons, !in_app_iff. tauto.
      + intros Hi. rewrite npays_app, npays_cons, !in_app_iff. right; left. apply G4, Hi.
  Qed.

  Lemma node_keeps_objects n o r out :
    odata o = od ->
    ForallOrdPairs disj (map okey n) -> Forall tree_ord n -> Forall (no_sibling_defect dms dm_new od) n -> Forall rec_kept n ->
    ins_loop rec dms dm_new d m i x n [] [] None o = (r, out) -> out <> OFail ->
    objects_kept od out (Obj d n m i x) r.
  Proof.
    intros Ho Hdisj Hch Hnsd Hrec E Hout.
    destruct (node_keeps_kids n o r out Ho Hdisj Hch Hnsd Hrec E Hout) as (n' & -> & K). apply kids_to_objects, K.
  Qed.
End NodePay.

(* ---------- the whole recursive insertion ---------- *)

Theorem insert_keeps_objects dms dm_new od (Hod : wfk od) (Hne : nonempty (dcs od)) : forall cur,
  tree_ord cur -> defect_free dms dm_new od cur ->
  forall o cur' out, odata o = od -> sub (dcs od) (okey cur) ->
  insert_by_cpuset dms dm_new cur o = (cur', out) -> out <> OFail ->
  objects_kept od out cur cur'.
Proof.
  induction cur as [d n m i x IHn _ _ _] using obj_ind4.
  intros Hok Hdf o cur' out Ho Hsub E Hout.
  inversion Hok as [d0 n0 m0 i0 x0 Hwd Hlvl Hch]; subst d0 n0 m0 i0 x0.
  cbn [insert_by_cpuset] in E.
  assert (Hrec : Forall (rec_kept (insert_by_cpuset dms dm_new) od) n).
  { rewrite Forall_forall in *. intros c Hc o1 c1 out1 Ho1 Hs1 E1 Hout1.
    apply (IHn c Hc (Hch c Hc) (defect_free_child _ _ _ _ _ _ _ _ c Hdf Hc) o1 c1 out1 Ho1 Hs1 E1 Hout1). }
  apply (node_keeps_objects (insert_by_cpuset dms dm_new) dms dm_new d m i x od Hod Hne n o cur' out Ho
           (ld_disj _ _ Hlvl) Hch (defect_free_children _ _ _ _ _ _ _ _ Hdf) Hrec E Hout).
Qed.

Theorem insert_root_keeps_objects dms dm_new root o root' out :
  disc_ord root -> disc_hyp dms dm_new root o ->
  insert_by_cpuset dms dm_new root o = (root', out) -> out <> OFail ->
  objects_kept (odata o) out root root'.
Proof.
  destruct root as [d n m i x]. intros [Hlvl Hch] (Hod & Hne & Hdf) E Hout. cbn [onch] in *.
  cbn [insert_by_cpuset] in E.
  assert (Hrec : Forall (rec_kept (insert_by_cpuset dms dm_new) (odata o)) n).
  { rewrite Forall_forall in *. intros c Hc o1 c1 out1 Ho1 Hs1 E1 Hout1.
    apply (insert_keeps_objects dms dm_new (odata o) Hod Hne c (Hch c Hc) (Hdf c Hc) o1 c1 out1 Ho1 Hs1 E1 Hout1). }
  assert (Hnsd : Forall (no_sibling_defect dms dm_new (odata o)) n).
  { rewrite Forall_forall in *. intros c Hc. specialize (Hdf c Hc). unfold defect_free in Hdf. rewrite nflatten_eq in Hdf.
    inversion Hdf; assumption. }
  apply (node_keeps_objects (insert_by_cpuset dms dm_new) dms dm_new d m i x (odata o) Hod Hne n o root' out eq_refl
           (ld_disj _ _ Hlvl) Hch Hnsd Hrec E Hout).
Qed.

Theorem insert_root_keeps_kids dms dm_new root o root' out :
  disc_ord root -> disc_hyp dms dm_new root o ->
  insert_by_cpuset dms dm_new root o = (root', out) -> out <> OFail ->
  kids_kept (odata o) out (onch root) (onch root').
Proof.
  destruct root as [d n m i x]. intros [Hlvl Hch] (Hod & Hne & Hdf) E Hout. cbn [onch] in *.
  cbn [insert_by_cpuset] in E.
  assert (Hrec : Forall (rec_kept (insert_by_cpuset dms dm_new) (odata o)) n).
  { rewrite Forall_forall in *. intros c Hc o1 c1 out1 Ho1 Hs1 E1 Hout1.
    apply (insert_keeps_objects dms dm_new (odata o) Hod Hne c (Hch c Hc) (Hdf c Hc) o1 c1 out1 Ho1 Hs1 E1 Hout1). }
  assert (Hnsd : Forall (no_sibling_defect dms dm_new (odata o)) n).
  { rewrite Forall_forall in *. intros c Hc. specialize (Hdf c Hc). unfold defect_free in Hdf. rewrite nflatten_eq in Hdf.
    inversion Hdf; assumption. }
  destruct (node_keeps_kids (insert_by_cpuset dms dm_new) dms dm_new d m i x (odata o) Hod Hne n o root' out eq_refl
              (ld_disj _ _ Hlvl) Hch Hnsd Hrec E Hout) as (n' & -> & K). exact K.
Qed.

(* cpusets never disappear from the tree *)
Lemma kept_has_key od out cur cur' k : objects_kept od out cur cur' -> has_key cur k -> has_key cur' k.
Proof.
  intros [_ H2 H3 _] (y & Hy & Ky). destruct (H2 y Hy) as [H|[_ H]].
  - exists y. split; assumption.
  - rewrite <- Ky, H. exact H3.
Qed.

(* ---------- a whole discovery ---------- *)

Definition step_obj (s : dstep) : obj := snd s.

Theorem discovery_keeps_objects root steps root' :
  disc_run root steps root' -> disc_ord root ->
  (forall y, In y (npay root') -> In y (npay root) \/ exists s, In s steps /\ y = odata (step_obj s)) /\
  (forall k, has_key root k -> has_key root' k) /\
  (forall s, In s steps -> has_key root' (dcs (odata (step_obj s)))).
Proof.
  induction 1 as [root|root dms dm o root1 out rest root' Hh E Hout _ IH]; intros Hord.
  - split; [intros y Hy; left; exact Hy|]. split; [intros k Hk; exact Hk|intros s []].
  - pose proof (insert_root_keeps_objects dms dm root o root1 out Hord Hh E Hout) as K.
    destruct (insert_root_keeps_ord dms dm root o root1 out Hord Hh E Hout) as [Hord1 _].
    destruct (IH Hord1) as (A & B & C). split; [|split].
    + intros y Hy. destruct (A y Hy) as [H|(s & Hs & ->)].
      * destruct (ok_new _ _ _ _ K y H) as [->|H']; [right; exists (dms, dm, o); split; [left; reflexivity|reflexivity]|left; exact H'].
      * right. exists s. split; [right; exact Hs|reflexivity].
    + intros k Hk. apply B. eapply kept_has_key; eassumption.
    + intros s [<-|Hs]; [|apply C, Hs]. cbn [step_obj snd]. apply B. exact (ok_key _ _ _ _ K).
Qed.

(* ---------- ordered trees: two objects that share a cpu are on one branch ---------- *)

Lemma FOP_unmap {A B} (R : B -> B -> Prop) (f : A -> B) l :
  ForallOrdPairs R (map f l) -> ForallOrdPairs (fun a b => R (f a) (f b)) l.
Proof.
  induction l as [|a tl IH]; cbn [map]; intros H; [constructor|].
  inversion H as [|a' l' H1 H2]; subst. constructor; [|apply IH, H2].
  rewrite Forall_forall in *. intros b Hb. apply H1, in_map, Hb.
Qed.

Lemma descendant_sub : forall t, tree_ord t -> forall y, In y (nflatten t) -> sub (okey y) (okey t).
Proof.
  induction t as [d n m i x IHn _ _ _] using obj_ind4. intros Hok y Hy.
  inversion Hok as [d0 n0 m0 i0 x0 Hwd Hlvl Hch]; subst.
  rewrite nflatten_eq in Hy. destruct Hy as [<-|Hy]; [intros j Hj; exact Hj|].
  cbn [onch] in Hy. unfold nflattens in Hy. apply in_flat_map in Hy as (c & Hc & Hyc).
  rewrite Forall_forall in *. intros j Hj.
  assert (S1 : sub (okey c) (dcs d)).
  { pose proof (ld_in _ _ Hlvl) as HL. rewrite Forall_forall in HL. apply HL, in_map, Hc. }
  unfold okey at 1. cbn [odata]. apply S1. apply (IHn c Hc (Hch c Hc) y Hyc j Hj).
Qed.

Lemma siblings_one_bit n j a b :
  ForallOrdPairs disj (map okey n) -> In a n -> In b n -> mem j (okey a) = true -> mem j (okey b) = true -> a = b.
Proof.
  intros H Ha Hb Ja Jb. apply FOP_unmap in H.
  destruct (ForallOrdPairs_In H a b Ha Hb) as [E|[D|D]]; [exact E| |]; exfalso.
  - exact (D j Ja Jb).
  - exact (D j Jb Ja).
Qed.

Theorem one_branch : forall t, tree_ord t -> forall a b j, In a (nflatten t) -> In b (nflatten t) ->
  mem j (okey a) = true -> mem j (okey b) = true -> In a (nflatten b) \/ In b (nflatten a).
Proof.
  induction t as [d n m i x IHn _ _ _] using obj_ind4. intros Hok a b j Ha Hb Ja Jb.
  inversion Hok as [d0 n0 m0 i0 x0 Hwd Hlvl Hch]; subst.
  rewrite nflatten_eq in Ha, Hb. cbn [onch] in Ha, Hb.
  destruct Ha as [<-|Ha]; [right; rewrite nflatten_eq; cbn [onch]; exact Hb|].
  destruct Hb as [<-|Hb]; [left; rewrite nflatten_eq; cbn [onch]; right; exact Ha|].
  unfold nflattens in Ha, Hb. apply in_flat_map in Ha as (ca & Hca & Ha). apply in_flat_map in Hb as (cb & Hcb & Hb).
  rewrite Forall_forall in *.
  assert (ca = cb).
  { apply (siblings_one_bit n j ca cb (ld_disj _ _ Hlvl) Hca Hcb).
    - apply (descendant_sub ca (Hch ca Hca) a Ha j Ja).
    - apply (descendant_sub cb (Hch cb Hcb) b Hb j Jb). }
  subst cb. apply (IHn ca Hca (Hch ca Hca) a b j Ha Hb Ja Jb).
Qed.

Theorem disc_one_branch root a b j : disc_ord root ->
  In a (nflattens (onch root)) -> In b (nflattens (onch root)) ->
  mem j (okey a) = true -> mem j (okey b) = true -> In a (nflatten b) \/ In b (nflatten a).
Proof.
  intros [Hlvl Hch] Ha Hb Ja Jb.
  unfold nflattens in Ha, Hb. apply in_flat_map in Ha as (ca & Hca & Ha). apply in_flat_map in Hb as (cb & Hcb & Hb).
  rewrite Forall_forall in Hch.
  assert (ca = cb).
  { apply (siblings_one_bit (onch root) j ca cb (ld_disj _ _ Hlvl) Hca Hcb).
    - apply (descendant_sub ca (Hch ca Hca) a Ha j Ja).
    - apply (descendant_sub cb (Hch cb Hcb) b Hb j Jb). }
  subst cb. apply (one_branch ca (Hch ca Hca) a b j Ha Hb Ja Jb).
Qed.

(* ---------- covering: once the singletons are there ---------- *)

(* X is an object below the root; cpu j is in its cpuset; some object below the root has the cpuset {j}:
   then a child of X holds j, or X's cpuset is {j} itself *)
Theorem disc_children_cover root X j Y : disc_ord root ->
  In X (nflattens (onch root)) -> In Y (nflattens (onch root)) ->
  mem j (okey X) = true -> (forall k, mem k (okey Y) = true <-> k = j) ->
  (exists c, In c (onch X) /\ mem j (okey c) = true) \/ (forall k, mem k (okey X) = true -> k = j).
Proof.
  intros Hord HX HY Jx Ky.
  assert (Jy : mem j (okey Y) = true) by (apply Ky; reflexivity).
  assert (HtX : tree_ord X /\ tree_ord Y).
  { destruct Hord as [_ Hch]. rewrite Forall_forall in Hch. unfold nflattens in HX, HY.
    apply in_flat_map in HX as (cx & Hcx & HX). apply in_flat_map in HY as (cy & Hcy & HY).
    assert (G : forall t, tree_ord t -> forall y, In y (nflatten t) -> tree_ord y).
    { induction t as [d n m i x IHn _ _ _] using obj_ind4. intros Hok y Hy.
      rewrite nflatten_eq in Hy. destruct Hy as [<-|Hy]; [exact Hok|].
      inversion Hok as [d0 n0 m0 i0 x0 Hwd Hlvl Hc]; subst. cbn [onch] in Hy. unfold nflattens in Hy.
      apply in_flat_map in Hy as (c & Hc1 & Hyc). rewrite Forall_forall in *. apply (IHn c Hc1 (Hc c Hc1) y Hyc). }
    split; [apply (G cx (Hch cx Hcx) X HX)|apply (G cy (Hch cy Hcy) Y HY)]. }
  destruct HtX as [HtX HtY].
  destruct (disc_one_branch root X Y j Hord HX HY Jx Jy) as [H|H].
  - (* X below Y = {j} *)
    right. intros k Hk. apply Ky. apply (descendant_sub Y HtY X H k Hk).
  - (* Y below X *)
    rewrite nflatten_eq in H. destruct H as [<-|H]; [right; intros k Hk; apply Ky, Hk|].
    left. unfold nflattens in H. apply in_flat_map in H as (c & Hc & Hyc). exists c. split; [exact Hc|].
    assert (Htc : tree_ord c).
    { destruct HtX as [d n m i x _ _ Hch]. cbn [onch] in Hc. rewrite Forall_forall in Hch. apply Hch, Hc. }
    apply (descendant_sub c Htc Y Hyc j Jy).
Qed.

(* ---------- the composed statement: a discovery that requests every cpu as a singleton ---------- *)

Definition singleton_of (k : bset) (j : N) : Prop := forall q, mem q k = true <-> q = j.

Lemma in_npay_obj t y : In y (npay t) -> exists Y, In Y (nflatten t) /\ odata Y = y.
Proof. unfold npay. intros H. apply in_map_iff in H as (Y & E & HY). exists Y. split; assumption. Qed.

(* From the root as hwloc_topology_setup_defaults leaves it (no child, empty cpuset), after ANY sequence of
   insertions inside the hypotheses in which every cpu of every requested cpuset is also requested alone (the
   PUs): every object below the root has, for each of its cpus, a child holding that cpu - unless the object's
   cpuset is that single cpu.  With discovery_insertions_keep_order (children pairwise disjoint and included):
   the cpuset of every object that is not a single cpu is the disjoint union of its children's cpusets. *)
Theorem discovery_covers root steps root' :
  disc_run root steps root' -> onch root = [] -> (forall j, mem j (dcs (odata root)) = false) ->
  (forall s j, In s steps -> mem j (dcs (odata (step_obj s))) = true ->
               exists s', In s' steps /\ singleton_of (dcs (odata (step_obj s'))) j) ->
  forall X j, In X (nflattens (onch root')) -> mem j (okey X) = true ->
    (exists c, In c (onch X) /\ mem j (okey c) = true) \/ (forall k, mem k (okey X) = true -> k = j).
Proof.
  intros Hrun Hbare Hempty Hsing X j HX Jx.
  assert (Hord : disc_ord root) by (unfold disc_ord; rewrite Hbare; split; cbn [map]; constructor; constructor).
  destruct (discovery_keeps_ord root steps root' Hrun Hord) as [Hord' Eroot].
  destruct (discovery_keeps_objects root steps root' Hrun Hord) as (A & _ & C).
  (* X's cpuset was requested *)
  assert (HXin : In (odata X) (npay root')).
  { unfold npay. apply in_map. rewrite nflatten_eq. right. exact HX. }
  destruct (A _ HXin) as [H|(s & Hs & Es)].
  { exfalso. rewrite npay_self, Hbare in H. cbn [npays flat_map In] in H. destruct H as [H|[]].
    unfold okey in Jx. rewrite <- H, Hempty in Jx. discriminate Jx. }
  assert (Js : mem j (dcs (odata (step_obj s))) = true) by (rewrite <- Es; exact Jx).
  destruct (Hsing s j Hs Js) as (s' & Hs' & Sing).
  destruct (C s' Hs') as (y & Hy & Ky).
  destruct (in_npay_obj _ _ Hy) as (Y & HY & EY).
  assert (KY : singleton_of (okey Y) j) by (unfold okey; rewrite EY, Ky; exact Sing).
  rewrite nflatten_eq in HY. destruct HY as [<-|HY].
  { exfalso. assert (Jr : mem j (okey root') = true) by (apply KY; reflexivity).
    unfold okey in Jr. rewrite Eroot, Hempty in Jr. discriminate Jr. }
  apply (disc_children_cover root' X j Y Hord' HX HY Jx KY).
Qed.

(* executable form of the hypothesis "every cpu of every requested cpuset is also requested alone" *)
Definition is_single (k : bset) : bool :=
  match bs_first k with Some f => bs_eqb k (bs_single f) | None => false end.
Definition singles (keys : list bset) : bset :=
  fold_right (fun k acc => if is_single k then bs_union k acc else acc) bs_empty keys.
Definition singletons_okb (keys : list bset) : bool := forallb (fun k => bs_subset k (singles keys)) keys.

Lemma singleton_single f : singleton_of (bs_single f) f.
Proof. intros q. rewrite mem_single. apply N.eqb_eq. Qed.

Lemma mem_singles j keys : mem j (singles keys) = true -> exists k, In k keys /\ singleton_of k j.
Proof.
  induction keys as [|k tl IH]; cbn [singles fold_right]; intros H; [rewrite mem_empty in H; discriminate|].
  fold (singles tl) in H. destruct (is_single k) eqn:Sk.
  - rewrite mem_union in H. apply orb_true_iff in H as [H|H].
    + exists k. split; [left; reflexivity|]. unfold is_single in Sk. destruct (bs_first k) as [f|]; [|discriminate].
      apply bs_eqb_spec in Sk. subst k. rewrite mem_single in H. apply N.eqb_eq in H. subst j. apply singleton_single.
    + destruct (IH H) as (k' & Hk' & S'). exists k'. split; [right; exact Hk'|exact S'].
  - destruct (IH H) as (k' & Hk' & S'). exists k'. split; [right; exact Hk'|exact S'].
Qed.

Lemma singletons_okb_sound steps :
  singletons_okb (map (fun s => dcs (odata (step_obj s))) steps) = true ->
  forall s j, In s steps -> mem j (dcs (odata (step_obj s))) = true ->
              exists s', In s' steps /\ singleton_of (dcs (odata (step_obj s'))) j.
Proof.
  intros H s j Hs Hj. unfold singletons_okb in H. rewrite forallb_forall in H.
  specialize (H _ (in_map (fun s => dcs (odata (step_obj s))) steps s Hs)).
  rewrite bs_subset_spec in H. specialize (H j Hj).
  destruct (mem_singles j _ H) as (k & Hk & Sk). apply in_map_iff in Hk as (s' & <- & Hs').
  exists s'. split; assumption.
Qed.

Corollary discovery_covers_executable steps r :
  disc_runb bare_root steps = Some r -> singletons_okb (map (fun s => dcs (odata (step_obj s))) steps) = true ->
  forall X j, In X (nflattens (onch r)) -> mem j (okey X) = true ->
    (exists c, In c (onch X) /\ mem j (okey c) = true) \/ (forall k, mem k (okey X) = true -> k = j).
Proof.
  intros E H. apply (discovery_covers bare_root steps r (disc_runb_sound _ _ _ E) eq_refl).
  - intros j. vm_compute. reflexivity.
  - apply singletons_okb_sound, H.
Qed.

(* Non-vacuity: the first eight steps of DiscInsertProofs.example_steps (a Package, its four PUs, two Cores and
   a Core merged into the second one): every cpu is requested alone *)
Example discovery_covers_example :
  exists r, disc_runb bare_root (firstn 8 example_steps) = Some r /\
    (forall X j, In X (nflattens (onch r)) -> mem j (okey X) = true ->
       (exists c, In c (onch X) /\ mem j (okey c) = true) \/ (forall k, mem k (okey X) = true -> k = j)) /\
    map (fun c => (o_type (odata c), okey c)) (nflattens (onch r)) =
      [(HWLOC_OBJ_PACKAGE, bs_of_N 15); (HWLOC_OBJ_CORE, bs_of_N 3); (HWLOC_OBJ_PU, bs_of_N 1); (HWLOC_OBJ_PU, bs_of_N 2);
       (HWLOC_OBJ_CORE, bs_of_N 12); (HWLOC_OBJ_PU, bs_of_N 4); (HWLOC_OBJ_PU, bs_of_N 8)].
Proof.
  destruct (disc_runb bare_root (firstn 8 example_steps)) as [r|] eqn:E; [|vm_compute in E; discriminate E].
  exists r. split; [reflexivity|]. split.
  - apply (discovery_covers_executable (firstn 8 example_steps) r E). vm_compute. reflexivity.
  - vm_compute in E. injection E as <-. vm_compute. reflexivity.
Qed.

(* for the tie: the cover hypothesis on the payloads of the requests of one load *)
Definition cover_hyp_of (ds : list dobj) : bool := singletons_okb (map dcs ds).
