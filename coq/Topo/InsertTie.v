(* Correspondence helper for hwloc___insert_object_by_cpuset: the model of
   Topo/Insert.v applied to the raw tree observed right before an insertion
   (hook HWLOC_VERIF, phase 10) must give the raw tree observed right after it
   (phase 11), and the same kind of outcome. *)
From Coq Require Import List NArith ZArith Bool.
From HV Require Import Base.BSet Gen.Tables Text.TypeOrder Topo.Dump Topo.Obj Topo.Remove Topo.Insert.
Import ListNotations.
Local Open Scope N_scope.

Definition find_obj (p : obj -> bool) (t : obj) : option obj := find p (flatten t).

Definition outcome_matches (out : outcome) (res_same res_none : bool) : bool :=
  match out with
  | OInserted => res_same && negb res_none
  | OFail => res_none
  | OMergedKeep _ | OMergedEqual _ | OReplaced => negb res_same && negb res_none
  end.

(* hwloc_replace_linked_object since /repo 6dba2e5: the object that stays in the topology keeps its gp_index (Topo/Insert.v
   gives it the whole payload of the new Group, gp_index included; the theorems about it never look at gp_index).  The
   gp_index that disappeared from CUR is put back at the place where the new one appeared. *)
Definition gps_of (o : obj) : list (option N) := map (fun c => o_gp (odata c)) (flatten o).
Definition replaced_keeps_gp (out : outcome) (newd : dobj) (cur cur' : obj) : list (option N * (nat * nat * nat * nat)) :=
  match out with
  | OReplaced =>
      match filter (fun g => negb (existsb (opt_N_eqb g) (gps_of cur'))) (gps_of cur) with
      | [g_old] => map (fun '(g, k) => (if opt_N_eqb g (o_gp newd) then g_old else g, k)) (shape_of cur')
      | _ => shape_of cur'
      end
  | _ => shape_of cur'
  end.

Definition insert_tie (d10 d11 : dump) (ins root : N) (dms : list N) (dm_new res_same res_none : bool) : bool :=
  match tree_of_dump d10, get d10 ins, tree_of_dump d11 with
  | Some t10, Some newd, Some t11 =>
      match find_obj (fun o => oid o =? root) t10 with
      | Some cur =>
          let '(cur', out) := insert_by_cpuset dms dm_new cur (Obj newd [] [] [] []) in
          match find_obj (fun o => opt_N_eqb (o_gp (odata o)) (o_gp (odata cur))) t11 with
          | Some cur11 => shape_eqb (replaced_keeps_gp out newd cur cur') (shape_of cur11) && outcome_matches out res_same res_none
          | None => false
          end
      | None => false
      end
  | _, _, _ => false
  end.

(* Load-time KEEP_STRUCTURE level merging (model: Restrict.keep_structure, by the C08 builder):
   phase-4 raw tree vs phase-5 tree. [dm] = dump ids of the Groups that have dont_merge set. *)
From HV Require Import Topo.Restrict.
Definition merge_agrees (d4 d5 : dump) (dm : list N) : bool :=
  match tree_of_dump d4, tree_of_dump d5 with
  | Some t4, Some t5 =>
      match keep_structure (t_filters d4) dm t4 with
      | Some r => shape_eqb (shape_of r) (shape_of t5)
      | None => false
      end
  | _, _ => false
  end.

(* The level arrays after the load-time KEEP_STRUCTURE pass.  hwloc_filter_levels_keep_structure does not rebuild the
   normal levels: it deletes the array of each removed level and shifts the others (memmove), so the final normal levels
   are the arrays hwloc_connect_levels built BEFORE the pass minus the objects that disappeared, in the same order.
   That is not always what a fresh hwloc_connect_levels on the final tree would build: when one type sits at
   different depths in different branches (a Package below a Group in one branch, below the root in another) the pass
   can bring two levels of that type next to each other without fusing them (both decompositions are well formed).
   [levels_agree] compares with the fresh computation; when it fails on a load whose pass changed the tree, the driver
   falls back on this statement.  The special levels are rebuilt by
   hwloc_connect_special_levels after the pass and stay compared with the model. *)
Definition gp_of_id (d : dump) (i : N) : option N := match get d i with Some o => o_gp o | None => None end.
Fixpoint list_optN_eqb (a b : list (option N)) : bool :=
  match a, b with [], [] => true | x :: a', y :: b' => opt_N_eqb x y && list_optN_eqb a' b' | _, _ => false end.
Fixpoint list_list_optN_eqb (a b : list (list (option N))) : bool :=
  match a, b with [], [] => true | x :: a', y :: b' => list_optN_eqb x y && list_list_optN_eqb a' b' | _, _ => false end.

Definition levels_agree_after_merge (d4 d : dump) : bool :=
  let nn := Z.to_nat (t_depth d) in
  let gps := map o_gp (t_objs d) in
  let alive := fun g => existsb (opt_N_eqb g) gps in
  (* the arrays before the pass: the model of hwloc_connect_levels on the phase-4 tree (the C arrays of that moment
     are not observable: hwloc__reconnect builds them and runs the pass in one go) *)
  let before := match tree_of_dump d4 with
                | Some t4 => match levels_of t4 with Some ls => map (map (fun o => o_gp (odata o))) ls | None => [] end
                | None => [] end in
  let expected := filter (fun l => match l with [] => false | _ => true end) (map (filter alive) before) in
  let got := map (map (gp_of_id d)) (firstn nn (dump_levels d)) in
  list_list_optN_eqb expected got &&
  match model_levels d with
  | Some ls => list_list_N_eqb (skipn (List.length ls - 6) ls) (skipn nn (dump_levels d))
  | None => false
  end.
