(* C10 - model of hwloc/bind.c (argument validation and dispatch of every public
   binding entry point over the binding hooks), of hwloc_backends_is_thissystem
   (components.c), of the Linux binding hooks (topology-linux.c) over an
   abstract kernel, and of the x86 backend's save/restore of the binding
   (topology-x86.c look_procs).

   The operating system is abstract: inside [Section Dispatch] every hook is
   one opaque function [os] (Section variable) from the hook call and the OS
   state to a result and a new OS state; which hooks exist is data
   ([present]).  The model returns the API result, the final errno and the
   TRACE of hook calls with their arguments.  Statement order of bind.c is
   kept (e.g. membind BY CPUSET converts the set before the flags are
   checked; errno is real state because the PROCESS->THREAD fallback reads it).

   No proofs here. *)
From Coq Require Import NArith ZArith Bool List.
From HV Require Import Base.BSet Gen.Tables.
Import ListNotations.
Local Open Scope N_scope.

(* ------------------------------------------------------------------ *)
(* errno classes (harness/hwv_load.h hwv_errno_class)                   *)
Inductive err := E0 | EINVAL | ENOSYS | EXDEV | ENOMEM | EPERM | EFAULT | ENOENT | EOTHER.
Definition err_eqb (a b : err) : bool :=
  match a, b with
  | E0, E0 | EINVAL, EINVAL | ENOSYS, ENOSYS | EXDEV, EXDEV | ENOMEM, ENOMEM
  | EPERM, EPERM | EFAULT, EFAULT | ENOENT, ENOENT | EOTHER, EOTHER => true
  | _, _ => false
  end.

(* the slots of struct hwloc_binding_hooks (private.h) used by bind.c *)
Inductive hid :=
  | H_set_thisproc_cpubind | H_get_thisproc_cpubind
  | H_set_thisthread_cpubind | H_get_thisthread_cpubind
  | H_set_proc_cpubind | H_get_proc_cpubind
  | H_set_thread_cpubind | H_get_thread_cpubind
  | H_get_thisproc_last | H_get_thisthread_last | H_get_proc_last
  | H_set_thisproc_membind | H_get_thisproc_membind
  | H_set_thisthread_membind | H_get_thisthread_membind
  | H_set_proc_membind | H_get_proc_membind
  | H_set_area_membind | H_get_area_membind | H_get_area_memlocation
  | H_alloc | H_alloc_membind.

Definition all_hids : list hid :=
  [H_set_thisproc_cpubind; H_get_thisproc_cpubind; H_set_thisthread_cpubind; H_get_thisthread_cpubind;
   H_set_proc_cpubind; H_get_proc_cpubind; H_set_thread_cpubind; H_get_thread_cpubind;
   H_get_thisproc_last; H_get_thisthread_last; H_get_proc_last;
   H_set_thisproc_membind; H_get_thisproc_membind; H_set_thisthread_membind; H_get_thisthread_membind;
   H_set_proc_membind; H_get_proc_membind; H_set_area_membind; H_get_area_membind; H_get_area_memlocation;
   H_alloc; H_alloc_membind].

Definition hid_index (h : hid) : N :=
  match h with
  | H_set_thisproc_cpubind => 0 | H_get_thisproc_cpubind => 1
  | H_set_thisthread_cpubind => 2 | H_get_thisthread_cpubind => 3
  | H_set_proc_cpubind => 4 | H_get_proc_cpubind => 5
  | H_set_thread_cpubind => 6 | H_get_thread_cpubind => 7
  | H_get_thisproc_last => 8 | H_get_thisthread_last => 9 | H_get_proc_last => 10
  | H_set_thisproc_membind => 11 | H_get_thisproc_membind => 12
  | H_set_thisthread_membind => 13 | H_get_thisthread_membind => 14
  | H_set_proc_membind => 15 | H_get_proc_membind => 16
  | H_set_area_membind => 17 | H_get_area_membind => 18 | H_get_area_memlocation => 19
  | H_alloc => 20 | H_alloc_membind => 21
  end.

(* what kind of set a hook receives *)
Inductive setkind := KCpu | KNode.
Definition hid_kind (h : hid) : setkind :=
  match h with
  | H_set_thisproc_cpubind | H_get_thisproc_cpubind | H_set_thisthread_cpubind | H_get_thisthread_cpubind
  | H_set_proc_cpubind | H_get_proc_cpubind | H_set_thread_cpubind | H_get_thread_cpubind
  | H_get_thisproc_last | H_get_thisthread_last | H_get_proc_last => KCpu
  | _ => KNode
  end.

(* one hook call with every argument bind.c passes *)
Record hcall := HC { hc_id : hid; hc_who : Z; hc_set : option bset; hc_policy : Z; hc_flags : N; hc_len : N }.
(* what a hook answers: return value (for the two allocators 1 = non-NULL
   pointer, 0 = NULL), whether and how it set errno, the set / policy it wrote *)
Record hres := HR { hr_rc : Z; hr_errno : option err; hr_set : bset; hr_policy : Z }.

(* the part of the topology bind.c looks at *)
Record topo := TP {
  t_cpuset : bset;            (* root->cpuset           hwloc_topology_get_topology_cpuset  *)
  t_ccpuset : bset;           (* root->complete_cpuset  hwloc_topology_get_complete_cpuset  *)
  t_nodeset : bset;           (* root->nodeset *)
  t_cnodeset : bset;          (* root->complete_nodeset *)
  t_nodes : list (N * bset);  (* NUMA level in order: (os_index, cpuset) *)
  t_thissystem : bool         (* HWLOC_TOPOLOGY_STATE_IS_THISSYSTEM at hwloc_set_binding_hooks time *)
}.

Definition complete_of (T : topo) (k : setkind) : bset :=
  match k with KCpu => t_ccpuset T | KNode => t_cnodeset T end.

(* flags are C ints; the model carries the 32-bit pattern as N *)
Definition flag (bit f : N) : bool := negb (N.land f bit =? 0).
Definition flags_ok (all f : N) : bool := N.ldiff f all =? 0.   (* !(flags & ~ALL) *)

Definition CPUBIND_ALLFLAGS : N :=
  N.lor (N.lor HWLOC_CPUBIND_PROCESS HWLOC_CPUBIND_THREAD) (N.lor HWLOC_CPUBIND_STRICT HWLOC_CPUBIND_NOMEMBIND).
Definition MEMBIND_ALLFLAGS : N :=
  N.lor (N.lor (N.lor HWLOC_MEMBIND_PROCESS HWLOC_MEMBIND_THREAD) (N.lor HWLOC_MEMBIND_STRICT HWLOC_MEMBIND_MIGRATE))
        (N.lor HWLOC_MEMBIND_NOCPUBIND HWLOC_MEMBIND_BYNODESET).

(* hwloc__check_membind_policy *)
Definition policy_ok (p : Z) : bool :=
  ((p =? HWLOC_MEMBIND_DEFAULT) || (p =? HWLOC_MEMBIND_FIRSTTOUCH) || (p =? HWLOC_MEMBIND_BIND)
   || (p =? HWLOC_MEMBIND_INTERLEAVE) || (p =? HWLOC_MEMBIND_WEIGHTED_INTERLEAVE) || (p =? HWLOC_MEMBIND_NEXTTOUCH))%Z.

(* hwloc_cpuset_to_nodeset / hwloc_cpuset_from_nodeset (helper.h) *)
Definition cpuset_to_nodeset (T : topo) (c : bset) : bset :=
  fold_left (fun acc n => if bs_intersects c (snd n) then bs_add (fst n) acc else acc) (t_nodes T) bs_empty.
Definition cpuset_from_nodeset (T : topo) (ns : bset) : bset :=
  fold_left (fun acc n => if mem (fst n) ns then bs_union acc (snd n) else acc) (t_nodes T) bs_empty.

(* the public entry points of bind.c with their arguments *)
Inductive apicall :=
  | A_set_cpubind (set : bset) (flags : N)
  | A_get_cpubind (flags : N)
  | A_set_proc_cpubind (pid : Z) (set : bset) (flags : N)
  | A_get_proc_cpubind (pid : Z) (flags : N)
  | A_set_thread_cpubind (tid : Z) (set : bset) (flags : N)
  | A_get_thread_cpubind (tid : Z) (flags : N)
  | A_get_last_cpu_location (flags : N)
  | A_get_proc_last_cpu_location (pid : Z) (flags : N)
  | A_set_membind (set : bset) (policy : Z) (flags : N)
  | A_get_membind (flags : N)
  | A_set_proc_membind (pid : Z) (set : bset) (policy : Z) (flags : N)
  | A_get_proc_membind (pid : Z) (flags : N)
  | A_set_area_membind (len : N) (set : bset) (policy : Z) (flags : N)
  | A_get_area_membind (len : N) (flags : N)
  | A_get_area_memlocation (len : N) (flags : N)
  | A_alloc_membind (len : N) (set : bset) (policy : Z) (flags : N).

(* result of an entry point: return value (alloc: 1 = pointer, 0 = NULL), the
   set and policy written to the caller's output arguments (None = untouched) *)
Record ares := AR { a_rc : Z; a_set : option bset; a_policy : option Z }.

Section Dispatch.
  Variable W : Type.                          (* state of the operating system *)
  Variable os : hcall -> W -> hres * W.       (* every OS hook: opaque *)
  Variable heap : N -> bool.                  (* does malloc / posix_memalign of that size succeed *)
  Variable present : hid -> bool.             (* which hooks the OS backend installed *)
  Variable T : topo.

  Record st := ST { s_w : W; s_errno : err; s_trace : list hcall }.
  Definition set_errno (e : err) (s : st) : st := ST (s_w s) e (s_trace s).

  (* hwloc_set_dummy_hooks: dont{set,get}_* ; [alloc] is left NULL *)
  Definition dummy (c : hcall) : hres :=
    match hc_id c with
    | H_get_thisproc_cpubind | H_get_thisthread_cpubind | H_get_proc_cpubind | H_get_thread_cpubind
    | H_get_thisproc_last | H_get_thisthread_last | H_get_proc_last => HR 0 None (t_ccpuset T) 0
    | H_get_thisproc_membind | H_get_thisthread_membind | H_get_proc_membind
    | H_get_area_membind | H_get_area_memlocation => HR 0 None (t_cnodeset T) HWLOC_MEMBIND_MIXED
    | H_alloc_membind => if heap (hc_len c) then HR 1 None bs_empty 0 else HR 0 (Some ENOMEM) bs_empty 0
    | _ => HR 0 None bs_empty 0
    end.

  (* hwloc_set_binding_hooks: native hooks iff IS_THISSYSTEM, else the dummy ones *)
  Definition installed (h : hid) : bool :=
    if t_thissystem T then present h else match h with H_alloc => false | _ => true end.

  Definition invoke (c : hcall) (s : st) : hres * st :=
    if t_thissystem T then
      let (r, w') := os c (s_w s) in
      (r, ST w' (match hr_errno r with Some e => e | None => s_errno s end) (s_trace s ++ [c]))
    else
      let r := dummy c in
      (r, ST (s_w s) (match hr_errno r with Some e => e | None => s_errno s end) (s_trace s)).

  Definition fail (e : err) (s : st) : hres * st := (HR (-1) None bs_empty 0, set_errno e s).

  Definition invoke_or_enosys (c : hcall) (s : st) : hres * st :=
    if installed (hc_id c) then invoke c s else fail ENOSYS s.

  (* the PROCESS / THREAD / neither pattern shared by five entry points *)
  Definition this_dispatch (PROCESS THREAD : N) (hproc hthread : hid) (mk : hid -> hcall) (flags : N) (s : st) : hres * st :=
    if flag PROCESS flags then invoke_or_enosys (mk hproc) s
    else if flag THREAD flags then invoke_or_enosys (mk hthread) s
    else if installed hproc then
      let (r, s1) := invoke (mk hproc) s in
      if (0 <=? hr_rc r)%Z || negb (err_eqb (s_errno s1) ENOSYS) then (r, s1)
      else invoke_or_enosys (mk hthread) s1
    else invoke_or_enosys (mk hthread) s.

  (* hwloc_fix_cpubind *)
  Definition fix_cpubind (set : bset) (s : st) : option bset * st :=
    if bs_is_empty set then (None, set_errno EINVAL s)
    else if negb (bs_subset set (t_ccpuset T)) then (None, set_errno EINVAL s)
    else if bs_subset (t_cpuset T) set then (Some (t_ccpuset T), s)
    else (Some set, s).

  (* hwloc_fix_membind *)
  Definition fix_membind (nodeset : bset) (s : st) : option bset * st :=
    if bs_is_empty nodeset then (None, set_errno EINVAL s)
    else if negb (bs_subset nodeset (t_cnodeset T)) then (None, set_errno EINVAL s)
    else if bs_subset (t_nodeset T) nodeset then (Some (t_cnodeset T), s)
    else (Some nodeset, s).

  (* hwloc_fix_membind_cpuset *)
  Definition fix_membind_cpuset (cpuset : bset) (s : st) : option bset * st :=
    if bs_is_empty cpuset then (None, set_errno EINVAL s)
    else if negb (bs_subset cpuset (t_ccpuset T)) then (None, set_errno EINVAL s)
    else if bs_subset (t_cpuset T) cpuset then (Some (t_cnodeset T), s)
    else (Some (cpuset_to_nodeset T cpuset), s).

  Definition ret_rc (r : hres * st) : ares * st := (AR (hr_rc (fst r)) None None, snd r).
  Definition ret_cpuset (r : hres * st) : ares * st := (AR (hr_rc (fst r)) (Some (hr_set (fst r))) None, snd r).
  Definition einval (s : st) : ares * st := (AR (-1) None None, set_errno EINVAL s).

  (* ---- CPU binding ---- *)
  Definition set_cpubind (set : bset) (flags : N) (s : st) : ares * st :=
    if negb (flags_ok CPUBIND_ALLFLAGS flags) then einval s else
    match fix_cpubind set s with
    | (None, s1) => (AR (-1) None None, s1)
    | (Some set', s1) =>
      ret_rc (this_dispatch HWLOC_CPUBIND_PROCESS HWLOC_CPUBIND_THREAD H_set_thisproc_cpubind H_set_thisthread_cpubind
                (fun h => HC h 0 (Some set') 0 flags 0) flags s1)
    end.

  Definition get_cpubind (flags : N) (s : st) : ares * st :=
    if negb (flags_ok CPUBIND_ALLFLAGS flags) then einval s else
    ret_cpuset (this_dispatch HWLOC_CPUBIND_PROCESS HWLOC_CPUBIND_THREAD H_get_thisproc_cpubind H_get_thisthread_cpubind
                  (fun h => HC h 0 None 0 flags 0) flags s).

  Definition set_who_cpubind (h : hid) (who : Z) (set : bset) (flags : N) (s : st) : ares * st :=
    if negb (flags_ok CPUBIND_ALLFLAGS flags) then einval s else
    match fix_cpubind set s with
    | (None, s1) => (AR (-1) None None, s1)
    | (Some set', s1) => ret_rc (invoke_or_enosys (HC h who (Some set') 0 flags 0) s1)
    end.

  Definition get_who_cpubind (h : hid) (who : Z) (flags : N) (s : st) : ares * st :=
    if negb (flags_ok CPUBIND_ALLFLAGS flags) then einval s else
    ret_cpuset (invoke_or_enosys (HC h who None 0 flags 0) s).

  Definition get_last_cpu_location (flags : N) (s : st) : ares * st :=
    if negb (flags_ok CPUBIND_ALLFLAGS flags) then einval s else
    ret_cpuset (this_dispatch HWLOC_CPUBIND_PROCESS HWLOC_CPUBIND_THREAD H_get_thisproc_last H_get_thisthread_last
                  (fun h => HC h 0 None 0 flags 0) flags s).

  (* ---- memory binding ---- *)
  Definition bynodeset (flags : N) : bool := flag HWLOC_MEMBIND_BYNODESET flags.

  (* wrapper shared by the set-like entry points: BYNODESET or cpuset conversion FIRST *)
  Definition with_nodeset (set : bset) (flags : N) (k : bset -> st -> ares * st) (s : st) : ares * st :=
    if bynodeset flags then k set s
    else match fix_membind_cpuset set s with
         | (None, s1) => (AR (-1) None None, s1)
         | (Some ns, s1) => k ns s1
         end.

  Definition set_membind_by_nodeset (nodeset : bset) (policy : Z) (flags : N) (s : st) : ares * st :=
    if negb (flags_ok MEMBIND_ALLFLAGS flags) || negb (policy_ok policy) then einval s else
    match fix_membind nodeset s with
    | (None, s1) => (AR (-1) None None, s1)
    | (Some ns, s1) =>
      ret_rc (this_dispatch HWLOC_MEMBIND_PROCESS HWLOC_MEMBIND_THREAD H_set_thisproc_membind H_set_thisthread_membind
                (fun h => HC h 0 (Some ns) policy flags 0) flags s1)
    end.
  Definition set_membind (set : bset) (policy : Z) (flags : N) : st -> ares * st :=
    with_nodeset set flags (fun ns => set_membind_by_nodeset ns policy flags).

  (* get-like: hook fills a nodeset; without BYNODESET converted back iff ret == 0 *)
  Definition ret_membind (flags : N) (r : hres * st) : ares * st :=
    let h := fst r in
    if bynodeset flags then (AR (hr_rc h) (Some (hr_set h)) (Some (hr_policy h)), snd r)
    else (AR (hr_rc h) (if (hr_rc h =? 0)%Z then Some (cpuset_from_nodeset T (hr_set h)) else None) (Some (hr_policy h)), snd r).
  (* early failures before any hook: outputs untouched *)
  Definition ret_early (e : err) (s : st) : ares * st := (AR (-1) None None, set_errno e s).

  Definition get_membind (flags : N) (s : st) : ares * st :=
    if negb (flags_ok MEMBIND_ALLFLAGS flags) then ret_early EINVAL s else
    let r := this_dispatch HWLOC_MEMBIND_PROCESS HWLOC_MEMBIND_THREAD H_get_thisproc_membind H_get_thisthread_membind
               (fun h => HC h 0 None 0 flags 0) flags s in
    ret_membind flags r.

  Definition set_proc_membind_by_nodeset (pid : Z) (nodeset : bset) (policy : Z) (flags : N) (s : st) : ares * st :=
    if negb (flags_ok MEMBIND_ALLFLAGS flags) || negb (policy_ok policy) then einval s else
    match fix_membind nodeset s with
    | (None, s1) => (AR (-1) None None, s1)
    | (Some ns, s1) => ret_rc (invoke_or_enosys (HC H_set_proc_membind pid (Some ns) policy flags 0) s1)
    end.
  Definition set_proc_membind (pid : Z) (set : bset) (policy : Z) (flags : N) : st -> ares * st :=
    with_nodeset set flags (fun ns => set_proc_membind_by_nodeset pid ns policy flags).

  Definition get_proc_membind (pid : Z) (flags : N) (s : st) : ares * st :=
    if negb (flags_ok MEMBIND_ALLFLAGS flags) then ret_early EINVAL s else
    ret_membind flags (invoke_or_enosys (HC H_get_proc_membind pid None 0 flags 0) s).

  Definition set_area_membind_by_nodeset (len : N) (nodeset : bset) (policy : Z) (flags : N) (s : st) : ares * st :=
    if negb (flags_ok MEMBIND_ALLFLAGS flags) || negb (policy_ok policy) then einval s else
    if len =? 0 then (AR 0 None None, s) else
    match fix_membind nodeset s with
    | (None, s1) => (AR (-1) None None, s1)
    | (Some ns, s1) => ret_rc (invoke_or_enosys (HC H_set_area_membind 0 (Some ns) policy flags len) s1)
    end.
  Definition set_area_membind (len : N) (set : bset) (policy : Z) (flags : N) : st -> ares * st :=
    with_nodeset set flags (fun ns => set_area_membind_by_nodeset len ns policy flags).

  Definition get_area_membind (len : N) (flags : N) (s : st) : ares * st :=
    if negb (flags_ok MEMBIND_ALLFLAGS flags) then ret_early EINVAL s else
    if len =? 0 then ret_early EINVAL s else
    ret_membind flags (invoke_or_enosys (HC H_get_area_membind 0 None 0 flags len) s).

  (* len == 0: returns 0 and, without BYNODESET, converts the still empty nodeset *)
  Definition get_area_memlocation (len : N) (flags : N) (s : st) : ares * st :=
    if negb (flags_ok MEMBIND_ALLFLAGS flags) then ret_early EINVAL s else
    if len =? 0 then
      (AR 0 (if bynodeset flags then None else Some (cpuset_from_nodeset T bs_empty)) None, s)
    else
      let r := ret_membind flags (invoke_or_enosys (HC H_get_area_memlocation 0 None 0 flags len) s) in
      (AR (a_rc (fst r)) (a_set (fst r)) None, snd r).

  (* hwloc_alloc: the [alloc] hook or hwloc_alloc_heap (errno = posix_memalign()) *)
  Definition do_alloc (len : N) (s : st) : Z * st :=
    if installed H_alloc then let (r, s1) := invoke (HC H_alloc 0 None 0 0 len) s in (hr_rc r, s1)
    else if heap len then (1%Z, set_errno E0 s) else (0%Z, set_errno ENOMEM s).

  Definition alloc_fallback (len flags : N) (s : st) : ares * st :=
    if flag HWLOC_MEMBIND_STRICT flags then (AR 0 None None, s)
    else let (p, s1) := do_alloc len s in (AR p None None, s1).

  Definition alloc_membind_by_nodeset (len : N) (nodeset : bset) (policy : Z) (flags : N) (s : st) : ares * st :=
    if negb (flags_ok MEMBIND_ALLFLAGS flags) || negb (policy_ok policy) then (AR 0 None None, set_errno EINVAL s) else
    match fix_membind nodeset s with
    | (None, s1) => alloc_fallback len flags s1
    | (Some ns, s1) =>
      if flag HWLOC_MEMBIND_MIGRATE flags then alloc_fallback len flags (set_errno EINVAL s1)
      else if installed H_alloc_membind then
        let (r, s2) := invoke (HC H_alloc_membind 0 (Some ns) policy flags len) s1 in (AR (hr_rc r) None None, s2)
      else if installed H_set_area_membind then
        let (p, s2) := do_alloc len s1 in
        if (p =? 0)%Z then (AR 0 None None, s2) else
        let (r, s3) := invoke (HC H_set_area_membind 0 (Some ns) policy flags len) s2 in
        if negb (hr_rc r =? 0)%Z && flag HWLOC_MEMBIND_STRICT flags then (AR 0 None None, s3)  (* free(p); errno kept *)
        else (AR p None None, s3)
      else alloc_fallback len flags (set_errno ENOSYS s1)
    end.

  Definition alloc_membind (len : N) (set : bset) (policy : Z) (flags : N) (s : st) : ares * st :=
    if bynodeset flags then alloc_membind_by_nodeset len set policy flags s
    else match fix_membind_cpuset set s with
         | (None, s1) => alloc_fallback len flags s1
         | (Some ns, s1) => alloc_membind_by_nodeset len ns policy flags s1
         end.

  Definition run_api (a : apicall) : st -> ares * st :=
    match a with
    | A_set_cpubind set f => set_cpubind set f
    | A_get_cpubind f => get_cpubind f
    | A_set_proc_cpubind pid set f => set_who_cpubind H_set_proc_cpubind pid set f
    | A_get_proc_cpubind pid f => get_who_cpubind H_get_proc_cpubind pid f
    | A_set_thread_cpubind tid set f => set_who_cpubind H_set_thread_cpubind tid set f
    | A_get_thread_cpubind tid f => get_who_cpubind H_get_thread_cpubind tid f
    | A_get_last_cpu_location f => get_last_cpu_location f
    | A_get_proc_last_cpu_location pid f => get_who_cpubind H_get_proc_last pid f
    | A_set_membind set p f => set_membind set p f
    | A_get_membind f => get_membind f
    | A_set_proc_membind pid set p f => set_proc_membind pid set p f
    | A_get_proc_membind pid f => get_proc_membind pid f
    | A_set_area_membind len set p f => set_area_membind len set p f
    | A_get_area_membind len f => get_area_membind len f
    | A_get_area_memlocation len f => get_area_memlocation len f
    | A_alloc_membind len set p f => alloc_membind len set p f
    end.

  (* one call from a clean errno and an empty trace, as the harness does it *)
  Definition run (a : apicall) (w : W) : ares * st := run_api a (ST w E0 []).
End Dispatch.

Arguments ST {W}.
Arguments s_w {W}. Arguments s_errno {W}. Arguments s_trace {W}.

(* ------------------------------------------------------------------ *)
(* derived topologies.  hwloc__topology_dup memcpy()s binding_hooks and copies state; hwloc_shmem_topology_adopt
   memcpy()s the whole struct (state included) and re-runs hwloc_set_binding_hooks on that state: either way
   the part of the topology bind.c looks at - sets, NUMA level, the IS_THISSYSTEM bit the hooks were selected
   with - is the source's, field by field. *)
Definition topo_dup (T : topo) : topo :=
  TP (t_cpuset T) (t_ccpuset T) (t_nodeset T) (t_cnodeset T) (t_nodes T) (t_thissystem T).
(* what a duplication that RE-SELECTS the hooks on a freshly initialised state would give
   (hwloc__topology_init sets IS_THISSYSTEM): always the native hooks *)
Definition topo_dup_reselecting (T : topo) : topo :=
  TP (t_cpuset T) (t_ccpuset T) (t_nodeset T) (t_cnodeset T) (t_nodes T) true.
Inductive derivation := D_dup | D_adopt.
Definition derive (T : topo) (d : derivation) : topo := match d with D_dup => topo_dup T | D_adopt => topo_dup T end.

(* ------------------------------------------------------------------ *)
(* views of an API call used by the property statements                  *)
Definition api_flags (a : apicall) : N :=
  match a with
  | A_set_cpubind _ f | A_get_cpubind f | A_set_proc_cpubind _ _ f | A_get_proc_cpubind _ f
  | A_set_thread_cpubind _ _ f | A_get_thread_cpubind _ f | A_get_last_cpu_location f
  | A_get_proc_last_cpu_location _ f | A_set_membind _ _ f | A_get_membind f | A_set_proc_membind _ _ _ f
  | A_get_proc_membind _ f | A_set_area_membind _ _ _ f | A_get_area_membind _ f | A_get_area_memlocation _ f
  | A_alloc_membind _ _ _ f => f
  end.
Definition api_is_mem (a : apicall) : bool :=
  match a with
  | A_set_membind _ _ _ | A_get_membind _ | A_set_proc_membind _ _ _ _ | A_get_proc_membind _ _
  | A_set_area_membind _ _ _ _ | A_get_area_membind _ _ | A_get_area_memlocation _ _ | A_alloc_membind _ _ _ _ => true
  | _ => false
  end.
Definition api_allflags (a : apicall) : N := if api_is_mem a then MEMBIND_ALLFLAGS else CPUBIND_ALLFLAGS.
Definition api_set (a : apicall) : option bset :=
  match a with
  | A_set_cpubind s _ | A_set_proc_cpubind _ s _ | A_set_thread_cpubind _ s _
  | A_set_membind s _ _ | A_set_proc_membind _ s _ _ | A_set_area_membind _ s _ _ | A_alloc_membind _ s _ _ => Some s
  | _ => None
  end.
Definition api_policy (a : apicall) : option Z :=
  match a with
  | A_set_membind _ p _ | A_set_proc_membind _ _ p _ | A_set_area_membind _ _ p _ | A_alloc_membind _ _ p _ => Some p
  | _ => None
  end.
Definition api_is_alloc (a : apicall) : bool := match a with A_alloc_membind _ _ _ _ => true | _ => false end.
(* kind of the set the CALLER passes *)
Definition api_setkind (a : apicall) : setkind :=
  if api_is_mem a && flag HWLOC_MEMBIND_BYNODESET (api_flags a) then KNode else KCpu.
(* the set the caller passes is unusable: empty or not inside the complete set *)
Definition bad_set (T : topo) (a : apicall) : bool :=
  match api_set a with
  | None => false
  | Some s => bs_is_empty s || negb (bs_subset s (complete_of T (api_setkind a)))
  end.
Definition bad_flags (a : apicall) : bool := negb (flags_ok (api_allflags a) (api_flags a)).
Definition bad_policy (a : apicall) : bool := match api_policy a with Some p => negb (policy_ok p) | None => false end.
(* the nodeset a membind-by-cpuset call derives, when its cpuset is usable *)
Definition derived_nodeset (T : topo) (s : bset) : bset :=
  if bs_subset (t_cpuset T) s then t_cnodeset T else cpuset_to_nodeset T s.
(* the set that reaches the hook on the valid path *)
Definition covers_topology (T : topo) (a : apicall) : bool :=
  match api_set a with
  | None => false
  | Some s => match api_setkind a with
              | KCpu => bs_subset (t_cpuset T) s
              | KNode => bs_subset (t_nodeset T) s
              end
  end.
(* the hooks an entry point may dispatch to, in the order it tries them *)
Definition api_hooks (a : apicall) : list hid :=
  let f := api_flags a in
  let PROCESS := if api_is_mem a then HWLOC_MEMBIND_PROCESS else HWLOC_CPUBIND_PROCESS in
  let THREAD := if api_is_mem a then HWLOC_MEMBIND_THREAD else HWLOC_CPUBIND_THREAD in
  let this (p t : hid) := if flag PROCESS f then [p] else if flag THREAD f then [t] else [p; t] in
  match a with
  | A_set_cpubind _ _ => this H_set_thisproc_cpubind H_set_thisthread_cpubind
  | A_get_cpubind _ => this H_get_thisproc_cpubind H_get_thisthread_cpubind
  | A_set_proc_cpubind _ _ _ => [H_set_proc_cpubind]
  | A_get_proc_cpubind _ _ => [H_get_proc_cpubind]
  | A_set_thread_cpubind _ _ _ => [H_set_thread_cpubind]
  | A_get_thread_cpubind _ _ => [H_get_thread_cpubind]
  | A_get_last_cpu_location _ => this H_get_thisproc_last H_get_thisthread_last
  | A_get_proc_last_cpu_location _ _ => [H_get_proc_last]
  | A_set_membind _ _ _ => this H_set_thisproc_membind H_set_thisthread_membind
  | A_get_membind _ => this H_get_thisproc_membind H_get_thisthread_membind
  | A_set_proc_membind _ _ _ _ => [H_set_proc_membind]
  | A_get_proc_membind _ _ => [H_get_proc_membind]
  | A_set_area_membind _ _ _ _ => [H_set_area_membind]
  | A_get_area_membind _ _ => [H_get_area_membind]
  | A_get_area_memlocation _ _ => [H_get_area_memlocation]
  | A_alloc_membind _ _ _ _ => [H_alloc_membind; H_set_area_membind]
  end.
Definition api_len (a : apicall) : option N :=
  match a with
  | A_set_area_membind l _ _ _ | A_get_area_membind l _ | A_get_area_memlocation l _ | A_alloc_membind l _ _ _ => Some l
  | _ => None
  end.

(* a hook call is legal when the set it carries is non-empty and inside the
   complete set of its kind *)
Definition legal_call (T : topo) (c : hcall) : bool :=
  match hc_set c with
  | None => true
  | Some s => negb (bs_is_empty s) && bs_subset s (complete_of T (hid_kind (hc_id c)))
  end.
(* binding hooks proper (everything except the plain allocator) *)
Definition is_binding_call (c : hcall) : bool := match hc_id c with H_alloc => false | _ => true end.

(* ------------------------------------------------------------------ *)
(* hwloc_backends_is_thissystem (components.c)                          *)
Record backend := BK { bk_envvar_forced : bool; bk_is_thissystem : Z (* -1 = does not care, 0 = not this system *) }.
Definition backends_is_thissystem (backends : list backend) (flag_is_thissystem : bool) (env_thissystem : option Z) : bool :=
  let it := true in
  let it := if existsb (fun b => negb (bk_envvar_forced b) && negb (bk_is_thissystem b =? -1)%Z) backends then false else it in
  let it := if flag_is_thissystem then true else it in
  let it := if existsb (fun b => bk_envvar_forced b && negb (bk_is_thissystem b =? -1)%Z) backends then false else it in
  match env_thissystem with Some v => negb (v =? 0)%Z | None => it end.

(* The IS_THISSYSTEM bit of topology->state over the life of ONE topology handle.
   hwloc__topology_init sets it; every hwloc_topology_load (successful or not) runs
   hwloc_backends_is_thissystem, which ASSIGNS the bit both ways
   ("if (is_thissystem) state |= BIT; else state &= ~BIT"), and hwloc_set_binding_hooks reads it
   right after; the failure path of load does not touch it. *)
Record load_cfg := LC { lc_backends : list backend; lc_flag : bool; lc_env : option Z }.
Definition load_step (bit : bool) (c : load_cfg) : bool :=
  if backends_is_thissystem (lc_backends c) (lc_flag c) (lc_env c) then bit || true else bit && false.
Definition thissystem_after (history : list load_cfg) : bool := fold_left load_step history true.

(* ------------------------------------------------------------------ *)
(* The Linux binding hooks (topology-linux.c, this configuration:        *)
(* HWLOC_HAVE_CPU_SET_S, !OLD_SCHED_SETAFFINITY, syscall() for the NUMA   *)
(* calls) over an abstract kernel.  What the harness can interpose is     *)
(* exactly the [kcall]s below; K_tasklist / K_lastcpu / K_mmap stand for  *)
(* /proc/<pid>/task, /proc/<tid>/stat and mmap (not interposed).          *)
Inductive kcall :=
  | K_setaffinity (who : Z) (mask : bset)
  | K_getaffinity (who : Z)
  | K_getcpu
  | K_lastcpu (tid : Z)
  | K_tasklist (pid : Z)
  | K_set_mempolicy (mode : Z) (mask : option bset) (maxnode : N)
  | K_mbind (len : N) (mode : Z) (mask : option bset) (maxnode : N) (mflags : N)
  | K_migrate_pages (maxnode : N) (old new : bset)
  | K_get_mempolicy (addr : bool) (maxnode : N) (kflags : N)
  | K_move_pages (count : N)
  | K_mmap (len : N).
(* answer of the kernel: rc, errno when rc < 0, and the data it wrote *)
Record kres := KR { k_rc : Z; k_errno : err; k_set : bset; k_mode : Z; k_list : list Z }.

(* /proc/<tid>/stat as hwloc reads it: at most 1023 bytes up to the first NUL; the task name (field 2, between
   parentheses) may itself contain parentheses and spaces, so the LAST ')' ends it (proc(5)); then ") " is skipped,
   36 more fields are skipped and field 39 (processor) is read with %d.  None = the function returns ENOSYS. *)
Fixpoint upto_nul (s : list N) : list N := match s with [] => [] | c :: r => if c =? 0 then [] else c :: upto_nul r end.
Fixpoint after_last_rparen (s : list N) (best : option (list N)) : option (list N) :=
  match s with [] => best | c :: r => after_last_rparen r (if c =? 41 then Some r else best) end.
Fixpoint after_space (s : list N) : option (list N) :=
  match s with [] => None | c :: r => if c =? 32 then Some r else after_space r end.
Fixpoint skip_fields (n : nat) (s : list N) : option (list N) :=
  match n with O => Some s | S n' => match after_space s with None => None | Some r => skip_fields n' r end end.
Definition c_isspace (c : N) : bool := (c =? 32) || ((9 <=? c) && (c <=? 13)).
Fixpoint skip_ws (s : list N) : list N := match s with c :: r => if c_isspace c then skip_ws r else s | [] => [] end.
Fixpoint read_digits (s : list N) (acc : N) (any : bool) : option N :=
  match s with
  | c :: r => if (48 <=? c) && (c <=? 57) then read_digits r (10 * acc + (c - 48)) true else if any then Some acc else None
  | [] => if any then Some acc else None
  end.
Definition scan_int (s : list N) : option Z :=          (* sscanf(s, "%d ", &i) == 1 *)
  match skip_ws s with
  | 45 :: r => match read_digits r 0 false with Some n => Some (- Z.of_N n)%Z | None => None end
  | 43 :: r => match read_digits r 0 false with Some n => Some (Z.of_N n) | None => None end
  | r => match read_digits r 0 false with Some n => Some (Z.of_N n) | None => None end
  end.
Definition parse_stat (content : list N) : option Z :=
  let buf := upto_nul (firstn 1023 content) in
  match buf with [] => None | _ =>     (* read() returned <= 0 *)
  match after_last_rparen buf None with
  | None => None
  | Some r =>                          (* r starts right after the last ')'; "tmp += 2" skips one more byte *)
    match skip_fields 36 (tl r) with
    | None => None
    | Some f => scan_int f
    end
  end end.

Definition zeqb_list (a b : list Z) : bool :=
  (length a =? length b)%nat && forallb (fun p => (fst p =? snd p)%Z) (combine a b).

Definition linux_present (h : hid) : bool :=
  match h with
  | H_set_thisproc_membind | H_get_thisproc_membind | H_set_proc_membind | H_get_proc_membind => false
  | _ => true
  end.

Section Linux.
  Variable KW : Type.
  Variable kernel : kcall -> KW -> kres * KW.
  Variable T : topo.
  Variable tpid : Z.              (* topology->pid *)
  Variable nr_cpus : N.           (* hwloc_linux_find_kernel_nr_cpus (function-static cache) *)
  Variable max_numnodes : N.      (* hwloc_linux_find_kernel_max_numnodes (cache), a multiple of 64 *)

  (* kernel state, the two function-static preferred_many_notsupported flags, kernel-call trace *)
  Record lw := LW { l_k : KW; l_pm_area : Z; l_pm_thread : Z; l_ktrace : list kcall }.
  Definition kc (c : kcall) (w : lw) : kres * lw :=
    let (r, k') := kernel c (l_k w) in (r, LW k' (l_pm_area w) (l_pm_thread w) (l_ktrace w ++ [c])).

  Definition hfail (e : err) : hres := HR (-1) (Some e) bs_empty 0.
  Definition hok : hres := HR 0 None bs_empty 0.
  Definition of_k (r : kres) : hres := HR (k_rc r) (if (k_rc r <? 0)%Z then Some (k_errno r) else None) bs_empty 0.

  (* hwloc_linux_set_tid_cpubind: hwloc_bitmap_last == -1 (empty or infinite) => EINVAL *)
  Definition set_tid_cpubind (tid : Z) (set : bset) (w : lw) : hres * lw :=
    match bs_last set with
    | None => (hfail EINVAL, w)
    | Some _ => let (r, w1) := kc (K_setaffinity tid set) w in (of_k r, w1)
    end.

  Definition cpu_last : N := match bs_last (t_ccpuset T) with Some l => l | None => nr_cpus - 1 end.
  (* CPU_ALLOC_SIZE(kernel_nr_cpus) * 8: the kernel mask is read through a buffer of that many bits *)
  Definition setsize_bits : N := (nr_cpus + HWLOC_BITS_PER_LONG - 1) / HWLOC_BITS_PER_LONG * HWLOC_BITS_PER_LONG.
  (* hwloc_linux_get_tid_cpubind *)
  Definition get_tid_cpubind (tid : Z) (w : lw) : hres * lw :=
    let (r, w1) := kc (K_getaffinity tid) w in
    if (k_rc r <? 0)%Z then (hfail (k_errno r), w1)
    else (HR 0 None (bs_inter (bs_inter (k_set r) (bs_range 0 setsize_bits)) (bs_range 0 (cpu_last + 1))) 0, w1).

  (* the pthread_getaffinity_np branch of hwloc_linux_get_thread_cpubind (a pthread_t that is not the caller):
     the buffer holds last+1 bits, every PU up to AND INCLUDING the last one of the complete cpuset is copied *)
  Definition get_other_thread_cpubind (tid : Z) (w : lw) : hres * lw :=
    let (r, w1) := kc (K_getaffinity tid) w in
    if (k_rc r <? 0)%Z then (hfail (k_errno r), w1)
    else (HR 0 None (bs_inter (k_set r) (bs_range 0 (cpu_last + 1))) 0, w1).

  (* hwloc_linux_get_tid_last_cpu_location: tid 0 is replaced by gettid() (the caller is task 1 of the
     scripted kernel); the kernel answers K_lastcpu with the bytes of /proc/<tid>/stat in k_list *)
  Definition get_tid_last (tid : Z) (w : lw) : hres * lw :=
    let (r, w1) := kc (K_lastcpu (if (tid =? 0)%Z then 1%Z else tid)) w in
    if (k_rc r <? 0)%Z then (hfail ENOSYS, w1)
    else match parse_stat (map Z.to_N (k_list r)) with
         | Some i => (HR 0 None (bs_single (Z.to_N i)) 0, w1)
         | None => (hfail ENOSYS, w1)
         end.

  (* hwloc_linux_foreach_proc_tid *)
  Section Foreach.
    Variable A : Type.
    Variable cb : Z -> nat -> A -> lw -> (bool * err * A) * lw.   (* ok, errno on failure, callback data *)
    Fixpoint foreach_pass (tids : list Z) (idx : nat) (a : A) (failed : nat) (ferr : err) (w : lw) : (A * nat * err) * lw :=
      match tids with
      | [] => ((a, failed, ferr), w)
      | t :: rest =>
        let '((ok, e, a1), w1) := cb t idx a w in
        if ok then foreach_pass rest (S idx) a1 failed ferr w1
        else foreach_pass rest (S idx) a1 (S failed) e w1
      end.
    Fixpoint foreach_retry (fuel : nat) (pid : Z) (tids : list Z) (a : A) (w : lw) : (Z * err * A) * lw :=
      let '((a1, failed, ferr), w1) := foreach_pass tids 0 a 0 E0 w in
      let (r, w2) := kc (K_tasklist pid) w1 in
      if (k_rc r <? 0)%Z then ((-1, k_errno r, a1)%Z, w2)
      else if negb (zeqb_list (k_list r) tids) || ((0 <? failed) && negb (failed =? length tids))%nat then
        match fuel with
        | O => ((-1, EOTHER (* EAGAIN *), a1)%Z, w2)
        | S f => foreach_retry f pid (k_list r) a1 w2
        end
      else if (0 <? failed)%nat then ((-1, ferr, a1)%Z, w2) else ((0, E0, a1)%Z, w2).
    Definition foreach_proc_tid (pid : Z) (a : A) (w : lw) : (Z * err * A) * lw :=
      let (r, w1) := kc (K_tasklist pid) w in
      if (k_rc r <? 0)%Z then ((-1, if err_eqb (k_errno r) ENOENT then EINVAL else k_errno r, a)%Z, w1)
      else foreach_retry 10 pid (k_list r) a w1.
  End Foreach.

  Definition of_foreach (r : (Z * err * bset) * lw) : hres * lw :=
    let '((rc, e, a), w) := r in (HR rc (if (rc <? 0)%Z then Some e else None) a 0, w).

  Definition set_pid_cpubind (pid : Z) (set : bset) (w : lw) : hres * lw :=
    of_foreach (foreach_proc_tid bset
      (fun tid _ a w => let (r, w1) := set_tid_cpubind tid set w in
                        ((0 <=? hr_rc r, match hr_errno r with Some e => e | None => E0 end, a)%Z, w1)) pid bs_empty w).
  Definition get_pid_cpubind (pid : Z) (flags : N) (w : lw) : hres * lw :=
    of_foreach (foreach_proc_tid bset
      (fun tid idx cpuset w =>
         let (r, w1) := get_tid_cpubind tid w in
         if negb (hr_rc r =? 0)%Z then ((false, match hr_errno r with Some e => e | None => E0 end, cpuset), w1) else
         let cpuset0 := match idx with O => bs_empty | _ => cpuset end in
         if flag HWLOC_CPUBIND_STRICT flags then
           match idx with
           | O => ((true, E0, hr_set r), w1)
           | _ => if bs_eqb cpuset0 (hr_set r) then ((true, E0, cpuset0), w1) else ((false, EXDEV, cpuset0), w1)
           end
         else ((true, E0, bs_union cpuset0 (hr_set r)), w1)) pid bs_empty w).
  Definition get_pid_last (pid : Z) (w : lw) : hres * lw :=
    of_foreach (foreach_proc_tid bset
      (fun tid idx cpuset w =>
         let (r, w1) := get_tid_last tid w in
         if negb (hr_rc r =? 0)%Z then ((false, match hr_errno r with Some e => e | None => E0 end, cpuset), w1) else
         let cpuset0 := match idx with O => bs_empty | _ => cpuset end in
         ((true, E0, bs_union cpuset0 (hr_set r)), w1)) pid bs_empty w).

  (* ---- membind ---- *)
  Definition zN (n : N) : Z := Z.of_N n.
  (* hwloc_linux_membind_policy_from_hwloc *)
  Definition linux_policy (policy : Z) (flags : N) : option Z :=
    if (policy =? HWLOC_MEMBIND_DEFAULT)%Z then Some (zN MPOL_DEFAULT)
    else if (policy =? HWLOC_MEMBIND_FIRSTTOUCH)%Z then Some (zN MPOL_LOCAL)
    else if (policy =? HWLOC_MEMBIND_BIND)%Z then
      Some (if flag HWLOC_MEMBIND_STRICT flags then zN MPOL_BIND else zN MPOL_PREFERRED_MANY)
    else if (policy =? HWLOC_MEMBIND_INTERLEAVE)%Z then Some (zN MPOL_INTERLEAVE)
    else if (policy =? HWLOC_MEMBIND_WEIGHTED_INTERLEAVE)%Z then Some (zN MPOL_WEIGHTED_INTERLEAVE)
    else None.
  (* hwloc_linux_membind_policy_to_hwloc *)
  Definition hwloc_policy (lp : Z) : option Z :=
    if (lp =? zN MPOL_DEFAULT)%Z || (lp =? zN MPOL_LOCAL)%Z then Some HWLOC_MEMBIND_FIRSTTOUCH
    else if (lp =? zN MPOL_PREFERRED)%Z || (lp =? zN MPOL_PREFERRED_MANY)%Z || (lp =? zN MPOL_BIND)%Z then Some HWLOC_MEMBIND_BIND
    else if (lp =? zN MPOL_INTERLEAVE)%Z then Some HWLOC_MEMBIND_INTERLEAVE
    else if (lp =? zN MPOL_WEIGHTED_INTERLEAVE)%Z then Some HWLOC_MEMBIND_WEIGHTED_INTERLEAVE
    else None.

  (* hwloc_linux_membind_mask_from_nodeset: (max_os_index, mask words below it) *)
  Definition mask_from_nodeset (ns : bset) : N * bset :=
    let ns := if bs_is_full ns then bs_single 0 else ns in
    let last := match bs_last ns with Some l => l | None => 0 end in
    let maxi := (last + 1 + HWLOC_BITS_PER_LONG - 1) / HWLOC_BITS_PER_LONG * HWLOC_BITS_PER_LONG in
    (maxi, bs_inter ns (bs_range 0 maxi)).
  (* memset(fullmask, 0xff, ...): every node below max_os_index *)
  Definition migrate_fullmask (maxi : N) : bset := bs_range 0 maxi.

  Definition pm_fix (pm lp : Z) : Z :=
    if (pm =? 1)%Z && (lp =? zN MPOL_PREFERRED_MANY)%Z then zN MPOL_PREFERRED else lp.

  (* the tail shared by set_thisthread_membind / set_area_membind once the mask is known:
     issue the call, probe MPOL_PREFERRED_MANY support the first time *)
  Definition with_pm_probe (issue : Z -> lw -> kres * lw) (lp pm : Z) (w : lw) : kres * Z * lw :=
    let (r, w1) := issue lp w in
    if (lp =? zN MPOL_PREFERRED_MANY)%Z && (pm =? -1)%Z then
      if (k_rc r =? 0)%Z then (r, 0%Z, w1)
      else if err_eqb (k_errno r) EINVAL then
        let (r2, w2) := issue (zN MPOL_PREFERRED) w1 in
        if (k_rc r2 =? 0)%Z then (r2, 1%Z, w2) else (r2, pm, w2)
      else (r, pm, w1)
    else (r, pm, w1).
  Definition set_pm_thread (pm : Z) (w : lw) : lw := LW (l_k w) (l_pm_area w) pm (l_ktrace w).
  Definition set_pm_area (pm : Z) (w : lw) : lw := LW (l_k w) pm (l_pm_thread w) (l_ktrace w).

  (* hwloc_linux_set_thisthread_membind *)
  Definition linux_set_thisthread_membind (ns : bset) (policy : Z) (flags : N) (w : lw) : hres * lw :=
    match linux_policy policy flags with
    | None => (hfail ENOSYS, w)
    | Some lp0 =>
      let lp := pm_fix (l_pm_thread w) lp0 in
      if (lp =? zN MPOL_DEFAULT)%Z then let (r, w1) := kc (K_set_mempolicy lp None 0) w in (of_k r, w1)
      else if (lp =? zN MPOL_LOCAL)%Z then
        if negb (bs_eqb ns (t_cnodeset T)) then (hfail EXDEV, w)
        else let (r, w1) := kc (K_set_mempolicy (zN MPOL_PREFERRED) None 0) w in (of_k r, w1)
      else
        let (maxi, mask) := mask_from_nodeset ns in
        let go (w : lw) :=
          let '(r, pm, w1) := with_pm_probe (fun m => kc (K_set_mempolicy m (Some mask) (maxi + 1))) lp (l_pm_thread w) w in
          ((if (k_rc r <? 0)%Z then hfail (k_errno r) else hok), set_pm_thread pm w1) in
        if flag HWLOC_MEMBIND_MIGRATE flags then
          let (r, w1) := kc (K_migrate_pages (maxi + 1) (migrate_fullmask maxi) mask) w in
          if (k_rc r <? 0)%Z && flag HWLOC_MEMBIND_STRICT flags then (hfail (k_errno r), w1) else go w1
        else go w
    end.

  (* hwloc_linux_set_area_membind (address page aligned) *)
  Definition linux_set_area_membind (len : N) (ns : bset) (policy : Z) (flags : N) (w : lw) : hres * lw :=
    match linux_policy policy flags with
    | None => (hfail ENOSYS, w)
    | Some lp0 =>
      let lp := pm_fix (l_pm_area w) lp0 in
      if (lp =? zN MPOL_DEFAULT)%Z then let (r, w1) := kc (K_mbind len lp None 0 0) w in (of_k r, w1)
      else if (lp =? zN MPOL_LOCAL)%Z then
        if negb (bs_eqb ns (t_cnodeset T)) then (hfail EXDEV, w)
        else let (r, w1) := kc (K_mbind len (zN MPOL_PREFERRED) None 0 0) w in (of_k r, w1)
      else
        let (maxi, mask) := mask_from_nodeset ns in
        let mfl := if flag HWLOC_MEMBIND_MIGRATE flags
                   then N.lor MPOL_MF_MOVE (if flag HWLOC_MEMBIND_STRICT flags then MPOL_MF_STRICT else 0) else 0 in
        let '(r, pm, w1) := with_pm_probe (fun m => kc (K_mbind len m (Some mask) (maxi + 1) mfl)) lp (l_pm_area w) w in
        ((if (k_rc r <? 0)%Z then hfail (k_errno r) else hok), set_pm_area pm w1)
    end.

  (* hwloc_alloc_mmap / hwloc_linux_alloc_membind *)
  Definition linux_alloc (len : N) (w : lw) : hres * lw :=
    let (r, w1) := kc (K_mmap len) w in
    if (k_rc r <? 0)%Z then (HR 0 (Some (k_errno r)) bs_empty 0, w1) else (HR 1 None bs_empty 0, w1).
  Definition linux_alloc_membind (len : N) (ns : bset) (policy : Z) (flags : N) (w : lw) : hres * lw :=
    let (a, w1) := linux_alloc len w in
    if (hr_rc a =? 0)%Z then (a, w1) else
    let (r, w2) := linux_set_area_membind len ns policy flags w1 in
    if (hr_rc r <? 0)%Z && flag HWLOC_MEMBIND_STRICT flags then (HR 0 (hr_errno r) bs_empty 0, w2)
    else (HR 1 (hr_errno r) bs_empty 0, w2).

  Definition below_max (s : bset) : bset := bs_inter s (bs_range 0 max_numnodes).
  (* "MPOL_PREFERRED with empty mask is MPOL_LOCAL" *)
  Definition page_lp (r : kres) : Z :=
    if (k_mode r =? zN MPOL_PREFERRED)%Z && bs_is_empty (below_max (k_set r)) then zN MPOL_LOCAL else k_mode r.
  Definition lp_is_local (lp : Z) : bool := (lp =? zN MPOL_DEFAULT)%Z || (lp =? zN MPOL_LOCAL)%Z.
  (* hwloc_linux_get_thisthread_membind *)
  Definition linux_get_thisthread_membind (w : lw) : hres * lw :=
    let (r, w1) := kc (K_get_mempolicy false max_numnodes 0) w in
    if (k_rc r <? 0)%Z then (hfail (k_errno r), w1) else
    let lp := page_lp r in
    let ns := if lp_is_local lp then t_nodeset T else below_max (k_set r) in
    match hwloc_policy lp with
    | Some p => (HR 0 None ns p, w1)
    | None => (HR (-1) (Some EINVAL) ns 0, w1)
    end.

  (* the page loop of hwloc_linux_get_area_membind *)
  Record area_acc := AA { aa_lp : Z; aa_gp : Z; aa_mixed : bool; aa_full : bool; aa_first : bool; aa_gmask : bset }.
  Fixpoint area_pages (n : nat) (a : area_acc) (w : lw) : (option err * area_acc) * lw :=
    match n with
    | O => ((None, a), w)
    | S n' =>
      let (r, w1) := kc (K_get_mempolicy true max_numnodes MPOL_F_ADDR) w in
      if (k_rc r <? 0)%Z then ((Some (k_errno r), a), w1) else
      let lp := page_lp r in
      let gp := if aa_first a then lp else aa_gp a in
      let mixed := if aa_first a then aa_mixed a else if negb (aa_gp a =? lp)%Z then true else aa_mixed a in
      let isfull := aa_full a || lp_is_local lp in
      let gm := if isfull then aa_gmask a else bs_union (aa_gmask a) (below_max (k_set r)) in
      area_pages n' (AA lp gp mixed isfull false gm) w1
    end.
  (* memset(globallinuxmask, 0, all max_os_index/BITS_PER_LONG words) *)
  Definition area_gmask0 : bset := bs_empty.
  Definition pages_of (len : N) : nat := N.to_nat ((len + 4095) / 4096).
  Definition linux_get_area_membind (len : N) (w : lw) : hres * lw :=
    let '((e, a), w1) := area_pages (pages_of len) (AA 0 0 false false true area_gmask0) w in
    match e with
    | Some e => (hfail e, w1)
    | None =>
      let ns := if aa_full a then t_nodeset T else aa_gmask a in
      if aa_mixed a then (HR 0 None ns HWLOC_MEMBIND_MIXED, w1)
      else match hwloc_policy (aa_lp a) with
           | Some p => (HR 0 None ns p, w1)
           | None => (hfail EINVAL, w1)
           end
    end.

  (* hwloc_linux_get_area_memlocation: k_list = the status array *)
  Definition linux_get_area_memlocation (len : N) (w : lw) : hres * lw :=
    let (r, w1) := kc (K_move_pages (N.of_nat (pages_of len))) w in
    if (k_rc r <? 0)%Z then (hfail (k_errno r), w1)
    else (HR 0 None (fold_left (fun acc s => if (0 <=? s)%Z then bs_add (Z.to_N s) acc else acc) (k_list r) bs_empty) 0, w1).

  Definition enosys_if_pid (k : lw -> hres * lw) (w : lw) : hres * lw :=
    if negb (tpid =? 0)%Z then (hfail ENOSYS, w) else k w.
  Definition the_set (c : hcall) : bset := match hc_set c with Some s => s | None => bs_empty end.
  Definition pid_of (c : hcall) : Z := if (hc_who c =? 0)%Z then tpid else hc_who c.

  (* hwloc_set_linuxfs_hooks: every installed hook, as one function of the hook call *)
  Definition linux_os (c : hcall) (w : lw) : hres * lw :=
    match hc_id c with
    | H_set_thisproc_cpubind => set_pid_cpubind tpid (the_set c) w
    | H_get_thisproc_cpubind => get_pid_cpubind tpid (hc_flags c) w
    | H_set_thisthread_cpubind => enosys_if_pid (set_tid_cpubind 0 (the_set c)) w
    | H_get_thisthread_cpubind => enosys_if_pid (get_tid_cpubind 0) w
    | H_set_proc_cpubind =>
      if flag HWLOC_CPUBIND_THREAD (hc_flags c) then set_tid_cpubind (pid_of c) (the_set c) w else set_pid_cpubind (pid_of c) (the_set c) w
    | H_get_proc_cpubind =>
      if flag HWLOC_CPUBIND_THREAD (hc_flags c) then get_tid_cpubind (pid_of c) w else get_pid_cpubind (pid_of c) (hc_flags c) w
    (* tid == pthread_self() is who = 1 ("self"); another thread goes through pthread_setaffinity_np,
       which ends in the same system call on that thread *)
    | H_set_thread_cpubind => enosys_if_pid (set_tid_cpubind (if (hc_who c =? 1)%Z then 0 else hc_who c) (the_set c)) w
    | H_get_thread_cpubind => enosys_if_pid (if (hc_who c =? 1)%Z then get_tid_cpubind 0 else get_other_thread_cpubind (hc_who c)) w
    | H_get_thisproc_last => get_pid_last tpid w
    | H_get_thisthread_last =>
      enosys_if_pid (fun w => let (r, w1) := kc K_getcpu w in
                              if (0 <=? k_rc r)%Z then (HR 0 None (bs_single (Z.to_N (k_rc r))) 0, w1) else get_tid_last 0 w1) w
    | H_get_proc_last => if flag HWLOC_CPUBIND_THREAD (hc_flags c) then get_tid_last (pid_of c) w else get_pid_last (pid_of c) w
    | H_set_thisthread_membind => linux_set_thisthread_membind (the_set c) (hc_policy c) (hc_flags c) w
    | H_get_thisthread_membind => linux_get_thisthread_membind w
    | H_set_area_membind => linux_set_area_membind (hc_len c) (the_set c) (hc_policy c) (hc_flags c) w
    | H_get_area_membind => linux_get_area_membind (hc_len c) w
    | H_get_area_memlocation => linux_get_area_memlocation (hc_len c) w
    | H_alloc => linux_alloc (hc_len c) w
    | H_alloc_membind => linux_alloc_membind (hc_len c) (the_set c) (hc_policy c) (hc_flags c) w
    | H_set_thisproc_membind | H_get_thisproc_membind | H_set_proc_membind | H_get_proc_membind => (hfail ENOSYS, w) (* never installed *)
    end.

  (* a whole API call on a native Linux topology *)
  Definition linux_run (heap : N -> bool) (a : apicall) (w : lw) : ares * st lw :=
    run lw linux_os heap linux_present T a w.
End Linux.

Arguments LW {KW}.
Arguments l_k {KW}. Arguments l_pm_area {KW}. Arguments l_pm_thread {KW}. Arguments l_ktrace {KW}.

(* the masks a kernel call carries *)
Definition kcall_cpumask (c : kcall) : option bset := match c with K_setaffinity _ m => Some m | _ => None end.
Definition kcall_nodemask (c : kcall) : option bset :=
  match c with
  | K_set_mempolicy _ m _ => m
  | K_mbind _ _ m _ _ => m
  | K_migrate_pages _ _ new => Some new
  | _ => None
  end.

(* ------------------------------------------------------------------ *)
(* topology-x86.c look_procs: save the binding, bind to each PU in turn,  *)
(* restore.  The kernel is idealised here: a thread's affinity is a set;   *)
(* sched_setaffinity(b) fails when b has no allowed CPU and otherwise      *)
(* installs b restricted to the allowed CPUs; sched_getaffinity reads it.  *)
Definition ideal_set (allowed b cur : bset) : Z * bset :=
  if bs_is_empty (bs_inter b allowed) then ((-1)%Z, cur) else (0%Z, bs_inter b allowed).
Fixpoint x86_bind_loop (allowed : bset) (restrict_set : option bset) (procs : list N) (cur : bset) (visited : list N) : bset * list N :=
  match procs with
  | [] => (cur, visited)
  | i :: rest =>
    if match restrict_set with Some r => negb (mem i r) | None => false end then x86_bind_loop allowed restrict_set rest cur visited
    else let (rc, cur1) := ideal_set allowed (bs_single i) cur in
         if negb (rc =? 0)%Z then x86_bind_loop allowed restrict_set rest cur1 visited
         else x86_bind_loop allowed restrict_set rest cur1 (visited ++ [i])   (* look_proc(i) runs bound to PU i *)
  end.
(* look_procs: [orig] is what its get_cpubind(orig_cpuset, STRICT) call returned; it is restored at the end *)
Definition x86_look_procs (allowed : bset) (restrict_set : option bset) (nbprocs : nat) (orig cur : bset) : bset * list N :=
  let (cur1, visited) := x86_bind_loop allowed restrict_set (map N.of_nat (seq 0 nbprocs)) cur [] in
  (snd (ideal_set allowed orig cur1), visited).        (* set_cpubind(orig_cpuset, 0) *)

(* hwloc_look_x86 on Linux: get_cpubind / set_cpubind are the THISTHREAD hooks (both exist), so the binding
   that is saved is the calling THREAD's; with RESTRICT_TO_CPUBINDING restrict_set is the PROCESS binding
   (get_thisproc_cpubind: the union over all threads), dropped when empty.  [thread] is the calling thread's
   affinity, [others] the union of the other threads' affinities.  Returns the calling thread's affinity
   after the backend ran and the PUs it visited. *)
Definition x86_query_thisthread (thread others : bset) : bset := thread.
Definition x86_query_thisproc (thread others : bset) : bset := bs_union thread others.
Definition x86_look (allowed : bset) (restrict_to_cpubinding : bool) (nbprocs : nat) (thread others : bset) : bset * list N :=
  let restrict_set :=
    if restrict_to_cpubinding then
      let p := x86_query_thisproc thread others in if bs_is_empty p then None else Some p
    else None in
  let orig := x86_query_thisthread thread others in        (* the explicit "binding queried" step *)
  x86_look_procs allowed restrict_set nbprocs orig thread.
(* the variant that saves the process binding instead (what a "reuse restrict_set" shortcut does) *)
Definition x86_look_saving_proc (allowed : bset) (nbprocs : nat) (thread others : bset) : bset * list N :=
  let p := x86_query_thisproc thread others in
  x86_look_procs allowed (if bs_is_empty p then None else Some p) nbprocs p thread.
