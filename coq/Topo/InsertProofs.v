(* C02: hwloc___insert_object_by_cpuset keeps the sibling lists well formed
   ("insert_keeps_order"): after a successful insertion, at every level the
   cpusets of siblings are pairwise disjoint, sorted by first index, included
   in their parent's and cover it; the new object's children are the old
   children it contains, in order.  Prop-level statement over the cpusets. *)
From Coq Require Import List NArith ZArith Bool Lia Permutation Sorted.
From HV Require Import Base.BSet Gen.Tables Text.TypeOrder Topo.Dump Topo.WFCheck Topo.Obj Topo.Insert Topo.Api Topo.ApiProofs.
Import ListNotations.
Local Open Scope N_scope.

(* ---------- sets as predicates ---------- *)

Definition disj (a b : bset) : Prop := forall i, mem i a = true -> mem i b = true -> False.
Definition sub (a b : bset) : Prop := forall i, mem i a = true -> mem i b = true.
Definition nonempty (a : bset) : Prop := exists i, mem i a = true.
(* a sorts no later than b in the order of hwloc_bitmap_compare_first *)
Definition fle (a b : bset) : Prop := first_lt b a = false.

Lemma disj_sym a b : disj a b -> disj b a.
Proof. intros H i Hb Ha. exact (H i Ha Hb). Qed.
Lemma intersects_false_disj a b : bs_intersects a b = false -> disj a b.
Proof.
  intros H i Ha Hb. assert (bs_intersects a b = true) by (apply bs_intersects_spec; exists i; split; assumption). congruence.
Qed.
Lemma empty_disj a b : bs_is_empty a = true -> disj a b.
Proof. intros H i Ha _. rewrite bs_is_empty_mem in H. rewrite H in Ha. discriminate. Qed.
Lemma not_empty_nonempty a : bs_is_empty a = false -> nonempty a.
Proof.
  intros H. destruct (bs_first a) as [k|] eqn:E.
  - exists k. apply (bs_first_some a k E).
  - apply bs_first_none in E. subst a. discriminate.
Qed.
Lemma subset_sub a b : bs_subset a b = true -> sub a b.
Proof. intros H. unfold sub. apply bs_subset_spec. exact H. Qed.
Lemma eqb_sub a b : bs_eqb a b = true -> sub b a.
Proof. intros H. apply bs_eqb_spec in H. subst. intros i Hi; exact Hi. Qed.

(* the five answers of hwloc_bitmap_compare_inclusion *)
Lemma cmp_incl_DIFFERENT a b : cmp_incl a b = DIFFERENT -> disj a b.
Proof.
  unfold cmp_incl. destruct (bs_eqb a b); [discriminate|]. destruct (bs_subset a b); [discriminate|].
  destruct (bs_subset b a); [discriminate|]. destruct (bs_intersects a b) eqn:E; [discriminate|].
  intros _. apply intersects_false_disj, E.
Qed.
Lemma cmp_incl_CONTAINS a b : cmp_incl a b = CONTAINS -> sub b a.
Proof.
  unfold cmp_incl. destruct (bs_eqb a b); [discriminate|]. destruct (bs_subset a b); [discriminate|].
  destruct (bs_subset b a) eqn:E; [|destruct (bs_intersects a b); discriminate]. intros _. apply subset_sub, E.
Qed.
Lemma cmp_incl_EQUAL a b : cmp_incl a b = EQUAL -> a = b.
Proof.
  unfold cmp_incl. destruct (bs_eqb a b) eqn:E; [intros _; apply bs_eqb_spec, E|].
  destruct (bs_subset a b); [discriminate|]. destruct (bs_subset b a); [discriminate|]. destruct (bs_intersects a b); discriminate.
Qed.
Lemma cmp_incl_INCLUDED a b : cmp_incl a b = INCLUDED -> sub a b.
Proof.
  unfold cmp_incl. destruct (bs_eqb a b); [discriminate|]. destruct (bs_subset a b) eqn:E; [intros _; apply subset_sub, E|].
  destruct (bs_subset b a); [discriminate|]. destruct (bs_intersects a b); discriminate.
Qed.

(* the order of first indexes *)
Lemma fle_trans a b c : fle a b -> fle b c -> fle a c.
Proof.
  unfold fle, first_lt. destruct (bs_first a), (bs_first b), (bs_first c); try discriminate; try reflexivity;
    rewrite ?N.ltb_ge, ?N.ltb_lt in *; intros; try lia; try discriminate.
Qed.
Lemma first_lt_fle a b : first_lt a b = true -> fle a b.
Proof.
  unfold fle, first_lt. destruct (bs_first a), (bs_first b); try discriminate; try reflexivity.
  intros H. apply N.ltb_lt in H. apply N.ltb_ge. lia.
Qed.
Lemma not_first_lt_fle a b : first_lt a b = false -> fle b a.
Proof. intros H; exact H. Qed.

(* ---------- payloads with a usable cpuset ---------- *)

(* cpuset present; complete_cpuset equal to it or absent (a user Group before insertion).
   Then both comparison helpers look at the cpuset only. *)
Definition wfk (d : dobj) : Prop := o_cs d <> None /\ (o_ccs d = o_cs d \/ o_ccs d = None).

Lemma obj_first_lt_key a b : wfk a -> wfk b -> obj_first_lt a b = first_lt (dcs a) (dcs b).
Proof.
  intros [Ha Ea] [Hb Eb]. unfold obj_first_lt, dcs.
  destruct (o_cs a) as [x|], (o_cs b) as [y|], (o_ccs a) as [x'|], (o_ccs b) as [y'|]; try contradiction;
    destruct Ea as [Ea|Ea], Eb as [Eb|Eb]; try discriminate; try (injection Ea as ->); try (injection Eb as ->); reflexivity.
Qed.

Lemma cmp_sets_key a b : wfk a -> wfk b ->
  cmp_sets a b = if bs_is_empty (dcs a) || bs_is_empty (dcs b) then DIFFERENT else cmp_incl (dcs a) (dcs b).
Proof.
  intros [Ha Ea] [Hb Eb]. unfold cmp_sets, dcs.
  destruct (o_cs a) as [x|], (o_cs b) as [y|], (o_ccs a) as [x'|], (o_ccs b) as [y'|]; try contradiction;
    destruct Ea as [Ea|Ea], Eb as [Eb|Eb]; try discriminate; try (injection Ea as ->); try (injection Eb as ->); reflexivity.
Qed.

Lemma cmp_sets_DIFFERENT a b : wfk a -> wfk b -> cmp_sets a b = DIFFERENT -> disj (dcs a) (dcs b).
Proof.
  intros Ha Hb. rewrite (cmp_sets_key a b Ha Hb).
  destruct (bs_is_empty (dcs a)) eqn:E1; [intros _; apply empty_disj, E1|].
  destruct (bs_is_empty (dcs b)) eqn:E2; [intros _; apply disj_sym, empty_disj, E2|].
  cbn [orb]. apply cmp_incl_DIFFERENT.
Qed.
Lemma cmp_sets_nonempty a b r : wfk a -> wfk b -> cmp_sets a b = r -> r <> DIFFERENT -> nonempty (dcs a) /\ nonempty (dcs b).
Proof.
  intros Ha Hb. rewrite (cmp_sets_key a b Ha Hb).
  destruct (bs_is_empty (dcs a)) eqn:E1; [intros <- H; contradiction|].
  destruct (bs_is_empty (dcs b)) eqn:E2; [intros <- H; contradiction|].
  intros _ _. split; apply not_empty_nonempty; assumption.
Qed.
Lemma cmp_sets_incl a b r : wfk a -> wfk b -> cmp_sets a b = r -> r <> DIFFERENT -> cmp_incl (dcs a) (dcs b) = r.
Proof.
  intros Ha Hb. rewrite (cmp_sets_key a b Ha Hb).
  destruct (bs_is_empty (dcs a)) eqn:E1; [intros <- H; contradiction|].
  destruct (bs_is_empty (dcs b)) eqn:E2; [intros <- H; contradiction|].
  intros H _; exact H.
Qed.

(* ---------- one level: bookkeeping of the loop ---------- *)

Definition okey (o : obj) : bset := dcs (odata o).

Lemma odata_with_mchildren o m : odata (with_mchildren o m) = odata o.
Proof. destruct o; reflexivity. Qed.
Lemma odata_with_children o n : odata (with_children o n) = odata o.
Proof. destruct o; reflexivity. Qed.
Lemma onch_with_children o n : onch (with_children o n) = n.
Proof. destruct o; reflexivity. Qed.
Lemma okey_with_mchildren o m : okey (with_mchildren o m) = okey o.
Proof. unfold okey. now rewrite odata_with_mchildren. Qed.

Section Level.
  Variable rec : obj -> obj -> obj * outcome.
  Variable dms : list N.
  Variable dm_new : bool.
  Variable d : dobj.
  Variables m i x : list obj.
  Variable od : dobj.          (* payload of OBJ: constant through the loop *)

  Definition vd (c : obj) : verdict := verdict_of dms dm_new od (odata c).
  Definition keepb (c : obj) : bool := match vd c with VDifferent => true | _ => false end.
  Definition flat2 (c : obj) : Prop := match vd c with VDifferent | VTake _ => True | _ => False end.
  Definition ltb_o (c : obj) : bool := obj_first_lt od (odata c).

  (* where OBJ will be linked among the kept children: after A (none of which sorts after OBJ), before B *)
  Definition putp_inv (kept_rev : list obj) (putp : option nat) : Prop :=
    exists A B, rev kept_rev = A ++ B /\ Forall (fun c => ltb_o c = false) A /\
                match putp with
                | Some k => k = List.length A /\ exists b B', B = b :: B' /\ ltb_o b = true
                | None => B = []
                end.

  Lemma ins_loop_level : forall l kept_rev taken putp o,
    odata o = od -> Forall flat2 l -> putp_inv kept_rev putp ->
    exists A B o',
      ins_loop rec dms dm_new d m i x l kept_rev taken putp o = (Obj d (A ++ o' :: B) m i x, OInserted) /\
      odata o' = od /\
      map okey (onch o') = map okey taken ++ map okey (filter (fun c => negb (keepb c)) l) /\
      A ++ B = rev kept_rev ++ filter keepb l /\
      Forall (fun c => ltb_o c = false) A /\
      (B = [] \/ exists b B', B = b :: B' /\ ltb_o b = true) /\
      (forall P : obj -> Prop, (forall c0 mm, P c0 -> P (with_mchildren c0 mm)) -> Forall P taken -> Forall P l -> Forall P (onch o')).
  Proof.
    induction l as [|c tl IH]; intros kept_rev taken putp o Ho Hall Hp.
    - destruct Hp as (A & B & E & HA & Hm). cbn [ins_loop filter map]. rewrite !app_nil_r.
      exists A, B, (with_children o taken). unfold link_at. rewrite E.
      repeat split.
      + destruct putp as [k|].
        * destruct Hm as [-> _]. rewrite firstn_app, Nat.sub_diag, firstn_all, skipn_app, Nat.sub_diag, skipn_all. cbn [firstn skipn].
          now rewrite app_nil_r.
        * subst B. now rewrite app_nil_r.
      + now rewrite odata_with_children.
      + now rewrite onch_with_children.
      + exact HA.
      + destruct putp; [right; destruct Hm as [_ Hb]; exact Hb|left; exact Hm].
      + intros P HP Ht _. rewrite onch_with_children. exact Ht.
    - inversion Hall as [|c0 tl0 Hc Htl]; subst c0 tl0. cbn [ins_loop].
      unfold flat2, vd in Hc. cbn [filter]. rewrite Ho.
      destruct (verdict_of dms dm_new od (odata c)) as [| | | | | |mt] eqn:V; try contradiction.
      + (* VDifferent: CHILD stays *)
        assert (Hk : keepb c = true) by (unfold keepb, vd; rewrite V; reflexivity). rewrite Hk.
        assert (Hp' : putp_inv (c :: kept_rev) (next_putp putp kept_rev o c)).
        { destruct Hp as (A & B & E & HA & Hm). unfold next_putp. destruct putp as [k|].
          - destruct Hm as [-> (b & B' & -> & Hb)]. exists A, ((b :: B') ++ [c]). cbn [rev]. rewrite E, <- app_assoc.
            repeat split; [exact HA|]. exists b, (B' ++ [c]). split; [reflexivity|exact Hb].
          - subst B. rewrite app_nil_r in E. rewrite Ho. fold (ltb_o c). destruct (ltb_o c) eqn:L.
            + exists A, [c]. cbn [rev]. rewrite E. repeat split; [exact HA| |].
              * rewrite <- E, rev_length. reflexivity.
              * exists c, []. split; [reflexivity|exact L].
            + exists (A ++ [c]), []. cbn [rev]. rewrite E, app_nil_r. repeat split.
              apply Forall_app. split; [exact HA|constructor; [exact L|constructor]]. }
        destruct (IH (c :: kept_rev) taken _ o Ho Htl Hp') as (A & B & o' & E1 & E2 & E3 & E4 & E5 & E6 & E7).
        exists A, B, o'. rewrite E1. split; [reflexivity|]. split; [exact E2|]. split; [cbn [negb]; exact E3|].
        split; [|split; [exact E5|split; [exact E6|]]].
        * rewrite E4. cbn [rev]. rewrite <- app_assoc. reflexivity.
        * intros P HP Ht Hl. inversion Hl; subst. apply (E7 P HP Ht); assumption.
      + (* VTake: CHILD moves below OBJ *)
        assert (Hk : keepb c = false) by (unfold keepb, vd; rewrite V; reflexivity). rewrite Hk.
        assert (G : forall c' o2, okey c' = okey c -> odata o2 = od ->
                  exists A B o',
                    ins_loop rec dms dm_new d m i x tl kept_rev (taken ++ [c']) putp o2 = (Obj d (A ++ o' :: B) m i x, OInserted) /\
                    odata o' = od /\
                    map okey (onch o') = map okey taken ++ okey c :: map okey (filter (fun c0 => negb (keepb c0)) tl) /\
                    A ++ B = rev kept_rev ++ filter keepb tl /\
                    Forall (fun c0 => ltb_o c0 = false) A /\ (B = [] \/ exists b B', B = b :: B' /\ ltb_o b = true) /\
                    (forall P : obj -> Prop, (forall c0 mm, P c0 -> P (with_mchildren c0 mm)) -> Forall P taken -> P c' -> Forall P tl -> Forall P (onch o'))).
        { intros c' o2 Hkk Ho2. destruct (IH kept_rev (taken ++ [c']) putp o2 Ho2 Htl Hp) as (A & B & o' & E1 & E2 & E3 & E4 & E5 & E6 & E7).
          exists A, B, o'. split; [exact E1|]. split; [exact E2|]. split; [|split; [exact E4|split; [exact E5|split; [exact E6|]]]].
          - rewrite E3, map_app. cbn [map]. rewrite Hkk, <- app_assoc. reflexivity.
          - intros P HP Ht Hc' Hl. apply (E7 P HP); [apply Forall_app; split; [exact Ht|constructor; [exact Hc'|constructor]]|exact Hl]. }
        cbn [negb map]. destruct mt.
        * destruct (G (with_mchildren c []) (with_mchildren o (omch c)) (okey_with_mchildren c []) ltac:(rewrite odata_with_mchildren; exact Ho))
            as (A & B & o' & E1 & E2 & E3 & E4 & E5 & E6 & E7).
          exists A, B, o'. repeat (split; [assumption|]). intros P HP Ht Hl. inversion Hl; subst. apply (E7 P HP Ht); [apply HP; assumption|assumption].
        * destruct (G c o eq_refl Ho) as (A & B & o' & E1 & E2 & E3 & E4 & E5 & E6 & E7).
          exists A, B, o'. repeat (split; [assumption|]). intros P HP Ht Hl. inversion Hl; subst. apply (E7 P HP Ht); assumption.
  Qed.
End Level.

(* ---------- well-formed sibling lists ---------- *)

Record level_ok (pk : bset) (ks : list bset) : Prop := mkLevelOk {
  lo_disj : ForallOrdPairs disj ks;                 (* pairwise disjoint *)
  lo_sort : StronglySorted fle ks;                  (* sorted by first index, empty sets last *)
  lo_sub : Forall (fun k => sub k pk) ks;           (* included in the parent's *)
  lo_cover : ks <> [] -> forall i, mem i pk = true -> exists k, In k ks /\ mem i k = true   (* and covering it *)
}.

Lemma SS_map_filter {A B} (R : B -> B -> Prop) (f : A -> B) (p : A -> bool) l :
  StronglySorted R (map f l) -> StronglySorted R (map f (filter p l)).
Proof.
  induction l as [|a tl IH]; cbn [map filter]; intros H; [constructor|].
  inversion H as [|a' tl' H1 H2]; subst. destruct (p a); [|apply IH, H1].
  cbn [map]. constructor; [apply IH, H1|].
  rewrite Forall_forall in *. intros y Hy. apply in_map_iff in Hy as (z & <- & Hz). apply filter_In in Hz as [Hz _].
  apply H2, in_map, Hz.
Qed.
Lemma FOP_map_filter {A B} (R : B -> B -> Prop) (f : A -> B) (p : A -> bool) l :
  ForallOrdPairs R (map f l) -> ForallOrdPairs R (map f (filter p l)).
Proof.
  induction l as [|a tl IH]; cbn [map filter]; intros H; [constructor|].
  inversion H as [|a' tl' H1 H2]; subst. destruct (p a); [|apply IH, H2].
  cbn [map]. constructor; [|apply IH, H2].
  rewrite Forall_forall in *. intros y Hy. apply in_map_iff in Hy as (z & <- & Hz). apply filter_In in Hz as [Hz _].
  apply H1, in_map, Hz.
Qed.

Lemma SS_insert (A B : list bset) s :
  StronglySorted fle (A ++ B) -> Forall (fun a => fle a s) A -> Forall (fun b => fle s b) B ->
  StronglySorted fle (A ++ s :: B).
Proof.
  induction A as [|a A IH]; cbn [app]; intros H HA HB.
  - constructor; assumption.
  - inversion H as [|a' l' H1 H2]; subst. inversion HA as [|a' l' Ha HA']; subst.
    constructor; [apply IH; assumption|].
    apply Forall_app in H2 as [H2a H2b]. apply Forall_app. split; [exact H2a|]. constructor; assumption.
Qed.
Lemma FOP_insert (A B : list bset) s :
  ForallOrdPairs disj (A ++ B) -> Forall (disj s) (A ++ B) -> ForallOrdPairs disj (A ++ s :: B).
Proof.
  induction A as [|a A IH]; cbn [app]; intros H Hs.
  - constructor; assumption.
  - inversion H as [|a' l' H1 H2]; subst. inversion Hs as [|a' l' Ha Hs']; subst.
    constructor; [|apply IH; assumption].
    apply Forall_app in H1 as [H1a H1b]. apply Forall_app. split; [exact H1a|]. constructor; [apply disj_sym, Ha|exact H1b].
Qed.

(* ---------- one level: the semantic statement ---------- *)

Section LevelOrder.
  Variable rec : obj -> obj -> obj * outcome.
  Variable dms : list N.
  Variable dm_new : bool.
  Variable d : dobj.
  Variables m i x : list obj.
  Variable od : dobj.
  Hypothesis Hod : wfk od.

  Notation vdc := (vd dms dm_new od).
  Notation keepc := (keepb dms dm_new od).

  (* a child that moves below OBJ is inside OBJ's cpuset *)
  Lemma take_sub c mt : wfk (odata c) -> vdc c = VTake mt -> sub (okey c) (dcs od).
  Proof.
    intros Hc. unfold vd, verdict_of.
    destruct (cmp_sets od (odata c)) eqn:E; try discriminate.
    - (* EQUAL sets *)
      intros _. apply cmp_sets_incl in E; [|assumption|assumption|discriminate].
      apply cmp_incl_EQUAL in E. unfold okey. rewrite <- E. intros j Hj; exact Hj.
    - intros _. apply cmp_sets_incl in E; [|assumption|assumption|discriminate]. apply cmp_incl_CONTAINS, E.
  Qed.

  (* the class of children lists this level theorem covers: every child is either disjoint from OBJ
     (hwloc_obj_cmp_sets says DIFFERENT) or inside it.  Excluded: merge / replace / recursion / put-back
     (other outcomes), and the known defect where two unmergeable Groups with EQUAL sets become siblings. *)
  Definition clean_child (c : obj) : Prop :=
    match vdc c with
    | VDifferent => cmp_sets od (odata c) = DIFFERENT
    | VTake _ => True
    | _ => False
    end.

  Theorem insert_level_keeps_order l o :
    odata o = od ->
    Forall (fun c => wfk (odata c)) l ->
    level_ok (dcs d) (map okey l) ->
    sub (dcs od) (dcs d) ->
    Forall clean_child l -> l <> [] ->
    exists A B o',
      ins_loop rec dms dm_new d m i x l [] [] None o = (Obj d (A ++ o' :: B) m i x, OInserted) /\
      odata o' = od /\
      A ++ B = filter keepc l /\
      map okey (onch o') = map okey (filter (fun c => negb (keepc c)) l) /\
      level_ok (dcs d) (map okey (A ++ o' :: B)) /\
      level_ok (dcs od) (map okey (onch o')) /\
      (forall P : obj -> Prop, (forall c0 mm, P c0 -> P (with_mchildren c0 mm)) -> Forall P l -> Forall P (onch o')).
  Proof.
    intros Ho Hw [L1 L2 L3 L4] Hsub Hclean Hne.
    assert (Hflat : Forall (flat2 dms dm_new od) l).
    { eapply Forall_impl; [|exact Hclean]. intros c Hc. unfold clean_child in Hc. unfold flat2.
      destruct (vdc c); try contradiction; exact I. }
    assert (Hp0 : putp_inv od [] None).
    { exists [], []. repeat split. constructor. }
    destruct (ins_loop_level rec dms dm_new d m i x od l [] [] None o Ho Hflat Hp0) as (A & B & o' & E1 & E2 & E3 & E4 & E5 & E6 & E7).
    cbn [rev app map] in E3, E4.
    exists A, B, o'. split; [exact E1|]. split; [exact E2|]. split; [exact E4|]. split; [exact E3|].
    assert (Ko : okey o' = dcs od) by (unfold okey; now rewrite E2).
    (* facts about kept / taken children *)
    assert (Hkept : forall c, In c (A ++ B) -> In c l /\ disj (dcs od) (okey c)).
    { intros c Hc. rewrite E4 in Hc. apply filter_In in Hc as [Hin Hk]. split; [exact Hin|].
      rewrite Forall_forall in Hclean, Hw. specialize (Hclean c Hin). unfold clean_child in Hclean.
      unfold keepb in Hk. destruct (vdc c) eqn:V; try discriminate.
      apply cmp_sets_DIFFERENT; [exact Hod|apply Hw, Hin|exact Hclean]. }
    assert (Htaken : forall c, In c l -> keepc c = false -> sub (okey c) (dcs od)).
    { intros c Hin Hk. rewrite Forall_forall in Hclean, Hw. specialize (Hclean c Hin). unfold clean_child in Hclean.
      unfold keepb in Hk. destruct (vdc c) eqn:V; try contradiction; try discriminate.
      eapply take_sub; [apply Hw, Hin|exact V]. }
    split; [|split].
    - (* the parent's new children list *)
      rewrite map_app. cbn [map]. rewrite Ko.
      assert (EK : map okey A ++ map okey B = map okey (filter keepc l)) by (rewrite <- map_app, E4; reflexivity).
      constructor.
      + apply FOP_insert.
        * rewrite EK. apply FOP_map_filter, L1.
        * rewrite <- map_app. apply Forall_forall. intros k Hk. apply in_map_iff in Hk as (c & <- & Hc). apply Hkept, Hc.
      + apply SS_insert.
        * rewrite EK. apply SS_map_filter, L2.
        * apply Forall_forall. intros k Hk. apply in_map_iff in Hk as (c & <- & Hc).
          rewrite Forall_forall in E5. specialize (E5 c Hc). unfold ltb_o in E5.
          rewrite obj_first_lt_key in E5; [exact E5|exact Hod|].
          rewrite Forall_forall in Hw. apply Hw. apply (Hkept c). apply in_or_app. left; exact Hc.
        * destruct E6 as [->|(b & B' & -> & Hb)]; [constructor|].
          assert (Hwb : wfk (odata b)).
          { rewrite Forall_forall in Hw. apply Hw. apply (Hkept b). apply in_or_app. right. left. reflexivity. }
          unfold ltb_o in Hb. rewrite obj_first_lt_key in Hb by assumption.
          assert (F0 : fle (dcs od) (okey b)) by (apply first_lt_fle, Hb).
          cbn [map]. constructor; [exact F0|].
          (* the rest of B sorts after b *)
          assert (SB : StronglySorted fle (map okey A ++ okey b :: map okey B')).
          { change (okey b :: map okey B') with (map okey (b :: B')). rewrite EK. apply SS_map_filter, L2. }
          clear -SB F0. induction (map okey A) as [|a A' IH]; cbn [app] in SB.
          -- inversion SB as [|? ? _ H2]; subst. eapply Forall_impl; [|exact H2]. intros k Hk. eapply fle_trans; eassumption.
          -- inversion SB; subst. auto.
      + apply Forall_app. split; [|constructor].
        * apply Forall_forall. intros k Hk. apply in_map_iff in Hk as (c & <- & Hc).
          rewrite Forall_forall in L3. apply L3, in_map. apply (Hkept c). apply in_or_app; left; exact Hc.
        * exact Hsub.
        * apply Forall_forall. intros k Hk. apply in_map_iff in Hk as (c & <- & Hc).
          rewrite Forall_forall in L3. apply L3, in_map. apply (Hkept c). apply in_or_app; right; exact Hc.
      + intros _ j Hj.
        destruct l as [|c0 l0]; [contradiction|].
        destruct (L4 ltac:(discriminate) j Hj) as (k & Hk & Hjk).
          apply in_map_iff in Hk as (c & <- & Hc).
          destruct (keepc c) eqn:Kc.
          -- exists (okey c). split; [|exact Hjk].
             assert (In c (A ++ B)) by (rewrite E4; apply filter_In; split; assumption).
             apply in_app_or in H as [H|H]; apply in_or_app; [left|right; right]; apply in_map, H.
          -- exists (dcs od). split; [apply in_or_app; right; left; reflexivity|]. eapply Htaken; eassumption.
    - (* OBJ's children *)
      rewrite E3. constructor.
      + apply FOP_map_filter, L1.
      + apply SS_map_filter, L2.
      + apply Forall_forall. intros k Hk. apply in_map_iff in Hk as (c & <- & Hc). apply filter_In in Hc as [Hin Hk].
        apply negb_true_iff in Hk. apply Htaken; assumption.
      + intros _ j Hj.
        destruct l as [|c0 l0]; [contradiction|].
        destruct (L4 ltac:(discriminate) j (Hsub j Hj)) as (k & Hk & Hjk).
        apply in_map_iff in Hk as (c & <- & Hc).
        destruct (keepc c) eqn:Kc.
        * exfalso. assert (Hin : In c (A ++ B)) by (rewrite E4; apply filter_In; split; assumption).
          exact (proj2 (Hkept c Hin) j Hj Hjk).
        * exists (okey c). split; [|exact Hjk]. apply in_map. apply filter_In. split; [exact Hc|now rewrite Kc].
    - intros P HP Hl. apply (E7 P HP); [constructor|exact Hl].
  Qed.
End LevelOrder.

(* ---------- one level: where the loop stops ---------- *)

Section LevelStop.
  Variable rec : obj -> obj -> obj * outcome.
  Variable dms : list N.
  Variable dm_new : bool.
  Variable d : dobj.
  Variables m i x : list obj.
  Variable od : dobj.
  Hypothesis Hod : wfk od.

  Notation vdc := (vd dms dm_new od).
  Notation keepc := (keepb dms dm_new od).
  Notation cleanc := (clean_child dms dm_new od).

  Lemma recurse_sub c : wfk (odata c) -> vdc c = VRecurse -> sub (dcs od) (okey c).
  Proof.
    intros Hc. unfold vd, verdict_of.
    destruct (cmp_sets od (odata c)) eqn:E; try discriminate.
    - intros _. apply cmp_sets_incl in E; [|assumption|assumption|discriminate].
      apply cmp_incl_EQUAL in E. unfold okey. rewrite <- E. intros j Hj; exact Hj.
    - intros _. apply cmp_sets_incl in E; [|assumption|assumption|discriminate]. apply cmp_incl_INCLUDED, E.
  Qed.

  Lemma take_nonempty c mt : wfk (odata c) -> vdc c = VTake mt -> nonempty (okey c).
  Proof.
    intros Hc. unfold vd, verdict_of.
    destruct (cmp_sets od (odata c)) eqn:E; try discriminate; intros _;
      (eapply cmp_sets_nonempty in E; [destruct E as [_ E]; exact E|assumption|assumption|discriminate]).
  Qed.

  (* the known defect is excluded: a child judged "different" really has a disjoint cpuset *)
  Definition no_sibling_defect (c : obj) : Prop := vdc c = VDifferent -> cmp_sets od (odata c) = DIFFERENT.

  (* once a bit of OBJ's cpuset is known to be outside every remaining child, a successful outcome can only
     come from the end of the list: every remaining child is disjoint from OBJ or inside it *)
  Lemma ins_loop_no_recursion j : forall l kept_rev taken putp o r,
    odata o = od -> mem j (dcs od) = true ->
    Forall (fun c => wfk (odata c) /\ no_sibling_defect c /\ mem j (okey c) = false) l ->
    ins_loop rec dms dm_new d m i x l kept_rev taken putp o = (r, OInserted) ->
    Forall cleanc l.
  Proof.
    induction l as [|c tl IH]; intros kept_rev taken putp o r Ho Hj Hall E; [constructor|].
    inversion Hall as [|c0 tl0 (Hw & Hn & Hjc) Htl]; subst c0 tl0.
    cbn [ins_loop] in E. rewrite Ho in E. fold (vdc c) in E.
    unfold no_sibling_defect in Hn.
    destruct (vdc c) as [| | | | | |mt] eqn:V; try (injection E as _ E; discriminate E).
    - (* VRecurse: impossible, OBJ is not inside CHILD *)
      exfalso. pose proof (recurse_sub c Hw V j Hj) as Hin. congruence.
    - constructor; [unfold clean_child; rewrite V; apply Hn; reflexivity|].
      eapply IH; [exact Ho|exact Hj|exact Htl|exact E].
    - constructor; [unfold clean_child; rewrite V; exact I|].
      destruct mt; (eapply IH; [|exact Hj|exact Htl|exact E]); [rewrite odata_with_mchildren|]; exact Ho.
  Qed.

  (* a successful outcome at this level: either the whole list is clean (OBJ is linked here), or the loop
     stopped at a child that strictly contains OBJ, every child before it was kept, and the recursion inserted *)
  Lemma ins_loop_inserted : forall l kept_rev putp o r,
    odata o = od -> nonempty (dcs od) ->
    Forall (fun c => wfk (odata c) /\ no_sibling_defect c) l ->
    ForallOrdPairs disj (map okey l) ->
    ins_loop rec dms dm_new d m i x l kept_rev [] putp o = (r, OInserted) ->
    Forall cleanc l \/
    exists pre c post c',
      l = pre ++ c :: post /\ vdc c = VRecurse /\ rec c o = (c', OInserted) /\
      r = Obj d (rev kept_rev ++ pre ++ c' :: post) m i x.
  Proof.
    induction l as [|c tl IH]; intros kept_rev putp o r Ho Hne Hall Hd E; [left; constructor|].
    inversion Hall as [|c0 tl0 (Hw & Hn) Htl]; subst c0 tl0.
    cbn [map] in Hd. inversion Hd as [|k ks Hd1 Hd2]; subst k ks.
    cbn [ins_loop] in E. rewrite Ho in E. fold (vdc c) in E.
    destruct (vdc c) as [| | | | | |mt] eqn:V; try (injection E as _ E; discriminate E).
    - (* VRecurse *)
      right. destruct (rec c o) as [c' r'] eqn:R. injection E as E1 E2. subst r'.
      exists [], c, tl, c'. repeat split; [exact V|exact R|]. cbn [app]. symmetry; exact E1.
    - (* VDifferent *)
      destruct (IH (c :: kept_rev) _ o r Ho Hne Htl Hd2 E) as [Hc|(pre & c1 & post & c' & -> & V1 & R1 & ->)].
      + left. constructor; [unfold clean_child; rewrite V; apply Hn; exact V|exact Hc].
      + right. exists (c :: pre), c1, post, c'. repeat split; [exact V1|exact R1|].
        cbn [rev app]. rewrite <- app_assoc. reflexivity.
    - (* VTake: from now on no recursion can succeed *)
      left. constructor; [unfold clean_child; rewrite V; exact I|].
      destruct (take_nonempty c mt Hw V) as [j Hj].
      assert (Hjs : mem j (dcs od) = true) by (eapply take_sub; eassumption).
      assert (Htl' : Forall (fun c0 => wfk (odata c0) /\ no_sibling_defect c0 /\ mem j (okey c0) = false) tl).
      { rewrite Forall_forall in *. intros c0 Hc0. destruct (Htl c0 Hc0) as [A1 A2]. split; [exact A1|]. split; [exact A2|].
        destruct (mem j (okey c0)) eqn:M; [|reflexivity]. exfalso. exact (Hd1 (okey c0) (in_map okey tl c0 Hc0) j Hj M). }
      destruct mt; (eapply ins_loop_no_recursion; [|exact Hjs|exact Htl'|exact E]); [rewrite odata_with_mchildren|]; exact Ho.
  Qed.
End LevelStop.

(* ---------- the whole recursive insertion ---------- *)

Inductive tree_ok : obj -> Prop :=
| TreeOk d n m i x : wfk d -> level_ok (dcs d) (map okey n) -> Forall tree_ok n -> tree_ok (Obj d n m i x).

Lemma tree_ok_with_mchildren c mm : tree_ok c -> tree_ok (with_mchildren c mm).
Proof. intros H. destruct H as [d n m i x H1 H2 H3]. cbn. constructor; assumption. Qed.

(* the hypothesis that excludes the known defect (two unmergeable Groups with equal sets made siblings):
   on every normal descendant, "different" means a disjoint cpuset *)
Definition defect_free (dms : list N) (dm_new : bool) (od : dobj) (cur : obj) : Prop :=
  Forall (no_sibling_defect dms dm_new od) (nflatten cur).

Lemma defect_free_child dms dm_new od d n m i x c :
  defect_free dms dm_new od (Obj d n m i x) -> In c n -> defect_free dms dm_new od c.
Proof.
  unfold defect_free. rewrite nflatten_eq. cbn [onch]. intros H Hin. inversion H as [|? ? _ H2]; subst.
  unfold nflattens in H2. rewrite Forall_forall in *. intros y Hy. apply H2. apply in_flat_map. exists c. split; assumption.
Qed.
Lemma defect_free_children dms dm_new od d n m i x :
  defect_free dms dm_new od (Obj d n m i x) -> Forall (no_sibling_defect dms dm_new od) n.
Proof.
  intros H. apply Forall_forall. intros c Hc. pose proof (defect_free_child _ _ _ _ _ _ _ _ c H Hc) as Hd.
  unfold defect_free in Hd. rewrite nflatten_eq in Hd. inversion Hd; assumption.
Qed.

(* objects into which the insertion may descend (they strictly contain OBJ's cpuset) have children; in a
   well-formed topology such an object holds at least two PUs *)
Definition descent_ok (dms : list N) (dm_new : bool) (od : dobj) (cur : obj) : Prop :=
  Forall (fun c => vd dms dm_new od c = VRecurse -> onch c <> []) (nflatten cur).

Lemma descent_ok_child dms dm_new od d n m i x c :
  descent_ok dms dm_new od (Obj d n m i x) -> In c n -> descent_ok dms dm_new od c.
Proof.
  unfold descent_ok. rewrite nflatten_eq. cbn [onch]. intros H Hin. inversion H as [|? ? _ H2]; subst.
  unfold nflattens in H2. rewrite Forall_forall in *. intros y Hy. apply H2. apply in_flat_map. exists c. split; assumption.
Qed.
Lemma descent_ok_here dms dm_new od d n m i x c :
  descent_ok dms dm_new od (Obj d n m i x) -> In c n -> vd dms dm_new od c = VRecurse -> onch c <> [].
Proof.
  intros H Hin. pose proof (descent_ok_child _ _ _ _ _ _ _ _ c H Hin) as Hd.
  unfold descent_ok in Hd. rewrite nflatten_eq in Hd. inversion Hd; assumption.
Qed.

(* insert_keeps_order: after a successful hwloc___insert_object_by_cpuset, at EVERY level of the tree the
   sibling cpusets are pairwise disjoint, sorted by first index, included in their parent's and covering it;
   the payload of every existing object is unchanged; OBJ's children are the children it contains. *)
Theorem insert_keeps_order dms dm_new od (Hod : wfk od) (Hne : nonempty (dcs od)) : forall cur,
  tree_ok cur -> defect_free dms dm_new od cur -> descent_ok dms dm_new od cur -> onch cur <> [] ->
  forall o cur', odata o = od -> sub (dcs od) (okey cur) ->
  insert_by_cpuset dms dm_new cur o = (cur', OInserted) ->
  tree_ok cur' /\ odata cur' = odata cur.
Proof.
  induction cur as [d n m i x IHn _ _ _] using obj_ind4.
  intros Hok Hdf Hds Hnn o cur' Ho Hsub E.
  inversion Hok as [d0 n0 m0 i0 x0 Hwd Hlvl Hch]; subst d0 n0 m0 i0 x0.
  cbn [insert_by_cpuset] in E. cbn [onch] in Hnn.
  assert (Hwn : Forall (fun c => wfk (odata c)) n).
  { eapply Forall_impl; [|exact Hch]. intros c Hc. destruct Hc; assumption. }
  assert (Hall : Forall (fun c => wfk (odata c) /\ no_sibling_defect dms dm_new od c) n).
  { pose proof (defect_free_children _ _ _ _ _ _ _ _ Hdf) as Hd. rewrite Forall_forall in *. intros c Hc. split; auto. }
  destruct (ins_loop_inserted (insert_by_cpuset dms dm_new) dms dm_new d m i x od Hod n [] None o cur' Ho Hne Hall (lo_disj _ _ Hlvl) E)
    as [Hclean|(pre & c & post & c' & En & V & R & ->)].
  - (* OBJ is linked at this level *)
    destruct (insert_level_keeps_order (insert_by_cpuset dms dm_new) dms dm_new d m i x od Hod n o Ho Hwn Hlvl Hsub Hclean Hnn)
      as (A & B & o' & E1 & E2 & E3 & E4 & L1 & L2 & E7).
    rewrite E in E1. injection E1 as ->. split; [|reflexivity].
    constructor; [exact Hwd|exact L1|].
    assert (HAB : Forall tree_ok (A ++ B)).
    { rewrite E3. apply Forall_forall. intros c Hc. apply filter_In in Hc as [Hc _]. rewrite Forall_forall in Hch. apply Hch, Hc. }
    apply Forall_app in HAB as [HA HB]. apply Forall_app. split; [exact HA|]. constructor; [|exact HB].
    destruct o' as [d' n' m' i' x']. cbn [odata] in E2. subst d'. cbn [onch] in L2, E7.
    constructor; [exact Hod|exact L2|]. apply (E7 tree_ok tree_ok_with_mchildren Hch).
  - (* recursion into the child that contains OBJ *)
    cbn [rev app]. subst n.
    assert (Hcin : In c (pre ++ c :: post)) by (apply in_or_app; right; left; reflexivity).
    apply Forall_app in IHn as [_ IHc]. inversion IHc as [|c0 l0 IHc1 _]; subst c0 l0.
    assert (Hokc : tree_ok c) by (rewrite Forall_forall in Hch; apply Hch, Hcin).
    assert (Hwc : wfk (odata c)) by (destruct Hokc; assumption).
    assert (Hsubc : sub (dcs od) (okey c)) by (eapply recurse_sub; eassumption).
    destruct (IHc1 Hokc (defect_free_child _ _ _ _ _ _ _ _ c Hdf Hcin) (descent_ok_child _ _ _ _ _ _ _ _ c Hds Hcin)
                   (descent_ok_here _ _ _ _ _ _ _ _ c Hds Hcin V) o c' Ho Hsubc R) as [Hokc' Edc].
    split; [|reflexivity].
    assert (Ek : map okey (pre ++ c' :: post) = map okey (pre ++ c :: post)).
    { rewrite !map_app. cbn [map]. unfold okey at 2 5. now rewrite Edc. }
    constructor; [exact Hwd|rewrite Ek; exact Hlvl|].
    apply Forall_app in Hch as [Hpre Hpost]. inversion Hpost as [|c0 l0 _ Hpost']; subst c0 l0.
    apply Forall_app. split; [exact Hpre|]. constructor; assumption.
Qed.

(* ---------- link with the executable invariant of ApiProofs (tree_inv) ---------- *)

Definition wfkb (d : dobj) : bool :=
  is_some (o_cs d) && (opt_bset_eqb (o_ccs d) (o_cs d) || negb (is_some (o_ccs d))).
Lemma wfkb_wfk d : wfkb d = true -> wfk d.
Proof.
  unfold wfkb, wfk. destruct (o_cs d) as [s|]; [|discriminate]. cbn [is_some andb].
  destruct (o_ccs d) as [c|]; cbn; intros H.
  - split; [discriminate|left]. rewrite orb_false_r in H. apply bs_eqb_spec in H. now subst.
  - split; [discriminate|right; reflexivity].
Qed.

Lemma pairwise_disjoint_FOP l : pairwise_disjoint l = true -> ForallOrdPairs disj l.
Proof.
  induction l as [|a tl IH]; cbn [pairwise_disjoint]; intros H; [constructor|].
  apply andb_true_iff in H as [H1 H2]. constructor; [|apply IH, H2].
  rewrite forallb_forall in H1. apply Forall_forall. intros b Hb. apply intersects_false_disj.
  apply negb_true_iff. apply H1, Hb.
Qed.

Lemma sorted_first_SS ds : Forall wfk ds -> sorted_first ds = true -> StronglySorted fle (map dcs ds).
Proof.
  intros Hw Hs. apply Sorted_StronglySorted; [intros a b c; apply fle_trans|].
  induction ds as [|a tl IH]; cbn [map]; [constructor|].
  cbn [sorted_first] in Hs. apply andb_true_iff in Hs as [H1 H2]. inversion Hw as [|? ? Ha Htl]; subst.
  constructor; [apply IH; assumption|].
  destruct tl as [|b tl']; cbn [map]; constructor.
  inversion Htl as [|? ? Hb _]; subst. apply negb_true_iff in H1. rewrite obj_first_lt_key in H1 by assumption. exact H1.
Qed.

Lemma mem_union_all i l : forall acc, mem i (fold_left bs_union l acc) = true -> mem i acc = true \/ exists k, In k l /\ mem i k = true.
Proof.
  induction l as [|a tl IH]; cbn [fold_left]; intros acc H; [left; exact H|].
  destruct (IH _ H) as [H1|(k & Hk & Hm)].
  - rewrite mem_union in H1. apply orb_true_iff in H1 as [H1|H1]; [left; exact H1|right; exists a; split; [left; reflexivity|exact H1]].
  - right. exists k. split; [right; exact Hk|exact Hm].
Qed.

Lemma sibs_okd_level_ok d ds : Forall wfk ds -> sibs_okd d ds = true -> level_ok (dcs d) (map dcs ds).
Proof.
  intros Hw H. unfold sibs_okd in H. apply andb_true_iff in H as [H H4]. apply andb_true_iff in H as [H H3].
  apply andb_true_iff in H as [H1 H2]. constructor.
  - apply pairwise_disjoint_FOP, H1.
  - apply sorted_first_SS; assumption.
  - rewrite forallb_forall in H3. apply Forall_forall. intros k Hk. apply in_map_iff in Hk as (c & <- & Hc).
    specialize (H3 c Hc). apply andb_true_iff in H3 as [H3 _]. apply andb_true_iff in H3 as [H3 _]. apply andb_true_iff in H3 as [H3 _].
    apply subset_sub, H3.
  - intros Hne j Hj. destruct ds as [|c0 tl]; [contradiction|]. apply bs_eqb_spec in H4.
    rewrite <- H4 in Hj. unfold union_all in Hj. apply mem_union_all in Hj as [Hj|Hj]; [rewrite mem_empty in Hj; discriminate|exact Hj].
Qed.

(* every normal descendant has a cpuset and a complete_cpuset equal to it (no offline PU) or none *)
Definition all_wfkb (o : obj) : bool := forallb (fun c => wfkb (odata c)) (nflatten o).

Theorem tree_inv_tree_ok : forall o, all_wfkb o = true -> tree_inv o = true -> tree_ok o.
Proof.
  induction o as [d n m i x IHn _ _ _] using obj_ind4. intros Hw Hi.
  unfold all_wfkb in Hw. rewrite nflatten_eq in Hw. cbn [forallb odata onch] in Hw. apply andb_true_iff in Hw as [Hwd Hwn].
  rewrite tree_inv_eq in Hi. apply andb_true_iff in Hi as [Hs Hn]. unfold sibs_ok in Hs.
  assert (Hch : forall c, In c n -> all_wfkb c = true).
  { intros c Hc. unfold all_wfkb. apply forallb_forall. intros y Hy. rewrite forallb_forall in Hwn. apply Hwn.
    unfold nflattens. apply in_flat_map. exists c. split; assumption. }
  assert (Hwk : Forall wfk (map odata n)).
  { apply Forall_forall. intros k Hk. apply in_map_iff in Hk as (c & <- & Hc). apply wfkb_wfk.
    specialize (Hch c Hc). unfold all_wfkb in Hch. rewrite nflatten_eq in Hch. cbn [forallb] in Hch. apply andb_true_iff in Hch as [Hch _]. exact Hch. }
  constructor.
  - apply wfkb_wfk, Hwd.
  - pose proof (sibs_okd_level_ok d (map odata n) Hwk Hs) as L. rewrite map_map in L. exact L.
  - rewrite forallb_forall in Hn. rewrite Forall_forall in *. intros c Hc. apply IHn; [exact Hc|apply Hch, Hc|apply Hn, Hc].
Qed.

(* non-vacuity: the 4-PU machine of ApiProofs with a user Group around PU 0-1; a Group around PU 2-3 is
   inserted two levels down (recursion through the Package, then two PUs taken) *)
Definition od_example : dobj := fresh_dobj HWLOC_OBJ_GROUP 9 (S 12) None None None 0%Z 0%Z.
Example insert_keeps_order_nonvacuous :
  tree_ok tree1 /\ wfk od_example /\ nonempty (dcs od_example) /\
  defect_free [] false od_example tree1 /\ descent_ok [] false od_example tree1 /\
  snd (insert_by_cpuset [] false tree1 (Obj od_example [] [] [] [])) = OInserted /\
  tree_ok (fst (insert_by_cpuset [] false tree1 (Obj od_example [] [] [] []))).
Proof.
  assert (T1 : tree_ok tree1) by (apply tree_inv_tree_ok; vm_compute; reflexivity).
  assert (W : wfk od_example) by (apply wfkb_wfk; vm_compute; reflexivity).
  assert (NE : nonempty (dcs od_example)) by (exists 2; vm_compute; reflexivity).
  assert (DF : defect_free [] false od_example tree1).
  { unfold defect_free. repeat constructor; intros H; vm_compute in H; try discriminate H; vm_compute; reflexivity. }
  assert (DS : descent_ok [] false od_example tree1).
  { unfold descent_ok. repeat constructor; intros H; vm_compute in H; try discriminate H; vm_compute; discriminate. }
  split; [exact T1|]. split; [exact W|]. split; [exact NE|]. split; [exact DF|]. split; [exact DS|]. split; [vm_compute; reflexivity|].
  destruct (insert_by_cpuset [] false tree1 (Obj od_example [] [] [] [])) as [cur' out] eqn:E.
  assert (out = OInserted) by (apply (f_equal snd) in E; vm_compute in E; symmetry; exact E). subst out.
  assert (Hn : onch tree1 <> []) by discriminate.
  apply (insert_keeps_order [] false od_example W NE tree1 T1 DF DS Hn (Obj od_example [] [] [] []) cur' eq_refl); [|exact E].
  apply subset_sub. vm_compute. reflexivity.
Qed.
