(* C01: hwloc___insert_object_by_cpuset DURING DISCOVERY.  InsertProofs.insert_keeps_order (C02) speaks about a
   loaded topology, where the children of an object cover its cpuset, and about the outcome "inserted".
   While a backend is still inserting, nothing is covered yet (a Package may be there before its PUs), the
   root's cpuset only holds the PUs met so far, and the insertion often ends by merging OBJ into an existing
   object.  This file proves the order part for that situation and for EVERY outcome except the put-back
   failure: at every level of the tree the sibling cpusets stay pairwise disjoint, sorted by first index and
   (below the root) included in their parent's; and the same for a whole sequence of insertions.
   Reuses the loop lemmas of InsertProofs. *)
From Coq Require Import List NArith ZArith Bool Lia Permutation Sorted.
From HV Require Import Base.BSet Gen.Tables Text.TypeOrder Topo.Dump Topo.WFCheck Topo.Obj Topo.Insert Topo.Api Topo.ApiProofs Topo.InsertProofs.
Import ListNotations.
Local Open Scope N_scope.

(* [inp]: what is required of a sibling's cpuset with respect to the parent ("included in it", or nothing
   for the root during discovery) *)
Record level_ord (inp : bset -> Prop) (ks : list bset) : Prop := mkLevelOrd {
  ld_disj : ForallOrdPairs disj ks;                 (* pairwise disjoint *)
  ld_sort : StronglySorted fle ks;                  (* sorted by first index, empty sets last *)
  ld_in : Forall inp ks
}.

Lemma level_ok_ord pk ks : level_ok pk ks -> level_ord (fun k => sub k pk) ks.
Proof. intros [H1 H2 H3 _]. constructor; assumption. Qed.

Lemma level_ord_impl (p q : bset -> Prop) ks : (forall k, p k -> q k) -> level_ord p ks -> level_ord q ks.
Proof. intros H [H1 H2 H3]. constructor; [exact H1|exact H2|]. eapply Forall_impl; [|exact H3]. exact H. Qed.

Inductive tree_ord : obj -> Prop :=
| TreeOrd d n m i x : wfk d -> level_ord (fun k => sub k (dcs d)) (map okey n) -> Forall tree_ord n -> tree_ord (Obj d n m i x).

Lemma tree_ord_with_mchildren c mm : tree_ord c -> tree_ord (with_mchildren c mm).
Proof. intros H. destruct H as [d n m i x H1 H2 H3]. cbn. constructor; assumption. Qed.

Lemma tree_ord_wfk c : tree_ord c -> wfk (odata c).
Proof. intros H. destruct H; assumption. Qed.

Lemma tree_ok_ord : forall o, tree_ok o -> tree_ord o.
Proof.
  induction o as [d n m i x IHn _ _ _] using obj_ind4. intros H.
  inversion H as [d0 n0 m0 i0 x0 Hw Hl Hc]; subst. constructor; [exact Hw|apply level_ok_ord, Hl|].
  rewrite Forall_forall in *. intros c Hin. apply IHn; [exact Hin|apply Hc, Hin].
Qed.

(* ---------- one level, OBJ linked here ---------- *)

Section LevelOrd.
  Variable rec : obj -> obj -> obj * outcome.
  Variable dms : list N.
  Variable dm_new : bool.
  Variable d : dobj.
  Variables m i x : list obj.
  Variable od : dobj.
  Hypothesis Hod : wfk od.
  Variable inp : bset -> Prop.

  Notation vdc := (vd dms dm_new od).
  Notation keepc := (keepb dms dm_new od).
  Notation cleanc := (clean_child dms dm_new od).

  Theorem insert_level_keeps_ord l o :
    odata o = od ->
    Forall (fun c => wfk (odata c)) l ->
    level_ord inp (map okey l) ->
    inp (dcs od) ->
    Forall cleanc l ->
    exists A B o',
      ins_loop rec dms dm_new d m i x l [] [] None o = (Obj d (A ++ o' :: B) m i x, OInserted) /\
      odata o' = od /\
      A ++ B = filter keepc l /\
      map okey (onch o') = map okey (filter (fun c => negb (keepc c)) l) /\
      level_ord inp (map okey (A ++ o' :: B)) /\
      level_ord (fun k => sub k (dcs od)) (map okey (onch o')) /\
      (forall P : obj -> Prop, (forall c0 mm, P c0 -> P (with_mchildren c0 mm)) -> Forall P l -> Forall P (onch o')).
  Proof.
    intros Ho Hw [L1 L2 L3] Hin Hclean.
    assert (Hflat : Forall (flat2 dms dm_new od) l).
    { eapply Forall_impl; [|exact Hclean]. intros c Hc. unfold clean_child in Hc. unfold flat2.
      destruct (vdc c); try contradiction; exact I. }
    assert (Hp0 : putp_inv od [] None).
    { exists [], []. repeat split. constructor. }
    destruct (ins_loop_level rec dms dm_new d m i x od l [] [] None o Ho Hflat Hp0) as (A & B & o' & E1 & E2 & E3 & E4 & E5 & E6 & E7).
    cbn [rev app map] in E3, E4.
    exists A, B, o'. split; [exact E1|]. split; [exact E2|]. split; [exact E4|]. split; [exact E3|].
    assert (Ko : okey o' = dcs od) by (unfold okey; now rewrite E2).
    assert (Hkept : forall c, In c (A ++ B) -> In c l /\ disj (dcs od) (okey c)).
    { intros c Hc. rewrite E4 in Hc. apply filter_In in Hc as [Hcin Hk]. split; [exact Hcin|].
      rewrite Forall_forall in Hclean, Hw. specialize (Hclean c Hcin). unfold clean_child in Hclean.
      unfold keepb in Hk. destruct (vdc c) eqn:V; try discriminate.
      apply cmp_sets_DIFFERENT; [exact Hod|apply Hw, Hcin|exact Hclean]. }
    assert (Htaken : forall c, In c l -> keepc c = false -> sub (okey c) (dcs od)).
    { intros c Hcin Hk. rewrite Forall_forall in Hclean, Hw. specialize (Hclean c Hcin). unfold clean_child in Hclean.
      unfold keepb in Hk. destruct (vdc c) eqn:V; try contradiction; try discriminate.
      eapply take_sub; [exact Hod|apply Hw, Hcin|exact V]. }
    split; [|split].
    - rewrite map_app. cbn [map]. rewrite Ko.
      assert (EK : map okey A ++ map okey B = map okey (filter keepc l)) by (rewrite <- map_app, E4; reflexivity).
      constructor.
      + apply FOP_insert.
        * rewrite EK. apply FOP_map_filter, L1.
        * rewrite <- map_app. apply Forall_forall. intros k Hk. apply in_map_iff in Hk as (c & <- & Hc). apply Hkept, Hc.
      + apply SS_insert.
        * rewrite EK. apply SS_map_filter, L2.
        * apply Forall_forall. intros k Hk. apply in_map_iff in Hk as (c & <- & Hc).
          rewrite Forall_forall in E5. specialize (E5 c Hc). unfold ltb_o in E5.
          rewrite obj_first_lt_key in E5; [exact E5|exact Hod|].
          rewrite Forall_forall in Hw. apply Hw. apply (Hkept c). apply in_or_app. left; exact Hc.
        * destruct E6 as [->|(b & B' & -> & Hb)]; [constructor|].
          assert (Hwb : wfk (odata b)).
          { rewrite Forall_forall in Hw. apply Hw. apply (Hkept b). apply in_or_app. right. left. reflexivity. }
          unfold ltb_o in Hb. rewrite obj_first_lt_key in Hb by assumption.
          assert (F0 : fle (dcs od) (okey b)) by (apply first_lt_fle, Hb).
          cbn [map]. constructor; [exact F0|].
          assert (SB : StronglySorted fle (map okey A ++ okey b :: map okey B')).
          { change (okey b :: map okey B') with (map okey (b :: B')). rewrite EK. apply SS_map_filter, L2. }
          clear -SB F0. induction (map okey A) as [|a A' IH]; cbn [app] in SB.
          -- inversion SB as [|? ? _ H2]; subst. eapply Forall_impl; [|exact H2]. intros k Hk. eapply fle_trans; eassumption.
          -- inversion SB; subst. auto.
      + apply Forall_app. split; [|constructor].
        * apply Forall_forall. intros k Hk. apply in_map_iff in Hk as (c & <- & Hc).
          rewrite Forall_forall in L3. apply L3, in_map. apply (Hkept c). apply in_or_app; left; exact Hc.
        * exact Hin.
        * apply Forall_forall. intros k Hk. apply in_map_iff in Hk as (c & <- & Hc).
          rewrite Forall_forall in L3. apply L3, in_map. apply (Hkept c). apply in_or_app; right; exact Hc.
    - rewrite E3. constructor.
      + apply FOP_map_filter, L1.
      + apply SS_map_filter, L2.
      + apply Forall_forall. intros k Hk. apply in_map_iff in Hk as (c & <- & Hc). apply filter_In in Hc as [Hcin Hk].
        apply negb_true_iff in Hk. apply Htaken; assumption.
    - intros P HP Hl. apply (E7 P HP); [constructor|exact Hl].
  Qed.

  (* ---------- where the loop stops, for every outcome but the put-back ---------- *)

  Notation nsd := (no_sibling_defect dms dm_new od).

  (* merging and replacing only happen with an object whose cpuset equals OBJ's *)
  Lemma equal_key c : wfk (odata c) -> vdc c = VMergeKeep \/ vdc c = VMergeEqual \/ vdc c = VReplace -> dcs od = okey c.
  Proof.
    intros Hc H. unfold vd, verdict_of in H.
    destruct (cmp_sets od (odata c)) eqn:E; try (destruct H as [H|[H|H]]; discriminate H).
    apply cmp_sets_incl in E; [|assumption|assumption|discriminate]. apply cmp_incl_EQUAL in E. exact E.
  Qed.

  (* once a child was moved below OBJ, the loop can only end by linking OBJ here (or by the put-back) *)
  Lemma ins_loop_after_take j : forall l kept_rev taken putp o r out,
    odata o = od -> mem j (dcs od) = true ->
    Forall (fun c => wfk (odata c) /\ nsd c /\ mem j (okey c) = false) l ->
    ins_loop rec dms dm_new d m i x l kept_rev taken putp o = (r, out) -> out <> OFail ->
    out = OInserted /\ Forall cleanc l.
  Proof.
    induction l as [|c tl IH]; intros kept_rev taken putp o r out Ho Hj Hall E Hout.
    - cbn [ins_loop] in E. injection E as _ E. split; [symmetry; exact E|constructor].
    - inversion Hall as [|c0 tl0 (Hw & Hn & Hjc) Htl]; subst c0 tl0.
      cbn [ins_loop] in E. rewrite Ho in E. fold (vdc c) in E.
      unfold no_sibling_defect in Hn.
      destruct (vdc c) as [| | | | | |mt] eqn:V.
      + exfalso. rewrite <- (equal_key c Hw (or_introl V)) in Hjc. congruence.
      + exfalso. rewrite <- (equal_key c Hw (or_intror (or_introl V))) in Hjc. congruence.
      + exfalso. rewrite <- (equal_key c Hw (or_intror (or_intror V))) in Hjc. congruence.
      + exfalso. pose proof (recurse_sub dms dm_new od Hod c Hw V j Hj) as Hc. congruence.
      + exfalso. injection E as _ E. apply Hout. symmetry; exact E.
      + destruct (IH _ _ _ _ _ _ Ho Hj Htl E Hout) as [H1 H2]. split; [exact H1|].
        constructor; [unfold clean_child; rewrite V; apply Hn; reflexivity|exact H2].
      + assert (G : out = OInserted /\ Forall cleanc tl).
        { destruct mt; (eapply IH; [|exact Hj|exact Htl|exact E|exact Hout]); [rewrite odata_with_mchildren|]; exact Ho. }
        destruct G as [H1 H2]. split; [exact H1|]. constructor; [unfold clean_child; rewrite V; exact I|exact H2].
  Qed.

  Lemma ins_loop_outcomes : forall l kept_rev putp o r out,
    odata o = od -> nonempty (dcs od) ->
    Forall (fun c => wfk (odata c) /\ nsd c) l ->
    ForallOrdPairs disj (map okey l) ->
    ins_loop rec dms dm_new d m i x l kept_rev [] putp o = (r, out) -> out <> OFail ->
    (out = OInserted /\ Forall cleanc l) \/
    exists pre c post c',
      l = pre ++ c :: post /\ r = Obj d (rev kept_rev ++ pre ++ c' :: post) m i x /\
      ((vdc c = VRecurse /\ rec c o = (c', out)) \/
       (c' = c /\ (vdc c = VMergeKeep \/ vdc c = VMergeEqual) /\ out <> OInserted) \/
       (c' = replace_payload c od /\ vdc c = VReplace /\ out = OReplaced)).
  Proof.
    induction l as [|c tl IH]; intros kept_rev putp o r out Ho Hne Hall Hd E Hout.
    - left. cbn [ins_loop] in E. injection E as _ E. split; [symmetry; exact E|constructor].
    - inversion Hall as [|c0 tl0 (Hw & Hn) Htl]; subst c0 tl0.
      cbn [map] in Hd. inversion Hd as [|k ks Hd1 Hd2]; subst k ks.
      cbn [ins_loop] in E. rewrite Ho in E. fold (vdc c) in E.
      destruct (vdc c) as [| | | | | |mt] eqn:V.
      + right. injection E as E1 E2. exists [], c, tl, c. cbn [app]. split; [reflexivity|]. split; [symmetry; exact E1|].
        right; left. split; [reflexivity|]. split; [left; exact V|rewrite <- E2; discriminate].
      + right. injection E as E1 E2. exists [], c, tl, c. cbn [app]. split; [reflexivity|]. split; [symmetry; exact E1|].
        right; left. split; [reflexivity|]. split; [right; exact V|rewrite <- E2; discriminate].
      + right. injection E as E1 E2. exists [], c, tl, (replace_payload c od). cbn [app]. split; [reflexivity|]. split; [symmetry; exact E1|].
        right; right. split; [reflexivity|]. split; [exact V|symmetry; exact E2].
      + right. destruct (rec c o) as [c' r'] eqn:R. injection E as E1 E2. subst r'.
        exists [], c, tl, c'. cbn [app]. split; [reflexivity|]. split; [symmetry; exact E1|]. left. split; [exact V|exact R].
      + exfalso. injection E as _ E. apply Hout. symmetry; exact E.
      + destruct (IH (c :: kept_rev) _ o r out Ho Hne Htl Hd2 E Hout) as [[H1 H2]|(pre & c1 & post & c' & -> & -> & Hcase)].
        * left. split; [exact H1|]. constructor; [unfold clean_child; rewrite V; apply Hn; exact V|exact H2].
        * right. exists (c :: pre), c1, post, c'. split; [reflexivity|]. split; [|exact Hcase].
          cbn [rev app]. rewrite <- app_assoc. reflexivity.
      + left.
        destruct (take_nonempty dms dm_new od Hod c mt Hw V) as [j Hj].
        assert (Hjs : mem j (dcs od) = true) by (eapply take_sub; eassumption).
        assert (Htl' : Forall (fun c0 => wfk (odata c0) /\ nsd c0 /\ mem j (okey c0) = false) tl).
        { rewrite Forall_forall in *. intros c0 Hc0. destruct (Htl c0 Hc0) as [A1 A2]. split; [exact A1|]. split; [exact A2|].
          destruct (mem j (okey c0)) eqn:M; [|reflexivity]. exfalso. exact (Hd1 (okey c0) (in_map okey tl c0 Hc0) j Hj M). }
        assert (G : out = OInserted /\ Forall cleanc tl).
        { destruct mt; (eapply ins_loop_after_take; [|exact Hjs|exact Htl'|exact E|exact Hout]); [rewrite odata_with_mchildren|]; exact Ho. }
        destruct G as [H1 H2]. split; [exact H1|]. constructor; [unfold clean_child; rewrite V; exact I|exact H2].
  Qed.

  (* ---------- one node: its children list after the call ---------- *)

  Hypothesis Hne : nonempty (dcs od).

  (* what the recursive call is known to do on a child *)
  Definition rec_ok (c : obj) : Prop :=
    forall o c' out, odata o = od -> sub (dcs od) (okey c) -> rec c o = (c', out) -> out <> OFail ->
                     tree_ord c' /\ odata c' = odata c.

  Lemma node_keeps_ord n o r out :
    odata o = od -> inp (dcs od) ->
    level_ord inp (map okey n) -> Forall tree_ord n -> Forall nsd n -> Forall rec_ok n ->
    ins_loop rec dms dm_new d m i x n [] [] None o = (r, out) -> out <> OFail ->
    exists n', r = Obj d n' m i x /\ level_ord inp (map okey n') /\ Forall tree_ord n'.
  Proof.
    intros Ho Hin Hlvl Hch Hnsd Hrec E Hout.
    assert (Hwn : Forall (fun c => wfk (odata c)) n).
    { eapply Forall_impl; [|exact Hch]. intros c Hc. apply tree_ord_wfk, Hc. }
    assert (Hall : Forall (fun c => wfk (odata c) /\ nsd c) n).
    { rewrite Forall_forall in *. intros c Hc. split; auto. }
    destruct (ins_loop_outcomes n [] None o r out Ho Hne Hall (ld_disj _ _ Hlvl) E Hout)
      as [[-> Hclean]|(pre & c & post & c' & -> & -> & Hcase)].
    - destruct (insert_level_keeps_ord n o Ho Hwn Hlvl Hin Hclean) as (A & B & o' & E1 & E2 & E3 & E4 & L1 & L2 & E7).
      rewrite E in E1. injection E1 as ->. exists (A ++ o' :: B). split; [reflexivity|]. split; [exact L1|].
      assert (HAB : Forall tree_ord (A ++ B)).
      { rewrite E3. apply Forall_forall. intros c Hc. apply filter_In in Hc as [Hc _]. rewrite Forall_forall in Hch. apply Hch, Hc. }
      apply Forall_app in HAB as [HA HB]. apply Forall_app. split; [exact HA|]. constructor; [|exact HB].
      destruct o' as [d' n' m' i' x']. cbn [odata] in E2. subst d'. cbn [onch] in L2, E7.
      constructor; [exact Hod|exact L2|]. apply (E7 tree_ord tree_ord_with_mchildren Hch).
    - cbn [rev app]. exists (pre ++ c' :: post). split; [reflexivity|].
      assert (Hcin : In c (pre ++ c :: post)) by (apply in_or_app; right; left; reflexivity).
      assert (Hokc : tree_ord c) by (rewrite Forall_forall in Hch; apply Hch, Hcin).
      assert (Hwc : wfk (odata c)) by (apply tree_ord_wfk, Hokc).
      assert (G : tree_ord c' /\ okey c' = okey c).
      { destruct Hcase as [[V R]|[[-> _]|[-> [V _]]]].
        - assert (Hsubc : sub (dcs od) (okey c)) by (eapply recurse_sub; eassumption).
          rewrite Forall_forall in Hrec. destruct (Hrec c Hcin o c' out Ho Hsubc R Hout) as [H1 H2].
          split; [exact H1|]. unfold okey. now rewrite H2.
        - split; [exact Hokc|reflexivity].
        - pose proof (equal_key c Hwc (or_intror (or_intror V))) as Ek.
          destruct c as [dc nc mc ic xc]. cbn [replace_payload]. inversion Hokc as [d0 n0 m0 i0 x0 Hw0 Hl0 Hc0]; subst.
          unfold okey in *. cbn [odata] in *. split; [|exact Ek].
          constructor; [exact Hod|rewrite Ek; exact Hl0|exact Hc0]. }
      destruct G as [Hokc' Ek].
      assert (EK : map okey (pre ++ c' :: post) = map okey (pre ++ c :: post)).
      { rewrite !map_app. cbn [map]. now rewrite Ek. }
      split; [rewrite EK; exact Hlvl|].
      apply Forall_app in Hch as [Hpre Hpost]. inversion Hpost as [|c0 l0 _ Hpost']; subst c0 l0.
      apply Forall_app. split; [exact Hpre|]. constructor; assumption.
  Qed.
End LevelOrd.

(* ---------- the whole recursive insertion, any outcome but the put-back ---------- *)

Theorem insert_keeps_ord dms dm_new od (Hod : wfk od) (Hne : nonempty (dcs od)) : forall cur,
  tree_ord cur -> defect_free dms dm_new od cur ->
  forall o cur' out, odata o = od -> sub (dcs od) (okey cur) ->
  insert_by_cpuset dms dm_new cur o = (cur', out) -> out <> OFail ->
  tree_ord cur' /\ odata cur' = odata cur.
Proof.
  induction cur as [d n m i x IHn _ _ _] using obj_ind4.
  intros Hok Hdf o cur' out Ho Hsub E Hout.
  inversion Hok as [d0 n0 m0 i0 x0 Hwd Hlvl Hch]; subst d0 n0 m0 i0 x0.
  cbn [insert_by_cpuset] in E.
  assert (Hrec : Forall (rec_ok (insert_by_cpuset dms dm_new) od) n).
  { rewrite Forall_forall in *. intros c Hc o1 c1 out1 Ho1 Hs1 E1 Hout1.
    apply (IHn c Hc (Hch c Hc) (defect_free_child _ _ _ _ _ _ _ _ c Hdf Hc) o1 c1 out1 Ho1 Hs1 E1 Hout1). }
  destruct (node_keeps_ord (insert_by_cpuset dms dm_new) dms dm_new d m i x od Hod (fun k => sub k (dcs d)) Hne
              n o cur' out Ho Hsub Hlvl Hch (defect_free_children _ _ _ _ _ _ _ _ Hdf) Hrec E Hout) as (n' & -> & L & C).
  split; [|reflexivity]. constructor; assumption.
Qed.

(* ---------- the root during discovery ---------- *)

(* the root's cpuset only collects the PUs inserted so far: its children need not be included in it *)
Definition disc_ord (root : obj) : Prop :=
  level_ord (fun _ => True) (map okey (onch root)) /\ Forall tree_ord (onch root).

Definition disc_hyp (dms : list N) (dm_new : bool) (root o : obj) : Prop :=
  wfk (odata o) /\ nonempty (dcs (odata o)) /\ Forall (defect_free dms dm_new (odata o)) (onch root).

Theorem insert_root_keeps_ord dms dm_new root o root' out :
  disc_ord root -> disc_hyp dms dm_new root o ->
  insert_by_cpuset dms dm_new root o = (root', out) -> out <> OFail ->
  disc_ord root' /\ odata root' = odata root.
Proof.
  destruct root as [d n m i x]. intros [Hlvl Hch] (Hod & Hne & Hdf) E Hout. cbn [onch] in *.
  cbn [insert_by_cpuset] in E.
  assert (Hrec : Forall (rec_ok (insert_by_cpuset dms dm_new) (odata o)) n).
  { rewrite Forall_forall in *. intros c Hc o1 c1 out1 Ho1 Hs1 E1 Hout1.
    apply (insert_keeps_ord dms dm_new (odata o) Hod Hne c (Hch c Hc) (Hdf c Hc) o1 c1 out1 Ho1 Hs1 E1 Hout1). }
  assert (Hnsd : Forall (no_sibling_defect dms dm_new (odata o)) n).
  { rewrite Forall_forall in *. intros c Hc. specialize (Hdf c Hc). unfold defect_free in Hdf. rewrite nflatten_eq in Hdf.
    inversion Hdf; assumption. }
  destruct (node_keeps_ord (insert_by_cpuset dms dm_new) dms dm_new d m i x (odata o) Hod (fun _ => True) Hne
              n o root' out eq_refl I Hlvl Hch Hnsd Hrec E Hout) as (n' & -> & L & C).
  split; [|reflexivity]. split; assumption.
Qed.

(* ---------- a whole discovery: any sequence of insertions ---------- *)

(* one call of hwloc__insert_object_by_cpuset(topology, NULL, obj): the dont_merge Groups at that time, the
   flag of OBJ, OBJ *)
Definition dstep := (list N * bool * obj)%type.

Inductive disc_run : obj -> list dstep -> obj -> Prop :=
| DRnil root : disc_run root [] root
| DRcons root dms dm o root1 out rest root' :
    disc_hyp dms dm root o ->
    insert_by_cpuset dms dm root o = (root1, out) -> out <> OFail ->
    disc_run root1 rest root' ->
    disc_run root ((dms, dm, o) :: rest) root'.

Theorem discovery_keeps_ord root steps root' :
  disc_run root steps root' -> disc_ord root -> disc_ord root' /\ odata root' = odata root.
Proof.
  induction 1 as [root|root dms dm o root1 out rest root' Hh E Hout _ IH]; intros Hord; [split; [exact Hord|reflexivity]|].
  destruct (insert_root_keeps_ord dms dm root o root1 out Hord Hh E Hout) as [H1 H2].
  destruct (IH H1) as [H3 H4]. split; [exact H3|]. now rewrite H4.
Qed.

(* the empty root every discovery starts from *)
Lemma disc_ord_bare d m i x : disc_ord (Obj d [] m i x).
Proof. split; cbn [onch map]; constructor; constructor. Qed.

(* ---------- executable forms of the hypotheses (evaluated on every traced insertion by the C01 tie) ---------- *)

Definition nsdb (dms : list N) (dm_new : bool) (od : dobj) (c : obj) : bool :=
  match vd dms dm_new od c with
  | VDifferent => match cmp_sets od (odata c) with DIFFERENT => true | _ => false end
  | _ => true
  end.
Lemma nsdb_sound dms dm_new od c : nsdb dms dm_new od c = true -> no_sibling_defect dms dm_new od c.
Proof.
  unfold nsdb, no_sibling_defect. intros H V. rewrite V in H. destruct (cmp_sets od (odata c)); try discriminate H. reflexivity.
Qed.

Definition defect_freeb (dms : list N) (dm_new : bool) (od : dobj) (cur : obj) : bool :=
  forallb (nsdb dms dm_new od) (nflatten cur).
Lemma defect_freeb_sound dms dm_new od cur : defect_freeb dms dm_new od cur = true -> defect_free dms dm_new od cur.
Proof.
  unfold defect_freeb, defect_free. intros H. rewrite forallb_forall in H. apply Forall_forall. intros c Hc.
  apply nsdb_sound, H, Hc.
Qed.

Definition disc_hypb (dms : list N) (dm_new : bool) (root o : obj) : bool :=
  wfkb (odata o) && negb (bs_is_empty (dcs (odata o))) && forallb (defect_freeb dms dm_new (odata o)) (onch root).
Lemma disc_hypb_sound dms dm_new root o : disc_hypb dms dm_new root o = true -> disc_hyp dms dm_new root o.
Proof.
  unfold disc_hypb, disc_hyp. intros H. apply andb_true_iff in H as [H H3]. apply andb_true_iff in H as [H1 H2].
  split; [apply wfkb_wfk, H1|]. split; [apply not_empty_nonempty; apply negb_true_iff, H2|].
  rewrite forallb_forall in H3. apply Forall_forall. intros c Hc. apply defect_freeb_sound, H3, Hc.
Qed.

Definition sibs_ordd (inpb : bset -> bool) (ds : list dobj) : bool :=
  pairwise_disjoint (map dcs ds) && sorted_first ds && forallb (fun c => inpb (dcs c)) ds.

Lemma sibs_ordd_level_ord (inpb : bset -> bool) (inp : bset -> Prop) ds :
  (forall k, inpb k = true -> inp k) -> Forall wfk ds -> sibs_ordd inpb ds = true -> level_ord inp (map dcs ds).
Proof.
  intros Hi Hw H. unfold sibs_ordd in H. apply andb_true_iff in H as [H H3]. apply andb_true_iff in H as [H1 H2].
  constructor.
  - apply pairwise_disjoint_FOP, H1.
  - apply sorted_first_SS; assumption.
  - rewrite forallb_forall in H3. apply Forall_forall. intros k Hk. apply in_map_iff in Hk as (c & <- & Hc). apply Hi, H3, Hc.
Qed.

Fixpoint tree_ordb (o : obj) : bool :=
  match o with
  | Obj d n _ _ _ =>
      wfkb d && sibs_ordd (fun k => bs_subset k (dcs d)) (map odata n) &&
      (fix all (l : list obj) : bool := match l with [] => true | c :: tl => tree_ordb c && all tl end) n
  end.
Lemma tree_ordb_eq d n m i x :
  tree_ordb (Obj d n m i x) = wfkb d && sibs_ordd (fun k => bs_subset k (dcs d)) (map odata n) && forallb tree_ordb n.
Proof. reflexivity. Qed.

Lemma tree_ordb_wfkb c : tree_ordb c = true -> wfkb (odata c) = true.
Proof. destruct c as [d n m i x]. rewrite tree_ordb_eq. intros H. apply andb_true_iff in H as [H _]. apply andb_true_iff in H as [H _]. exact H. Qed.

Theorem tree_ordb_sound : forall o, tree_ordb o = true -> tree_ord o.
Proof.
  induction o as [d n m i x IHn _ _ _] using obj_ind4. intros H.
  rewrite tree_ordb_eq in H. apply andb_true_iff in H as [H Hn]. apply andb_true_iff in H as [Hd Hs].
  rewrite forallb_forall in Hn.
  assert (Hwk : Forall wfk (map odata n)).
  { apply Forall_forall. intros k Hk. apply in_map_iff in Hk as (c & <- & Hc). apply wfkb_wfk, tree_ordb_wfkb, Hn, Hc. }
  constructor.
  - apply wfkb_wfk, Hd.
  - pose proof (sibs_ordd_level_ord _ (fun k => sub k (dcs d)) (map odata n) (fun k Hk => subset_sub _ _ Hk) Hwk Hs) as L.
    rewrite map_map in L. exact L.
  - rewrite Forall_forall in *. intros c Hc. apply IHn; [exact Hc|apply Hn, Hc].
Qed.

Definition disc_ordb (root : obj) : bool :=
  sibs_ordd (fun _ => true) (map odata (onch root)) && forallb tree_ordb (onch root).
Theorem disc_ordb_sound root : disc_ordb root = true -> disc_ord root.
Proof.
  unfold disc_ordb, disc_ord. intros H. apply andb_true_iff in H as [Hs Hn]. rewrite forallb_forall in Hn.
  assert (Hwk : Forall wfk (map odata (onch root))).
  { apply Forall_forall. intros k Hk. apply in_map_iff in Hk as (c & <- & Hc). apply wfkb_wfk, tree_ordb_wfkb, Hn, Hc. }
  split.
  - pose proof (sibs_ordd_level_ord _ (fun _ => True) (map odata (onch root)) (fun _ _ => I) Hwk Hs) as L.
    rewrite map_map in L. exact L.
  - apply Forall_forall. intros c Hc. apply tree_ordb_sound, Hn, Hc.
Qed.

Definition is_fail (out : outcome) : bool := match out with OFail => true | _ => false end.

(* runs the model over a sequence of insertions; None as soon as a hypothesis fails or the put-back path is taken *)
Fixpoint disc_runb (root : obj) (steps : list dstep) : option obj :=
  match steps with
  | [] => Some root
  | (dms, dm, o) :: rest =>
      if disc_hypb dms dm root o then
        let '(root1, out) := insert_by_cpuset dms dm root o in
        if is_fail out then None else disc_runb root1 rest
      else None
  end.
Theorem disc_runb_sound : forall steps root root', disc_runb root steps = Some root' -> disc_run root steps root'.
Proof.
  induction steps as [|[[dms dm] o] rest IH]; intros root root' H; cbn [disc_runb] in H.
  - injection H as <-. constructor.
  - destruct (disc_hypb dms dm root o) eqn:Hh; [|discriminate].
    destruct (insert_by_cpuset dms dm root o) as [root1 out] eqn:E.
    destruct (is_fail out) eqn:F; [discriminate|].
    econstructor; [apply disc_hypb_sound, Hh|exact E| |apply IH, H].
    intros ->. discriminate F.
Qed.

Corollary discovery_runb_keeps_ord root steps root' :
  disc_ordb root = true -> disc_runb root steps = Some root' -> disc_ord root' /\ odata root' = odata root.
Proof. intros H1 H2. eapply discovery_keeps_ord; [apply disc_runb_sound, H2|apply disc_ordb_sound, H1]. Qed.

(* ---------- the tie: are the hypotheses met by the insertion observed through the hook? ---------- *)
From HV Require Import Topo.Remove Topo.InsertTie.

(* Some true: the traced insertion (raw tree of phase 10, OBJ = dump entry [ins], subtree root [root]) is
   inside the theorem; Some false: outside (which hypothesis is printed by the driver); None: dump not a tree *)
Definition disc_step_inside (d10 : dump) (ins root : N) (dms : list N) (dm_new : bool) : option (bool * bool) :=
  match tree_of_dump d10, get d10 ins with
  | Some t10, Some newd =>
      match find_obj (fun o => oid o =? root) t10 with
      | Some cur => Some (disc_ordb cur, disc_hypb dms dm_new cur (Obj newd [] [] [] []))
      | None => None
      end
  | _, _ => None
  end.

(* the conclusion, evaluated on the C tree observed after the call (phase 11), at the object that has the same
   gp_index as the subtree root of the call *)
Definition disc_ord_after (d11 : dump) (ins root : N) (d10 : dump) : option bool :=
  match tree_of_dump d10, tree_of_dump d11 with
  | Some t10, Some t11 =>
      match find_obj (fun o => oid o =? root) t10 with
      | Some cur =>
          match find_obj (fun o => opt_N_eqb (o_gp (odata o)) (o_gp (odata cur))) t11 with
          | Some cur11 => Some (disc_ordb cur11)
          | None => None
          end
      | None => None
      end
  | _, _ => None
  end.

(* ---------- non-vacuity: a small discovery, children first, then the containers, one merge, one descent ---------- *)

Definition rq (ty gp cs : N) : obj := Obj (fresh_dobj ty gp (Some (bs_of_N cs)) None None None (-1)%Z (-1)%Z) [] [] [] [].
Definition bare_root : obj := Obj (fresh_dobj HWLOC_OBJ_MACHINE 0 (Some bs_empty) (Some bs_empty) None None (-1)%Z (-1)%Z) [] [] [] [].
Definition example_steps : list dstep :=
  map (fun o => ([], false, o))
      [ rq HWLOC_OBJ_PACKAGE 1 15;            (* the container first, as the Linux backend does *)
        rq HWLOC_OBJ_PU 2 1; rq HWLOC_OBJ_PU 3 2;      (* descents *)
        rq HWLOC_OBJ_CORE 4 3;                         (* takes two PUs, one level down *)
        rq HWLOC_OBJ_PU 5 8; rq HWLOC_OBJ_PU 6 4;      (* out of order *)
        rq HWLOC_OBJ_CORE 7 12;
        rq HWLOC_OBJ_CORE 8 12;                        (* same type, same set: merged into the previous one *)
        rq HWLOC_OBJ_PACKAGE 9 240; rq HWLOC_OBJ_PU 10 16 ].
Example discovery_example :
  exists r, disc_runb bare_root example_steps = Some r /\ disc_ord r /\
            map (fun c => List.length (onch c)) (onch r) = [2; 1]%nat /\
            List.length (nflatten r) = 10%nat.
Proof.
  destruct (disc_runb bare_root example_steps) as [r|] eqn:E; [|vm_compute in E; discriminate E].
  exists r. split; [reflexivity|]. split.
  - apply (discovery_runb_keeps_ord bare_root example_steps r); [vm_compute; reflexivity|exact E].
  - vm_compute in E. injection E as <-. vm_compute. split; reflexivity.
Qed.
