(* Executable well-formedness checker over a flat dump: the C01 statement,
   clause by clause.  Independent of hwloc's own checker and of hwloc's bitmap
   primitives (sets are BSet values built from raw words).  Each reported
   violation names the clause and the object (or level) it fails on.
   WF.v states the same clauses as Props and proves the equivalence. *)
From Coq Require Import List NArith ZArith Bool String.
From HV Require Import Base.BSet Gen.Tables Text.TypeOrder Topo.Dump.
Import ListNotations.
Local Open Scope N_scope.

Definition viol := (string * N)%type.

Definition chk (b : bool) (name : string) (who : N) : list viol := if b then [] else [(name, who)].

Definition opt_bset_eqb (a b : option bset) : bool :=
  match a, b with Some x, Some y => bs_eqb x y | None, None => true | _, _ => false end.
Definition is_some {A} (o : option A) : bool := match o with Some _ => true | None => false end.
Definition oset (o : option bset) : bset := match o with Some s => s | None => bs_empty end.

Definition has_flag (d : dump) (f : N) : bool := negb (N.land (t_flags d) f =? 0).
Definition filter_of (d : dump) (ty : N) : N := nthN (t_filters d) ty HWLOC_TYPE_FILTER_KEEP_NONE.

Definition first_Z (s : bset) : Z := match bs_first s with Some k => Z.of_N k | None => (-1)%Z end.

(* ---------------- children lists ---------------- *)

Inductive ckind := KNormal | KMemory | KIo | KMisc.

Definition kind_ok (k : ckind) (ty : N) : bool :=
  match k with
  | KNormal => is_normal ty
  | KMemory => is_memory ty
  | KIo => is_io ty
  | KMisc => ty =? HWLOC_OBJ_MISC
  end.

Definition nth_ptr (l : list ptr) (i : nat) : ptr := nth i l PNull.

(* one child at position i of the chain of kind k below parent p *)
Definition check_child (d : dump) (p : dobj) (k : ckind) (chain : list ptr) (i : nat) (c : ptr) : list viol :=
  match deref d c with
  | None => [("child-dangling"%string, o_id p)]
  | Some co =>
      chk (ptr_eqb (o_parent co) (PId (o_id p))) "child-parent" (o_id co) ++
      chk (o_rank co =? N.of_nat i) "sibling-rank" (o_id co) ++
      chk (ptr_eqb (o_prev_sib co) (match i with O => PNull | S j => nth_ptr chain j end)) "prev-sibling" (o_id co) ++
      chk (ptr_eqb (o_next_sib co) (nth_ptr chain (S i))) "next-sibling" (o_id co) ++
      chk (kind_ok k (o_type co)) "child-kind" (o_id co) ++
      match k with
      | KNormal => chk (o_depth p <? o_depth co)%Z "child-depth" (o_id co)
      | KMemory => chk (match o_nch co, o_ich co with [], [] => true | _, _ => false end) "memory-child-has-normal-or-io" (o_id co)
      | KIo => chk (match o_nch co, o_mch co with [], [] => true | _, _ => false end) "io-child-has-normal-or-memory" (o_id co)
      | KMisc => chk (match o_nch co, o_mch co, o_ich co with [], [], [] => true | _, _, _ => false end) "misc-child-has-nonmisc" (o_id co)
      end
  end.

Fixpoint check_chain_from (d : dump) (p : dobj) (k : ckind) (chain rest : list ptr) (i : nat) : list viol :=
  match rest with
  | [] => []
  | c :: tl => check_child d p k chain i c ++ check_chain_from d p k chain tl (S i)
  end.

Definition check_chain (d : dump) (p : dobj) (k : ckind) (chain : list ptr) (arity : N) : list viol :=
  chk (N.of_nat (List.length chain) =? arity) "arity" (o_id p) ++ check_chain_from d p k chain chain 0.

Definition ptr_list_eqb (a b : list ptr) : bool :=
  (Nat.eqb (List.length a) (List.length b)) && forallb (fun xy => ptr_eqb (fst xy) (snd xy)) (combine a b).

Definition check_children (d : dump) (o : dobj) : list viol :=
  check_chain d o KNormal (o_nch o) (o_arity o) ++
  check_chain d o KMemory (o_mch o) (o_marity o) ++
  check_chain d o KIo (o_ich o) (o_iarity o) ++
  check_chain d o KMisc (o_xch o) (o_xarity o) ++
  chk (ptr_eqb (o_first o) (nth_ptr (o_nch o) 0)) "first-child" (o_id o) ++
  chk (ptr_eqb (o_last o) (last (o_nch o) PNull)) "last-child" (o_id o) ++
  chk (match o_carray o with
       | None => match o_nch o with [] => true | _ => false end
       | Some a => match o_nch o with [] => false | _ => ptr_list_eqb a (o_nch o) end
       end) "children-array" (o_id o).

(* ---------------- sets ---------------- *)

Definition derefs (d : dump) (l : list ptr) : list dobj :=
  flat_map (fun p => match deref d p with Some o => [o] | None => [] end) l.

(* disjoint union of a list of sets: returns None if two of them intersect *)
Fixpoint disjoint_union (l : list bset) (acc : bset) : option bset :=
  match l with
  | [] => Some acc
  | s :: tl => if bs_intersects acc s then None else disjoint_union tl (bs_union acc s)
  end.

Definition union_all (l : list bset) : bset := fold_left bs_union l bs_empty.

Definition subset_opt (a b : option bset) : bool :=
  match a, b with Some x, Some y => bs_subset x y | _, _ => true end.

(* complete cpusets of normal children ordered by first index, empty ones last *)
Fixpoint ordered_first (l : list bset) (prev_first : Z) (prev_empty : bool) : bool :=
  match l with
  | [] => true
  | s :: tl =>
      let f := first_Z s in
      if (0 <=? f)%Z then negb prev_empty && (prev_first <? f)%Z && ordered_first tl f prev_empty
      else ordered_first tl f true
  end.
Fixpoint strictly_ordered_first (l : list bset) (prev_first : Z) : bool :=
  match l with
  | [] => true
  | s :: tl => let f := first_Z s in (prev_first <? f)%Z && strictly_ordered_first tl f
  end.

(* nodesets locally attached to o: its memory children's nodesets *)
Definition local_nodesets (d : dump) (o : dobj) : list bset := map (fun c => oset (o_nds c)) (derefs d (o_mch o)).

(* union of the local nodesets of the strict ancestors *)
Fixpoint inherited_nodeset (d : dump) (fuel : nat) (p : ptr) : bset :=
  match fuel with
  | O => bs_empty
  | S f => match deref d p with
           | None => bs_empty
           | Some a => bs_union (union_all (local_nodesets d a)) (inherited_nodeset d f (o_parent a))
           end
  end.

Definition check_sets (d : dump) (o : dobj) : list viol :=
  let ty := o_type o in
  let id := o_id o in
  let parent := deref d (o_parent o) in
  if is_special ty then
    chk (negb (is_some (o_cs o)) && negb (is_some (o_ccs o)) && negb (is_some (o_nds o)) && negb (is_some (o_cnds o))) "special-has-sets" id
  else
    chk (is_some (o_cs o) && is_some (o_ccs o) && is_some (o_nds o) && is_some (o_cnds o)) "sets-missing" id ++
    chk (subset_opt (o_cs o) (o_ccs o)) "cpuset-not-in-complete" id ++
    chk (subset_opt (o_nds o) (o_cnds o)) "nodeset-not-in-complete" id ++
    (match parent with
     | Some p =>
         chk (subset_opt (o_cs o) (o_cs p)) "cpuset-not-in-parent" id ++
         chk (subset_opt (o_ccs o) (o_ccs p)) "complete-cpuset-not-in-parent" id ++
         chk (subset_opt (o_nds o) (o_nds p)) "nodeset-not-in-parent" id ++
         chk (subset_opt (o_cnds o) (o_cnds p)) "complete-nodeset-not-in-parent" id
     | None => []
     end) ++
    (if ty =? HWLOC_OBJ_PU then
       chk (opt_bset_eqb (o_cs o) (Some (bs_single (o_os o)))) "pu-cpuset" id ++
       chk (opt_bset_eqb (o_ccs o) (Some (bs_single (o_os o)))) "pu-complete-cpuset" id ++
       chk (has_flag d HWLOC_TOPOLOGY_FLAG_INCLUDE_DISALLOWED || mem (o_os o) (oset (t_acpu d))) "pu-not-allowed" id ++
       chk ((o_arity o =? 0) && (o_marity o =? 0)) "pu-has-children" id
     else if is_memory ty then
       chk (match parent with Some p => opt_bset_eqb (o_cs o) (o_cs p) | None => false end) "memory-cpuset-differs-from-parent" id ++
       chk (o_arity o =? 0) "memory-has-normal-children" id ++
       (if ty =? HWLOC_OBJ_NUMANODE then
          chk (opt_bset_eqb (o_nds o) (Some (bs_single (o_os o)))) "numa-nodeset" id ++
          chk (opt_bset_eqb (o_cnds o) (Some (bs_single (o_os o)))) "numa-complete-nodeset" id ++
          chk (has_flag d HWLOC_TOPOLOGY_FLAG_INCLUDE_DISALLOWED || mem (o_os o) (oset (t_anode d))) "numa-not-allowed" id ++
          chk (o_marity o =? 0) "numa-has-memory-children" id
        else [])
     else
       (* normal, not PU: cpuset is the disjoint union of the normal children's *)
       let kids := derefs d (o_nch o) in
       chk (match disjoint_union (map (fun c => oset (o_cs c)) kids) bs_empty with
            | Some u => bs_eqb u (oset (o_cs o))
            | None => false end) "cpuset-not-disjoint-union-of-children" id ++
       chk (ordered_first (map (fun c => oset (o_ccs c)) kids) (-1)%Z false) "children-order" id ++
       (* nodeset = inherited + local + children contributions, all disjoint *)
       let inh := inherited_nodeset d (List.length (t_objs d)) (o_parent o) in
       match disjoint_union (local_nodesets d o) bs_empty with
       | None => [("local-nodesets-intersect"%string, id)]
       | Some loc =>
           chk (negb (bs_intersects inh loc)) "local-nodeset-intersects-inherited" id ++
           let P := bs_union inh loc in
           match disjoint_union (map (fun c => bs_diff (oset (o_nds c)) P) kids) bs_empty with
           | None => [("children-nodeset-contributions-intersect"%string, id)]
           | Some contrib => chk (bs_eqb (bs_union P contrib) (oset (o_nds o))) "nodeset-not-inherited-local-children" id
           end
       end) ++
    chk (strictly_ordered_first (map (fun c => oset (o_cnds c)) (derefs d (o_mch o))) (-1)%Z) "memory-children-order" id.

(* ---------------- attributes, filters, totals, depth ---------------- *)

Definition sum_N (l : list N) : N := fold_left N.add l 0.

Definition pci_class_important (c : Z) : bool :=
  let base := Z.shiftr c 8 in
  ((base =? 3) || (base =? 2) || (base =? 1) || (base =? 0) || (base =? 11) || (c =? 3076) || (c =? 3078)
   || (c =? 1282) || (base =? 6) || (base =? 18))%Z.

Definition special_depth (ty : N) : option Z :=
  if ty =? HWLOC_OBJ_NUMANODE then Some HWLOC_TYPE_DEPTH_NUMANODE
  else if ty =? HWLOC_OBJ_MEMCACHE then Some HWLOC_TYPE_DEPTH_MEMCACHE
  else if ty =? HWLOC_OBJ_BRIDGE then Some HWLOC_TYPE_DEPTH_BRIDGE
  else if ty =? HWLOC_OBJ_PCI_DEVICE then Some HWLOC_TYPE_DEPTH_PCI_DEVICE
  else if ty =? HWLOC_OBJ_OS_DEVICE then Some HWLOC_TYPE_DEPTH_OS_DEVICE
  else if ty =? HWLOC_OBJ_MISC then Some HWLOC_TYPE_DEPTH_MISC
  else None.

Definition find_level (d : dump) (depth : Z) : option level :=
  find (fun l => (l_depth l =? depth)%Z) (t_levels d).

Definition check_misc (d : dump) (o : dobj) : list viol :=
  let ty := o_type o in
  let id := o_id o in
  chk (ty <? HWLOC_OBJ_TYPE_MAX) "type-range" id ++
  chk (negb (filter_of d ty =? HWLOC_TYPE_FILTER_KEEP_NONE)) "filtered-type-present" id ++
  chk (negb (filter_of d ty =? HWLOC_TYPE_FILTER_KEEP_IMPORTANT) ||
       (if ty =? HWLOC_OBJ_PCI_DEVICE then pci_class_important (o_pci_class o)
        else if ty =? HWLOC_OBJ_OS_DEVICE then negb (o_os_types o =? 0)%Z && negb (o_os_types o =? Z.of_N HWLOC_OBJ_OSDEV_DMA)%Z
        else true)) "unimportant-io-present" id ++
  chk (match special_depth ty with Some sd => (o_depth o =? sd)%Z | None => (0 <=? o_depth o)%Z end) "depth-vs-type" id ++
  chk (match find_level d (o_depth o) with
       | Some l => ptr_eqb (nth_ptr (l_ids l) (N.to_nat (o_lidx o))) (PId id)
       | None => false end) "not-in-its-level" id ++
  chk (if is_cache ty then
         (if is_icache ty then (o_cache_type o =? Z.of_N HWLOC_OBJ_CACHE_INSTRUCTION)%Z
          else ((o_cache_type o =? Z.of_N HWLOC_OBJ_CACHE_DATA) || (o_cache_type o =? Z.of_N HWLOC_OBJ_CACHE_UNIFIED))%Z) &&
         (nth (Z.to_nat (o_cache_type o)) (nth (Z.to_nat (o_cache_depth o)) cache_type_by_depth_type_tbl []) (-1)%Z =? Z.of_N ty)%Z &&
         (0 <=? o_cache_depth o)%Z && (o_cache_depth o <=? 6)%Z
       else true) "cache-attr-vs-type" id ++
  chk (negb (ty =? HWLOC_OBJ_GROUP) || negb (o_group_depth o =? Z.of_N UINT_MAX)%Z) "group-depth-unset" id ++
  chk (o_tm o =? (if ty =? HWLOC_OBJ_NUMANODE then o_lm o else 0)
                 + sum_N (map o_tm (derefs d (o_nch o))) + sum_N (map o_tm (derefs d (o_mch o)))) "total-memory" id ++
  chk (match o_parent o with
       | PNull => (id =? 0) && ptr_eqb (o_prev_sib o) PNull && ptr_eqb (o_next_sib o) PNull
       | PId _ => negb (id =? 0)
       | PBad => false end) "parent-pointer" id.

(* ---------------- levels ---------------- *)

Fixpoint check_level_from (d : dump) (l : level) (first : option dobj) (rest : list ptr) (j : nat) (prev : ptr) : list viol :=
  let who := Z.to_N (Z.abs (l_depth l)) in
  match rest with
  | [] => []
  | p :: tl =>
      match deref d p with
      | None => [("level-entry-dangling"%string, who)]
      | Some o =>
          chk (o_depth o =? l_depth l)%Z "level-depth" (o_id o) ++
          chk (o_lidx o =? N.of_nat j) "logical-index" (o_id o) ++
          chk (ptr_eqb (o_prev_cousin o) prev) "prev-cousin" (o_id o) ++
          chk (ptr_eqb (o_next_cousin o) (nth_ptr tl 0)) "next-cousin" (o_id o) ++
          chk (Z.of_N (o_type o) =? l_type l)%Z "level-type" (o_id o) ++
          chk (match first with
               | Some f => (o_group_kind o =? o_group_kind f)%Z && (o_group_subkind o =? o_group_subkind f)%Z
               | None => true end) "level-group-kind" (o_id o) ++
          chk (match prev with PId q => q <? o_id o | _ => true end) "level-order" (o_id o) ++
          check_level_from d l (match first with Some f => Some f | None => Some o end) tl (S j) p
      end
  end.

Definition check_level (d : dump) (l : level) : list viol :=
  let who := Z.to_N (Z.abs (l_depth l)) in
  chk (N.of_nat (List.length (l_ids l)) =? l_width l) "level-width" who ++
  chk (ptr_eqb (l_probe l) PNull) "level-probe-past-end" who ++
  check_level_from d l None (l_ids l) 0 PNull.

Definition special_levels : list (Z * N) :=
  [(HWLOC_TYPE_DEPTH_NUMANODE, HWLOC_OBJ_NUMANODE); (HWLOC_TYPE_DEPTH_BRIDGE, HWLOC_OBJ_BRIDGE);
   (HWLOC_TYPE_DEPTH_PCI_DEVICE, HWLOC_OBJ_PCI_DEVICE); (HWLOC_TYPE_DEPTH_OS_DEVICE, HWLOC_OBJ_OS_DEVICE);
   (HWLOC_TYPE_DEPTH_MISC, HWLOC_OBJ_MISC); (HWLOC_TYPE_DEPTH_MEMCACHE, HWLOC_OBJ_MEMCACHE)].

Definition normal_levels (d : dump) : list level := filter (fun l => (0 <=? l_depth l)%Z) (t_levels d).

Fixpoint check_normal_level_seq (d : dump) (ls : list level) (j : Z) : list viol :=
  match ls with
  | [] => []
  | l :: tl =>
      let who := Z.to_N j in
      chk (l_depth l =? j)%Z "normal-level-depth-sequence" who ++
      chk (0 <? l_width l) "empty-normal-level" who ++
      chk ((0 <=? l_type l)%Z && is_normal (Z.to_N (l_type l))) "normal-level-of-non-normal-type" who ++
      chk (Bool.eqb (l_type l =? Z.of_N HWLOC_OBJ_MACHINE)%Z (j =? 0)%Z) "machine-level" who ++
      chk (Bool.eqb (l_type l =? Z.of_N HWLOC_OBJ_PU)%Z (j =? t_depth d - 1)%Z) "pu-level" who ++
      check_normal_level_seq d tl (j + 1)
  end.

Definition check_type_depth (d : dump) (ty : N) : list viol :=
  let td := nthN (t_tdepths d) ty (-99)%Z in
  match special_depth ty with
  | Some sd => chk (td =? sd)%Z "type-depth-special" ty
  | None =>
      let ls := filter (fun l => (l_type l =? Z.of_N ty)%Z) (normal_levels d) in
      match ls with
      | [] => chk (td =? HWLOC_TYPE_DEPTH_UNKNOWN)%Z "type-depth-unknown" ty
      | [l] => chk (td =? l_depth l)%Z "type-depth-single" ty
      | _ => chk (td =? HWLOC_TYPE_DEPTH_MULTIPLE)%Z "type-depth-multiple" ty
      end
  end.

Fixpoint nodup_N (l : list N) : bool :=
  match l with [] => true | x :: tl => negb (existsb (N.eqb x) tl) && nodup_N tl end.

Fixpoint ids_sequential (l : list dobj) (i : N) : bool :=
  match l with [] => true | o :: tl => (o_id o =? i) && ids_sequential tl (i + 1) end.

Definition check_global (d : dump) : list viol :=
  let objs := t_objs d in
  chk (ids_sequential objs 0 && (N.of_nat (List.length objs) =? t_nobj d)) "ids-not-sequential" 0 ++
  chk (match get d 0 with
       | Some r => (o_type r =? HWLOC_OBJ_MACHINE) && (o_depth r =? 0)%Z
       | None => false end) "root-not-machine" 0 ++
  chk (match find_level d 0 with Some l => ptr_list_eqb (l_ids l) [PId 0] | None => false end) "root-level" 0 ++
  chk (Z.of_nat (List.length (normal_levels d)) =? t_depth d)%Z "depth-vs-levels" 0 ++
  check_normal_level_seq d (normal_levels d) 0 ++
  flat_map (fun sl => chk (match find_level d (fst sl) with
                           | Some l => (l_type l =? Z.of_N (snd sl))%Z
                           | None => false end) "special-level-missing-or-mistyped" (snd sl)) special_levels ++
  chk (match find_level d HWLOC_TYPE_DEPTH_NUMANODE with Some l => 0 <? l_width l | None => false end) "no-numa-node" 0 ++
  flat_map (check_type_depth d) all_types ++
  chk (nodup_N (flat_map (fun o => match o_gp o with Some g => [g] | None => [] end) objs)) "gp-index-duplicate" 0 ++
  chk (nodup_N (map o_os (filter (fun o => o_type o =? HWLOC_OBJ_PU) objs))) "pu-os-index-duplicate" 0 ++
  chk (nodup_N (map o_os (filter (fun o => o_type o =? HWLOC_OBJ_NUMANODE) objs))) "numa-os-index-duplicate" 0 ++
  (match get d 0 with
   | Some r =>
       if has_flag d HWLOC_TOPOLOGY_FLAG_INCLUDE_DISALLOWED then
         chk (subset_opt (t_acpu d) (o_cs r) && is_some (t_acpu d)) "allowed-cpuset-not-in-root" 0 ++
         chk (subset_opt (t_anode d) (o_nds r) && is_some (t_anode d)) "allowed-nodeset-not-in-root" 0
       else
         chk (opt_bset_eqb (t_acpu d) (o_cs r) && is_some (t_acpu d)) "allowed-cpuset-differs-from-root" 0 ++
         chk (opt_bset_eqb (t_anode d) (o_nds r) && is_some (t_anode d)) "allowed-nodeset-differs-from-root" 0
   | None => [] end).

Definition check_obj (d : dump) (o : dobj) : list viol :=
  check_children d o ++ check_sets d o ++ check_misc d o.

Definition wf_check (d : dump) : list viol :=
  check_global d ++ flat_map (check_level d) (t_levels d) ++ flat_map (check_obj d) (t_objs d).
