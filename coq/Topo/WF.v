(* The C01 statement as Props over the flat dump, and soundness of the
   executable checker: wf_check d = [] -> WF d.  (The checker has more clauses
   than WF names - sibling/cousin pointers, ordering, type depths, attributes -
   those are decided by the checker directly; WF spells out, in mathematical
   form, the clauses the property text states about sets, uniqueness, totals,
   tree links and level membership.) *)
From Coq Require Import List NArith ZArith Bool Lia String.
From HV Require Import Base.BSet Gen.Tables Text.TypeOrder Topo.Dump Topo.WFCheck.
Import ListNotations.
Local Open Scope N_scope.

(* ---------- small inversion lemmas ---------- *)

Lemma chk_nil b n w : chk b n w = [] -> b = true.
Proof. unfold chk. destruct b; [reflexivity|discriminate]. Qed.

Lemma app_nil_inv {A} (a b : list A) : a ++ b = [] -> a = [] /\ b = [].
Proof. destruct a; [auto|discriminate]. Qed.

Lemma flat_map_nil {A B} (f : A -> list B) l : flat_map f l = [] -> forall x, In x l -> f x = [].
Proof.
  induction l as [|a l IH]; cbn [flat_map]; intros H x Hx; [destruct Hx|].
  apply app_nil_inv in H as [H1 H2]. destruct Hx as [<-|Hx]; [exact H1|apply IH; assumption].
Qed.

(* break every hypothesis of the form  a ++ b = []  into its parts *)
Ltac brk :=
  repeat match goal with
  | H : _ ++ _ = [] |- _ => let H1 := fresh "K" in let H2 := fresh "K" in apply app_nil_inv in H as [H1 H2]
  end.
(* fetch the check named [name] as a boolean fact *)
Ltac got name :=
  match goal with
  | H : chk _ name _ = [] |- _ => apply chk_nil in H
  end.

(* ---------- disjoint unions ---------- *)

Lemma disjoint_union_spec l : forall acc u,
  disjoint_union l acc = Some u ->
  (forall i, mem i u = mem i acc || existsb (mem i) l) /\
  ForallOrdPairs (fun a b => forall i, mem i a = true -> mem i b = true -> False) l /\
  Forall (fun a => forall i, mem i acc = true -> mem i a = true -> False) l.
Proof.
  induction l as [|s tl IH]; intros acc u H; cbn [disjoint_union] in H.
  - injection H as <-. split; [intros i; cbn; now rewrite orb_false_r|]. split; constructor.
  - destruct (bs_intersects acc s) eqn:E; [discriminate|].
    destruct (IH _ _ H) as (Hu & Hp & Ha).
    assert (Hd : forall i, mem i acc = true -> mem i s = true -> False).
    { intros i H1 H2. assert (bs_intersects acc s = true) by (apply bs_intersects_spec; eauto). congruence. }
    split; [|split].
    + intros i. rewrite Hu, mem_union. cbn [existsb]. now rewrite orb_assoc.
    + constructor; [|exact Hp]. rewrite Forall_forall in *. intros x Hx i H1 H2.
      apply (Ha x Hx i); [rewrite mem_union, H1; apply orb_true_r|exact H2].
    + constructor; [exact Hd|]. rewrite Forall_forall in *. intros x Hx i H1 H2.
      apply (Ha x Hx i); [rewrite mem_union, H1; reflexivity|exact H2].
Qed.

Lemma nodup_N_spec l : nodup_N l = true -> NoDup l.
Proof.
  induction l as [|x tl IH]; cbn [nodup_N]; intros H; [constructor|].
  apply andb_true_iff in H as [H1 H2]. constructor; [|apply IH, H2].
  intros Hin. apply negb_true_iff in H1.
  assert (existsb (N.eqb x) tl = true) by (apply existsb_exists; exists x; split; [exact Hin|apply N.eqb_refl]).
  congruence.
Qed.

Lemma ids_sequential_spec l : forall k, ids_sequential l k = true ->
  forall i o, nth_error l i = Some o -> o_id o = k + N.of_nat i.
Proof.
  induction l as [|x tl IH]; intros k H i o Hn; [destruct i; discriminate|].
  cbn [ids_sequential] in H. apply andb_true_iff in H as [H1 H2]. apply N.eqb_eq in H1.
  destruct i as [|i]; cbn in Hn.
  - injection Hn as <-. lia.
  - rewrite (IH _ H2 i o Hn). lia.
Qed.

(* ---------- the statement ---------- *)

Definition objs_of (d : dump) (l : list ptr) : list dobj := derefs d l.

Definition mem_o (i : N) (s : option bset) : bool := mem i (oset s).

Record WF (d : dump) : Prop := {
  (* identifiers are positions *)
  wf_ids : forall i o, nth_error (t_objs d) i = Some o -> o_id o = N.of_nat i;
  (* single Machine root at depth 0 *)
  wf_root : exists r, get d 0 = Some r /\ o_type r = HWLOC_OBJ_MACHINE /\ o_depth r = 0%Z;
  (* at least one NUMA node *)
  wf_numa : exists l, find_level d HWLOC_TYPE_DEPTH_NUMANODE = Some l /\ 0 < l_width l;
  (* uniqueness *)
  wf_gp_unique : NoDup (flat_map (fun o => match o_gp o with Some g => [g] | None => [] end) (t_objs d));
  wf_pu_os_unique : NoDup (map o_os (filter (fun o => o_type o =? HWLOC_OBJ_PU) (t_objs d)));
  wf_numa_os_unique : NoDup (map o_os (filter (fun o => o_type o =? HWLOC_OBJ_NUMANODE) (t_objs d)));
  (* each set is included in its complete_ counterpart *)
  wf_in_complete : forall o, In o (t_objs d) -> is_special (o_type o) = false ->
      (forall i, mem_o i (o_cs o) = true -> mem_o i (o_ccs o) = true) /\
      (forall i, mem_o i (o_nds o) = true -> mem_o i (o_cnds o) = true);
  (* ... and in the parent's *)
  wf_in_parent : forall o p, In o (t_objs d) -> is_special (o_type o) = false -> deref d (o_parent o) = Some p ->
      (forall i, mem_o i (o_cs o) = true -> o_cs p <> None -> mem_o i (o_cs p) = true) /\
      (forall i, mem_o i (o_nds o) = true -> o_nds p <> None -> mem_o i (o_nds p) = true);
  (* a PU's cpuset is exactly its own os_index, and it has no normal or memory children *)
  wf_pu : forall o, In o (t_objs d) -> o_type o = HWLOC_OBJ_PU ->
      o_cs o = Some (bs_single (o_os o)) /\ o_ccs o = Some (bs_single (o_os o)) /\ o_arity o = 0 /\ o_marity o = 0;
  (* a NUMA node's nodeset is exactly its own os_index *)
  wf_numa_node : forall o, In o (t_objs d) -> o_type o = HWLOC_OBJ_NUMANODE ->
      o_nds o = Some (bs_single (o_os o)) /\ o_cnds o = Some (bs_single (o_os o));
  (* memory children share their parent's cpuset *)
  wf_memory_cpuset : forall o, In o (t_objs d) -> is_memory (o_type o) = true ->
      exists p, deref d (o_parent o) = Some p /\ o_cs o = o_cs p;
  (* every other normal object's cpuset is the disjoint union of its normal children's *)
  wf_cpuset_union : forall o, In o (t_objs d) ->
      is_special (o_type o) = false -> is_memory (o_type o) = false -> o_type o <> HWLOC_OBJ_PU ->
      let kids := map (fun c => oset (o_cs c)) (objs_of d (o_nch o)) in
      (forall i, mem_o i (o_cs o) = existsb (mem i) kids) /\
      ForallOrdPairs (fun a b => forall i, mem i a = true -> mem i b = true -> False) kids;
  (* total_memory is the local memory plus the children's totals *)
  wf_total_memory : forall o, In o (t_objs d) ->
      o_tm o = (if o_type o =? HWLOC_OBJ_NUMANODE then o_lm o else 0)
               + sum_N (map o_tm (objs_of d (o_nch o))) + sum_N (map o_tm (objs_of d (o_mch o)));
  (* no object of a filtered-out type *)
  wf_filter : forall o, In o (t_objs d) -> filter_of d (o_type o) <> HWLOC_TYPE_FILTER_KEEP_NONE;
  (* every object sits in the level of its depth at its logical index *)
  wf_in_level : forall o, In o (t_objs d) ->
      exists l, find_level d (o_depth o) = Some l /\ nth_ptr (l_ids l) (N.to_nat (o_lidx o)) = PId (o_id o);
  (* arities are the lengths of the children lists *)
  wf_arity : forall o, In o (t_objs d) ->
      N.of_nat (List.length (o_nch o)) = o_arity o /\ N.of_nat (List.length (o_mch o)) = o_marity o /\
      N.of_nat (List.length (o_ich o)) = o_iarity o /\ N.of_nat (List.length (o_xch o)) = o_xarity o;
  (* allowed sets vs root sets *)
  wf_allowed : forall r, get d 0 = Some r ->
      if has_flag d HWLOC_TOPOLOGY_FLAG_INCLUDE_DISALLOWED
      then (forall i, mem_o i (t_acpu d) = true -> o_cs r <> None -> mem_o i (o_cs r) = true) /\
           (forall i, mem_o i (t_anode d) = true -> o_nds r <> None -> mem_o i (o_nds r) = true)
      else t_acpu d = o_cs r /\ t_anode d = o_nds r
}.

(* ---------- soundness ---------- *)

Lemma subset_opt_mem a b : subset_opt a b = true -> b <> None -> forall i, mem_o i a = true -> mem_o i b = true.
Proof.
  unfold subset_opt, mem_o. destruct a as [x|], b as [y|]; intros H Hb i Hi; cbn [oset] in *.
  - rewrite bs_subset_spec in H. apply H, Hi.
  - contradiction.
  - now rewrite mem_empty in Hi.
  - contradiction.
Qed.

Lemma opt_bset_eqb_eq a b : opt_bset_eqb a b = true -> a = b.
Proof.
  unfold opt_bset_eqb. destruct a, b; intros H; try discriminate; [|reflexivity].
  apply bs_eqb_spec in H. now subst.
Qed.

Lemma check_obj_nil d o : In o (t_objs d) -> wf_check d = [] -> check_children d o = [] /\ check_sets d o = [] /\ check_misc d o = [].
Proof.
  intros Hin H. unfold wf_check in H. apply app_nil_inv in H as [_ H]. apply app_nil_inv in H as [_ H].
  pose proof (flat_map_nil _ _ H o Hin) as Ho. unfold check_obj in Ho.
  apply app_nil_inv in Ho as [H1 Ho]. apply app_nil_inv in Ho as [H2 H3]. auto.
Qed.

Lemma memory_not_special t : is_memory t = true -> is_special t = false.
Proof.
  unfold is_memory, is_special, nthN.
  assert (G : forall t, t < HWLOC_OBJ_TYPE_MAX ->
     implb (nth (N.to_nat t) type_is_memory_tbl false) (negb (nth (N.to_nat t) type_is_special_tbl false)) = true)
    by (apply forall_types; vm_compute; reflexivity).
  destruct (N.ltb_spec t HWLOC_OBJ_TYPE_MAX) as [Hlt|Hge]; intros Hm.
  - specialize (G _ Hlt). rewrite Hm in G. cbn [implb] in G. now apply negb_true_iff in G.
  - rewrite nth_overflow in Hm; [discriminate|].
    apply Nat.le_trans with (N.to_nat HWLOC_OBJ_TYPE_MAX); [vm_compute; repeat constructor|lia].
Qed.

Section Sound.
Variable d : dump.
Hypothesis Hall : wf_check d = [].

Lemma sound_global : check_global d = [].
Proof. unfold wf_check in Hall. now apply app_nil_inv in Hall as [? _]. Qed.

Lemma sound_ids : forall i o, nth_error (t_objs d) i = Some o -> o_id o = N.of_nat i.
Proof.
  pose proof sound_global as Hg. unfold check_global in Hg. brk. got "ids-not-sequential"%string.
  match goal with H : _ && _ = true |- _ => apply andb_true_iff in H as [Hs _] end.
  intros i o Hn. rewrite (ids_sequential_spec _ _ Hs i o Hn). lia.
Qed.

Lemma sound_root : exists r, get d 0 = Some r /\ o_type r = HWLOC_OBJ_MACHINE /\ o_depth r = 0%Z.
Proof.
  pose proof sound_global as Hg. unfold check_global in Hg. brk. got "root-not-machine"%string.
  destruct (get d 0) as [r|]; [|discriminate].
  match goal with H : _ && _ = true |- _ => apply andb_true_iff in H as [A B] end.
  exists r. split; [reflexivity|]. split; [now apply N.eqb_eq|now apply Z.eqb_eq].
Qed.

Lemma sound_numa : exists l, find_level d HWLOC_TYPE_DEPTH_NUMANODE = Some l /\ 0 < l_width l.
Proof.
  pose proof sound_global as Hg. unfold check_global in Hg. brk. got "no-numa-node"%string.
  destruct (find_level d HWLOC_TYPE_DEPTH_NUMANODE) as [l|]; [|discriminate].
  exists l. split; [reflexivity|]. match goal with H : (_ <? _) = true |- _ => now apply N.ltb_lt in H end.
Qed.

Lemma sound_unique :
  NoDup (flat_map (fun o => match o_gp o with Some g => [g] | None => [] end) (t_objs d)) /\
  NoDup (map o_os (filter (fun o => o_type o =? HWLOC_OBJ_PU) (t_objs d))) /\
  NoDup (map o_os (filter (fun o => o_type o =? HWLOC_OBJ_NUMANODE) (t_objs d))).
Proof.
  pose proof sound_global as Hg. unfold check_global in Hg. brk.
  got "gp-index-duplicate"%string. got "pu-os-index-duplicate"%string. got "numa-os-index-duplicate"%string.
  repeat split; apply nodup_N_spec; assumption.
Qed.

Lemma sound_allowed : forall r, get d 0 = Some r ->
      if has_flag d HWLOC_TOPOLOGY_FLAG_INCLUDE_DISALLOWED
      then (forall i, mem_o i (t_acpu d) = true -> o_cs r <> None -> mem_o i (o_cs r) = true) /\
           (forall i, mem_o i (t_anode d) = true -> o_nds r <> None -> mem_o i (o_nds r) = true)
      else t_acpu d = o_cs r /\ t_anode d = o_nds r.
Proof.
  intros r Hr. pose proof sound_global as Hg. unfold check_global in Hg. rewrite Hr in Hg.
  destruct (has_flag d HWLOC_TOPOLOGY_FLAG_INCLUDE_DISALLOWED); brk.
  - got "allowed-cpuset-not-in-root"%string. got "allowed-nodeset-not-in-root"%string.
    repeat match goal with H : _ && _ = true |- _ => apply andb_true_iff in H as [? ?] end.
    split; intros i Hi Hn; eapply subset_opt_mem; eauto.
  - got "allowed-cpuset-differs-from-root"%string. got "allowed-nodeset-differs-from-root"%string.
    repeat match goal with H : _ && _ = true |- _ => apply andb_true_iff in H as [? ?] end.
    split; now apply opt_bset_eqb_eq.
Qed.

Section PerObject.
Variable o : dobj.
Hypothesis Hin : In o (t_objs d).

Lemma sound_in_complete : is_special (o_type o) = false ->
      (forall i, mem_o i (o_cs o) = true -> mem_o i (o_ccs o) = true) /\
      (forall i, mem_o i (o_nds o) = true -> mem_o i (o_cnds o) = true).
Proof.
  intros Hsp. destruct (check_obj_nil d o Hin Hall) as (_ & Hs & _).
  unfold check_sets in Hs. rewrite Hsp in Hs. brk.
  got "sets-missing"%string. got "cpuset-not-in-complete"%string. got "nodeset-not-in-complete"%string.
  repeat match goal with H : _ && _ = true |- _ => apply andb_true_iff in H as [? ?] end.
  split; intros i Hi; eapply subset_opt_mem; eauto.
  - destruct (o_ccs o); [discriminate|discriminate].
  - destruct (o_cnds o); [discriminate|discriminate].
Qed.

Lemma sound_in_parent p : is_special (o_type o) = false -> deref d (o_parent o) = Some p ->
      (forall i, mem_o i (o_cs o) = true -> o_cs p <> None -> mem_o i (o_cs p) = true) /\
      (forall i, mem_o i (o_nds o) = true -> o_nds p <> None -> mem_o i (o_nds p) = true).
Proof.
  intros Hsp Hp. destruct (check_obj_nil d o Hin Hall) as (_ & Hs & _).
  unfold check_sets in Hs. rewrite Hsp, Hp in Hs. brk.
  got "cpuset-not-in-parent"%string. got "nodeset-not-in-parent"%string.
  split; intros i Hi Hn; eapply subset_opt_mem; eauto.
Qed.

Lemma sound_pu : o_type o = HWLOC_OBJ_PU ->
      o_cs o = Some (bs_single (o_os o)) /\ o_ccs o = Some (bs_single (o_os o)) /\ o_arity o = 0 /\ o_marity o = 0.
Proof.
  intros Hty. destruct (check_obj_nil d o Hin Hall) as (_ & Hs & _).
  assert (Hsp : is_special (o_type o) = false) by (rewrite Hty; vm_compute; reflexivity).
  unfold check_sets in Hs. rewrite Hsp in Hs. rewrite Hty, N.eqb_refl in Hs. brk.
  got "pu-cpuset"%string. got "pu-complete-cpuset"%string. got "pu-has-children"%string.
  repeat match goal with H : _ && _ = true |- _ => apply andb_true_iff in H as [? ?] end.
  repeat match goal with H : opt_bset_eqb _ _ = true |- _ => apply opt_bset_eqb_eq in H end.
  repeat match goal with H : (_ =? _) = true |- _ => apply N.eqb_eq in H end. auto.
Qed.

Lemma sound_numa_node : o_type o = HWLOC_OBJ_NUMANODE ->
      o_nds o = Some (bs_single (o_os o)) /\ o_cnds o = Some (bs_single (o_os o)).
Proof.
  intros Hty. destruct (check_obj_nil d o Hin Hall) as (_ & Hs & _).
  assert (Hsp : is_special (o_type o) = false) by (rewrite Hty; vm_compute; reflexivity).
  assert (E1 : (o_type o =? HWLOC_OBJ_PU) = false) by (rewrite Hty; vm_compute; reflexivity).
  assert (E2 : is_memory (o_type o) = true) by (rewrite Hty; vm_compute; reflexivity).
  unfold check_sets in Hs. rewrite Hsp, E1, E2 in Hs. rewrite Hty, N.eqb_refl in Hs. brk.
  got "numa-nodeset"%string. got "numa-complete-nodeset"%string.
  repeat match goal with H : opt_bset_eqb _ _ = true |- _ => apply opt_bset_eqb_eq in H end. auto.
Qed.

Lemma sound_memory_cpuset : is_memory (o_type o) = true ->
      exists p, deref d (o_parent o) = Some p /\ o_cs o = o_cs p.
Proof.
  intros Hm. destruct (check_obj_nil d o Hin Hall) as (_ & Hs & _).
  pose proof (memory_not_special _ Hm) as Hsp.
  assert (E1 : (o_type o =? HWLOC_OBJ_PU) = false).
  { apply N.eqb_neq. intros E. rewrite E in Hm. vm_compute in Hm. discriminate. }
  unfold check_sets in Hs. rewrite Hsp, E1, Hm in Hs. brk.
  got "memory-cpuset-differs-from-parent"%string.
  destruct (deref d (o_parent o)) as [p|]; [|discriminate]. exists p. split; [reflexivity|].
  now apply opt_bset_eqb_eq.
Qed.

Lemma sound_cpuset_union :
      is_special (o_type o) = false -> is_memory (o_type o) = false -> o_type o <> HWLOC_OBJ_PU ->
      let kids := map (fun c => oset (o_cs c)) (objs_of d (o_nch o)) in
      (forall i, mem_o i (o_cs o) = existsb (mem i) kids) /\
      ForallOrdPairs (fun a b => forall i, mem i a = true -> mem i b = true -> False) kids.
Proof.
  intros Hsp Hm Hpu kids. destruct (check_obj_nil d o Hin Hall) as (_ & Hs & _).
  assert (E1 : (o_type o =? HWLOC_OBJ_PU) = false) by now apply N.eqb_neq.
  unfold check_sets in Hs. rewrite Hsp, E1, Hm in Hs. brk.
  got "cpuset-not-disjoint-union-of-children"%string.
  match goal with H : match disjoint_union ?k bs_empty with _ => _ end = true |- _ =>
    change k with kids in H; destruct (disjoint_union kids bs_empty) as [u|] eqn:Eu; [|discriminate];
    apply bs_eqb_spec in H; destruct (disjoint_union_spec _ _ _ Eu) as (Hu & Hp & _);
    split; [|exact Hp]; intros i; unfold mem_o; rewrite <- H, Hu, mem_empty; reflexivity
  end.
Qed.

Lemma sound_misc :
      o_tm o = (if o_type o =? HWLOC_OBJ_NUMANODE then o_lm o else 0)
               + sum_N (map o_tm (objs_of d (o_nch o))) + sum_N (map o_tm (objs_of d (o_mch o))) /\
      filter_of d (o_type o) <> HWLOC_TYPE_FILTER_KEEP_NONE /\
      exists l, find_level d (o_depth o) = Some l /\ nth_ptr (l_ids l) (N.to_nat (o_lidx o)) = PId (o_id o).
Proof.
  destruct (check_obj_nil d o Hin Hall) as (_ & _ & Hm). unfold check_misc in Hm. brk.
  got "total-memory"%string. got "filtered-type-present"%string. got "not-in-its-level"%string.
  split; [|split].
  - match goal with H : (o_tm o =? _) = true |- _ => now apply N.eqb_eq in H end.
  - match goal with H : negb (filter_of d _ =? _) = true |- _ => now apply negb_true_iff, N.eqb_neq in H end.
  - destruct (find_level d (o_depth o)) as [l|]; [|discriminate]. exists l. split; [reflexivity|].
    match goal with H : ptr_eqb ?a (PId _) = true |- _ => destruct a as [|j|] eqn:E; try discriminate; cbn [ptr_eqb] in H; apply N.eqb_eq in H; now subst end.
Qed.

Lemma sound_arity :
      N.of_nat (List.length (o_nch o)) = o_arity o /\ N.of_nat (List.length (o_mch o)) = o_marity o /\
      N.of_nat (List.length (o_ich o)) = o_iarity o /\ N.of_nat (List.length (o_xch o)) = o_xarity o.
Proof.
  destruct (check_obj_nil d o Hin Hall) as (Hc & _ & _). unfold check_children, check_chain in Hc. brk.
  repeat match goal with H : chk _ "arity"%string _ = [] |- _ => apply chk_nil in H; apply N.eqb_eq in H end. auto.
Qed.

End PerObject.
End Sound.

Theorem wf_check_sound d : wf_check d = [] -> WF d.
Proof.
  intros H. destruct (sound_unique d H) as (U1 & U2 & U3).
  constructor.
  - apply sound_ids, H.
  - apply sound_root, H.
  - apply sound_numa, H.
  - exact U1.
  - exact U2.
  - exact U3.
  - intros o Hin. apply (sound_in_complete d H o Hin).
  - intros o p Hin. apply (sound_in_parent d H o Hin).
  - intros o Hin. apply (sound_pu d H o Hin).
  - intros o Hin. apply (sound_numa_node d H o Hin).
  - intros o Hin. apply (sound_memory_cpuset d H o Hin).
  - intros o Hin. apply (sound_cpuset_union d H o Hin).
  - intros o Hin. apply (sound_misc d H o Hin).
  - intros o Hin. apply (sound_misc d H o Hin).
  - intros o Hin. apply (sound_misc d H o Hin).
  - intros o Hin. apply (sound_arity d H o Hin).
  - apply (sound_allowed d H).
Qed.
