(* C09 - model of hwloc_distrib (include/hwloc/helper.h:959-1019).

   C arithmetic is [unsigned] (32 bits): every operation is taken modulo 2^32
   ([u32]); the theorems carry the domain hypothesis under which nothing
   wraps.  The output array is a list of slots ([None] = a slot the call did
   not write), because the C code advances [cpusetp += chunk] whatever the
   recursive call wrote.  [cpusetp[-1]] is the last slot written so far at
   this recursion level ([assert(given)] guards the case where there is none). *)
From Coq Require Import List NArith ZArith Bool Lia.
From HV Require Import Base.BSet Gen.Tables Text.TypeOrder Topo.Dump Topo.Obj Topo.Helpers.
Import ListNotations.
Local Open Scope N_scope.

Definition u32 (x : N) : N := x mod 2 ^ 32.

(* (unsigned) hwloc_bitmap_weight(set): -1 for an infinite set *)
Definition weight_u (s : bset) : N :=
  match bs_weight s with Some w => u32 w | None => 2 ^ 32 - 1 end.

(* chunk = (((givenweight+weight) * n + tot_weight-1) / tot_weight)
         - ((  givenweight         * n + tot_weight-1) / tot_weight);   all unsigned.
   (x - 1) mod 2^32 is written (x + (2^32 - 1)) mod 2^32; the subtraction of the
   two quotients likewise. *)
Definition chunk_of (gw w n tot : N) : N :=
  let a := u32 ((gw + w) * n + tot + (2 ^ 32 - 1)) / tot in
  let b := u32 (gw * n + tot + (2 ^ 32 - 1)) / tot in
  u32 (a + 2 ^ 32 - b).

Inductive dres :=
| D_ok (slots : list (option bset))
| D_assert          (* assert(given) fails *)
| D_nullprev.       (* cpusetp[-1] is a slot nobody wrote *)

(* one root of a call: its cpuset, the root after the walk up to a normal
   object, and n |-> hwloc_distrib(root->children, root->arity, ., n, until, flags) *)
Definition entry := (bset * obj * (N -> dres))%type.

Definition e_cs (e : entry) : bset := fst (fst e).
Definition e_obj (e : entry) : obj := snd (fst e).
Definition e_sub (e : entry) : N -> dres := snd e.

Definition tot_weight (roots : list entry) : N :=
  fold_left (fun acc e => u32 (acc + weight_u (e_cs e))) roots 0.

(* hwloc_bitmap_or(cpusetp[-1], cpusetp[-1], cpuset) *)
Definition or_last (out : list (option bset)) (s : bset) : option (list (option bset)) :=
  match last out None with
  | Some l => Some (removelast out ++ [Some (bs_union l s)])
  | None => None
  end.

(* exactly [chunk] slots: what the callee wrote, then unwritten slots *)
Definition pad (chunk : N) (slots : list (option bset)) : list (option bset) :=
  firstn (N.to_nat chunk) (slots ++ repeat None (N.to_nat chunk)).

Definition dstate := (dres * N * N)%type.    (* output so far, given, givenweight *)

Definition distrib_step (until : Z) (n tot : N) (st : dstate) (e : entry) : dstate :=
  let '(res, given, gw) := st in
  match res with
  | D_ok out =>
      let cpuset := e_cs e in
      let root := e_obj e in
      let weight := weight_u cpuset in
      if weight =? 0 then st                                   (* continue *)
      else
        let chunk := chunk_of gw weight n tot in
        let res' :=
          if (o_arity (odata root) =? 0) || (chunk <=? 1) || (until <=? o_depth (odata root))%Z then
            if 0 <? chunk then D_ok (out ++ repeat (Some cpuset) (N.to_nat chunk))
            else if given =? 0 then D_assert
            else match or_last out cpuset with Some out' => D_ok out' | None => D_nullprev end
          else
            match e_sub e chunk with
            | D_ok slots => D_ok (out ++ pad chunk slots)
            | err => err
            end in
        (res', u32 (given + chunk), u32 (gw + weight))
  | _ => st
  end.

(* the body of hwloc_distrib after the argument check *)
Definition distrib_loop (until : Z) (rv : bool) (roots : list entry) (n : N) : dres :=
  let tot := tot_weight roots in
  let order := if rv then rev roots else roots in       (* roots[flags & REVERSE ? n_roots-1-i : i] *)
  fst (fst (fold_left (distrib_step until n tot) order (D_ok [], 0, 0))).

Fixpoint dsub (until : Z) (rv : bool) (o : obj) {struct o} : N -> dres :=
  match o with
  | Obj _ ch _ _ _ =>
      let subs := (fix go (l : list obj) : list entry :=
                     match l with
                     | [] => []
                     | c :: tl => (cs c, c, dsub until rv c) :: go tl
                     end) ch in
      fun n => distrib_loop until rv subs n
  end.

Definition entry_of (until : Z) (rv : bool) (cpuset : bset) (root : obj) : entry :=
  (cpuset, root, dsub until rv root).

Definition HWLOC_DISTRIB_FLAG_REVERSE_model : N := 1.

(* hwloc_distrib: (return value, errno class 0 | EINVAL = 1, the n slots) *)
Definition hwloc_distrib (roots : list (bset * obj)) (n : N) (until : Z) (flags : N) : Z * N * dres :=
  if (n =? 0) || negb (N.ldiff flags HWLOC_DISTRIB_FLAG_REVERSE =? 0) then ((-1)%Z, 1, D_ok [])
  else
    let rv := negb (N.land flags HWLOC_DISTRIB_FLAG_REVERSE =? 0) in
    let es := map (fun r => entry_of until rv (fst r) (snd r)) roots in
    (* if (!tot_weight) { errno = EINVAL; return -1; }   (fix 18dcd81; a recursive call taking this
       exit has written nothing and its return value is ignored, which distrib_loop already says) *)
    if tot_weight es =? 0 then ((-1)%Z, 1, D_ok [])
    else
    (0%Z, 0, match distrib_loop until rv es n with
             | D_ok slots => D_ok (pad n slots)
             | err => err
             end).

(* the walk up "while (!hwloc_obj_type_is_normal(root->type)) root = root->parent" on the dump *)
Fixpoint normal_ancestor (d : dump) (fuel : nat) (o : dobj) : option dobj :=
  match fuel with
  | O => None
  | S f => if is_normal (o_type o) then Some o
           else match deref d (o_parent o) with Some p => normal_ancestor d f p | None => None end
  end.

Definition resolve_roots (d : dump) (tree : obj) (roots : list dobj) : option (list (bset * obj)) :=
  fold_right (fun r acc =>
                match normal_ancestor d (S (List.length (t_objs d))) r, acc with
                | Some a, Some l =>
                    match find (fun o => oid o =? o_id a) (nflatten tree) with
                    | Some t => Some ((dcs r, t) :: l)
                    | None => None
                    end
                | _, _ => None
                end) (Some []) roots.

(* ================================================================== *)
(* spec side: what the property says about the n sets                  *)

Definition slots_sets (l : list (option bset)) : option (list bset) :=
  fold_right (fun s acc => match s, acc with Some x, Some r => Some (x :: r) | _, _ => None end) (Some []) l.

Definition roots_union (roots : list (bset * obj)) : bset := union_list (map fst roots).

(* exactly n sets, each non-empty and inside the union of the roots, together covering every root *)
Definition distrib_spec_cover (roots : list (bset * obj)) (n : N) (sets : list bset) : bool :=
  (N.of_nat (List.length sets) =? n) &&
  forallb (fun s => negb (bs_is_empty s) && bs_subset s (roots_union roots)) sets &&
  bs_eqb (union_list sets) (roots_union roots).

(* the objects where the recursion necessarily stops: no child, or depth >= until (zero-weight ones are skipped) *)
Fixpoint dist_leaves (until : Z) (o : obj) : list obj :=
  match o with
  | Obj _ ch _ _ _ =>
      if bs_is_empty (cs o) then []
      else if (o_arity (odata o) =? 0) || (until <=? o_depth (odata o))%Z then [o]
      else (fix go (l : list obj) : list obj := match l with [] => [] | c :: tl => dist_leaves until c ++ go tl end) ch
  end.

Definition wsum (l : list bset) : N := fold_left (fun acc s => acc + weight_u s) l 0.

(* pairwise disjoint answers are promised when the roots are disjoint, every
   distribution leaf is a single PU and n does not exceed their number *)
Definition distrib_disjoint_applies (roots : list (bset * obj)) (n : N) (until : Z) : bool :=
  pairwise_disjoint (map fst roots) &&
  forallb (fun r => bs_eqb (fst r) (cs (snd r))) roots &&
  forallb (fun r => forallb (fun l => weight_u (cs l) =? 1) (dist_leaves until (snd r))) roots &&
  (n <=? wsum (map fst roots)).

Definition distrib_spec_disjoint (roots : list (bset * obj)) (n : N) (until : Z) (sets : list bset) : bool :=
  negb (distrib_disjoint_applies roots n until) || pairwise_disjoint sets.
