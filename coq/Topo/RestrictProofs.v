(* Proofs about the model of hwloc_topology_restrict (Topo/Restrict.v). *)
From Coq Require Import List NArith ZArith Bool Lia.
From HV Require Import Base.BSet Gen.Tables Text.TypeOrder Topo.Dump Topo.WFCheck Topo.Obj Topo.Restrict.
Import ListNotations.
Local Open Scope N_scope.

(* the 32 flag words over the five restrict flags: valid iff not (BYNODESET and
   REMOVE_CPULESS) and not (REMOVE_MEMLESS without BYNODESET) *)
Lemma flags_valid_32 :
  forallb (fun f => Bool.eqb (flags_valid f)
                      (negb (hasf f HWLOC_RESTRICT_FLAG_BYNODESET && hasf f HWLOC_RESTRICT_FLAG_REMOVE_CPULESS) &&
                       negb (negb (hasf f HWLOC_RESTRICT_FLAG_BYNODESET) && hasf f HWLOC_RESTRICT_FLAG_REMOVE_MEMLESS)))
          (map N.of_nat (seq 0 32)) = true.
Proof. vm_compute. reflexivity. Qed.
