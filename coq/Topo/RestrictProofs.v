(* Proofs about the model of hwloc_topology_restrict (Topo/Restrict.v). *)
From Coq Require Import List NArith ZArith Bool Lia.
From HV Require Import Base.BSet Gen.Tables Text.TypeOrder Topo.Dump Topo.WFCheck Topo.Obj Topo.Restrict.
Import ListNotations.
Local Open Scope N_scope.

(* ---------------- flag words ---------------- *)

(* the 32 flag words over the five restrict flags: valid iff not (BYNODESET and
   REMOVE_CPULESS) and not (REMOVE_MEMLESS without BYNODESET) *)
Lemma flags_valid_32 :
  forallb (fun f => Bool.eqb (flags_valid f)
                      (negb (hasf f HWLOC_RESTRICT_FLAG_BYNODESET && hasf f HWLOC_RESTRICT_FLAG_REMOVE_CPULESS) &&
                       negb (negb (hasf f HWLOC_RESTRICT_FLAG_BYNODESET) && hasf f HWLOC_RESTRICT_FLAG_REMOVE_MEMLESS)))
          (map N.of_nat (seq 0 32)) = true.
Proof. vm_compute. reflexivity. Qed.

(* any bit outside the five flags makes the word invalid *)
Lemma flags_valid_unknown_bit f : N.ldiff f RESTRICT_ALL <> 0 -> flags_valid f = false.
Proof.
  intros H. unfold flags_valid. apply N.eqb_neq in H. rewrite H. reflexivity.
Qed.

(* ---------------- set algebra ---------------- *)

Lemma bs_diff_compl a s : bs_diff a (bs_compl s) = bs_inter a s.
Proof. apply bs_ext. intros i. rewrite mem_diff, mem_compl, mem_inter, negb_involutive. reflexivity. Qed.

Lemma bs_intersects_false a b : bs_intersects a b = false -> forall i, mem i a = true -> mem i b = false.
Proof.
  intros H i Ha. destruct (mem i b) eqn:Hb; [|reflexivity].
  assert (bs_intersects a b = true) by (apply bs_intersects_spec; exists i; split; assumption). congruence.
Qed.

Lemma bs_diff_disjoint c a b : bs_subset c a = true -> bs_intersects a b = false -> bs_diff c b = c.
Proof.
  intros Hs Hi. apply bs_ext. intros i. rewrite mem_diff.
  destruct (mem i c) eqn:Hc; [|reflexivity]. cbn [andb].
  rewrite (bs_intersects_false a b Hi i); [reflexivity|].
  rewrite bs_subset_spec in Hs. apply Hs. assumption.
Qed.

Lemma bs_subset_refl a : bs_subset a a = true.
Proof. apply bs_subset_spec. auto. Qed.

Lemma bs_inter_assoc a b c : bs_inter (bs_inter a b) c = bs_inter a (bs_inter b c).
Proof. apply bs_ext. intros i. rewrite !mem_inter. symmetry. apply andb_assoc. Qed.

Lemma bs_diff_diff a b c : bs_diff (bs_diff a b) c = bs_diff a (bs_union b c).
Proof. apply bs_ext. intros i. rewrite !mem_diff, mem_union, negb_orb. symmetry. apply andb_assoc. Qed.

Lemma opt_bset_eqb_eq a b : opt_bset_eqb a b = true -> a = b.
Proof.
  destruct a, b; cbn; intros H; try discriminate; [|reflexivity].
  apply bs_eqb_spec in H. now subst.
Qed.

(* ---------------- one object: payload ---------------- *)

(* the payload of an object whose complete sets contain its sets *)
Definition sets_ok (d : dobj) : Prop :=
  bs_subset (oset (o_cs d)) (oset (o_ccs d)) = true /\ bs_subset (oset (o_nds d)) (oset (o_cnds d)) = true.

Definition osdiff (a : option bset) (b : option bset) : option bset :=
  match b with Some s => odiff a s | None => a end.

Lemma odiff_disjoint c a b :
  bs_subset (oset c) (oset a) = true -> bs_intersects (oset a) b = false -> odiff c b = c.
Proof.
  intros Hs Hi. destruct c as [c|]; [|reflexivity]. cbn. f_equal. cbn in Hs.
  eapply bs_diff_disjoint; eassumption.
Qed.

(* the guarded clearing of the C code clears unconditionally as soon as set ⊆ complete set *)
Lemma clear_sets_spec P d : sets_ok d ->
  let d' := fst (clear_sets P d) in
  o_cs d' = osdiff (o_cs d) (rp_dcs P) /\ o_ccs d' = osdiff (o_ccs d) (rp_dcs P) /\
  o_nds d' = osdiff (o_nds d) (rp_dns P) /\ o_cnds d' = osdiff (o_cnds d) (rp_dns P).
Proof.
  intros [Hc Hn]. unfold clear_sets. cbn [fst set_sets o_cs o_ccs o_nds o_cnds].
  destruct (rp_dcs P) as [dc|], (rp_dns P) as [dn|]; cbn [osdiff];
  repeat split; try reflexivity;
  try (destruct (bs_intersects (oset (o_ccs d)) dc) eqn:E; [reflexivity|
       symmetry; first [eapply odiff_disjoint; [exact Hc|exact E] | eapply odiff_disjoint; [apply bs_subset_refl|exact E]]]);
  try (destruct (bs_intersects (oset (o_cnds d)) dn) eqn:E; [reflexivity|
       symmetry; first [eapply odiff_disjoint; [exact Hn|exact E] | eapply odiff_disjoint; [apply bs_subset_refl|exact E]]]).
Qed.

(* nothing but the four sets changes *)
Lemma clear_sets_identity P d :
  let d' := fst (clear_sets P d) in
  o_id d' = o_id d /\ o_gp d' = o_gp d /\ o_type d' = o_type d /\ o_os d' = o_os d /\ o_lm d' = o_lm d /\
  o_cache_depth d' = o_cache_depth d /\ o_cache_type d' = o_cache_type d /\
  o_group_depth d' = o_group_depth d /\ o_group_kind d' = o_group_kind d /\ o_group_subkind d' = o_group_subkind d /\
  o_pci_class d' = o_pci_class d /\ o_os_types d' = o_os_types d.
Proof. cbn. repeat split. Qed.

(* ---------------- one object: unfolding of the recursion ---------------- *)

Section RList.
  Variable P : rparams.
  Fixpoint rlist (l : list obj) : list obj * list obj * list obj :=
    match l with
    | [] => ([], [], [])
    | c :: tl =>
        let r := robj P c in
        let rs := rlist tl in
        (match fst (fst r) with Some c' => c' :: fst (fst rs) | None => fst (fst rs) end,
         snd (fst r) ++ snd (fst rs), snd r ++ snd rs)
    end.
End RList.

Definition kept_children (P : rparams) (d : dobj) (n : list obj) : list obj * list obj * list obj :=
  if snd (clear_sets P d) then rlist P n else (n, [], []).

Definition robj_body (P : rparams) (d : dobj) (n m i x : list obj) : rres :=
  let d1 := fst (clear_sets P d) in
  let modified := snd (clear_sets P d) in
  let kn := kept_children P d n in
  let n1 := if modified && (negb (rp_bynode P) || rp_rm P) then reorder_children (fst (fst kn)) else fst (fst kn) in
  let km := kept_children P d m in
  let m1 := fst (fst km) in
  let i1 := i ++ snd (fst kn) ++ snd (fst km) in
  let x1 := x ++ snd kn ++ snd km in
  match n1, m1 with
  | [], [] =>
      if removal_test P d1
      then (None, if rp_io P then i1 else [], if rp_misc P then x1 else [])
      else (Some (Obj d1 n1 m1 i1 x1), [], [])
  | _, _ => (Some (Obj d1 n1 m1 i1 x1), [], [])
  end.

Lemma robj_eq P d n m i x : robj P (Obj d n m i x) = robj_body P d n m i x.
Proof. reflexivity. Qed.

(* the payload of a kept object is the cleared payload of the old one *)
Lemma robj_kept_data P o o' io mx : robj P o = (Some o', io, mx) -> odata o' = fst (clear_sets P (odata o)).
Proof.
  destruct o as [d n m i x]. rewrite robj_eq. unfold robj_body. cbn zeta.
  destruct (if snd (clear_sets P d) && (negb (rp_bynode P) || rp_rm P) then _ else _);
  destruct (fst (fst (kept_children P d m))); try destruct (removal_test P _);
  intros H; inversion H; reflexivity.
Qed.

(* removal rule for one object, both flavours: it goes iff no normal and no memory child is
   left, its (cleared) cpuset resp. nodeset is empty and it is not a NUMA node resp. PU
   unless REMOVE_CPULESS resp. REMOVE_MEMLESS is given *)
Lemma robj_removed_iff P d n m i x :
  fst (fst (robj P (Obj d n m i x))) = None <->
  (let kn := kept_children P d n in
   let n1 := if snd (clear_sets P d) && (negb (rp_bynode P) || rp_rm P) then reorder_children (fst (fst kn)) else fst (fst kn) in
   n1 = [] /\ fst (fst (kept_children P d m)) = [] /\ removal_test P (fst (clear_sets P d)) = true).
Proof.
  rewrite robj_eq. unfold robj_body. cbn zeta.
  destruct (if snd (clear_sets P d) && (negb (rp_bynode P) || rp_rm P) then _ else _) as [|a l];
  destruct (fst (fst (kept_children P d m))) as [|b l'];
  try destruct (removal_test P _) eqn:E; cbn; split; intros H; try discriminate; try reflexivity; auto;
  try (destruct H as [H1 [H2 H3]]; discriminate).
Qed.

(* Misc and I/O children: a kept object hands nothing up and keeps all its own special
   children; a removed object hands up exactly its (augmented) lists when the ADAPT flag
   is given and nothing otherwise *)
Lemma robj_special_kept P o o' io mx :
  robj P o = (Some o', io, mx) ->
  io = [] /\ mx = [] /\ incl (oich o) (oich o') /\ incl (oxch o) (oxch o').
Proof.
  destruct o as [d n m i x]. rewrite robj_eq. unfold robj_body. cbn zeta.
  destruct (if snd (clear_sets P d) && (negb (rp_bynode P) || rp_rm P) then _ else _);
  destruct (fst (fst (kept_children P d m))); try destruct (removal_test P _);
  intros H; inversion H; subst; cbn; repeat split; try reflexivity; apply incl_appl; apply incl_refl.
Qed.

Lemma robj_special_removed P o io mx :
  robj P o = (None, io, mx) ->
  (rp_io P = false -> io = []) /\ (rp_misc P = false -> mx = []) /\
  (rp_io P = true -> incl (oich o) io) /\ (rp_misc P = true -> incl (oxch o) mx).
Proof.
  destruct o as [d n m i x]. rewrite robj_eq. unfold robj_body. cbn zeta.
  destruct (if snd (clear_sets P d) && (negb (rp_bynode P) || rp_rm P) then _ else _);
  destruct (fst (fst (kept_children P d m))); try destruct (removal_test P _);
  intros H; inversion H; subst; cbn;
  repeat split; intros E; rewrite E; try reflexivity; apply incl_appl; apply incl_refl.
Qed.

(* ---------------- the whole call ---------------- *)

(* EINVAL exactly in the cases the C code lists *)
Lemma restrict_params_none_iff t S flags :
  restrict_params t S flags = None <->
  (flags_valid flags = false \/
   (hasf flags HWLOC_RESTRICT_FLAG_BYNODESET = true /\
    (bs_intersects S (tp_anode t) = false \/
     (hasf flags HWLOC_RESTRICT_FLAG_REMOVE_MEMLESS = true /\ bs_subset (tp_acpu t) (memless_pus (tp_root t) (bs_compl S)) = true))) \/
   (hasf flags HWLOC_RESTRICT_FLAG_BYNODESET = false /\
    (bs_intersects S (tp_acpu t) = false \/
     (hasf flags HWLOC_RESTRICT_FLAG_REMOVE_CPULESS = true /\ bs_subset (tp_anode t) (cpuless_nodes (tp_root t) (bs_compl S)) = true)))).
Proof.
  unfold restrict_params.
  destruct (flags_valid flags) eqn:Ev; cbn [negb]; [|split; auto].
  destruct (hasf flags HWLOC_RESTRICT_FLAG_BYNODESET) eqn:Eb.
  - destruct (bs_intersects S (tp_anode t)) eqn:Ei; cbn [negb]; [|split; auto 6].
    destruct (hasf flags HWLOC_RESTRICT_FLAG_REMOVE_MEMLESS) eqn:Em; cbn [andb].
    + destruct (bs_subset (tp_acpu t) (memless_pus (tp_root t) (bs_compl S))) eqn:Es.
      * split; auto 8.
      * split; [discriminate|]. intros [H|[[_ [H|[_ H]]]|[H _]]]; discriminate.
    + split; [discriminate|]. intros [H|[[_ [H|[H _]]]|[H _]]]; discriminate.
  - destruct (bs_intersects S (tp_acpu t)) eqn:Ei; cbn [negb]; [|split; auto 6].
    destruct (hasf flags HWLOC_RESTRICT_FLAG_REMOVE_CPULESS) eqn:Em; cbn [andb].
    + destruct (bs_subset (tp_anode t) (cpuless_nodes (tp_root t) (bs_compl S))) eqn:Es.
      * split; auto 8.
      * split; [discriminate|]. intros [H|[[H _]|[_ [H|[_ H]]]]]; discriminate.
    + split; [discriminate|]. intros [H|[[H _]|[_ [H|[H _]]]]]; discriminate.
Qed.

Lemma restrict_prune_einval_iff t S flags :
  restrict_prune t S flags = Einval <-> restrict_params t S flags = None.
Proof.
  unfold restrict_prune. destruct (restrict_params t S flags) as [P|]; [|tauto].
  destruct (fst (fst (robj P (tp_root t)))); split; discriminate.
Qed.

Lemma restrict_topo_einval_iff filters dm t S flags :
  restrict_topo filters dm t S flags = Einval <-> restrict_params t S flags = None.
Proof.
  rewrite <- restrict_prune_einval_iff. unfold restrict_topo.
  destruct (restrict_prune t S flags) as [| |t1]; try tauto; try (split; discriminate).
  destruct (keep_structure filters dm (tp_root t1)); split; discriminate.
Qed.

(* the dropped sets handed to the recursion *)
Lemma restrict_params_bycpu t S flags P :
  restrict_params t S flags = Some P -> hasf flags HWLOC_RESTRICT_FLAG_BYNODESET = false ->
  rp_bynode P = false /\ rp_dcs P = Some (bs_compl S) /\
  rp_io P = hasf flags HWLOC_RESTRICT_FLAG_ADAPT_IO /\ rp_misc P = hasf flags HWLOC_RESTRICT_FLAG_ADAPT_MISC /\
  rp_rm P = hasf flags HWLOC_RESTRICT_FLAG_REMOVE_CPULESS /\
  (rp_dns P = None \/ rp_dns P = Some (cpuless_nodes (tp_root t) (bs_compl S))) /\
  (hasf flags HWLOC_RESTRICT_FLAG_REMOVE_CPULESS = false -> rp_dns P = None).
Proof.
  unfold restrict_params. intros H Hb. rewrite Hb in H.
  destruct (negb (flags_valid flags)); [discriminate|].
  destruct (negb (bs_intersects S (tp_acpu t))); [discriminate|].
  destruct (hasf flags HWLOC_RESTRICT_FLAG_REMOVE_CPULESS && _); [discriminate|].
  inversion H; subst; clear H. cbn.
  destruct (hasf flags HWLOC_RESTRICT_FLAG_REMOVE_CPULESS); cbn; repeat split; auto.
  - destruct (bs_is_empty _); auto.
  - discriminate.
Qed.

Lemma restrict_params_bynode t S flags P :
  restrict_params t S flags = Some P -> hasf flags HWLOC_RESTRICT_FLAG_BYNODESET = true ->
  rp_bynode P = true /\ rp_dns P = Some (bs_compl S) /\
  rp_io P = hasf flags HWLOC_RESTRICT_FLAG_ADAPT_IO /\ rp_misc P = hasf flags HWLOC_RESTRICT_FLAG_ADAPT_MISC /\
  rp_rm P = hasf flags HWLOC_RESTRICT_FLAG_REMOVE_MEMLESS /\
  (rp_dcs P = None \/ rp_dcs P = Some (memless_pus (tp_root t) (bs_compl S))) /\
  (hasf flags HWLOC_RESTRICT_FLAG_REMOVE_MEMLESS = false -> rp_dcs P = None).
Proof.
  unfold restrict_params. intros H Hb. rewrite Hb in H.
  destruct (negb (flags_valid flags)); [discriminate|].
  destruct (negb (bs_intersects S (tp_anode t))); [discriminate|].
  destruct (hasf flags HWLOC_RESTRICT_FLAG_REMOVE_MEMLESS && _); [discriminate|].
  inversion H; subst; clear H. cbn.
  destruct (hasf flags HWLOC_RESTRICT_FLAG_REMOVE_MEMLESS); cbn; repeat split; auto.
  - destruct (bs_is_empty _); auto.
  - discriminate.
Qed.

Lemma restrict_prune_done t S flags t' :
  restrict_prune t S flags = Done t' ->
  exists P io mx, restrict_params t S flags = Some P /\ robj P (tp_root t) = (Some (tp_root t'), io, mx) /\
                  tp_acpu t' = sdiff (tp_acpu t) (rp_dcs P) /\ tp_anode t' = sdiff (tp_anode t) (rp_dns P).
Proof.
  unfold restrict_prune. destruct (restrict_params t S flags) as [P|]; [|discriminate].
  destruct (robj P (tp_root t)) as [[r io] mx] eqn:E. cbn [fst].
  destruct r as [r|]; [|discriminate]. intros H. inversion H; subst. cbn.
  exists P, io, mx. auto.
Qed.

Definition ointer (a : option bset) (s : bset) : option bset := option_map (fun x => bs_inter x s) a.

Lemma odiff_compl a s : odiff a (bs_compl s) = ointer a s.
Proof. destruct a; cbn; [f_equal; apply bs_diff_compl|reflexivity]. Qed.

(* root and allowed sets after a successful restrict by cpuset: old ∩ S *)
Lemma prune_root_sets_bycpu t S flags t' :
  restrict_prune t S flags = Done t' -> hasf flags HWLOC_RESTRICT_FLAG_BYNODESET = false ->
  sets_ok (odata (tp_root t)) ->
  o_cs (odata (tp_root t')) = ointer (o_cs (odata (tp_root t))) S /\
  o_ccs (odata (tp_root t')) = ointer (o_ccs (odata (tp_root t))) S /\
  tp_acpu t' = bs_inter (tp_acpu t) S /\
  o_gp (odata (tp_root t')) = o_gp (odata (tp_root t)) /\
  (hasf flags HWLOC_RESTRICT_FLAG_REMOVE_CPULESS = false ->
   o_nds (odata (tp_root t')) = o_nds (odata (tp_root t)) /\ o_cnds (odata (tp_root t')) = o_cnds (odata (tp_root t)) /\
   tp_anode t' = tp_anode t).
Proof.
  intros H Hb Hok. apply restrict_prune_done in H as (P & io & mx & HP & Hr & Ha & Hn).
  destruct (restrict_params_bycpu _ _ _ _ HP Hb) as (_ & Hdc & _ & _ & _ & _ & Hnone).
  pose proof (robj_kept_data _ _ _ _ _ Hr) as Hd.
  destruct (clear_sets_spec P _ Hok) as (H1 & H2 & H3 & H4).
  rewrite <- Hd in H1, H2, H3, H4. rewrite Hdc in H1, H2. cbn [osdiff] in H1, H2.
  rewrite odiff_compl in H1, H2.
  repeat split; try assumption.
  - rewrite Ha, Hdc. cbn. apply bs_diff_compl.
  - rewrite Hd. reflexivity.
  - rewrite H3, (Hnone H). reflexivity.
  - rewrite H4, (Hnone H). reflexivity.
  - rewrite Hn, (Hnone H). reflexivity.
Qed.

(* by nodeset: nodesets are old ∩ S *)
Lemma prune_root_sets_bynode t S flags t' :
  restrict_prune t S flags = Done t' -> hasf flags HWLOC_RESTRICT_FLAG_BYNODESET = true ->
  sets_ok (odata (tp_root t)) ->
  o_nds (odata (tp_root t')) = ointer (o_nds (odata (tp_root t))) S /\
  o_cnds (odata (tp_root t')) = ointer (o_cnds (odata (tp_root t))) S /\
  tp_anode t' = bs_inter (tp_anode t) S /\
  o_gp (odata (tp_root t')) = o_gp (odata (tp_root t)) /\
  (hasf flags HWLOC_RESTRICT_FLAG_REMOVE_MEMLESS = false ->
   o_cs (odata (tp_root t')) = o_cs (odata (tp_root t)) /\ o_ccs (odata (tp_root t')) = o_ccs (odata (tp_root t)) /\
   tp_acpu t' = tp_acpu t).
Proof.
  intros H Hb Hok. apply restrict_prune_done in H as (P & io & mx & HP & Hr & Ha & Hn).
  destruct (restrict_params_bynode _ _ _ _ HP Hb) as (_ & Hdn & _ & _ & _ & _ & Hnone).
  pose proof (robj_kept_data _ _ _ _ _ Hr) as Hd.
  destruct (clear_sets_spec P _ Hok) as (H1 & H2 & H3 & H4).
  rewrite <- Hd in H1, H2, H3, H4. rewrite Hdn in H3, H4. cbn [osdiff] in H3, H4.
  rewrite odiff_compl in H3, H4.
  repeat split; try assumption.
  - rewrite Hn, Hdn. cbn. apply bs_diff_compl.
  - rewrite Hd. reflexivity.
  - rewrite H1, (Hnone H). reflexivity.
  - rewrite H2, (Hnone H). reflexivity.
  - rewrite Ha, (Hnone H). reflexivity.
Qed.

Lemma oset_odiff x c : oset (odiff x c) = bs_diff (oset x) c.
Proof.
  destruct x as [s|]; [reflexivity|]. change (bs_empty = bs_diff bs_empty c).
  apply bs_ext. intros i. rewrite mem_diff, mem_empty. reflexivity.
Qed.
Lemma bs_subset_diff_mono a b c : bs_subset a b = true -> bs_subset (bs_diff a c) (bs_diff b c) = true.
Proof.
  rewrite !bs_subset_spec. intros H i. rewrite !mem_diff. intros Hi.
  apply andb_true_iff in Hi as [Ha Hc]. rewrite (H i Ha), Hc. reflexivity.
Qed.

(* sets_ok is preserved by clearing, so that restrictions can be chained *)
Lemma sets_ok_clear P d : sets_ok d -> sets_ok (fst (clear_sets P d)).
Proof.
  intros Hok. destruct (clear_sets_spec P d Hok) as (H1 & H2 & H3 & H4). destruct Hok as [Hc Hn].
  unfold sets_ok. rewrite H1, H2, H3, H4. split.
  - destruct (rp_dcs P) as [dc|]; cbn [osdiff]; [|exact Hc].
    rewrite !oset_odiff. apply bs_subset_diff_mono. exact Hc.
  - destruct (rp_dns P) as [dc|]; cbn [osdiff]; [|exact Hn].
    rewrite !oset_odiff. apply bs_subset_diff_mono. exact Hn.
Qed.

Lemma prune_root_sets_ok t S flags t' :
  restrict_prune t S flags = Done t' -> sets_ok (odata (tp_root t)) -> sets_ok (odata (tp_root t')).
Proof.
  intros H Hok. apply restrict_prune_done in H as (P & io & mx & _ & Hr & _ & _).
  rewrite (robj_kept_data _ _ _ _ _ Hr). apply sets_ok_clear. exact Hok.
Qed.

Lemma ointer_ointer a s s' : ointer (ointer a s) s' = ointer a (bs_inter s s').
Proof. destruct a; cbn; [f_equal; apply bs_inter_assoc|reflexivity]. Qed.

(* restricting by S and then by S' gives, on the root and allowed cpusets, what restricting by S ∩ S' gives *)
Lemma prune_twice_bycpu t S S' fl fl' t1 t2 t12 :
  hasf fl HWLOC_RESTRICT_FLAG_BYNODESET = false -> hasf fl' HWLOC_RESTRICT_FLAG_BYNODESET = false ->
  sets_ok (odata (tp_root t)) ->
  restrict_prune t S fl = Done t1 -> restrict_prune t1 S' fl' = Done t2 ->
  restrict_prune t (bs_inter S S') fl = Done t12 ->
  o_cs (odata (tp_root t2)) = o_cs (odata (tp_root t12)) /\
  o_ccs (odata (tp_root t2)) = o_ccs (odata (tp_root t12)) /\
  tp_acpu t2 = tp_acpu t12.
Proof.
  intros Hb Hb' Hok H1 H2 H12.
  pose proof (prune_root_sets_ok _ _ _ _ H1 Hok) as Hok1.
  destruct (prune_root_sets_bycpu _ _ _ _ H1 Hb Hok) as (A1 & A2 & A3 & _).
  destruct (prune_root_sets_bycpu _ _ _ _ H2 Hb' Hok1) as (B1 & B2 & B3 & _).
  destruct (prune_root_sets_bycpu _ _ _ _ H12 Hb Hok) as (C1 & C2 & C3 & _).
  rewrite B1, B2, B3, A1, A2, A3, C1, C2, C3, !ointer_ointer, bs_inter_assoc. auto.
Qed.

(* ---------------- soundness of the executable statement (set clauses) ---------------- *)

Lemma sets_restricted_sound before S flags o o' :
  sets_restricted before S flags o o' = true ->
  let dd := spec_dropped before S flags in
  o_cs o' = odiff (o_cs o) (fst dd) /\ o_ccs o' = odiff (o_ccs o) (fst dd) /\
  o_nds o' = odiff (o_nds o) (snd dd) /\ o_cnds o' = odiff (o_cnds o) (snd dd).
Proof.
  unfold sets_restricted. intros H.
  apply andb_true_iff in H as [H H4]. apply andb_true_iff in H as [H H3]. apply andb_true_iff in H as [H1 H2].
  cbn zeta. repeat split; apply opt_bset_eqb_eq; assumption.
Qed.

Lemma chk_nil b name who : chk b name who = [] -> b = true.
Proof. unfold chk. destruct b; [reflexivity|discriminate]. Qed.

(* a clean verdict of the checker on a surviving old object gives the Prop reading of the set clause *)
Lemma check_old_obj_sets_sound before after S flags o o' :
  check_old_obj before after S flags o = [] -> find_gp after (gpN o) = Some o' ->
  let dd := spec_dropped before S flags in
  o_type o' = o_type o /\ o_os o' = o_os o /\
  o_cs o' = odiff (o_cs o) (fst dd) /\ o_ccs o' = odiff (o_ccs o) (fst dd) /\
  o_nds o' = odiff (o_nds o) (snd dd) /\ o_cnds o' = odiff (o_cnds o) (snd dd).
Proof.
  unfold check_old_obj. intros H Hf. rewrite Hf in H.
  apply app_eq_nil in H as [_ H]. apply app_eq_nil in H as [Hi H]. apply app_eq_nil in H as [Hs _].
  apply chk_nil in Hi. apply chk_nil in Hs.
  apply sets_restricted_sound in Hs. cbn zeta in *. destruct Hs as (A & B & C & D).
  unfold same_identity in Hi. repeat (apply andb_true_iff in Hi as [Hi ?]).
  apply N.eqb_eq in Hi. repeat split; try assumption; symmetry; try assumption.
  match goal with [ E : (o_os o =? o_os o') = true |- _ ] => apply N.eqb_eq in E; exact E end.
Qed.

(* root clause by cpuset *)
Lemma check_topology_level_sound_bycpu before after S flags r r' :
  check_topology_level before after S flags = [] -> hasf flags HWLOC_RESTRICT_FLAG_BYNODESET = false ->
  get before 0 = Some r -> get after 0 = Some r' ->
  o_cs r' = ointer (o_cs r) S /\ o_ccs r' = ointer (o_ccs r) S /\ t_acpu after = ointer (t_acpu before) S.
Proof.
  unfold check_topology_level. intros H Hb Hr Hr'. rewrite Hr, Hr', Hb in H.
  apply app_eq_nil in H as [H _]. apply app_eq_nil in H as [_ H].
  apply app_eq_nil in H as [H1 H]. apply app_eq_nil in H as [H2 H]. apply app_eq_nil in H as [H3 _].
  apply chk_nil in H1. apply chk_nil in H2. apply chk_nil in H3.
  repeat split; apply opt_bset_eqb_eq; assumption.
Qed.

(* ---------------- whole tree: every object of the result is an old object ---------------- *)

Section ObjInd.
  Variable Q : obj -> Prop.
  Hypothesis HQ : forall d n m i x, Forall Q n -> Forall Q m -> Forall Q i -> Forall Q x -> Q (Obj d n m i x).
  Fixpoint obj_ind2 (o : obj) : Q o :=
    match o with
    | Obj d n m i x =>
        let go := fix go (l : list obj) : Forall Q l :=
          match l with [] => Forall_nil Q | c :: tl => Forall_cons c (obj_ind2 c) (go tl) end in
        HQ d n m i x (go n) (go m) (go i) (go x)
    end.
End ObjInd.

Definition flats (l : list obj) : list obj := flat_map flatten l.

Lemma flatten_eq d n m i x : flatten (Obj d n m i x) = Obj d n m i x :: flats n ++ flats m ++ flats i ++ flats x.
Proof. reflexivity. Qed.

Lemma in_flats q l : In q (flats l) <-> exists c, In c l /\ In q (flatten c).
Proof. unfold flats. rewrite in_flat_map. tauto. Qed.

Lemma in_flats_self c l : In c l -> In c (flats l).
Proof. intros H. apply in_flats. exists c. split; [assumption|]. destruct c. rewrite flatten_eq. left. reflexivity. Qed.

Lemma in_insert_child q c l : In q (insert_child c l) <-> q = c \/ In q l.
Proof.
  induction l as [|e tl IH]; cbn.
  - split; [intros [H|[]]; auto|intros [H|[]]; auto].
  - destruct (obj_first_gt c e); cbn; [rewrite IH|]; split; intros H; intuition auto.
Qed.

Lemma in_reorder q l : In q (reorder_children l) <-> In q l.
Proof.
  unfold reorder_children.
  assert (G : forall l acc, In q (fold_left (fun acc c => insert_child c acc) l acc) <-> In q acc \/ In q l).
  { clear l. induction l as [|c tl IH]; intros acc; cbn; [tauto|]. rewrite IH, in_insert_child. intuition auto. }
  rewrite G. cbn. tauto.
Qed.

Lemma in_flats_reorder q l : In q (flats (reorder_children l)) <-> In q (flats l).
Proof. rewrite !in_flats. split; intros [c [H1 H2]]; exists c; split; auto; apply in_reorder; assumption. Qed.

(* an object of the result: same payload as an old object, its sets either untouched or cleared *)
Definition from_old (P : rparams) (old : list obj) (q : obj) : Prop :=
  exists q0, In q0 old /\ (odata q = odata q0 \/ odata q = fst (clear_sets P (odata q0))).

Lemma from_old_incl P a b q : incl a b -> from_old P a q -> from_old P b q.
Proof. intros H [q0 [H1 H2]]. exists q0. split; auto. Qed.

Definition result_objs (r : rres) : list obj :=
  (match fst (fst r) with Some o' => flatten o' | None => [] end) ++ flats (snd (fst r)) ++ flats (snd r).

Definition survivors_ok (P : rparams) (o : obj) : Prop :=
  forall q, In q (result_objs (robj P o)) -> from_old P (flatten o) q.

Lemma rlist_survivors P l : Forall (survivors_ok P) l ->
  forall q, In q (flats (fst (fst (rlist P l))) ++ flats (snd (fst (rlist P l))) ++ flats (snd (rlist P l))) -> from_old P (flats l) q.
Proof.
  induction 1 as [|c tl Hc Htl IH]; intros q Hq.
  - cbn in Hq. contradiction.
  - cbn [rlist] in Hq. cbn zeta in Hq. cbn [fst snd] in Hq.
    assert (Hsplit : In q (result_objs (robj P c)) \/
                     In q (flats (fst (fst (rlist P tl))) ++ flats (snd (fst (rlist P tl))) ++ flats (snd (rlist P tl)))).
    { unfold result_objs, flats in *. rewrite !flat_map_app in Hq. rewrite !in_app_iff in *.
      destruct (fst (fst (robj P c))) as [c'|]; cbn [flat_map] in Hq; rewrite ?in_app_iff in Hq; intuition auto. }
    destruct Hsplit as [H|H].
    + apply Hc in H. eapply from_old_incl; [|exact H]. unfold flats. cbn [flat_map]. apply incl_appl, incl_refl.
    + apply IH in H. eapply from_old_incl; [|exact H]. unfold flats. cbn [flat_map]. apply incl_appr, incl_refl.
Qed.

Lemma from_old_self P l q : In q l -> from_old P l q.
Proof. intros H. exists q. auto. Qed.

Lemma kept_children_survivors P d l : Forall (survivors_ok P) l ->
  forall q, In q (flats (fst (fst (kept_children P d l))) ++ flats (snd (fst (kept_children P d l))) ++ flats (snd (kept_children P d l))) ->
            from_old P (flats l) q.
Proof.
  intros Hl q. unfold kept_children. destruct (snd (clear_sets P d)).
  - apply rlist_survivors. exact Hl.
  - cbn. rewrite app_nil_r. apply from_old_self.
Qed.

Theorem robj_survivors P o : survivors_ok P o.
Proof.
  induction o as [d n m i x Hn Hm Hi Hx] using obj_ind2.
  unfold survivors_ok. intros q Hq. rewrite robj_eq in Hq. unfold robj_body in Hq. cbn zeta in Hq.
  pose proof (kept_children_survivors P d n Hn) as Kn. pose proof (kept_children_survivors P d m Hm) as Km.
  set (kn := kept_children P d n) in *. set (km := kept_children P d m) in *.
  set (n1 := if snd (clear_sets P d) && (negb (rp_bynode P) || rp_rm P) then reorder_children (fst (fst kn)) else fst (fst kn)) in *.
  assert (Hn1 : forall q, In q (flats n1) <-> In q (flats (fst (fst kn)))).
  { intros q'. unfold n1. destruct (snd (clear_sets P d) && _); [apply in_flats_reorder|tauto]. }
  (* every object of the candidate result (kept or handed up) comes from the old subtree *)
  assert (Hall : forall q, In q (Obj (fst (clear_sets P d)) n1 (fst (fst km)) (i ++ snd (fst kn) ++ snd (fst km)) (x ++ snd kn ++ snd km)
                                 :: flats n1 ++ flats (fst (fst km)) ++ flats (i ++ snd (fst kn) ++ snd (fst km)) ++ flats (x ++ snd kn ++ snd km)) ->
                            from_old P (flatten (Obj d n m i x)) q).
  { intros q' [Hq'|Hq'].
    - exists (Obj d n m i x). split; [rewrite flatten_eq; left; reflexivity|]. right. subst q'. reflexivity.
    - rewrite flatten_eq. unfold flats in Hq'. rewrite !flat_map_app in Hq'. fold flats in Hq'. rewrite !in_app_iff in Hq'.
      assert (A : In q' (flats (fst (fst kn)) ++ flats (snd (fst kn)) ++ flats (snd kn)) \/
                  In q' (flats (fst (fst km)) ++ flats (snd (fst km)) ++ flats (snd km)) \/ In q' (flats i) \/ In q' (flats x)).
      { rewrite !in_app_iff. rewrite Hn1 in Hq'. intuition auto. }
      destruct A as [A|[A|[A|A]]].
      + eapply from_old_incl; [|exact (Kn _ A)]. apply incl_tl, incl_appl, incl_refl.
      + eapply from_old_incl; [|exact (Km _ A)]. apply incl_tl, incl_appr, incl_appl, incl_refl.
      + apply from_old_self. right. rewrite !in_app_iff. auto.
      + apply from_old_self. right. rewrite !in_app_iff. auto. }
  unfold result_objs in Hq.
  destruct n1 as [|a l]; destruct (fst (fst km)) as [|b l'];
  try destruct (removal_test P (fst (clear_sets P d)));
  cbn [fst snd] in Hq; rewrite ?flatten_eq in Hq; cbn [flats flat_map app] in Hq; rewrite ?app_nil_r in Hq;
  try (apply Hall; exact Hq).
  (* removed: only the lists handed up *)
  apply Hall. right. cbn [flats flat_map app].
  destruct (rp_io P), (rp_misc P); cbn [flats flat_map app] in Hq; rewrite ?app_nil_r in Hq;
  try (cbn in Hq; contradiction);
  rewrite ?in_app_iff in *; intuition auto.
Qed.

Corollary prune_survivors t S flags t' :
  restrict_prune t S flags = Done t' ->
  exists P, restrict_params t S flags = Some P /\
            forall q, In q (flatten (tp_root t')) -> from_old P (flatten (tp_root t)) q.
Proof.
  intros H. apply restrict_prune_done in H as (P & io & mx & HP & Hr & _ & _).
  exists P. split; [assumption|]. intros q Hq. apply (robj_survivors P (tp_root t)).
  unfold result_objs. rewrite Hr. cbn [fst snd]. apply in_or_app. left. exact Hq.
Qed.

(* ---------------- "observably unchanged": dump_eqb decides equality ---------------- *)

Lemma ptr_eqb'_eq a b : ptr_eqb' a b = true -> a = b.
Proof. destruct a, b; cbn; intros H; try discriminate; try reflexivity. apply N.eqb_eq in H. now subst. Qed.

Lemma list_eqb_eq {A} (eqb : A -> A -> bool) (Heq : forall x y, eqb x y = true -> x = y) a b :
  list_eqb eqb a b = true -> a = b.
Proof.
  revert b. induction a as [|x a IH]; destruct b as [|y b]; cbn; intros H; try discriminate; [reflexivity|].
  apply andb_true_iff in H as [H1 H2]. f_equal; auto.
Qed.

Lemma opt_eqb_eq {A} (eqb : A -> A -> bool) (Heq : forall x y, eqb x y = true -> x = y) a b :
  opt_eqb eqb a b = true -> a = b.
Proof. destruct a, b; cbn; intros H; try discriminate; [f_equal; auto|reflexivity]. Qed.

Lemma bs_eqb_eq a b : bs_eqb a b = true -> a = b.
Proof. apply bs_eqb_spec. Qed.
Lemma N_eqb_eq' a b : N.eqb a b = true -> a = b.
Proof. apply N.eqb_eq. Qed.
Lemma Z_eqb_eq' a b : Z.eqb a b = true -> a = b.
Proof. apply Z.eqb_eq. Qed.

Ltac split_andb H :=
  repeat match type of H with
         | (_ && _) = true => let H2 := fresh "E" in apply andb_true_iff in H as [H H2]
         end.

Lemma dobj_eqb_eq a b : dobj_eqb a b = true -> a = b.
Proof.
  destruct a, b. unfold dobj_eqb. cbn.
  intros H. split_andb H.
  repeat match goal with
  | [ E : N.eqb _ _ = true |- _ ] => apply N.eqb_eq in E
  | [ E : Z.eqb _ _ = true |- _ ] => apply Z.eqb_eq in E
  | [ E : ptr_eqb' _ _ = true |- _ ] => apply ptr_eqb'_eq in E
  | [ E : opt_eqb N.eqb _ _ = true |- _ ] => apply (opt_eqb_eq _ N_eqb_eq') in E
  | [ E : opt_eqb bs_eqb _ _ = true |- _ ] => apply (opt_eqb_eq _ bs_eqb_eq) in E
  | [ E : list_eqb ptr_eqb' _ _ = true |- _ ] => apply (list_eqb_eq _ ptr_eqb'_eq) in E
  | [ E : opt_eqb (list_eqb ptr_eqb') _ _ = true |- _ ] => apply (opt_eqb_eq _ (list_eqb_eq _ ptr_eqb'_eq)) in E
  end.
  subst. reflexivity.
Qed.

Ltac conv_eqs :=
  repeat match goal with
  | [ E : N.eqb _ _ = true |- _ ] => apply N.eqb_eq in E
  | [ E : Z.eqb _ _ = true |- _ ] => apply Z.eqb_eq in E
  | [ E : ptr_eqb' _ _ = true |- _ ] => apply ptr_eqb'_eq in E
  | [ E : opt_eqb bs_eqb _ _ = true |- _ ] => apply (opt_eqb_eq _ bs_eqb_eq) in E
  | [ E : list_eqb ptr_eqb' _ _ = true |- _ ] => apply (list_eqb_eq _ ptr_eqb'_eq) in E
  | [ E : list_eqb N.eqb _ _ = true |- _ ] => apply (list_eqb_eq _ N_eqb_eq') in E
  | [ E : list_eqb Z.eqb _ _ = true |- _ ] => apply (list_eqb_eq _ Z_eqb_eq') in E
  end.

Lemma level_eqb_eq a b : level_eqb a b = true -> a = b.
Proof.
  destruct a, b. unfold level_eqb. cbn. intros H. split_andb H. conv_eqs. subst. reflexivity.
Qed.

Theorem dump_eqb_eq a b : dump_eqb a b = true -> a = b.
Proof.
  destruct a, b. unfold dump_eqb. cbn. intros H. split_andb H. conv_eqs.
  repeat match goal with
  | [ E : list_eqb level_eqb _ _ = true |- _ ] => apply (list_eqb_eq _ level_eqb_eq) in E
  | [ E : list_eqb dobj_eqb _ _ = true |- _ ] => apply (list_eqb_eq _ dobj_eqb_eq) in E
  end.
  subst. reflexivity.
Qed.

Corollary einval_identity_sound before after : einval_identity before after = [] -> before = after.
Proof. unfold einval_identity. intros H. apply chk_nil in H. apply dump_eqb_eq. exact H. Qed.
