(* Proofs about the model of hwloc_topology_restrict (Topo/Restrict.v). *)
From Coq Require Import List NArith ZArith Bool Lia.
From HV Require Import Base.BSet Gen.Tables Text.TypeOrder Topo.Dump Topo.WFCheck Topo.Obj Topo.Restrict.
Import ListNotations.
Local Open Scope N_scope.

(* ---------------- flag words ---------------- *)

(* the 32 flag words over the five restrict flags: valid iff not (BYNODESET and
   REMOVE_CPULESS) and not (REMOVE_MEMLESS without BYNODESET) *)
Lemma flags_valid_32 :
  forallb (fun f => Bool.eqb (flags_valid f)
                      (negb (hasf f HWLOC_RESTRICT_FLAG_BYNODESET && hasf f HWLOC_RESTRICT_FLAG_REMOVE_CPULESS) &&
                       negb (negb (hasf f HWLOC_RESTRICT_FLAG_BYNODESET) && hasf f HWLOC_RESTRICT_FLAG_REMOVE_MEMLESS)))
          (map N.of_nat (seq 0 32)) = true.
Proof. vm_compute. reflexivity. Qed.

(* any bit outside the five flags makes the word invalid *)
Lemma flags_valid_unknown_bit f : N.ldiff f RESTRICT_ALL <> 0 -> flags_valid f = false.
Proof.
  intros H. unfold flags_valid. apply N.eqb_neq in H. rewrite H. reflexivity.
Qed.

(* ---------------- set algebra ---------------- *)

Lemma bs_diff_compl a s : bs_diff a (bs_compl s) = bs_inter a s.
Proof. apply bs_ext. intros i. rewrite mem_diff, mem_compl, mem_inter, negb_involutive. reflexivity. Qed.

Lemma bs_intersects_false a b : bs_intersects a b = false -> forall i, mem i a = true -> mem i b = false.
Proof.
  intros H i Ha. destruct (mem i b) eqn:Hb; [|reflexivity].
  assert (bs_intersects a b = true) by (apply bs_intersects_spec; exists i; split; assumption). congruence.
Qed.

Lemma bs_diff_disjoint c a b : bs_subset c a = true -> bs_intersects a b = false -> bs_diff c b = c.
Proof.
  intros Hs Hi. apply bs_ext. intros i. rewrite mem_diff.
  destruct (mem i c) eqn:Hc; [|reflexivity]. cbn [andb].
  rewrite (bs_intersects_false a b Hi i); [reflexivity|].
  rewrite bs_subset_spec in Hs. apply Hs. assumption.
Qed.

Lemma bs_subset_refl a : bs_subset a a = true.
Proof. apply bs_subset_spec. auto. Qed.

Lemma bs_inter_assoc a b c : bs_inter (bs_inter a b) c = bs_inter a (bs_inter b c).
Proof. apply bs_ext. intros i. rewrite !mem_inter. symmetry. apply andb_assoc. Qed.

Lemma bs_diff_diff a b c : bs_diff (bs_diff a b) c = bs_diff a (bs_union b c).
Proof. apply bs_ext. intros i. rewrite !mem_diff, mem_union, negb_orb. symmetry. apply andb_assoc. Qed.

Lemma opt_bset_eqb_eq a b : opt_bset_eqb a b = true -> a = b.
Proof.
  destruct a, b; cbn; intros H; try discriminate; [|reflexivity].
  apply bs_eqb_spec in H. now subst.
Qed.

(* ---------------- one object: payload ---------------- *)

(* the payload of an object whose complete sets contain its sets *)
Definition sets_ok (d : dobj) : Prop :=
  bs_subset (oset (o_cs d)) (oset (o_ccs d)) = true /\ bs_subset (oset (o_nds d)) (oset (o_cnds d)) = true.

Definition osdiff (a : option bset) (b : option bset) : option bset :=
  match b with Some s => odiff a s | None => a end.

Lemma odiff_disjoint c a b :
  bs_subset (oset c) (oset a) = true -> bs_intersects (oset a) b = false -> odiff c b = c.
Proof.
  intros Hs Hi. destruct c as [c|]; [|reflexivity]. cbn. f_equal. cbn in Hs.
  eapply bs_diff_disjoint; eassumption.
Qed.

(* the guarded clearing of the C code clears unconditionally as soon as set ⊆ complete set *)
Lemma clear_sets_spec P d : sets_ok d ->
  let d' := fst (clear_sets P d) in
  o_cs d' = osdiff (o_cs d) (rp_dcs P) /\ o_ccs d' = osdiff (o_ccs d) (rp_dcs P) /\
  o_nds d' = osdiff (o_nds d) (rp_dns P) /\ o_cnds d' = osdiff (o_cnds d) (rp_dns P).
Proof.
  intros [Hc Hn]. unfold clear_sets. cbn [fst set_sets o_cs o_ccs o_nds o_cnds].
  destruct (rp_dcs P) as [dc|], (rp_dns P) as [dn|]; cbn [osdiff];
  repeat split; try reflexivity;
  try (destruct (bs_intersects (oset (o_ccs d)) dc) eqn:E; [reflexivity|
       symmetry; first [eapply odiff_disjoint; [exact Hc|exact E] | eapply odiff_disjoint; [apply bs_subset_refl|exact E]]]);
  try (destruct (bs_intersects (oset (o_cnds d)) dn) eqn:E; [reflexivity|
       symmetry; first [eapply odiff_disjoint; [exact Hn|exact E] | eapply odiff_disjoint; [apply bs_subset_refl|exact E]]]).
Qed.

(* nothing but the four sets changes *)
Lemma clear_sets_identity P d :
  let d' := fst (clear_sets P d) in
  o_id d' = o_id d /\ o_gp d' = o_gp d /\ o_type d' = o_type d /\ o_os d' = o_os d /\ o_lm d' = o_lm d /\
  o_cache_depth d' = o_cache_depth d /\ o_cache_type d' = o_cache_type d /\
  o_group_depth d' = o_group_depth d /\ o_group_kind d' = o_group_kind d /\ o_group_subkind d' = o_group_subkind d /\
  o_pci_class d' = o_pci_class d /\ o_os_types d' = o_os_types d.
Proof. cbn. repeat split. Qed.

(* ---------------- one object: unfolding of the recursion ---------------- *)

Section RList.
  Variable P : rparams.
  Fixpoint rlist (l : list obj) : list obj * list obj * list obj :=
    match l with
    | [] => ([], [], [])
    | c :: tl =>
        let r := robj P c in
        let rs := rlist tl in
        (match fst (fst r) with Some c' => c' :: fst (fst rs) | None => fst (fst rs) end,
         snd (fst r) ++ snd (fst rs), snd r ++ snd rs)
    end.
End RList.

Definition kept_children (P : rparams) (d : dobj) (n : list obj) : list obj * list obj * list obj :=
  if snd (clear_sets P d) then rlist P n else (n, [], []).

Definition robj_body (P : rparams) (d : dobj) (n m i x : list obj) : rres :=
  let d1 := fst (clear_sets P d) in
  let modified := snd (clear_sets P d) in
  let kn := kept_children P d n in
  let n1 := if modified && (negb (rp_bynode P) || rp_rm P) then reorder_children (fst (fst kn)) else fst (fst kn) in
  let km := kept_children P d m in
  let m1 := fst (fst km) in
  let i1 := i ++ snd (fst kn) ++ snd (fst km) in
  let x1 := x ++ snd kn ++ snd km in
  match n1, m1 with
  | [], [] =>
      if removal_test P d1
      then (None, if rp_io P then i1 else [], if rp_misc P then x1 else [])
      else (Some (Obj d1 n1 m1 i1 x1), [], [])
  | _, _ => (Some (Obj d1 n1 m1 i1 x1), [], [])
  end.

Lemma robj_eq P d n m i x : robj P (Obj d n m i x) = robj_body P d n m i x.
Proof. reflexivity. Qed.

(* the payload of a kept object is the cleared payload of the old one *)
Lemma robj_kept_data P o o' io mx : robj P o = (Some o', io, mx) -> odata o' = fst (clear_sets P (odata o)).
Proof.
  destruct o as [d n m i x]. rewrite robj_eq. unfold robj_body. cbn zeta.
  destruct (if snd (clear_sets P d) && (negb (rp_bynode P) || rp_rm P) then _ else _);
  destruct (fst (fst (kept_children P d m))); try destruct (removal_test P _);
  intros H; inversion H; reflexivity.
Qed.

(* removal rule for one object, both flavours: it goes iff no normal and no memory child is
   left, its (cleared) cpuset resp. nodeset is empty and it is not a NUMA node resp. PU
   unless REMOVE_CPULESS resp. REMOVE_MEMLESS is given *)
Lemma robj_removed_iff P d n m i x :
  fst (fst (robj P (Obj d n m i x))) = None <->
  (let kn := kept_children P d n in
   let n1 := if snd (clear_sets P d) && (negb (rp_bynode P) || rp_rm P) then reorder_children (fst (fst kn)) else fst (fst kn) in
   n1 = [] /\ fst (fst (kept_children P d m)) = [] /\ removal_test P (fst (clear_sets P d)) = true).
Proof.
  rewrite robj_eq. unfold robj_body. cbn zeta.
  destruct (if snd (clear_sets P d) && (negb (rp_bynode P) || rp_rm P) then _ else _) as [|a l];
  destruct (fst (fst (kept_children P d m))) as [|b l'];
  try destruct (removal_test P _) eqn:E; cbn; split; intros H; try discriminate; try reflexivity; auto;
  try (destruct H as [H1 [H2 H3]]; discriminate).
Qed.

(* Misc and I/O children: a kept object hands nothing up and keeps all its own special
   children; a removed object hands up exactly its (augmented) lists when the ADAPT flag
   is given and nothing otherwise *)
Lemma robj_special_kept P o o' io mx :
  robj P o = (Some o', io, mx) ->
  io = [] /\ mx = [] /\ incl (oich o) (oich o') /\ incl (oxch o) (oxch o').
Proof.
  destruct o as [d n m i x]. rewrite robj_eq. unfold robj_body. cbn zeta.
  destruct (if snd (clear_sets P d) && (negb (rp_bynode P) || rp_rm P) then _ else _);
  destruct (fst (fst (kept_children P d m))); try destruct (removal_test P _);
  intros H; inversion H; subst; cbn; repeat split; try reflexivity; apply incl_appl; apply incl_refl.
Qed.

Lemma robj_special_removed P o io mx :
  robj P o = (None, io, mx) ->
  (rp_io P = false -> io = []) /\ (rp_misc P = false -> mx = []) /\
  (rp_io P = true -> incl (oich o) io) /\ (rp_misc P = true -> incl (oxch o) mx).
Proof.
  destruct o as [d n m i x]. rewrite robj_eq. unfold robj_body. cbn zeta.
  destruct (if snd (clear_sets P d) && (negb (rp_bynode P) || rp_rm P) then _ else _);
  destruct (fst (fst (kept_children P d m))); try destruct (removal_test P _);
  intros H; inversion H; subst; cbn;
  repeat split; intros E; rewrite E; try reflexivity; apply incl_appl; apply incl_refl.
Qed.

(* ---------------- the whole call ---------------- *)

(* EINVAL exactly in the cases the C code lists *)
Lemma restrict_params_none_iff t S flags :
  restrict_params t S flags = None <->
  (flags_valid flags = false \/
   (hasf flags HWLOC_RESTRICT_FLAG_BYNODESET = true /\
    (bs_intersects S (tp_anode t) = false \/
     (hasf flags HWLOC_RESTRICT_FLAG_REMOVE_MEMLESS = true /\ bs_subset (tp_acpu t) (memless_pus (tp_root t) (bs_compl S)) = true))) \/
   (hasf flags HWLOC_RESTRICT_FLAG_BYNODESET = false /\
    (bs_intersects S (tp_acpu t) = false \/
     (hasf flags HWLOC_RESTRICT_FLAG_REMOVE_CPULESS = true /\ bs_subset (tp_anode t) (cpuless_nodes (tp_root t) (bs_compl S)) = true)))).
Proof.
  unfold restrict_params.
  destruct (flags_valid flags) eqn:Ev; cbn [negb]; [|split; auto].
  destruct (hasf flags HWLOC_RESTRICT_FLAG_BYNODESET) eqn:Eb.
  - destruct (bs_intersects S (tp_anode t)) eqn:Ei; cbn [negb]; [|split; auto 6].
    destruct (hasf flags HWLOC_RESTRICT_FLAG_REMOVE_MEMLESS) eqn:Em; cbn [andb].
    + destruct (bs_subset (tp_acpu t) (memless_pus (tp_root t) (bs_compl S))) eqn:Es.
      * split; auto 8.
      * split; [discriminate|]. intros [H|[[_ [H|[_ H]]]|[H _]]]; discriminate.
    + split; [discriminate|]. intros [H|[[_ [H|[H _]]]|[H _]]]; discriminate.
  - destruct (bs_intersects S (tp_acpu t)) eqn:Ei; cbn [negb]; [|split; auto 6].
    destruct (hasf flags HWLOC_RESTRICT_FLAG_REMOVE_CPULESS) eqn:Em; cbn [andb].
    + destruct (bs_subset (tp_anode t) (cpuless_nodes (tp_root t) (bs_compl S))) eqn:Es.
      * split; auto 8.
      * split; [discriminate|]. intros [H|[[H _]|[_ [H|[_ H]]]]]; discriminate.
    + split; [discriminate|]. intros [H|[[H _]|[_ [H|[H _]]]]]; discriminate.
Qed.

Lemma restrict_prune_einval_iff t S flags :
  restrict_prune t S flags = Einval <-> restrict_params t S flags = None.
Proof.
  unfold restrict_prune. destruct (restrict_params t S flags) as [P|]; [|tauto].
  destruct (fst (fst (robj P (tp_root t)))); split; discriminate.
Qed.

Lemma restrict_topo_einval_iff filters dm t S flags :
  restrict_topo filters dm t S flags = Einval <-> restrict_params t S flags = None.
Proof.
  rewrite <- restrict_prune_einval_iff. unfold restrict_topo.
  destruct (restrict_prune t S flags) as [| |t1]; try tauto; try (split; discriminate).
  destruct (keep_structure filters dm (tp_root t1)) as [r|]; [|split; discriminate].
  destruct (set_group_depths (retotal r)); split; discriminate.
Qed.

(* the dropped sets handed to the recursion *)
Lemma restrict_params_bycpu t S flags P :
  restrict_params t S flags = Some P -> hasf flags HWLOC_RESTRICT_FLAG_BYNODESET = false ->
  rp_bynode P = false /\ rp_dcs P = Some (bs_compl S) /\
  rp_io P = hasf flags HWLOC_RESTRICT_FLAG_ADAPT_IO /\ rp_misc P = hasf flags HWLOC_RESTRICT_FLAG_ADAPT_MISC /\
  rp_rm P = hasf flags HWLOC_RESTRICT_FLAG_REMOVE_CPULESS /\
  (rp_dns P = None \/ rp_dns P = Some (cpuless_nodes (tp_root t) (bs_compl S))) /\
  (hasf flags HWLOC_RESTRICT_FLAG_REMOVE_CPULESS = false -> rp_dns P = None).
Proof.
  unfold restrict_params. intros H Hb. rewrite Hb in H.
  destruct (negb (flags_valid flags)); [discriminate|].
  destruct (negb (bs_intersects S (tp_acpu t))); [discriminate|].
  destruct (hasf flags HWLOC_RESTRICT_FLAG_REMOVE_CPULESS && _); [discriminate|].
  inversion H; subst; clear H. cbn.
  destruct (hasf flags HWLOC_RESTRICT_FLAG_REMOVE_CPULESS); cbn; repeat split; auto.
  - destruct (bs_is_empty _); auto.
  - discriminate.
Qed.

Lemma restrict_params_bynode t S flags P :
  restrict_params t S flags = Some P -> hasf flags HWLOC_RESTRICT_FLAG_BYNODESET = true ->
  rp_bynode P = true /\ rp_dns P = Some (bs_compl S) /\
  rp_io P = hasf flags HWLOC_RESTRICT_FLAG_ADAPT_IO /\ rp_misc P = hasf flags HWLOC_RESTRICT_FLAG_ADAPT_MISC /\
  rp_rm P = hasf flags HWLOC_RESTRICT_FLAG_REMOVE_MEMLESS /\
  (rp_dcs P = None \/ rp_dcs P = Some (memless_pus (tp_root t) (bs_compl S))) /\
  (hasf flags HWLOC_RESTRICT_FLAG_REMOVE_MEMLESS = false -> rp_dcs P = None).
Proof.
  unfold restrict_params. intros H Hb. rewrite Hb in H.
  destruct (negb (flags_valid flags)); [discriminate|].
  destruct (negb (bs_intersects S (tp_anode t))); [discriminate|].
  destruct (hasf flags HWLOC_RESTRICT_FLAG_REMOVE_MEMLESS && _); [discriminate|].
  inversion H; subst; clear H. cbn.
  destruct (hasf flags HWLOC_RESTRICT_FLAG_REMOVE_MEMLESS); cbn; repeat split; auto.
  - destruct (bs_is_empty _); auto.
  - discriminate.
Qed.

Lemma restrict_prune_done t S flags t' :
  restrict_prune t S flags = Done t' ->
  exists P io mx, restrict_params t S flags = Some P /\ robj P (tp_root t) = (Some (tp_root t'), io, mx) /\
                  tp_acpu t' = sdiff (tp_acpu t) (rp_dcs P) /\ tp_anode t' = sdiff (tp_anode t) (rp_dns P).
Proof.
  unfold restrict_prune. destruct (restrict_params t S flags) as [P|]; [|discriminate].
  destruct (robj P (tp_root t)) as [[r io] mx] eqn:E. cbn [fst].
  destruct r as [r|]; [|discriminate]. intros H. inversion H; subst. cbn.
  exists P, io, mx. auto.
Qed.

Definition ointer (a : option bset) (s : bset) : option bset := option_map (fun x => bs_inter x s) a.

Lemma odiff_compl a s : odiff a (bs_compl s) = ointer a s.
Proof. destruct a; cbn; [f_equal; apply bs_diff_compl|reflexivity]. Qed.

(* root and allowed sets after a successful restrict by cpuset: old ∩ S *)
Lemma prune_root_sets_bycpu t S flags t' :
  restrict_prune t S flags = Done t' -> hasf flags HWLOC_RESTRICT_FLAG_BYNODESET = false ->
  sets_ok (odata (tp_root t)) ->
  o_cs (odata (tp_root t')) = ointer (o_cs (odata (tp_root t))) S /\
  o_ccs (odata (tp_root t')) = ointer (o_ccs (odata (tp_root t))) S /\
  tp_acpu t' = bs_inter (tp_acpu t) S /\
  o_gp (odata (tp_root t')) = o_gp (odata (tp_root t)) /\
  (hasf flags HWLOC_RESTRICT_FLAG_REMOVE_CPULESS = false ->
   o_nds (odata (tp_root t')) = o_nds (odata (tp_root t)) /\ o_cnds (odata (tp_root t')) = o_cnds (odata (tp_root t)) /\
   tp_anode t' = tp_anode t).
Proof.
  intros H Hb Hok. apply restrict_prune_done in H as (P & io & mx & HP & Hr & Ha & Hn).
  destruct (restrict_params_bycpu _ _ _ _ HP Hb) as (_ & Hdc & _ & _ & _ & _ & Hnone).
  pose proof (robj_kept_data _ _ _ _ _ Hr) as Hd.
  destruct (clear_sets_spec P _ Hok) as (H1 & H2 & H3 & H4).
  rewrite <- Hd in H1, H2, H3, H4. rewrite Hdc in H1, H2. cbn [osdiff] in H1, H2.
  rewrite odiff_compl in H1, H2.
  repeat split; try assumption.
  - rewrite Ha, Hdc. cbn. apply bs_diff_compl.
  - rewrite Hd. reflexivity.
  - rewrite H3, (Hnone H). reflexivity.
  - rewrite H4, (Hnone H). reflexivity.
  - rewrite Hn, (Hnone H). reflexivity.
Qed.

(* by nodeset: nodesets are old ∩ S *)
Lemma prune_root_sets_bynode t S flags t' :
  restrict_prune t S flags = Done t' -> hasf flags HWLOC_RESTRICT_FLAG_BYNODESET = true ->
  sets_ok (odata (tp_root t)) ->
  o_nds (odata (tp_root t')) = ointer (o_nds (odata (tp_root t))) S /\
  o_cnds (odata (tp_root t')) = ointer (o_cnds (odata (tp_root t))) S /\
  tp_anode t' = bs_inter (tp_anode t) S /\
  o_gp (odata (tp_root t')) = o_gp (odata (tp_root t)) /\
  (hasf flags HWLOC_RESTRICT_FLAG_REMOVE_MEMLESS = false ->
   o_cs (odata (tp_root t')) = o_cs (odata (tp_root t)) /\ o_ccs (odata (tp_root t')) = o_ccs (odata (tp_root t)) /\
   tp_acpu t' = tp_acpu t).
Proof.
  intros H Hb Hok. apply restrict_prune_done in H as (P & io & mx & HP & Hr & Ha & Hn).
  destruct (restrict_params_bynode _ _ _ _ HP Hb) as (_ & Hdn & _ & _ & _ & _ & Hnone).
  pose proof (robj_kept_data _ _ _ _ _ Hr) as Hd.
  destruct (clear_sets_spec P _ Hok) as (H1 & H2 & H3 & H4).
  rewrite <- Hd in H1, H2, H3, H4. rewrite Hdn in H3, H4. cbn [osdiff] in H3, H4.
  rewrite odiff_compl in H3, H4.
  repeat split; try assumption.
  - rewrite Hn, Hdn. cbn. apply bs_diff_compl.
  - rewrite Hd. reflexivity.
  - rewrite H1, (Hnone H). reflexivity.
  - rewrite H2, (Hnone H). reflexivity.
  - rewrite Ha, (Hnone H). reflexivity.
Qed.

Lemma oset_odiff x c : oset (odiff x c) = bs_diff (oset x) c.
Proof.
  destruct x as [s|]; [reflexivity|]. change (bs_empty = bs_diff bs_empty c).
  apply bs_ext. intros i. rewrite mem_diff, mem_empty. reflexivity.
Qed.
Lemma bs_subset_diff_mono a b c : bs_subset a b = true -> bs_subset (bs_diff a c) (bs_diff b c) = true.
Proof.
  rewrite !bs_subset_spec. intros H i. rewrite !mem_diff. intros Hi.
  apply andb_true_iff in Hi as [Ha Hc]. rewrite (H i Ha), Hc. reflexivity.
Qed.

(* sets_ok is preserved by clearing, so that restrictions can be chained *)
Lemma sets_ok_clear P d : sets_ok d -> sets_ok (fst (clear_sets P d)).
Proof.
  intros Hok. destruct (clear_sets_spec P d Hok) as (H1 & H2 & H3 & H4). destruct Hok as [Hc Hn].
  unfold sets_ok. rewrite H1, H2, H3, H4. split.
  - destruct (rp_dcs P) as [dc|]; cbn [osdiff]; [|exact Hc].
    rewrite !oset_odiff. apply bs_subset_diff_mono. exact Hc.
  - destruct (rp_dns P) as [dc|]; cbn [osdiff]; [|exact Hn].
    rewrite !oset_odiff. apply bs_subset_diff_mono. exact Hn.
Qed.

Lemma prune_root_sets_ok t S flags t' :
  restrict_prune t S flags = Done t' -> sets_ok (odata (tp_root t)) -> sets_ok (odata (tp_root t')).
Proof.
  intros H Hok. apply restrict_prune_done in H as (P & io & mx & _ & Hr & _ & _).
  rewrite (robj_kept_data _ _ _ _ _ Hr). apply sets_ok_clear. exact Hok.
Qed.

Lemma ointer_ointer a s s' : ointer (ointer a s) s' = ointer a (bs_inter s s').
Proof. destruct a; cbn; [f_equal; apply bs_inter_assoc|reflexivity]. Qed.

(* restricting by S and then by S' gives, on the root and allowed cpusets, what restricting by S ∩ S' gives *)
Lemma prune_twice_bycpu t S S' fl fl' t1 t2 t12 :
  hasf fl HWLOC_RESTRICT_FLAG_BYNODESET = false -> hasf fl' HWLOC_RESTRICT_FLAG_BYNODESET = false ->
  sets_ok (odata (tp_root t)) ->
  restrict_prune t S fl = Done t1 -> restrict_prune t1 S' fl' = Done t2 ->
  restrict_prune t (bs_inter S S') fl = Done t12 ->
  o_cs (odata (tp_root t2)) = o_cs (odata (tp_root t12)) /\
  o_ccs (odata (tp_root t2)) = o_ccs (odata (tp_root t12)) /\
  tp_acpu t2 = tp_acpu t12.
Proof.
  intros Hb Hb' Hok H1 H2 H12.
  pose proof (prune_root_sets_ok _ _ _ _ H1 Hok) as Hok1.
  destruct (prune_root_sets_bycpu _ _ _ _ H1 Hb Hok) as (A1 & A2 & A3 & _).
  destruct (prune_root_sets_bycpu _ _ _ _ H2 Hb' Hok1) as (B1 & B2 & B3 & _).
  destruct (prune_root_sets_bycpu _ _ _ _ H12 Hb Hok) as (C1 & C2 & C3 & _).
  rewrite B1, B2, B3, A1, A2, A3, C1, C2, C3, !ointer_ointer, bs_inter_assoc. auto.
Qed.

(* ---------------- soundness of the executable statement (set clauses) ---------------- *)

Lemma sets_restricted_sound before S flags o o' :
  sets_restricted before S flags o o' = true ->
  let dd := spec_dropped before S flags in
  o_cs o' = odiff (o_cs o) (fst dd) /\ o_ccs o' = odiff (o_ccs o) (fst dd) /\
  o_nds o' = odiff (o_nds o) (snd dd) /\ o_cnds o' = odiff (o_cnds o) (snd dd).
Proof.
  unfold sets_restricted. intros H.
  apply andb_true_iff in H as [H H4]. apply andb_true_iff in H as [H H3]. apply andb_true_iff in H as [H1 H2].
  cbn zeta. repeat split; apply opt_bset_eqb_eq; assumption.
Qed.

Lemma chk_nil b name who : chk b name who = [] -> b = true.
Proof. unfold chk. destruct b; [reflexivity|discriminate]. Qed.

(* a clean verdict of the checker on a surviving old object gives the Prop reading of the set clause *)
Lemma check_old_obj_sets_sound before after S flags o o' :
  check_old_obj before after S flags o = [] -> find_gp after (gpN o) = Some o' ->
  let dd := spec_dropped before S flags in
  o_type o' = o_type o /\ o_os o' = o_os o /\
  o_cs o' = odiff (o_cs o) (fst dd) /\ o_ccs o' = odiff (o_ccs o) (fst dd) /\
  o_nds o' = odiff (o_nds o) (snd dd) /\ o_cnds o' = odiff (o_cnds o) (snd dd).
Proof.
  unfold check_old_obj. intros H Hf. rewrite Hf in H.
  apply app_eq_nil in H as [_ H]. apply app_eq_nil in H as [Hi H]. apply app_eq_nil in H as [Hs _].
  apply chk_nil in Hi. apply chk_nil in Hs.
  apply sets_restricted_sound in Hs. cbn zeta in *. destruct Hs as (A & B & C & D).
  unfold same_identity in Hi. repeat (apply andb_true_iff in Hi as [Hi ?]).
  apply N.eqb_eq in Hi. repeat split; try assumption; symmetry; try assumption.
  match goal with [ E : (o_os o =? o_os o') = true |- _ ] => apply N.eqb_eq in E; exact E end.
Qed.

(* root clause by cpuset *)
Lemma check_topology_level_sound_bycpu before after S flags r r' :
  check_topology_level before after S flags = [] -> hasf flags HWLOC_RESTRICT_FLAG_BYNODESET = false ->
  get before 0 = Some r -> get after 0 = Some r' ->
  o_cs r' = ointer (o_cs r) S /\ o_ccs r' = ointer (o_ccs r) S /\ t_acpu after = ointer (t_acpu before) S.
Proof.
  unfold check_topology_level. intros H Hb Hr Hr'. rewrite Hr, Hr', Hb in H.
  apply app_eq_nil in H as [H _]. apply app_eq_nil in H as [_ H].
  apply app_eq_nil in H as [H1 H]. apply app_eq_nil in H as [H2 H]. apply app_eq_nil in H as [H3 _].
  apply chk_nil in H1. apply chk_nil in H2. apply chk_nil in H3.
  repeat split; apply opt_bset_eqb_eq; assumption.
Qed.

(* ---------------- whole tree: every object of the result is an old object ---------------- *)

Section ObjInd.
  Variable Q : obj -> Prop.
  Hypothesis HQ : forall d n m i x, Forall Q n -> Forall Q m -> Forall Q i -> Forall Q x -> Q (Obj d n m i x).
  Fixpoint obj_ind2 (o : obj) : Q o :=
    match o with
    | Obj d n m i x =>
        let go := fix go (l : list obj) : Forall Q l :=
          match l with [] => Forall_nil Q | c :: tl => Forall_cons c (obj_ind2 c) (go tl) end in
        HQ d n m i x (go n) (go m) (go i) (go x)
    end.
End ObjInd.

Definition flats (l : list obj) : list obj := flat_map flatten l.

Lemma flatten_eq d n m i x : flatten (Obj d n m i x) = Obj d n m i x :: flats n ++ flats m ++ flats i ++ flats x.
Proof. reflexivity. Qed.

Lemma in_flats q l : In q (flats l) <-> exists c, In c l /\ In q (flatten c).
Proof. unfold flats. rewrite in_flat_map. tauto. Qed.

Lemma in_flats_self c l : In c l -> In c (flats l).
Proof. intros H. apply in_flats. exists c. split; [assumption|]. destruct c. rewrite flatten_eq. left. reflexivity. Qed.

Lemma in_insert_child q c l : In q (insert_child c l) <-> q = c \/ In q l.
Proof.
  induction l as [|e tl IH]; cbn.
  - split; [intros [H|[]]; auto|intros [H|[]]; auto].
  - destruct (obj_first_gt c e); cbn; [rewrite IH|]; split; intros H; intuition auto.
Qed.

Lemma in_reorder q l : In q (reorder_children l) <-> In q l.
Proof.
  unfold reorder_children.
  assert (G : forall l acc, In q (fold_left (fun acc c => insert_child c acc) l acc) <-> In q acc \/ In q l).
  { clear l. induction l as [|c tl IH]; intros acc; cbn; [tauto|]. rewrite IH, in_insert_child. intuition auto. }
  rewrite G. cbn. tauto.
Qed.

Lemma in_flats_reorder q l : In q (flats (reorder_children l)) <-> In q (flats l).
Proof. rewrite !in_flats. split; intros [c [H1 H2]]; exists c; split; auto; apply in_reorder; assumption. Qed.

(* an object of the result: same payload as an old object, its sets either untouched or cleared *)
Definition from_old (P : rparams) (old : list obj) (q : obj) : Prop :=
  exists q0, In q0 old /\ (odata q = odata q0 \/ odata q = fst (clear_sets P (odata q0))).

Lemma from_old_incl P a b q : incl a b -> from_old P a q -> from_old P b q.
Proof. intros H [q0 [H1 H2]]. exists q0. split; auto. Qed.

Definition result_objs (r : rres) : list obj :=
  (match fst (fst r) with Some o' => flatten o' | None => [] end) ++ flats (snd (fst r)) ++ flats (snd r).

Definition survivors_ok (P : rparams) (o : obj) : Prop :=
  forall q, In q (result_objs (robj P o)) -> from_old P (flatten o) q.

Lemma rlist_survivors P l : Forall (survivors_ok P) l ->
  forall q, In q (flats (fst (fst (rlist P l))) ++ flats (snd (fst (rlist P l))) ++ flats (snd (rlist P l))) -> from_old P (flats l) q.
Proof.
  induction 1 as [|c tl Hc Htl IH]; intros q Hq.
  - cbn in Hq. contradiction.
  - cbn [rlist] in Hq. cbn zeta in Hq. cbn [fst snd] in Hq.
    assert (Hsplit : In q (result_objs (robj P c)) \/
                     In q (flats (fst (fst (rlist P tl))) ++ flats (snd (fst (rlist P tl))) ++ flats (snd (rlist P tl)))).
    { unfold result_objs, flats in *. rewrite !flat_map_app in Hq. rewrite !in_app_iff in *.
      destruct (fst (fst (robj P c))) as [c'|]; cbn [flat_map] in Hq; rewrite ?in_app_iff in Hq; intuition auto. }
    destruct Hsplit as [H|H].
    + apply Hc in H. eapply from_old_incl; [|exact H]. unfold flats. cbn [flat_map]. apply incl_appl, incl_refl.
    + apply IH in H. eapply from_old_incl; [|exact H]. unfold flats. cbn [flat_map]. apply incl_appr, incl_refl.
Qed.

Lemma from_old_self P l q : In q l -> from_old P l q.
Proof. intros H. exists q. auto. Qed.

Lemma kept_children_survivors P d l : Forall (survivors_ok P) l ->
  forall q, In q (flats (fst (fst (kept_children P d l))) ++ flats (snd (fst (kept_children P d l))) ++ flats (snd (kept_children P d l))) ->
            from_old P (flats l) q.
Proof.
  intros Hl q. unfold kept_children. destruct (snd (clear_sets P d)).
  - apply rlist_survivors. exact Hl.
  - cbn. rewrite app_nil_r. apply from_old_self.
Qed.

Theorem robj_survivors P o : survivors_ok P o.
Proof.
  induction o as [d n m i x Hn Hm Hi Hx] using obj_ind2.
  unfold survivors_ok. intros q Hq. rewrite robj_eq in Hq. unfold robj_body in Hq. cbn zeta in Hq.
  pose proof (kept_children_survivors P d n Hn) as Kn. pose proof (kept_children_survivors P d m Hm) as Km.
  set (kn := kept_children P d n) in *. set (km := kept_children P d m) in *.
  set (n1 := if snd (clear_sets P d) && (negb (rp_bynode P) || rp_rm P) then reorder_children (fst (fst kn)) else fst (fst kn)) in *.
  assert (Hn1 : forall q, In q (flats n1) <-> In q (flats (fst (fst kn)))).
  { intros q'. unfold n1. destruct (snd (clear_sets P d) && _); [apply in_flats_reorder|tauto]. }
  (* every object of the candidate result (kept or handed up) comes from the old subtree *)
  assert (Hall : forall q, In q (Obj (fst (clear_sets P d)) n1 (fst (fst km)) (i ++ snd (fst kn) ++ snd (fst km)) (x ++ snd kn ++ snd km)
                                 :: flats n1 ++ flats (fst (fst km)) ++ flats (i ++ snd (fst kn) ++ snd (fst km)) ++ flats (x ++ snd kn ++ snd km)) ->
                            from_old P (flatten (Obj d n m i x)) q).
  { intros q' [Hq'|Hq'].
    - exists (Obj d n m i x). split; [rewrite flatten_eq; left; reflexivity|]. right. subst q'. reflexivity.
    - rewrite flatten_eq. unfold flats in Hq'. rewrite !flat_map_app in Hq'. fold flats in Hq'. rewrite !in_app_iff in Hq'.
      assert (A : In q' (flats (fst (fst kn)) ++ flats (snd (fst kn)) ++ flats (snd kn)) \/
                  In q' (flats (fst (fst km)) ++ flats (snd (fst km)) ++ flats (snd km)) \/ In q' (flats i) \/ In q' (flats x)).
      { rewrite !in_app_iff. rewrite Hn1 in Hq'. intuition auto. }
      destruct A as [A|[A|[A|A]]].
      + eapply from_old_incl; [|exact (Kn _ A)]. apply incl_tl, incl_appl, incl_refl.
      + eapply from_old_incl; [|exact (Km _ A)]. apply incl_tl, incl_appr, incl_appl, incl_refl.
      + apply from_old_self. right. rewrite !in_app_iff. auto.
      + apply from_old_self. right. rewrite !in_app_iff. auto. }
  unfold result_objs in Hq.
  destruct n1 as [|a l]; destruct (fst (fst km)) as [|b l'];
  try destruct (removal_test P (fst (clear_sets P d)));
  cbn [fst snd] in Hq; rewrite ?flatten_eq in Hq; cbn [flats flat_map app] in Hq; rewrite ?app_nil_r in Hq;
  try (apply Hall; exact Hq).
  (* removed: only the lists handed up *)
  apply Hall. right. cbn [flats flat_map app].
  destruct (rp_io P), (rp_misc P); cbn [flats flat_map app] in Hq; rewrite ?app_nil_r in Hq;
  try (cbn in Hq; contradiction);
  rewrite ?in_app_iff in *; intuition auto.
Qed.

Corollary prune_survivors t S flags t' :
  restrict_prune t S flags = Done t' ->
  exists P, restrict_params t S flags = Some P /\
            forall q, In q (flatten (tp_root t')) -> from_old P (flatten (tp_root t)) q.
Proof.
  intros H. apply restrict_prune_done in H as (P & io & mx & HP & Hr & _ & _).
  exists P. split; [assumption|]. intros q Hq. apply (robj_survivors P (tp_root t)).
  unfold result_objs. rewrite Hr. cbn [fst snd]. apply in_or_app. left. exact Hq.
Qed.

(* ---------------- "observably unchanged": dump_eqb decides equality ---------------- *)

Lemma ptr_eqb'_eq a b : ptr_eqb' a b = true -> a = b.
Proof. destruct a, b; cbn; intros H; try discriminate; try reflexivity. apply N.eqb_eq in H. now subst. Qed.

Lemma list_eqb_eq {A} (eqb : A -> A -> bool) (Heq : forall x y, eqb x y = true -> x = y) a b :
  list_eqb eqb a b = true -> a = b.
Proof.
  revert b. induction a as [|x a IH]; destruct b as [|y b]; cbn; intros H; try discriminate; [reflexivity|].
  apply andb_true_iff in H as [H1 H2]. f_equal; auto.
Qed.

Lemma opt_eqb_eq {A} (eqb : A -> A -> bool) (Heq : forall x y, eqb x y = true -> x = y) a b :
  opt_eqb eqb a b = true -> a = b.
Proof. destruct a, b; cbn; intros H; try discriminate; [f_equal; auto|reflexivity]. Qed.

Lemma bs_eqb_eq a b : bs_eqb a b = true -> a = b.
Proof. apply bs_eqb_spec. Qed.
Lemma N_eqb_eq' a b : N.eqb a b = true -> a = b.
Proof. apply N.eqb_eq. Qed.
Lemma Z_eqb_eq' a b : Z.eqb a b = true -> a = b.
Proof. apply Z.eqb_eq. Qed.

Ltac split_andb H :=
  repeat match type of H with
         | (_ && _) = true => let H2 := fresh "E" in apply andb_true_iff in H as [H H2]
         end.

Lemma dobj_eqb_eq a b : dobj_eqb a b = true -> a = b.
Proof.
  destruct a, b. unfold dobj_eqb. cbn.
  intros H. split_andb H.
  repeat match goal with
  | [ E : N.eqb _ _ = true |- _ ] => apply N.eqb_eq in E
  | [ E : Z.eqb _ _ = true |- _ ] => apply Z.eqb_eq in E
  | [ E : ptr_eqb' _ _ = true |- _ ] => apply ptr_eqb'_eq in E
  | [ E : opt_eqb N.eqb _ _ = true |- _ ] => apply (opt_eqb_eq _ N_eqb_eq') in E
  | [ E : opt_eqb bs_eqb _ _ = true |- _ ] => apply (opt_eqb_eq _ bs_eqb_eq) in E
  | [ E : list_eqb ptr_eqb' _ _ = true |- _ ] => apply (list_eqb_eq _ ptr_eqb'_eq) in E
  | [ E : opt_eqb (list_eqb ptr_eqb') _ _ = true |- _ ] => apply (opt_eqb_eq _ (list_eqb_eq _ ptr_eqb'_eq)) in E
  end.
  subst. reflexivity.
Qed.

Ltac conv_eqs :=
  repeat match goal with
  | [ E : N.eqb _ _ = true |- _ ] => apply N.eqb_eq in E
  | [ E : Z.eqb _ _ = true |- _ ] => apply Z.eqb_eq in E
  | [ E : ptr_eqb' _ _ = true |- _ ] => apply ptr_eqb'_eq in E
  | [ E : opt_eqb bs_eqb _ _ = true |- _ ] => apply (opt_eqb_eq _ bs_eqb_eq) in E
  | [ E : list_eqb ptr_eqb' _ _ = true |- _ ] => apply (list_eqb_eq _ ptr_eqb'_eq) in E
  | [ E : list_eqb N.eqb _ _ = true |- _ ] => apply (list_eqb_eq _ N_eqb_eq') in E
  | [ E : list_eqb Z.eqb _ _ = true |- _ ] => apply (list_eqb_eq _ Z_eqb_eq') in E
  end.

Lemma level_eqb_eq a b : level_eqb a b = true -> a = b.
Proof.
  destruct a, b. unfold level_eqb. cbn. intros H. split_andb H. conv_eqs. subst. reflexivity.
Qed.

Theorem dump_eqb_eq a b : dump_eqb a b = true -> a = b.
Proof.
  destruct a, b. unfold dump_eqb. cbn. intros H. split_andb H. conv_eqs.
  repeat match goal with
  | [ E : list_eqb level_eqb _ _ = true |- _ ] => apply (list_eqb_eq _ level_eqb_eq) in E
  | [ E : list_eqb dobj_eqb _ _ = true |- _ ] => apply (list_eqb_eq _ dobj_eqb_eq) in E
  end.
  subst. reflexivity.
Qed.

Corollary einval_identity_sound before after : einval_identity before after = [] -> before = after.
Proof. unfold einval_identity. intros H. apply chk_nil in H. apply dump_eqb_eq. exact H. Qed.

(* ---------------- whole tree: no object is duplicated (the survivor map is injective) ---------------- *)

Definition cnt (k : N) (l : list obj) : nat := count_occ N.eq_dec (map oid l) k.

Lemma cnt_app k a b : cnt k (a ++ b) = (cnt k a + cnt k b)%nat.
Proof. unfold cnt. rewrite map_app. apply count_occ_app. Qed.
Lemma cnt_nil k : cnt k [] = O.
Proof. reflexivity. Qed.
Lemma cnt_cons k c l : cnt k (c :: l) = ((if N.eq_dec (oid c) k then 1 else 0) + cnt k l)%nat.
Proof. unfold cnt. cbn [map count_occ]. destruct (N.eq_dec (oid c) k); reflexivity. Qed.
Lemma cnt_flats_cons k c l : cnt k (flats (c :: l)) = (cnt k (flatten c) + cnt k (flats l))%nat.
Proof. unfold flats. cbn [flat_map]. apply cnt_app. Qed.
Lemma cnt_flats_app k a b : cnt k (flats (a ++ b)) = (cnt k (flats a) + cnt k (flats b))%nat.
Proof. unfold flats. rewrite flat_map_app. apply cnt_app. Qed.
Lemma cnt_flats_nil k : cnt k (flats []) = O.
Proof. reflexivity. Qed.

Lemma cnt_flats_insert k c l : cnt k (flats (insert_child c l)) = (cnt k (flatten c) + cnt k (flats l))%nat.
Proof.
  induction l as [|e tl IH]; cbn [insert_child].
  - rewrite cnt_flats_cons. reflexivity.
  - destruct (obj_first_gt c e).
    + rewrite !cnt_flats_cons, IH. lia.
    + rewrite !cnt_flats_cons. reflexivity.
Qed.

Lemma cnt_flats_reorder k l : cnt k (flats (reorder_children l)) = cnt k (flats l).
Proof.
  unfold reorder_children.
  assert (G : forall l acc, cnt k (flats (fold_left (fun acc c => insert_child c acc) l acc)) = (cnt k (flats acc) + cnt k (flats l))%nat).
  { clear l. induction l as [|c tl IH]; intros acc; cbn [fold_left].
    - rewrite cnt_flats_nil. lia.
    - rewrite IH, cnt_flats_insert, cnt_flats_cons. lia. }
  rewrite G, cnt_flats_nil. reflexivity.
Qed.

Definition sub_cnt (P : rparams) (o : obj) : Prop :=
  forall k, (cnt k (result_objs (robj P o)) <= cnt k (flatten o))%nat.

Lemma rlist_cnt P l : Forall (sub_cnt P) l ->
  forall k, (cnt k (flats (fst (fst (rlist P l)))) + cnt k (flats (snd (fst (rlist P l)))) + cnt k (flats (snd (rlist P l)))
             <= cnt k (flats l))%nat.
Proof.
  induction 1 as [|c tl Hc Htl IH]; intros k.
  - cbn. lia.
  - cbn [rlist]. cbn zeta. cbn [fst snd]. specialize (Hc k). specialize (IH k). unfold result_objs in Hc.
    rewrite !cnt_app in Hc. rewrite !cnt_flats_app, cnt_flats_cons.
    destruct (fst (fst (robj P c))) as [c'|]; rewrite ?cnt_flats_cons, ?cnt_nil in *; lia.
Qed.

Lemma kept_children_cnt P d l : Forall (sub_cnt P) l ->
  forall k, (cnt k (flats (fst (fst (kept_children P d l)))) + cnt k (flats (snd (fst (kept_children P d l)))) +
             cnt k (flats (snd (kept_children P d l))) <= cnt k (flats l))%nat.
Proof.
  intros Hl k. unfold kept_children. destruct (snd (clear_sets P d)).
  - apply rlist_cnt. exact Hl.
  - cbn [fst snd]. rewrite cnt_flats_nil. lia.
Qed.

Theorem robj_sub_cnt P o : sub_cnt P o.
Proof.
  induction o as [d n m i x Hn Hm Hi Hx] using obj_ind2.
  unfold sub_cnt. intros k. rewrite robj_eq. unfold robj_body. cbn zeta.
  pose proof (kept_children_cnt P d n Hn k) as Kn. pose proof (kept_children_cnt P d m Hm k) as Km.
  set (kn := kept_children P d n) in *. set (km := kept_children P d m) in *.
  set (n1 := if snd (clear_sets P d) && (negb (rp_bynode P) || rp_rm P) then reorder_children (fst (fst kn)) else fst (fst kn)).
  assert (Hn1 : cnt k (flats n1) = cnt k (flats (fst (fst kn)))).
  { unfold n1. destruct (snd (clear_sets P d) && _); [apply cnt_flats_reorder|reflexivity]. }
  assert (Hkept : (cnt k (flatten (Obj (fst (clear_sets P d)) n1 (fst (fst km)) (i ++ snd (fst kn) ++ snd (fst km)) (x ++ snd kn ++ snd km)))
                   <= cnt k (flatten (Obj d n m i x)))%nat).
  { rewrite !flatten_eq, !cnt_cons, !cnt_app, !cnt_flats_app, Hn1.
    change (oid (Obj (fst (clear_sets P d)) n1 (fst (fst km)) (i ++ snd (fst kn) ++ snd (fst km)) (x ++ snd kn ++ snd km))) with (o_id d).
    change (oid (Obj d n m i x)) with (o_id d). lia. }
  assert (Hup : (cnt k (flats (i ++ snd (fst kn) ++ snd (fst km))) + cnt k (flats (x ++ snd kn ++ snd km))
                 <= cnt k (flatten (Obj d n m i x)))%nat).
  { rewrite flatten_eq, cnt_cons, !cnt_app, !cnt_flats_app. lia. }
  unfold result_objs.
  destruct n1 as [|a l]; destruct (fst (fst km)) as [|b l'];
  try destruct (removal_test P (fst (clear_sets P d)));
  cbn [fst snd]; rewrite ?cnt_app, ?cnt_flats_nil, ?cnt_nil, ?Nat.add_0_r; try exact Hkept.
  destruct (rp_io P), (rp_misc P); rewrite ?cnt_flats_nil; lia.
Qed.

Theorem robj_nodup P o : NoDup (map oid (flatten o)) -> NoDup (map oid (result_objs (robj P o))).
Proof.
  intros H. apply (NoDup_count_occ N.eq_dec). intros k.
  rewrite (NoDup_count_occ N.eq_dec) in H. specialize (H k).
  pose proof (robj_sub_cnt P o k) as G. unfold cnt in G. lia.
Qed.

Lemma NoDup_app_l {A} (a b : list A) : NoDup (a ++ b) -> NoDup a.
Proof.
  induction a as [|x a IH]; cbn; intros H; [constructor|].
  inversion H as [|? ? Hn Hd]; subst. constructor; [|auto].
  intros Hi. apply Hn. apply in_or_app. left. exact Hi.
Qed.

Corollary prune_nodup t S flags t' :
  restrict_prune t S flags = Done t' ->
  NoDup (map oid (flatten (tp_root t))) -> NoDup (map oid (flatten (tp_root t'))).
Proof.
  intros H Hnd. apply restrict_prune_done in H as (P & io & mx & _ & Hr & _ & _).
  pose proof (robj_nodup P _ Hnd) as G. unfold result_objs in G. rewrite Hr in G. cbn [fst snd] in G.
  rewrite map_app in G. apply NoDup_app_l in G. exact G.
Qed.

(* ---------------- whole tree: the removal rule ---------------- *)

(* The rule as a recursive predicate on the OLD tree: an object reached by the recursion
   vanishes iff (its sets are changed by this restriction and all its normal and memory
   children vanish, or it has no such child at all), its cleared cpuset (nodeset) is
   empty, and it is not a NUMA node (PU) unless REMOVE_CPULESS (REMOVE_MEMLESS). *)
Fixpoint vanishes (P : rparams) (o : obj) : bool :=
  match o with
  | Obj d n m i x =>
      (if snd (clear_sets P d)
       then (fix go (l : list obj) : bool := match l with [] => true | c :: tl => vanishes P c && go tl end) n &&
            (fix go (l : list obj) : bool := match l with [] => true | c :: tl => vanishes P c && go tl end) m
       else match n, m with [], [] => true | _, _ => false end) &&
      removal_test P (fst (clear_sets P d))
  end.

Lemma vanishes_eq P d n m i x :
  vanishes P (Obj d n m i x) =
  (if snd (clear_sets P d) then forallb (vanishes P) n && forallb (vanishes P) m
   else match n, m with [], [] => true | _, _ => false end) && removal_test P (fst (clear_sets P d)).
Proof. reflexivity. Qed.

Lemma reorder_nil l : reorder_children l = [] <-> l = [].
Proof.
  split; [|intros ->; reflexivity].
  destruct l as [|c tl]; [reflexivity|]. intros H.
  assert (In c (reorder_children (c :: tl))) by (apply in_reorder; left; reflexivity).
  rewrite H in H0. contradiction.
Qed.

Definition vanishes_ok (P : rparams) (o : obj) : Prop := fst (fst (robj P o)) = None <-> vanishes P o = true.

Lemma rlist_kept_nil P l : Forall (vanishes_ok P) l ->
  (fst (fst (rlist P l)) = [] <-> forallb (vanishes P) l = true).
Proof.
  induction 1 as [|c tl Hc Htl IH]; [cbn; tauto|].
  cbn [rlist forallb]. cbn zeta. cbn [fst]. unfold vanishes_ok in Hc. rewrite andb_true_iff, <- IH, <- Hc.
  destruct (fst (fst (robj P c))); split; intros H; try discriminate; try tauto.
  - destruct H as [H _]. discriminate.
Qed.

Theorem robj_vanishes P o : vanishes_ok P o.
Proof.
  induction o as [d n m i x Hn Hm Hi Hx] using obj_ind2.
  unfold vanishes_ok. rewrite robj_removed_iff, vanishes_eq. cbn zeta. unfold kept_children.
  pose proof (rlist_kept_nil P n Hn) as Kn. pose proof (rlist_kept_nil P m Hm) as Km.
  destruct (snd (clear_sets P d)); cbn [andb fst].
  - rewrite !andb_true_iff, <- Kn, <- Km.
    destruct (negb (rp_bynode P) || rp_rm P); [rewrite reorder_nil|]; tauto.
  - rewrite andb_true_iff. destruct n, m; intuition congruence.
Qed.

(* normal and memory descendants, depth first *)
Fixpoint nmflatten (o : obj) : list obj :=
  match o with
  | Obj _ n m _ _ =>
      o :: (fix go (l : list obj) : list obj := match l with [] => [] | c :: tl => nmflatten c ++ go tl end) n
        ++ (fix go (l : list obj) : list obj := match l with [] => [] | c :: tl => nmflatten c ++ go tl end) m
  end.
Definition nmflats (l : list obj) : list obj := flat_map nmflatten l.
Lemma nmflatten_eq d n m i x : nmflatten (Obj d n m i x) = Obj d n m i x :: nmflats n ++ nmflats m.
Proof. reflexivity. Qed.

(* ids of the normal and memory objects that are still there afterwards, stated on the OLD tree:
   nothing of a vanishing object; otherwise the object itself and, if its sets are changed by this
   restriction, what is left of each child, else its whole (untouched) subtree *)
Fixpoint alive (P : rparams) (o : obj) : list N :=
  match o with
  | Obj d n m i x =>
      if vanishes P o then []
      else o_id d ::
           (if snd (clear_sets P d)
            then (fix go (l : list obj) : list N := match l with [] => [] | c :: tl => alive P c ++ go tl end) n ++
                 (fix go (l : list obj) : list N := match l with [] => [] | c :: tl => alive P c ++ go tl end) m
            else map oid (nmflats n) ++ map oid (nmflats m))
  end.
Lemma alive_eq P d n m i x :
  alive P (Obj d n m i x) =
  if vanishes P (Obj d n m i x) then []
  else o_id d :: (if snd (clear_sets P d) then flat_map (alive P) n ++ flat_map (alive P) m
                  else map oid (nmflats n) ++ map oid (nmflats m)).
Proof. reflexivity. Qed.

Lemma in_nmflats q l : In q (nmflats l) <-> exists c, In c l /\ In q (nmflatten c).
Proof. unfold nmflats. rewrite in_flat_map. tauto. Qed.

Lemma in_ids_nmflats k l : In k (map oid (nmflats l)) <-> exists c, In c l /\ In k (map oid (nmflatten c)).
Proof.
  rewrite in_map_iff. split.
  - intros [q [Hk Hq]]. apply in_nmflats in Hq as [c [Hc Hq]]. exists c. split; [assumption|]. apply in_map_iff. eauto.
  - intros [c [Hc Hk]]. apply in_map_iff in Hk as [q [Hk Hq]]. exists q. split; [assumption|]. apply in_nmflats. eauto.
Qed.

Lemma in_ids_nmflats_reorder k l : In k (map oid (nmflats (reorder_children l))) <-> In k (map oid (nmflats l)).
Proof. rewrite !in_ids_nmflats. split; intros [c [H1 H2]]; exists c; split; auto; apply in_reorder; assumption. Qed.

Definition alive_ok (P : rparams) (o : obj) : Prop :=
  match fst (fst (robj P o)) with
  | Some o' => forall k, In k (map oid (nmflatten o')) <-> In k (alive P o)
  | None => alive P o = []
  end.

Lemma rlist_alive P l : Forall (alive_ok P) l ->
  forall k, In k (map oid (nmflats (fst (fst (rlist P l))))) <-> In k (flat_map (alive P) l).
Proof.
  induction 1 as [|c tl Hc Htl IH]; intros k; [cbn; tauto|].
  cbn [rlist flat_map]. cbn zeta. cbn [fst]. unfold alive_ok in Hc. rewrite in_app_iff, <- IH.
  destruct (fst (fst (robj P c))) as [c'|].
  - unfold nmflats. cbn [flat_map]. rewrite map_app, in_app_iff, Hc. tauto.
  - rewrite Hc. cbn. tauto.
Qed.

Lemma robj_body_kept P d n m i x o' io mx :
  robj_body P d n m i x = (Some o', io, mx) ->
  o' = Obj (fst (clear_sets P d))
           (if snd (clear_sets P d) && (negb (rp_bynode P) || rp_rm P)
            then reorder_children (fst (fst (kept_children P d n))) else fst (fst (kept_children P d n)))
           (fst (fst (kept_children P d m)))
           (i ++ snd (fst (kept_children P d n)) ++ snd (fst (kept_children P d m)))
           (x ++ snd (kept_children P d n) ++ snd (kept_children P d m)).
Proof.
  unfold robj_body. cbn zeta.
  destruct (if snd (clear_sets P d) && (negb (rp_bynode P) || rp_rm P) then _ else _) eqn:E1;
  destruct (fst (fst (kept_children P d m))) eqn:E2; try destruct (removal_test P _);
  intros H; inversion H; reflexivity.
Qed.

Theorem robj_alive P o : alive_ok P o.
Proof.
  induction o as [d n m i x Hn Hm Hi Hx] using obj_ind2.
  unfold alive_ok.
  destruct (fst (fst (robj P (Obj d n m i x)))) as [o'|] eqn:E.
  - (* kept *)
    assert (Hv : vanishes P (Obj d n m i x) = false).
    { destruct (vanishes P (Obj d n m i x)) eqn:V; [|reflexivity]. apply (robj_vanishes P) in V. congruence. }
    rewrite alive_eq, Hv.
    destruct (robj P (Obj d n m i x)) as [[r io] mx] eqn:R. cbn [fst] in E. subst r.
    rewrite robj_eq in R. apply robj_body_kept in R. subst o'.
    pose proof (rlist_alive P n Hn) as Kn. pose proof (rlist_alive P m Hm) as Km.
    intros k. rewrite nmflatten_eq. cbn [map In]. rewrite map_app, in_app_iff.
    match goal with |- context [oid (Obj ?a ?b ?c ?e ?f)] => change (oid (Obj a b c e f)) with (o_id d) end.
    unfold kept_children. destruct (snd (clear_sets P d)); cbn [andb fst snd].
    + destruct (negb (rp_bynode P) || rp_rm P); rewrite ?in_ids_nmflats_reorder, Kn, Km, in_app_iff; tauto.
    + rewrite in_app_iff. tauto.
  - rewrite alive_eq. apply (robj_vanishes P) in E. rewrite E. reflexivity.
Qed.

Corollary prune_alive t S flags t' :
  restrict_prune t S flags = Done t' ->
  exists P, restrict_params t S flags = Some P /\
            forall k, In k (map oid (nmflatten (tp_root t'))) <-> In k (alive P (tp_root t)).
Proof.
  intros H. apply restrict_prune_done in H as (P & io & mx & HP & Hr & _ & _).
  exists P. split; [assumption|]. pose proof (robj_alive P (tp_root t)) as G. unfold alive_ok in G.
  rewrite Hr in G. exact G.
Qed.

(* ---------------- whole tree: the PUs after a restrict by cpuset ---------------- *)

(* well-formedness facts used (C01 clauses): a PU is a leaf with cpuset = complete cpuset = {os_index};
   the complete cpuset of a normal child is inside its parent's *)
Definition local_ok (q : obj) : Prop :=
  (otype q = HWLOC_OBJ_PU ->
     o_cs (odata q) = Some (bs_single (o_os (odata q))) /\ o_ccs (odata q) = Some (bs_single (o_os (odata q))) /\
     onch q = [] /\ omch q = []) /\
  (forall c, In c (onch q) -> bs_subset (oset (o_ccs (odata c))) (oset (o_ccs (odata q))) = true).
Definition tree_ok (o : obj) : Prop := forall q, In q (nflatten o) -> local_ok q.

Lemma in_nflattens q l : In q (nflattens l) <-> exists c, In c l /\ In q (nflatten c).
Proof. unfold nflattens. rewrite in_flat_map. tauto. Qed.

Lemma tree_ok_child o c : tree_ok o -> In c (onch o) -> tree_ok c.
Proof.
  intros H Hc q Hq. apply H. rewrite nflatten_eq. right. apply in_nflattens. exists c. auto.
Qed.
Lemma tree_ok_self o : tree_ok o -> local_ok o.
Proof. intros H. apply H. rewrite nflatten_eq. left. reflexivity. Qed.

Lemma rlist_kept_in P l c' :
  In c' (fst (fst (rlist P l))) <-> exists c, In c l /\ fst (fst (robj P c)) = Some c'.
Proof.
  induction l as [|c tl IH]; cbn [rlist]; cbn zeta; cbn [fst].
  - cbn. split; [contradiction|intros [c [[] _]]].
  - destruct (fst (fst (robj P c))) as [k|] eqn:E.
    + cbn [In]. rewrite IH. split.
      * intros [->|[c0 [H1 H2]]]; [exists c; split; [left; reflexivity|assumption]|exists c0; split; [right|]; assumption].
      * intros [c0 [[->|H1] H2]]; [left; congruence|right; exists c0; auto].
    + rewrite IH. split.
      * intros [c0 [H1 H2]]. exists c0. split; [right|]; assumption.
      * intros [c0 [[->|H1] H2]]; [congruence|exists c0; auto].
Qed.

Lemma mem_single_self k : mem k (bs_single k) = true.
Proof. rewrite mem_single. apply N.eqb_refl. Qed.

Lemma disjoint_sub a b dc : bs_subset a b = true -> bs_intersects b dc = false -> bs_intersects a dc = false.
Proof.
  intros Hs Hd. destruct (bs_intersects a dc) eqn:E; [|reflexivity].
  apply bs_intersects_spec in E as [k [Ha Hk]]. rewrite bs_subset_spec in Hs.
  rewrite (bs_intersects_false b dc Hd k (Hs k Ha)) in Hk. discriminate.
Qed.

Section Pus.
  Variables (P : rparams) (dc : bset).
  Hypothesis Hby : rp_bynode P = false.
  Hypothesis Hdc : rp_dcs P = Some dc.

  (* a subtree the recursion does not enter holds no PU of the dropped set *)
  Lemma pus_unvisited o : tree_ok o -> bs_intersects (oset (o_ccs (odata o))) dc = false ->
    forall q, In q (nflatten o) -> otype q = HWLOC_OBJ_PU -> mem (o_os (odata q)) dc = false.
  Proof.
    induction o as [d n m i x Hn Hm Hi Hx] using obj_ind2. intros Hok Hd q Hq Hpu.
    rewrite nflatten_eq in Hq. destruct Hq as [<-|Hq].
    - destruct (tree_ok_self _ Hok) as [Hp _]. destruct (Hp Hpu) as (_ & Hccs & _ & _).
      cbn [odata] in *. rewrite Hccs in Hd. cbn [oset] in Hd.
      apply (bs_intersects_false _ _ Hd). apply mem_single_self.
    - cbn [onch] in Hq. apply in_nflattens in Hq as [c [Hc Hq]].
      rewrite Forall_forall in Hn. apply (Hn c Hc); try assumption.
      + eapply tree_ok_child; [exact Hok|exact Hc].
      + destruct (tree_ok_self _ Hok) as [_ Hsub]. eapply disjoint_sub; [apply (Hsub c Hc)|exact Hd].
  Qed.

  Lemma mc_eq d : snd (clear_sets P d) = true -> bs_intersects (oset (o_ccs d)) dc = false ->
                  exists dn, rp_dns P = Some dn /\ bs_intersects (oset (o_cnds d)) dn = true.
  Proof.
    unfold clear_sets. cbn [snd]. rewrite Hdc. intros H Hd. rewrite Hd in H. cbn [orb] in H.
    destruct (rp_dns P) as [dn|]; [eauto|discriminate].
  Qed.

  (* the cpuset of a PU after the clearing *)
  Lemma pu_cleared_cs d : o_cs d = Some (bs_single (o_os d)) -> o_ccs d = Some (bs_single (o_os d)) ->
    oset (o_cs (fst (clear_sets P d))) = if mem (o_os d) dc then bs_empty else bs_single (o_os d).
  Proof.
    intros Hcs Hccs. unfold clear_sets. cbn [fst set_sets o_cs]. rewrite Hdc, Hcs, Hccs. cbn [oset].
    destruct (mem (o_os d) dc) eqn:E.
    - assert (I : bs_intersects (bs_single (o_os d)) dc = true).
      { apply bs_intersects_spec. exists (o_os d). split; [apply mem_single_self|exact E]. }
      rewrite I. cbn [odiff oset]. apply bs_ext. intros k. rewrite mem_diff, mem_single, mem_empty.
      destruct (k =? o_os d) eqn:Ek; [|reflexivity]. apply N.eqb_eq in Ek. subst k. rewrite E. reflexivity.
    - destruct (bs_intersects (bs_single (o_os d)) dc) eqn:I; [|reflexivity].
      cbn [odiff oset]. apply bs_ext. intros k. rewrite mem_diff, mem_single.
      destruct (k =? o_os d) eqn:Ek; [|reflexivity]. apply N.eqb_eq in Ek. subst k. rewrite E. reflexivity.
  Qed.

  Lemma type_pu_not_numa : (HWLOC_OBJ_PU =? HWLOC_OBJ_NUMANODE) = false.
  Proof. vm_compute. reflexivity. Qed.

  (* a PU object: kept iff its os_index is not dropped *)
  Lemma pu_removed_iff d i x : o_type d = HWLOC_OBJ_PU ->
    o_cs d = Some (bs_single (o_os d)) -> o_ccs d = Some (bs_single (o_os d)) ->
    (fst (fst (robj P (Obj d [] [] i x))) = None <-> mem (o_os d) dc = true).
  Proof.
    intros Hty Hcs Hccs. rewrite robj_removed_iff. cbn zeta. unfold kept_children.
    assert (Hk : forall b : bool, (if b then rlist P [] else ([], [], [])) = ([], [], [])) by (intros []; reflexivity).
    rewrite !Hk. cbn [fst].
    assert (Hn1 : (if snd (clear_sets P d) && (negb (rp_bynode P) || rp_rm P) then reorder_children [] else []) = [])
      by (destruct (snd (clear_sets P d) && _); reflexivity).
    rewrite Hn1. unfold removal_test. rewrite Hby.
    replace (o_type (fst (clear_sets P d))) with (o_type d) by reflexivity.
    rewrite Hty, type_pu_not_numa. cbn [negb orb]. rewrite andb_true_r, (pu_cleared_cs d Hcs Hccs).
    destruct (mem (o_os d) dc) eqn:E.
    - split; [reflexivity|]. intros _. repeat split; reflexivity.
    - split; [|discriminate]. intros (_ & _ & H). exfalso.
      apply bs_is_empty_mem with (i := o_os d) in H. rewrite mem_single_self in H. discriminate.
  Qed.

  (* soundness: no PU of the dropped set is left *)
  Lemma pus_sound o : tree_ok o -> forall o', fst (fst (robj P o)) = Some o' ->
    forall q, In q (nflatten o') -> otype q = HWLOC_OBJ_PU -> mem (o_os (odata q)) dc = false.
  Proof.
    induction o as [d n m i x Hn Hm Hi Hx] using obj_ind2. intros Hok o' Ho' q Hq Hpu.
    destruct (robj P (Obj d n m i x)) as [[r io] mx] eqn:R. cbn [fst] in Ho'. subst r.
    pose proof R as R0. rewrite robj_eq in R. apply robj_body_kept in R. subst o'.
    rewrite nflatten_eq in Hq. cbn [onch] in Hq. destruct Hq as [<-|Hq].
    - (* the object itself is a PU *)
      unfold otype in Hpu. cbn [odata] in Hpu. change (o_type (fst (clear_sets P d))) with (o_type d) in Hpu.
      destruct (tree_ok_self _ Hok) as [Hp _]. destruct (Hp Hpu) as (Hcs & Hccs & Hnn & Hmm).
      cbn [odata onch omch] in *. subst n m.
      cbn [odata]. change (o_os (fst (clear_sets P d))) with (o_os d).
      destruct (mem (o_os d) dc) eqn:E; [|reflexivity].
      apply (pu_removed_iff d i x Hpu Hcs Hccs) in E. rewrite R0 in E. discriminate.
    - apply in_nflattens in Hq as [c' [Hc' Hq]].
      assert (Hc'' : In c' (fst (fst (kept_children P d n)))).
      { destruct (snd (clear_sets P d) && (negb (rp_bynode P) || rp_rm P)); [apply in_reorder|]; exact Hc'. }
      unfold kept_children in Hc''. destruct (snd (clear_sets P d)) eqn:Emd.
      + apply rlist_kept_in in Hc'' as [c [Hc Hrc]]. rewrite Forall_forall in Hn.
        apply (Hn c Hc (tree_ok_child _ c Hok Hc) c' Hrc q Hq Hpu).
      + cbn [fst] in Hc''.
        assert (Hd : bs_intersects (oset (o_ccs d)) dc = false).
        { unfold clear_sets in Emd. cbn [snd] in Emd. rewrite Hdc in Emd. apply orb_false_iff in Emd as [Emd _]. exact Emd. }
        apply (pus_unvisited c' (tree_ok_child _ c' Hok Hc'')); try assumption.
        destruct (tree_ok_self _ Hok) as [_ Hsub]. eapply disjoint_sub; [apply (Hsub c' Hc'')|exact Hd].
  Qed.

  (* completeness: every PU outside the dropped set is still there *)
  Lemma pus_complete o : tree_ok o -> forall p, In p (nflatten o) -> otype p = HWLOC_OBJ_PU ->
    mem (o_os (odata p)) dc = false ->
    exists o', fst (fst (robj P o)) = Some o' /\
               exists p', In p' (nflatten o') /\ oid p' = oid p /\ otype p' = HWLOC_OBJ_PU /\ o_os (odata p') = o_os (odata p).
  Proof.
    induction o as [d n m i x Hn Hm Hi Hx] using obj_ind2. intros Hok p Hp Hpu Hmem.
    rewrite nflatten_eq in Hp. cbn [onch] in Hp. destruct Hp as [<-|Hp].
    - destruct (tree_ok_self _ Hok) as [Hq _]. destruct (Hq Hpu) as (Hcs & Hccs & Hnn & Hmm).
      cbn [odata onch omch] in *. subst n m.
      destruct (fst (fst (robj P (Obj d [] [] i x)))) as [o'|] eqn:E.
      + exists o'. split; [reflexivity|]. exists o'. split; [destruct o'; rewrite nflatten_eq; left; reflexivity|].
        destruct (robj P (Obj d [] [] i x)) as [[r io] mx] eqn:R. cbn [fst] in E. subst r.
        pose proof (robj_kept_data _ _ _ _ _ R) as Hd. cbn [odata] in Hd.
        unfold oid, otype. rewrite Hd. repeat split; assumption.
      + apply (pu_removed_iff d i x Hpu Hcs Hccs) in E. congruence.
    - apply in_nflattens in Hp as [c [Hc Hp]]. rewrite Forall_forall in Hn.
      destruct (Hn c Hc (tree_ok_child _ c Hok Hc) p Hp Hpu Hmem) as (c' & Hc' & p' & Hp' & Hid & Hty & Hos).
      (* the child list of the result is not empty, so the object stays *)
      assert (Hn1 : exists e, In e (if snd (clear_sets P d) && (negb (rp_bynode P) || rp_rm P)
                                    then reorder_children (fst (fst (kept_children P d n))) else fst (fst (kept_children P d n))) /\
                              exists p'', In p'' (nflatten e) /\ oid p'' = oid p /\ otype p'' = HWLOC_OBJ_PU /\ o_os (odata p'') = o_os (odata p)).
      { unfold kept_children. destruct (snd (clear_sets P d)); cbn [andb fst].
        - exists c'. split; [|exists p'; auto].
          assert (In c' (fst (fst (rlist P n)))) by (apply rlist_kept_in; exists c; auto).
          destruct (negb (rp_bynode P) || rp_rm P); [apply in_reorder|]; assumption.
        - exists c. split; [assumption|]. exists p. auto. }
      destruct Hn1 as (e & He & p'' & Hp'' & Hrest).
      destruct (fst (fst (robj P (Obj d n m i x)))) as [o'|] eqn:E.
      + exists o'. split; [reflexivity|]. exists p''. split; [|exact Hrest].
        destruct (robj P (Obj d n m i x)) as [[r io] mx] eqn:R. cbn [fst] in E. subst r.
        rewrite robj_eq in R. apply robj_body_kept in R. subst o'.
        rewrite nflatten_eq. right. cbn [onch]. apply in_nflattens. exists e. auto.
      + apply robj_removed_iff in E. cbn zeta in E. destruct E as [E _]. rewrite E in He. contradiction.
  Qed.
End Pus.

(* restrict by cpuset: the PUs afterwards are exactly the old PUs whose os_index is in S *)
Theorem prune_pus_bycpu t S flags t' :
  restrict_prune t S flags = Done t' -> hasf flags HWLOC_RESTRICT_FLAG_BYNODESET = false ->
  tree_ok (tp_root t) ->
  (forall q, In q (nflatten (tp_root t')) -> otype q = HWLOC_OBJ_PU -> mem (o_os (odata q)) S = true) /\
  (forall p, In p (nflatten (tp_root t)) -> otype p = HWLOC_OBJ_PU -> mem (o_os (odata p)) S = true ->
             exists p', In p' (nflatten (tp_root t')) /\ oid p' = oid p /\ otype p' = HWLOC_OBJ_PU /\
                        o_os (odata p') = o_os (odata p)).
Proof.
  intros H Hb Hok. apply restrict_prune_done in H as (P & io & mx & HP & Hr & _ & _).
  destruct (restrict_params_bycpu _ _ _ _ HP Hb) as (Hby & Hdc & _).
  assert (Hfst : fst (fst (robj P (tp_root t))) = Some (tp_root t')) by (rewrite Hr; reflexivity).
  split.
  - intros q Hq Hpu. pose proof (pus_sound P (bs_compl S) Hby Hdc _ Hok _ Hfst q Hq Hpu) as G.
    rewrite mem_compl in G. apply negb_false_iff in G. exact G.
  - intros p Hp Hpu Hm.
    destruct (pus_complete P (bs_compl S) Hby Hdc _ Hok p Hp Hpu) as (o' & Ho' & G).
    + rewrite mem_compl, Hm. reflexivity.
    + rewrite Hfst in Ho'. inversion Ho'; subst. exact G.
Qed.

(* ---------------- hwloc_set_group_depth at the end of the restrict (fix f97426a) ---------------- *)

(* only attr->group.depth changes *)
Lemma set_gdepth_identity d g :
  let d' := set_gdepth d g in
  o_group_depth d' = g /\ o_id d' = o_id d /\ o_gp d' = o_gp d /\ o_type d' = o_type d /\ o_os d' = o_os d /\
  o_cs d' = o_cs d /\ o_ccs d' = o_ccs d /\ o_nds d' = o_nds d /\ o_cnds d' = o_cnds d /\ o_tm d' = o_tm d /\
  o_lm d' = o_lm d /\ o_group_kind d' = o_group_kind d /\ o_group_subkind d' = o_group_subkind d.
Proof. cbn. repeat split. Qed.

Lemma regroup_tree_eq tbl d n m i x :
  regroup_tree tbl (Obj d n m i x) =
  Obj (match assocN (o_id d) tbl with Some g => set_gdepth d g | None => d end) (map (regroup_tree tbl) n) m i x.
Proof. reflexivity. Qed.

(* every object of the renumbered tree is an object of the tree with, at most, its group depth
   replaced by the rank recorded for its id; memory, I/O and Misc subtrees are untouched *)
Theorem regroup_tree_objs tbl o :
  forall q, In q (nflatten (regroup_tree tbl o)) ->
  exists q0, In q0 (nflatten o) /\ omch q = omch q0 /\ oich q = oich q0 /\ oxch q = oxch q0 /\
             odata q = match assocN (oid q0) tbl with Some g => set_gdepth (odata q0) g | None => odata q0 end.
Proof.
  induction o as [d n m i x Hn Hm Hi Hx] using obj_ind2. intros q Hq.
  rewrite regroup_tree_eq, nflatten_eq in Hq. cbn [onch] in Hq. destruct Hq as [<-|Hq].
  - exists (Obj d n m i x). split; [rewrite nflatten_eq; left; reflexivity|]. cbn. repeat split.
  - apply in_nflattens in Hq as [c' [Hc' Hq]]. apply in_map_iff in Hc' as [c [<- Hc]].
    rewrite Forall_forall in Hn. destruct (Hn c Hc q Hq) as (q0 & H0 & Hrest).
    exists q0. split; [|exact Hrest]. rewrite nflatten_eq. right. cbn [onch]. apply in_nflattens. exists c. auto.
Qed.
