(* C01/C07: which objects the synthetic backend asks the core to insert, and in which order
   (hwloc/topology-synthetic.c: hwloc_look_synthetic, hwloc__look_synthetic,
   hwloc_synthetic_insert_attached, hwloc_synthetic_next_index), as a function of the parsed
   description (Text/Synthetic.v: [synth], the output of the model of the parser) and of the type filters.
   Composition: description --parse (C07)--> levels --[requests] (here)--> insertion requests
   --insert_by_cpuset / memory attachment (Topo/Insert.v, Topo/MemAttach.v)--> raw tree
   --set post-processing, removal, merging, levels (Topo/Sets.v ...)--> loaded topology. *)
From Coq Require Import List NArith ZArith Bool.
From HV Require Import Base.BSet Gen.Tables Text.TypeOrder.
From HV Require Text.Synthetic.
Import ListNotations.
Local Open Scope N_scope.


Definition UNKNOWN_INDEX : N := 4294967295.   (* HWLOC_UNKNOWN_INDEX = (unsigned)-1 *)

(* one call of hwloc__insert_object_by_cpuset(topology, NULL, obj) by the backend *)
Record sreq := mkReq {
  r_type : N;
  r_os : N;
  r_cs : bset;
  r_nds : option bset;
  r_mem : N;          (* numanode.local_memory, or cache size *)
  r_depth : N         (* cache depth / group subkind+1 / 0 *)
}.

(* hwloc_synthetic_next_index: the k-th object of a level *)
Definition next_index (arr : option (list N)) (ty k : N) : N :=
  match arr with
  | Some a => nth (N.to_nat k) a 0
  | None => if Synthetic.is_cache ty || (ty =? HWLOC_OBJ_GROUP) then UNKNOWN_INDEX else k
  end.

Definition numa_req (os : N) (set : bset) (mem : N) : sreq :=
  mkReq HWLOC_OBJ_NUMANODE os set (Some (bs_single os)) mem 0.
Definition mscache_req (os : N) (set : bset) (msc : N) : sreq :=
  mkReq HWLOC_OBJ_MEMCACHE UNKNOWN_INDEX set (Some (bs_single os)) msc 1.

(* hwloc_synthetic_insert_attached: the attached NUMA nodes of one object, [k] = numa_attached_indexes.next *)
Fixpoint attached_reqs (keep : N -> bool) (narr : option (list N)) (atts : list Synthetic.attached) (set : bset) (k : N)
  : list sreq * N :=
  match atts with
  | [] => ([], k)
  | a :: tl =>
      let os := next_index narr HWLOC_OBJ_NUMANODE k in
      let mine := numa_req os set (Synthetic.at_mem a)
                  :: (if negb (Synthetic.at_msc a =? 0) && keep HWLOC_OBJ_MEMCACHE then [mscache_req os set (Synthetic.at_msc a)] else []) in
      let '(rest, k') := attached_reqs keep narr tl set (k + 1) in
      (mine ++ rest, k')
  end.

(* counters: one per level (indexes.next), in level order, plus the attached-NUMA counter *)
Definition counters := list N.
Definition cget (c : counters) (l : nat) : N := nth l c 0.
Fixpoint cbump (c : counters) (l : nat) : counters :=
  match c, l with
  | [], _ => []
  | x :: t, O => (x + 1) :: t
  | x :: t, S l' => x :: cbump t l'
  end.

Definition arity_of (lv : Synthetic.level) : nat := match Synthetic.lv_arity lv with Some a => N.to_nat a | None => O end.

(* hwloc__look_synthetic on the levels [lv :: below], [depth] = index of lv in the level array.
   Returns the cpuset of the object, the requests in the order they are issued, the counters, the attached counter. *)
Section Look.
  Variable keep : N -> bool.                 (* hwloc_filter_check_keep_object_type *)
  Variable narr : option (list N).           (* numa_attached_indexes.array *)

  Fixpoint look (levels : list Synthetic.level) (depth : nat) (c : counters) (ka : N) {struct levels}
    : bset * list sreq * counters * N :=
    match levels with
    | [] => (bs_empty, [], c, ka)
    | lv :: below =>
        let ty := Synthetic.lv_type lv in
        let os := next_index (Synthetic.lv_iarr lv) ty (cget c depth) in
        let c := cbump c depth in
        (* the children, one after the other, each adding its cpuset to [set] *)
        let children :=
          (fix rep (n : nat) (set : bset) (rs : list sreq) (c : counters) (ka : N) : bset * list sreq * counters * N :=
             match n with
             | O => (set, rs, c, ka)
             | S n' =>
                 let '(s1, r1, c1, ka1) := look below (S depth) c ka in
                 rep n' (bs_union set s1) (rs ++ r1) c1 ka1
             end) in
        let '(set, rs, c, ka) :=
          match arity_of lv with
          | O => (bs_single os, [], c, ka)
          | n => children n bs_empty [] c ka
          end in
        let own :=
          if keep ty then
            mkReq ty os set (if ty =? HWLOC_OBJ_NUMANODE then Some (bs_single os) else None)
                  (Synthetic.lv_mem lv) (Synthetic.lv_depth lv)
            :: (if (ty =? HWLOC_OBJ_NUMANODE) && negb (Synthetic.lv_msc lv =? 0) && keep HWLOC_OBJ_MEMCACHE
                then [mscache_req os set (Synthetic.lv_msc lv)] else [])
          else [] in
        let '(att, ka) := attached_reqs keep narr (Synthetic.lv_att lv) set ka in
        (set, rs ++ own ++ att, c, ka)
    end.
End Look.

(* hwloc_look_synthetic: level 0 is the Machine (not inserted), then its attached nodes on the whole cpuset *)
Definition requests (keep : N -> bool) (sy : Synthetic.synth) : bset * list sreq :=
  match Synthetic.sy_levels sy with
  | [] => (bs_empty, [])
  | l0 :: below =>
      let c0 := repeat 0 (List.length (Synthetic.sy_levels sy)) in
      let '(set, rs, c, ka) :=
        (fix rep (n : nat) (set : bset) (rs : list sreq) (c : counters) (ka : N) : bset * list sreq * counters * N :=
           match n with
           | O => (set, rs, c, ka)
           | S n' =>
               let '(s1, r1, c1, ka1) := look keep (Synthetic.sy_niarr sy) below 1 c ka in
               rep n' (bs_union set s1) (rs ++ r1) c1 ka1
           end) (arity_of l0) bs_empty [] c0 0 in
      let '(att, _) := attached_reqs keep (Synthetic.sy_niarr sy) (Synthetic.lv_att l0) set ka in
      (set, rs ++ att)
  end.

(* ---------- correspondence: the requests observed through the insertion hook ---------- *)

Definition opt_bs_eqb (a b : option bset) : bool :=
  match a, b with Some x, Some y => bs_eqb x y | None, None => true | _, _ => false end.

(* what is compared for one request: type, os_index, cpuset, nodeset; local memory for NUMA nodes; the cache depth *)
Definition req_matches (m : sreq) (ty os : N) (cs nds : option bset) (lm : N) (cdepth : Z) : bool :=
  (r_type m =? ty) && (r_os m =? os) && opt_bs_eqb (Some (r_cs m)) cs && opt_bs_eqb (r_nds m) nds &&
  (if ty =? HWLOC_OBJ_NUMANODE then r_mem m =? lm else true) &&
  (if Synthetic.is_cache ty || (ty =? HWLOC_OBJ_MEMCACHE) then (Z.of_N (r_depth m) =? cdepth)%Z else true).

Fixpoint first_mismatch (k : nat) (ms : list sreq) (obs : list (N * N * (option bset * option bset) * (N * Z))) : option nat :=
  match ms, obs with
  | [], [] => None
  | m :: ms', (ty, os, (cs, nds), (lm, cd)) :: obs' =>
      if req_matches m ty os cs nds lm cd then first_mismatch (S k) ms' obs' else Some k
  | _, _ => Some k
  end.

(* [desc]: the bytes of the description (NUL-terminated); [filters]: the type filters of the dump header.
   Some None = agreement; Some (Some k) = first differing request; None = the model rejects the description *)
Definition synth_requests_diff (desc : list N) (filters : list N)
  (obs : list (N * N * (option bset * option bset) * (N * Z))) : option (option nat) :=
  match Synthetic.parse Synthetic.Cur desc with
  | Synthetic.Ret sy =>
      let keep := fun ty => negb (nthN filters ty HWLOC_TYPE_FILTER_KEEP_ALL =? HWLOC_TYPE_FILTER_KEEP_NONE) in
      Some (first_mismatch O (snd (requests keep sy)) obs)
  | _ => None
  end.
