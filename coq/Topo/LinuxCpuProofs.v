(* Theorems about the model of look_sysfscpu (Topo/LinuxCpu.v), for every content of the sysfs files
   (well formed or not), every filter assignment and every configuration. *)
From Coq Require Import List NArith ZArith Bool Lia.
From HV Require Import Base.BSet Gen.Tables Text.TypeOrder Topo.SetsProofs Topo.LinuxCpu.
Import ListNotations.
Local Open Scope N_scope.

Lemma sub_inter_r a b : sub (bs_inter a b) b.
Proof. intros i H. rewrite mem_inter in H. now apply andb_true_iff in H. Qed.

Lemma sub_single i s : mem i s = true -> sub (bs_single i) s.
Proof. intros H j Hj. rewrite mem_single in Hj. apply N.eqb_eq in Hj. now subst. Qed.

Lemma inter_opt_sub m cpuset s : inter_opt m cpuset = Some s -> sub s cpuset.
Proof. unfold inter_opt. destruct m; [|discriminate]. intros E; injection E as <-. apply sub_inter_r. Qed.

Definition within (cpuset : bset) (rs : list lreq) : Prop := Forall (fun r => sub (q_cs r) cpuset) rs.
Definition within_opt (cpuset : bset) (o : option bset) : Prop := match o with Some s => sub s cpuset | None => True end.

Section OneCpu.
  Variable keep : N -> bool.
  Variable v : lview.
  Variable cpuset : bset.

  Lemma cache_reqs_within c : within cpuset (cache_reqs keep v cpuset c).
  Proof.
    unfold within, cache_reqs. apply Forall_forall. intros r Hr. apply in_flat_map in Hr as (cf & _ & Hr).
    destruct (read_mask (cf_map cf)) as [m0|]; [|contradiction].
    cbv zeta in Hr.
    destruct (first_is _ (c_n c)); [|contradiction].
    destruct (read_uint (cf_level cf)) as [depth|]; [|contradiction].
    destruct (cache_otype depth (read_ctype (cf_type cf))) as [otype|]; [|contradiction].
    destruct (negb (keep otype)); [contradiction|].
    match type of Hr with context [if ?b then [] else _] => destruct b end; [contradiction|].
    destruct Hr as [<-|[]]. cbn [q_cs]. apply sub_inter_r.
  Qed.

  Lemma core_part_within c twc : mem (c_n c) cpuset = true -> within cpuset (fst (fst (core_part keep v cpuset c twc))).
  Proof.
    intros Hin. unfold core_part. destruct (keep HWLOC_OBJ_CORE); [|constructor].
    destruct (inter_opt (read_mask (c_core c)) cpuset) as [cs|] eqn:E; [|constructor].
    apply inter_opt_sub in E. cbv zeta.
    match goal with |- context [let '(_, _) := ?x in _] => destruct x as [twc' got] end.
    destruct (negb (negb (first_is cs (c_n c))) || negb (twc' =? 0)%Z); [|constructor].
    cbn [fst]. constructor; [|constructor]. cbn [q_cs simple_req].
    destruct (negb (twc' =? 0)%Z); [apply sub_single, Hin|exact E].
  Qed.

  Lemma cluster_part_within c nf : within_opt cpuset (fst (cluster_part keep cpuset c nf)).
  Proof.
    unfold cluster_part. destruct (negb nf && keep HWLOC_OBJ_GROUP); [|exact I].
    destruct (inter_opt (read_mask (c_cluster c)) cpuset) as [cs|] eqn:E; [|exact I].
    apply inter_opt_sub in E. destruct (weight_is_1 cs); [exact I|]. destruct (negb (first_is cs (c_n c))); [exact I|exact E].
  Qed.

  Lemma die_part_within c cl nf : within_opt cpuset cl ->
    within_opt cpuset (fst (fst (die_part keep cpuset c cl nf))) /\ within_opt cpuset (snd (fst (die_part keep cpuset c cl nf))).
  Proof.
    intros Hcl. unfold die_part. destruct (negb nf && keep HWLOC_OBJ_DIE); [|split; [exact I|exact Hcl]].
    destruct (inter_opt (read_mask (c_die c)) cpuset) as [ds|] eqn:E; [|split; [exact I|exact Hcl]].
    apply inter_opt_sub in E.
    destruct (weight_is_1 ds); [cbn; split; [exact I|destruct cl; exact Hcl]|].
    destruct (negb (first_is ds (c_n c))); [cbn; split; [exact I|destruct cl; exact Hcl]|].
    cbn. split; [exact E|]. destruct cl as [cl0|]; [|exact I]. destruct (bs_eqb ds cl0); [exact I|exact Hcl].
  Qed.

  Lemma pkg_part_within c cl nf : within_opt cpuset cl ->
    within cpuset (fst (pkg_part keep cpuset c cl nf)) /\ within_opt cpuset (snd (pkg_part keep cpuset c cl nf)).
  Proof.
    intros Hcl. unfold pkg_part. destruct (negb nf && keep HWLOC_OBJ_PACKAGE); [|split; [constructor|exact Hcl]].
    destruct (inter_opt (read_mask (c_pkg c)) cpuset) as [ps|] eqn:E; [|split; [constructor|exact Hcl]].
    apply inter_opt_sub in E.
    assert (Hcl' : within_opt cpuset (match cl with Some cl0 => if bs_eqb ps cl0 then None else cl | None => None end)).
    { destruct cl as [cl0|]; [|exact I]. destruct (bs_eqb ps cl0); [exact I|exact Hcl]. }
    destruct (first_is ps (c_n c)); cbn [fst snd]; (split; [|exact Hcl']); [constructor; [exact E|constructor]|constructor].
  Qed.

  Lemma s390_one_within c m idf k : within cpuset (s390_one cpuset c m idf k).
  Proof.
    unfold s390_one. destruct (inter_opt (read_mask m) cpuset) as [bs|] eqn:E; [|constructor].
    apply inter_opt_sub in E. destruct (first_is bs (c_n c)); [|constructor]. destruct (read_id idf); [|constructor].
    constructor; [exact E|constructor].
  Qed.

  Lemma s390_part_within c : within cpuset (s390_part keep v cpuset c).
  Proof.
    unfold s390_part. destruct (v_s390 v && keep HWLOC_OBJ_GROUP); [|constructor].
    apply Forall_app. split; [apply s390_one_within|]. destruct (read_mask (c_book c)); [apply s390_one_within|constructor].
  Qed.

  (* every request of one iteration has its cpuset inside the set of cpus under consideration *)
  Lemma one_cpu_within c twc : mem (c_n c) cpuset = true -> within cpuset (fst (one_cpu keep v cpuset c twc)).
  Proof.
    intros Hin. unfold one_cpu.
    pose proof (core_part_within c twc Hin) as Hcore.
    destruct (core_part keep v cpuset c twc) as [[core_rq twc'] nfcore]. cbn [fst] in Hcore.
    pose proof (cluster_part_within c nfcore) as Hcl.
    destruct (cluster_part keep cpuset c nfcore) as [cl nfcl]. cbn [fst] in Hcl.
    pose proof (die_part_within c cl nfcl Hcl) as [Hd Hcl2].
    destruct (die_part keep cpuset c cl nfcl) as [[dieset cl2] nfdie]. cbn [fst snd] in Hd, Hcl2.
    pose proof (pkg_part_within c cl2 nfdie Hcl2) as [Hp Hcl3].
    destruct (pkg_part keep cpuset c cl2 nfdie) as [pkg_rq cl3]. cbn [fst snd] in Hp, Hcl3.
    cbn [fst]. unfold within in *.
    repeat (apply Forall_app; split); try assumption.
    - destruct cl3; [constructor; [exact Hcl3|constructor]|constructor].
    - destruct dieset; [constructor; [exact Hd|constructor]|constructor].
    - apply s390_part_within.
    - constructor; [apply sub_single, Hin|constructor].
    - destruct (v_caches v); [apply cache_reqs_within|constructor].
  Qed.

  (* exactly one PU request per iteration: the singleton of the cpu itself *)
  Lemma one_cpu_pu c twc :
    In (simple_req HWLOC_OBJ_PU (c_n c) (bs_single (c_n c))) (fst (one_cpu keep v cpuset c twc)).
  Proof.
    unfold one_cpu.
    destruct (core_part keep v cpuset c twc) as [[core_rq twc'] nfcore].
    destruct (cluster_part keep cpuset c nfcore) as [cl nfcl].
    destruct (die_part keep cpuset c cl nfcl) as [[dieset cl2] nfdie].
    destruct (pkg_part keep cpuset c cl2 nfdie) as [pkg_rq cl3].
    cbn [fst]. do 5 (apply in_or_app; right). apply in_or_app. left. left. reflexivity.
  Qed.
End OneCpu.

(* ---------- the whole loop ---------- *)

Lemma fold_requests_within keep v cpuset : forall cpus acc twc,
  Forall (fun c => mem (c_n c) cpuset = true) cpus -> within cpuset acc ->
  within cpuset (fst (fold_left (fun '(acc, twc) c => let '(rs, twc') := one_cpu keep v cpuset c twc in (acc ++ rs, twc')) cpus (acc, twc))).
Proof.
  induction cpus as [|c tl IH]; intros acc twc Hc Ha; [exact Ha|].
  inversion Hc as [|c0 l0 Hc1 Hc2]; subst. cbn [fold_left].
  pose proof (one_cpu_within keep v cpuset c twc Hc1) as H1.
  destruct (one_cpu keep v cpuset c twc) as [rs twc']. cbn [fst] in H1.
  apply IH; [exact Hc2|]. apply Forall_app. split; assumption.
Qed.

(* Whatever the files contain: every object the model of look_sysfscpu hands to the core has its cpuset inside
   the set of online cpus that have a topology directory (the same set the PUs are taken from). *)
Theorem linux_requests_within_interesting : forall keep v,
  within (interesting v) (linux_cpu_requests keep v).
Proof.
  intros keep v. unfold linux_cpu_requests. apply fold_requests_within; [|constructor].
  apply Forall_forall. intros c Hc. apply filter_In in Hc as [_ Hc]. exact Hc.
Qed.

Lemma fold_requests_pus keep v cpuset : forall cpus acc twc c,
  In c cpus \/ In (simple_req HWLOC_OBJ_PU (c_n c) (bs_single (c_n c))) acc ->
  In (simple_req HWLOC_OBJ_PU (c_n c) (bs_single (c_n c)))
     (fst (fold_left (fun '(acc, twc) c => let '(rs, twc') := one_cpu keep v cpuset c twc in (acc ++ rs, twc')) cpus (acc, twc))).
Proof.
  induction cpus as [|c0 tl IH]; intros acc twc c H; [destruct H as [[]|H]; exact H|].
  cbn [fold_left]. pose proof (one_cpu_pu keep v cpuset c0 twc) as H0.
  destruct (one_cpu keep v cpuset c0 twc) as [rs twc']. cbn [fst] in H0. apply IH.
  destruct H as [[->|H]|H]; [right; apply in_or_app; right; exact H0|left; exact H|right; apply in_or_app; left; exact H].
Qed.

(* and every such cpu gets its PU: a request of type PU, os_index = the cpu number, cpuset = its singleton *)
Theorem linux_requests_have_every_pu : forall keep v c,
  In c (v_cpus v) -> mem (c_n c) (interesting v) = true ->
  exists c', c_n c' = c_n c /\ In (simple_req HWLOC_OBJ_PU (c_n c') (bs_single (c_n c'))) (linux_cpu_requests keep v).
Proof.
  intros keep v c Hc Hm. unfold linux_cpu_requests.
  assert (Hs : forall l x, In x l -> In x (sort_cpus l)).
  { induction l as [|a t IH]; intros x Hx; [contradiction|]. cbn [sort_cpus fold_right]. fold (sort_cpus t).
    assert (Hi : forall y l0, In x (insert_sorted y l0) <-> x = y \/ In x l0).
    { intros y l0. induction l0 as [|z l1 IH1]; cbn [insert_sorted]; [cbn; intuition|].
      destruct (c_n y <=? c_n z); cbn [In]; [intuition|]. rewrite IH1. intuition. }
    apply Hi. destruct Hx as [->|Hx]; [left; reflexivity|right; apply IH, Hx]. }
  exists c. split; [reflexivity|]. apply fold_requests_pus. left. apply filter_In. split; [apply Hs, Hc|exact Hm].
Qed.
