(* C01: a FAILED hwloc___insert_object_by_cpuset (intersection without inclusion: the put-back path) leaves the
   tree exactly as it was.  The children OBJ had adopted are given back to CUR at their old places, whatever
   lay between them (seeded change C01i put them back consecutively).  Statement for ordered trees
   (DiscInsertProofs.tree_ord), any depth. *)
From Coq Require Import List NArith ZArith Bool Lia Permutation Sorted.
From HV Require Import Base.BSet Gen.Tables Text.TypeOrder Topo.Dump Topo.WFCheck Topo.Obj Topo.Insert Topo.Api Topo.ApiProofs Topo.InsertProofs Topo.DiscInsertProofs.
Import ListNotations.
Local Open Scope N_scope.

Definition ltk (a b : obj) : bool := obj_first_lt (odata a) (odata b).

(* L is K and T shuffled together, each keeping its order *)
Inductive Interleave : list obj -> list obj -> list obj -> Prop :=
| IL_nil : Interleave [] [] []
| IL_left x K T L : Interleave K T L -> Interleave (x :: K) T (x :: L)
| IL_right x K T L : Interleave K T L -> Interleave K (x :: T) (x :: L).

Lemma interleave_left_only K : Interleave K [] K.
Proof. induction K; constructor; assumption. Qed.

Lemma interleave_nil_right K L : Interleave K [] L -> L = K.
Proof.
  remember [] as T eqn:ET. induction 1 as [|x K T L H IH|x K T L H IH]; [reflexivity|subst; now rewrite IH|discriminate].
Qed.

Lemma interleave_app_left K T L tl : Interleave K T L -> Interleave (K ++ tl) T (L ++ tl).
Proof. induction 1; cbn [app]; [apply interleave_left_only|constructor; assumption|constructor; assumption]. Qed.

Lemma interleave_snoc_left K T L c : Interleave K T L -> Interleave (K ++ [c]) T (L ++ [c]).
Proof. apply interleave_app_left. Qed.

Lemma interleave_snoc_right K T L c : Interleave K T L -> Interleave K (T ++ [c]) (L ++ [c]).
Proof. induction 1; cbn [app]; [repeat constructor|constructor; assumption|constructor; assumption]. Qed.

(* every taken element separates L: what precedes it sorts before it, what follows does not *)
Definition sep (L : list obj) (t : obj) : Prop :=
  forall A B, L = A ++ t :: B -> Forall (fun x => ltk x t = true) A /\ Forall (fun x => ltk x t = false) B.

Lemma skip_lt_split t a b :
  Forall (fun x => ltk x t = true) a -> (match b with [] => True | h :: _ => ltk h t = false end) -> skip_lt t (a ++ b) = (a, b).
Proof.
  intros Ha Hb. induction a as [|h tl IH]; cbn [app].
  - destruct b as [|h tl]; cbn [skip_lt]; [reflexivity|]. unfold ltk in Hb. rewrite Hb. reflexivity.
  - inversion Ha as [|? ? H1 H2]; subst. cbn [skip_lt]. unfold ltk in H1. rewrite H1. rewrite (IH H2). reflexivity.
Qed.

(* the put-back scan rebuilds the shuffled list *)
Lemma putback_interleave : forall T K L,
  Interleave K T L -> (forall t, In t T -> sep L t) -> putback K T = L.
Proof.
  induction T as [|t ts IH]; intros K L HI Hsep; cbn [putback].
  - symmetry. apply interleave_nil_right, HI.
  - (* split L at t *)
    assert (G : exists a b L', K = a ++ b /\ L = a ++ t :: L' /\ Interleave b ts L').
    { clear IH Hsep. remember (t :: ts) as T eqn:ET. revert t ts ET.
      induction HI as [|x K T L H IHI|x K T L H IHI]; intros t ts ET; [discriminate| |].
      - destruct (IHI t ts ET) as (a & b & L' & E1 & E2 & E3). exists (x :: a), b, L'. subst. repeat split; assumption.
      - injection ET as -> ->. exists [], K, L. repeat split; assumption. }
    destruct G as (a & b & L' & -> & -> & HI').
    destruct (Hsep t (or_introl eq_refl) a L' eq_refl) as [Ha HL'].
    assert (Hb : match b with [] => True | h :: _ => ltk h t = false end).
    { destruct b as [|h tl]; [exact I|]. rewrite Forall_forall in HL'. apply HL'.
      clear -HI'. remember (h :: tl) as K eqn:EK. revert h tl EK.
      induction HI' as [|x K T L H IHI|x K T L H IHI]; intros h tl EK; [discriminate| |].
      - injection EK as -> ->. left; reflexivity.
      - right. eapply IHI; exact EK. }
    rewrite (skip_lt_split t a b Ha Hb). f_equal.
    apply (IH (t :: b) (t :: L')); [constructor; exact HI'|].
    intros t' Ht' A B E.
    (* sep for the rest: a prefix of the whole list *)
    destruct (Hsep t' (or_intror Ht') (a ++ A) B ltac:(rewrite <- app_assoc; cbn [app]; rewrite E; reflexivity)) as [H1 H2].
    apply Forall_app in H1 as [_ H1]. split; assumption.
Qed.

(* ---------- first indexes ---------- *)

Lemma first_lt_from_sub t od k : sub t od -> first_lt t k = true -> first_lt od k = true.
Proof.
  unfold first_lt. intros Hs.
  destruct (bs_first t) as [ft|] eqn:Ft; [|discriminate].
  destruct (bs_first_some _ _ Ft) as [Mt _].
  destruct (bs_first od) as [fo|] eqn:Fo.
  - destruct (bs_first_some _ _ Fo) as [_ Hmin].
    assert (Hle : fo <= ft).
    { destruct (N.le_gt_cases fo ft) as [H|H]; [exact H|]. specialize (Hmin ft H). rewrite (Hs ft Mt) in Hmin. discriminate. }
    destruct (bs_first k) as [fk|]; [|reflexivity]. rewrite !N.ltb_lt. lia.
  - apply bs_first_none in Fo. subst od. specialize (Hs ft Mt). rewrite mem_empty in Hs. discriminate.
Qed.

(* in a list whose keys are pairwise disjoint and sorted, an element with a non-empty key separates the list strictly *)
Lemma sorted_sep (L : list obj) :
  Forall (fun c => wfk (odata c)) L ->
  ForallOrdPairs disj (map okey L) -> StronglySorted fle (map okey L) ->
  forall t A B, L = A ++ t :: B -> nonempty (okey t) ->
    Forall (fun x => ltk x t = true) A /\ Forall (fun x => ltk x t = false) B /\
    Forall (fun x => first_lt (okey t) (okey x) = true) B.
Proof.
  intros Hw Hd Hs t A B -> Hne.
  assert (Hwt : wfk (odata t)).
  { rewrite Forall_forall in Hw. apply Hw. apply in_or_app. right. left. reflexivity. }
  (* two elements with disjoint keys, the first one sorting not after the second and one of them non-empty: strict *)
  assert (strict : forall a b, disj a b -> fle a b -> nonempty b -> first_lt a b = true).
  { intros a b Hdab Hfle [j Hj]. unfold fle in Hfle. unfold first_lt in *.
    destruct (bs_first b) as [fb|] eqn:Fb; [|apply bs_first_none in Fb; subst b; rewrite mem_empty in Hj; discriminate].
    destruct (bs_first a) as [fa|] eqn:Fa; [|discriminate Hfle].
    apply N.ltb_ge in Hfle. apply N.ltb_lt.
    destruct (N.eq_dec fa fb) as [->|Hn]; [|lia].
    exfalso. destruct (bs_first_some _ _ Fa) as [Ma _]. destruct (bs_first_some _ _ Fb) as [Mb _]. exact (Hdab fb Ma Mb). }
  assert (strict2 : forall a b, disj a b -> fle a b -> nonempty a -> first_lt a b = true).
  { intros a b Hdab Hfle [j Hj]. unfold fle in Hfle. unfold first_lt in *.
    destruct (bs_first a) as [fa|] eqn:Fa; [|apply bs_first_none in Fa; subst a; rewrite mem_empty in Hj; discriminate].
    destruct (bs_first b) as [fb|] eqn:Fb; [|reflexivity].
    apply N.ltb_ge in Hfle. apply N.ltb_lt.
    destruct (N.eq_dec fa fb) as [->|Hn]; [|lia].
    exfalso. destruct (bs_first_some _ _ Fa) as [Ma _]. destruct (bs_first_some _ _ Fb) as [Mb _]. exact (Hdab fb Ma Mb). }
  rewrite map_app in Hd, Hs. cbn [map] in Hd, Hs.
  split; [|split].
  - (* before t *)
    apply Forall_forall. intros a Ha.
    assert (Hwa : wfk (odata a)) by (rewrite Forall_forall in Hw; apply Hw; apply in_or_app; left; exact Ha).
    unfold ltk. rewrite obj_first_lt_key by assumption. change (dcs (odata a)) with (okey a). change (dcs (odata t)) with (okey t).
    apply in_split in Ha as (A1 & A2 & ->). rewrite map_app in Hd, Hs. cbn [map] in Hd, Hs. rewrite <- !app_assoc in Hd, Hs. cbn [app] in Hd, Hs.
    assert (D : disj (okey a) (okey t)).
    { clear -Hd. induction (map okey A1) as [|z zs IH]; cbn [app] in Hd.
      - inversion Hd as [|? ? H1 _]; subst. rewrite Forall_forall in H1. apply H1. apply in_or_app. right. left. reflexivity.
      - inversion Hd; subst. auto. }
    assert (F : fle (okey a) (okey t)).
    { clear -Hs. induction (map okey A1) as [|z zs IH]; cbn [app] in Hs.
      - inversion Hs as [|? ? _ H2]; subst. rewrite Forall_forall in H2. apply H2. apply in_or_app. right. left. reflexivity.
      - inversion Hs; subst. auto. }
    apply strict; assumption.
  - (* after t: not before it *)
    apply Forall_forall. intros b Hb.
    assert (Hwb : wfk (odata b)) by (rewrite Forall_forall in Hw; apply Hw; apply in_or_app; right; right; exact Hb).
    unfold ltk. rewrite obj_first_lt_key by assumption.
    assert (F : fle (okey t) (okey b)).
    { clear -Hs Hb. induction (map okey A) as [|z zs IH]; cbn [app] in Hs.
      - inversion Hs as [|? ? _ H2]; subst. rewrite Forall_forall in H2. apply H2. apply in_map, Hb.
      - inversion Hs; subst. auto. }
    exact F.
  - apply Forall_forall. intros b Hb.
    assert (F : fle (okey t) (okey b)).
    { clear -Hs Hb. induction (map okey A) as [|z zs IH]; cbn [app] in Hs.
      - inversion Hs as [|? ? _ H2]; subst. rewrite Forall_forall in H2. apply H2. apply in_map, Hb.
      - inversion Hs; subst. auto. }
    assert (D : disj (okey t) (okey b)).
    { clear -Hd Hb. induction (map okey A) as [|z zs IH]; cbn [app] in Hd.
      - inversion Hd as [|? ? H1 _]; subst. rewrite Forall_forall in H1. apply H1. apply in_map, Hb.
      - inversion Hd; subst. auto. }
    apply strict2; assumption.
Qed.

(* ---------- the loop ---------- *)

Lemma interleave_prefix_split : forall A B T D,
  Interleave (A ++ B) T D ->
  (forall a t D1 D2, In a A -> In t T -> D = D1 ++ t :: D2 -> ~ In a D2) ->
  NoDup D ->
  exists D', D = A ++ D' /\ Interleave B T D'.
Proof.
  induction A as [|a A IH]; intros B T D HI Hord Hnd; [exists D; split; [reflexivity|exact HI]|].
  cbn [app] in HI. inversion HI as [|x K T0 L H|x K T0 L H]; subst.
  - (* a comes first *)
    inversion Hnd as [|? ? Hna Hnd']; subst.
    destruct (IH B T L H) as (D' & -> & HI'); [|exact Hnd'|exists D'; split; [reflexivity|exact HI']].
    intros a' t D1 D2 Ha' Ht E. apply (Hord a' t (a :: D1) D2 (or_intror Ha') Ht). cbn [app]. now rewrite E.
  - (* a taken element comes first: a would come after it *)
    exfalso. apply (Hord a x [] L (or_introl eq_refl) (or_introl eq_refl) eq_refl).
    clear -H. remember (a :: A ++ B) as K eqn:EK. revert a A EK.
    induction H as [|y K T L H IHI|y K T L H IHI]; intros a A EK; [discriminate| |].
    + injection EK as -> ->. left; reflexivity.
    + right. eapply IHI; exact EK.
Qed.

Section FailLoop.
  Variable rec : obj -> obj -> obj * outcome.
  Variable dms : list N.
  Variable dm_new : bool.
  Variable d : dobj.
  Variables m i x : list obj.
  Variable od : dobj.
  Hypothesis Hod : wfk od.

  Notation vdc := (vd dms dm_new od).
  Notation nsd := (no_sibling_defect dms dm_new od).

  Lemma disj_cmp_sets c : wfk (odata c) -> disj (dcs od) (okey c) -> cmp_sets od (odata c) = DIFFERENT.
  Proof.
    intros Hc Hd. rewrite (cmp_sets_key od (odata c) Hod Hc).
    destruct (bs_is_empty (dcs od)) eqn:E1; [reflexivity|]. destruct (bs_is_empty (dcs (odata c))) eqn:E2; [reflexivity|]. cbn [orb].
    apply not_empty_nonempty in E1 as [a Ha]. apply not_empty_nonempty in E2 as [b Hb].
    unfold cmp_incl.
    destruct (bs_eqb (dcs od) (dcs (odata c))) eqn:Q.
    { apply bs_eqb_spec in Q. exfalso. apply (Hd a Ha). unfold okey. rewrite <- Q. exact Ha. }
    destruct (bs_subset (dcs od) (dcs (odata c))) eqn:S1.
    { exfalso. rewrite bs_subset_spec in S1. exact (Hd a Ha (S1 a Ha)). }
    destruct (bs_subset (dcs (odata c)) (dcs od)) eqn:S2.
    { exfalso. rewrite bs_subset_spec in S2. exact (Hd b (S2 b Hb) Hb). }
    destruct (bs_intersects (dcs od) (dcs (odata c))) eqn:I0; [|reflexivity].
    apply bs_intersects_spec in I0 as (k & K1 & K2). exfalso. exact (Hd k K1 K2).
  Qed.

  Lemma ins_loop_all_different : forall l kept_rev taken putp o,
    odata o = od -> Forall (fun c => cmp_sets od (odata c) = DIFFERENT) l ->
    snd (ins_loop rec dms dm_new d m i x l kept_rev taken putp o) = OInserted.
  Proof.
    induction l as [|c tl IH]; intros kept_rev taken putp o Ho Hall; [reflexivity|].
    inversion Hall as [|c0 tl0 Hc Htl]; subst c0 tl0. cbn [ins_loop]. rewrite Ho. unfold verdict_of. rewrite Hc. apply IH; assumption.
  Qed.

  (* the state of the loop with respect to the original children list L0 *)
  Variable L0 : list obj.
  Hypothesis HwL : Forall (fun c => wfk (odata c)) L0.
  Hypothesis HnL : Forall nsd L0.
  Hypothesis HdL : ForallOrdPairs disj (map okey L0).
  Hypothesis HsL : StronglySorted fle (map okey L0).
  Hypothesis HndL : NoDup L0.
  Hypothesis Hrec : forall c o c', In c L0 -> odata o = od -> rec c o = (c', OFail) -> c' = c.

  Definition taken_ok (t : obj) : Prop := In t L0 /\ nonempty (okey t) /\ sub (okey t) (dcs od).

  Lemma taken_sep t : taken_ok t -> sep L0 t.
  Proof.
    intros (Hin & Hne & _) A B E. destruct (sorted_sep L0 HwL HdL HsL t A B E Hne) as (H1 & H2 & _). split; assumption.
  Qed.

  Lemma putp_next kept_rev putp o c : odata o = od -> putp_inv od kept_rev putp -> putp_inv od (c :: kept_rev) (next_putp putp kept_rev o c).
  Proof.
    intros Ho (A & B & E & HA & Hm). unfold next_putp. destruct putp as [k|].
    - destruct Hm as [-> (b & B' & -> & Hb)]. exists A, ((b :: B') ++ [c]). cbn [rev]. rewrite E, <- app_assoc.
      repeat split; [exact HA|]. exists b, (B' ++ [c]). split; [reflexivity|exact Hb].
    - subst B. rewrite app_nil_r in E. rewrite Ho. fold (ltb_o od c). destruct (ltb_o od c) eqn:L.
      + exists A, [c]. cbn [rev]. rewrite E. repeat split; [exact HA| |].
        * rewrite <- E, rev_length. reflexivity.
        * exists c, []. split; [reflexivity|exact L].
      + exists (A ++ [c]), []. cbn [rev]. rewrite E, app_nil_r. repeat split.
        apply Forall_app. split; [exact HA|constructor; [exact L|constructor]].
  Qed.

  (* the put-back itself: at a failing child, everything goes back to its place *)
  Lemma putback_restores kept_rev taken putp c tl done :
    L0 = done ++ c :: tl -> Interleave (rev kept_rev) taken done ->
    putp_inv od kept_rev putp -> (forall t, In t taken -> taken_ok t) ->
    let full := rev kept_rev ++ c :: tl in
    let k := match putp with Some p => p | None => O end in
    firstn k full ++ putback (skipn k full) taken = L0.
  Proof.
    intros E HI (A & B & EK & HA & Hm) Htk full k.
    assert (Hsep : forall t, In t taken -> sep L0 t) by (intros t Ht; apply taken_sep, Htk, Ht).
    destruct putp as [p|].
    - destruct Hm as [-> (b & B' & -> & Hb)]. subst k full. rewrite EK, <- app_assoc.
      rewrite firstn_app, Nat.sub_diag, firstn_all, skipn_app, Nat.sub_diag, skipn_all. cbn [firstn skipn app]. rewrite app_nil_r.
      (* no taken element lies within A *)
      rewrite EK in HI.
      assert (Hnd : NoDup done).
      { rewrite E in HndL. clear -HndL. induction done as [|z zs IHz]; [constructor|].
        cbn [app] in HndL. inversion HndL as [|? ? Hnz Hnd']; subst. constructor; [|apply IHz, Hnd'].
        intros Hin. apply Hnz. apply in_or_app. left. exact Hin. }
      destruct (interleave_prefix_split A (b :: B') taken done HI) as (D' & -> & HI'); [|exact Hnd|].
      { intros a t D1 D2 Ha Ht Ed Hin.
        (* a after t in L0: then OBJ sorts before a, against the choice of the slot *)
        destruct (Htk t Ht) as (HtL & Hne & Hsub).
        assert (EL : L0 = D1 ++ t :: (D2 ++ c :: tl)) by (rewrite E, Ed, <- app_assoc; reflexivity).
        destruct (sorted_sep L0 HwL HdL HsL t D1 (D2 ++ c :: tl) EL Hne) as (_ & _ & H3).
        rewrite Forall_forall in H3. specialize (H3 a (in_or_app _ _ _ (or_introl Hin))).
        pose proof (first_lt_from_sub (okey t) (dcs od) (okey a) Hsub H3) as H4.
        rewrite Forall_forall in HA. specialize (HA a Ha). unfold ltb_o in HA.
        assert (Hwa : wfk (odata a)).
        { rewrite Forall_forall in HwL. apply HwL. rewrite EL. apply in_or_app. right. right. apply in_or_app. left. exact Hin. }
        rewrite obj_first_lt_key in HA by assumption. unfold okey in H4. congruence. }
      rewrite E, <- app_assoc. f_equal.
      apply putback_interleave.
      + change (b :: B' ++ c :: tl) with ((b :: B') ++ (c :: tl)). apply interleave_app_left, HI'.
      + intros t Ht A1 B1 E1.
        destruct (Hsep t Ht (A ++ A1) B1) as [H1 H2].
        { rewrite E, <- !app_assoc. f_equal. exact E1. }
        apply Forall_app in H1 as [_ H1]. split; assumption.
    - subst B. rewrite app_nil_r in EK. subst k full. cbn [firstn skipn app].
      rewrite E. apply putback_interleave.
      + apply interleave_app_left, HI.
      + intros t Ht. rewrite <- E. apply Hsep, Ht.
  Qed.

  Lemma fop_after (L : list obj) : ForallOrdPairs disj (map okey L) ->
    forall A c B, L = A ++ c :: B -> Forall (fun y => disj (okey c) (okey y)) B.
  Proof.
    intros Hd A c B ->. rewrite map_app in Hd. cbn [map] in Hd.
    induction (map okey A) as [|z zs IH]; cbn [app] in Hd.
    - inversion Hd as [|? ? H1 _]; subst. apply Forall_forall. intros y Hy. rewrite Forall_forall in H1. apply H1, in_map, Hy.
    - inversion Hd; subst. auto.
  Qed.

  Lemma take_true_equal c : wfk (odata c) -> vdc c = VTake true -> dcs od = okey c.
  Proof.
    intros Hc. unfold vd, verdict_of. destruct (cmp_sets od (odata c)) eqn:E; try discriminate.
    intros _. apply cmp_sets_incl in E; [|assumption|assumption|discriminate]. apply cmp_incl_EQUAL in E. exact E.
  Qed.

  (* a child with the same cpuset as OBJ was taken: the rest of the list is disjoint from OBJ, the call cannot fail *)
  Lemma take_true_never_fails c tl done kept_rev taken putp o r :
    odata o = od -> L0 = done ++ c :: tl -> vdc c = VTake true ->
    ins_loop rec dms dm_new d m i x tl kept_rev taken putp o = (r, OFail) -> False.
  Proof.
    intros Ho E V F.
    assert (Hc : wfk (odata c)) by (rewrite Forall_forall in HwL; apply HwL; rewrite E; apply in_or_app; right; left; reflexivity).
    pose proof (take_true_equal c Hc V) as Ek.
    pose proof (fop_after L0 HdL done c tl E) as Hd.
    assert (Hall : Forall (fun y => cmp_sets od (odata y) = DIFFERENT) tl).
    { rewrite Forall_forall in *. intros y Hy. apply disj_cmp_sets.
      - apply HwL. rewrite E. apply in_or_app. right. right. exact Hy.
      - rewrite Ek. apply Hd, Hy. }
    pose proof (ins_loop_all_different tl kept_rev taken putp o Ho Hall) as S. rewrite F in S. discriminate S.
  Qed.

  Lemma fail_after_take j : forall l kept_rev taken putp o r done,
    odata o = od -> mem j (dcs od) = true ->
    L0 = done ++ l -> Interleave (rev kept_rev) taken done ->
    Forall (fun c => mem j (okey c) = false) l ->
    putp_inv od kept_rev putp -> (forall t, In t taken -> taken_ok t) ->
    ins_loop rec dms dm_new d m i x l kept_rev taken putp o = (r, OFail) -> r = Obj d L0 m i x.
  Proof.
    induction l as [|c tl IH]; intros kept_rev taken putp o r done Ho Hj E HI Hjl Hp Htk F.
    - cbn [ins_loop] in F. injection F as _ F. discriminate F.
    - assert (Hcin : In c L0) by (rewrite E; apply in_or_app; right; left; reflexivity).
      assert (Hw : wfk (odata c)) by (rewrite Forall_forall in HwL; apply HwL, Hcin).
      inversion Hjl as [|c0 tl0 Hjc Hjtl]; subst c0 tl0.
      cbn [ins_loop] in F. rewrite Ho in F. fold (vdc c) in F.
      destruct (vdc c) as [| | | | | |mt] eqn:V.
      + injection F as _ F. discriminate F.
      + injection F as _ F. discriminate F.
      + injection F as _ F. discriminate F.
      + exfalso. pose proof (recurse_sub dms dm_new od Hod c Hw V j Hj) as Hc. congruence.
      + injection F as <-. f_equal. apply (putback_restores kept_rev taken putp c tl done E HI Hp Htk).
      + apply (IH (c :: kept_rev) taken (next_putp putp kept_rev o c) o r (done ++ [c]) Ho Hj); try assumption.
        * rewrite E, <- app_assoc. reflexivity.
        * cbn [rev]. apply interleave_snoc_left, HI.
        * apply putp_next; assumption.
      + destruct mt.
        * exfalso. exact (take_true_never_fails c tl done _ _ _ _ _ ltac:(rewrite odata_with_mchildren; exact Ho) E V F).
        * apply (IH kept_rev (taken ++ [c]) putp o r (done ++ [c]) Ho Hj); try assumption.
          -- rewrite E, <- app_assoc. reflexivity.
          -- apply interleave_snoc_right, HI.
          -- intros t Ht. apply in_app_or in Ht as [Ht|[<-|[]]]; [apply Htk, Ht|].
             split; [exact Hcin|]. split; [exact (take_nonempty dms dm_new od Hod c false Hw V)|exact (take_sub dms dm_new od Hod c false Hw V)].
  Qed.

  Lemma fail_before_take : forall l kept_rev putp o r,
    odata o = od -> L0 = rev kept_rev ++ l -> putp_inv od kept_rev putp ->
    ins_loop rec dms dm_new d m i x l kept_rev [] putp o = (r, OFail) -> r = Obj d L0 m i x.
  Proof.
    induction l as [|c tl IH]; intros kept_rev putp o r Ho E Hp F.
    - cbn [ins_loop] in F. injection F as _ F. discriminate F.
    - assert (Hcin : In c L0) by (rewrite E; apply in_or_app; right; left; reflexivity).
      assert (Hw : wfk (odata c)) by (rewrite Forall_forall in HwL; apply HwL, Hcin).
      cbn [ins_loop] in F. rewrite Ho in F. fold (vdc c) in F.
      destruct (vdc c) as [| | | | | |mt] eqn:V.
      + injection F as _ F. discriminate F.
      + injection F as _ F. discriminate F.
      + injection F as _ F. discriminate F.
      + destruct (rec c o) as [c' r'] eqn:R. injection F as <- ->. rewrite (Hrec c o c' Hcin Ho R). now rewrite E.
      + injection F as <-. f_equal. cbn [putback]. rewrite firstn_skipn. now rewrite E.
      + apply (IH (c :: kept_rev) (next_putp putp kept_rev o c) o r Ho); [cbn [rev]; rewrite E, <- app_assoc; reflexivity|apply putp_next; assumption|exact F].
      + destruct mt.
        * exfalso. exact (take_true_never_fails c tl (rev kept_rev) _ _ _ _ _ ltac:(rewrite odata_with_mchildren; exact Ho) E V F).
        * destruct (take_nonempty dms dm_new od Hod c false Hw V) as [j Hj].
          assert (Hjs : mem j (dcs od) = true) by (exact (take_sub dms dm_new od Hod c false Hw V j Hj)).
          apply (fail_after_take j tl kept_rev [c] putp o r (rev kept_rev ++ [c]) Ho Hjs); try assumption.
          -- rewrite E, <- app_assoc. reflexivity.
          -- change [c] with ([] ++ [c]). apply interleave_snoc_right, interleave_left_only.
          -- pose proof (fop_after L0 HdL (rev kept_rev) c tl E) as Hd. rewrite Forall_forall in *. intros y Hy.
             destruct (mem j (okey y)) eqn:M; [|reflexivity]. exfalso. exact (Hd y Hy j Hj M).
          -- intros t [<-|[]]. split; [exact Hcin|]. split; [exists j; exact Hj|exact (take_sub dms dm_new od Hod c false Hw V)].
  Qed.
End FailLoop.

(* ---------- the whole recursive insertion ---------- *)

Definition distinct_children (cur : obj) : Prop := Forall (fun c => NoDup (onch c)) (nflatten cur).

Lemma distinct_children_child d n m i x c : distinct_children (Obj d n m i x) -> In c n -> distinct_children c.
Proof.
  unfold distinct_children. rewrite nflatten_eq. cbn [onch]. intros H Hin. inversion H as [|? ? _ H2]; subst.
  unfold nflattens in H2. rewrite Forall_forall in *. intros y Hy. apply H2. apply in_flat_map. exists c. split; assumption.
Qed.

Theorem failed_insertion_is_identity dms dm_new od (Hod : wfk od) : forall cur,
  tree_ord cur -> defect_free dms dm_new od cur -> distinct_children cur ->
  forall o cur', odata o = od -> insert_by_cpuset dms dm_new cur o = (cur', OFail) -> cur' = cur.
Proof.
  induction cur as [d n m i x IHn _ _ _] using obj_ind4.
  intros Hok Hdf Hdc o cur' Ho F.
  inversion Hok as [d0 n0 m0 i0 x0 Hwd Hlvl Hch]; subst d0 n0 m0 i0 x0.
  cbn [insert_by_cpuset] in F.
  assert (HwL : Forall (fun c => wfk (odata c)) n).
  { eapply Forall_impl; [|exact Hch]. intros c Hc. apply tree_ord_wfk, Hc. }
  assert (Hnd : NoDup n).
  { unfold distinct_children in Hdc. rewrite nflatten_eq in Hdc. inversion Hdc; assumption. }
  assert (Hrec : forall c o1 c1, In c n -> odata o1 = od -> insert_by_cpuset dms dm_new c o1 = (c1, OFail) -> c1 = c).
  { intros c o1 c1 Hc Ho1 R. rewrite Forall_forall in IHn, Hch.
    apply (IHn c Hc (Hch c Hc) (defect_free_child _ _ _ _ _ _ _ _ c Hdf Hc) (distinct_children_child _ _ _ _ _ c Hdc Hc) o1 c1 Ho1 R). }
  assert (Hp0 : putp_inv od [] None) by (exists [], []; repeat split; constructor).
  exact (fail_before_take (insert_by_cpuset dms dm_new) dms dm_new d m i x od Hod n HwL (ld_disj _ _ Hlvl) (ld_sort _ _ Hlvl) Hnd Hrec
                          n [] None o cur' Ho eq_refl Hp0 F).
Qed.

(* Non-vacuity (the shape of seeded change C01i): four Packages numbered round-robin over eight cpus; a Group over
   cpus {0,2,3,4,6} adopts the first Package, leaves the second, adopts the third and intersects the fourth: the
   call fails and the root is exactly what it was, the second Package still between the first and the third *)
Definition fail_tree : obj :=
  Obj (fresh_dobj HWLOC_OBJ_MACHINE 0 (Some (bs_of_N 255)) (Some (bs_of_N 255)) None None (-1)%Z (-1)%Z)
      [rq HWLOC_OBJ_PACKAGE 1 17; rq HWLOC_OBJ_PACKAGE 2 34; rq HWLOC_OBJ_PACKAGE 3 68; rq HWLOC_OBJ_PACKAGE 4 136] [] [] [].
Example failed_insertion_example :
  tree_ordb fail_tree = true /\
  insert_by_cpuset [] false fail_tree (rq HWLOC_OBJ_GROUP 9 93) = (fail_tree, OFail) /\
  snd (insert_by_cpuset [] false fail_tree (rq HWLOC_OBJ_GROUP 9 85)) = OInserted.
Proof. repeat split; vm_compute; reflexivity. Qed.

(* for the tie: after a failed call the C tree below the subtree root must be the tree observed before the call *)
From HV Require Import Topo.Remove Topo.InsertTie.
Definition fail_left_tree_unchanged (d10 d11 : dump) (root : N) : option bool :=
  match tree_of_dump d10, tree_of_dump d11 with
  | Some t10, Some t11 =>
      match find_obj (fun o => oid o =? root) t10 with
      | Some cur =>
          match find_obj (fun o => opt_N_eqb (o_gp (odata o)) (o_gp (odata cur))) t11 with
          | Some cur11 => Some (shape_eqb (shape_of cur) (shape_of cur11))
          | None => None
          end
      | None => None
      end
  | _, _ => None
  end.
